/-
  C06 — Meaning is independent of layout and of how tracks are addressed.

  Theorems over Model/Lexer (Line_Buffer) and Model/Mml (MML_Input) — see the header of each.
  Representation note: a line is a `List Nat` of bytes; theorems that rely on the write-back of
  `unget(c)` being a no-op say `x < 256` for the byte concerned.
-/
import Ctrmml.Proofs.Layout
import Ctrmml.Proofs.Mml
import Ctrmml.Proofs.LayoutLines
import Ctrmml.Proofs.LayoutBlockLines
import Ctrmml.Proofs.LayoutDec
import Ctrmml.Proofs.StarDecimal
import Ctrmml.Proofs.LayoutLines2
import Ctrmml.Proofs.LayoutDec2
import Ctrmml.Proofs.LayoutTransfer
import Ctrmml.Proofs.LayoutBlockLines2
import Ctrmml.Proofs.LayoutCmd3
import Ctrmml.Proofs.LayoutLines3
import Ctrmml.Proofs.LayoutBlock3
import Ctrmml.Proofs.IdsBound
import Ctrmml.Spec.Layout
namespace Ctrmml.C06
open Ctrmml Ctrmml.Tables Ctrmml.Lexer Ctrmml.TrackBuilder Ctrmml.Mml

/-- the text of an ASCII string -/
abbrev tx (s : String) : List Nat := strBytes s

/-- what a list of lines leaves in the song: the error (if any) and, per track, its events -/
def outcome (lines : List String) : Option Err × List (Nat × List Event) :=
  match readLines 0 (lines.map tx) MmlState.init with
  | .ok _ st => (none, st.song.tracks.map fun (id, t) => (id, t.getEvents))
  | .err e st => (some e, st.song.tracks.map fun (id, t) => (id, t.getEvents))

/-! ## each track keeps its own state -/

/-- FRAME PROPERTY, for every text: reading a line leaves every track that is not in the track
list the line ends with (its own header's list, or the remembered one for a continuation line)
exactly as it was — events, octave, default length, quantise / early release, shuffle, key
signature, drum mode, echo state: the whole `Track` value.  Holds whether the line is accepted or
rejected (the state at the error is compared). -/
theorem C06_per_track_state (a : Nat) (text : List Nat) (n : Nat) (s : MmlState)
    (h : a ∉ (readLine text n s).state.trackList) :
    (readLine text n s).state.song.tracks.lookup a = s.song.tracks.lookup a :=
  (tame_readLine a text n).frame s h

/-- non-vacuity: after `A o5 l8 Q4`, the line `B o2 l2 q3 c` leaves track A's octave, length and
quantise alone (and B got its own) -/
example :
    let s1 := (readLine (tx "A o5 l8 Q4") 0 MmlState.init).state
    let s2 := (readLine (tx "B o2 l2 q3 c") 1 s1).state
    (0 ∉ s2.trackList) ∧ (s2.song.tracks.lookup 0).map (fun t => (t.octave, t.defaultDuration, t.quantize)) = some (4, 12, 4) ∧
    (s2.song.tracks.lookup 1).map (fun t => (t.octave, t.defaultDuration, t.earlyRelease)) = some (1, 48, 3) := by
  decide +kernel

/-! ## blanks, bars, comments -/

/-- `get_token()` with the cursor in front of blanks `bl` followed by a non-blank byte `c`:
returns `c` and leaves the cursor behind it -/
theorem getTokenC_at (s : MmlState) (pre bl : List Nat) (c : Nat) (rest : List Nat)
    (hbl : ∀ x ∈ bl, isBlank (schar x) = true) (hc : isBlank (schar c) = false)
    (hb : s.inp.lb = { buf := pre ++ bl ++ c :: rest, column := pre.length }) :
    getTokenC s = .ok (schar c) (setLb s { buf := pre ++ bl ++ c :: rest, column := pre.length + bl.length + 1 }) := by
  rw [getTokenC_skip s pre bl (c :: rest) hbl hb]
  unfold getTokenC LineBuffer.getToken LineBuffer.get
  have h2 : List.drop (pre.length + bl.length) (pre ++ bl ++ c :: rest) = c :: rest := by
    rw [← List.length_append]; simp
  have h3 : (pre ++ bl ++ c :: rest)[pre.length + bl.length]? = some c := by
    rw [← List.length_append]; simp
  simp only [setLb, h2, countBlanks_nonblank c rest hc, Nat.add_zero, h3]

/-- LEADING BLANKS: every command parser starts with `get_token()`, so with the cursor in front of
a run of blanks / tabs it behaves exactly as with the cursor behind the run — for the track loop
(`parse_mml_track`) and the three command tables -/
theorem C06_leading_blanks_skip (s : MmlState) (pre bl rest : List Nat) (hbl : ∀ c ∈ bl, isBlank (schar c) = true)
    (hb : s.inp.lb = { buf := pre ++ bl ++ rest, column := pre.length }) (fuel : Nat) :
    getTokenC s = getTokenC (setLb s { buf := pre ++ bl ++ rest, column := pre.length + bl.length }) ∧
    parseMmlTrackF (fuel + 1) s = parseMmlTrackF (fuel + 1) (setLb s { buf := pre ++ bl ++ rest, column := pre.length + bl.length }) ∧
    mmlBasic s = mmlBasic (setLb s { buf := pre ++ bl ++ rest, column := pre.length + bl.length }) ∧
    mmlControl s = mmlControl (setLb s { buf := pre ++ bl ++ rest, column := pre.length + bl.length }) ∧
    mmlEnvelope s = mmlEnvelope (setLb s { buf := pre ++ bl ++ rest, column := pre.length + bl.length }) := by
  have h := getTokenC_skip s pre bl rest hbl hb
  refine ⟨h, ?_, ?_, ?_, ?_⟩
  · unfold parseMmlTrackF; rw [bind_apply, bind_apply, h]
  · unfold mmlBasic; rw [bind_apply, bind_apply, h]
  · unfold mmlControl; rw [bind_apply, bind_apply, h]
  · unfold mmlEnvelope; rw [bind_apply, bind_apply, h]

example : (∀ c ∈ [32, 9, 32], isBlank (schar c) = true) := by decide

/-- BAR DIVIDER: `|` (after any blanks) is skipped: the track loop continues behind it -/
theorem C06_bar_skip (s : MmlState) (pre bl rest : List Nat) (hbl : ∀ c ∈ bl, isBlank (schar c) = true)
    (hb : s.inp.lb = { buf := pre ++ bl ++ 124 :: rest, column := pre.length }) (fuel : Nat) :
    parseMmlTrackF (fuel + 1) s = parseMmlTrackF fuel (setLb s { buf := pre ++ bl ++ 124 :: rest, column := pre.length + bl.length + 1 }) := by
  have h := getTokenC_at s pre bl 124 rest hbl (by decide) hb
  conv => lhs; unfold parseMmlTrackF
  rw [bind_apply, h]
  rfl

/-- COMMENT: at `;` (after any blanks) the track loop stops: no track is touched and nothing of
the text behind the `;` is looked at — the result is the same state with the cursor behind `;`,
whatever `tail` is -/
theorem C06_comment_invariant (s : MmlState) (pre bl tail : List Nat) (hbl : ∀ c ∈ bl, isBlank (schar c) = true)
    (hb : s.inp.lb = { buf := pre ++ bl ++ 59 :: tail, column := pre.length }) (fuel : Nat) :
    parseMmlTrackF (fuel + 1) s = .ok () (setLb s { buf := pre ++ bl ++ 59 :: tail, column := pre.length + bl.length + 1 }) := by
  have h := getTokenC_at s pre bl 59 tail hbl (by decide) hb
  conv => lhs; unfold parseMmlTrackF
  rw [bind_apply, h]
  rfl

/-- a line that starts with `;` changes nothing but the line buffer -/
theorem C06_comment_line_invariant (s : MmlState) (tail : List Nat) (n : Nat) :
    readLine (59 :: tail) n s = .ok () { s with inp := { lb := { buf := 59 :: tail, column := 1 }, line := n } } := by
  rfl


/-! ## track addressing -/

theorem getC_at (s : MmlState) (pre : List Nat) (c : Nat) (rest : List Nat)
    (hb : s.inp.lb = { buf := pre ++ c :: rest, column := pre.length }) :
    getC s = .ok (schar c) (setLb s { buf := pre ++ c :: rest, column := pre.length + 1 }) := by
  unfold getC LineBuffer.get
  rw [hb]
  simp

theorem schar_small (c : Nat) (h : c < 128) : schar c = (c : Int) := by
  unfold schar
  have : c % 256 = c := by omega
  simp [this, h]

/-- TRACK IDS: in a track list, a letter `A`..`Z` selects track 0..25, a digit `0`..`9` track
26..35, and `*` hands over to `get_num()`: the number read is the track (a missing number is the
input error "expected track number"); the cursor ends behind the address -/
theorem C06_track_id_map (s : MmlState) (pre : List Nat) (c : Nat) (rest : List Nat)
    (hb : s.inp.lb = { buf := pre ++ c :: rest, column := pre.length }) :
    (65 ≤ c → c ≤ 90 → getTrackId s = .ok ((c : Int) - 65) (setLb s { buf := pre ++ c :: rest, column := pre.length + 1 })) ∧
    (48 ≤ c → c ≤ 57 → getTrackId s = .ok ((c : Int) - 48 + 26) (setLb s { buf := pre ++ c :: rest, column := pre.length + 1 })) ∧
    (c = 42 → getTrackId s =
      match getNumC (setLb s { buf := pre ++ c :: rest, column := pre.length + 1 }) with
      | .ok (some v) s' => .ok v s'
      | .ok none s' => .err (.input "expected track number" s'.inp.getReference) s'
      | .err e s' => .err e s') := by
  have hg := getC_at s pre c rest hb
  refine ⟨fun h1 h2 => ?_, fun h1 h2 => ?_, fun h1 => ?_⟩
  · unfold getTrackId
    rw [bind_apply, hg, schar_small c (by omega)]
    have : (decide ((65 : Int) ≤ (c : Int)) && decide ((c : Int) ≤ 90)) = true := by
      simp; omega
    simp only [this, if_true]
    rfl
  · unfold getTrackId
    rw [bind_apply, hg, schar_small c (by omega)]
    have h65 : (decide ((65 : Int) ≤ (c : Int)) && decide ((c : Int) ≤ 90)) = false := by
      simp; omega
    have hd : isDigit (c : Int) = true := by
      unfold isDigit; simp; omega
    simp only [h65, hd, if_true, Bool.false_eq_true, if_false]
    rfl
  · subst h1
    unfold getTrackId
    rw [bind_apply, hg]
    have h42 : schar 42 = 42 := by decide
    rw [h42]
    simp only [show (decide ((65 : Int) ≤ 42) && decide ((42 : Int) ≤ 90)) = false by decide, show isDigit (42 : Int) = false by decide,
      show ((42 : Int) == 42) = true by decide, if_true, Bool.false_eq_true, if_false, bind_apply]
    cases getNumC (setLb s { buf := pre ++ 42 :: rest, column := pre.length + 1 }) with
    | ok r s' => cases r <;> rfl
    | err e s' => rfl

example : ((65 : Nat) ≤ 90 ∧ (48 : Nat) ≤ 57) := by decide

/-- the track list of a line: every address read is appended, reduced to 16 bits
(`track_list.push_back(int)` into a `vector<uint16_t>`), until `get_track_id()` finds no further
address; so `*n` selects track `n mod 65536` -/
theorem C06_track_list_ids (fuel : Nat) (c : Int) (acc : List Nat) (s : MmlState) :
    (∀ c' s', getTrackId s = .ok c' s' → c' ≠ -1 → trackListLoop (fuel + 1) c acc s = trackListLoop fuel c' (acc ++ [wrapU16 c]) s') ∧
    (∀ s', getTrackId s = .ok (-1) s' → trackListLoop (fuel + 1) c acc s = .ok (acc ++ [wrapU16 c]) s') ∧
    (∀ n : Nat, wrapU16 (n : Int) = n % 65536) := by
  refine ⟨fun c' s' h hc => ?_, fun s' h => ?_, fun n => ?_⟩
  · conv => lhs; unfold trackListLoop
    simp only [bind_apply, h]
    have : (c' != -1) = true := by simpa using hc
    simp only [this, if_true]
  · conv => lhs; unfold trackListLoop
    simp only [bind_apply, h]
    rfl
  · unfold wrapU16
    omega

/-- the whole mechanism on a line: letters, digits, `*n` (also beyond 16 bits), in any order -/
example : (readLine (tx "Z09*36*65535*65541A c") 0 MmlState.init).state.trackList = [25, 26, 35, 36, 65535, 5, 0] := by
  decide +kernel

/-- the full statement for `*n`: on a decimal numeral `get_num()` reads its value (proved:
`C06_star_decimal` below) -/
def C06_full_statement_star_decimal : Prop :=
  ∀ (s : MmlState) (pre ds rest : List Nat), ds ≠ [] → (∀ d ∈ ds, d < 10) → digitsValue 10 ds < 2147483648 →
    (∀ c, rest.head? = some c → digitVal 10 c = none) →
    s.inp.lb = { buf := pre ++ 42 :: (decChars ds ++ rest), column := pre.length } →
    getTrackId s = .ok (digitsValue 10 ds : Int) (setLb s { buf := pre ++ 42 :: (decChars ds ++ rest), column := pre.length + 1 + ds.length })

/-- `*n`: for every non-empty decimal digit string (leading zeros included) whose value is an
`int`, followed by anything but a decimal digit, `get_track_id()` returns the value and leaves the
cursor behind the digits — for every line buffer (no assumption that the line holds bytes only) -/
theorem C06_star_decimal : C06_full_statement_star_decimal := by
  intro s pre ds rest hne hds hv hrest hb
  rw [(C06_track_id_map s pre 42 (decChars ds ++ rest) hb).2.2 rfl]
  have hbuf : pre ++ 42 :: (decChars ds ++ rest) = (pre ++ [42]) ++ decChars ds ++ rest := by simp
  have hg := getNum_dec (pre ++ [42]) ds rest hne hds hv hrest
  rw [← hbuf] at hg
  have hlen : (pre ++ [42]).length = pre.length + 1 := by simp
  rw [hlen] at hg
  unfold getNumC
  simp only [setLb, hg]

/-- non-vacuity: `*007` followed by a blank is track 7 -/
example : [0, 0, 7] ≠ [] ∧ (∀ d ∈ [0, 0, 7], d < 10) ∧ digitsValue 10 [0, 0, 7] = 7 ∧
    (∀ c, (tx " c").head? = some c → digitVal 10 c = none) := by decide

/-! ## continuation lines and multi-track lines -/

/-- MULTI-TRACK LINE: `parse_mml` parses the same column range once per listed track, in list
order, with `track_offset` = the position in the list, creating the track when it does not exist,
and stops at the first track that fails (or leaves its conditional block open) -/
theorem C06_multitrack_unfold (s : MmlState) (col i id : Nat) (rest : List Nat) :
    parseMml s = parseMmlLoop s.inp.lb.column 0 s.trackList s ∧
    parseMmlLoop col i [] s = .ok () s ∧
    parseMmlLoop col i (id :: rest) s =
      match parseMmlTrack { setLb s (s.inp.lb.seek col) with trackId := id, trackOffset := i % 65536, song := (setLb s (s.inp.lb.seek col)).song.makeTrack id, conditionalBlock := false } with
      | .ok _ s2 =>
        if s2.conditionalBlock then .err (.input "unterminated conditional block" s2.inp.getReference) s2
        else parseMmlLoop col (i + 1) rest s2
      | .err e s2 => .err e s2 :=
  ⟨rfl, rfl, parseMmlLoop_cons col i id rest s⟩


/-- a second pair with event commands of the widened subset: `AB t120 @3 v12 [c(d)2]4 L p-1 _2 __-1 k3 %5` and
`B t120|@3<tab>v12 [ c ( d )2 ]4`, ` L p-1 _2|__-1 k3<tab>%5 ;end` -/
def exEvMulti : List LLine :=
  [.hdr [.letter 0, .letter 1] 32
    [.cmd (.simple .tempoBpm (some { v := 120 })), .blank 32, .cmd (.simple .ins (some { v := 3 })), .blank 32, .cmd (.simple .vol (some { v := 12 })), .blank 32,
     .cmd (.simple .loopStart none), .cmd (.note 2 .none (.dflt 0)), .cmd (.simple .volDown none), .cmd (.note 3 .none (.dflt 0)),
     .cmd (.simple .volUp (some { v := 2 })), .cmd (.simple .loopEnd (some { v := 4 })), .blank 32, .cmd (.simple .segno none), .blank 32,
     .cmd (.simple .pan (some { v := -1 })), .blank 32, .cmd (.simple .transpose (some { v := 2 })), .blank 32,
     .cmd (.simple .transposeRel (some { v := -1 })), .blank 32, .cmd (.simple .kTranspose (some { v := 3 })), .blank 32,
     .cmd (.simple .platform (some { v := 5 }))] []]

def exEvSingle : List LLine :=
  [.hdr [.letter 1] 32
    [.cmd (.simple .tempoBpm (some { v := 120 })), .bar, .cmd (.simple .ins (some { v := 3 })), .blank 9, .cmd (.simple .vol (some { v := 12 })), .blank 32,
     .cmd (.simple .loopStart none), .blank 32, .cmd (.note 2 .none (.dflt 0)), .blank 32, .cmd (.simple .volDown none), .blank 32,
     .cmd (.note 3 .none (.dflt 0)), .blank 32, .cmd (.simple .volUp (some { v := 2 })), .blank 32, .cmd (.simple .loopEnd (some { v := 4 }))] [],
   .cont 32 [.cmd (.simple .segno none), .blank 32, .cmd (.simple .pan (some { v := -1 })), .blank 32,
     .cmd (.simple .transpose (some { v := 2 })), .bar, .cmd (.simple .transposeRel (some { v := -1 })), .blank 32,
     .cmd (.simple .kTranspose (some { v := 3 })), .blank 9, .cmd (.simple .platform (some { v := 5 })), .blank 32] (tx ";end")]

example : exEvMulti.map LLine.text = [tx "AB t120 @3 v12 [c(d)2]4 L p-1 _2 __-1 k3 %5"] ∧
    exEvSingle.map LLine.text = [tx "B t120|@3\tv12 [ c ( d )2 ]4", tx " L p-1 _2|__-1 k3\t%5 ;end"] ∧ layoutCmds exEvMulti = layoutCmds exEvSingle := by
  refine ⟨by decide, by decide, rfl⟩

example : LinesOk [0, 1] false exEvMulti ∧ LinesOk [1] false exEvSingle ∧
    (∀ id ∈ [0, 1], CmdsOk (trackOf id MmlState.init).strip (layoutCmds exEvMulti)) := by
  decide +kernel

example :
    ((outcome ["AB t120 @3 v12 [c(d)2]4 L p-1 _2 __-1 k3 %5"]).2.lookup 1) = ((outcome ["B t120|@3\tv12 [ c ( d )2 ]4", " L p-1 _2|__-1 k3\t%5 ;end"]).2.lookup 1) ∧
    (outcome ["AB t120 @3 v12 [c(d)2]4 L p-1 _2 __-1 k3 %5"]).1 = none := by
  decide +kernel

/-- a third pair with a reverse rest and a grace note (their side condition — the note before them
is long enough — is part of `CmdsOk`): `AB c4 R8 ~d16 e` and `A c4|R8`, ` ~d16<tab>e` -/
def exRevMulti : List LLine :=
  [.hdr [.letter 0, .letter 1] 32
    [.cmd (.note 2 .none (.len { v := 4 } 0)), .blank 32, .cmd (.revRest (.len { v := 8 } 0)), .blank 32,
     .cmd (.grace 3 .none (.len { v := 16 } 0)), .blank 32, .cmd (.note 4 .none (.dflt 0))] []]

def exRevSingle : List LLine :=
  [.hdr [.letter 0] 32 [.cmd (.note 2 .none (.len { v := 4 } 0)), .bar, .cmd (.revRest (.len { v := 8 } 0))] [],
   .cont 32 [.cmd (.grace 3 .none (.len { v := 16 } 0)), .blank 9, .cmd (.note 4 .none (.dflt 0))] []]

example : exRevMulti.map LLine.text = [tx "AB c4 R8 ~d16 e"] ∧ exRevSingle.map LLine.text = [tx "A c4|R8", tx " ~d16\te"] ∧
    layoutCmds exRevMulti = layoutCmds exRevSingle := by
  refine ⟨by decide, by decide, rfl⟩

example : LinesOk [0, 1] false exRevMulti ∧ LinesOk [0] false exRevSingle ∧
    (∀ id ∈ [0, 1], CmdsOk (trackOf id MmlState.init).strip (layoutCmds exRevMulti)) := by
  decide +kernel

example : ((outcome ["AB c4 R8 ~d16 e"]).2.lookup 0) = ((outcome ["A c4|R8", " ~d16\te"]).2.lookup 0) ∧ (outcome ["AB c4 R8 ~d16 e"]).1 = none := by
  decide +kernel

/-! ## conditional blocks -/

theorem setLb_self (s : MmlState) (b : LineBuffer) (h : s.inp.lb = b) : setLb s b = s := by
  subst h; rfl

/-- the scan of `conditional_block_begin` / `_end` over bytes `xs` none of which stops it, up to
a stopping byte `c` -/
theorem scanTokenC_at (stop : Int → Bool) (s : MmlState) (pre xs : List Nat) (c : Nat) (rest : List Nat)
    (hxs : ∀ x ∈ xs, (schar x == 0 || stop (schar x)) = false) (hc : (schar c == 0 || stop (schar c)) = true)
    (hb : s.inp.lb = { buf := pre ++ xs ++ c :: rest, column := pre.length }) :
    scanTokenC stop s = .ok (schar c) (setLb s { buf := pre ++ xs ++ c :: rest, column := pre.length + (xs.length + 1) }) := by
  have hsc : scanC stop s = .ok (xs, schar c) (setLb s { buf := pre ++ xs ++ c :: rest, column := pre.length + (xs.length + 1) }) := by
    unfold scanC
    simp only [hb]
    have : List.drop pre.length (pre ++ xs ++ c :: rest) = xs ++ c :: rest := by simp
    rw [this, scanUntil_stop stop xs c rest hxs hc]
  unfold scanTokenC
  rw [bind_apply, hsc]
  rfl

def slashStop : Int → Bool := fun c => c == 47 || c == 59

theorem cbGo_select : ∀ (skipped : List (List Nat)) (pre rest : List Nat) (s : MmlState),
    (∀ a ∈ skipped, ∀ x ∈ a, (schar x == 0 || slashStop (schar x)) = false) →
    s.inp.lb = { buf := pre ++ skipped.flatMap (· ++ [47]) ++ rest, column := pre.length } →
    conditionalBlockBegin.go skipped.length s =
      .ok () (setLb s { buf := pre ++ skipped.flatMap (· ++ [47]) ++ rest, column := pre.length + (skipped.flatMap (· ++ [47])).length })
  | [], pre, rest, s, _, hb => by
    simp only [List.flatMap_nil, List.length_nil, Nat.add_zero, List.append_nil] at hb ⊢
    rw [setLb_self s _ hb]
    rfl
  | a :: as, pre, rest, s, hsk, hb => by
    have hb' : s.inp.lb = { buf := pre ++ a ++ 47 :: (as.flatMap (· ++ [47]) ++ rest), column := pre.length } := by
      rw [hb]; simp [List.append_assoc]
    have hscan := scanTokenC_at slashStop s pre a 47 (as.flatMap (· ++ [47]) ++ rest) (hsk a (by simp)) (by decide) hb'
    have ih := cbGo_select as (pre ++ a ++ [47]) rest
      (setLb s { buf := pre ++ a ++ 47 :: (as.flatMap (· ++ [47]) ++ rest), column := pre.length + (a.length + 1) })
      (fun b hb x hx => hsk b (by simp [hb]) x hx)
      (by simp [setLb, List.append_assoc])
    have hscan' : scanTokenC (fun c => c == 47 || c == 59) s = _ := hscan
    have h47 : schar 47 = 47 := by decide
    show conditionalBlockBegin.go (as.length + 1) s = _
    unfold conditionalBlockBegin.go
    rw [bind_apply, hscan', h47]
    simp only [bne_self_eq_false, Bool.false_eq_true, if_false]
    rw [ih]
    simp [setLb, List.append_assoc]
    omega

/-- CONDITIONAL BLOCK, selection (PARTIAL — the hypothesis `hsk` "the skipped alternatives contain no
`/`, `;` or NUL" is exactly what D16 violates): with the cursor behind `{` and `track_offset = i`,
`conditional_block_begin` moves the cursor behind the `i`-th `/`, i.e. to the start of
alternative `i`, sets the block flag and changes nothing else -/
theorem C06_conditional_select_partial (skipped : List (List Nat)) (pre rest : List Nat) (s : MmlState)
    (hsk : ∀ a ∈ skipped, ∀ x ∈ a, (schar x == 0 || (schar x == 47 || schar x == 59)) = false)
    (hoff : s.trackOffset = skipped.length)
    (hb : s.inp.lb = { buf := pre ++ skipped.flatMap (· ++ [47]) ++ rest, column := pre.length }) :
    conditionalBlockBegin s =
      .ok () { setLb s { buf := pre ++ skipped.flatMap (· ++ [47]) ++ rest, column := pre.length + (skipped.flatMap (· ++ [47])).length }
               with conditionalBlock := true } := by
  unfold conditionalBlockBegin
  simp only [bind_apply, getS, modifyS]
  have h := cbGo_select skipped pre rest { s with conditionalBlock := true } hsk hb
  rw [← hoff] at h
  exact h

/-- non-vacuity: `AB {c d/e}` for the second track: skip `c d`, land on `e` -/
example : (∀ a ∈ [tx "c d"], ∀ x ∈ a, (schar x == 0 || (schar x == 47 || schar x == 59)) = false) := by decide

/-! ## whole-line layout invariance

`Proofs/TrackStrip`, `Proofs/LayoutLine`, `Proofs/LayoutLines`.  A *layout* (`LLine`, `Tok`) of a
command list for the track list `ids` is a list of lines, each of them

* `hdr as b ts e`: a track list `as` (letters, digits, `*n`: `HeaderOk`) selecting exactly `ids`, one
  blank or tab `b`, then tokens `ts` — blanks, tabs, `|`, commands in any arrangement — then the
  end of the line `e` (nothing, or `;` and any comment);
* `cont b ts e`: the same without the track list (a continuation line: first byte blank), allowed
  once a header has been read (`LinesOk`);
* `empty`, `comment r`: neutral lines in between.

`ToksOk` asks of the tokens that blanks are space or tab and that every command's look-ahead
condition of C05 (`LCmdTail`) holds on the actual rest of its line — which is the case whenever the
command is followed by at least one blank, tab, `|`, the comment or the end of the line
(`C06_separator_suffices`), so a separator may be dropped only where the spelling stays unambiguous.
`layoutCmds` are the commands of the layout in order.  The result is stated modulo the source
references `parse_mml_track` stamps on the track and its events (`Track.strip`: line and column
necessarily differ between layouts; `Track::get_events()` as the other properties see it carries
no references, `strip_getEvents`). -/

open Ctrmml.MmlMeaning (Cmd) in
/-- every non-empty separator works: behind a blank, a tab, `|`, the `;` comment or at the end of
the line, the look-ahead condition of every command holds -/
theorem C06_separator_suffices (t : Track) (cmd : Cmd) (hn : LCmdNums t cmd) (ts : List Tok) (e : List Nat) (hok : ToksOk ts e)
    (hcov : ∀ c ∈ cmdsOf ts, LCovered c) (he : EndOk e) (hts : ∀ c ts', ts ≠ Tok.cmd c :: ts') :
    LCmdTail cmd (toksText ts e) :=
  cmdTail_of_sep t cmd hn ts e hok hcov he hts

/-- A LAYOUT RUNS AS ITS COMMAND LIST (PARTIAL: `CmdsOk` — every command is in the covered subset
`LCovered` (Proofs/LayoutCmd: the subset C05 covers — notes `a`..`h` with accidental and every
duration form, `r ^ l o < > Q q C s &` — widened by `D n` and the event commands `[ L`, `] ( )`
with or without their number, `* @ v p K E M P G t T _ __ k %` with their number, the reverse rest
`R` and the grace note `~`), its numbers are `int`s accepted by the command, `&` finds its note,
`R` / `~` find a long enough event to shorten; this is the only hypothesis beyond "the lines are a
layout").  From any state, the lines of any layout for the
distinct tracks `ids` are accepted, every listed track ends — up to source references — as after
the builder calls of the layout's commands in order (`runCmds`), and no other track changes. -/
theorem C06_layout_run_partial (ids : List Nat) (ls : List LLine) (n : Nat) (s : MmlState) (r : Bool)
    (hnd : ids.Nodup) (hne : ids ≠ []) (hok : LinesOk ids r ls) (hready : r = true → Ready ids s)
    (hcmds : ∀ id ∈ ids, CmdsOk (trackOf id s).strip (layoutCmds ls)) :
    ∃ s', readLines n (ls.map LLine.text) s = .ok () s' ∧
      (∀ id ∈ ids, (trackOf id s').strip = runCmds (trackOf id s).strip (layoutCmds ls)) ∧
      (∀ b, b ∉ ids → s'.song.tracks.lookup b = s.song.tracks.lookup b) := by
  obtain ⟨s', h1, h2⟩ := readLines_layout ids hnd hne ls n s r hok hready hcmds
  exact ⟨s', h1, h2.tracks, h2.others⟩

/-- LAYOUT INVARIANCE (PARTIAL: same extra hypothesis `CmdsOk`).  Two layouts of the same command
list — different blanks, tabs and bars between the commands, different comments, a different split
into header / continuation / neutral lines, different ways of writing the track list, even
different companion tracks on the lines — started in states that agree on track `a` up to source
references, are both accepted and leave track `a` the same up to source references; in particular
`get_events()` of track `a` is the same list. -/
theorem C06_layout_invariant_partial (a : Nat) (ids1 ids2 : List Nat) (ls1 ls2 : List LLine) (n1 n2 : Nat) (s1 s2 : MmlState) (r1 r2 : Bool)
    (ha1 : a ∈ ids1) (ha2 : a ∈ ids2) (hnd1 : ids1.Nodup) (hnd2 : ids2.Nodup)
    (hok1 : LinesOk ids1 r1 ls1) (hok2 : LinesOk ids2 r2 ls2) (hr1 : r1 = true → Ready ids1 s1) (hr2 : r2 = true → Ready ids2 s2)
    (hsame : layoutCmds ls1 = layoutCmds ls2) (hstart : (trackOf a s1).strip = (trackOf a s2).strip)
    (hc1 : ∀ id ∈ ids1, CmdsOk (trackOf id s1).strip (layoutCmds ls1))
    (hc2 : ∀ id ∈ ids2, CmdsOk (trackOf id s2).strip (layoutCmds ls2)) :
    ∃ s1' s2', readLines n1 (ls1.map LLine.text) s1 = .ok () s1' ∧ readLines n2 (ls2.map LLine.text) s2 = .ok () s2' ∧
      (trackOf a s1').strip = (trackOf a s2').strip ∧ (trackOf a s1').getEvents = (trackOf a s2').getEvents := by
  obtain ⟨s1', h1, t1, _⟩ := C06_layout_run_partial ids1 ls1 n1 s1 r1 hnd1 (List.ne_nil_of_mem ha1) hok1 hr1 hc1
  obtain ⟨s2', h2, t2, _⟩ := C06_layout_run_partial ids2 ls2 n2 s2 r2 hnd2 (List.ne_nil_of_mem ha2) hok2 hr2 hc2
  have hst : (trackOf a s1').strip = (trackOf a s2').strip := by rw [t1 a ha1, t2 a ha2, hsame, hstart]
  refine ⟨s1', s2', h1, h2, hst, ?_⟩
  rw [← Track.strip_getEvents, hst, Track.strip_getEvents]

/-- MULTI-TRACK LINES = SINGLE-TRACK LINES (PARTIAL: `CmdsOk`; lines without conditional blocks).
A layout addressed to the distinct tracks `ids` (`AB… body`) gives each of its tracks `a` exactly
what any layout of the same commands addressed to `a` alone (`A body`) gives it. -/
theorem C06_multitrack_eq_single_partial (ids : List Nat) (a : Nat) (multi single : List LLine) (n1 n2 : Nat) (s : MmlState)
    (ha : a ∈ ids) (hnd : ids.Nodup) (hok1 : LinesOk ids false multi) (hok2 : LinesOk [a] false single)
    (hsame : layoutCmds multi = layoutCmds single)
    (hc : ∀ id ∈ ids, CmdsOk (trackOf id s).strip (layoutCmds multi)) :
    ∃ s1' s2', readLines n1 (multi.map LLine.text) s = .ok () s1' ∧ readLines n2 (single.map LLine.text) s = .ok () s2' ∧
      (trackOf a s1').strip = (trackOf a s2').strip ∧ (trackOf a s1').getEvents = (trackOf a s2').getEvents :=
  C06_layout_invariant_partial a ids [a] multi single n1 n2 s s false false ha (by simp) hnd (by simp) hok1 hok2
    (fun h => by cases h) (fun h => by cases h) hsame rfl hc
    (fun id hid => by
      have : id = a := by simpa using hid
      subst this; rw [← hsame]; exact hc id ha)

/-! ### non-vacuity: two concrete layouts of one command list -/

open Ctrmml.MmlMeaning (Cmd Dur Acc Num) in
/-- `o4 c d8. r > e+:12 &` -/
def exCmds : List Cmd :=
  [.octave { v := 4 }, .note 2 .none (.dflt 0), .note 3 .none (.len { v := 8 } 1), .rest (.dflt 0), .octUp,
   .note 4 .sharp (.frames { v := 12 } 0), .slur]

/-- `AB o4 c d8. r > e+:12 &` -/
def exMulti : List LLine :=
  [.hdr [.letter 0, .letter 1] 32
    [.cmd (.octave { v := 4 }), .blank 32, .cmd (.note 2 .none (.dflt 0)), .blank 32, .cmd (.note 3 .none (.len { v := 8 } 1)), .blank 32,
     .cmd (.rest (.dflt 0)), .blank 32, .cmd .octUp, .blank 32, .cmd (.note 4 .sharp (.frames { v := 12 } 0)), .blank 32, .cmd .slur] []]

/-- `*1<tab>o4c|d8.  r;x`, an empty line, `; note`, ` <tab>>e+:12&  | ; done`: no separator where
the spelling is unambiguous, a bar, double blanks, comments, neutral lines, a continuation line -/
def exSingle : List LLine :=
  [.hdr [.star 1] 9
    [.cmd (.octave { v := 4 }), .cmd (.note 2 .none (.dflt 0)), .bar, .cmd (.note 3 .none (.len { v := 8 } 1)), .blank 32, .blank 32,
     .cmd (.rest (.dflt 0))] (tx ";x"),
   .empty, .comment (tx " note"),
   .cont 32 [.blank 9, .cmd .octUp, .cmd (.note 4 .sharp (.frames { v := 12 } 0)), .cmd .slur, .blank 32, .blank 32, .bar, .blank 32] (tx "; done")]

/-- the texts and the command lists are what the comments say -/
example : exMulti.map LLine.text = [tx "AB o4 c d8. r > e+:12 &"] ∧
    exSingle.map LLine.text = [tx "*1\to4c|d8.  r;x", [], tx "; note", tx " \t>e+:12&  | ; done"] ∧
    layoutCmds exMulti = exCmds ∧ layoutCmds exSingle = exCmds := by
  refine ⟨by decide, by decide, rfl, rfl⟩

/-- the hypotheses of `C06_layout_run_partial`, `C06_layout_invariant_partial` and
`C06_multitrack_eq_single_partial` hold for them, started on the empty song -/
example : LinesOk [0, 1] false exMulti ∧ LinesOk [1] false exSingle ∧ [0, 1].Nodup ∧
    (∀ id ∈ [0, 1], CmdsOk (trackOf id MmlState.init).strip (layoutCmds exMulti)) := by
  decide +kernel

/-- … and the model, evaluated on the two texts, agrees with the conclusion: track B gets the same events -/
example :
    ((outcome ["AB o4 c d8. r > e+:12 &"]).2.lookup 1) = ((outcome ["*1\to4c|d8.  r;x", "", "; note", " \t>e+:12&  | ; done"]).2.lookup 1) ∧
    (outcome ["AB o4 c d8. r > e+:12 &"]).1 = none := by
  decide +kernel

/-- a separator behind a command: the hypothesis of `C06_separator_suffices` -/
example : ∀ c ts', [Tok.blank 9, Tok.bar, Tok.cmd .octUp] ≠ Tok.cmd c :: ts' := by
  intro c ts' h; cases h

/-! ## conditional blocks

`Proofs/LayoutBlock`, `Proofs/LayoutBlockLines`.  The body of a line is now a list of `Item`s: a
run of tokens, or a block `{a₀/a₁/…}` whose alternatives are token lists (`BLine`, `BLinesOk`).
`ItemsOk j` asks, for the track at position `j` of the line's track list, that the block has an
alternative `j`, that NO alternative of the block contains `/`, `;`, `}` or NUL (`Clean` — the
hypothesis of `C06_conditional_select_partial`; exactly what D16 violates), and `ToksOk` of the
selected alternative.  `blayoutCmds j` are the commands position `j` receives (`Item.sel`:
a plain command goes to every track, a block gives alternative `j`). -/

/-- A MULTI-TRACK LAYOUT WITH CONDITIONAL BLOCKS RUNS, PER TRACK, AS THAT TRACK'S OWN COMMAND
LIST (PARTIAL: `CmdsOk` — covered command subset `LCovered`, numbers in range — for what each track
receives; the `Clean` hypothesis inside `BLinesOk` is the documented limit D16).  The lines are
accepted; the track at position `j` of the track list ends, up to source references, as after the
builder calls of `blayoutCmds j`; no other track changes. -/
theorem C06_multitrack_blocks_run_partial (ids : List Nat) (ls : List BLine) (n : Nat) (s : MmlState) (r : Bool)
    (hnd : ids.Nodup) (hne : ids ≠ []) (hlen : ids.length ≤ 65536) (hok : BLinesOk ids r ls) (hready : r = true → Ready ids s)
    (hcmds : ∀ j id, ids[j]? = some id → CmdsOk (trackOf id s).strip (blayoutCmds j ls)) :
    ∃ s', readLines n (ls.map BLine.text) s = .ok () s' ∧
      (∀ j id, ids[j]? = some id → (trackOf id s').strip = runCmds (trackOf id s).strip (blayoutCmds j ls)) ∧
      (∀ b, b ∉ ids → s'.song.tracks.lookup b = s.song.tracks.lookup b) := by
  obtain ⟨s', h1, h2⟩ := readLines_blayout ids hnd hne hlen ls n s r hok hready hcmds
  exact ⟨s', h1, h2.tracks, h2.others⟩

/-- MULTI-TRACK LINES WITH BLOCKS = THE EQUIVALENT SINGLE-TRACK LINES (PARTIAL: `CmdsOk`, and
`Clean` inside `BLinesOk`).  For the track `a` at position `j`: the multi-track layout and ANY
block-free layout addressed to `a` alone whose commands are `a`'s selection (plain commands and
alternative `j` of every block) are both accepted and leave track `a` the same up to source
references — the same `get_events()`. -/
theorem C06_multitrack_eq_single_blocks_partial (ids : List Nat) (j a : Nat) (multi : List BLine) (single : List LLine) (n1 n2 : Nat) (s : MmlState)
    (hj : ids[j]? = some a) (hnd : ids.Nodup) (hlen : ids.length ≤ 65536)
    (hok1 : BLinesOk ids false multi) (hok2 : LinesOk [a] false single)
    (hsame : layoutCmds single = blayoutCmds j multi)
    (hc : ∀ j id, ids[j]? = some id → CmdsOk (trackOf id s).strip (blayoutCmds j multi)) :
    ∃ s1' s2', readLines n1 (multi.map BLine.text) s = .ok () s1' ∧ readLines n2 (single.map LLine.text) s = .ok () s2' ∧
      (trackOf a s1').strip = (trackOf a s2').strip ∧ (trackOf a s1').getEvents = (trackOf a s2').getEvents := by
  have hne : ids ≠ [] := by intro h; rw [h] at hj; simp at hj
  obtain ⟨s1', h1, t1, _⟩ := C06_multitrack_blocks_run_partial ids multi n1 s false hnd hne hlen hok1 (fun h => by cases h) hc
  obtain ⟨s2', h2, t2, _⟩ := C06_layout_run_partial [a] single n2 s false (by simp) (by simp) hok2 (fun h => by cases h)
    (fun id hid => by
      have : id = a := by simpa using hid
      subst this; rw [hsame]; exact hc j id hj)
  have hst : (trackOf a s1').strip = (trackOf a s2').strip := by rw [t1 j a hj, t2 a (by simp), hsame]
  refine ⟨s1', s2', h1, h2, hst, ?_⟩
  rw [← Track.strip_getEvents, hst, Track.strip_getEvents]

/-- the `Clean` hypothesis is automatic inside the covered subset: an alternative made of blanks,
tabs, bars and covered commands never spells `/`, `;`, `}` or NUL (the commands that do — loop
break, key signatures — are outside `LCovered`); what remains of D16 for such blocks is only
"one alternative per track" -/
theorem C06_alternatives_clean (a : List Tok) (hb : ∀ b, Tok.blank b ∈ a → b = 32 ∨ b = 9) (hcov : ∀ c ∈ cmdsOf a, LCovered c) :
    Clean (altText a) :=
  clean_alt a hb hcov

example : (∀ b, Tok.blank b ∈ [Tok.blank 32, Tok.cmd (.simple .loopEnd (some { v := 4 }))] → b = 32 ∨ b = 9) ∧
    (∀ c ∈ cmdsOf [Tok.blank 32, Tok.cmd (.simple .loopEnd (some { v := 4 }))], LCovered c) := by
  refine ⟨fun b hb => ?_, fun c hc => ?_⟩
  · simp at hb; exact Or.inl hb
  · simp [cmdsOf] at hc; subst hc; decide

/-- every command token is followed by a separator (or ends its run) -/
def SepToks : List Tok → Prop
  | .cmd _ :: .cmd _ :: _ => False
  | _ :: ts => SepToks ts
  | [] => True

def SepItems (items : List Item) : Prop :=
  ∀ it ∈ items, match it with
    | .toks ts => SepToks ts
    | .block alts => ∀ a ∈ alts, SepToks a

def _root_.Ctrmml.Mml.BLine.items : BLine → List Item
  | .hdr _ _ items _ => items
  | .cont _ items _ => items
  | _ => []

/-- the full statement of `multitrack_eq_single`, for EVERY command of the AST `MmlMeaning.Cmd`
(`Tok.cmd` takes any `Cmd`: all documented commands but the platform-exclusive string `'…'`), from
the empty song: a multi-track layout with conditional blocks whose
alternatives are `Clean`, every command followed by a separator, is accepted exactly when the
single-track layouts of all its tracks are, and then gives each track the events of its
single-track layout.  NOT proved in this generality: `C06_multitrack_eq_single_blocks_partial`
has the extra hypothesis `CmdsOk` (every command in the covered subset `LCovered`, numbers in
range, `&` finds its note), under which everything is accepted.  Without `Clean` the statement is false:
D16, `C06_nested_separator_counterexample`. -/
def C06_full_statement_multitrack_eq_single : Prop :=
  ∀ (ids : List Nat) (multi : List BLine) (single : Nat → List LLine),
    ids.Nodup → ids ≠ [] → ids.length ≤ 65536 → BLinesOk ids false multi → (∀ l ∈ multi, SepItems l.items) →
    (∀ j a, ids[j]? = some a → LinesOk [a] false (single j) ∧ layoutCmds (single j) = blayoutCmds j multi) →
    ((∃ s', readLines 0 (multi.map BLine.text) MmlState.init = .ok () s') ↔
      ∀ j a, ids[j]? = some a → ∃ s', readLines 0 ((single j).map LLine.text) MmlState.init = .ok () s') ∧
    (∀ s1, readLines 0 (multi.map BLine.text) MmlState.init = .ok () s1 → ∀ j a, ids[j]? = some a →
      ∀ s2, readLines 0 ((single j).map LLine.text) MmlState.init = .ok () s2 →
        (trackOf a s1).getEvents = (trackOf a s2).getEvents)

def _root_.Ctrmml.Mml.LLine.toks : LLine → List Tok
  | .hdr _ _ ts _ => ts
  | .cont _ ts _ => ts
  | _ => []

/-- the full statement of layout invariance, for EVERY command of the AST `MmlMeaning.Cmd`, from
the empty song: two layouts of one command list, every command followed by a separator, are both accepted
or both rejected, and when accepted give the track the same events.  NOT proved in this
generality: `C06_layout_invariant_partial` has the extra hypothesis `CmdsOk` (covered subset). -/
def C06_full_statement_layout_invariant : Prop :=
  ∀ (a : Nat) (ids1 ids2 : List Nat) (ls1 ls2 : List LLine),
    a ∈ ids1 → a ∈ ids2 → ids1.Nodup → ids2.Nodup → LinesOk ids1 false ls1 → LinesOk ids2 false ls2 →
    (∀ l ∈ ls1 ++ ls2, SepToks l.toks) → layoutCmds ls1 = layoutCmds ls2 →
    match readLines 0 (ls1.map LLine.text) MmlState.init, readLines 0 (ls2.map LLine.text) MmlState.init with
    | .ok _ s1, .ok _ s2 => (trackOf a s1).getEvents = (trackOf a s2).getEvents
    | .err _ _, .err _ _ => True
    | _, _ => False

/-! ### non-vacuity: a layout with blocks, bars, an empty alternative and a continuation line -/

/-- `ABC o4{c/d+/g} | {d 8/ /a:12} e`, then ` {/>f/}{g/a/b};x` -/
def exBlocks : List BLine :=
  [.hdr [.letter 0, .letter 1, .letter 2] 32
    [.toks [.cmd (.octave { v := 4 })],
     .block [[.cmd (.note 2 .none (.dflt 0))], [.cmd (.note 3 .sharp (.dflt 0))], [.cmd (.note 6 .none (.dflt 0))]],
     .toks [.blank 32, .bar, .blank 32],
     .block [[.cmd (.note 3 .none (.dflt 0)), .blank 32, .cmd (.length (.len { v := 8 } 0))], [.blank 32], [.cmd (.note 0 .none (.frames { v := 12 } 0))]],
     .toks [.blank 32, .cmd (.note 4 .none (.dflt 0))]] [],
   .cont 32
    [.block [[], [.cmd .octUp, .cmd (.note 5 .none (.dflt 0))], []],
     .block [[.cmd (.note 6 .none (.dflt 0))], [.cmd (.note 0 .none (.dflt 0))], [.cmd (.note 1 .none (.dflt 0))]]] (tx ";x")]

/-- what `B` receives, as the single-track lines `B o4 d+ e`, ` > f a` -/
def exBlocksB : List LLine :=
  [.hdr [.letter 1] 32 [.cmd (.octave { v := 4 }), .blank 32, .cmd (.note 3 .sharp (.dflt 0)), .blank 32, .cmd (.note 4 .none (.dflt 0))] [],
   .cont 32 [.cmd .octUp, .blank 32, .cmd (.note 5 .none (.dflt 0)), .blank 32, .cmd (.note 0 .none (.dflt 0))] []]

example : exBlocks.map BLine.text = [tx "ABC o4{c/d+/g} | {d l8/ /a:12} e", tx " {/>f/}{g/a/b};x"] ∧
    exBlocksB.map LLine.text = [tx "B o4 d+ e", tx " > f a"] ∧ layoutCmds exBlocksB = blayoutCmds 1 exBlocks := by
  refine ⟨by decide, by decide, rfl⟩

/-- the hypotheses of `C06_multitrack_blocks_run_partial` / `C06_multitrack_eq_single_blocks_partial` hold -/
example : BLinesOk [0, 1, 2] false exBlocks ∧ LinesOk [1] false exBlocksB ∧ [0, 1, 2].Nodup ∧
    (∀ j, j < 3 → CmdsOk (trackOf ([0, 1, 2].getD j 0) MmlState.init).strip (blayoutCmds j exBlocks)) := by
  decide +kernel

/-- … and the model evaluated on the texts agrees: B's events are those of its single-track lines -/
example :
    ((outcome ["ABC o4{c/d+/g} | {d l8/ /a:12} e", " {/>f/}{g/a/b};x"]).2.lookup 1) = ((outcome ["B o4 d+ e", " > f a"]).2.lookup 1) ∧
    (outcome ["ABC o4{c/d+/g} | {d l8/ /a:12} e", " {/>f/}{g/a/b};x"]).1 = none := by
  decide +kernel

/-! ## D16: the textual scan of conditional blocks -/

/-- D16, first face: a loop break or a key signature inside an alternative is taken for the
block's own `/` or `}` — the multi-track line is NOT equivalent to the single-track lines:
`AB o4 {[c/d]2/e} g` gives A `[c g` and B `d]2 g` where `A o4 [c/d]2 g` + `B o4 e g` give the loop
to A and `e g` to B; `AB o4 {c/_{D} f} g` is rejected although `A o4 c g` + `B o4 _{D} f g` is fine -/
theorem C06_nested_separator_counterexample :
    (outcome ["AB o4 {[c/d]2/e} g"]).1 = none ∧ (outcome ["A o4 [c/d]2 g", "B o4 e g"]).1 = none ∧
    (outcome ["AB o4 {[c/d]2/e} g"]).2 ≠ (outcome ["A o4 [c/d]2 g", "B o4 e g"]).2 ∧
    (outcome ["AB o4 {c/_{D} f} g"]).1 = some (.input "unknown MML command" { line := 0, column := 15 }) ∧
    (outcome ["A o4 c g", "B o4 _{D} f g"]).1 = none := by
  decide +kernel

/-- D16, second face: a block with fewer alternatives than tracks is accepted when a `/` follows
later on the line: `ABC {c/d} {e/f/g}` is accepted and gives C the single note `f` -/
theorem C06_short_block_counterexample :
    outcome ["ABC {c/d} {e/f/g}"] =
      (none, [(0, [{ type := ev_NOTE, param := 60, on := 24, off := 0 }, { type := ev_NOTE, param := 64, on := 24, off := 0 }]),
              (1, [{ type := ev_NOTE, param := 62, on := 24, off := 0 }, { type := ev_NOTE, param := 65, on := 24, off := 0 }]),
              (2, [{ type := ev_NOTE, param := 65, on := 24, off := 0 }])]) := by
  decide +kernel

/-! ## round 3: fine volume, echo and loop break in the covered set; the track-count bound derived

`LCovered2` (= `L2.LCovered`, Proofs/LayoutCmd2) is `LCovered` widened by the fine volume `V n`
(n ≥ 0 as written), `V+n`, `V-n` (n > 0, decimal: the `-` is put back and read as the sign of the
number), the echo `\` with every duration form, and the loop break `/`.  `L2.CmdsOk`, `L2.runCmds`,
`L2.ToksOk`, `L2.LinesOk` are the notions of round 2 over this set (Proofs/LayoutLine2,
Proofs/LayoutLines2); lines, tokens, addresses, `trackOf`, `Ready`, `layoutCmds` are unchanged.
Two side conditions are new and explicit:
* the loop break is covered on lines WITHOUT conditional blocks only (these theorems; `lcmd_step2`
  carries `s.conditionalBlock = false`): inside a block the byte `/` is the alternative separator;
* the look-ahead condition of `\` (`L2.LCmdTail`) asks, beyond `DurTail`, that the byte directly
  behind `\` is neither a blank nor `=` (`EchoHead`): `mml_echo` reads it with `get_token()` to tell
  `\` from `\=`, so `\ 4` is a different text from `\4` only through the blanks `get_token` skips;
  that case (and the echo setting `\=d,v`) stays with the oracle. -/

/-- A LAYOUT RUNS AS ITS COMMAND LIST, round 3 (PARTIAL: `L2.CmdsOk` — commands in `LCovered2`,
numbers in range; lines without conditional blocks).  Same statement as `C06_layout_run_partial`
over the wider command set. -/
theorem C06_layout_run2_partial (ids : List Nat) (ls : List LLine) (n : Nat) (s : MmlState) (r : Bool)
    (hnd : ids.Nodup) (hne : ids ≠ []) (hok : L2.LinesOk ids r ls) (hready : r = true → Ready ids s)
    (hcmds : ∀ id ∈ ids, L2.CmdsOk (trackOf id s).strip (layoutCmds ls)) :
    ∃ s', readLines n (ls.map LLine.text) s = .ok () s' ∧
      (∀ id ∈ ids, (trackOf id s').strip = L2.runCmds (trackOf id s).strip (layoutCmds ls)) ∧
      (∀ b, b ∉ ids → s'.song.tracks.lookup b = s.song.tracks.lookup b) := by
  obtain ⟨s', h1, h2⟩ := L2.readLines_layout ids hnd hne ls n s r hok hready hcmds
  exact ⟨s', h1, h2.tracks, h2.others⟩

/-- LAYOUT INVARIANCE, round 3 (PARTIAL: `L2.CmdsOk`): `C06_layout_invariant_partial` for command
lists that may contain `V n`, `V+n`, `V-n`, `\`, and the loop break `/`. -/
theorem C06_layout_invariant2_partial (a : Nat) (ids1 ids2 : List Nat) (ls1 ls2 : List LLine) (n1 n2 : Nat) (s1 s2 : MmlState) (r1 r2 : Bool)
    (ha1 : a ∈ ids1) (ha2 : a ∈ ids2) (hnd1 : ids1.Nodup) (hnd2 : ids2.Nodup)
    (hok1 : L2.LinesOk ids1 r1 ls1) (hok2 : L2.LinesOk ids2 r2 ls2) (hr1 : r1 = true → Ready ids1 s1) (hr2 : r2 = true → Ready ids2 s2)
    (hsame : layoutCmds ls1 = layoutCmds ls2) (hstart : (trackOf a s1).strip = (trackOf a s2).strip)
    (hc1 : ∀ id ∈ ids1, L2.CmdsOk (trackOf id s1).strip (layoutCmds ls1))
    (hc2 : ∀ id ∈ ids2, L2.CmdsOk (trackOf id s2).strip (layoutCmds ls2)) :
    ∃ s1' s2', readLines n1 (ls1.map LLine.text) s1 = .ok () s1' ∧ readLines n2 (ls2.map LLine.text) s2 = .ok () s2' ∧
      (trackOf a s1').strip = (trackOf a s2').strip ∧ (trackOf a s1').getEvents = (trackOf a s2').getEvents := by
  obtain ⟨s1', h1, t1, _⟩ := C06_layout_run2_partial ids1 ls1 n1 s1 r1 hnd1 (List.ne_nil_of_mem ha1) hok1 hr1 hc1
  obtain ⟨s2', h2, t2, _⟩ := C06_layout_run2_partial ids2 ls2 n2 s2 r2 hnd2 (List.ne_nil_of_mem ha2) hok2 hr2 hc2
  have hst : (trackOf a s1').strip = (trackOf a s2').strip := by rw [t1 a ha1, t2 a ha2, hsame, hstart]
  refine ⟨s1', s2', h1, h2, hst, ?_⟩
  rw [← Track.strip_getEvents, hst, Track.strip_getEvents]

/-- MULTI-TRACK LINES = SINGLE-TRACK LINES, round 3 (PARTIAL: `L2.CmdsOk`; lines without
conditional blocks): `C06_multitrack_eq_single_partial` over the wider command set. -/
theorem C06_multitrack_eq_single2_partial (ids : List Nat) (a : Nat) (multi single : List LLine) (n1 n2 : Nat) (s : MmlState)
    (ha : a ∈ ids) (hnd : ids.Nodup) (hok1 : L2.LinesOk ids false multi) (hok2 : L2.LinesOk [a] false single)
    (hsame : layoutCmds multi = layoutCmds single)
    (hc : ∀ id ∈ ids, L2.CmdsOk (trackOf id s).strip (layoutCmds multi)) :
    ∃ s1' s2', readLines n1 (multi.map LLine.text) s = .ok () s1' ∧ readLines n2 (single.map LLine.text) s = .ok () s2' ∧
      (trackOf a s1').strip = (trackOf a s2').strip ∧ (trackOf a s1').getEvents = (trackOf a s2').getEvents :=
  C06_layout_invariant2_partial a ids [a] multi single n1 n2 s s false false ha (by simp) hnd (by simp) hok1 hok2
    (fun h => by cases h) (fun h => by cases h) hsame rfl hc
    (fun id hid => by
      have : id = a := by simpa using hid
      subst this; rw [← hsame]; exact hc id ha)

open Ctrmml.MmlMeaning (Cmd Dur Acc Num) in
/-- `[ c V10 / V+2 \4 V-3 ]2` -/
def exCmds2 : List Cmd :=
  [.simple .loopStart none, .note 2 .none (.dflt 0), .simple .volFine (some { v := 10 }), .simple .loopBreak none,
   .simple .volFineUp (some { v := 2 }), .echo (.len { v := 4 } 0), .simple .volFineDown (some { v := 3 }),
   .simple .loopEnd (some { v := 2 })]

/-- `AB [c V10 / V+2 \4 V-3 ]2` -/
def exMulti2 : List LLine :=
  [.hdr [.letter 0, .letter 1] 32
    [.cmd (.simple .loopStart none), .cmd (.note 2 .none (.dflt 0)), .blank 32, .cmd (.simple .volFine (some { v := 10 })), .blank 32,
     .cmd (.simple .loopBreak none), .blank 32, .cmd (.simple .volFineUp (some { v := 2 })), .blank 32, .cmd (.echo (.len { v := 4 } 0)),
     .blank 32, .cmd (.simple .volFineDown (some { v := 3 })), .blank 32, .cmd (.simple .loopEnd (some { v := 2 }))] []]

/-- `B [c|V10/V+2` and `<tab>\4V-3]2 ; x`: no separators where the spelling is unambiguous, a bar, a
continuation line, a comment -/
def exSingle2 : List LLine :=
  [.hdr [.letter 1] 32
    [.cmd (.simple .loopStart none), .cmd (.note 2 .none (.dflt 0)), .bar, .cmd (.simple .volFine (some { v := 10 })),
     .cmd (.simple .loopBreak none), .cmd (.simple .volFineUp (some { v := 2 }))] [],
   .cont 9 [.cmd (.echo (.len { v := 4 } 0)), .cmd (.simple .volFineDown (some { v := 3 })), .cmd (.simple .loopEnd (some { v := 2 })), .blank 32]
     (tx "; x")]

/-- the texts and the command lists are what the comments say -/
example : exMulti2.map LLine.text = [tx "AB [c V10 / V+2 \\4 V-3 ]2"] ∧
    exSingle2.map LLine.text = [tx "B [c|V10/V+2", tx "\t\\4V-3]2 ; x"] ∧
    layoutCmds exMulti2 = exCmds2 ∧ layoutCmds exSingle2 = exCmds2 := by
  refine ⟨by decide, by decide, rfl, rfl⟩

/-- the hypotheses of `C06_layout_run2_partial`, `C06_layout_invariant2_partial` and
`C06_multitrack_eq_single2_partial` hold for them, started on the empty song -/
example : L2.LinesOk [0, 1] false exMulti2 ∧ L2.LinesOk [1] false exSingle2 ∧ [0, 1].Nodup ∧
    (∀ id ∈ [0, 1], L2.CmdsOk (trackOf id MmlState.init).strip (layoutCmds exMulti2)) := by
  decide +kernel

/-- … and the model, evaluated on the two texts, agrees with the conclusion: track B gets the same events -/
example :
    ((outcome ["AB [c V10 / V+2 \\4 V-3 ]2"]).2.lookup 1) = ((outcome ["B [c|V10/V+2", "\t\\4V-3]2 ; x"]).2.lookup 1) ∧
    (outcome ["AB [c V10 / V+2 \\4 V-3 ]2"]).1 = none := by
  decide +kernel

/-- the commands of the example are in `LCovered2`, and none of the new ones is in `LCovered` -/
example : (∀ c ∈ exCmds2, LCovered2 c) ∧ ¬ LCovered (.simple .loopBreak none) ∧ ¬ LCovered (.echo (.dflt 0)) ∧
    ¬ LCovered (.simple .volFine (some { v := 10 })) := by
  decide

/-- THE TRACK-COUNT BOUND IS DERIVED: a duplicate-free list of 16-bit track numbers (`uint16_t` in
the code; every address `A`..`Z`, `0`..`9`, `*n` selects one, `C06_track_id_map`) has at most 65536
entries — the hypothesis `ids.length ≤ 65536` of the block theorems follows by pigeonhole. -/
theorem C06_track_count_bound (ids : List Nat) (hnd : ids.Nodup) (h16 : ∀ id ∈ ids, id < 65536) : ids.length ≤ 65536 :=
  ids_length_le ids hnd h16

/-- the ids a header selects are 16-bit -/
theorem C06_header_ids_16bit (as : List Layout.Addr) (hok : HeaderOk as) : ∀ id ∈ as.map Layout.Addr.id, id < 65536 := by
  induction as with
  | nil => intro id h; simp at h
  | cons a as ih =>
    intro id h
    simp only [List.map_cons, List.mem_cons] at h
    rcases h with rfl | h
    · have ha : AddrOk a := hok.1
      cases a with
      | letter k => have : k < 26 := ha; show k < 65536; omega
      | digit d => have : d < 10 := ha; show 26 + d < 65536; omega
      | star n => show n % 65536 < 65536; omega
    · exact ih hok.2.2 id h

example : HeaderOk [.letter 0, .digit 3, .star 70000] ∧ ([Layout.Addr.letter 0, .digit 3, .star 70000].map Layout.Addr.id).Nodup := by
  decide

/-- `C06_multitrack_blocks_run_partial` without the bound on the number of tracks: 16-bit track
numbers instead (PARTIAL: `CmdsOk`, and `Clean` inside `BLinesOk` = D16, as before). -/
theorem C06_multitrack_blocks_run16_partial (ids : List Nat) (ls : List BLine) (n : Nat) (s : MmlState) (r : Bool)
    (hnd : ids.Nodup) (hne : ids ≠ []) (h16 : ∀ id ∈ ids, id < 65536) (hok : BLinesOk ids r ls) (hready : r = true → Ready ids s)
    (hcmds : ∀ j id, ids[j]? = some id → CmdsOk (trackOf id s).strip (blayoutCmds j ls)) :
    ∃ s', readLines n (ls.map BLine.text) s = .ok () s' ∧
      (∀ j id, ids[j]? = some id → (trackOf id s').strip = runCmds (trackOf id s).strip (blayoutCmds j ls)) ∧
      (∀ b, b ∉ ids → s'.song.tracks.lookup b = s.song.tracks.lookup b) :=
  C06_multitrack_blocks_run_partial ids ls n s r hnd hne (C06_track_count_bound ids hnd h16) hok hready hcmds

/-- `C06_multitrack_eq_single_blocks_partial` without the bound on the number of tracks (PARTIAL:
`CmdsOk`, `Clean`). -/
theorem C06_multitrack_eq_single_blocks16_partial (ids : List Nat) (j a : Nat) (multi : List BLine) (single : List LLine) (n1 n2 : Nat) (s : MmlState)
    (hj : ids[j]? = some a) (hnd : ids.Nodup) (h16 : ∀ id ∈ ids, id < 65536)
    (hok1 : BLinesOk ids false multi) (hok2 : LinesOk [a] false single)
    (hsame : layoutCmds single = blayoutCmds j multi)
    (hc : ∀ j id, ids[j]? = some id → CmdsOk (trackOf id s).strip (blayoutCmds j multi)) :
    ∃ s1' s2', readLines n1 (multi.map BLine.text) s = .ok () s1' ∧ readLines n2 (single.map LLine.text) s = .ok () s2' ∧
      (trackOf a s1').strip = (trackOf a s2').strip ∧ (trackOf a s1').getEvents = (trackOf a s2').getEvents :=
  C06_multitrack_eq_single_blocks_partial ids j a multi single n1 n2 s hj hnd (C06_track_count_bound ids hnd h16) hok1 hok2 hsame hc

/-- the block example of round 2 meets the 16-bit hypothesis -/
example : [0, 1, 2].Nodup ∧ ∀ id ∈ [0, 1, 2], id < 65536 := by decide

/-! ### round 4: the round-3 theorems subsume the round-2 ones; separators for the round-3 set

On the round-2 command set `LCovered` every round-3 notion is the round-2 one
(Proofs/LayoutTransfer: `L2.agree_of_old`, `L2.runCmds_of_old`, `L2.cmdsOk_of_old`, `L2.toksOk_of_old`,
`L2.lineOk_of_old`, `L2.linesOk_of_old`).  `ToksOk`/`LineOk`/`LinesOk` say nothing about WHICH commands
occur (only that each look-ahead condition holds), so their transfer takes "the commands are in
`LCovered`" as a hypothesis; in the whole-line theorems that fact is part of `CmdsOk`
(`cmdsOk_covered`), so the round-2 statements follow from the round-3 ones with no extra hypothesis. -/

open Ctrmml.MmlMeaning (Cmd) in
/-- OLD ⇒ NEW, per command: a round-2 command is a round-3 command, and builder call, number
condition, look-ahead condition and blank count are the same in both rounds -/
theorem C06_lcovered_transfer (c : Cmd) (h : LCovered c) :
    LCovered2 c ∧ (∀ t, L2.lcmdTrack t c = lcmdTrack t c) ∧ (∀ t, L2.LCmdNums t c = LCmdNums t c) ∧
    (∀ tail, L2.LCmdTail c tail = LCmdTail c tail) ∧ (∀ tail, L2.lcmdSkip c tail = lcmdSkip c tail) :=
  ⟨L2.lcovered_of_old c h, L2.agree_of_old c h⟩

open Ctrmml.MmlMeaning (Cmd) in
/-- OLD ⇒ NEW, command lists: `CmdsOk` ⇒ `L2.CmdsOk`, with the same builder calls -/
theorem C06_cmdsOk_transfer (t : Track) (cs : List Cmd) (h : CmdsOk t cs) : L2.CmdsOk t cs ∧ L2.runCmds t cs = runCmds t cs :=
  ⟨L2.cmdsOk_of_old cs t h, L2.runCmds_of_old cs t (cmdsOk_covered t cs h)⟩

/-- OLD ⇒ NEW, lines: `LinesOk` ⇒ `L2.LinesOk` for layouts whose commands are round-2 commands -/
theorem C06_linesOk_transfer (ids : List Nat) (r : Bool) (ls : List LLine) (h : LinesOk ids r ls)
    (hcov : ∀ c ∈ layoutCmds ls, LCovered c) : L2.LinesOk ids r ls :=
  L2.linesOk_of_old ids ls r h hcov

/-- `C06_layout_run_partial` (round 2) DERIVED from `C06_layout_run2_partial` (round 3): same
hypotheses, same conclusion as the round-2 theorem. -/
theorem C06_layout_run_from_v2 (ids : List Nat) (ls : List LLine) (n : Nat) (s : MmlState) (r : Bool)
    (hnd : ids.Nodup) (hne : ids ≠ []) (hok : LinesOk ids r ls) (hready : r = true → Ready ids s)
    (hcmds : ∀ id ∈ ids, CmdsOk (trackOf id s).strip (layoutCmds ls)) :
    ∃ s', readLines n (ls.map LLine.text) s = .ok () s' ∧
      (∀ id ∈ ids, (trackOf id s').strip = runCmds (trackOf id s).strip (layoutCmds ls)) ∧
      (∀ b, b ∉ ids → s'.song.tracks.lookup b = s.song.tracks.lookup b) := by
  obtain ⟨hcov, hok2, hc2⟩ := L2.hyps_of_old ids ls r s hne hok hcmds
  obtain ⟨s', h1, h2, h3⟩ := C06_layout_run2_partial ids ls n s r hnd hne hok2 hready hc2
  exact ⟨s', h1, fun id hid => by rw [h2 id hid, L2.runCmds_of_old _ _ hcov], h3⟩

/-- `C06_layout_invariant_partial` (round 2) DERIVED from `C06_layout_invariant2_partial` -/
theorem C06_layout_invariant_from_v2 (a : Nat) (ids1 ids2 : List Nat) (ls1 ls2 : List LLine) (n1 n2 : Nat) (s1 s2 : MmlState) (r1 r2 : Bool)
    (ha1 : a ∈ ids1) (ha2 : a ∈ ids2) (hnd1 : ids1.Nodup) (hnd2 : ids2.Nodup)
    (hok1 : LinesOk ids1 r1 ls1) (hok2 : LinesOk ids2 r2 ls2) (hr1 : r1 = true → Ready ids1 s1) (hr2 : r2 = true → Ready ids2 s2)
    (hsame : layoutCmds ls1 = layoutCmds ls2) (hstart : (trackOf a s1).strip = (trackOf a s2).strip)
    (hc1 : ∀ id ∈ ids1, CmdsOk (trackOf id s1).strip (layoutCmds ls1))
    (hc2 : ∀ id ∈ ids2, CmdsOk (trackOf id s2).strip (layoutCmds ls2)) :
    ∃ s1' s2', readLines n1 (ls1.map LLine.text) s1 = .ok () s1' ∧ readLines n2 (ls2.map LLine.text) s2 = .ok () s2' ∧
      (trackOf a s1').strip = (trackOf a s2').strip ∧ (trackOf a s1').getEvents = (trackOf a s2').getEvents := by
  obtain ⟨_, hok1', hc1'⟩ := L2.hyps_of_old ids1 ls1 r1 s1 (List.ne_nil_of_mem ha1) hok1 hc1
  obtain ⟨_, hok2', hc2'⟩ := L2.hyps_of_old ids2 ls2 r2 s2 (List.ne_nil_of_mem ha2) hok2 hc2
  exact C06_layout_invariant2_partial a ids1 ids2 ls1 ls2 n1 n2 s1 s2 r1 r2 ha1 ha2 hnd1 hnd2 hok1' hok2' hr1 hr2 hsame hstart hc1' hc2'

/-- `C06_multitrack_eq_single_partial` (round 2) DERIVED from `C06_multitrack_eq_single2_partial` -/
theorem C06_multitrack_eq_single_from_v2 (ids : List Nat) (a : Nat) (multi single : List LLine) (n1 n2 : Nat) (s : MmlState)
    (ha : a ∈ ids) (hnd : ids.Nodup) (hok1 : LinesOk ids false multi) (hok2 : LinesOk [a] false single)
    (hsame : layoutCmds multi = layoutCmds single)
    (hc : ∀ id ∈ ids, CmdsOk (trackOf id s).strip (layoutCmds multi)) :
    ∃ s1' s2', readLines n1 (multi.map LLine.text) s = .ok () s1' ∧ readLines n2 (single.map LLine.text) s = .ok () s2' ∧
      (trackOf a s1').strip = (trackOf a s2').strip ∧ (trackOf a s1').getEvents = (trackOf a s2').getEvents := by
  obtain ⟨hcov, hok1', hc'⟩ := L2.hyps_of_old ids multi false s (List.ne_nil_of_mem ha) hok1 hc
  exact C06_multitrack_eq_single2_partial ids a multi single n1 n2 s ha hnd hok1'
    (L2.linesOk_of_old [a] single false hok2 (by rw [← hsame]; exact hcov)) hsame hc'

/-- the hypotheses of the three `…_from_v2` theorems are those of the round-2 theorems: they hold
for the round-2 example layouts `exMulti` / `exSingle` (`AB o4 c d8. r > e+:12 &` and its four-line
single-track layout), whose commands are all in `LCovered` -/
example : LinesOk [0, 1] false exMulti ∧ LinesOk [1] false exSingle ∧ [0, 1].Nodup ∧ (1 ∈ [0, 1]) ∧
    layoutCmds exMulti = layoutCmds exSingle ∧
    (∀ id ∈ [0, 1], CmdsOk (trackOf id MmlState.init).strip (layoutCmds exMulti)) ∧ (∀ c ∈ exCmds, LCovered c) := by
  refine ⟨by decide +kernel, by decide +kernel, by decide, by decide, rfl, by decide +kernel, by decide⟩

/-- … so the transfer gives the round-3 hypotheses for the round-2 example -/
example : L2.LinesOk [0, 1] false exMulti ∧ L2.LinesOk [1] false exSingle ∧
    (∀ id ∈ [0, 1], L2.CmdsOk (trackOf id MmlState.init).strip (layoutCmds exMulti)) := by
  have h : LinesOk [0, 1] false exMulti ∧ LinesOk [1] false exSingle ∧
      (∀ id ∈ [0, 1], CmdsOk (trackOf id MmlState.init).strip (layoutCmds exMulti)) ∧ (∀ c ∈ exCmds, LCovered c) :=
    ⟨by decide +kernel, by decide +kernel, by decide +kernel, by decide⟩
  exact ⟨C06_linesOk_transfer _ _ _ h.1 h.2.2.2, C06_linesOk_transfer _ _ _ h.2.1 h.2.2.2,
    fun id hid => (C06_cmdsOk_transfer _ _ (h.2.2.1 id hid)).1⟩

open Ctrmml.MmlMeaning (Cmd) in
/-- EVERY NON-EMPTY SEPARATOR WORKS, round-3 set: `C06_separator_suffices` for `LCovered2` /
`L2.ToksOk` / `L2.LCmdTail`.  Behind a blank, a tab, `|`, the `;` comment or at the end of the line
the look-ahead condition of every command holds — for the echo `\` when its duration is written
(`\4`, `\.`, `\:12`).  Behind a bare `\` a separator is read by `get_token()` inside `mml_echo`, the
case `EchoHead` keeps outside `L2.LCmdTail`: `C06_bare_echo_separator_counterexample`. -/
theorem C06_separator_suffices2 (t : Track) (cmd : Cmd) (hn : L2.LCmdNums t cmd) (ts : List Tok) (e : List Nat) (hok : L2.ToksOk ts e)
    (hcov : ∀ c ∈ cmdsOf ts, LCovered2 c) (he : EndOk e) (hts : ∀ c ts', ts ≠ Tok.cmd c :: ts')
    (hecho : ∀ d, cmd = .echo d → d ≠ .dflt 0) :
    L2.LCmdTail cmd (toksText ts e) :=
  L2.cmdTail_of_sep t cmd hn ts e hok hcov he hts hecho

open Ctrmml.MmlMeaning (Cmd) in
/-- the hypothesis `hecho` of `C06_separator_suffices2` is needed: `\` + blank does not meet `L2.LCmdTail` -/
theorem C06_bare_echo_separator_counterexample : ¬ L2.LCmdTail (Cmd.echo (.dflt 0)) (toksText [.blank 32] []) :=
  L2.bare_echo_blank

open Ctrmml.MmlMeaning (Cmd) in
/-- the hypotheses of `C06_separator_suffices2` on `\4` followed by `<tab>|V+2 /` -/
example : L2.LCmdNums (Track.new 24) (Cmd.echo (.len { v := 4 } 0)) ∧
    L2.ToksOk [Tok.blank 9, Tok.bar, Tok.cmd (.simple .volFineUp (some { v := 2 })), Tok.blank 32, Tok.cmd (.simple .loopBreak none)] [] ∧
    (∀ c ∈ cmdsOf [Tok.blank 9, Tok.bar, Tok.cmd (.simple .volFineUp (some { v := 2 })), Tok.blank 32, Tok.cmd (.simple .loopBreak none)], LCovered2 c) ∧
    EndOk [] ∧ (∀ d, Cmd.echo (.len { v := 4 } 0) = .echo d → d ≠ .dflt 0) := by
  refine ⟨by decide, by decide +kernel, by decide, Or.inl rfl, ?_⟩
  intro d h; cases h; intro h2; cases h2

/-! ### round 5: lines with conditional blocks over the round-3 command set

`Proofs/LayoutBlock2`, `Proofs/LayoutBlockLines2`: the block theorems of round 2 replayed over
`LCovered2`.  Outside a block every command of `LCovered2` is allowed (the loop break `/` included:
there the block flag is clear).  Inside an alternative the reader runs with the block flag set and
the byte `/` ends the alternative, so a loop break cannot be written there at all; `Clean` (part of
`L2.ItemsOk`, unchanged) already says that no alternative spells `/`, hence the selected alternative
has no loop break (`L2.noBreak_of_clean`) and the step lemma holds without the hypothesis on the
block flag (`L2.lcmd_step_nb`, `L2.parse_seg_nb`).  So `V n`, `V+n`, `V-n` and `\` with a written
duration are now covered inside and outside alternatives. -/

/-- A MULTI-TRACK LAYOUT WITH CONDITIONAL BLOCKS RUNS, PER TRACK, AS THAT TRACK'S OWN COMMAND LIST,
round 5 (PARTIAL: `L2.CmdsOk` — commands in `LCovered2`, numbers in range — for what each track
receives; `Clean` inside `L2.BLinesOk` is the documented limit D16).  Same statement as
`C06_multitrack_blocks_run_partial` over the wider command set. -/
theorem C06_multitrack_blocks_run2_partial (ids : List Nat) (ls : List BLine) (n : Nat) (s : MmlState) (r : Bool)
    (hnd : ids.Nodup) (hne : ids ≠ []) (hlen : ids.length ≤ 65536) (hok : L2.BLinesOk ids r ls) (hready : r = true → Ready ids s)
    (hcmds : ∀ j id, ids[j]? = some id → L2.CmdsOk (trackOf id s).strip (blayoutCmds j ls)) :
    ∃ s', readLines n (ls.map BLine.text) s = .ok () s' ∧
      (∀ j id, ids[j]? = some id → (trackOf id s').strip = L2.runCmds (trackOf id s).strip (blayoutCmds j ls)) ∧
      (∀ b, b ∉ ids → s'.song.tracks.lookup b = s.song.tracks.lookup b) := by
  obtain ⟨s', h1, h2⟩ := L2.readLines_blayout ids hnd hne hlen ls n s r hok hready hcmds
  exact ⟨s', h1, h2.tracks, h2.others⟩

/-- MULTI-TRACK LINES WITH BLOCKS = THE EQUIVALENT SINGLE-TRACK LINES, round 5 (PARTIAL: `L2.CmdsOk`,
and `Clean` inside `L2.BLinesOk`): `C06_multitrack_eq_single_blocks_partial` over the wider command
set — the alternatives and the text around them may contain `V n`, `V+n`, `V-n`, `\` with a duration;
the text outside blocks (and the single-track lines) also the loop break `/`. -/
theorem C06_multitrack_eq_single_blocks2_partial (ids : List Nat) (j a : Nat) (multi : List BLine) (single : List LLine) (n1 n2 : Nat) (s : MmlState)
    (hj : ids[j]? = some a) (hnd : ids.Nodup) (hlen : ids.length ≤ 65536)
    (hok1 : L2.BLinesOk ids false multi) (hok2 : L2.LinesOk [a] false single)
    (hsame : layoutCmds single = blayoutCmds j multi)
    (hc : ∀ j id, ids[j]? = some id → L2.CmdsOk (trackOf id s).strip (blayoutCmds j multi)) :
    ∃ s1' s2', readLines n1 (multi.map BLine.text) s = .ok () s1' ∧ readLines n2 (single.map LLine.text) s = .ok () s2' ∧
      (trackOf a s1').strip = (trackOf a s2').strip ∧ (trackOf a s1').getEvents = (trackOf a s2').getEvents := by
  have hne : ids ≠ [] := by intro h; rw [h] at hj; simp at hj
  obtain ⟨s1', h1, t1, _⟩ := C06_multitrack_blocks_run2_partial ids multi n1 s false hnd hne hlen hok1 (fun h => by cases h) hc
  obtain ⟨s2', h2, t2, _⟩ := C06_layout_run2_partial [a] single n2 s false (by simp) (by simp) hok2 (fun h => by cases h)
    (fun id hid => by
      have : id = a := by simpa using hid
      subst this; rw [hsame]; exact hc j id hj)
  have hst : (trackOf a s1').strip = (trackOf a s2').strip := by rw [t1 j a hj, t2 a (by simp), hsame]
  refine ⟨s1', s2', h1, h2, hst, ?_⟩
  rw [← Track.strip_getEvents, hst, Track.strip_getEvents]

/-- `C06_multitrack_blocks_run2_partial` with 16-bit track numbers instead of the bound on the number of tracks -/
theorem C06_multitrack_blocks_run2_16_partial (ids : List Nat) (ls : List BLine) (n : Nat) (s : MmlState) (r : Bool)
    (hnd : ids.Nodup) (hne : ids ≠ []) (h16 : ∀ id ∈ ids, id < 65536) (hok : L2.BLinesOk ids r ls) (hready : r = true → Ready ids s)
    (hcmds : ∀ j id, ids[j]? = some id → L2.CmdsOk (trackOf id s).strip (blayoutCmds j ls)) :
    ∃ s', readLines n (ls.map BLine.text) s = .ok () s' ∧
      (∀ j id, ids[j]? = some id → (trackOf id s').strip = L2.runCmds (trackOf id s).strip (blayoutCmds j ls)) ∧
      (∀ b, b ∉ ids → s'.song.tracks.lookup b = s.song.tracks.lookup b) :=
  C06_multitrack_blocks_run2_partial ids ls n s r hnd hne (C06_track_count_bound ids hnd h16) hok hready hcmds

/-- `C06_multitrack_eq_single_blocks2_partial` with 16-bit track numbers instead of the bound on the number of tracks -/
theorem C06_multitrack_eq_single_blocks2_16_partial (ids : List Nat) (j a : Nat) (multi : List BLine) (single : List LLine) (n1 n2 : Nat) (s : MmlState)
    (hj : ids[j]? = some a) (hnd : ids.Nodup) (h16 : ∀ id ∈ ids, id < 65536)
    (hok1 : L2.BLinesOk ids false multi) (hok2 : L2.LinesOk [a] false single)
    (hsame : layoutCmds single = blayoutCmds j multi)
    (hc : ∀ j id, ids[j]? = some id → L2.CmdsOk (trackOf id s).strip (blayoutCmds j multi)) :
    ∃ s1' s2', readLines n1 (multi.map BLine.text) s = .ok () s1' ∧ readLines n2 (single.map LLine.text) s = .ok () s2' ∧
      (trackOf a s1').strip = (trackOf a s2').strip ∧ (trackOf a s1').getEvents = (trackOf a s2').getEvents :=
  C06_multitrack_eq_single_blocks2_partial ids j a multi single n1 n2 s hj hnd (C06_track_count_bound ids hnd h16) hok1 hok2 hsame hc

open Ctrmml.MmlMeaning (Cmd) in
/-- the `Clean` hypothesis is automatic inside `LCovered2` minus the loop break: an alternative made
of blanks, tabs, bars and such commands never spells `/`, `;`, `}` or NUL -/
theorem C06_alternatives_clean2 (a : List Tok) (hb : ∀ b, Tok.blank b ∈ a → b = 32 ∨ b = 9) (hcov : ∀ c ∈ cmdsOf a, LCovered2 c)
    (hnb : ∀ c ∈ cmdsOf a, c ≠ Cmd.simple .loopBreak none) : Clean (altText a) :=
  L2.clean_alt a hb hcov hnb

open Ctrmml.MmlMeaning (Cmd) in
/-- … and conversely a clean alternative contains no loop break (its spelling is the byte `/`) -/
theorem C06_clean_no_break (a : List Tok) (h : Clean (altText a)) : ∀ c ∈ cmdsOf a, c ≠ Cmd.simple .loopBreak none :=
  L2.noBreak_of_clean a h

/-- OLD ⇒ NEW for block lines: `BLinesOk` gives `L2.BLinesOk` when the commands each position
receives are those of round 2 (in the whole-line theorems that is part of `CmdsOk`) -/
theorem C06_blinesOk_transfer (ids : List Nat) (r : Bool) (ls : List BLine) (h : BLinesOk ids r ls)
    (hcov : ∀ j, j < ids.length → ∀ c ∈ blayoutCmds j ls, LCovered c) : L2.BLinesOk ids r ls :=
  L2.blinesOk_of_old ids ls r h hcov

/-- the round-2 block theorem follows from the round-5 one: same hypotheses, same conclusion -/
theorem C06_multitrack_blocks_run_from_v2 (ids : List Nat) (ls : List BLine) (n : Nat) (s : MmlState) (r : Bool)
    (hnd : ids.Nodup) (hne : ids ≠ []) (hlen : ids.length ≤ 65536) (hok : BLinesOk ids r ls) (hready : r = true → Ready ids s)
    (hcmds : ∀ j id, ids[j]? = some id → CmdsOk (trackOf id s).strip (blayoutCmds j ls)) :
    ∃ s', readLines n (ls.map BLine.text) s = .ok () s' ∧
      (∀ j id, ids[j]? = some id → (trackOf id s').strip = runCmds (trackOf id s).strip (blayoutCmds j ls)) ∧
      (∀ b, b ∉ ids → s'.song.tracks.lookup b = s.song.tracks.lookup b) := by
  have hcov : ∀ j, j < ids.length → ∀ c ∈ blayoutCmds j ls, LCovered c := by
    intro j hj
    have hid : ids[j]? = some ids[j] := List.getElem?_eq_getElem hj
    exact cmdsOk_covered _ _ (hcmds j _ hid)
  obtain ⟨s', h1, h2, h3⟩ := C06_multitrack_blocks_run2_partial ids ls n s r hnd hne hlen (C06_blinesOk_transfer ids r ls hok hcov) hready
    (fun j id hid => L2.cmdsOk_of_old _ _ (hcmds j id hid))
  refine ⟨s', h1, fun j id hid => ?_, h3⟩
  rw [h2 j id hid]
  exact L2.runCmds_of_old _ _ (cmdsOk_covered _ _ (hcmds j id hid))

/-! non-vacuity: fine volume inside the alternatives, an echo behind the block -/

/-- `AB o4 {c V10/d V+2} \4 e` -/
def exBlocks2 : List BLine :=
  [.hdr [.letter 0, .letter 1] 32
    [.toks [.cmd (.octave { v := 4 }), .blank 32],
     .block [[.cmd (.note 2 .none (.dflt 0)), .blank 32, .cmd (.simple .volFine (some { v := 10 }))],
             [.cmd (.note 3 .none (.dflt 0)), .blank 32, .cmd (.simple .volFineUp (some { v := 2 }))]],
     .toks [.blank 32, .cmd (.echo (.len { v := 4 } 0)), .blank 32, .cmd (.note 4 .none (.dflt 0))]] []]

/-- what `B` receives, as the single-track lines `B o4 d|V+2`, `<tab>\4 e ; x` -/
def exBlocks2B : List LLine :=
  [.hdr [.letter 1] 32 [.cmd (.octave { v := 4 }), .blank 32, .cmd (.note 3 .none (.dflt 0)), .bar, .cmd (.simple .volFineUp (some { v := 2 }))] [],
   .cont 9 [.cmd (.echo (.len { v := 4 } 0)), .blank 32, .cmd (.note 4 .none (.dflt 0)), .blank 32] (tx "; x")]

example : exBlocks2.map BLine.text = [tx "AB o4 {c V10/d V+2} \\4 e"] ∧
    exBlocks2B.map LLine.text = [tx "B o4 d|V+2", tx "\t\\4 e ; x"] ∧ layoutCmds exBlocks2B = blayoutCmds 1 exBlocks2 := by
  refine ⟨by decide, by decide, rfl⟩

/-- the hypotheses of `C06_multitrack_blocks_run2_partial` / `C06_multitrack_eq_single_blocks2_partial`
(and of their 16-bit forms) hold; the round-2 hypotheses do not (the commands are not in `LCovered`) -/
example : L2.BLinesOk [0, 1] false exBlocks2 ∧ L2.LinesOk [1] false exBlocks2B ∧ [0, 1].Nodup ∧ (∀ id ∈ [0, 1], id < 65536) ∧
    (∀ j, j < 2 → L2.CmdsOk (trackOf ([0, 1].getD j 0) MmlState.init).strip (blayoutCmds j exBlocks2)) ∧
    ¬ CmdsOk (trackOf 1 MmlState.init).strip (blayoutCmds 1 exBlocks2) := by
  decide +kernel

/-- … and the model evaluated on the texts agrees: B's events are those of its single-track lines -/
example :
    ((outcome ["AB o4 {c V10/d V+2} \\4 e"]).2.lookup 1) = ((outcome ["B o4 d|V+2", "\t\\4 e ; x"]).2.lookup 1) ∧
    (outcome ["AB o4 {c V10/d V+2} \\4 e"]).1 = none := by
  decide +kernel

/-- the alternatives of the example are clean by `C06_alternatives_clean2` -/
example : (∀ b, Tok.blank b ∈ [Tok.cmd (.note 3 .none (.dflt 0)), .blank 32, .cmd (.simple .volFineUp (some { v := 2 }))] → b = 32 ∨ b = 9) ∧
    (∀ c ∈ cmdsOf [Tok.cmd (.note 3 .none (.dflt 0)), .blank 32, .cmd (.simple .volFineUp (some { v := 2 }))],
      LCovered2 c ∧ c ≠ MmlMeaning.Cmd.simple .loopBreak none) := by
  refine ⟨fun b hb => ?_, fun c hc => ?_⟩
  · simp at hb; exact Or.inl hb
  · simp [cmdsOf] at hc
    rcases hc with rfl | rfl
    · exact ⟨by decide, by simp⟩
    · exact ⟨by decide, by simp⟩


/-! ### round 5, second part: the bare echo `\` before a blank or the end of the line

`Proofs/LayoutCmd3` (namespace `L3`): `mml_echo` reads the byte behind `\` with `get_token()`, which
skips blanks; when the first other byte starts no number (or the line ends) `read_duration` takes the
default length there.  The bytes consumed are `countBlanks`, which for such a tail equals what
`numSpan` skips, so `L2.lcmdSkip` is already right and only the look-ahead condition is widened:
`L3.LCmdTail` = `L2.LCmdTail` with `EchoHead` replaced by `EchoHead ∨ (the echo is bare ∧ BareTail)`. -/

open Ctrmml.MmlMeaning (Cmd) in
/-- every round-3 look-ahead condition gives the widened one -/
theorem C06_lcmdTail_v2_to_v3 (c : Cmd) (tail : List Nat) (h : L2.LCmdTail c tail) : L3.LCmdTail c tail :=
  L3.lcmdTail_of_v2 c tail h

open Ctrmml.MmlMeaning (Cmd) in
/-- ONE COVERED COMMAND AT THE CURSOR under the widened look-ahead condition (the bare `\` before
blanks or the end of the line included): the reader makes the builder call `L2.lcmdTrack` and
consumes the spelling plus `L2.lcmdSkip` bytes, as in round 3 -/
theorem C06_covered_step3 (f : Nat) (s : MmlState) (hs : Sane s) (cmd : Cmd) (tail : List Nat) (hc : LCovered2 cmd)
    (hcb : s.conditionalBlock = false)
    (hsuf : suffix s = cmd.bytes ++ tail) (hn : L2.LCmdNums (getTrack s).strip cmd) (ht : L3.LCmdTail cmd tail) :
    parseMmlTrackF (f + 1) s =
      parseMmlTrackF f (adv (setTrack s (L2.lcmdTrack ((getTrack s).setReference (some { line := s.inp.line, column := s.inp.lb.column })) cmd))
        (cmd.bytes.length + L2.lcmdSkip cmd tail)) :=
  L3.lcmd_step f s hs cmd tail hc hcb hsuf hn ht

open Ctrmml.MmlMeaning (Cmd) in
/-- A SEPARATOR SUFFICES, WITHOUT SIDE CONDITION: behind a blank, tab, `|`, `;` or the end of the line
the look-ahead condition `L3.LCmdTail` of EVERY command holds over `LCovered2` — `C06_separator_suffices2`
without its hypothesis on the echo -/
theorem C06_separator_suffices3 (t : Track) (cmd : Cmd) (hn : L2.LCmdNums t cmd) (ts : List Tok) (e : List Nat) (hok : L2.ToksOk ts e)
    (hcov : ∀ c ∈ cmdsOf ts, LCovered2 c) (he : EndOk e) (hts : ∀ c ts', ts ≠ Tok.cmd c :: ts') :
    L3.LCmdTail cmd (toksText ts e) :=
  L3.cmdTail_of_sep t cmd hn ts e hok hcov he hts

open Ctrmml.MmlMeaning (Cmd) in
/-- the case `C06_bare_echo_separator_counterexample` excludes from `L2.LCmdTail` is inside `L3.LCmdTail` -/
example : L3.LCmdTail (Cmd.echo (.dflt 0)) (toksText [.blank 32, .cmd (.note 2 .none (.dflt 0))] []) :=
  C06_separator_suffices3 (Track.new 24) (Cmd.echo (.dflt 0)) trivial _ [] (by decide) (fun c hc => by simp [cmdsOf] at hc; subst hc; decide) (Or.inl rfl)
    (fun c ts' h => by cases h)

/-- … and the model evaluated on `AB o4 \ c` / `B o4\`, ` c` accepts both and gives B the same events -/
example :
    ((outcome ["AB o4 \\ c"]).2.lookup 1) = ((outcome ["B o4\\", " c"]).2.lookup 1) ∧ (outcome ["AB o4 \\ c"]).1 = none ∧
    (outcome ["B o4\\", " c"]).1 = none := by
  decide +kernel

/-! ### round 5, third part: whole lines with the bare echo

`Proofs/LayoutLines3` (namespace `L2.W`): the whole-line theorems of round 3 replayed with `ToksOk` /
`LineOk` / `LinesOk` over the look-ahead condition `L3.LCmdTail`; commands, builder calls, `L2.CmdsOk`,
`L2.runCmds` are those of round 3.  `L2.LinesOk ⇒ L2.W.LinesOk` holds with no side condition, so these
statements subsume the `*2` ones; new inputs: lines in which a bare `\` is followed by blanks, a bar,
a comment or the end of the line. -/

/-- `L2.LinesOk` ⇒ `L2.W.LinesOk` -/
theorem C06_linesOk_v2_to_v3 (ids : List Nat) (r : Bool) (ls : List LLine) (h : L2.LinesOk ids r ls) : L2.W.LinesOk ids r ls :=
  L2.W.linesOk_of_v2 ids ls r h

/-- A LAYOUT RUNS AS ITS COMMAND LIST, round 5 (PARTIAL: `L2.CmdsOk`; lines without conditional blocks):
`C06_layout_run2_partial` with the bare echo `\` before blanks or the end of the line allowed. -/
theorem C06_layout_run3_partial (ids : List Nat) (ls : List LLine) (n : Nat) (s : MmlState) (r : Bool)
    (hnd : ids.Nodup) (hne : ids ≠ []) (hok : L2.W.LinesOk ids r ls) (hready : r = true → Ready ids s)
    (hcmds : ∀ id ∈ ids, L2.CmdsOk (trackOf id s).strip (layoutCmds ls)) :
    ∃ s', readLines n (ls.map LLine.text) s = .ok () s' ∧
      (∀ id ∈ ids, (trackOf id s').strip = L2.runCmds (trackOf id s).strip (layoutCmds ls)) ∧
      (∀ b, b ∉ ids → s'.song.tracks.lookup b = s.song.tracks.lookup b) := by
  obtain ⟨s', h1, h2⟩ := L2.W.readLines_layout ids hnd hne ls n s r hok hready hcmds
  exact ⟨s', h1, h2.tracks, h2.others⟩

/-- LAYOUT INVARIANCE, round 5 (PARTIAL: `L2.CmdsOk`): `C06_layout_invariant2_partial` over `L2.W.LinesOk`. -/
theorem C06_layout_invariant3_partial (a : Nat) (ids1 ids2 : List Nat) (ls1 ls2 : List LLine) (n1 n2 : Nat) (s1 s2 : MmlState) (r1 r2 : Bool)
    (ha1 : a ∈ ids1) (ha2 : a ∈ ids2) (hnd1 : ids1.Nodup) (hnd2 : ids2.Nodup)
    (hok1 : L2.W.LinesOk ids1 r1 ls1) (hok2 : L2.W.LinesOk ids2 r2 ls2) (hr1 : r1 = true → Ready ids1 s1) (hr2 : r2 = true → Ready ids2 s2)
    (hsame : layoutCmds ls1 = layoutCmds ls2) (hstart : (trackOf a s1).strip = (trackOf a s2).strip)
    (hc1 : ∀ id ∈ ids1, L2.CmdsOk (trackOf id s1).strip (layoutCmds ls1))
    (hc2 : ∀ id ∈ ids2, L2.CmdsOk (trackOf id s2).strip (layoutCmds ls2)) :
    ∃ s1' s2', readLines n1 (ls1.map LLine.text) s1 = .ok () s1' ∧ readLines n2 (ls2.map LLine.text) s2 = .ok () s2' ∧
      (trackOf a s1').strip = (trackOf a s2').strip ∧ (trackOf a s1').getEvents = (trackOf a s2').getEvents := by
  obtain ⟨s1', h1, t1, _⟩ := C06_layout_run3_partial ids1 ls1 n1 s1 r1 hnd1 (List.ne_nil_of_mem ha1) hok1 hr1 hc1
  obtain ⟨s2', h2, t2, _⟩ := C06_layout_run3_partial ids2 ls2 n2 s2 r2 hnd2 (List.ne_nil_of_mem ha2) hok2 hr2 hc2
  have hst : (trackOf a s1').strip = (trackOf a s2').strip := by rw [t1 a ha1, t2 a ha2, hsame, hstart]
  refine ⟨s1', s2', h1, h2, hst, ?_⟩
  rw [← Track.strip_getEvents, hst, Track.strip_getEvents]

/-- MULTI-TRACK LINES = SINGLE-TRACK LINES, round 5 (PARTIAL: `L2.CmdsOk`; lines without conditional blocks) -/
theorem C06_multitrack_eq_single3_partial (ids : List Nat) (a : Nat) (multi single : List LLine) (n1 n2 : Nat) (s : MmlState)
    (ha : a ∈ ids) (hnd : ids.Nodup) (hok1 : L2.W.LinesOk ids false multi) (hok2 : L2.W.LinesOk [a] false single)
    (hsame : layoutCmds multi = layoutCmds single)
    (hc : ∀ id ∈ ids, L2.CmdsOk (trackOf id s).strip (layoutCmds multi)) :
    ∃ s1' s2', readLines n1 (multi.map LLine.text) s = .ok () s1' ∧ readLines n2 (single.map LLine.text) s = .ok () s2' ∧
      (trackOf a s1').strip = (trackOf a s2').strip ∧ (trackOf a s1').getEvents = (trackOf a s2').getEvents :=
  C06_layout_invariant3_partial a ids [a] multi single n1 n2 s s false false ha (by simp) hnd (by simp) hok1 hok2
    (fun h => by cases h) (fun h => by cases h) hsame rfl hc
    (fun id hid => by
      have : id = a := by simpa using hid
      subst this; rw [← hsame]; exact hc id ha)

/-- `AB o4 \ c` -/
def exMulti3 : List LLine :=
  [.hdr [.letter 0, .letter 1] 32
    [.cmd (.octave { v := 4 }), .blank 32, .cmd (.echo (.dflt 0)), .blank 32, .cmd (.note 2 .none (.dflt 0))] []]

/-- `B o4\` and ` c ; x`: the bare echo at the end of a line -/
def exSingle3 : List LLine :=
  [.hdr [.letter 1] 32 [.cmd (.octave { v := 4 }), .cmd (.echo (.dflt 0))] [],
   .cont 32 [.cmd (.note 2 .none (.dflt 0)), .blank 32] (tx "; x")]

example : exMulti3.map LLine.text = [tx "AB o4 \\ c"] ∧ exSingle3.map LLine.text = [tx "B o4\\", tx " c ; x"] ∧
    layoutCmds exMulti3 = layoutCmds exSingle3 := by
  refine ⟨by decide, by decide, rfl⟩

/-- the hypotheses of the three theorems hold for them; the round-3 hypotheses do not (`\` + blank is outside `L2.LCmdTail`) -/
example : L2.W.LinesOk [0, 1] false exMulti3 ∧ L2.W.LinesOk [1] false exSingle3 ∧ [0, 1].Nodup ∧
    (∀ id ∈ [0, 1], L2.CmdsOk (trackOf id MmlState.init).strip (layoutCmds exMulti3)) ∧
    ¬ L2.LinesOk [0, 1] false exMulti3 ∧ ¬ L2.LinesOk [1] false exSingle3 := by
  decide +kernel

/-! ### round 5, fourth part: lines with conditional blocks and the bare echo

`Proofs/LayoutBlock3` (namespace `L2.W`): the block files replayed over `L3.LCmdTail`.  These are the
widest block statements: `LCovered2` commands, the bare `\` before blanks, a bar, `/`, `}` or the end of
the line included, inside and outside alternatives (no loop break inside an alternative: D16). -/

/-- `L2.BLinesOk` ⇒ `L2.W.BLinesOk` (no side condition) -/
theorem C06_blinesOk_v2_to_v3 (ids : List Nat) (r : Bool) (ls : List BLine) (h : L2.BLinesOk ids r ls) : L2.W.BLinesOk ids r ls :=
  L2.W.blinesOk_of_v2 ids ls r h

/-- `C06_multitrack_blocks_run2_partial` over `L2.W.BLinesOk` (PARTIAL: `L2.CmdsOk`; `Clean` + one alternative per track = D16) -/
theorem C06_multitrack_blocks_run3_partial (ids : List Nat) (ls : List BLine) (n : Nat) (s : MmlState) (r : Bool)
    (hnd : ids.Nodup) (hne : ids ≠ []) (hlen : ids.length ≤ 65536) (hok : L2.W.BLinesOk ids r ls) (hready : r = true → Ready ids s)
    (hcmds : ∀ j id, ids[j]? = some id → L2.CmdsOk (trackOf id s).strip (blayoutCmds j ls)) :
    ∃ s', readLines n (ls.map BLine.text) s = .ok () s' ∧
      (∀ j id, ids[j]? = some id → (trackOf id s').strip = L2.runCmds (trackOf id s).strip (blayoutCmds j ls)) ∧
      (∀ b, b ∉ ids → s'.song.tracks.lookup b = s.song.tracks.lookup b) := by
  obtain ⟨s', h1, h2⟩ := L2.W.readLines_blayout ids hnd hne hlen ls n s r hok hready hcmds
  exact ⟨s', h1, h2.tracks, h2.others⟩

/-- `C06_multitrack_eq_single_blocks2_partial` over `L2.W.BLinesOk` / `L2.W.LinesOk` (PARTIAL: `L2.CmdsOk`, `Clean`) -/
theorem C06_multitrack_eq_single_blocks3_partial (ids : List Nat) (j a : Nat) (multi : List BLine) (single : List LLine) (n1 n2 : Nat) (s : MmlState)
    (hj : ids[j]? = some a) (hnd : ids.Nodup) (hlen : ids.length ≤ 65536)
    (hok1 : L2.W.BLinesOk ids false multi) (hok2 : L2.W.LinesOk [a] false single)
    (hsame : layoutCmds single = blayoutCmds j multi)
    (hc : ∀ j id, ids[j]? = some id → L2.CmdsOk (trackOf id s).strip (blayoutCmds j multi)) :
    ∃ s1' s2', readLines n1 (multi.map BLine.text) s = .ok () s1' ∧ readLines n2 (single.map LLine.text) s = .ok () s2' ∧
      (trackOf a s1').strip = (trackOf a s2').strip ∧ (trackOf a s1').getEvents = (trackOf a s2').getEvents := by
  have hne : ids ≠ [] := by intro h; rw [h] at hj; simp at hj
  obtain ⟨s1', h1, t1, _⟩ := C06_multitrack_blocks_run3_partial ids multi n1 s false hnd hne hlen hok1 (fun h => by cases h) hc
  obtain ⟨s2', h2, t2, _⟩ := C06_layout_run3_partial [a] single n2 s false (by simp) (by simp) hok2 (fun h => by cases h)
    (fun id hid => by
      have : id = a := by simpa using hid
      subst this; rw [hsame]; exact hc j id hj)
  have hst : (trackOf a s1').strip = (trackOf a s2').strip := by rw [t1 j a hj, t2 a (by simp), hsame]
  refine ⟨s1', s2', h1, h2, hst, ?_⟩
  rw [← Track.strip_getEvents, hst, Track.strip_getEvents]

/-- `AB o4 {c \ /d V+2} \ e`: a bare echo before ` /` inside an alternative and before ` e` behind the block -/
def exBlocks3 : List BLine :=
  [.hdr [.letter 0, .letter 1] 32
    [.toks [.cmd (.octave { v := 4 }), .blank 32],
     .block [[.cmd (.note 2 .none (.dflt 0)), .blank 32, .cmd (.echo (.dflt 0)), .blank 32],
             [.cmd (.note 3 .none (.dflt 0)), .blank 32, .cmd (.simple .volFineUp (some { v := 2 }))]],
     .toks [.blank 32, .cmd (.echo (.dflt 0)), .blank 32, .cmd (.note 4 .none (.dflt 0))]] []]

/-- what `A` receives, as the single-track line `A o4 c\|\ e` -/
def exBlocks3A : List LLine :=
  [.hdr [.letter 0] 32 [.cmd (.octave { v := 4 }), .blank 32, .cmd (.note 2 .none (.dflt 0)), .cmd (.echo (.dflt 0)), .bar,
     .cmd (.echo (.dflt 0)), .blank 32, .cmd (.note 4 .none (.dflt 0))] []]

example : exBlocks3.map BLine.text = [tx "AB o4 {c \\ /d V+2} \\ e"] ∧ exBlocks3A.map LLine.text = [tx "A o4 c\\|\\ e"] ∧
    layoutCmds exBlocks3A = blayoutCmds 0 exBlocks3 := by
  refine ⟨by decide, by decide, rfl⟩

/-- the hypotheses of the two theorems hold; those of the first part do not -/
example : L2.W.BLinesOk [0, 1] false exBlocks3 ∧ L2.W.LinesOk [0] false exBlocks3A ∧ [0, 1].Nodup ∧
    (∀ j, j < 2 → L2.CmdsOk (trackOf ([0, 1].getD j 0) MmlState.init).strip (blayoutCmds j exBlocks3)) ∧
    ¬ L2.BLinesOk [0, 1] false exBlocks3 := by
  decide +kernel

/-- … and the model evaluated on the texts agrees -/
example :
    ((outcome ["AB o4 {c \\ /d V+2} \\ e"]).2.lookup 0) = ((outcome ["A o4 c\\|\\ e"]).2.lookup 0) ∧
    (outcome ["AB o4 {c \\ /d V+2} \\ e"]).1 = none := by
  decide +kernel

end Ctrmml.C06
