/-
  C06 — Meaning is independent of layout and of how tracks are addressed.

  Theorems over Model/Lexer (Line_Buffer) and Model/Mml (MML_Input) — see the header of each.
  Representation note: a line is a `List Nat` of bytes; theorems that rely on the write-back of
  `unget(c)` being a no-op say `x < 256` for the byte concerned.
-/
import Ctrmml.Proofs.Layout
import Ctrmml.Proofs.Mml
import Ctrmml.Spec.Layout
namespace Ctrmml.C06
open Ctrmml Ctrmml.Tables Ctrmml.Lexer Ctrmml.TrackBuilder Ctrmml.Mml

/-- the text of an ASCII string -/
abbrev tx (s : String) : List Nat := strBytes s

/-- what a list of lines leaves in the song: the error (if any) and, per track, its events -/
def outcome (lines : List String) : Option Err × List (Nat × List Event) :=
  match readLines 0 (lines.map tx) MmlState.init with
  | .ok _ st => (none, st.song.tracks.map fun (id, t) => (id, t.getEvents))
  | .err e st => (some e, st.song.tracks.map fun (id, t) => (id, t.getEvents))

/-! ## each track keeps its own state -/

/-- FRAME PROPERTY, for every text: reading a line leaves every track that is not in the track
list the line ends with (its own header's list, or the remembered one for a continuation line)
exactly as it was — events, octave, default length, quantise / early release, shuffle, key
signature, drum mode, echo state: the whole `Track` value.  Holds whether the line is accepted or
rejected (the state at the error is compared). -/
theorem C06_per_track_state (a : Nat) (text : List Nat) (n : Nat) (s : MmlState)
    (h : a ∉ (readLine text n s).state.trackList) :
    (readLine text n s).state.song.tracks.lookup a = s.song.tracks.lookup a :=
  (tame_readLine a text n).frame s h

/-- non-vacuity: after `A o5 l8 Q4`, the line `B o2 l2 q3 c` leaves track A's octave, length and
quantise alone (and B got its own) -/
example :
    let s1 := (readLine (tx "A o5 l8 Q4") 0 MmlState.init).state
    let s2 := (readLine (tx "B o2 l2 q3 c") 1 s1).state
    (0 ∉ s2.trackList) ∧ (s2.song.tracks.lookup 0).map (fun t => (t.octave, t.defaultDuration, t.quantize)) = some (4, 12, 4) ∧
    (s2.song.tracks.lookup 1).map (fun t => (t.octave, t.defaultDuration, t.earlyRelease)) = some (1, 48, 3) := by
  decide +kernel

/-! ## blanks, bars, comments -/

/-- `get_token()` with the cursor in front of blanks `bl` followed by a non-blank byte `c`:
returns `c` and leaves the cursor behind it -/
theorem getTokenC_at (s : MmlState) (pre bl : List Nat) (c : Nat) (rest : List Nat)
    (hbl : ∀ x ∈ bl, isBlank (schar x) = true) (hc : isBlank (schar c) = false)
    (hb : s.inp.lb = { buf := pre ++ bl ++ c :: rest, column := pre.length }) :
    getTokenC s = .ok (schar c) (setLb s { buf := pre ++ bl ++ c :: rest, column := pre.length + bl.length + 1 }) := by
  rw [getTokenC_skip s pre bl (c :: rest) hbl hb]
  unfold getTokenC LineBuffer.getToken LineBuffer.get
  have h2 : List.drop (pre.length + bl.length) (pre ++ bl ++ c :: rest) = c :: rest := by
    rw [← List.length_append]; simp
  have h3 : (pre ++ bl ++ c :: rest)[pre.length + bl.length]? = some c := by
    rw [← List.length_append]; simp
  simp only [setLb, h2, countBlanks_nonblank c rest hc, Nat.add_zero, h3]

/-- LEADING BLANKS: every command parser starts with `get_token()`, so with the cursor in front of
a run of blanks / tabs it behaves exactly as with the cursor behind the run — for the track loop
(`parse_mml_track`) and the three command tables -/
theorem C06_leading_blanks_skip (s : MmlState) (pre bl rest : List Nat) (hbl : ∀ c ∈ bl, isBlank (schar c) = true)
    (hb : s.inp.lb = { buf := pre ++ bl ++ rest, column := pre.length }) (fuel : Nat) :
    getTokenC s = getTokenC (setLb s { buf := pre ++ bl ++ rest, column := pre.length + bl.length }) ∧
    parseMmlTrackF (fuel + 1) s = parseMmlTrackF (fuel + 1) (setLb s { buf := pre ++ bl ++ rest, column := pre.length + bl.length }) ∧
    mmlBasic s = mmlBasic (setLb s { buf := pre ++ bl ++ rest, column := pre.length + bl.length }) ∧
    mmlControl s = mmlControl (setLb s { buf := pre ++ bl ++ rest, column := pre.length + bl.length }) ∧
    mmlEnvelope s = mmlEnvelope (setLb s { buf := pre ++ bl ++ rest, column := pre.length + bl.length }) := by
  have h := getTokenC_skip s pre bl rest hbl hb
  refine ⟨h, ?_, ?_, ?_, ?_⟩
  · unfold parseMmlTrackF; rw [bind_apply, bind_apply, h]
  · unfold mmlBasic; rw [bind_apply, bind_apply, h]
  · unfold mmlControl; rw [bind_apply, bind_apply, h]
  · unfold mmlEnvelope; rw [bind_apply, bind_apply, h]

example : (∀ c ∈ [32, 9, 32], isBlank (schar c) = true) := by decide

/-- BAR DIVIDER: `|` (after any blanks) is skipped: the track loop continues behind it -/
theorem C06_bar_skip (s : MmlState) (pre bl rest : List Nat) (hbl : ∀ c ∈ bl, isBlank (schar c) = true)
    (hb : s.inp.lb = { buf := pre ++ bl ++ 124 :: rest, column := pre.length }) (fuel : Nat) :
    parseMmlTrackF (fuel + 1) s = parseMmlTrackF fuel (setLb s { buf := pre ++ bl ++ 124 :: rest, column := pre.length + bl.length + 1 }) := by
  have h := getTokenC_at s pre bl 124 rest hbl (by decide) hb
  conv => lhs; unfold parseMmlTrackF
  rw [bind_apply, h]
  rfl

/-- COMMENT: at `;` (after any blanks) the track loop stops: no track is touched and nothing of
the text behind the `;` is looked at — the result is the same state with the cursor behind `;`,
whatever `tail` is -/
theorem C06_comment_invariant (s : MmlState) (pre bl tail : List Nat) (hbl : ∀ c ∈ bl, isBlank (schar c) = true)
    (hb : s.inp.lb = { buf := pre ++ bl ++ 59 :: tail, column := pre.length }) (fuel : Nat) :
    parseMmlTrackF (fuel + 1) s = .ok () (setLb s { buf := pre ++ bl ++ 59 :: tail, column := pre.length + bl.length + 1 }) := by
  have h := getTokenC_at s pre bl 59 tail hbl (by decide) hb
  conv => lhs; unfold parseMmlTrackF
  rw [bind_apply, h]
  rfl

/-- a line that starts with `;` changes nothing but the line buffer -/
theorem C06_comment_line_invariant (s : MmlState) (tail : List Nat) (n : Nat) :
    readLine (59 :: tail) n s = .ok () { s with inp := { lb := { buf := 59 :: tail, column := 1 }, line := n } } := by
  rfl


/-! ## track addressing -/

theorem getC_at (s : MmlState) (pre : List Nat) (c : Nat) (rest : List Nat)
    (hb : s.inp.lb = { buf := pre ++ c :: rest, column := pre.length }) :
    getC s = .ok (schar c) (setLb s { buf := pre ++ c :: rest, column := pre.length + 1 }) := by
  unfold getC LineBuffer.get
  rw [hb]
  simp

theorem schar_small (c : Nat) (h : c < 128) : schar c = (c : Int) := by
  unfold schar
  have : c % 256 = c := by omega
  simp [this, h]

/-- TRACK IDS: in a track list, a letter `A`..`Z` selects track 0..25, a digit `0`..`9` track
26..35, and `*` hands over to `get_num()`: the number read is the track (a missing number is the
input error "expected track number"); the cursor ends behind the address -/
theorem C06_track_id_map (s : MmlState) (pre : List Nat) (c : Nat) (rest : List Nat)
    (hb : s.inp.lb = { buf := pre ++ c :: rest, column := pre.length }) :
    (65 ≤ c → c ≤ 90 → getTrackId s = .ok ((c : Int) - 65) (setLb s { buf := pre ++ c :: rest, column := pre.length + 1 })) ∧
    (48 ≤ c → c ≤ 57 → getTrackId s = .ok ((c : Int) - 48 + 26) (setLb s { buf := pre ++ c :: rest, column := pre.length + 1 })) ∧
    (c = 42 → getTrackId s =
      match getNumC (setLb s { buf := pre ++ c :: rest, column := pre.length + 1 }) with
      | .ok (some v) s' => .ok v s'
      | .ok none s' => .err (.input "expected track number" s'.inp.getReference) s'
      | .err e s' => .err e s') := by
  have hg := getC_at s pre c rest hb
  refine ⟨fun h1 h2 => ?_, fun h1 h2 => ?_, fun h1 => ?_⟩
  · unfold getTrackId
    rw [bind_apply, hg, schar_small c (by omega)]
    have : (decide ((65 : Int) ≤ (c : Int)) && decide ((c : Int) ≤ 90)) = true := by
      simp; omega
    simp only [this, if_true]
    rfl
  · unfold getTrackId
    rw [bind_apply, hg, schar_small c (by omega)]
    have h65 : (decide ((65 : Int) ≤ (c : Int)) && decide ((c : Int) ≤ 90)) = false := by
      simp; omega
    have hd : isDigit (c : Int) = true := by
      unfold isDigit; simp; omega
    simp only [h65, hd, if_true, Bool.false_eq_true, if_false]
    rfl
  · subst h1
    unfold getTrackId
    rw [bind_apply, hg]
    have h42 : schar 42 = 42 := by decide
    rw [h42]
    simp only [show (decide ((65 : Int) ≤ 42) && decide ((42 : Int) ≤ 90)) = false by decide, show isDigit (42 : Int) = false by decide,
      show ((42 : Int) == 42) = true by decide, if_true, Bool.false_eq_true, if_false, bind_apply]
    cases getNumC (setLb s { buf := pre ++ 42 :: rest, column := pre.length + 1 }) with
    | ok r s' => cases r <;> rfl
    | err e s' => rfl

example : ((65 : Nat) ≤ 90 ∧ (48 : Nat) ≤ 57) := by decide

/-- the track list of a line: every address read is appended, reduced to 16 bits
(`track_list.push_back(int)` into a `vector<uint16_t>`), until `get_track_id()` finds no further
address; so `*n` selects track `n mod 65536` -/
theorem C06_track_list_ids (fuel : Nat) (c : Int) (acc : List Nat) (s : MmlState) :
    (∀ c' s', getTrackId s = .ok c' s' → c' ≠ -1 → trackListLoop (fuel + 1) c acc s = trackListLoop fuel c' (acc ++ [wrapU16 c]) s') ∧
    (∀ s', getTrackId s = .ok (-1) s' → trackListLoop (fuel + 1) c acc s = .ok (acc ++ [wrapU16 c]) s') ∧
    (∀ n : Nat, wrapU16 (n : Int) = n % 65536) := by
  refine ⟨fun c' s' h hc => ?_, fun s' h => ?_, fun n => ?_⟩
  · conv => lhs; unfold trackListLoop
    simp only [bind_apply, h]
    have : (c' != -1) = true := by simpa using hc
    simp only [this, if_true]
  · conv => lhs; unfold trackListLoop
    simp only [bind_apply, h]
    rfl
  · unfold wrapU16
    omega

/-- the whole mechanism on a line: letters, digits, `*n` (also beyond 16 bits), in any order -/
example : (readLine (tx "Z09*36*65535*65541A c") 0 MmlState.init).state.trackList = [25, 26, 35, 36, 65535, 5, 0] := by
  decide +kernel

/-- the full statement for `*n`: on a decimal numeral `get_num()` reads its value (C05 keeps the
same statement as `C05_full_statement_getNum_render`; not proved) -/
def C06_full_statement_star_decimal : Prop :=
  ∀ (s : MmlState) (pre ds rest : List Nat), ds ≠ [] → (∀ d ∈ ds, d < 10) → digitsValue 10 ds < 2147483648 →
    (∀ c, rest.head? = some c → digitVal 10 c = none) →
    s.inp.lb = { buf := pre ++ 42 :: (decChars ds ++ rest), column := pre.length } →
    getTrackId s = .ok (digitsValue 10 ds : Int) (setLb s { buf := pre ++ 42 :: (decChars ds ++ rest), column := pre.length + 1 + ds.length })

/-! ## continuation lines and multi-track lines -/

/-- MULTI-TRACK LINE: `parse_mml` parses the same column range once per listed track, in list
order, with `track_offset` = the position in the list, creating the track when it does not exist,
and stops at the first track that fails (or leaves its conditional block open) -/
theorem C06_multitrack_unfold (s : MmlState) (col i id : Nat) (rest : List Nat) :
    parseMml s = parseMmlLoop s.inp.lb.column 0 s.trackList s ∧
    parseMmlLoop col i [] s = .ok () s ∧
    parseMmlLoop col i (id :: rest) s =
      match parseMmlTrack { setLb s (s.inp.lb.seek col) with trackId := id, trackOffset := i % 65536, song := (setLb s (s.inp.lb.seek col)).song.makeTrack id, conditionalBlock := false } with
      | .ok _ s2 =>
        if s2.conditionalBlock then .err (.input "unterminated conditional block" s2.inp.getReference) s2
        else parseMmlLoop col (i + 1) rest s2
      | .err e s2 => .err e s2 :=
  ⟨rfl, rfl, parseMmlLoop_cons col i id rest s⟩


/-! ## conditional blocks -/

theorem setLb_self (s : MmlState) (b : LineBuffer) (h : s.inp.lb = b) : setLb s b = s := by
  subst h; rfl

/-- the scan of `conditional_block_begin` / `_end` over bytes `xs` none of which stops it, up to
a stopping byte `c` -/
theorem scanTokenC_at (stop : Int → Bool) (s : MmlState) (pre xs : List Nat) (c : Nat) (rest : List Nat)
    (hxs : ∀ x ∈ xs, (schar x == 0 || stop (schar x)) = false) (hc : (schar c == 0 || stop (schar c)) = true)
    (hb : s.inp.lb = { buf := pre ++ xs ++ c :: rest, column := pre.length }) :
    scanTokenC stop s = .ok (schar c) (setLb s { buf := pre ++ xs ++ c :: rest, column := pre.length + (xs.length + 1) }) := by
  have hsc : scanC stop s = .ok (xs, schar c) (setLb s { buf := pre ++ xs ++ c :: rest, column := pre.length + (xs.length + 1) }) := by
    unfold scanC
    simp only [hb]
    have : List.drop pre.length (pre ++ xs ++ c :: rest) = xs ++ c :: rest := by simp
    rw [this, scanUntil_stop stop xs c rest hxs hc]
  unfold scanTokenC
  rw [bind_apply, hsc]
  rfl

def slashStop : Int → Bool := fun c => c == 47 || c == 59

theorem cbGo_select : ∀ (skipped : List (List Nat)) (pre rest : List Nat) (s : MmlState),
    (∀ a ∈ skipped, ∀ x ∈ a, (schar x == 0 || slashStop (schar x)) = false) →
    s.inp.lb = { buf := pre ++ skipped.flatMap (· ++ [47]) ++ rest, column := pre.length } →
    conditionalBlockBegin.go skipped.length s =
      .ok () (setLb s { buf := pre ++ skipped.flatMap (· ++ [47]) ++ rest, column := pre.length + (skipped.flatMap (· ++ [47])).length })
  | [], pre, rest, s, _, hb => by
    simp only [List.flatMap_nil, List.length_nil, Nat.add_zero, List.append_nil] at hb ⊢
    rw [setLb_self s _ hb]
    rfl
  | a :: as, pre, rest, s, hsk, hb => by
    have hb' : s.inp.lb = { buf := pre ++ a ++ 47 :: (as.flatMap (· ++ [47]) ++ rest), column := pre.length } := by
      rw [hb]; simp [List.append_assoc]
    have hscan := scanTokenC_at slashStop s pre a 47 (as.flatMap (· ++ [47]) ++ rest) (hsk a (by simp)) (by decide) hb'
    have ih := cbGo_select as (pre ++ a ++ [47]) rest
      (setLb s { buf := pre ++ a ++ 47 :: (as.flatMap (· ++ [47]) ++ rest), column := pre.length + (a.length + 1) })
      (fun b hb x hx => hsk b (by simp [hb]) x hx)
      (by simp [setLb, List.append_assoc])
    have hscan' : scanTokenC (fun c => c == 47 || c == 59) s = _ := hscan
    have h47 : schar 47 = 47 := by decide
    show conditionalBlockBegin.go (as.length + 1) s = _
    unfold conditionalBlockBegin.go
    rw [bind_apply, hscan', h47]
    simp only [bne_self_eq_false, Bool.false_eq_true, if_false]
    rw [ih]
    simp [setLb, List.append_assoc]
    omega

/-- CONDITIONAL BLOCK, selection (PARTIAL — the hypothesis `hsk` "the skipped alternatives contain no
`/`, `;` or NUL" is exactly what D16 violates): with the cursor behind `{` and `track_offset = i`,
`conditional_block_begin` moves the cursor behind the `i`-th `/`, i.e. to the start of
alternative `i`, sets the block flag and changes nothing else -/
theorem C06_conditional_select_partial (skipped : List (List Nat)) (pre rest : List Nat) (s : MmlState)
    (hsk : ∀ a ∈ skipped, ∀ x ∈ a, (schar x == 0 || (schar x == 47 || schar x == 59)) = false)
    (hoff : s.trackOffset = skipped.length)
    (hb : s.inp.lb = { buf := pre ++ skipped.flatMap (· ++ [47]) ++ rest, column := pre.length }) :
    conditionalBlockBegin s =
      .ok () { setLb s { buf := pre ++ skipped.flatMap (· ++ [47]) ++ rest, column := pre.length + (skipped.flatMap (· ++ [47])).length }
               with conditionalBlock := true } := by
  unfold conditionalBlockBegin
  simp only [bind_apply, getS, modifyS]
  have h := cbGo_select skipped pre rest { s with conditionalBlock := true } hsk hb
  rw [← hoff] at h
  exact h

/-- non-vacuity: `AB {c d/e}` for the second track: skip `c d`, land on `e` -/
example : (∀ a ∈ [tx "c d"], ∀ x ∈ a, (schar x == 0 || (schar x == 47 || schar x == 59)) = false) := by decide

/-- the full statement of `multitrack_eq_single`: a well-formed multi-track stream rendered as
multi-track lines gives every track the events of its own single-track lines.  NOT proved (it needs
`command_consumes_span` for every command parser); false as stated when an alternative spells `/`
or `}` (D16: `C06_nested_separator_counterexample`); carried by the metamorphic stream -/
def C06_full_statement_multitrack_eq_single : Prop :=
  ∀ (multi single : List (List Nat)) (a : Nat),
    -- `single` = the lines of `multi` with every header replaced by the one track `a` and every block by `a`'s alternative
    True →
    ((readLines 0 multi MmlState.init).state.song.tracks.lookup a).map Track.getEvents =
    ((readLines 0 single MmlState.init).state.song.tracks.lookup a).map Track.getEvents

/-! ## D16: the textual scan of conditional blocks -/

/-- D16, first face: a loop break or a key signature inside an alternative is taken for the
block's own `/` or `}` — the multi-track line is NOT equivalent to the single-track lines:
`AB o4 {[c/d]2/e} g` gives A `[c g` and B `d]2 g` where `A o4 [c/d]2 g` + `B o4 e g` give the loop
to A and `e g` to B; `AB o4 {c/_{D} f} g` is rejected although `A o4 c g` + `B o4 _{D} f g` is fine -/
theorem C06_nested_separator_counterexample :
    (outcome ["AB o4 {[c/d]2/e} g"]).1 = none ∧ (outcome ["A o4 [c/d]2 g", "B o4 e g"]).1 = none ∧
    (outcome ["AB o4 {[c/d]2/e} g"]).2 ≠ (outcome ["A o4 [c/d]2 g", "B o4 e g"]).2 ∧
    (outcome ["AB o4 {c/_{D} f} g"]).1 = some (.input "unknown MML command" { line := 0, column := 15 }) ∧
    (outcome ["A o4 c g", "B o4 _{D} f g"]).1 = none := by
  decide +kernel

/-- D16, second face: a block with fewer alternatives than tracks is accepted when a `/` follows
later on the line: `ABC {c/d} {e/f/g}` is accepted and gives C the single note `f` -/
theorem C06_short_block_counterexample :
    outcome ["ABC {c/d} {e/f/g}"] =
      (none, [(0, [{ type := ev_NOTE, param := 60, on := 24, off := 0 }, { type := ev_NOTE, param := 64, on := 24, off := 0 }]),
              (1, [{ type := ev_NOTE, param := 62, on := 24, off := 0 }, { type := ev_NOTE, param := 65, on := 24, off := 0 }]),
              (2, [{ type := ev_NOTE, param := 65, on := 24, off := 0 }])]) := by
  decide +kernel

end Ctrmml.C06
