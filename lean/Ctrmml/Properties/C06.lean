import Ctrmml.Model.Mml
import Ctrmml.Spec.Layout
namespace Ctrmml.C06
theorem C06_stub : True := trivial
end Ctrmml.C06
