/-
  C13 — RIFF containers round-trip.  Property theorems only; helper lemmas are in
  Proofs/Riff.lean, the model in Model/Riff.lean, the tree/walk/file-layout in
  Spec/RiffTree.lean.
-/
import Ctrmml.Proofs.Riff
namespace Ctrmml.Riff
open Ctrmml

/-- Layout clause: a tree built through the interface serialises to type, little-endian
size *excluding* the pad byte, data, and a zero pad byte after odd-sized data; children are
laid out in order, each preceded by a pad byte when the vector so far is odd
(`Tree.file`/`layout`). -/
theorem C13_serialize_layout (t : Tree) (hw : t.wf) : serialize t = .ok t.file := by
  unfold serialize
  rw [build_ok t hw]
  simp [Except.map, toBytes, Tree.file]

/-- Round trip: every well-formed tree whose data vectors are shorter than 4 GiB is
recovered exactly (types, list ids, order, payload bytes) by parsing the serialised bytes
and walking them with `get_id`/`at_end`/`get_chunk`/`get_data`. -/
theorem C13_walk_serialize (t : Tree) (hw : t.wf) (hs : t.small) :
    ∃ b, serialize t = .ok b ∧ walkTop b = .ok t := by
  refine ⟨t.file, C13_serialize_layout t hw, ?_⟩
  unfold walkTop Tree.file
  apply walk_frame t hw hs
  have := size_le_body t
  simp; omega

/-- Re-serialising a parsed well-formed file reproduces it byte for byte. -/
theorem C13_reserialize_id (b : Bytes) (h : fileWf b) :
    (ofBytes b).map toBytes = .ok b := by
  obtain ⟨t, size, ht, hsz, hlen, hpad⟩ := h
  have hlt := rdLe32_lt b 4 size hsz
  unfold ofBytes
  have h8 : ¬ b.length < 8 := by omega
  simp only [h8, if_false, ht, hsz]
  have hc : ¬ (size > b.length - 8) := by omega
  simp only [hc, if_false, Except.map, toBytes]
  congr 1
  -- decompose b into its 8 header bytes and the rest
  match b, ht, hsz, hlen, hpad with
  | b3 :: b2 :: b1 :: b0 :: s0 :: s1 :: s2 :: s3 :: rest, ht, hsz, hlen, hpad =>
    simp only [List.length_cons] at hlen
    have hrl : rest.length = size + size % 2 := by omega
    simp only [rdBe32, rdLe32, List.drop, Option.some.injEq] at ht hsz
    have e0 := b0.toNat_lt; have e1 := b1.toNat_lt; have e2 := b2.toNat_lt; have e3 := b3.toNat_lt
    have f0 := s0.toNat_lt; have f1 := s1.toNat_lt; have f2 := s2.toNat_lt; have f3 := s3.toNat_lt
    have hbe : be32 t = [b3, b2, b1, b0] := by
      simp only [be32, byteOf]
      have a3 : t / 16777216 % 256 = b3.toNat := by omega
      have a2 : t / 65536 % 256 = b2.toNat := by omega
      have a1 : t / 256 % 256 = b1.toNat := by omega
      have a0 : t % 256 = b0.toNat := by omega
      simp [a0, a1, a2, a3]
    have hle : le32 size = [s0, s1, s2, s3] := by
      simp only [le32, byteOf]
      have a3 : size / 16777216 % 256 = s3.toNat := by omega
      have a2 : size / 65536 % 256 = s2.toNat := by omega
      have a1 : size / 256 % 256 = s1.toNat := by omega
      have a0 : size % 256 = s0.toNat := by omega
      simp [a0, a1, a2, a3]
    have htl : (List.take size rest).length = size := by simp; omega
    simp only [List.drop, htl, hbe, hle]
    simp only [List.cons_append, List.nil_append, List.cons.injEq, true_and]
    rcases Nat.mod_two_eq_zero_or_one size with hp | hp
    · simp only [hp, Nat.add_zero] at hrl ⊢
      simp [← hrl]
    · have hp' := hpad hp
      simp only [hp] at hrl ⊢
      simp only [show (1 == 1) = true from rfl, if_true]
      have : rest = List.take size rest ++ List.drop size rest := (List.take_append_drop size rest).symm
      have hdl : (List.drop size rest).length = 1 := by simp; omega
      match hdr : List.drop size rest, hdl with
      | [x], _ =>
        have hx : rest[size]? = some x := by
          have := List.getElem?_drop (xs := rest) (i := size) (j := 0)
          rw [hdr] at this; simpa using this.symm
        have : (b3 :: b2 :: b1 :: b0 :: s0 :: s1 :: s2 :: s3 :: rest)[8 + size]? = rest[size]? := by
          rw [Nat.add_comm]; rfl
        rw [this, hx] at hp'
        simp only [Option.some.injEq] at hp'
        subst hp'
        conv => rhs; rw [← List.take_append_drop size rest, hdr]

/-- Truncated or oversized size fields never cause a read outside the buffer: in *every*
reader state, `get_chunk` ends in a value or a thrown C++ exception, never in iterator
arithmetic past the end of the vector. -/
theorem C13_no_oob (r : Riff) : getChunk r ≠ .error .oob := by
  unfold getChunk
  generalize (if r.position % 2 == 1 then r.position + 1 else r.position) = pos
  cases hl : isList r.type
  · simp
  · simp only [Bool.not_true, Bool.false_eq_true, if_false]
    cases h1 : rdLe32 r.data pos with
    | none => simp
    | some v =>
      cases h2 : rdLe32 r.data (pos + 4) with
      | none => simp
      | some size0 =>
        -- the second read succeeded, so pos+8 ≤ length, and the clamp bounds the size
        have hlong : pos + 4 + 4 ≤ r.data.length := by
          rcases Nat.lt_or_ge r.data.length (pos + 4 + 4) with hcon | hcon
          · have := rdLe32_none_of_short r.data (pos + 4) (by omega)
            rw [this] at h2; cases h2
          · exact hcon
        simp only []
        generalize hsz : (if size0 > r.data.length - (pos + 8) then r.data.length - (pos + 8) else size0) = size
        have hb : ¬ (pos + 8 + size > r.data.length) := by
          rw [← hsz]; split <;> omega
        simp [hb]

/-- The parsing constructor has no undefined-behaviour outcome either. -/
theorem C13_ofBytes_no_oob (b : Bytes) : ofBytes b ≠ .error .oob := by
  unfold ofBytes
  split
  · simp
  · split <;> simp

/-- **Walking terminates and never reads outside, for every byte string** (well-formed or not:
truncated files, corrupted size fields, arbitrary bytes): `walkTop` returns a tree or one of the
exceptions the library throws on purpose; its step budget `|bytes|+1` is never exhausted and no
out-of-bounds outcome is reached. -/
theorem C13_walk_total (b : Bytes) : walkTop b ≠ .error .oob :=
  (walk_fuel_enough (b.length + 1)).1 b (Nat.le_refl _)

/- Non-vacuity: a concrete nested tree with an odd payload meets the hypotheses, and the
round trip computes. -/
def exTree : Tree :=
  .list TYPE_RIFF 0x4d445330 [.chunk 0x666d7420 [1, 2, 3], .list TYPE_LIST 0x64626c6b [.chunk 0x676c6f62 []], .chunk 0x64617461 [9]]

example : exTree.wf ∧ exTree.small := by
  simp [exTree, Tree.wf, Tree.wfL, Tree.small, smallL, isList, TYPE_RIFF, TYPE_LIST, Tables.riff_TYPE_RIFF, Tables.riff_TYPE_LIST, Tree.body, layout]

example : fileWf [0x41, 0x42, 0x43, 0x44, 1, 0, 0, 0, 7, 0] :=
  ⟨0x41424344, 1, by decide, by decide, by decide, by decide⟩

end Ctrmml.Riff
