/-
  C07 — The VGM export keys every note at the right time with the right pitch.

  Model: Model/MdDriver.lean (MD_Driver / MD_Channel / Platform::vgm_export, plain subset) on
  top of Model/PlayerCh.lean and Model/Vgm.lean.  Spec: Spec/Schedule.lean (frame table,
  expected key events and register values, reading of the log).  Helper lemmas:
  Proofs/MdDriver.lean.

  What is proved here (for ALL songs, instruments, tempi, volume settings):
  * the clock of `play_step` never leaves the 147-sample grid (147 = gcd(735, 882)): every
    quantity that is a `double` in the C++ is an integer multiple of 147 — this replaces any
    floating-point assumption; the sequence update number k runs exactly at sample 735·k, the
    returned delta is a positive multiple of 147 that never jumps over a multiple of 735, and the
    `|next_delta| < 1/10000` branch is never taken;
  * every register write of the exported operation list is preceded by delays that sum to a
    multiple of 735 samples (`C07_log_on_grid`);
  * closed form of the 8-bit tempo accumulator, 0..2 ticks per update;
  * the attenuation written for a volume setting is antitone in the setting (FM carriers and
    PSG, coarse scale; the fine scale is an attenuation scale and is monotone) for every
    instrument level, algorithm, operator and envelope level;
  * the regenerated frequency tables span exactly one octave and follow equal temperament
    (PSG within 1 LSB, FM within 2 LSB per semitone; FM within 1 LSB is FALSE of the table, see
    the example below).
  * `C07_tick_delivery`: the n-th `play_tick` of a fresh player delivers exactly the n-th tick of
    the list machine over `perf` (first pass of the track);
  * `C07_key_frame_partial` (+ `C07_update_ticks`, `C07_key_frame_start`): for FM channels of
    tracks without slurs, each update writes a key-off iff a note/rest/end (or tie) is delivered
    in its ticks and the key-on, last, iff a note (or tie) is delivered;
  * `C07_pitch_value_partial`: the pitch words the model computes and writes, `fmPitch = fmWord`.
  * `C07_log_by_updates`: the export loop of a successful export is exactly the sequence updates
    `0 … K`, the writes of update `k` at sample `735·k`, waits summing to `735·K`; when it stops;
    when a loop marker is written;
  * `C07_tick_delivery_all_passes`, `C07_list_machine_times`: `play_tick` on EVERY pass of a track
    (looping list machine; hypothesis `SegTop`), and at which call which item is delivered;
  * `C07_tempo_table_partial`, `C07_schedule_fm_partial`, `C07_schedule_fm_tempo_partial`: for a song
    with one channel track, the tick table as a function of the tick stream alone (mid-song tempo)
    and, for an FM channel without SLUR, the key-off / key-on writes of EVERY update of the log;
  * `C07_slur_update_partial`, `C07_psg_update_partial`: slurred FM notes and PSG melody channels,
    per update, on any pass;
  * `C07_export_extent_noloop_partial`: where the log of a track without loop point ends.
  * `C07_loop_marker_partial`: with one channel track the loop marker is written in exactly the updates in
    which a `SEGNO` is delivered and the channel plays on (`loop_trigger` instance of the chain).
  What is NOT proved here and rests on the schedule oracle (Spec/Schedule run on every real
  export by the check) and on the byte-exact correspondence: the loop-count lemma of
  `export_extent` (looping songs), several channels in one statement, slurs / PSG composed over
  the log, the register-file replay of `pitch_value`, `max_seconds` — kept as `C07_full_statement`.
  Known findings (known_findings.txt): `short-note` (at more than one tick per update the key-on
  of a note that ends inside the update it starts in is written after its key-off), `segno-in-sub`
  and `segno-in-loop` (a loop point below the top level of the channel's track: the player keeps
  only an index, the second pass resumes elsewhere — excluded by `SegTop`), `short-loop` (a loop section
  shorter than the rest of the update that reads the loop point: no loop marker, the export stops).
-/
import Ctrmml.Proofs.MdDriver
import Ctrmml.Proofs.TickStream
import Ctrmml.Proofs.MdKeys
import Ctrmml.Proofs.TickLoop
import Ctrmml.Proofs.MdUpd
import Ctrmml.Proofs.MdSched
import Ctrmml.Proofs.MdTable
import Ctrmml.Proofs.MdSlur
import Ctrmml.Proofs.MdExtent
import Ctrmml.Proofs.MdSlurSched
import Ctrmml.Proofs.MdTrig
import Ctrmml.Spec.Schedule
namespace Ctrmml.C07
open Ctrmml Ctrmml.MdDriver Tables

/-- **All clock quantities are multiples of 147.**  Before every call of `play_step` of every
export the elapsed time and both counters are integer multiples of 147 samples, the elapsed
time is non-negative, the counters lie in `(-735, 0]` and `(-882, 0]`; the export loop runs
only while the elapsed time is below one hour of samples, far below 2^53 (exact in a double). -/
theorem C07_multiples_of_147 (d : Data) (song : Song) (n : Nat) :
    let b := before d song n
    b.2.1 % 147 = 0 ∧ b.1.seqCounter % 147 = 0 ∧ b.1.pcmCounter % 147 = 0 ∧ 0 ≤ b.2.1 ∧
      -735 < b.1.seqCounter ∧ b.1.seqCounter ≤ 0 ∧ -882 < b.1.pcmCounter ∧ b.1.pcmCounter ≤ 0 ∧
      maxTime < 2 ^ 53 ∧ seqDelta % 147 = 0 ∧ pcmDelta % 147 = 0 := by
  obtain ⟨⟨h0, h147, hs0, hs1, hp0, hp1, hsm, hpm, _⟩, _⟩ := before_inv d song n
  simp only at h0 h147 hs0 hs1 hp0 hp1 hsm hpm
  refine ⟨h147, by omega, by omega, h0, hs1, hs0, hp1, hp0, by decide, by decide, by decide⟩

/-- **The 60 Hz grid.**  In the `n`-th call of `play_step` of any export: the sequence update
runs iff the elapsed time is a multiple of 735 samples, and then it is update number `k` at
sample `735·k` (`k` = updates so far); the returned delta is a multiple of 147 with
`147 ≤ delta ≤ 735`; the clock arithmetic adds no error (the `< 1/10000` branch is not taken);
afterwards the invariant holds again with the update counted.  (PCM updates — `stepPcm` — emit
no write in the subset by construction.) -/
theorem C07_play_step_grid (d : Data) (song : Song) (n : Nat) :
    let b := before d song n
    let p := playStep d song b.1
    (b.1.seqCounter ≥ 0 ↔ b.2.1 % 735 = 0) ∧
    (b.1.seqCounter ≥ 0 → b.2.1 = 735 * (b.2.2 : Int)) ∧
    147 ≤ p.2.2 ∧ p.2.2 % 147 = 0 ∧ p.2.2 ≤ 735 ∧
    p.1.g = (stepLoop (stepPcm (stepSeq d song b.1).1)).1.g ∧
    before d song (n + 1) = (p.1, b.2.1 + p.2.2, if b.1.seqCounter ≥ 0 then b.2.2 + 1 else b.2.2) := by
  obtain ⟨hinv, hcnt⟩ := before_inv d song n
  have hp := playStep_inv d song _ _ _ hinv hcnt
  have hf := fires_iff _ hinv
  simp only at hp hf
  refine ⟨hf, hp.2.2.2.2.1, hp.2.1, hp.2.2.1, hp.2.2.2.1, hp.2.2.2.2.2.2, ?_⟩
  -- unfolding one more step of the run
  have step : ∀ (m : Nat) (s : Drv) (t : Int) (k : Nat),
      runSteps d song (m + 1) s t k =
        (let r := runSteps d song m s t k
         ((playStep d song r.1).1, r.2.1 + (playStep d song r.1).2.2, if r.1.seqCounter ≥ 0 then r.2.2 + 1 else r.2.2)) := by
    intro m
    induction m with
    | zero => intro s t k; rfl
    | succ m ih =>
      intro s t k
      rw [runSteps, ih]
      rfl
  exact step n _ 0 0

/-- **Every register write of the exported log sits on the 60 Hz grid.**  In the list of
`VGM_Writer` operations of any successful export (`Model/Vgm.run` turns it into the file: every
`delay n` becomes waits of `n` samples, C08), the delays before any chip `write` sum to a
multiple of 735 samples — the writes of sequence update `k` are preceded by waits of `735·k`
samples (`C07_play_step_grid`), PCM-only steps write nothing. -/
theorem C07_log_on_grid (d : Data) (song : Song) (tags : Vgm.Tags) (ops : List Vgm.Op)
    (h : exportOps d song tags = .ok ops) :
    ∀ p ∈ stamps 0 ops, isWrite p.2 = true → p.1 % 735 = 0 := by
  unfold exportOps at h
  generalize hps : playSong d song = ps at h
  obtain ⟨s0, o0⟩ := ps
  simp only at h
  generalize hel : exportLoop d song exportFuel s0 0 0 [] = el at h
  obtain ⟨s1, o1⟩ := el
  simp only at h
  split at h
  · exact absurd h (by simp)
  · injection h with h
    subst h
    have hs0 : s0 = (playSong d song).1 := by rw [hps]
    have ho0 : o0 = (playSong d song).2 := by rw [hps]
    have hpre : ∀ x ∈ ctorPokes ++ o0, isDelay x = false := by
      intro x hx
      rcases List.mem_append.mp hx with hx | hx
      · unfold ctorPokes at hx
        obtain ⟨w, _, rfl⟩ := List.mem_map.mp hx
        rfl
      · rw [ho0] at hx
        unfold playSong at hx
        simp only [List.mem_append, List.mem_cons, List.mem_flatMap, List.not_mem_nil, or_false] at hx
        rcases hx with (rfl | rfl) | ⟨w, _, hw⟩
        · rfl
        · rfl
        · exact toOps_noDelay w x hw
    have hnd := stamps_noDelay 0 (ctorPokes ++ o0) hpre
    have hloop : ∀ p ∈ stamps 0 o1, isWrite p.2 = true → p.1 % 735 = 0 := by
      have hc0 : ClockInv (0, s0.seqCounter, s0.pcmCounter) := by
        have : (playSong d song).1.seqCounter = 0 ∧ (playSong d song).1.pcmCounter = 0 := by simp [playSong]
        rw [hs0, this.1, this.2]; exact clockInv_init
      have := exportLoop_on_grid d song exportFuel s0 0 0 [] hc0 (by omega) (by simp [delaySum]) (by simp [stamps])
      rw [hel] at this
      exact this
    intro p hp hw
    have e : ctorPokes ++ o0 ++ o1 ++ [Vgm.Op.stop, Vgm.Op.writeTag tags] =
        (ctorPokes ++ o0) ++ (o1 ++ [Vgm.Op.stop, Vgm.Op.writeTag tags]) := by simp
    rw [e, stamps_append, hnd.1, hnd.2, stamps_append] at hp
    rcases List.mem_append.mp hp with hp | hp
    · obtain ⟨x, _, rfl⟩ := List.mem_map.mp hp
      rfl
    · rcases List.mem_append.mp hp with hp | hp
      · exact hloop p hp hw
      · simp [stamps] at hp
        rcases hp with rfl | rfl <;> simp [isWrite] at hw

/-- **Tick delivery (first pass of a track).**  Let `items` be the structural expansion `perf`
of a track of a song without explicit `END` events, platform commands or drum mode, whose
expansion stays within the step budget of the fetch loop.  Then the `n`-th call of
`Player::play_tick` (from a fresh player) calls `write_event` with exactly what the list machine
`TickStream.lmTick` delivers at its `n`-th tick when loaded with `items`: a synthetic `REST`
when an on-time runs out and off-time is left (i.e. at `start + on` when `off > 0`), and, when
the current item has elapsed, the next items of `perf` up to and including the first one with
a duration — each item at the tick equal to its start time (`C07_list_machine_times`).  This
holds for every `n` up to the end of the first pass (while the list machine is live). -/
theorem C07_tick_delivery (song : Song) (root : List Event) (pd : Int → Bool)
    (hs : Refine.SongNoEnd song) (hr : Tree.NoEnd root) (hplain : TickStream.PlainCode song root)
    (items : List Expand.Item) (hperf : Expand.perf song root = .ok items)
    (hfuel : ∀ k outs, Refine.stepsCore song root k ⟨.root, 0, []⟩ = .ok (⟨.root, root.length, []⟩, outs) →
      k ≤ PlayerCh.settleFuel)
    (n : Nat) (hlive : ∀ j, j < n → (TickStream.lmAfter (j + 1) ⟨0, 0, items⟩).live) :
    TickStream.tickEvents song root pd n PlayerCh.initPS = TickStream.lmRun n ⟨0, 0, items⟩ := by
  have hrel := TickStream.rel_init song root hs hr items hperf hfuel
  obtain ⟨s', hrun, _⟩ := TickStream.ct_sim_run song root _ n _ _ hrel hlive
  exact TickStream.tickEvents_ct song root pd (TickStream.plainHooks_of song root hplain) n PlayerCh.initPS rfl
    (by unfold TickStream.drumOff; decide) s' _ hrun

/-- **Which ticks an update plays (constant tempo).**  With the tempo `δ` in force and the
accumulator at `c < 128` before update 0, update `k` plays the `play_tick` calls number
`N_k … N_{k+1} − 1`, where `N_k = (c + k(δ+1)) div 128` (`C07_tempo_closed_form`); call number
`j` delivers the items of `perf` that start at tick `j` (`C07_tick_delivery`).  Hence the item
starting at tick `τ` is handled in update `min {k | N_{k+1} > τ}`. -/
theorem C07_update_ticks (k c δ : Nat) (hc : c < 128) :
    (tempoRun (k + 1) c δ).1 = (tempoRun k c δ).1 + (tempoStep (tempoRun k c δ).2 δ).1 ∧
    (tempoRun (k + 1) c δ).2 = (tempoStep (tempoRun k c δ).2 δ).2 ∧
    (tempoRun k c δ).1 ≤ (tempoRun (k + 1) c δ).1 := by
  rw [tempoRun_closed _ _ _ hc, tempoRun_closed _ _ _ hc]
  simp only [tempoStep, pow_shift]
  have e : (k + 1) * (δ + 1) = k * (δ + 1) + δ + 1 := by rw [Nat.succ_mul]; omega
  rw [e]
  generalize k * (δ + 1) = m
  omega

/-- **Key-on and key-off in the right update (FM channel; partial: no slur in the track, any
tempo as long as the tick count `n` of the update is given).**  Let an FM channel of the
model be in good standing (no error, slur flag clear, no key-on pending) and related to the
list machine `m` loaded with the rest of `perf` (`TickStream.Rel`, established at the start of
the track by `TickStream.rel_init`).  One `MD_Channel::update(n)` — unless it ends in an error —
leaves the channel related to the list machine `n` ticks later (so the statement applies to the
next update again), writes only key-off and key-on words of this channel to register 0x28, and
 * writes a key-off iff a note, rest or end of track (or a tie, which re-keys when an instrument
   change is pending) is delivered in these `n` ticks;
 * writes the key-on, as the LAST key write of the update, iff a note (or such a tie) is
   delivered in these `n` ticks.
Together with `C07_update_ticks` and `C07_play_step_grid` this places the key writes of the
note starting at tick τ in the update `min {k | N_{k+1} > τ}` at sample `735·k`.  Extra
hypotheses w.r.t. the full statement: no `SLUR` event in the track (with slurs the key-on of a
slurred note is suppressed, which the schedule oracle checks); notes shorter than an update are
allowed here (the key-on is then last, after the key-off — the `short-note` finding). -/
theorem C07_key_frame_partial (d : Data) (song : Song) (root : List Event) (bank id : Nat)
    (hid : id < 3) (hbank : bank < 2)
    (hplain : TickStream.PlainCode song root)
    (hnoslur : ∀ tr e, e ∈ codeOf song root tr → e.type ≠ ev_SLUR)
    (cEnd : Player.Core) (n : Nat) (g : G) (c : Ch) (m : TickStream.LM)
    (hc : ChOK root bank id c) (hg : g.err = none) (hkon : c.keyOn = false)
    (hrel : TickStream.Rel song root cEnd ⟨c.ps.core, c.ps.acc⟩ m)
    (hl : ∀ j, j < n → (TickStream.lmAfter (j + 1) m).live) :
    (chUpdate d song n g c).1.err.isSome = true ∨
      (TickStream.Rel song root cEnd ⟨(chUpdate d song n g c).2.1.ps.core, (chUpdate d song n g c).2.1.ps.acc⟩
          (TickStream.lmAfter n m) ∧
       ChOK root bank id (chUpdate d song n g c).2.1 ∧ (chUpdate d song n g c).2.1.keyOn = false ∧
       (∀ x ∈ keys (chUpdate d song n g c).2.2, x = koff bank id ∨ x = kon bank id) ∧
       ((∃ e ∈ (TickStream.lmRun n m).flatten, e.type = ev_NOTE ∨ e.type = ev_REST ∨ e.type = ev_END) →
          koff bank id ∈ keys (chUpdate d song n g c).2.2) ∧
       (koff bank id ∈ keys (chUpdate d song n g c).2.2 →
          ∃ e ∈ (TickStream.lmRun n m).flatten, e.type = ev_NOTE ∨ e.type = ev_TIE ∨ e.type = ev_REST ∨ e.type = ev_END) ∧
       ((∃ e ∈ (TickStream.lmRun n m).flatten, e.type = ev_NOTE) →
          (keys (chUpdate d song n g c).2.2).getLast? = some (kon bank id)) ∧
       (kon bank id ∈ keys (chUpdate d song n g c).2.2 →
          ∃ e ∈ (TickStream.lmRun n m).flatten, e.type = ev_NOTE ∨ e.type = ev_TIE)) :=
  chUpdate_keys d song root bank id hid hbank (TickStream.plainHooks_of song root hplain)
    (TickStream.hooks_of song root (fun t => t ≠ ev_SLUR) (by decide) hnoslur) cEnd n g c m hc hg hkon hrel hl

/-- the hypotheses of `C07_key_frame_partial` hold at the start of every FM track:
`MD_FM`'s constructor leaves the channel in good standing with nothing pending -/
theorem C07_key_frame_start (d : Data) (id : Nat) (root : List Event) (hid : id < 6) :
    ChOK root (id / 3) (id % 3) (mkCh d id root).1 ∧ (mkCh d id root).1.keyOn = false ∧
      (mkCh d id root).1.ps.core = ⟨.root, 0, []⟩ ∧ (mkCh d id root).1.ps.acc = {} := by
  have hd : TickStream.drumOff
      ({ trackState := ((List.replicate ev_CHANNEL_CMD_COUNT (0 : Int)).set (PlayerCh.chIdx ev_VOL_FINE) md_initial_vol).set
          (PlayerCh.chIdx ev_PAN) md_initial_pan, mask := [PlayerCh.VOL_BIT] } : PlayerCh.Chan) := by
    unfold TickStream.drumOff; decide
  unfold mkCh
  rw [if_pos hid]
  exact ⟨⟨rfl, rfl, rfl, hd, rfl⟩, rfl, rfl, rfl⟩

/-- **Pitch value (partial: the values the model computes and writes; the register-file
replay is left to the oracle).**  (1) A note sets `note_pitch` to
`256·(note + transpose) + detune` (mod 2^16); (2) at the end of the update the channel pitch
becomes `note_pitch + 256·instrument transpose` (mod 2^16), it is written — as the word
`fmPitch pitch` to the channel's block/f-number registers 0xa4+id / 0xa0+id — exactly when it
differs from the last written pitch, which it then replaces; (3) on the whole valid range
(8 octaves) `fmPitch` is the table value with linear detune interpolation that
`Spec/Schedule.fmWord` defines (the PSG counterpart `psgPitch = psgWord` is checked by the oracle only). -/
theorem C07_pitch_value_partial :
    (∀ (g : G) (c : Ch) (e : Event),
      (noteStart g c e).2.1.notePitch = u16 ((e.param + c.var ev_TRANSPOSE) * 256 + c.var ev_DETUNE)) ∧
    (∀ (c : Ch) (bank id : Nat), c.kind = .fm bank id →
      (chPitch c).1.pitch = u16 ((c.notePitch : Int) + c.insTranspose * 256) ∧
      (chPitch c).1.lastPitch = (chPitch c).1.pitch ∧
      (chPitch c).2 = (if (chPitch c).1.pitch ≠ c.lastPitch then ymW bank 0xa0 id 0 (fmPitch (chPitch c).1.pitch) else [])) ∧
    (∀ p : Nat, p < 96 * 256 → Schedule.fmWord p = some (fmPitch p)) := by
  refine ⟨?_, ?_, ?_⟩
  · intro g c e
    unfold noteStart
    simp only
    split
    · cases c.kind <;> rfl
    · rfl
  · intro c bank id hk
    refine ⟨rfl, rfl, ?_⟩
    unfold chPitch
    simp only [vSetPitch, hk]
  · have H : ∀ n, n < 96 → ∀ f, f < 256 → Schedule.fmWord ((256 * n + f : Nat) : Int) = some (fmPitch (256 * n + f)) := by
      decide +kernel
    intro p hp
    have := H (p / 256) (by omega) (p % 256) (by omega)
    rwa [Nat.div_add_mod] at this

/-- **Tempo accumulator, closed form.**  `n` sequence updates at constant tempo `δ` from
counter `c` play `(c + n(δ+1)) div 128` ticks and leave the counter `(c + n(δ+1)) mod 128`. -/
theorem C07_tempo_closed_form (n c δ : Nat) (hc : c < 128) :
    tempoRun n c δ = ((c + n * (δ + 1)) / 128, (c + n * (δ + 1)) % 128) :=
  tempoRun_closed n c δ hc

/-- one update plays 0, 1 or 2 ticks and keeps the counter below 128; `seq_update` uses
exactly this step for every enabled channel and adds it to the tick count -/
theorem C07_tempo_step_le_two (c δ : Nat) (hc : c < 128) (hδ : δ < 256) :
    (tempoStep c δ).1 ≤ 2 ∧ (tempoStep c δ).2 < 128 ∧
      ∀ (d : Data) (song : Song) (s : Drv), s.tempoCounter = c → s.g.tempoDelta = δ →
        (seqUpdate d song s).1.tempoCounter = (tempoStep c δ).2 ∧
        (seqUpdate d song s).1.ticks = s.ticks + (tempoStep c δ).1 := by
  refine ⟨?_, ?_, ?_⟩
  · simp only [tempoStep, pow_shift]; omega
  · simp only [tempoStep, pow_shift]; omega
  · intro d song s h1 h2
    subst h1 h2
    simp [seqUpdate]

/-- **Attenuation is antitone in the volume setting.**  For every instrument total level,
algorithm, operator, PSG envelope byte and every pair of settings: raising the coarse volume
never raises the value written to an FM total-level register or to a PSG attenuation
register; on the fine scale (an attenuation scale: `V0` is loudest) lowering the setting
never raises it.  `vSetVol` writes exactly these values. -/
theorem C07_attenuation_antitone :
    (∀ (tl con op : Nat) (v v' : Int), v ≤ v' →
      fmTl tl con op (fmVolAdd true v') ≤ fmTl tl con op (fmVolAdd true v)) ∧
    (∀ (tl con op : Nat) (v v' : Int), v ≤ v' →
      fmTl tl con op (fmVolAdd false v) ≤ fmTl tl con op (fmVolAdd false v')) ∧
    (∀ (env : Nat) (v v' : Int), v ≤ v' → psgAtt true v' env ≤ psgAtt true v env) ∧
    (∀ (env : Nat) (v v' : Int), v ≤ v' → psgAtt false v env ≤ psgAtt false v' env) ∧
    (∀ (c : Ch) (bank id : Nat), c.kind = .fm bank id →
      vSetVol c = [3, 2, 1, 0].flatMap fun op =>
        ymW bank 0x40 id op (fmTl (tab c.tl op) c.con op (fmVolAdd c.coarse (c.var ev_VOL_FINE)))) ∧
    (∀ (c : Ch) (id : Nat), c.kind = .psg id →
      vSetVol c = snW 1 id (psgAtt c.coarse (c.var ev_VOL_FINE) c.envDelay)) := by
  refine ⟨?_, ?_, ?_, ?_, ?_, ?_⟩
  · intro tl con op v v' h
    exact fmTl_mono _ _ _ _ _ (fmVolAdd_coarse_antitone v v' h)
  · intro tl con op v v' h
    exact fmTl_mono _ _ _ _ _ (by simpa [fmVolAdd] using h)
  · intro env v v' h
    simp only [psgAtt, if_true]
    split <;> split <;> (try split) <;> (try split) <;> omega
  · intro env v v' h
    have hm := psgVolume_mono (if v < 0 then 0 else v.toNat) (if v' < 0 then 0 else v'.toNat)
      (by split <;> split <;> omega)
    simp only [psgAtt, Bool.false_eq_true, if_false]
    generalize psgVolume (if v < 0 then 0 else v.toNat) = a at hm ⊢
    generalize psgVolume (if v' < 0 then 0 else v'.toNat) = b at hm ⊢
    split <;> split <;> omega
  · intro c bank id h
    simp [vSetVol, h]
  · intro c id h
    simp [vSetVol, h]

/-- `hi ≈ lo · 2^(1/12)` within `tol` units, as an integer inequality on 12th powers -/
def semitone (tol lo hi : Nat) : Prop :=
  (hi - tol) ^ 12 ≤ 2 * lo ^ 12 ∧ 2 * lo ^ 12 ≤ (hi + tol) ^ 12

instance (tol lo hi : Nat) : Decidable (semitone tol lo hi) := by unfold semitone; infer_instance

/-- **The frequency tables are sound** (checked on the tables regenerated from md.cpp): 13
entries each, the last FM entry is twice the first (one octave up = next block), the first PSG
divider is twice the last, and adjacent entries are a semitone apart — PSG within 1 LSB, FM
within 2 LSB. -/
theorem C07_pitch_tables_sound :
    md_fm_freqtab.length = 13 ∧ md_psg_freqtab.length = 13 ∧
    md_fm_freqtab.getD 12 0 = 2 * md_fm_freqtab.getD 0 0 ∧
    md_psg_freqtab.getD 0 0 = 2 * md_psg_freqtab.getD 12 0 ∧
    (∀ i, i < 12 → semitone 2 (md_fm_freqtab.getD i 0) (md_fm_freqtab.getD (i + 1) 0)) ∧
    (∀ i, i < 12 → semitone 1 (md_psg_freqtab.getD (i + 1) 0) (md_psg_freqtab.getD i 0)) := by
  decide

/-- the FM table is NOT within 1 LSB of equal temperament (644 → 681: 644·2^(1/12) = 682.29) -/
example : ¬ semitone 1 (md_fm_freqtab.getD 0 0) (md_fm_freqtab.getD 1 0) := by decide

/-! ### non-vacuity -/
/-- the clock really moves: the first three deltas of any export are 735, 147, 588 -/
example : (clockIter 3 (0, 0, 0)) = some (1470, 0, -294) := by decide
/-- T255 plays two ticks per update, T63 one tick every second update, from an empty counter -/
example : tempoRun 4 0 255 = (8, 0) ∧ tempoRun 4 0 63 = (2, 0) ∧ tempoRun 3 0 10 = (0, 33) := by decide
/-- the antitone chain is strict somewhere: v15 → TL 22, v0 → TL 62 on a carrier of level 20;
a modulator is not touched; the clamp is reached -/
example : fmTl 20 7 0 (fmVolAdd true 15) = 22 ∧ fmTl 20 7 0 (fmVolAdd true 0) = 62 ∧
    fmTl 20 0 0 (fmVolAdd true 0) = 20 ∧ fmTl 100 7 0 (fmVolAdd false 200) = 127 ∧
    psgAtt true 16 0x10 = 0 ∧ psgAtt true 15 0x10 = 0 ∧ psgAtt true 8 0x1c = 15 ∧ psgAtt false 41 0x10 = 14 := by decide

/-! ### the known finding `short-note`, exhibited in the model -/
/-- FM channel A: `T255 r(1 tick) note 40 (on 1, off 3) r(4 ticks)` -/
def shortNoteSong : Song :=
  { tracks := [(0, [⟨ev_TEMPO, 255, 0, 0⟩, ⟨ev_REST, 0, 0, 1⟩, ⟨ev_NOTE, 40, 1, 3⟩, ⟨ev_REST, 0, 0, 4⟩])] }

/-- **Counterexample to the key order (known finding `short-note`).**  At T255 update 1 plays
ticks 1 and 2: the note starts at tick 1 and its on-time ends at tick 2.  The second call of
`play_step` (sample 735) writes to the key register of channel A: key-off (new note), key-off
(end of the on-time), and only then the deferred key-on; nothing is written to the key register
in the next three calls (samples 882, 1470, 1764), the key-off comes with the following rest at
sample 2205 — the 1-tick note sounds for two updates, through its own off-time.  Replayed on the
real code by the corpus of checks/c07.py. -/
theorem C07_short_note_counterexample :
    let d : Data := { ins := [] }
    tempoStep 1 255 = (2, 1) ∧
    (before d shortNoteSong 1).2.1 = 735 ∧
    keyData (playStep d shortNoteSong (before d shortNoteSong 1).1).2.1 = [0, 0, 0xf0] ∧
    keyData (playStep d shortNoteSong (before d shortNoteSong 2).1).2.1 = [] ∧
    keyData (playStep d shortNoteSong (before d shortNoteSong 3).1).2.1 = [] ∧
    keyData (playStep d shortNoteSong (before d shortNoteSong 4).1).2.1 = [] ∧
    (before d shortNoteSong 5).2.1 = 2205 ∧
    keyData (playStep d shortNoteSong (before d shortNoteSong 5).1).2.1 = [0] := by
  decide +kernel

/-- `C07_log_on_grid` is not vacuous: the export of `shortNoteSong` succeeds and its register
writes carry the sample times 0, 735, 2205 and 3675 -/
example :
    (match exportOps { ins := [] } shortNoteSong
        { title := [], titleJ := [], game := [], gameJ := [], system := [], systemJ := [], author := [],
          authorJ := [], date := [], creator := [], notes := [] } with
      | .ok ops => (((stamps 0 ops).filter (fun p => isWrite p.2)).map (fun p => p.1)).eraseDups
      | .error _ => []) = [0, 735, 2205, 3675] := by decide +kernel

/-! ### every pass of a track, the whole log, the schedule of an FM channel -/

/-- **Tick delivery on every pass of a track.**  Hypotheses as in `C07_tick_delivery`, plus:
every `SEGNO` the track passes is read in the channel's own track outside any loop and any
subroutine (`TickStream.SegTop`; established by `TickStream.segTop_of_noSegno` for tracks without
loop point and by `TickStream.segTop_one_segno` / `segTop_segment` / `segTop_segno` for loop
points at the top level of the track), and twice the length of a pass fits the step budget of the
fetch loop.  Then for EVERY `n` the first `n` calls of `Player::play_tick` call `write_event`
with exactly what the looping list machine `TickStream.lxTick` delivers: the items of `perf` at
their start ticks and the synthetic `REST`s; when the items run out and a loop point was passed,
time has passed since the loop point and since the last jump back, the items after the last loop
point again (and again, on every later pass); otherwise — no loop point, or a loop section that
takes no time — `END` once, and nothing afterwards.  Outside `SegTop` the real player resumes
somewhere else: known findings `segno-in-sub`, `segno-in-loop`. -/
theorem C07_tick_delivery_all_passes (song : Song) (root : List Event) (pd : Int → Bool)
    (hs : Refine.SongNoEnd song) (hr : Tree.NoEnd root) (hplain : TickStream.PlainCode song root)
    (items : List Expand.Item) (hperf : Expand.perf song root = .ok items)
    (hfuel : ∀ k outs, Refine.stepsCore song root k ⟨.root, 0, []⟩ = .ok (⟨.root, root.length, []⟩, outs) →
      2 * k + 2 ≤ PlayerCh.settleFuel)
    (hseg : ∀ k, TickStream.SegTop song root k ⟨.root, 0, []⟩) (n : Nat) :
    TickStream.tickEvents song root pd n PlayerCh.initPS = TickStream.lxRun n (TickStream.lxInit items) := by
  have hB : 2 * 49999 + 2 ≤ PlayerCh.settleFuel := by unfold PlayerCh.settleFuel; decide
  have hrel := TickStream.relX_init song root hs hr items hperf 49999
    (fun k outs h => by have := hfuel k outs h; unfold PlayerCh.settleFuel at this; omega) hseg
  obtain ⟨s', hrun, _⟩ := TickStream.lx_sim_run song root _ 49999 (TickStream.endOK_root song root) hB n _ _ hrel
  exact TickStream.tickEvents_ct song root pd (TickStream.plainHooks_of song root hplain) n PlayerCh.initPS rfl
    (by unfold TickStream.drumOff; decide) s' _ hrun

/-- **The log, update by update; when the export stops; where the loop marker goes.**  The
operation list of every successful export is: the header pokes, the initial writes of
`play_song`, the export loop `L`, `stop`, the tag.  `L` consists of the operations of the
sequence updates `0 … K` — `updOps k` = the register writes of `seq_update` number `k`
followed by `set_loop` iff after that update `loop_trigger` is set and `get_loop_count() = 0` —
the operations of update `k` at sample time `735·k` (nothing else is ever written), and of waits
that sum to `735·K`, the length of the log.  Update `K` is the FIRST update after which no
channel plays any more or `get_loop_count()` has reached the configured number of loops
(`stopCond`); no error arises up to then.  (Reaching `max_seconds` is `DErr.tooLong` in the
model, i.e. not a successful export; the C++ pads the log to one hour there.) -/
theorem C07_log_by_updates (d : Data) (song : Song) (tags : Vgm.Tags) (ops : List Vgm.Op)
    (h : exportOps d song tags = .ok ops) :
    ∃ K L, ops = ctorPokes ++ (playSong d song).2 ++ L ++ [Vgm.Op.stop, Vgm.Op.writeTag tags] ∧
      stamps 0 L = schedLog d song (playSong d song).1 (K + 1) ∧ delaySum L = 735 * K ∧
      stopCond (updRun d song (K + 1) (playSong d song).1) ∧
      (∀ j, 1 ≤ j → j ≤ K → ¬ stopCond (updRun d song j (playSong d song).1)) ∧
      (∀ j, j ≤ K + 1 → (updRun d song j (playSong d song).1).g.err = none) ∧
      (∀ k, updOps d song (playSong d song).1 k =
        (updWrs d song (playSong d song).1 k).flatMap Wr.toOps ++
          (if (seqUpdate d song (updRun d song k (playSong d song).1)).1.g.loopTrigger = true ∧
              loopCount (seqUpdate d song (updRun d song k (playSong d song).1)).1 = 0 then [Vgm.Op.setLoop] else [])) := by
  obtain ⟨K, L, h1, h2, h3, h4, h5, h6⟩ := exportOps_log d song tags ops h
  refine ⟨K, L, h1, h2, h3, h4, h5, h6, fun k => ?_⟩
  rw [updOps_eq]
  congr 1
  unfold updMark stepLoop
  split <;> rfl

/-- **The schedule of an FM channel over the whole log (partial: one channel track, no SLUR).**
Let a song have one channel track — an FM channel, `id < 6` — and any number of subroutine
tracks, no `SLUR`, platform or drum-mode event anywhere, every `SEGNO` at the top level of the
channel's track (`SegTop`), and let its export succeed.  Let `N_k` be the driver's tick counter
before sequence update `k` (`N_0 = 0`, `N_{k+1} = N_k + (c_k + δ_k + 1) div 128` with the tempo
accumulator `c_k` and the tempo `δ_k` in force: `C07_update_ticks`, `C07_tempo_closed_form`).
Then the log is `L` as in `C07_log_by_updates`, and for EVERY update `k = 0 … K` of the log, the
writes to the key register 0x28 at sample time `735·k` are (`FmKeySched`):
 * only key-off / key-on words of this channel;
 * a key-off iff a note, a rest or the end of the track (or a tie, see `C07_key_frame_partial`)
   is delivered by the looping list machine of `C07_tick_delivery_all_passes` at a tick `τ` with
   `N_k ≤ τ < N_{k+1}`;
 * the key-on, as the LAST key write, iff a note (or such a tie) is delivered at such a tick.
Hence the note that the tick stream starts at tick `τ` — on any pass of the track — is keyed
in update `k(τ) = min {k | N_{k+1} > τ}` at sample `735·k(τ)`, and keyed off in the update that
contains `τ + on` (the synthetic `REST`) or the start of the next note, rest or the end.  The
last conjunct: in an update with a note the key-on is the LAST REGISTER WRITE of the update
(`updWrs k`), so the frequency word of `C07_pitch_value_partial` — written by `update_pitch` in the
same update whenever the pitch changed — and every other write of the update precede it.  Extra hypotheses w.r.t. the full statement:
one channel track, FM, no `SLUR` (slurred notes: `C07_slur_update_partial`), `SegTop`; a note
that ends inside the update it starts in is keyed on AFTER its key-off (`short-note`). -/
theorem C07_schedule_fm_partial (d : Data) (song : Song) (tags : Vgm.Tags) (ops : List Vgm.Op)
    (id : Nat) (root : List Event) (hid : id < 6)
    (hexp : exportOps d song tags = .ok ops) (hsingle : SingleTrack song id root)
    (hs : Refine.SongNoEnd song) (hr : Tree.NoEnd root) (hplain : TickStream.PlainCode song root)
    (hnoslur : ∀ tr e, e ∈ codeOf song root tr → e.type ≠ ev_SLUR)
    (items : List Expand.Item) (hperf : Expand.perf song root = .ok items)
    (hfuel : ∀ k outs, Refine.stepsCore song root k ⟨.root, 0, []⟩ = .ok (⟨.root, root.length, []⟩, outs) →
      2 * k + 2 ≤ PlayerCh.settleFuel)
    (hseg : ∀ k, TickStream.SegTop song root k ⟨.root, 0, []⟩) :
    ∃ K L, ops = ctorPokes ++ (playSong d song).2 ++ L ++ [Vgm.Op.stop, Vgm.Op.writeTag tags] ∧
      stamps 0 L = schedLog d song (playSong d song).1 (K + 1) ∧ delaySum L = 735 * K ∧
      ∀ k, k ≤ K →
        (updRun d song (k + 1) (playSong d song).1).ticks =
          (updRun d song k (playSong d song).1).ticks +
            (tempoStep (updRun d song k (playSong d song).1).tempoCounter (updRun d song k (playSong d song).1).g.tempoDelta).1 ∧
        FmKeySched (id / 3) (id % 3) (TickStream.lxInit items) (updRun d song k (playSong d song).1).ticks
          (updRun d song (k + 1) (playSong d song).1).ticks (keysV (updOps d song (playSong d song).1 k)) ∧
        (DeliveredIn (TickStream.lxInit items) (updRun d song k (playSong d song).1).ticks
            (updRun d song (k + 1) (playSong d song).1).ticks (fun e => e.type = ev_NOTE) →
          (updWrs d song (playSong d song).1 k).getLast? = some (konWr (id / 3) (id % 3))) := by
  obtain ⟨K, L, h1, h2, h3, _, _, h6⟩ := exportOps_log d song tags ops hexp
  have hB : 2 * 49999 + 2 ≤ PlayerCh.settleFuel := by unfold PlayerCh.settleFuel; decide
  have hrel := TickStream.relX_init song root hs hr items hperf 49999
    (fun k outs h => by have := hfuel k outs h; unfold PlayerCh.settleFuel at this; omega) hseg
  refine ⟨K, L, h1, h2, h3, fun k hk => ⟨(updRun_ticks d song _ k).1, ?_, ?_⟩⟩
  · exact single_fm_keys d song root id hid hsingle _ 49999 (TickStream.endOK_root song root) hB
      (TickStream.plainHooks_of song root hplain)
      (TickStream.hooks_of song root (fun t => t ≠ ev_SLUR) (by decide) hnoslur) _ hrel k
      (fun j hj => h6 j (by omega))
  · exact single_fm_kon_last d song root id hid hsingle _ 49999 (TickStream.endOK_root song root) hB
      (TickStream.plainHooks_of song root hplain)
      (TickStream.hooks_of song root (fun t => t ≠ ev_SLUR) (by decide) hnoslur) _ hrel k
      (fun j hj => h6 j (by omega))

/-- **Mid-song tempo in one statement: the table of ticks per update** (partial: one channel
track — of any kind, FM or PSG, slurs allowed).  In a successful export of a song with one channel
track, for every update `k = 0 … K+1`: the driver's tick counter, tempo accumulator and tempo are
`tickTable m0 k = (N_k, c_k, δ_k)`, computed from the tick stream alone: `N_0 = 0`, `c_0 = 0`,
`δ_0 = 128` (`play_song`); update `k` plays `n_k = (c_k + δ_k + 1) div 128` ticks,
`c_{k+1} = (c_k + δ_k + 1) mod 128`, and `δ_{k+1}` is the LAST tempo command among the events the
list machine delivers in the ticks `N_k … N_k + n_k − 1` (`TEMPO p` ↦ `p mod 256`, `TEMPO_BPM b` ↦
`bpm_to_delta b`), else `δ_k`: a tempo command takes effect from the update AFTER the one that
reads it — at any tick, first or last of its update (generator family `tempo-boundary`).
Between tempo commands `C07_tempo_closed_form` gives `N` in closed form.  Extra hypothesis w.r.t.
the full statement: one channel track (with several, the commands of all channels of an update
compete in track order — decided by the oracle's `frameTable`). -/
theorem C07_tempo_table_partial (d : Data) (song : Song) (tags : Vgm.Tags) (ops : List Vgm.Op)
    (id : Nat) (root : List Event)
    (hexp : exportOps d song tags = .ok ops) (hsingle : SingleTrack song id root)
    (hs : Refine.SongNoEnd song) (hr : Tree.NoEnd root) (hplain : TickStream.PlainCode song root)
    (items : List Expand.Item) (hperf : Expand.perf song root = .ok items)
    (hfuel : ∀ k outs, Refine.stepsCore song root k ⟨.root, 0, []⟩ = .ok (⟨.root, root.length, []⟩, outs) →
      2 * k + 2 ≤ PlayerCh.settleFuel)
    (hseg : ∀ k, TickStream.SegTop song root k ⟨.root, 0, []⟩) :
    ∃ K L, ops = ctorPokes ++ (playSong d song).2 ++ L ++ [Vgm.Op.stop, Vgm.Op.writeTag tags] ∧
      stamps 0 L = schedLog d song (playSong d song).1 (K + 1) ∧ delaySum L = 735 * K ∧
      ∀ k, k ≤ K + 1 →
        ((updRun d song k (playSong d song).1).ticks, (updRun d song k (playSong d song).1).tempoCounter,
          (updRun d song k (playSong d song).1).g.tempoDelta) = tickTable (TickStream.lxInit items) k := by
  obtain ⟨K, L, h1, h2, h3, _, _, h6⟩ := exportOps_log d song tags ops hexp
  have hB : 2 * 49999 + 2 ≤ PlayerCh.settleFuel := by unfold PlayerCh.settleFuel; decide
  have hrel := TickStream.relX_init song root hs hr items hperf 49999
    (fun k outs h => by have := hfuel k outs h; unfold PlayerCh.settleFuel at this; omega) hseg
  exact ⟨K, L, h1, h2, h3, fun k hk => single_table d song root id hsingle _ 49999 (TickStream.endOK_root song root) hB
    (TickStream.plainHooks_of song root hplain) _ hrel k (fun j hj => h6 j (by omega))⟩

/-- **The schedule of an FM channel with mid-song tempo changes, from the tick stream alone.**
`C07_schedule_fm_partial` with `N_k` replaced by the table of `C07_tempo_table_partial`: for every
update `k` of the log, the key-register writes at sample `735·k` are the key-off / key-on words
the events of the ticks `N_k … N_{k+1} − 1` call for, `N = tickTable`. -/
theorem C07_schedule_fm_tempo_partial (d : Data) (song : Song) (tags : Vgm.Tags) (ops : List Vgm.Op)
    (id : Nat) (root : List Event) (hid : id < 6)
    (hexp : exportOps d song tags = .ok ops) (hsingle : SingleTrack song id root)
    (hs : Refine.SongNoEnd song) (hr : Tree.NoEnd root) (hplain : TickStream.PlainCode song root)
    (hnoslur : ∀ tr e, e ∈ codeOf song root tr → e.type ≠ ev_SLUR)
    (items : List Expand.Item) (hperf : Expand.perf song root = .ok items)
    (hfuel : ∀ k outs, Refine.stepsCore song root k ⟨.root, 0, []⟩ = .ok (⟨.root, root.length, []⟩, outs) →
      2 * k + 2 ≤ PlayerCh.settleFuel)
    (hseg : ∀ k, TickStream.SegTop song root k ⟨.root, 0, []⟩) :
    ∃ K L, ops = ctorPokes ++ (playSong d song).2 ++ L ++ [Vgm.Op.stop, Vgm.Op.writeTag tags] ∧
      stamps 0 L = schedLog d song (playSong d song).1 (K + 1) ∧ delaySum L = 735 * K ∧
      ∀ k, k ≤ K →
        FmKeySched (id / 3) (id % 3) (TickStream.lxInit items) (tickTable (TickStream.lxInit items) k).1
          (tickTable (TickStream.lxInit items) (k + 1)).1 (keysV (updOps d song (playSong d song).1 k)) := by
  obtain ⟨K, L, h1, h2, h3, _, _, h6⟩ := exportOps_log d song tags ops hexp
  have hB : 2 * 49999 + 2 ≤ PlayerCh.settleFuel := by unfold PlayerCh.settleFuel; decide
  have hrel := TickStream.relX_init song root hs hr items hperf 49999
    (fun k outs h => by have := hfuel k outs h; unfold PlayerCh.settleFuel at this; omega) hseg
  refine ⟨K, L, h1, h2, h3, fun k hk => ?_⟩
  have hpl := TickStream.plainHooks_of song root hplain
  have t0 := single_table d song root id hsingle _ 49999 (TickStream.endOK_root song root) hB hpl _ hrel k
    (fun j hj => h6 j (by omega))
  have t1 := single_table d song root id hsingle _ 49999 (TickStream.endOK_root song root) hB hpl _ hrel (k + 1)
    (fun j hj => h6 j (by omega))
  rw [← t0, ← t1]
  exact single_fm_keys d song root id hid hsingle _ 49999 (TickStream.endOK_root song root) hB hpl
    (TickStream.hooks_of song root (fun t => t ≠ ev_SLUR) (by decide) hnoslur) _ hrel k
    (fun j hj => h6 j (by omega))

/-- **Slurred notes, per update (FM channel; any track, slurs allowed, any pass).**  Let an FM
channel of the model be in good standing (`Base`: its track, no player error, drum mode off; no
key-on pending) and related to the looping list machine `m` (`TickStream.RelX`, established at
the start of the track by `TickStream.relX_init` and kept by every update).  Let `evs` be the
events `m` delivers in the next `n` ticks and `sl = slurIn c evs` — the slur flag is set before the
update or a `SLUR` command is among `evs`.  One `MD_Channel::update(n)` — unless it ends in an
error — leaves the channel related to the machine `n` ticks later, in good standing, and:
 * writes only key-off / key-on words of this channel to register 0x28;
 * writes NO key-on when `sl` holds: slurred notes are not re-keyed (and a key-on implies a note
   or tie among `evs`); without `sl`, a note among `evs` has the key-on as the last key write and
   a key-off before it;
 * a key-off is written for a rest / end among `evs`; a note writes one only if the slur flag was
   clear before the update, or an instrument change is pending or commanded in this update (the
   instrument is then loaded at the note: `write_fm_4op` keys off) — a slurred note writes none,
   only its frequency changes (`chAfter`: `update_pitch` runs in every update, key-on or not:
   `C07_pitch_value_partial`);
 * a note among `evs` clears the slur flag at the end of the update; without note and tie the
   flag is `sl` afterwards.
So inside one update the flag is only ever set: a `SLUR` AFTER a note start of the same update,
or two note starts in one update of which the first is slurred, suppress the key-on of that
update altogether — where the schedule oracle stops judging the channel ("crowded update"). -/
theorem C07_slur_update_partial (d : Data) (song : Song) (root : List Event) (b i : Nat) (hi : i < 3) (hb : b < 2)
    (hplain : TickStream.PlainCode song root) (cEnd : Player.Core) (B : Nat) (hend : TickStream.EndOK song root cEnd)
    (hB : 2 * B + 2 ≤ PlayerCh.settleFuel) (n : Nat) (g : G) (c : Ch) (m : TickStream.LX)
    (hbase : Base root c) (hk : c.kind = .fm b i) (hg : g.err = none) (hkon : c.keyOn = false)
    (hrel : TickStream.RelX song root cEnd B ⟨c.ps.core, c.ps.acc⟩ m) :
    (chUpdate d song n g c).1.err.isSome = true ∨
      (TickStream.RelX song root cEnd B ⟨(chUpdate d song n g c).2.1.ps.core, (chUpdate d song n g c).2.1.ps.acc⟩
          (TickStream.lxAfter n m) ∧
       Base root (chUpdate d song n g c).2.1 ∧ (chUpdate d song n g c).2.1.kind = .fm b i ∧
       (chUpdate d song n g c).2.1.keyOn = false ∧
       (∀ x ∈ keys (chUpdate d song n g c).2.2, x = koff b i ∨ x = kon b i) ∧
       (kon b i ∈ keys (chUpdate d song n g c).2.2 →
          slurIn c (TickStream.lxRun n m).flatten = false ∧
            ∃ e ∈ (TickStream.lxRun n m).flatten, e.type = ev_NOTE ∨ e.type = ev_TIE) ∧
       ((∃ e ∈ (TickStream.lxRun n m).flatten, e.type = ev_NOTE) → slurIn c (TickStream.lxRun n m).flatten = false →
          (keys (chUpdate d song n g c).2.2).getLast? = some (kon b i) ∧ koff b i ∈ keys (chUpdate d song n g c).2.2) ∧
       ((∃ e ∈ (TickStream.lxRun n m).flatten, e.type = ev_REST ∨ e.type = ev_END) →
          koff b i ∈ keys (chUpdate d song n g c).2.2) ∧
       (koff b i ∈ keys (chUpdate d song n g c).2.2 →
          ∃ e ∈ (TickStream.lxRun n m).flatten, e.type = ev_TIE ∨ e.type = ev_REST ∨ e.type = ev_END ∨
            (e.type = ev_NOTE ∧ (c.slur = false ∨ c.flag ev_INS = true ∨
              ∃ e' ∈ (TickStream.lxRun n m).flatten, e'.type = ev_INS))) ∧
       ((∃ e ∈ (TickStream.lxRun n m).flatten, e.type = ev_NOTE) → (chUpdate d song n g c).2.1.slur = false) ∧
       ((¬ ∃ e ∈ (TickStream.lxRun n m).flatten, e.type = ev_NOTE ∨ e.type = ev_TIE) →
          (chUpdate d song n g c).2.1.slur = slurIn c (TickStream.lxRun n m).flatten)) := by
  obtain ⟨s', hrun, hrel'⟩ := TickStream.lx_sim_run song root cEnd B hend hB n _ m hrel
  rcases chUpdate_slur_keys d song root (TickStream.plainHooks_of song root hplain) b i hi hb n g c hbase hk hg hkon s' _ hrun
    with h | ⟨a1, a2, a3, a4, a5, a6, a7, a8, a9, a10, a11, a12⟩
  · exact Or.inl h
  · refine Or.inr ⟨?_, a3, a4, a5, a6, a7, a8, a9, a10, a11, a12⟩
    have : (⟨(chUpdate d song n g c).2.1.ps.core, (chUpdate d song n g c).2.1.ps.acc⟩ : Player.PState) = s' := by
      cases s'; simp only [Player.PState.mk.injEq]; exact ⟨a1, a2⟩
    rw [this]; exact hrel'

/-- **The schedule of an FM channel over the whole log, slurs allowed** (partial: one channel
track).  As `C07_schedule_fm_partial`, without the "no SLUR" hypothesis: let `sl_k` be the slur
flag of the channel before update `k` (`slurOf`, read off the driver; `sl_0 = false`) and `ins_k`
its "instrument change pending" flag.  For EVERY update `k = 0 … K` of the log (`SlurSched`):
 * only key-off / key-on words of this channel are written to register 0x28;
 * a key-on is written only if `sl_k` is clear and no `SLUR` is delivered in the ticks
   `N_k … N_{k+1}−1`; then, with a note among them, it is the last key write and a key-off
   precedes it — slurred notes are not re-keyed;
 * a rest / the end of the track writes a key-off; a note does only if `sl_k` is clear or an
   instrument is loaded at it (`ins_k`, or an `INS` command among the events) — a slurred note
   writes no key-off, only its frequency (`C07_pitch_value_partial`);
 * `sl_{k+1}`: clear after an update with a note; without note and tie it is set iff `sl_k` or a
   `SLUR` was delivered.
So the flag follows the tick stream: a `SLUR` sets it until the end of the update that holds the
next note start.  Extra hypothesis w.r.t. the full statement: one channel track, `SegTop`. -/
theorem C07_schedule_fm_slur_partial (d : Data) (song : Song) (tags : Vgm.Tags) (ops : List Vgm.Op)
    (id : Nat) (root : List Event) (hid : id < 6)
    (hexp : exportOps d song tags = .ok ops) (hsingle : SingleTrack song id root)
    (hs : Refine.SongNoEnd song) (hr : Tree.NoEnd root) (hplain : TickStream.PlainCode song root)
    (items : List Expand.Item) (hperf : Expand.perf song root = .ok items)
    (hfuel : ∀ k outs, Refine.stepsCore song root k ⟨.root, 0, []⟩ = .ok (⟨.root, root.length, []⟩, outs) →
      2 * k + 2 ≤ PlayerCh.settleFuel)
    (hseg : ∀ k, TickStream.SegTop song root k ⟨.root, 0, []⟩) :
    ∃ K L, ops = ctorPokes ++ (playSong d song).2 ++ L ++ [Vgm.Op.stop, Vgm.Op.writeTag tags] ∧
      stamps 0 L = schedLog d song (playSong d song).1 (K + 1) ∧ delaySum L = 735 * K ∧
      slurOf (updRun d song 0 (playSong d song).1) = false ∧ insOf (updRun d song 0 (playSong d song).1) = false ∧
      ∀ k, k ≤ K →
        SlurSched (id / 3) (id % 3) (TickStream.lxInit items) (updRun d song k (playSong d song).1).ticks
          (updRun d song (k + 1) (playSong d song).1).ticks
          (slurOf (updRun d song k (playSong d song).1)) (slurOf (updRun d song (k + 1) (playSong d song).1))
          (insOf (updRun d song k (playSong d song).1)) (keysV (updOps d song (playSong d song).1 k)) := by
  obtain ⟨K, L, h1, h2, h3, _, _, h6⟩ := exportOps_log d song tags ops hexp
  have hB : 2 * 49999 + 2 ≤ PlayerCh.settleFuel := by unfold PlayerCh.settleFuel; decide
  have hrel := TickStream.relX_init song root hs hr items hperf 49999
    (fun k outs h => by have := hfuel k outs h; unfold PlayerCh.settleFuel at this; omega) hseg
  have h0 := (playSong_single d song id root hsingle).1
  have hs0 : slurOf (updRun d song 0 (playSong d song).1) = false := by
    simp only [updRun, slurOf, h0]
    unfold mkCh; rw [if_pos hid]
  have hi0 : insOf (updRun d song 0 (playSong d song).1) = false := by
    have hm : ([PlayerCh.VOL_BIT] : List Nat).contains (PlayerCh.chIdx ev_INS) = false := by decide
    simp only [updRun, insOf, h0]
    unfold mkCh; rw [if_pos hid]; exact hm
  refine ⟨K, L, h1, h2, h3, hs0, hi0, fun k hk => ?_⟩
  exact single_fm_slur_keys d song root id hid hsingle _ 49999 (TickStream.endOK_root song root) hB
    (TickStream.plainHooks_of song root hplain) _ hrel k (fun j hj => h6 j (by omega))

/-- **PSG melody channel, per update (any track, any pass).**  For a PSG melody channel
(`kind = psg i`, tracks G–I) in good standing and related to the looping list machine `m`, one
`MD_Channel::update(n)` — unless it ends in an error — leaves it related to the machine `n` ticks
later, and with `atts i` = the attenuation values written to the channel's volume register:
 * **attenuation at key-on**: if a note is among the events of these ticks, no slur is pending
   or commanded (`slurIn`), the track has not ended in these ticks and the channel's envelope
   starts with a level byte `d0 > 0x0f` (every instrument envelope and the default envelope do),
   then the LAST attenuation write of the update is `psgAtt coarse vol d0` — the attenuation of
   the volume setting in force (`C07_attenuation_antitone`) plus the first envelope level —
   written by the envelope restart after the ticks, and the envelope stands behind its first byte;
 * **key-off at the end of the track = attenuation 15**: if the last event of these ticks is `END`
   and the machine has stopped, the last attenuation write of the update is 15.
(A rest only releases the envelope: when the attenuation reaches 15 after it depends on the
envelope program, C11's subject; the tone divider is written by `update_pitch` when the pitch
changed, key-on or not.) -/
theorem C07_psg_update_partial (d : Data) (song : Song) (root : List Event) (i : Nat) (hi : i < 3)
    (hplain : TickStream.PlainCode song root) (cEnd : Player.Core) (B : Nat) (hend : TickStream.EndOK song root cEnd)
    (hB : 2 * B + 2 ≤ PlayerCh.settleFuel) (n : Nat) (g : G) (c : Ch) (m : TickStream.LX)
    (hbase : Base root c) (hk : c.kind = .psg i) (hg : g.err = none) (hkon : c.keyOn = false)
    (hrel : TickStream.RelX song root cEnd B ⟨c.ps.core, c.ps.acc⟩ m) :
    (chUpdate d song n g c).1.err.isSome = true ∨
      (TickStream.RelX song root cEnd B ⟨(chUpdate d song n g c).2.1.ps.core, (chUpdate d song n g c).2.1.ps.acc⟩
          (TickStream.lxAfter n m) ∧
       Base root (chUpdate d song n g c).2.1 ∧ (chUpdate d song n g c).2.1.kind = .psg i ∧
       ((∃ e ∈ (TickStream.lxRun n m).flatten, e.type = ev_NOTE) → slurIn c (TickStream.lxRun n m).flatten = false →
          (TickStream.lxAfter n m).enabled = true →
          ∀ d0, (chUpdate d song n g c).2.1.envData[0]? = some d0 → d0 > 0x0f →
            (atts i (chUpdate d song n g c).2.2).getLast? =
              some (psgAtt (chUpdate d song n g c).2.1.coarse ((chUpdate d song n g c).2.1.var ev_VOL_FINE) d0 % 16) ∧
            (chUpdate d song n g c).2.1.envPos = 1 ∧ (chUpdate d song n g c).2.1.envDelay = d0 ∧
            (chUpdate d song n g c).2.1.keyOn = false ∧ (chUpdate d song n g c).2.1.slur = false) ∧
       (∀ e, (TickStream.lxRun n m).flatten.getLast? = some e → e.type = ev_END → (TickStream.lxAfter n m).enabled = false →
          (atts i (chUpdate d song n g c).2.2).getLast? = some 15)) := by
  obtain ⟨s', hrun, hrel'⟩ := TickStream.lx_sim_run song root cEnd B hend hB n _ m hrel
  rcases chUpdate_psg d song root (TickStream.plainHooks_of song root hplain) i hi n g c hbase hk hg hkon s' _ hrun
    with h | ⟨a1, a2, a3, a4, a5, a6⟩
  · exact Or.inl h
  · have hen : s'.acc.enabled = (TickStream.lxAfter n m).enabled := hrel'.1
    refine Or.inr ⟨?_, a3, a4, fun h1 h2 h3 => a5 h1 h2 (hen.trans h3), fun e h1 h2 h3 => a6 e h1 h2 (hen.trans h3)⟩
    have : (⟨(chUpdate d song n g c).2.1.ps.core, (chUpdate d song n g c).2.1.ps.acc⟩ : Player.PState) = s' := by
      cases s'; simp only [Player.PState.mk.injEq]; exact ⟨a1, a2⟩
    rw [this]; exact hrel'

/-- **When the list machine delivers what (first pass).**  Loaded with any list of items,
the looping list machine delivers, counting the calls of `play_tick` from 0:
 * the event of every item at the call whose number is the item's start tick — the sum of the
   durations of the items before it;
 * the synthetic `REST` of an item with on-time and off-time at start tick + on-time;
 * it is still playing, and has not jumped back, before every call up to number `totalDur items`;
 * if no item is a loop point, call number `totalDur items` delivers `END` last and the machine
   has stopped after it.
With `C07_tick_delivery_all_passes` this is `tick_delivery` of DESIGN §6 for the first pass in its
original form: "the channel sees the note/rest/tie/command of `perf` at exactly its tick, and a
synthetic key-off at `start + on` when `off > 0`". -/
theorem C07_list_machine_times (items : List Expand.Item) :
    (∀ pre i post, items = pre ++ i :: post →
      i.ev ∈ TickStream.lxEvents (TickStream.lxInit items) (Expand.totalDur pre)) ∧
    (∀ pre i post, items = pre ++ i :: post → i.src.on > 0 → i.src.off > 0 →
      PlayerCh.restEvent ∈ TickStream.lxEvents (TickStream.lxInit items) (Expand.totalDur pre + i.src.on)) ∧
    (∀ τ, τ ≤ Expand.totalDur items → (TickStream.lxAfter τ (TickStream.lxInit items)).enabled = true ∧
      (TickStream.lxAfter τ (TickStream.lxInit items)).lastJump = -1) ∧
    ((∀ i ∈ items, i.src.kind ≠ .segno) →
      (TickStream.lxAfter (Expand.totalDur items + 1) (TickStream.lxInit items)).enabled = false ∧
      (TickStream.lxEvents (TickStream.lxInit items) (Expand.totalDur items)).getLast? = some endEvent) := by
  obtain ⟨h1, h2, h3⟩ := TickStream.deliver items (TickStream.lxInit items) rfl rfl rfl rfl
  exact ⟨h1, h2, h3, fun hns => TickStream.deliver_end items (TickStream.lxInit items) rfl rfl rfl rfl rfl hns⟩

/-- **Extent of the log, track without loop point** (partial: one channel track of any kind).
In a successful export of a song with one channel track whose performance passes no `SEGNO`:
 * no update writes a loop marker — `updOps k` is just the register writes of update `k`;
 * the log ends with the update that plays tick `D = totalDur items`, the tick at which the track
   ends (`END` is delivered, `C07_list_machine_times`): `N_K ≤ D < N_{K+1}` for the last update
   `K`, with `N` the tick counter of `C07_tempo_table_partial`; the waits of the log sum to
   `735·K` samples.
This is `export_extent` of DESIGN §6 for songs without loop point, as the schedule oracle judges
it (`extent=end`: the log ends in update `F(longest track)`), for one channel.  Not proved: several
channels (the last one to end decides), and looping songs — the loop-count lemma ("after the
jump back the reset position is re-crossed one loop length after the marker") stays with the
oracle (`extent=loop`). -/
theorem C07_export_extent_noloop_partial (d : Data) (song : Song) (tags : Vgm.Tags) (ops : List Vgm.Op)
    (id : Nat) (root : List Event)
    (hexp : exportOps d song tags = .ok ops) (hsingle : SingleTrack song id root)
    (hs : Refine.SongNoEnd song) (hr : Tree.NoEnd root) (hplain : TickStream.PlainCode song root)
    (items : List Expand.Item) (hperf : Expand.perf song root = .ok items)
    (hfuel : ∀ k outs, Refine.stepsCore song root k ⟨.root, 0, []⟩ = .ok (⟨.root, root.length, []⟩, outs) →
      2 * k + 2 ≤ PlayerCh.settleFuel)
    (hns : ∀ i ∈ items, i.src.kind ≠ .segno) :
    ∃ K L, ops = ctorPokes ++ (playSong d song).2 ++ L ++ [Vgm.Op.stop, Vgm.Op.writeTag tags] ∧
      stamps 0 L = schedLog d song (playSong d song).1 (K + 1) ∧ delaySum L = 735 * K ∧
      (∀ k, k ≤ K → updOps d song (playSong d song).1 k = (updWrs d song (playSong d song).1 k).flatMap Wr.toOps) ∧
      (updRun d song K (playSong d song).1).ticks ≤ Expand.totalDur items ∧
      Expand.totalDur items < (updRun d song (K + 1) (playSong d song).1).ticks := by
  obtain ⟨K, L, h1, h2, h3, h4, h5, h6⟩ := exportOps_log d song tags ops hexp
  have hB : 2 * 49999 + 2 ≤ PlayerCh.settleFuel := by unfold PlayerCh.settleFuel; decide
  have hseg := TickStream.segTop_of_noSegno song root hs hr items hperf hns
  have hrel := TickStream.relX_init song root hs hr items hperf 49999
    (fun k outs h => by have := hfuel k outs h; unfold PlayerCh.settleFuel at this; omega) hseg
  have hnl : NoLoop (TickStream.lxInit items) := ⟨rfl, hns⟩
  have hpl := TickStream.plainHooks_of song root hplain
  have hstop := fun k hk => single_noloop d song root id hsingle _ 49999 (TickStream.endOK_root song root) hB hpl _ hnl hrel k
    (fun j hj => h6 j (Nat.le_trans hj hk))
  obtain ⟨t1, t2, t3, t4⟩ := C07_list_machine_times items
  -- once stopped, the machine stays stopped
  have hstay : ∀ a b, (TickStream.lxAfter a (TickStream.lxInit items)).enabled = false →
      (TickStream.lxAfter (a + b) (TickStream.lxInit items)).enabled = false := by
    intro a b h
    rw [TickStream.lxAfter_add]
    generalize TickStream.lxAfter a (TickStream.lxInit items) = m at h
    induction b generalizing m with
    | zero => exact h
    | succ b ih =>
      have : TickStream.lxTick m = (m, []) := by simp [TickStream.lxTick, h]
      simp only [TickStream.lxAfter, this]; exact ih m h
  refine ⟨K, L, h1, h2, h3, ?_, ?_, ?_⟩
  · intro k hk
    rw [updOps_eq, (hstop (K + 1) (Nat.le_refl _)).2 k (by omega), List.append_nil]
  · -- still playing before update K
    cases K with
    | zero =>
      have : (updRun d song 0 (playSong d song).1).ticks = 0 := by
        simp only [updRun]; simp [playSong]
      rw [this]; exact Nat.zero_le _
    | succ K' =>
      have hen : (TickStream.lxAfter (updRun d song (K' + 1) (playSong d song).1).ticks (TickStream.lxInit items)).enabled = true := by
        have := h5 (K' + 1) (by omega) (Nat.le_refl _)
        rw [(hstop (K' + 1) (by omega)).1] at this
        simpa using this
      rcases Nat.lt_or_ge (Expand.totalDur items) (updRun d song (K' + 1) (playSong d song).1).ticks with h | h
      · obtain ⟨b, hb⟩ : ∃ b, (updRun d song (K' + 1) (playSong d song).1).ticks = (Expand.totalDur items + 1) + b :=
          ⟨(updRun d song (K' + 1) (playSong d song).1).ticks - (Expand.totalDur items + 1), by omega⟩
        rw [hb, hstay _ b (t4 hns).1] at hen
        cases hen
      · exact h
  · -- stopped after update K
    have hdis := (hstop (K + 1) (Nat.le_refl _)).1.mp h4
    rcases Nat.lt_or_ge (Expand.totalDur items) (updRun d song (K + 1) (playSong d song).1).ticks with h | h
    · exact h
    · rw [(t3 _ h).1] at hdis; cases hdis

/-- **The log covers the first pass** (partial: one channel track of any kind; any loop
structure with the loop points at the top level).  In a successful export the last update `K`
satisfies `totalDur items < N_{K+1}`: the export does not stop before the track has ended or has
jumped back to its loop point — `get_loop_count()` is positive only after a jump back
(`JumpInv`), and by `C07_list_machine_times` neither happens before call number
`totalDur items` = the tick at which the last channel reaches the end of its first pass (for a
looping track: loop point + loop length).  This is the lower end `F(M+L)` of the interval in which
the schedule oracle accepts the end of a looping log; the upper end — the loop-count lemma — is not
proved. -/
theorem C07_export_covers_first_pass_partial (d : Data) (song : Song) (tags : Vgm.Tags) (ops : List Vgm.Op)
    (id : Nat) (root : List Event)
    (hexp : exportOps d song tags = .ok ops) (hsingle : SingleTrack song id root)
    (hs : Refine.SongNoEnd song) (hr : Tree.NoEnd root) (hplain : TickStream.PlainCode song root)
    (items : List Expand.Item) (hperf : Expand.perf song root = .ok items)
    (hfuel : ∀ k outs, Refine.stepsCore song root k ⟨.root, 0, []⟩ = .ok (⟨.root, root.length, []⟩, outs) →
      2 * k + 2 ≤ PlayerCh.settleFuel)
    (hseg : ∀ k, TickStream.SegTop song root k ⟨.root, 0, []⟩) :
    ∃ K L, ops = ctorPokes ++ (playSong d song).2 ++ L ++ [Vgm.Op.stop, Vgm.Op.writeTag tags] ∧
      stamps 0 L = schedLog d song (playSong d song).1 (K + 1) ∧ delaySum L = 735 * K ∧
      Expand.totalDur items < (updRun d song (K + 1) (playSong d song).1).ticks := by
  obtain ⟨K, L, h1, h2, h3, h4, _, h6⟩ := exportOps_log d song tags ops hexp
  have hB : 2 * 49999 + 2 ≤ PlayerCh.settleFuel := by unfold PlayerCh.settleFuel; decide
  have hrel := TickStream.relX_init song root hs hr items hperf 49999
    (fun k outs h => by have := hfuel k outs h; unfold PlayerCh.settleFuel at this; omega) hseg
  have hst := single_stop_after_pass d song root id hsingle _ 49999 (TickStream.endOK_root song root) hB
    (TickStream.plainHooks_of song root hplain) _ hrel (K + 1) h6 h4
  refine ⟨K, L, h1, h2, h3, ?_⟩
  rcases Nat.lt_or_ge (Expand.totalDur items) (updRun d song (K + 1) (playSong d song).1).ticks with h | h
  · exact h
  · obtain ⟨t1, t2⟩ := (C07_list_machine_times items).2.2.1 _ h
    rcases hst with a | a
    · rw [t1] at a; cases a
    · exact absurd t2 a

/-- **The attenuation of a PSG melody channel over the whole log** (partial: one channel track,
`6 ≤ id < 9`, tracks G–I; slurs allowed).  In a successful export, for EVERY update `k = 0 … K`,
with `c'` the channel after the update and `atts` the attenuation values written to its volume
register at sample `735·k`:
 * **attenuation at key-on**: if a note is delivered in the ticks `N_k … N_{k+1}−1`, the slur flag
   was clear before the update, no `SLUR` is delivered in these ticks, the track has not ended by
   `N_{k+1}` and the envelope in force starts with a level byte `d0 > 0x0f`, then the LAST
   attenuation write of the update is `psgAtt coarse vol d0` for the volume setting in force after
   the update (`C07_attenuation_antitone`: antitone in the setting), and the envelope stands
   behind its first byte;
 * **key-off = attenuation 15 at the end of the track**: in the update in which the machine
   stops (playing at `N_k`, stopped at `N_{k+1}`) the last attenuation write is 15.
Extra hypotheses w.r.t. the full statement: one channel track, `SegTop`; the volume setting and the
envelope are read off the channel state (their derivation from the `VOL` / `INS` commands of the
stream is checked by the oracle: `psgExpectedAtt`). -/
theorem C07_schedule_psg_partial (d : Data) (song : Song) (tags : Vgm.Tags) (ops : List Vgm.Op)
    (id : Nat) (root : List Event) (hid6 : 6 ≤ id) (hid9 : id < 9)
    (hexp : exportOps d song tags = .ok ops) (hsingle : SingleTrack song id root)
    (hs : Refine.SongNoEnd song) (hr : Tree.NoEnd root) (hplain : TickStream.PlainCode song root)
    (items : List Expand.Item) (hperf : Expand.perf song root = .ok items)
    (hfuel : ∀ k outs, Refine.stepsCore song root k ⟨.root, 0, []⟩ = .ok (⟨.root, root.length, []⟩, outs) →
      2 * k + 2 ≤ PlayerCh.settleFuel)
    (hseg : ∀ k, TickStream.SegTop song root k ⟨.root, 0, []⟩) :
    ∃ K L, ops = ctorPokes ++ (playSong d song).2 ++ L ++ [Vgm.Op.stop, Vgm.Op.writeTag tags] ∧
      stamps 0 L = schedLog d song (playSong d song).1 (K + 1) ∧ delaySum L = 735 * K ∧
      ∀ k, k ≤ K → ∃ c', (updRun d song (k + 1) (playSong d song).1).chans = [c'] ∧
        (DeliveredIn (TickStream.lxInit items) (updRun d song k (playSong d song).1).ticks
            (updRun d song (k + 1) (playSong d song).1).ticks (fun e => e.type = ev_NOTE) →
          slurOf (updRun d song k (playSong d song).1) = false →
          ¬ DeliveredIn (TickStream.lxInit items) (updRun d song k (playSong d song).1).ticks
            (updRun d song (k + 1) (playSong d song).1).ticks (fun e => e.type = ev_SLUR) →
          (TickStream.lxAfter (updRun d song (k + 1) (playSong d song).1).ticks (TickStream.lxInit items)).enabled = true →
          ∀ d0, c'.envData[0]? = some d0 → d0 > 0x0f →
            (atts (id - 6) (updWrs d song (playSong d song).1 k)).getLast? =
              some (psgAtt c'.coarse (c'.var ev_VOL_FINE) d0 % 16) ∧ c'.envPos = 1 ∧ c'.envDelay = d0) ∧
        ((TickStream.lxAfter (updRun d song k (playSong d song).1).ticks (TickStream.lxInit items)).enabled = true →
          (TickStream.lxAfter (updRun d song (k + 1) (playSong d song).1).ticks (TickStream.lxInit items)).enabled = false →
          (atts (id - 6) (updWrs d song (playSong d song).1 k)).getLast? = some 15) := by
  obtain ⟨K, L, h1, h2, h3, _, _, h6⟩ := exportOps_log d song tags ops hexp
  have hB : 2 * 49999 + 2 ≤ PlayerCh.settleFuel := by unfold PlayerCh.settleFuel; decide
  have hrel := TickStream.relX_init song root hs hr items hperf 49999
    (fun k outs h => by have := hfuel k outs h; unfold PlayerCh.settleFuel at this; omega) hseg
  exact ⟨K, L, h1, h2, h3, fun k hk => single_psg d song root id hid6 hid9 hsingle _ 49999 (TickStream.endOK_root song root) hB
    (TickStream.plainHooks_of song root hplain) _ hrel k (fun j hj => h6 j (by omega))⟩

/-! ### the loop marker -/
/-- a `SEGNO` is among the events the list machine delivers at the ticks `T … T'−1` (computable form of
`DeliveredIn`, see `segnoIn_iff`) -/
def segnoIn (m0 : TickStream.LX) (T T' : Nat) : Bool :=
  (TickStream.lxRun (T' - T) (TickStream.lxAfter T m0)).flatten.any fun e => e.type == ev_SEGNO

theorem segnoIn_iff (m0 : TickStream.LX) (T T' : Nat) (h : T ≤ T') :
    segnoIn m0 T T' = true ↔ DeliveredIn m0 T T' (fun e => e.type = ev_SEGNO) := by
  obtain ⟨n, rfl⟩ : ∃ n, T' = T + n := ⟨T' - T, by omega⟩
  rw [deliveredIn_iff]
  unfold segnoIn
  rw [Nat.add_sub_cancel_left]
  simp only [List.any_eq_true, beq_iff_eq]

/-- **The loop marker is written once per loop point, in the update that reads it** (partial: one
channel track of any kind).  Let `N_k` be the tick table of `C07_tempo_table_partial`.  In a successful
export, for every update `k = 0 … K` of the log: `updOps k` (`C07_log_by_updates`) ends with the loop
marker `set_loop` iff a `SEGNO` is delivered by the looping list machine at a tick `τ` with
`N_k ≤ τ < N_{k+1}` and the channel is still playing after the update — and in no other update:
`loop_trigger` is set by `write_event` at a `SEGNO` (and at the `END` that stops the channel) and at
no other event (`trigChain`, the `loop_trigger` instance of the chain of Proofs/MdChain), the marker
test clears it in the same `play_step`, and between the loop point and the first jump back
`get_loop_count()` is 0 (`ZeroInv`).  Since the list machine delivers an item's event exactly once
on the first pass (`C07_list_machine_times`) and on later passes only the items AFTER the last loop
point, a track with one loop point gets exactly one marker, at sample `735·k(τ_L)`, `τ_L` the start
tick of the `SEGNO`; the loop section of a track that ends at its loop point (`c L`) gets none.
Extra hypotheses w.r.t. the full statement: one channel track, `SegTop`; the hook is never shown an
`END`, and a `SEGNO` only when one was read (`ItemOK`, true of every `perf` of a validated song but
not derived here); and, for the updates up to `k`, no update that delivers a `SEGNO` also jumps back
to it (`lastJump = -1` after the update: the loop section is longer than the rest of the update that
reads the loop point — with a loop section of one tick at two ticks per update the real code writes
NO marker and stops after that update, example below). -/
theorem C07_loop_marker_partial (d : Data) (song : Song) (tags : Vgm.Tags) (ops : List Vgm.Op)
    (id : Nat) (root : List Event)
    (hexp : exportOps d song tags = .ok ops) (hsingle : SingleTrack song id root)
    (hs : Refine.SongNoEnd song) (hr : Tree.NoEnd root) (hplain : TickStream.PlainCode song root)
    (items : List Expand.Item) (hperf : Expand.perf song root = .ok items)
    (hfuel : ∀ k outs, Refine.stepsCore song root k ⟨.root, 0, []⟩ = .ok (⟨.root, root.length, []⟩, outs) →
      2 * k + 2 ≤ PlayerCh.settleFuel)
    (hseg : ∀ k, TickStream.SegTop song root k ⟨.root, 0, []⟩)
    (hev : ∀ i ∈ items, ItemOK i) :
    ∃ K L, ops = ctorPokes ++ (playSong d song).2 ++ L ++ [Vgm.Op.stop, Vgm.Op.writeTag tags] ∧
      stamps 0 L = schedLog d song (playSong d song).1 (K + 1) ∧ delaySum L = 735 * K ∧
      ∀ k, k ≤ K →
        (∀ j, j ≤ k → segnoIn (TickStream.lxInit items) (tickTable (TickStream.lxInit items) j).1
            (tickTable (TickStream.lxInit items) (j + 1)).1 = true →
          (TickStream.lxAfter (tickTable (TickStream.lxInit items) (j + 1)).1 (TickStream.lxInit items)).lastJump = -1) →
        updOps d song (playSong d song).1 k = (updWrs d song (playSong d song).1 k).flatMap Wr.toOps ++
          (if (segnoIn (TickStream.lxInit items) (tickTable (TickStream.lxInit items) k).1
                (tickTable (TickStream.lxInit items) (k + 1)).1 &&
              (TickStream.lxAfter (tickTable (TickStream.lxInit items) (k + 1)).1 (TickStream.lxInit items)).enabled) = true
            then [Vgm.Op.setLoop] else []) := by
  obtain ⟨K, L, h1, h2, h3, _, _, h6⟩ := exportOps_log d song tags ops hexp
  have hB : 2 * 49999 + 2 ≤ PlayerCh.settleFuel := by unfold PlayerCh.settleFuel; decide
  have hrel := TickStream.relX_init song root hs hr items hperf 49999
    (fun k outs h => by have := hfuel k outs h; unfold PlayerCh.settleFuel at this; omega) hseg
  have hpl := TickStream.plainHooks_of song root hplain
  refine ⟨K, L, h1, h2, h3, fun k hk hl => ?_⟩
  have hN : ∀ j, j ≤ K + 1 → (tickTable (TickStream.lxInit items) j).1 = (updRun d song j (playSong d song).1).ticks := by
    intro j hj
    rw [← single_table d song root id hsingle _ 49999 (TickStream.endOK_root song root) hB hpl _ hrel j
      (fun i hi => h6 i (by omega))]
  have hmono : ∀ j, (updRun d song j (playSong d song).1).ticks ≤ (updRun d song (j + 1) (playSong d song).1).ticks := by
    intro j; rw [(updRun_ticks d song _ j).1]; omega
  have hE : EvOK (TickStream.lxInit items) := ⟨hev, by intro L hL; cases hL⟩
  have hm := single_marker d song root id hsingle _ 49999 (TickStream.endOK_root song root) hB hpl _ hE hrel k
    (fun j hj => h6 j (by omega))
    (fun j hj hd => by
      have := hl j hj
      rw [hN j (by omega), hN (j + 1) (by omega)] at this
      exact this ((segnoIn_iff _ _ _ (hmono j)).mpr hd))
  rw [updOps_eq, hN k (by omega), hN (k + 1) (by omega)]
  congr 1
  by_cases hc : DeliveredIn (TickStream.lxInit items) (updRun d song k (playSong d song).1).ticks
      (updRun d song (k + 1) (playSong d song).1).ticks (fun e => e.type = ev_SEGNO) ∧
      (TickStream.lxAfter (updRun d song (k + 1) (playSong d song).1).ticks (TickStream.lxInit items)).enabled = true
  · rw [hm.2.1 hc, if_pos]
    rw [Bool.and_eq_true]
    exact ⟨(segnoIn_iff _ _ _ (hmono k)).mpr hc.1, hc.2⟩
  · rw [hm.2.2 hc, if_neg]
    rw [Bool.and_eq_true]
    exact fun h => hc ⟨(segnoIn_iff _ _ _ (hmono k)).mp h.1, h.2⟩


/-! ### non-vacuity of the whole-log theorems -/
/-- FM channel A: `note 40 (on 2, off 1)  L  note 42 (on 2, off 2)` -/
def exLoopRoot : List Event := [⟨ev_NOTE, 40, 2, 1⟩, ⟨ev_SEGNO, 0, 0, 0⟩, ⟨ev_NOTE, 42, 2, 2⟩]
def exLoopSong : Song := { tracks := [(0, exLoopRoot)] }
def exLoopItems : List Expand.Item := exLoopRoot.map Expand.item
def exNoTags : Vgm.Tags :=
  { title := [], titleJ := [], game := [], gameJ := [], system := [], systemJ := [], author := [], authorJ := [],
    date := [], creator := [], notes := [] }

/-- the looping list machine on this track: note 40 at tick 0, its synthetic rest at tick 2, the
loop point and note 42 at tick 3, rest at 5; at tick 7 the items have run out: note 42 again
(second pass), rest at 9, note 42 at tick 11 (third pass), … -/
example : ((TickStream.lxRun 12 (TickStream.lxInit exLoopItems)).map fun l => l.map fun e => (e.type, e.param)) =
    [[(ev_NOTE, 40)], [], [(ev_REST, 0)], [(ev_SEGNO, 0), (ev_NOTE, 42)], [], [(ev_REST, 0)], [],
     [(ev_NOTE, 42)], [], [(ev_REST, 0)], [], [(ev_NOTE, 42)]] := by decide

/-- without a loop point the machine delivers `END` once and then nothing -/
example : ((TickStream.lxRun 5 (TickStream.lxInit [Expand.item ⟨ev_NOTE, 40, 2, 0⟩])).map fun l => l.map fun e => e.type) =
    [[ev_NOTE], [], [ev_END], [], []] := by decide

/-- a loop section that takes no time ends the track (`c L`): `END` at tick 2 -/
example : ((TickStream.lxRun 4 (TickStream.lxInit [Expand.item ⟨ev_NOTE, 40, 2, 0⟩, Expand.item ⟨ev_SEGNO, 0, 0, 0⟩])).map
      fun l => l.map fun e => e.type) = [[ev_NOTE], [], [ev_SEGNO, ev_END], []] := by decide

/-- the hypotheses of `C07_tick_delivery_all_passes` and `C07_schedule_fm_partial` hold for this song -/
example :
    (∃ ops, exportOps { ins := [] } exLoopSong exNoTags = .ok ops) ∧ SingleTrack exLoopSong 0 exLoopRoot ∧
    Refine.SongNoEnd exLoopSong ∧ Tree.NoEnd exLoopRoot ∧ TickStream.PlainCode exLoopSong exLoopRoot ∧
    (∀ tr e, e ∈ codeOf exLoopSong exLoopRoot tr → e.type ≠ ev_SLUR) ∧
    Expand.perf exLoopSong exLoopRoot = .ok exLoopItems ∧
    (∀ k outs, Refine.stepsCore exLoopSong exLoopRoot k ⟨.root, 0, []⟩ = .ok (⟨.root, exLoopRoot.length, []⟩, outs) →
      2 * k + 2 ≤ PlayerCh.settleFuel) ∧
    (∀ k, TickStream.SegTop exLoopSong exLoopRoot k ⟨.root, 0, []⟩) := by
  have hall := TickStream.songNoEnd_of_all exLoopSong exLoopRoot (by decide)
  refine ⟨?_, ⟨[], rfl, by decide, by simp⟩, hall.1, hall.2, ?_, ?_, rfl, ?_, ?_⟩
  · have h : (match exportOps { ins := [] } exLoopSong exNoTags with | .ok _ => true | .error _ => false) = true := by
      decide +kernel
    cases hx : exportOps { ins := [] } exLoopSong exNoTags with
    | ok ops => exact ⟨ops, rfl⟩
    | error e => rw [hx] at h; cases h
  · exact TickStream.of_allEvents exLoopSong exLoopRoot (fun e => e.type ≠ ev_PLATFORM ∧ e.type ≠ ev_DRUM_MODE) (by decide)
  · exact TickStream.of_allEvents exLoopSong exLoopRoot (fun e => e.type ≠ ev_SLUR) (by decide)
  · exact TickStream.fuel_of_run exLoopSong exLoopRoot 3
      [.hook ⟨ev_NOTE, 40, 2, 1⟩ ⟨ev_NOTE, 40, 2, 1⟩, .hook ⟨ev_SEGNO, 0, 0, 0⟩ ⟨ev_SEGNO, 0, 0, 0⟩, .hook ⟨ev_NOTE, 42, 2, 2⟩ ⟨ev_NOTE, 42, 2, 2⟩]
      _ rfl (by unfold PlayerCh.settleFuel; decide)
  · exact TickStream.segTop_one_segno exLoopSong exLoopRoot hall.1 [⟨ev_NOTE, 40, 2, 1⟩] [⟨ev_NOTE, 42, 2, 2⟩] ⟨ev_SEGNO, 0, 0, 0⟩ rfl
      hall.2 (by decide) [Expand.item ⟨ev_NOTE, 40, 2, 1⟩] [Expand.item ⟨ev_NOTE, 42, 2, 2⟩] rfl rfl (by decide) (by decide)

/-- the table of the corpus song `T255, 3.3 note, T10, 2.2 note, BPM 200, 6.6 note` (channel A): the native tempo
255 read in update 0 is in force from update 1 (two ticks per update), tempo 10 read at tick 6 (update 3) from
update 4 on -/
example :
    ((List.range 6).map fun k => tickTable (TickStream.lxInit
      ([⟨ev_TEMPO, 255, 0, 0⟩, ⟨ev_NOTE, 40, 3, 3⟩, ⟨ev_TEMPO, 10, 0, 0⟩, ⟨ev_NOTE, 41, 2, 2⟩].map Expand.item)) k) =
    [(0, 0, 128), (1, 1, 255), (3, 1, 255), (5, 1, 255), (7, 1, 10), (7, 12, 10)] := by decide

/-- the log of this song, update by update (default tempo: one tick per update): key-off and
key-on of note 40 in update 0, its key-off in update 2, the loop marker, key-off and key-on of
note 42 in update 3, key-off in update 5, note 42 again in update 7 (second pass), after which
the loop count is 1 and the export stops: `K = 7`, 5145 samples -/
example :
    ((List.range 8).map fun k => (keysV (updOps { ins := [] } exLoopSong (playSong { ins := [] } exLoopSong).1 k),
      (updMark { ins := [] } exLoopSong (playSong { ins := [] } exLoopSong).1 k).length,
      (updRun { ins := [] } exLoopSong k (playSong { ins := [] } exLoopSong).1).ticks)) =
    [([0, 0xf0], 0, 0), ([], 0, 1), ([0], 0, 2), ([0, 0xf0], 1, 3), ([], 0, 4), ([0], 0, 5), ([], 0, 6), ([0, 0xf0], 0, 7)] ∧
    (match exportOps { ins := [] } exLoopSong exNoTags with
      | .ok ops => delaySum ops
      | .error _ => 0) = 735 * 7 := by
  decide +kernel

/-- the hypotheses of `C07_slur_update_partial` / `C07_psg_update_partial` hold at the start of a track
(FM channel A and PSG channel G on the track of the examples above): `mkCh` leaves the channel in
good standing, `relX_init` relates it to the looping list machine loaded with `perf` -/
example :
    Base exLoopRoot (mkCh { ins := [] } 0 exLoopRoot).1 ∧ (mkCh { ins := [] } 0 exLoopRoot).1.kind = .fm 0 0 ∧
    (mkCh { ins := [] } 0 exLoopRoot).1.keyOn = false ∧
    Base exLoopRoot (mkCh { ins := [] } 6 exLoopRoot).1 ∧ (mkCh { ins := [] } 6 exLoopRoot).1.kind = .psg 0 ∧
    (mkCh { ins := [] } 6 exLoopRoot).1.envData[0]? = some 0x10 ∧
    TickStream.RelX exLoopSong exLoopRoot ⟨.root, exLoopRoot.length, []⟩ 49999
      ⟨(mkCh { ins := [] } 0 exLoopRoot).1.ps.core, (mkCh { ins := [] } 0 exLoopRoot).1.ps.acc⟩ (TickStream.lxInit exLoopItems) := by
  have hall := TickStream.songNoEnd_of_all exLoopSong exLoopRoot (by decide)
  refine ⟨(mkCh_base _ exLoopRoot 0).1, rfl, rfl, (mkCh_base _ exLoopRoot 6).1, rfl, rfl, ?_⟩
  have hfuel := TickStream.fuel_of_run exLoopSong exLoopRoot 3
    [.hook ⟨ev_NOTE, 40, 2, 1⟩ ⟨ev_NOTE, 40, 2, 1⟩, .hook ⟨ev_SEGNO, 0, 0, 0⟩ ⟨ev_SEGNO, 0, 0, 0⟩, .hook ⟨ev_NOTE, 42, 2, 2⟩ ⟨ev_NOTE, 42, 2, 2⟩]
    (2 * 49999 + 2) rfl (by decide)
  exact TickStream.relX_init exLoopSong exLoopRoot hall.1 hall.2 exLoopItems rfl 49999
    (fun k outs h => by have := hfuel k outs h; omega)
    (TickStream.segTop_one_segno exLoopSong exLoopRoot hall.1 [⟨ev_NOTE, 40, 2, 1⟩] [⟨ev_NOTE, 42, 2, 2⟩] ⟨ev_SEGNO, 0, 0, 0⟩ rfl
      hall.2 (by decide) [Expand.item ⟨ev_NOTE, 40, 2, 1⟩] [Expand.item ⟨ev_NOTE, 42, 2, 2⟩] rfl rfl (by decide) (by decide))

/-- the extra hypotheses of `C07_loop_marker_partial` hold for `exLoopSong` (the others are those of
`C07_schedule_fm_partial`, shown above): every item is `ItemOK`; `N_k = k` for `k = 0 … 8`; no update up to
the last one (`K = 7`) that delivers a `SEGNO` jumps back; and the right-hand side of the theorem puts the
marker in update 3 (the `SEGNO` stands at tick 3) and in no other — as the log does (example above). -/
example :
    (∀ i ∈ exLoopItems, ItemOK i) ∧
    ((List.range 9).map fun k => (tickTable (TickStream.lxInit exLoopItems) k).1) = [0, 1, 2, 3, 4, 5, 6, 7, 8] ∧
    (∀ j, j ≤ 7 → segnoIn (TickStream.lxInit exLoopItems) (tickTable (TickStream.lxInit exLoopItems) j).1
        (tickTable (TickStream.lxInit exLoopItems) (j + 1)).1 = true →
      (TickStream.lxAfter (tickTable (TickStream.lxInit exLoopItems) (j + 1)).1 (TickStream.lxInit exLoopItems)).lastJump = -1) ∧
    ((List.range 8).map fun k => (segnoIn (TickStream.lxInit exLoopItems) (tickTable (TickStream.lxInit exLoopItems) k).1
        (tickTable (TickStream.lxInit exLoopItems) (k + 1)).1 &&
      (TickStream.lxAfter (tickTable (TickStream.lxInit exLoopItems) (k + 1)).1 (TickStream.lxInit exLoopItems)).enabled)) =
      [false, false, false, true, false, false, false, false] := by
  refine ⟨by decide, by decide, ?_, by decide⟩
  have h : ∀ j, j < 8 → (segnoIn (TickStream.lxInit exLoopItems) (tickTable (TickStream.lxInit exLoopItems) j).1
        (tickTable (TickStream.lxInit exLoopItems) (j + 1)).1 = true →
      (TickStream.lxAfter (tickTable (TickStream.lxInit exLoopItems) (j + 1)).1 (TickStream.lxInit exLoopItems)).lastJump = -1) := by
    decide
  exact fun j hj => h j (by omega)

/-- the hypothesis "no update that delivers a `SEGNO` jumps back to it" cannot be dropped: FM channel A,
`T255 r(1 tick) L c(1 tick)` — update 1 plays ticks 1 and 2, reads the loop point and the note at tick 1, jumps
back at tick 2 and reads the note again, which is the reset position: after the update `get_loop_count()` is 1,
no loop marker is written (in any update) and the export stops there, 735 samples long — a looping song
exported without loop point.  Same on the real code (corpus of checks/c07.py). -/
example :
    let song : Song := { tracks := [(0, [⟨ev_TEMPO, 255, 0, 0⟩, ⟨ev_REST, 0, 0, 1⟩, ⟨ev_SEGNO, 0, 0, 0⟩, ⟨ev_NOTE, 40, 1, 0⟩])] }
    let items : List Expand.Item := ([⟨ev_TEMPO, 255, 0, 0⟩, ⟨ev_REST, 0, 0, 1⟩, ⟨ev_SEGNO, 0, 0, 0⟩, ⟨ev_NOTE, 40, 1, 0⟩] : List Event).map Expand.item
    ((List.range 2).map fun k => (updMark { ins := [] } song (playSong { ins := [] } song).1 k).length) = [0, 0] ∧
    (match exportOps { ins := [] } song exNoTags with
      | .ok ops => delaySum ops
      | .error _ => 0) = 735 * 1 ∧
    segnoIn (TickStream.lxInit items) (tickTable (TickStream.lxInit items) 1).1 (tickTable (TickStream.lxInit items) 2).1 = true ∧
    (TickStream.lxAfter (tickTable (TickStream.lxInit items) 2).1 (TickStream.lxInit items)).lastJump = 2 ∧
    (TickStream.lxAfter (tickTable (TickStream.lxInit items) 2).1 (TickStream.lxInit items)).enabled = true := by
  decide +kernel

/-- a slur chain on FM channel A, `c4(2) & d4(2) & e4(2) r(1)` at one tick per update: key-off and key-on
for the first note only, NO key write for the two slurred notes (updates 2 and 4; their frequency words are
written), key-off at the rest (update 6) and at the end of the track (update 7) -/
example :
    ((List.range 8).map fun k => keysV (updOps { ins := [] }
      { tracks := [(0, [⟨ev_NOTE, 40, 2, 0⟩, ⟨ev_SLUR, 0, 0, 0⟩, ⟨ev_NOTE, 42, 2, 0⟩, ⟨ev_SLUR, 0, 0, 0⟩, ⟨ev_NOTE, 44, 2, 0⟩,
          ⟨ev_REST, 0, 0, 1⟩])] }
      (playSong { ins := [] } { tracks := [(0, [⟨ev_NOTE, 40, 2, 0⟩, ⟨ev_SLUR, 0, 0, 0⟩, ⟨ev_NOTE, 42, 2, 0⟩, ⟨ev_SLUR, 0, 0, 0⟩,
          ⟨ev_NOTE, 44, 2, 0⟩, ⟨ev_REST, 0, 0, 1⟩])] }).1 k)) =
    [[0, 0xf0], [], [], [], [], [], [0], [0]] := by
  decide +kernel

/-- the hypotheses of `C07_schedule_fm_slur_partial` hold for the slur chain above -/
example :
    let root : List Event := [⟨ev_NOTE, 40, 2, 0⟩, ⟨ev_SLUR, 0, 0, 0⟩, ⟨ev_NOTE, 42, 2, 0⟩, ⟨ev_SLUR, 0, 0, 0⟩, ⟨ev_NOTE, 44, 2, 0⟩,
      ⟨ev_REST, 0, 0, 1⟩]
    let song : Song := { tracks := [(0, root)] }
    (∃ ops, exportOps { ins := [] } song exNoTags = .ok ops) ∧ SingleTrack song 0 root ∧
    Refine.SongNoEnd song ∧ Tree.NoEnd root ∧ TickStream.PlainCode song root ∧
    Expand.perf song root = .ok (root.map Expand.item) ∧
    (∀ k outs, Refine.stepsCore song root k ⟨.root, 0, []⟩ = .ok (⟨.root, root.length, []⟩, outs) →
      2 * k + 2 ≤ PlayerCh.settleFuel) ∧
    (∀ k, TickStream.SegTop song root k ⟨.root, 0, []⟩) := by
  intro root song
  have hall := TickStream.songNoEnd_of_all song root (by decide)
  refine ⟨?_, ⟨[], rfl, by decide, by simp⟩, hall.1, hall.2, ?_, rfl, ?_, ?_⟩
  · have h : (match exportOps { ins := [] } song exNoTags with | .ok _ => true | .error _ => false) = true := by
      decide +kernel
    cases hx : exportOps { ins := [] } song exNoTags with
    | ok ops => exact ⟨ops, rfl⟩
    | error e => rw [hx] at h; cases h
  · exact TickStream.of_allEvents song root (fun e => e.type ≠ ev_PLATFORM ∧ e.type ≠ ev_DRUM_MODE) (by decide)
  · exact TickStream.fuel_of_run song root 6 (root.map fun e => .hook e e) _ rfl (by unfold PlayerCh.settleFuel; decide)
  · exact TickStream.segTop_of_noSegno song root hall.1 hall.2 (root.map Expand.item) rfl (by decide)

/-- PSG channel G, `v12 c4(2+1)` with the default envelope (first byte 0x10): the attenuation written at
the key-on update is `psgAtt true 12 0x10 = 3` (twice: by the pending volume change at the note, then — last —
by the envelope restart); the synthetic rest (update 2) releases the envelope to 15; the
end of the track (update 3) writes 15 again -/
example :
    ((List.range 4).map fun k => atts 0 (updWrs { ins := [] }
      { tracks := [(6, [⟨ev_VOL, 12, 0, 0⟩, ⟨ev_NOTE, 40, 2, 1⟩])] }
      (playSong { ins := [] } { tracks := [(6, [⟨ev_VOL, 12, 0, 0⟩, ⟨ev_NOTE, 40, 2, 1⟩])] }).1 k)) =
    [[3, 3], [], [15], [15]] ∧ psgAtt true 12 0x10 = 3 := by
  decide +kernel

/-- the hypotheses of `C07_export_extent_noloop_partial` hold for `shortNoteSong` (no loop point); its track
lasts 9 ticks, at T255 the tick counter before the updates is 0, 1, 3, 5, 7, 9, 11: the log ends with update 5
(`9 ≤ 9 < 11`), 3675 samples -/
example :
    SingleTrack shortNoteSong 0 [⟨ev_TEMPO, 255, 0, 0⟩, ⟨ev_REST, 0, 0, 1⟩, ⟨ev_NOTE, 40, 1, 3⟩, ⟨ev_REST, 0, 0, 4⟩] ∧
    Expand.perf shortNoteSong [⟨ev_TEMPO, 255, 0, 0⟩, ⟨ev_REST, 0, 0, 1⟩, ⟨ev_NOTE, 40, 1, 3⟩, ⟨ev_REST, 0, 0, 4⟩] =
      .ok ([⟨ev_TEMPO, 255, 0, 0⟩, ⟨ev_REST, 0, 0, 1⟩, ⟨ev_NOTE, 40, 1, 3⟩, ⟨ev_REST, 0, 0, 4⟩].map Expand.item) ∧
    (∀ i ∈ ([⟨ev_TEMPO, 255, 0, 0⟩, ⟨ev_REST, 0, 0, 1⟩, ⟨ev_NOTE, 40, 1, 3⟩, ⟨ev_REST, 0, 0, 4⟩] : List Event).map Expand.item,
      i.src.kind ≠ .segno) ∧
    Expand.totalDur (([⟨ev_TEMPO, 255, 0, 0⟩, ⟨ev_REST, 0, 0, 1⟩, ⟨ev_NOTE, 40, 1, 3⟩, ⟨ev_REST, 0, 0, 4⟩] : List Event).map Expand.item) = 9 ∧
    ((List.range 7).map fun k => (updRun { ins := [] } shortNoteSong k (playSong { ins := [] } shortNoteSong).1).ticks) =
      [0, 1, 3, 5, 7, 9, 11] ∧
    (match exportOps { ins := [] } shortNoteSong exNoTags with
      | .ok ops => delaySum ops
      | .error _ => 0) = 735 * 5 := by
  refine ⟨⟨[], rfl, by decide, by simp⟩, rfl, by decide, by decide, ?_, ?_⟩ <;> decide +kernel

/-- the hypotheses of `C07_schedule_psg_partial` hold for the PSG song above (`v12 c4(2+1)` on channel G) -/
example :
    let root : List Event := [⟨ev_VOL, 12, 0, 0⟩, ⟨ev_NOTE, 40, 2, 1⟩]
    let song : Song := { tracks := [(6, root)] }
    (∃ ops, exportOps { ins := [] } song exNoTags = .ok ops) ∧ SingleTrack song 6 root ∧
    Refine.SongNoEnd song ∧ Tree.NoEnd root ∧ TickStream.PlainCode song root ∧
    Expand.perf song root = .ok (root.map Expand.item) ∧
    (∀ k outs, Refine.stepsCore song root k ⟨.root, 0, []⟩ = .ok (⟨.root, root.length, []⟩, outs) →
      2 * k + 2 ≤ PlayerCh.settleFuel) ∧
    (∀ k, TickStream.SegTop song root k ⟨.root, 0, []⟩) := by
  intro root song
  have hall := TickStream.songNoEnd_of_all song root (by decide)
  refine ⟨?_, ⟨[], rfl, by decide, by simp⟩, hall.1, hall.2, ?_, rfl, ?_, ?_⟩
  · have h : (match exportOps { ins := [] } song exNoTags with | .ok _ => true | .error _ => false) = true := by
      decide +kernel
    cases hx : exportOps { ins := [] } song exNoTags with
    | ok ops => exact ⟨ops, rfl⟩
    | error e => rw [hx] at h; cases h
  · exact TickStream.of_allEvents song root (fun e => e.type ≠ ev_PLATFORM ∧ e.type ≠ ev_DRUM_MODE) (by decide)
  · exact TickStream.fuel_of_run song root 2 (root.map fun e => .hook e e) _ rfl (by unfold PlayerCh.settleFuel; decide)
  · exact TickStream.segTop_of_noSegno song root hall.1 hall.2 (root.map Expand.item) rfl (by decide)

/-! ### the full statement (not proved; decided per export by the schedule oracle) -/
/-- no keyed note ends inside the update it starts in: an update plays at most two ticks
(`C07_tempo_step_le_two`), so an on-time of at least two ticks suffices; this is the exclusion of
the known finding `short-note` -/
def NoShortNote (song : Song) : Prop :=
  ∀ id r e, (id, r) ∈ song.tracks → e ∈ r → e.type = ev_NOTE → e.on ≥ 2

/-- instruments as the schedule spec sees them agree with the driver's data: for every FM
instrument of the table the driver data carries its levels, algorithm and transpose -/
def InsAgree (d : Data) (t : Schedule.InsTab) : Prop :=
  ∀ id i, t.lookup id = some (.fm i) →
    (d.get (u16 id)).type = mdsdrv_INS_FM ∧ (d.get (u16 id)).transpose = i.transpose ∧
    (d.get (u16 id)).data.getD 28 0 % 8 = i.alg ∧
    [24, 25, 26, 27].map ((d.get (u16 id)).data.getD · 0) = i.tl

/-- Every valid plain-subset song exports, the exported file parses, and the schedule oracle
(key-on / key-off updates, pitch and attenuation at each key-on, extent and loop marker) finds
no deviation.  `NoShortNote` excludes the known finding `short-note` (a note ending inside
the update it starts in).  Proved pieces: `C07_log_by_updates` (the log is the updates),
`C07_tick_delivery_all_passes` + `C07_list_machine_times` (the tick stream), `C07_tempo_table_partial`
(the frame table, one channel), `C07_schedule_fm_partial` / `C07_schedule_fm_tempo_partial` (FM keys
over the whole log, one channel, no slur), `C07_slur_update_partial`, `C07_psg_update_partial` (per
update), `C07_export_extent_noloop_partial`, `C07_pitch_value_partial`.  Missing: several channels in
one statement, slurs and PSG composed over the log, the loop-count lemma of `export_extent`, the
register-file replay of the pitch, and the reading of the oracle's own tables (`Schedule.walk`,
`place`, `frameTable`) as these theorems; a song must also keep every loop point at the top level
of its channel tracks (known findings `segno-in-sub`, `segno-in-loop`). -/
def C07_full_statement : Prop :=
  ∀ (d : Data) (song : Song) (tags : Vgm.Tags) (t : Schedule.InsTab),
    InsAgree d t → NoShortNote song →
    (∀ id r, (id, r) ∈ song.tracks → id < 16 → ∃ items, Expand.perf song r = .ok items) →
    ∃ bytes info v, exportVgm d song tags = .ok bytes ∧ VgmSpec.analyse bytes = .ok info ∧
      Schedule.judgeLog song t info = .ok v ∧ v.fail = none

end Ctrmml.C07
