/-
  C09 — The MDS container is complete and internally consistent.

  Theorems over `Model/MdsFile` (constructor assembly + get_mds on top of the writer of
  `Model/MdsConv`), read back with the reader-side definitions of `Spec/SeqInterp`
  (`Seq.rd`, `Seq.rd16`: header fields and pointer slots) and `Spec/RiffTree` (`walkTop`).
-/
import Ctrmml.Proofs.MdsFile
import Ctrmml.Proofs.MdsTop
import Ctrmml.Properties.C13
import Ctrmml.Spec.MdsResolve
namespace Ctrmml.MdsFile
open Ctrmml Ctrmml.Mds Tables

/-- `volume_carried`: header byte 2 is the `#volume` setting — absent or empty: 0; a number
below 2^31: that number, at most 127. -/
theorem C09_volume_carried {c : Conv} {tl : List (Nat × List MEv)} {vol : Option String} {b : Built}
    (h : assemble c tl vol = .ok b) :
    Seq.rd b.seq 2 = some (volByte vol) ∧
    volByte none = 0 ∧
    (∀ s : String, s.isEmpty = false → strtoul0 s < 2147483648 → volByte (some s) = min 127 (strtoul0 s)) := by
  obtain ⟨ts, ss, ms, _, _, _, hsz, _, _, _, _, _, hseq⟩ := assemble_ok h
  refine ⟨?_, rfl, ?_⟩
  · rw [hseq, List.append_assoc, List.append_assoc]
    generalize startsFrom (hdrSize c tl.length) ts = tS
    generalize startsFrom (hdrSize c tl.length + ts.flatten.length) ss = sS
    generalize startsFrom (hdrSize c tl.length + ts.flatten.length + ss.flatten.length) ms = mS
    have := (header_fixed (4 + 4 * tl.length) (volByte vol) (tl.map (·.1)) tS sS mS c.usedData.length
      (ts.flatten ++ (ss.flatten ++ ms.flatten)) (by unfold hdrSize at hsz; omega)).2.1
    rw [this, Nat.mod_eq_of_lt (volByte_lt vol)]
  · intro s hs hv
    unfold volByte
    simp only [hs, Bool.false_eq_true, ↓reduceIte]
    have : strtoul0 s % 4294967296 = strtoul0 s := Nat.mod_eq_of_lt (by omega)
    rw [this]
    split
    · omega
    · split <;> omega

example : volByte (some "5") = 5 ∧ volByte (some "200") = 127 ∧ volByte (some "0x10") = 16 := by decide


/-- `track_table_exact`: the header holds the table position `4 + 4n` and the count; entry `i` is
(channel id, 0, 16-bit offset), and `base + offset` is exactly where the bytes that
`convert_track` made of that channel's events begin. -/
theorem C09_track_table_exact {c : Conv} {tl : List (Nat × List MEv)} {vol : Option String} {b : Built}
    (h : assemble c tl vol = .ok b) :
    Seq.rd16 b.seq 0 = some (4 + 4 * tl.length) ∧
    Seq.rd b.seq 3 = some (tl.length % 256) ∧
    ∀ (i : Nat) (hi : i < tl.length), ∃ off stream rest,
      Seq.rd b.seq (4 + 4 * i) = some (tl[i].1 % 256) ∧ Seq.rd b.seq (4 + 4 * i + 1) = some 0 ∧
      Seq.rd16 b.seq (4 + 4 * i + 2) = some off ∧
      convertTrackChk c.subList.length c.macroList.length tl[i].2 = .ok stream ∧
      b.seq.drop (4 + 4 * tl.length + off) = stream ++ rest := by
  obtain ⟨ts, ss, ms, hts, hss, hms, hsz, _, _, _, _, _, hseq⟩ := assemble_ok h
  have lts : ts.length = tl.length := by simpa using encodeStreams_length _ _ _ _ _ hts
  have lss : ss.length = c.subList.length := encodeStreams_length _ _ _ _ _ hss
  have lms : ms.length = c.macroList.length := encodeStreams_length _ _ _ _ _ hms
  have hb : 4 + 4 * tl.length < 65536 := by unfold hdrSize at hsz; omega
  obtain ⟨tS, htS⟩ : ∃ x, x = startsFrom (hdrSize c tl.length) ts := ⟨_, rfl⟩
  obtain ⟨sS, hsS⟩ : ∃ x, x = startsFrom (hdrSize c tl.length + ts.flatten.length) ss := ⟨_, rfl⟩
  obtain ⟨mS, hmS⟩ : ∃ x, x = startsFrom (hdrSize c tl.length + ts.flatten.length + ss.flatten.length) ms := ⟨_, rfl⟩
  rw [← htS, ← hsS, ← hmS] at hseq
  have ltS : tS.length = (tl.map (·.1)).length := by rw [htS, startsFrom_length]; simpa using lts
  have lsS : sS.length = c.subList.length := by rw [hsS, startsFrom_length, lss]
  have lmS : mS.length = c.macroList.length := by rw [hmS, startsFrom_length, lms]
  have hH : (headerOf (4 + 4 * tl.length) (volByte vol) (tl.map (·.1)) tS sS mS c.usedData.length).length
      = hdrSize c tl.length := by
    rw [headerOf_length _ _ _ _ _ _ _ ltS, lsS, lmS]; simp [hdrSize]; omega
  have hseq' : b.seq = headerOf (4 + 4 * tl.length) (volByte vol) (tl.map (·.1)) tS sS mS c.usedData.length
      ++ (ts.flatten ++ (ss.flatten ++ ms.flatten)) := by rw [hseq]; simp [List.append_assoc]
  have hfix := header_fixed (4 + 4 * tl.length) (volByte vol) (tl.map (·.1)) tS sS mS c.usedData.length
      (ts.flatten ++ (ss.flatten ++ ms.flatten)) hb
  refine ⟨by rw [hseq']; exact hfix.1, by rw [hseq']; simpa using hfix.2.2, ?_⟩
  intro i hi
  have hi' : i < (tl.map (·.1)).length := by simpa using hi
  have hit : i < tS.length := by rw [ltS]; exact hi'
  have htr := header_track (4 + 4 * tl.length) (volByte vol) (tl.map (·.1)) tS sS mS c.usedData.length
      (ts.flatten ++ (ss.flatten ++ ms.flatten)) ltS i hi' hit
  have his : i < ts.length := by rw [lts]; exact hi
  have hen := encodeStreams_get _ _ _ _ _ hts i (by simpa using hi) his
  -- where the stream begins
  have hfit := encodeStreams_starts _ _ _ _ _ hts i his
  obtain ⟨st, hst, hdrop⟩ := stream_at
    (headerOf (4 + 4 * tl.length) (volByte vol) (tl.map (·.1)) tS sS mS c.usedData.length)
    (ss.flatten ++ ms.flatten) ts i his (4 + 4 * tl.length) (by rw [hH]; unfold hdrSize; omega) (by rw [hH]; exact hfit)
  rw [hH, ← htS] at hst
  have hst' : tS[i] = st := by
    have := List.getElem?_eq_getElem hit
    rw [this] at hst; exact Option.some.inj hst
  refine ⟨off16 tS[i] (4 + 4 * tl.length), ts[i], (ts.drop (i + 1)).flatten ++ (ss.flatten ++ ms.flatten), ?_, ?_, ?_, ?_, ?_⟩
  · rw [hseq']; simpa using htr.1
  · rw [hseq']; exact htr.2.1
  · rw [hseq']; exact htr.2.2
  · simpa using hen
  · rw [hst', hseq']
    rw [← List.append_assoc]
    exact hdrop


/-- `slot_count`: behind the track table lie exactly `|subs| + |macros| + |data|` two-byte slots
and the first stream begins right after them; slot `k < |subs|` points at the bytes
`convert_track` made of subroutine `k`, slot `|subs| + k` at the bytes `convert_macro_track`
made of macro track `k`, and the slots of the data items are zero (the linker fills them). -/
theorem C09_slot_count {c : Conv} {tl : List (Nat × List MEv)} {vol : Option String} {b : Built}
    (h : assemble c tl vol = .ok b) :
    b.seq.length = 4 + 4 * tl.length + 2 * (c.subList.length + c.macroList.length + c.usedData.length)
        + (b.trackStreams.flatten ++ b.subStreams.flatten ++ b.macroStreams.flatten).length ∧
    (0 < tl.length → Seq.rd16 b.seq 6 = some (2 * (c.subList.length + c.macroList.length + c.usedData.length))) ∧
    (∀ (k : Nat) (hk : k < c.subList.length), ∃ off stream rest,
      Seq.rd16 b.seq (4 + 4 * tl.length + 2 * k) = some off ∧
      convertTrackChk c.subList.length c.macroList.length c.subList[k] = .ok stream ∧
      b.seq.drop (4 + 4 * tl.length + off) = stream ++ rest) ∧
    (∀ (k : Nat) (hk : k < c.macroList.length), ∃ off stream rest,
      Seq.rd16 b.seq (4 + 4 * tl.length + 2 * (c.subList.length + k)) = some off ∧
      convertMacroTrack c.macroList[k] = .ok stream ∧
      b.seq.drop (4 + 4 * tl.length + off) = stream ++ rest) ∧
    (∀ k : Nat, c.subList.length + c.macroList.length ≤ k →
      k < c.subList.length + c.macroList.length + c.usedData.length →
      Seq.rd16 b.seq (4 + 4 * tl.length + 2 * k) = some 0) := by
  obtain ⟨ts, ss, ms, hts, hss, hms, hsz, _, _, hbt, hbs, hbm, hseq⟩ := assemble_ok h
  have lts : ts.length = tl.length := by simpa using encodeStreams_length _ _ _ _ _ hts
  have lss : ss.length = c.subList.length := encodeStreams_length _ _ _ _ _ hss
  have lms : ms.length = c.macroList.length := encodeStreams_length _ _ _ _ _ hms
  have hb : 4 + 4 * tl.length < 65536 := by unfold hdrSize at hsz; omega
  obtain ⟨tS, htS⟩ : ∃ x, x = startsFrom (hdrSize c tl.length) ts := ⟨_, rfl⟩
  obtain ⟨sS, hsS⟩ : ∃ x, x = startsFrom (hdrSize c tl.length + ts.flatten.length) ss := ⟨_, rfl⟩
  obtain ⟨mS, hmS⟩ : ∃ x, x = startsFrom (hdrSize c tl.length + ts.flatten.length + ss.flatten.length) ms := ⟨_, rfl⟩
  rw [← htS, ← hsS, ← hmS] at hseq
  have ltS : tS.length = (tl.map (·.1)).length := by rw [htS, startsFrom_length]; simpa using lts
  have lsS : sS.length = c.subList.length := by rw [hsS, startsFrom_length, lss]
  have lmS : mS.length = c.macroList.length := by rw [hmS, startsFrom_length, lms]
  obtain ⟨H, hHdef⟩ : ∃ x, x = headerOf (4 + 4 * tl.length) (volByte vol) (tl.map (·.1)) tS sS mS c.usedData.length := ⟨_, rfl⟩
  have hH : H.length = hdrSize c tl.length := by
    rw [hHdef, headerOf_length _ _ _ _ _ _ _ ltS, lsS, lmS]; simp [hdrSize]; omega
  have hseq' : b.seq = H ++ (ts.flatten ++ (ss.flatten ++ ms.flatten)) := by rw [hseq, hHdef]; simp [List.append_assoc]
  have hml : (tl.map (·.1)).length = tl.length := by simp
  refine ⟨?_, ?_, ?_, ?_, ?_⟩
  · rw [hseq', hbt, hbs, hbm]; simp only [List.length_append, hH, hdrSize]; omega
  · intro hpos
    have hi' : 0 < (tl.map (·.1)).length := by simpa using hpos
    have hit : 0 < tS.length := by rw [ltS]; exact hi'
    have htr := (header_track (4 + 4 * tl.length) (volByte vol) (tl.map (·.1)) tS sS mS c.usedData.length
      (ts.flatten ++ (ss.flatten ++ ms.flatten)) ltS 0 hi' hit).2.2
    rw [← hHdef, ← hseq'] at htr
    have h0 : tS[0]? = some (hdrSize c tl.length + ((ts.take 0).flatten).length) := by
      rw [htS]; exact startsFrom_get _ _ 0 (by omega)
    have h0' : tS[0] = hdrSize c tl.length := by
      rw [List.getElem?_eq_getElem hit] at h0; simpa using h0
    rw [h0'] at htr
    simp only [Nat.mul_zero, Nat.add_zero] at htr
    rw [htr]; unfold off16 hdrSize; unfold hdrSize at hsz; congr 1; omega
  · intro k hk
    have hk' : k < (sS ++ mS).length := by simp [lsS]; omega
    have hsl := header_slot (4 + 4 * tl.length) (volByte vol) (tl.map (·.1)) tS sS mS c.usedData.length
      (ts.flatten ++ (ss.flatten ++ ms.flatten)) ltS k hk'
    rw [← hHdef, ← hseq', hml] at hsl
    have hks : k < ss.length := by rw [lss]; exact hk
    have hkS : k < sS.length := by rw [lsS]; exact hk
    have hget : (sS ++ mS)[k] = sS[k] := List.getElem_append_left hkS
    have hen := encodeStreams_get _ _ _ _ _ hss k hk hks
    have hfit := encodeStreams_starts _ _ _ _ _ hss k hks
    obtain ⟨st, hst, hdrop⟩ := stream_at (H ++ ts.flatten) ms.flatten ss k hks (4 + 4 * tl.length)
      (by rw [List.length_append, hH]; unfold hdrSize; omega)
      (by rw [List.length_append, hH]; exact hfit)
    rw [List.length_append, hH, ← hsS] at hst
    have hst' : sS[k] = st := by
      rw [List.getElem?_eq_getElem hkS] at hst; exact Option.some.inj hst
    refine ⟨off16 sS[k] (4 + 4 * tl.length), ss[k], (ss.drop (k + 1)).flatten ++ ms.flatten, ?_, hen, ?_⟩
    · rw [hsl, hget]
    · rw [hst', hseq']
      have : H ++ (ts.flatten ++ (ss.flatten ++ ms.flatten)) = H ++ ts.flatten ++ ss.flatten ++ ms.flatten := by
        simp [List.append_assoc]
      rw [this]; exact hdrop
  · intro k hk
    have hk' : c.subList.length + k < (sS ++ mS).length := by simp [lsS, lmS]; omega
    have hsl := header_slot (4 + 4 * tl.length) (volByte vol) (tl.map (·.1)) tS sS mS c.usedData.length
      (ts.flatten ++ (ss.flatten ++ ms.flatten)) ltS (c.subList.length + k) hk'
    rw [← hHdef, ← hseq', hml] at hsl
    have hks : k < ms.length := by rw [lms]; exact hk
    have hkS : k < mS.length := by rw [lmS]; exact hk
    have hget : (sS ++ mS)[c.subList.length + k] = mS[k] := by
      rw [List.getElem_append_right (by rw [lsS]; omega)]
      simp [lsS]
    have hen := encodeStreams_get _ _ _ _ _ hms k hk hks
    have hfit := encodeStreams_starts _ _ _ _ _ hms k hks
    obtain ⟨st, hst, hdrop⟩ := stream_at (H ++ ts.flatten ++ ss.flatten) [] ms k hks (4 + 4 * tl.length)
      (by simp only [List.length_append, hH]; unfold hdrSize; omega)
      (by simp only [List.length_append, hH]; exact hfit)
    simp only [List.length_append, hH] at hst
    rw [← hmS] at hst
    have hst' : mS[k] = st := by
      rw [List.getElem?_eq_getElem hkS] at hst; exact Option.some.inj hst
    refine ⟨off16 mS[k] (4 + 4 * tl.length), ms[k], (ms.drop (k + 1)).flatten ++ [], ?_, hen, ?_⟩
    · rw [hsl, hget]
    · rw [hst', hseq']
      have : H ++ (ts.flatten ++ (ss.flatten ++ ms.flatten)) = H ++ ts.flatten ++ ss.flatten ++ ms.flatten ++ [] := by
        simp [List.append_assoc]
      rw [this]; exact hdrop
  · intro k hk1 hk2
    have hds := header_data_slot (4 + 4 * tl.length) (volByte vol) (tl.map (·.1)) tS sS mS c.usedData.length
      (ts.flatten ++ (ss.flatten ++ ms.flatten)) ltS k (by simp [lsS, lmS]; omega) (by simp [lsS, lmS]; omega)
    rw [← hHdef, ← hseq', hml] at hds
    exact hds


/-- `mds_shape`: the exported bytes are the serialisation of the tree
RIFF `MDS0` [ `ver ` (table version), `grp `, `seq `, LIST `dblk` (one `glob`/`pcmh` child per used
data item), `pcmd` ], and (for a file below 4 GiB) the reader-side walker gives that tree back. -/
theorem C09_mds_shape {b : Built} {bank : List (List Nat)} {group pcm f : Bytes}
    (h : getMds b bank group pcm = .ok f) :
    ∃ ts : List Riff.Tree, ts.length = b.conv.usedData.length ∧
      (∀ t ∈ ts, ∃ p, t = .chunk mdsFile_glob p ∨ t = .chunk mdsFile_pcmh p) ∧
      Riff.serialize (mdsTree (toU8 b.seq) group pcm ts) = .ok f ∧
      ((mdsTree (toU8 b.seq) group pcm ts).small → Riff.walkTop f = .ok (mdsTree (toU8 b.seq) group pcm ts)) := by
  obtain ⟨ts, _, hlen, hk, hser⟩ := getMds_serialize h
  refine ⟨ts, hlen, hk, hser, ?_⟩
  intro hsmall
  have hwf : (mdsTree (toU8 b.seq) group pcm ts).wf := by
    have hts : Riff.Tree.wfL ts := by
      apply wfL_of_forall
      intro t ht
      obtain ⟨p, hp | hp⟩ := hk t ht <;> subst hp <;> exact ⟨by decide, by decide⟩
    exact ⟨by decide, by decide, ⟨by decide, by decide⟩, ⟨by decide, by decide⟩, ⟨by decide, by decide⟩,
      ⟨by decide, by decide, hts⟩, ⟨by decide, by decide⟩, trivial⟩
  obtain ⟨f', hf', hw⟩ := Riff.C13_walk_serialize _ hwf hsmall
  rw [hser] at hf'
  cases hf'
  exact hw

/-- `index_fits_byte`: when the export succeeds, every subroutine / macro-track / data index that
`convert_track` writes into a channel or subroutine stream is at most 255, so the operand byte IS
the index (otherwise `index_byte` throws and nothing is exported — D19, fixed). -/
theorem C09_index_fits_byte {c : Conv} {tl : List (Nat × List MEv)} {vol : Option String} {b : Built}
    (h : assemble c tl vol = .ok b) :
    ∀ evs ∈ tl.map (·.2) ++ c.subList, ∀ ev ∈ evs,
      (ev.type = mds_PAT → ev.arg % 256 = ev.arg) ∧
      (ev.type = mds_INS ∨ ev.type = mds_PCM →
        (c.subList.length + c.macroList.length + ev.arg) % 256 = c.subList.length + c.macroList.length + ev.arg) ∧
      (ev.type = mds_PEG → ev.arg ≠ 0 →
        (c.subList.length + c.macroList.length + ev.arg) % 256 = c.subList.length + c.macroList.length + ev.arg) ∧
      (ev.type = mds_MTAB → ev.arg ≠ 0 → (ev.arg + c.subList.length) % 256 = ev.arg + c.subList.length) := by
  obtain ⟨ts, ss, ms, hts, hss, _, _, _, _, _, _, _, _⟩ := assemble_ok h
  intro evs hevs ev hev
  have hall : evs.all (idxFits c.subList.length c.macroList.length) = true := by
    rcases List.mem_append.mp hevs with h1 | h1
    · exact encodeStreams_fits _ _ _ _ hts evs h1
    · exact encodeStreams_fits _ _ _ _ hss evs h1
  have hfit := List.all_eq_true.mp hall ev hev
  unfold idxFits at hfit
  have hmax : mdsFile_indexMax = 255 := rfl
  have e1 : mds_MTAB = 235 := rfl
  have e2 : mds_INS = 225 := rfl
  have e3 : mds_PCM = 240 := rfl
  have e4 : mds_PEG = 232 := rfl
  have e5 : mds_PAT = 254 := rfl
  refine ⟨?_, ?_, ?_, ?_⟩
  · intro ht
    simp [ht, e1, e2, e3, e4, e5, hmax] at hfit
    omega
  · intro ht
    rcases ht with ht | ht <;> simp [ht, e1, e2, e3, e4, e5, hmax] at hfit <;> omega
  · intro ht hne
    simp [ht, e1, e2, e3, e4, e5, hmax, hne] at hfit
    omega
  · intro ht hne
    simp [ht, e1, e2, e3, e4, e5, hmax, hne] at hfit
    omega

/-- D19 as it was: the codec alone truncates the 257th subroutine index to 0 (`fe 00`); the
check added by the fix rejects it. -/
theorem C09_d19_counterexample_before_fix :
    (convertTrack 300 0 [⟨mds_PAT, 256⟩]).toOption = some [mds_PAT, 0] ∧
    (match convertTrackChk 300 0 [⟨mds_PAT, 256⟩] with | .error .indexRange => true | _ => false) = true := by
  constructor
  · decide
  · decide

/-- `ids_injective` (partial): no two `dblk` entries share a slot id, GIVEN that `used_data_map`
numbers its keys 0,1,2,… (`UsedOk`, which `get_envelope` — the only writer of the map — keeps:
`usedOk_getEnvelope`; carrying it through the mutually recursive writer is not proved). -/
theorem C09_ids_injective_partial (c : Conv) (hu : UsedOk c.usedData)
    (hs : c.subList.length + c.macroList.length + c.usedData.length ≤ 2147483648) :
    ((usedSorted c).map fun p => entryId c.subList.length c.macroList.length p.1 p.2 % 2147483648).Nodup := by
  have hperm : (usedSorted c).Perm c.usedData := List.mergeSort_perm _ _
  have hvals : ((usedSorted c).map (·.2)).Nodup := (hperm.map _).nodup_iff.mpr (usedOk_nodup hu)
  have hbound : ∀ p ∈ usedSorted c, p.2 < c.usedData.length := by
    intro p hp
    have hp' : p ∈ c.usedData := hperm.mem_iff.mp hp
    have : p.2 ∈ c.usedData.map (·.2) := List.mem_map.mpr ⟨p, hp', rfl⟩
    rw [hu] at this
    exact List.mem_range.mp this
  have hpw : (usedSorted c).Pairwise (fun p q => p.2 ≠ q.2) := List.pairwise_map.mp hvals
  have hpw' := List.Pairwise.and_mem.mp hpw
  apply List.pairwise_map.mpr
  refine hpw'.imp ?_
  intro p q ⟨hp, hq, hne⟩
  have h1 := hbound p hp
  have h2 := hbound q hq
  unfold entryId
  have : mdsFile_extIdBit = 2147483648 := rfl
  rw [this]
  split <;> split <;> omega

example : UsedOk ({ usedData := [(1, 0), (65538, 1), (3, 2)] } : Conv).usedData := by unfold UsedOk; decide

/-- `ids_injective`: no two `dblk` entries of an export share a slot id.  (`PlatformClean`: no
platform `cmd` injects a raw index-bearing opcode.) -/
theorem C09_ids_injective {song : Song} {d : DataInfo} (hpc : PlatformClean d) {vol : Option String} {b : Built}
    (h : construct song d vol = .ok b) :
    ((usedSorted b.conv).map fun p => entryId b.conv.subList.length b.conv.macroList.length p.1 p.2 % 2147483648).Nodup := by
  obtain ⟨hinv, _, hasm⟩ := construct_inv hpc h
  obtain ⟨_, _, _, _, _, _, hsz, _⟩ := assemble_ok hasm
  exact C09_ids_injective_partial b.conv hinv.maps.used (by unfold hdrSize at hsz; omega)

/-- the track-list facts: the track table lists exactly the song's channel tracks (ids below 16),
in ascending order when the song's track map is (as a `std::map` is), and there are at most 16 -/
theorem C09_tracks_exact {song : Song} {d : DataInfo} {vol : Option String} {b : Built}
    (h : construct song d vol = .ok b) :
    b.trackList.map (·.1) = channelIds song ∧ (∀ id ∈ channelIds song, id < 16 ∧ id ∈ song.tracks.map (·.1)) ∧
    ((song.tracks.map (·.1)).Pairwise (· < ·) → (channelIds song).Pairwise (· < ·) ∧ b.trackList.length ≤ 16) := by
  have hids := construct_ids h
  refine ⟨hids, ?_, ?_⟩
  · intro id hid
    unfold channelIds at hid
    have := List.mem_filter.mp hid
    exact ⟨by simpa using this.2, this.1⟩
  · intro hs
    have hp : (channelIds song).Pairwise (· < ·) := List.Pairwise.filter _ hs
    refine ⟨hp, ?_⟩
    have hl : b.trackList.length = (channelIds song).length := by rw [← hids]; simp
    rw [hl]
    rcases sorted_length_le (channelIds song) 0 16 hp (by
      intro x hx
      unfold channelIds at hx
      have := (List.mem_filter.mp hx).2
      exact ⟨Nat.zero_le _, by simpa using this⟩) with h' | h'
    · omega
    · rw [h']; simp

/-- `index_resolves`: in every event list the converter emits (channel tracks, subroutines, macro
tracks) every index-bearing event refers to a key that is present in its map, and the index leads,
through the pointer table of the exported `seq `, to the bytes of exactly the list registered under
that key — which is what the writer makes of the track the key names (`SubNamed` / `MacNamed`).
Data indices refer to a key of `used_data_map` (the `dblk` side is `C09_data_resolves`). -/
theorem C09_index_resolves {song : Song} {d : DataInfo} (hpc : PlatformClean d) {vol : Option String} {b : Built}
    (h : construct song d vol = .ok b) :
    ∀ l ∈ b.trackList.map (·.2) ++ b.conv.subList ++ b.conv.macroList, ∀ ev ∈ l,
      (ev.type = mds_PAT → ∃ key evs stream off rest,
        (key, ev.arg) ∈ b.conv.subMap ∧ b.conv.subList[ev.arg]? = some evs ∧ SubNamed song d key evs ∧
        convertTrackChk b.conv.subList.length b.conv.macroList.length evs = .ok stream ∧
        Seq.rd16 b.seq (4 + 4 * b.trackList.length + 2 * ev.arg) = some off ∧
        b.seq.drop (4 + 4 * b.trackList.length + off) = stream ++ rest) ∧
      (ev.type = mds_INS ∨ ev.type = mds_PCM → ∃ mapped, (mapped, ev.arg) ∈ b.conv.usedData ∧
        Seq.rd16 b.seq (4 + 4 * b.trackList.length + 2 * (b.conv.subList.length + b.conv.macroList.length + ev.arg)) = some 0) ∧
      (ev.type = mds_PEG → ev.arg ≠ 0 → ∃ mapped, (mapped, ev.arg - 1) ∈ b.conv.usedData ∧
        Seq.rd16 b.seq (4 + 4 * b.trackList.length + 2 * (b.conv.subList.length + b.conv.macroList.length + (ev.arg - 1))) = some 0) ∧
      (ev.type = mds_MTAB → ev.arg ≠ 0 → ∃ key evs stream off rest,
        (key, ev.arg - 1) ∈ b.conv.macroMap ∧ b.conv.macroList[ev.arg - 1]? = some evs ∧ MacNamed song d key evs ∧
        convertMacroTrack evs = .ok stream ∧
        Seq.rd16 b.seq (4 + 4 * b.trackList.length + 2 * (b.conv.subList.length + (ev.arg - 1))) = some off ∧
        b.seq.drop (4 + 4 * b.trackList.length + off) = stream ++ rest) := by
  obtain ⟨hinv, _, hasm⟩ := construct_inv hpc h
  obtain ⟨_, hfirst, hsub, hmac, hdat⟩ := C09_slot_count hasm
  intro l hl ev hev
  have hall : AllEv b.conv (b.trackList.map (·.2)) ev := by
    rcases List.mem_append.mp hl with hl | hl
    · rcases List.mem_append.mp hl with hl | hl
      · exact Or.inr (Or.inr ⟨l, hl, hev⟩)
      · exact Or.inl ⟨l, hl, hev⟩
    · exact Or.inr (Or.inl ⟨l, hl, hev⟩)
  have hsc := hinv.scopedEv ev hall
  refine ⟨?_, ?_, ?_, ?_⟩
  · intro ht
    have hk := hsc.1 ht
    obtain ⟨key, hkey⟩ := exists_key_of_lt hinv.maps.sub (by rw [hinv.maps.subLen]; exact hk)
    obtain ⟨evs, he, hnm⟩ := hinv.namedS _ hkey (by simp [Pend.hs])
    obtain ⟨off, stream, rest, h1, h2, h3⟩ := hsub ev.arg hk
    have : evs = b.conv.subList[ev.arg] := by
      rw [List.getElem?_eq_getElem hk] at he; exact (Option.some.inj he).symm
    subst this
    exact ⟨key, _, stream, off, rest, hkey, he, hnm, h2, h1, h3⟩
  · intro ht
    have hk := hsc.2.1 ht
    obtain ⟨mapped, hkey⟩ := exists_key_of_lt hinv.maps.used hk
    exact ⟨mapped, hkey, hdat _ (by omega) (by omega)⟩
  · intro ht hne
    have hk := hsc.2.2.1 ht
    obtain ⟨mapped, hkey⟩ := exists_key_of_lt hinv.maps.used (k := ev.arg - 1) (by omega)
    exact ⟨mapped, hkey, hdat _ (by omega) (by omega)⟩
  · intro ht hne
    have hk := hsc.2.2.2 ht
    have hk' : ev.arg - 1 < b.conv.macroList.length := by omega
    obtain ⟨key, hkey⟩ := exists_key_of_lt hinv.maps.mac (by rw [hinv.maps.macLen]; exact hk')
    obtain ⟨evs, he, hnm⟩ := hinv.namedM _ hkey (by simp [Pend.hm])
    obtain ⟨off, stream, rest, h1, h2, h3⟩ := hmac (ev.arg - 1) hk'
    have : evs = b.conv.macroList[ev.arg - 1] := by
      rw [List.getElem?_eq_getElem hk'] at he; exact (Option.some.inj he).symm
    subst this
    exact ⟨key, _, stream, off, rest, hkey, he, hnm, h2, h1, h3⟩

/-- the `dblk` side of `index_resolves`: every key of `used_data_map` has its entry in the list —
chunk `glob`/`pcmh`, payload = 32-bit id (slot index, bit 31 for an extended envelope) followed by
the data-bank item the key names; by `C09_ids_injective` it is the only entry with that id -/
theorem C09_data_resolves {b : Built} {bank : List (List Nat)} {group pcm f : Bytes}
    (h : getMds b bank group pcm = .ok f) :
    ∃ ts : List Riff.Tree, Riff.serialize (mdsTree (toU8 b.seq) group pcm ts) = .ok f ∧
      ∀ p ∈ b.conv.usedData, ∃ dat, bank[p.1 % (mdsFile_bankMask + 1)]? = some dat ∧
        Riff.Tree.chunk (if p.1 < mdsFile_pcmTag then mdsFile_glob else mdsFile_pcmh)
          (le32 (entryId b.conv.subList.length b.conv.macroList.length p.1 p.2) ++ toU8 dat) ∈ ts := by
  obtain ⟨ts, hts, _, _, hser⟩ := getMds_serialize h
  refine ⟨ts, hser, ?_⟩
  intro p hp
  have hp' : p ∈ usedSorted b.conv := (List.mergeSort_perm _ _).mem_iff.mpr hp
  exact entryTrees_mem _ _ _ _ _ hts p hp'

/-- `nothing_unused`: every subroutine, macro track and data item of an export is the target of an
index-bearing event in an emitted event list (`AllEv`: channel tracks, subroutines, macro tracks):
a `PAT k` (drum routine: the note / DMFINISH event carrying `k`), an `MTAB k+1`, an `INS`/`PCM i`
or a `PEG i+1`. -/
theorem C09_nothing_unused {song : Song} {d : DataInfo} (hpc : PlatformClean d) {vol : Option String} {b : Built}
    (h : construct song d vol = .ok b) :
    (∀ k, k < b.conv.subList.length → ∃ key ev, (key, k) ∈ b.conv.subMap ∧ AllEv b.conv (b.trackList.map (·.2)) ev ∧
      ((key % 4 < 2 ∧ ev.type = mds_PAT ∧ ev.arg = k) ∨ (2 ≤ key % 4 ∧ DrumRef ev k))) ∧
    (∀ k, k < b.conv.macroList.length → ∃ ev, AllEv b.conv (b.trackList.map (·.2)) ev ∧ ev.type = mds_MTAB ∧ ev.arg = k + 1) ∧
    (∀ i, i < b.conv.usedData.length → ∃ ev, AllEv b.conv (b.trackList.map (·.2)) ev ∧
      (((ev.type = mds_INS ∨ ev.type = mds_PCM) ∧ ev.arg = i) ∨ (ev.type = mds_PEG ∧ ev.arg = i + 1))) := by
  obtain ⟨hinv, _, hasm⟩ := construct_inv hpc h
  obtain ⟨_, _, _, _, _, _, hsz, _⟩ := assemble_ok hasm
  unfold hdrSize at hsz
  refine ⟨?_, ?_, ?_⟩
  · intro k hk
    obtain ⟨key, hm, ev, he, hr⟩ := hinv.covSub k hk (by simp [Pend.xs])
    refine ⟨key, ev, hm, he, ?_⟩
    rcases hr with ⟨h1, h2, h3⟩ | hr
    · left; refine ⟨h1, h2, ?_⟩
      rw [h3, u16_nat]; omega
    · exact Or.inr hr
  · intro k hk
    obtain ⟨ev, he, ht, ha⟩ := hinv.covMac k hk (by simp [Pend.xm])
    refine ⟨ev, he, ht, ?_⟩
    rw [ha, u16_succ]; omega
  · intro i hi
    obtain ⟨ev, he, hr⟩ := hinv.covData i hi
    refine ⟨ev, he, ?_⟩
    rcases hr with ⟨h1, h2⟩ | ⟨h1, h2⟩
    · left; refine ⟨h1, ?_⟩; rw [h2, u16_nat]; omega
    · right; refine ⟨h1, ?_⟩; rw [h2, u16_succ]; omega

/-- `index_resolves`, per event: whatever index-bearing event a hook call pushes carries the index
that the conversion state registers under the key of the id THIS song event names — the
subroutine key (track, drum flags) of a `JUMP`, the data-bank index of the `INS` instrument
(tagged for PCM) or of the `PITCH_ENVELOPE` (tagged when extended), the macro track of a
`PAN_ENVELOPE`.  (Maps only grow — `SubMono`, `getEnvelope` appends — so the key keeps that index
to the end of the conversion.) -/
theorem C09_event_names {song : Song} {d : DataInfo} (hpc : PlatformClean d) {n : Nat} {c c' : Conv} {w w' : WState}
    {it : Player.TraceItem} {L : List (List MEv)} {P : Pend} (hinv : Inv song d c (w.out :: L) P)
    (h : hook song d (n + 1) c w it = .ok (c', w')) :
    ∃ new, w'.out = w.out ++ new ∧ ∀ ev ∈ new, EventNames d it w c' ev := by
  have ih := writerInv (song := song) hpc n
  cases hook_step hpc h with
  | plain w' evs hout hpl => exact ⟨evs, hout, fun ev he => eventNames_of_plain (hpl ev he)⟩
  | drum c' id w' pre ev _ _ _ hout hpre _ hplain =>
    exact ⟨pre ++ [ev], by rw [hout, List.append_assoc], eventNames_append hpre (eventNames_of_plain hplain)⟩
  | jump c' id w' pre ht hg hout hpre =>
    obtain ⟨k, rfl, _, hmem, _, _⟩ := ih.sub c _ _ _ c' id (w.out :: L) P hinv hg
    refine ⟨pre ++ [⟨mds_PAT, u16 (k : Int)⟩], by rw [hout, List.append_assoc], eventNames_append hpre ?_⟩
    refine ⟨fun _ => ⟨ht, k, rfl, hmem⟩, fun t => ?_, fun t => ?_, fun t => ?_⟩
    · rcases t with t | t
      · exact absurd (show mds_PAT = mds_INS from t) (by decide)
      · exact absurd (show mds_PAT = mds_PCM from t) (by decide)
    · exact absurd (show mds_PAT = mds_PEG from t) (by decide)
    · exact absurd (show mds_PAT = mds_MTAB from t) (by decide)
  | data key ty arg w' pre hf hout hpre hprov =>
    have hmemU := (getEnvelope_spec c key hinv.maps).2.2.2.2.2.2.2
    refine ⟨pre ++ [⟨ty, arg⟩], by rw [hout, List.append_assoc], eventNames_append hpre ?_⟩
    rcases hprov with ⟨hti, idx, tyI, he, _, hk⟩ | ⟨htp, hne, idx, hl, hkey, hty⟩
    · -- an instrument
      have hty : ty = mds_INS ∨ ty = mds_PCM := by rcases hk with ⟨_, _, h⟩ | ⟨_, _, h⟩; exact Or.inl h; exact Or.inr h
      have harg : arg = u16 ((getEnvelope c key).2 : Int) := by
        rcases hf with ⟨_, ha⟩ | ⟨hp, _⟩
        · exact ha
        · rcases hty with h | h <;> (rw [h] at hp; exact absurd hp (by decide))
      refine ⟨fun t => ?_, fun _ => ⟨hti, idx, (getEnvelope c key).2, he, harg, ?_⟩, fun t => ?_, fun t => ?_⟩
      · rcases hty with h | h <;> (rw [show ty = mds_PAT from t] at h; exact absurd h (by decide))
      · rcases hk with ⟨_, hkk, h⟩ | ⟨_, hkk, h⟩
        · left; exact ⟨h, by rw [← hkk]; exact hmemU⟩
        · right; exact ⟨h, by rw [← hkk]; exact hmemU⟩
      · rcases hty with h | h <;> (rw [show ty = mds_PEG from t] at h; exact absurd h (by decide))
      · rcases hty with h | h <;> (rw [show ty = mds_MTAB from t] at h; exact absurd h (by decide))
    · -- a pitch envelope
      have harg : arg = u16 (wrap16 (((getEnvelope c key).2 : Int) + 1)) := by
        rcases hf with ⟨hp, _⟩ | ⟨_, ha⟩
        · rcases hp with hp | hp <;> (rw [hty] at hp; exact absurd hp (by decide))
        · exact ha
      refine ⟨fun t => ?_, fun t => ?_, fun _ _ => ⟨htp, idx, (getEnvelope c key).2, hl, harg, by rw [← hkey]; exact hmemU⟩, fun t => ?_⟩
      · exact absurd (show mds_PEG = mds_PAT from hty ▸ t) (by decide)
      · rcases t with t | t
        · exact absurd (show mds_PEG = mds_INS from hty ▸ t) (by decide)
        · exact absurd (show mds_PEG = mds_PCM from hty ▸ t) (by decide)
      · exact absurd (show mds_PEG = mds_MTAB from hty ▸ t) (by decide)
  | mtab c' id w' pre ht hne hg hout hpre =>
    obtain ⟨k, rfl, _, hmem, _, _⟩ := ih.mac c _ c' id (w.out :: L) P hinv hg
    obtain ⟨ev, hev⟩ : ∃ ev : MEv, ev = ⟨mds_MTAB, u16 (wrap16 ((k : Int) + 1))⟩ := ⟨_, rfl⟩
    refine ⟨pre ++ [ev], by rw [hout, List.append_assoc, hev], eventNames_append hpre ?_⟩
    have h1 : ev.type = mds_MTAB := by rw [hev]
    have h2 : ev.arg = u16 (wrap16 ((k : Int) + 1)) := by rw [hev]
    refine ⟨fun t => ?_, fun t => ?_, fun t => ?_, fun _ _ => ⟨ht, k, h2, hmem⟩⟩
    · rw [h1] at t; exact absurd t (by decide)
    · rcases t with t | t <;> (rw [h1] at t; exact absurd t (by decide))
    · rw [h1] at t; exact absurd t (by decide)

/-! ### non-vacuity: a conversion state with one subroutine, one data item and one channel track
assembles, and the container is produced -/
def exConv : Conv := { subList := [[⟨mds_FINISH, 0⟩]], subMap := [(400, 0)], usedData := [(1, 0)] }
def exTl : List (Nat × List MEv) := [(0, [⟨mds_PAT, 0⟩, ⟨mds_INS, 0⟩, ⟨mds_NOTE + 36, 24⟩, ⟨mds_FINISH, 0⟩])]

example : ((assemble exConv exTl (some "5")).toOption.map (·.seq)) =
    some [0, 8, 5, 1, 0, 0, 0, 4, 0, 11, 0, 0, 254, 0, 225, 1, 166, 23, 255, 255] := by decide

example : ∃ f, getMds ⟨{}, [], [], [], [], [0, 4, 0, 0]⟩ [] [] [] = .ok f := by
  simp [getMds, usedSorted, addEntries, liftRiff, Riff.addChunk, Riff.mk3, Riff.mk2, Riff.isList, Riff.TYPE_RIFF,
    Riff.TYPE_LIST, bind, Except.bind, pure, Except.pure]

/-- the hypotheses of the `construct`-level theorems are satisfiable (a song whose only track is
not a channel: the kernel does not unfold the mutually recursive writer, so songs with channel
tracks are exercised by the correspondence runs — every accepted generated song is an instance) -/
example : PlatformClean {} ∧ ∃ b, construct { tracks := [(100, [⟨ev_NOTE, 40, 2, 2⟩])] } {} (some "7") = .ok b :=
  ⟨by intro k evs h; simp at h, _, rfl⟩

example : ∃ ids : List Nat, ids.Pairwise (· < ·) ∧ ids = [0, 6, 100] := ⟨_, by decide, rfl⟩

/-- The full statement, phrased with the reader-side check on the bytes of the file (decided per
case by `Spec/MdsResolve.checkFile` on the REAL file).  What is proved instead: the same facts on
the converter's event lists and the exported `seq ` / `dblk` (`C09_index_resolves`,
`C09_data_resolves`, `C09_nothing_unused`, `C09_ids_injective`, `C09_track_table_exact`,
`C09_slot_count`); not proved: that `checkFile`'s byte-level decoder (`decodeStream`, `namedOf`)
reads exactly these operands back out of the `convertTrackChk` bytes (the codec's instruction
boundaries, C03), and the drum-note / zero-length-note accounting of `namedOf`. -/
def C09_full_statement : Prop :=
  ∀ (inp : Input) (o : Output), exportMds MdsData.Arith.float inp = .ok o →
    ∀ d, readSong MdsData.Arith.float inp.files inp.tags = .ok d →
      MdsResolve.checkFile o.file inp.song
        { ins := d.st.tyMap.filterMap fun (id, ty) =>
            match MdsData.mget d.st.envMap id with
            | some idx => (d.st.bank[idx.toNat]?).map fun b => (keyOfId id, decide (ty = (mdsdrv_INS_PCM : Int)), b)
            | none => none,
          pitch := d.st.pitchMap.filterMap fun (id, idx) =>
            (d.st.bank[idx.toNat]?).map fun b => (keyOfId id, d.st.pitchExt.contains id, b) }
        none (inp.group.toUTF8.toList.map (·.toNat)) = .ok ()

end Ctrmml.MdsFile
