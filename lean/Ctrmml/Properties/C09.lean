/-
  C09 — The MDS container is complete and internally consistent.

  Theorems over `Model/MdsFile` (constructor assembly + get_mds on top of the writer of
  `Model/MdsConv`), read back with the reader-side definitions of `Spec/SeqInterp`
  (`Seq.rd`, `Seq.rd16`: header fields and pointer slots) and `Spec/RiffTree` (`walkTop`).
-/
import Ctrmml.Proofs.MdsFile
import Ctrmml.Proofs.MdsTop
import Ctrmml.Properties.C13
import Ctrmml.Spec.MdsResolve
import Ctrmml.Proofs.MdsReadParse
import Ctrmml.Proofs.MdsReadOps
import Ctrmml.Proofs.MdsFragRun
import Ctrmml.Proofs.MdsFragSize
import Ctrmml.Proofs.MdsFragEx
namespace Ctrmml.MdsFile
open Ctrmml Ctrmml.Mds Tables

/-- `volume_carried`: header byte 2 is the `#volume` setting — absent or empty: 0; a number
below 2^31: that number, at most 127. -/
theorem C09_volume_carried {c : Conv} {tl : List (Nat × List MEv)} {vol : Option String} {b : Built}
    (h : assemble c tl vol = .ok b) :
    Seq.rd b.seq 2 = some (volByte vol) ∧
    volByte none = 0 ∧
    (∀ s : String, s.isEmpty = false → strtoul0 s < 2147483648 → volByte (some s) = min 127 (strtoul0 s)) := by
  obtain ⟨ts, ss, ms, _, _, _, hsz, _, _, _, _, _, hseq⟩ := assemble_ok h
  refine ⟨?_, rfl, ?_⟩
  · rw [hseq, List.append_assoc, List.append_assoc]
    generalize startsFrom (hdrSize c tl.length) ts = tS
    generalize startsFrom (hdrSize c tl.length + ts.flatten.length) ss = sS
    generalize startsFrom (hdrSize c tl.length + ts.flatten.length + ss.flatten.length) ms = mS
    have := (header_fixed (4 + 4 * tl.length) (volByte vol) (tl.map (·.1)) tS sS mS c.usedData.length
      (ts.flatten ++ (ss.flatten ++ ms.flatten)) (by unfold hdrSize at hsz; omega)).2.1
    rw [this, Nat.mod_eq_of_lt (volByte_lt vol)]
  · intro s hs hv
    unfold volByte
    simp only [hs, Bool.false_eq_true, ↓reduceIte]
    have : strtoul0 s % 4294967296 = strtoul0 s := Nat.mod_eq_of_lt (by omega)
    rw [this]
    split
    · omega
    · split <;> omega

example : volByte (some "5") = 5 ∧ volByte (some "200") = 127 ∧ volByte (some "0x10") = 16 := by decide


/-- `track_table_exact`: the header holds the table position `4 + 4n` and the count; entry `i` is
(channel id, 0, 16-bit offset), and `base + offset` is exactly where the bytes that
`convert_track` made of that channel's events begin. -/
theorem C09_track_table_exact {c : Conv} {tl : List (Nat × List MEv)} {vol : Option String} {b : Built}
    (h : assemble c tl vol = .ok b) :
    Seq.rd16 b.seq 0 = some (4 + 4 * tl.length) ∧
    Seq.rd b.seq 3 = some (tl.length % 256) ∧
    ∀ (i : Nat) (hi : i < tl.length), ∃ off stream rest,
      Seq.rd b.seq (4 + 4 * i) = some (tl[i].1 % 256) ∧ Seq.rd b.seq (4 + 4 * i + 1) = some 0 ∧
      Seq.rd16 b.seq (4 + 4 * i + 2) = some off ∧
      convertTrackChk c.subList.length c.macroList.length tl[i].2 = .ok stream ∧
      b.seq.drop (4 + 4 * tl.length + off) = stream ++ rest := by
  obtain ⟨ts, ss, ms, hts, hss, hms, hsz, _, _, _, _, _, hseq⟩ := assemble_ok h
  have lts : ts.length = tl.length := by simpa using encodeStreams_length _ _ _ _ _ hts
  have lss : ss.length = c.subList.length := encodeStreams_length _ _ _ _ _ hss
  have lms : ms.length = c.macroList.length := encodeStreams_length _ _ _ _ _ hms
  have hb : 4 + 4 * tl.length < 65536 := by unfold hdrSize at hsz; omega
  obtain ⟨tS, htS⟩ : ∃ x, x = startsFrom (hdrSize c tl.length) ts := ⟨_, rfl⟩
  obtain ⟨sS, hsS⟩ : ∃ x, x = startsFrom (hdrSize c tl.length + ts.flatten.length) ss := ⟨_, rfl⟩
  obtain ⟨mS, hmS⟩ : ∃ x, x = startsFrom (hdrSize c tl.length + ts.flatten.length + ss.flatten.length) ms := ⟨_, rfl⟩
  rw [← htS, ← hsS, ← hmS] at hseq
  have ltS : tS.length = (tl.map (·.1)).length := by rw [htS, startsFrom_length]; simpa using lts
  have lsS : sS.length = c.subList.length := by rw [hsS, startsFrom_length, lss]
  have lmS : mS.length = c.macroList.length := by rw [hmS, startsFrom_length, lms]
  have hH : (headerOf (4 + 4 * tl.length) (volByte vol) (tl.map (·.1)) tS sS mS c.usedData.length).length
      = hdrSize c tl.length := by
    rw [headerOf_length _ _ _ _ _ _ _ ltS, lsS, lmS]; simp [hdrSize]; omega
  have hseq' : b.seq = headerOf (4 + 4 * tl.length) (volByte vol) (tl.map (·.1)) tS sS mS c.usedData.length
      ++ (ts.flatten ++ (ss.flatten ++ ms.flatten)) := by rw [hseq]; simp [List.append_assoc]
  have hfix := header_fixed (4 + 4 * tl.length) (volByte vol) (tl.map (·.1)) tS sS mS c.usedData.length
      (ts.flatten ++ (ss.flatten ++ ms.flatten)) hb
  refine ⟨by rw [hseq']; exact hfix.1, by rw [hseq']; simpa using hfix.2.2, ?_⟩
  intro i hi
  have hi' : i < (tl.map (·.1)).length := by simpa using hi
  have hit : i < tS.length := by rw [ltS]; exact hi'
  have htr := header_track (4 + 4 * tl.length) (volByte vol) (tl.map (·.1)) tS sS mS c.usedData.length
      (ts.flatten ++ (ss.flatten ++ ms.flatten)) ltS i hi' hit
  have his : i < ts.length := by rw [lts]; exact hi
  have hen := encodeStreams_get _ _ _ _ _ hts i (by simpa using hi) his
  -- where the stream begins
  have hfit := encodeStreams_starts _ _ _ _ _ hts i his
  obtain ⟨st, hst, hdrop⟩ := stream_at
    (headerOf (4 + 4 * tl.length) (volByte vol) (tl.map (·.1)) tS sS mS c.usedData.length)
    (ss.flatten ++ ms.flatten) ts i his (4 + 4 * tl.length) (by rw [hH]; unfold hdrSize; omega) (by rw [hH]; exact hfit)
  rw [hH, ← htS] at hst
  have hst' : tS[i] = st := by
    have := List.getElem?_eq_getElem hit
    rw [this] at hst; exact Option.some.inj hst
  refine ⟨off16 tS[i] (4 + 4 * tl.length), ts[i], (ts.drop (i + 1)).flatten ++ (ss.flatten ++ ms.flatten), ?_, ?_, ?_, ?_, ?_⟩
  · rw [hseq']; simpa using htr.1
  · rw [hseq']; exact htr.2.1
  · rw [hseq']; exact htr.2.2
  · simpa using hen
  · rw [hst', hseq']
    rw [← List.append_assoc]
    exact hdrop


/-- `slot_count`: behind the track table lie exactly `|subs| + |macros| + |data|` two-byte slots
and the first stream begins right after them; slot `k < |subs|` points at the bytes
`convert_track` made of subroutine `k`, slot `|subs| + k` at the bytes `convert_macro_track`
made of macro track `k`, and the slots of the data items are zero (the linker fills them). -/
theorem C09_slot_count {c : Conv} {tl : List (Nat × List MEv)} {vol : Option String} {b : Built}
    (h : assemble c tl vol = .ok b) :
    b.seq.length = 4 + 4 * tl.length + 2 * (c.subList.length + c.macroList.length + c.usedData.length)
        + (b.trackStreams.flatten ++ b.subStreams.flatten ++ b.macroStreams.flatten).length ∧
    (0 < tl.length → Seq.rd16 b.seq 6 = some (2 * (c.subList.length + c.macroList.length + c.usedData.length))) ∧
    (∀ (k : Nat) (hk : k < c.subList.length), ∃ off stream rest,
      Seq.rd16 b.seq (4 + 4 * tl.length + 2 * k) = some off ∧
      convertTrackChk c.subList.length c.macroList.length c.subList[k] = .ok stream ∧
      b.seq.drop (4 + 4 * tl.length + off) = stream ++ rest) ∧
    (∀ (k : Nat) (hk : k < c.macroList.length), ∃ off stream rest,
      Seq.rd16 b.seq (4 + 4 * tl.length + 2 * (c.subList.length + k)) = some off ∧
      convertMacroTrack c.macroList[k] = .ok stream ∧
      b.seq.drop (4 + 4 * tl.length + off) = stream ++ rest) ∧
    (∀ k : Nat, c.subList.length + c.macroList.length ≤ k →
      k < c.subList.length + c.macroList.length + c.usedData.length →
      Seq.rd16 b.seq (4 + 4 * tl.length + 2 * k) = some 0) := by
  obtain ⟨ts, ss, ms, hts, hss, hms, hsz, _, _, hbt, hbs, hbm, hseq⟩ := assemble_ok h
  have lts : ts.length = tl.length := by simpa using encodeStreams_length _ _ _ _ _ hts
  have lss : ss.length = c.subList.length := encodeStreams_length _ _ _ _ _ hss
  have lms : ms.length = c.macroList.length := encodeStreams_length _ _ _ _ _ hms
  have hb : 4 + 4 * tl.length < 65536 := by unfold hdrSize at hsz; omega
  obtain ⟨tS, htS⟩ : ∃ x, x = startsFrom (hdrSize c tl.length) ts := ⟨_, rfl⟩
  obtain ⟨sS, hsS⟩ : ∃ x, x = startsFrom (hdrSize c tl.length + ts.flatten.length) ss := ⟨_, rfl⟩
  obtain ⟨mS, hmS⟩ : ∃ x, x = startsFrom (hdrSize c tl.length + ts.flatten.length + ss.flatten.length) ms := ⟨_, rfl⟩
  rw [← htS, ← hsS, ← hmS] at hseq
  have ltS : tS.length = (tl.map (·.1)).length := by rw [htS, startsFrom_length]; simpa using lts
  have lsS : sS.length = c.subList.length := by rw [hsS, startsFrom_length, lss]
  have lmS : mS.length = c.macroList.length := by rw [hmS, startsFrom_length, lms]
  obtain ⟨H, hHdef⟩ : ∃ x, x = headerOf (4 + 4 * tl.length) (volByte vol) (tl.map (·.1)) tS sS mS c.usedData.length := ⟨_, rfl⟩
  have hH : H.length = hdrSize c tl.length := by
    rw [hHdef, headerOf_length _ _ _ _ _ _ _ ltS, lsS, lmS]; simp [hdrSize]; omega
  have hseq' : b.seq = H ++ (ts.flatten ++ (ss.flatten ++ ms.flatten)) := by rw [hseq, hHdef]; simp [List.append_assoc]
  have hml : (tl.map (·.1)).length = tl.length := by simp
  refine ⟨?_, ?_, ?_, ?_, ?_⟩
  · rw [hseq', hbt, hbs, hbm]; simp only [List.length_append, hH, hdrSize]; omega
  · intro hpos
    have hi' : 0 < (tl.map (·.1)).length := by simpa using hpos
    have hit : 0 < tS.length := by rw [ltS]; exact hi'
    have htr := (header_track (4 + 4 * tl.length) (volByte vol) (tl.map (·.1)) tS sS mS c.usedData.length
      (ts.flatten ++ (ss.flatten ++ ms.flatten)) ltS 0 hi' hit).2.2
    rw [← hHdef, ← hseq'] at htr
    have h0 : tS[0]? = some (hdrSize c tl.length + ((ts.take 0).flatten).length) := by
      rw [htS]; exact startsFrom_get _ _ 0 (by omega)
    have h0' : tS[0] = hdrSize c tl.length := by
      rw [List.getElem?_eq_getElem hit] at h0; simpa using h0
    rw [h0'] at htr
    simp only [Nat.mul_zero, Nat.add_zero] at htr
    rw [htr]; unfold off16 hdrSize; unfold hdrSize at hsz; congr 1; omega
  · intro k hk
    have hk' : k < (sS ++ mS).length := by simp [lsS]; omega
    have hsl := header_slot (4 + 4 * tl.length) (volByte vol) (tl.map (·.1)) tS sS mS c.usedData.length
      (ts.flatten ++ (ss.flatten ++ ms.flatten)) ltS k hk'
    rw [← hHdef, ← hseq', hml] at hsl
    have hks : k < ss.length := by rw [lss]; exact hk
    have hkS : k < sS.length := by rw [lsS]; exact hk
    have hget : (sS ++ mS)[k] = sS[k] := List.getElem_append_left hkS
    have hen := encodeStreams_get _ _ _ _ _ hss k hk hks
    have hfit := encodeStreams_starts _ _ _ _ _ hss k hks
    obtain ⟨st, hst, hdrop⟩ := stream_at (H ++ ts.flatten) ms.flatten ss k hks (4 + 4 * tl.length)
      (by rw [List.length_append, hH]; unfold hdrSize; omega)
      (by rw [List.length_append, hH]; exact hfit)
    rw [List.length_append, hH, ← hsS] at hst
    have hst' : sS[k] = st := by
      rw [List.getElem?_eq_getElem hkS] at hst; exact Option.some.inj hst
    refine ⟨off16 sS[k] (4 + 4 * tl.length), ss[k], (ss.drop (k + 1)).flatten ++ ms.flatten, ?_, hen, ?_⟩
    · rw [hsl, hget]
    · rw [hst', hseq']
      have : H ++ (ts.flatten ++ (ss.flatten ++ ms.flatten)) = H ++ ts.flatten ++ ss.flatten ++ ms.flatten := by
        simp [List.append_assoc]
      rw [this]; exact hdrop
  · intro k hk
    have hk' : c.subList.length + k < (sS ++ mS).length := by simp [lsS, lmS]; omega
    have hsl := header_slot (4 + 4 * tl.length) (volByte vol) (tl.map (·.1)) tS sS mS c.usedData.length
      (ts.flatten ++ (ss.flatten ++ ms.flatten)) ltS (c.subList.length + k) hk'
    rw [← hHdef, ← hseq', hml] at hsl
    have hks : k < ms.length := by rw [lms]; exact hk
    have hkS : k < mS.length := by rw [lmS]; exact hk
    have hget : (sS ++ mS)[c.subList.length + k] = mS[k] := by
      rw [List.getElem_append_right (by rw [lsS]; omega)]
      simp [lsS]
    have hen := encodeStreams_get _ _ _ _ _ hms k hk hks
    have hfit := encodeStreams_starts _ _ _ _ _ hms k hks
    obtain ⟨st, hst, hdrop⟩ := stream_at (H ++ ts.flatten ++ ss.flatten) [] ms k hks (4 + 4 * tl.length)
      (by simp only [List.length_append, hH]; unfold hdrSize; omega)
      (by simp only [List.length_append, hH]; exact hfit)
    simp only [List.length_append, hH] at hst
    rw [← hmS] at hst
    have hst' : mS[k] = st := by
      rw [List.getElem?_eq_getElem hkS] at hst; exact Option.some.inj hst
    refine ⟨off16 mS[k] (4 + 4 * tl.length), ms[k], (ms.drop (k + 1)).flatten ++ [], ?_, hen, ?_⟩
    · rw [hsl, hget]
    · rw [hst', hseq']
      have : H ++ (ts.flatten ++ (ss.flatten ++ ms.flatten)) = H ++ ts.flatten ++ ss.flatten ++ ms.flatten ++ [] := by
        simp [List.append_assoc]
      rw [this]; exact hdrop
  · intro k hk1 hk2
    have hds := header_data_slot (4 + 4 * tl.length) (volByte vol) (tl.map (·.1)) tS sS mS c.usedData.length
      (ts.flatten ++ (ss.flatten ++ ms.flatten)) ltS k (by simp [lsS, lmS]; omega) (by simp [lsS, lmS]; omega)
    rw [← hHdef, ← hseq', hml] at hds
    exact hds


/-- `mds_shape`: the exported bytes are the serialisation of the tree
RIFF `MDS0` [ `ver ` (table version), `grp `, `seq `, LIST `dblk` (one `glob`/`pcmh` child per used
data item), `pcmd` ], and (for a file below 4 GiB) the reader-side walker gives that tree back. -/
theorem C09_mds_shape {b : Built} {bank : List (List Nat)} {group pcm f : Bytes}
    (h : getMds b bank group pcm = .ok f) :
    ∃ ts : List Riff.Tree, ts.length = b.conv.usedData.length ∧
      (∀ t ∈ ts, ∃ p, t = .chunk mdsFile_glob p ∨ t = .chunk mdsFile_pcmh p) ∧
      Riff.serialize (mdsTree (toU8 b.seq) group pcm ts) = .ok f ∧
      ((mdsTree (toU8 b.seq) group pcm ts).small → Riff.walkTop f = .ok (mdsTree (toU8 b.seq) group pcm ts)) := by
  obtain ⟨ts, _, hlen, hk, hser⟩ := getMds_serialize h
  refine ⟨ts, hlen, hk, hser, ?_⟩
  intro hsmall
  have hwf : (mdsTree (toU8 b.seq) group pcm ts).wf := by
    have hts : Riff.Tree.wfL ts := by
      apply wfL_of_forall
      intro t ht
      obtain ⟨p, hp | hp⟩ := hk t ht <;> subst hp <;> exact ⟨by decide, by decide⟩
    exact ⟨by decide, by decide, ⟨by decide, by decide⟩, ⟨by decide, by decide⟩, ⟨by decide, by decide⟩,
      ⟨by decide, by decide, hts⟩, ⟨by decide, by decide⟩, trivial⟩
  obtain ⟨f', hf', hw⟩ := Riff.C13_walk_serialize _ hwf hsmall
  rw [hser] at hf'
  cases hf'
  exact hw

/-- `index_fits_byte`: when the export succeeds, every subroutine / macro-track / data index that
`convert_track` writes into a channel or subroutine stream is at most 255, so the operand byte IS
the index (otherwise `index_byte` throws and nothing is exported — D19, fixed). -/
theorem C09_index_fits_byte {c : Conv} {tl : List (Nat × List MEv)} {vol : Option String} {b : Built}
    (h : assemble c tl vol = .ok b) :
    ∀ evs ∈ tl.map (·.2) ++ c.subList, ∀ ev ∈ evs,
      (ev.type = mds_PAT → ev.arg % 256 = ev.arg) ∧
      (ev.type = mds_INS ∨ ev.type = mds_PCM →
        (c.subList.length + c.macroList.length + ev.arg) % 256 = c.subList.length + c.macroList.length + ev.arg) ∧
      (ev.type = mds_PEG → ev.arg ≠ 0 →
        (c.subList.length + c.macroList.length + ev.arg) % 256 = c.subList.length + c.macroList.length + ev.arg) ∧
      (ev.type = mds_MTAB → ev.arg ≠ 0 → (ev.arg + c.subList.length) % 256 = ev.arg + c.subList.length) := by
  obtain ⟨ts, ss, ms, hts, hss, _, _, _, _, _, _, _, _⟩ := assemble_ok h
  intro evs hevs ev hev
  have hall : evs.all (idxFits c.subList.length c.macroList.length) = true := by
    rcases List.mem_append.mp hevs with h1 | h1
    · exact encodeStreams_fits _ _ _ _ hts evs h1
    · exact encodeStreams_fits _ _ _ _ hss evs h1
  have hfit := List.all_eq_true.mp hall ev hev
  unfold idxFits at hfit
  have hmax : mdsFile_indexMax = 255 := rfl
  have e1 : mds_MTAB = 235 := rfl
  have e2 : mds_INS = 225 := rfl
  have e3 : mds_PCM = 240 := rfl
  have e4 : mds_PEG = 232 := rfl
  have e5 : mds_PAT = 254 := rfl
  refine ⟨?_, ?_, ?_, ?_⟩
  · intro ht
    simp [ht, e1, e2, e3, e4, e5, hmax] at hfit
    omega
  · intro ht
    rcases ht with ht | ht <;> simp [ht, e1, e2, e3, e4, e5, hmax] at hfit <;> omega
  · intro ht hne
    simp [ht, e1, e2, e3, e4, e5, hmax, hne] at hfit
    omega
  · intro ht hne
    simp [ht, e1, e2, e3, e4, e5, hmax, hne] at hfit
    omega

/-- D19 as it was: the codec alone truncates the 257th subroutine index to 0 (`fe 00`); the
check added by the fix rejects it. -/
theorem C09_d19_counterexample_before_fix :
    (convertTrack 300 0 [⟨mds_PAT, 256⟩]).toOption = some [mds_PAT, 0] ∧
    (match convertTrackChk 300 0 [⟨mds_PAT, 256⟩] with | .error .indexRange => true | _ => false) = true := by
  constructor
  · decide
  · decide

/-- `ids_injective` (partial): no two `dblk` entries share a slot id, GIVEN that `used_data_map`
numbers its keys 0,1,2,… (`UsedOk`, which `get_envelope` — the only writer of the map — keeps:
`usedOk_getEnvelope`; carrying it through the mutually recursive writer is not proved). -/
theorem C09_ids_injective_partial (c : Conv) (hu : UsedOk c.usedData)
    (hs : c.subList.length + c.macroList.length + c.usedData.length ≤ 2147483648) :
    ((usedSorted c).map fun p => entryId c.subList.length c.macroList.length p.1 p.2 % 2147483648).Nodup := by
  have hperm : (usedSorted c).Perm c.usedData := List.mergeSort_perm _ _
  have hvals : ((usedSorted c).map (·.2)).Nodup := (hperm.map _).nodup_iff.mpr (usedOk_nodup hu)
  have hbound : ∀ p ∈ usedSorted c, p.2 < c.usedData.length := by
    intro p hp
    have hp' : p ∈ c.usedData := hperm.mem_iff.mp hp
    have : p.2 ∈ c.usedData.map (·.2) := List.mem_map.mpr ⟨p, hp', rfl⟩
    rw [hu] at this
    exact List.mem_range.mp this
  have hpw : (usedSorted c).Pairwise (fun p q => p.2 ≠ q.2) := List.pairwise_map.mp hvals
  have hpw' := List.Pairwise.and_mem.mp hpw
  apply List.pairwise_map.mpr
  refine hpw'.imp ?_
  intro p q ⟨hp, hq, hne⟩
  have h1 := hbound p hp
  have h2 := hbound q hq
  unfold entryId
  have : mdsFile_extIdBit = 2147483648 := rfl
  rw [this]
  split <;> split <;> omega

example : UsedOk ({ usedData := [(1, 0), (65538, 1), (3, 2)] } : Conv).usedData := by unfold UsedOk; decide

/-- `ids_injective`: no two `dblk` entries of an export share a slot id.  (`PlatformClean`: no
platform `cmd` injects a raw index-bearing opcode.) -/
theorem C09_ids_injective {song : Song} {d : DataInfo} (hpc : PlatformClean d) {vol : Option String} {b : Built}
    (h : construct song d vol = .ok b) :
    ((usedSorted b.conv).map fun p => entryId b.conv.subList.length b.conv.macroList.length p.1 p.2 % 2147483648).Nodup := by
  obtain ⟨hinv, _, hasm⟩ := construct_inv hpc h
  obtain ⟨_, _, _, _, _, _, hsz, _⟩ := assemble_ok hasm
  exact C09_ids_injective_partial b.conv hinv.maps.used (by unfold hdrSize at hsz; omega)

/-- the track-list facts: the track table lists exactly the song's channel tracks (ids below 16),
in ascending order when the song's track map is (as a `std::map` is), and there are at most 16 -/
theorem C09_tracks_exact {song : Song} {d : DataInfo} {vol : Option String} {b : Built}
    (h : construct song d vol = .ok b) :
    b.trackList.map (·.1) = channelIds song ∧ (∀ id ∈ channelIds song, id < 16 ∧ id ∈ song.tracks.map (·.1)) ∧
    ((song.tracks.map (·.1)).Pairwise (· < ·) → (channelIds song).Pairwise (· < ·) ∧ b.trackList.length ≤ 16) := by
  have hids := construct_ids h
  refine ⟨hids, ?_, ?_⟩
  · intro id hid
    unfold channelIds at hid
    have := List.mem_filter.mp hid
    exact ⟨by simpa using this.2, this.1⟩
  · intro hs
    have hp : (channelIds song).Pairwise (· < ·) := List.Pairwise.filter _ hs
    refine ⟨hp, ?_⟩
    have hl : b.trackList.length = (channelIds song).length := by rw [← hids]; simp
    rw [hl]
    rcases sorted_length_le (channelIds song) 0 16 hp (by
      intro x hx
      unfold channelIds at hx
      have := (List.mem_filter.mp hx).2
      exact ⟨Nat.zero_le _, by simpa using this⟩) with h' | h'
    · omega
    · rw [h']; simp

/-- `index_resolves`: in every event list the converter emits (channel tracks, subroutines, macro
tracks) every index-bearing event refers to a key that is present in its map, and the index leads,
through the pointer table of the exported `seq `, to the bytes of exactly the list registered under
that key — which is what the writer makes of the track the key names (`SubNamed` / `MacNamed`).
Data indices refer to a key of `used_data_map` (the `dblk` side is `C09_data_resolves`). -/
theorem C09_index_resolves {song : Song} {d : DataInfo} (hpc : PlatformClean d) {vol : Option String} {b : Built}
    (h : construct song d vol = .ok b) :
    ∀ l ∈ b.trackList.map (·.2) ++ b.conv.subList ++ b.conv.macroList, ∀ ev ∈ l,
      (ev.type = mds_PAT → ∃ key evs stream off rest,
        (key, ev.arg) ∈ b.conv.subMap ∧ b.conv.subList[ev.arg]? = some evs ∧ SubNamed song d key evs ∧
        convertTrackChk b.conv.subList.length b.conv.macroList.length evs = .ok stream ∧
        Seq.rd16 b.seq (4 + 4 * b.trackList.length + 2 * ev.arg) = some off ∧
        b.seq.drop (4 + 4 * b.trackList.length + off) = stream ++ rest) ∧
      (ev.type = mds_INS ∨ ev.type = mds_PCM → ∃ mapped, (mapped, ev.arg) ∈ b.conv.usedData ∧
        Seq.rd16 b.seq (4 + 4 * b.trackList.length + 2 * (b.conv.subList.length + b.conv.macroList.length + ev.arg)) = some 0) ∧
      (ev.type = mds_PEG → ev.arg ≠ 0 → ∃ mapped, (mapped, ev.arg - 1) ∈ b.conv.usedData ∧
        Seq.rd16 b.seq (4 + 4 * b.trackList.length + 2 * (b.conv.subList.length + b.conv.macroList.length + (ev.arg - 1))) = some 0) ∧
      (ev.type = mds_MTAB → ev.arg ≠ 0 → ∃ key evs stream off rest,
        (key, ev.arg - 1) ∈ b.conv.macroMap ∧ b.conv.macroList[ev.arg - 1]? = some evs ∧ MacNamed song d key evs ∧
        convertMacroTrack evs = .ok stream ∧
        Seq.rd16 b.seq (4 + 4 * b.trackList.length + 2 * (b.conv.subList.length + (ev.arg - 1))) = some off ∧
        b.seq.drop (4 + 4 * b.trackList.length + off) = stream ++ rest) := by
  obtain ⟨hinv, _, hasm⟩ := construct_inv hpc h
  obtain ⟨_, hfirst, hsub, hmac, hdat⟩ := C09_slot_count hasm
  intro l hl ev hev
  have hall : AllEv b.conv (b.trackList.map (·.2)) ev := by
    rcases List.mem_append.mp hl with hl | hl
    · rcases List.mem_append.mp hl with hl | hl
      · exact Or.inr (Or.inr ⟨l, hl, hev⟩)
      · exact Or.inl ⟨l, hl, hev⟩
    · exact Or.inr (Or.inl ⟨l, hl, hev⟩)
  have hsc := hinv.scopedEv ev hall
  refine ⟨?_, ?_, ?_, ?_⟩
  · intro ht
    have hk := hsc.1 ht
    obtain ⟨key, hkey⟩ := exists_key_of_lt hinv.maps.sub (by rw [hinv.maps.subLen]; exact hk)
    obtain ⟨evs, he, hnm⟩ := hinv.namedS _ hkey (by simp [Pend.hs])
    obtain ⟨off, stream, rest, h1, h2, h3⟩ := hsub ev.arg hk
    have : evs = b.conv.subList[ev.arg] := by
      rw [List.getElem?_eq_getElem hk] at he; exact (Option.some.inj he).symm
    subst this
    exact ⟨key, _, stream, off, rest, hkey, he, hnm, h2, h1, h3⟩
  · intro ht
    have hk := hsc.2.1 ht
    obtain ⟨mapped, hkey⟩ := exists_key_of_lt hinv.maps.used hk
    exact ⟨mapped, hkey, hdat _ (by omega) (by omega)⟩
  · intro ht hne
    have hk := hsc.2.2.1 ht
    obtain ⟨mapped, hkey⟩ := exists_key_of_lt hinv.maps.used (k := ev.arg - 1) (by omega)
    exact ⟨mapped, hkey, hdat _ (by omega) (by omega)⟩
  · intro ht hne
    have hk := hsc.2.2.2 ht
    have hk' : ev.arg - 1 < b.conv.macroList.length := by omega
    obtain ⟨key, hkey⟩ := exists_key_of_lt hinv.maps.mac (by rw [hinv.maps.macLen]; exact hk')
    obtain ⟨evs, he, hnm⟩ := hinv.namedM _ hkey (by simp [Pend.hm])
    obtain ⟨off, stream, rest, h1, h2, h3⟩ := hmac (ev.arg - 1) hk'
    have : evs = b.conv.macroList[ev.arg - 1] := by
      rw [List.getElem?_eq_getElem hk'] at he; exact (Option.some.inj he).symm
    subst this
    exact ⟨key, _, stream, off, rest, hkey, he, hnm, h2, h1, h3⟩

/-- the `dblk` side of `index_resolves`: every key of `used_data_map` has its entry in the list —
chunk `glob`/`pcmh`, payload = 32-bit id (slot index, bit 31 for an extended envelope) followed by
the data-bank item the key names; by `C09_ids_injective` it is the only entry with that id -/
theorem C09_data_resolves {b : Built} {bank : List (List Nat)} {group pcm f : Bytes}
    (h : getMds b bank group pcm = .ok f) :
    ∃ ts : List Riff.Tree, Riff.serialize (mdsTree (toU8 b.seq) group pcm ts) = .ok f ∧
      ∀ p ∈ b.conv.usedData, ∃ dat, bank[p.1 % (mdsFile_bankMask + 1)]? = some dat ∧
        Riff.Tree.chunk (if p.1 < mdsFile_pcmTag then mdsFile_glob else mdsFile_pcmh)
          (le32 (entryId b.conv.subList.length b.conv.macroList.length p.1 p.2) ++ toU8 dat) ∈ ts := by
  obtain ⟨ts, hts, _, _, hser⟩ := getMds_serialize h
  refine ⟨ts, hser, ?_⟩
  intro p hp
  have hp' : p ∈ usedSorted b.conv := (List.mergeSort_perm _ _).mem_iff.mpr hp
  exact entryTrees_mem _ _ _ _ _ hts p hp'

/-- `nothing_unused`: every subroutine, macro track and data item of an export is the target of an
index-bearing event in an emitted event list (`AllEv`: channel tracks, subroutines, macro tracks):
a `PAT k` (drum routine: the note / DMFINISH event carrying `k`), an `MTAB k+1`, an `INS`/`PCM i`
or a `PEG i+1`. -/
theorem C09_nothing_unused {song : Song} {d : DataInfo} (hpc : PlatformClean d) {vol : Option String} {b : Built}
    (h : construct song d vol = .ok b) :
    (∀ k, k < b.conv.subList.length → ∃ key ev, (key, k) ∈ b.conv.subMap ∧ AllEv b.conv (b.trackList.map (·.2)) ev ∧
      ((key % 4 < 2 ∧ ev.type = mds_PAT ∧ ev.arg = k) ∨ (2 ≤ key % 4 ∧ DrumRef ev k))) ∧
    (∀ k, k < b.conv.macroList.length → ∃ ev, AllEv b.conv (b.trackList.map (·.2)) ev ∧ ev.type = mds_MTAB ∧ ev.arg = k + 1) ∧
    (∀ i, i < b.conv.usedData.length → ∃ ev, AllEv b.conv (b.trackList.map (·.2)) ev ∧
      (((ev.type = mds_INS ∨ ev.type = mds_PCM) ∧ ev.arg = i) ∨ (ev.type = mds_PEG ∧ ev.arg = i + 1))) := by
  obtain ⟨hinv, _, hasm⟩ := construct_inv hpc h
  obtain ⟨_, _, _, _, _, _, hsz, _⟩ := assemble_ok hasm
  unfold hdrSize at hsz
  refine ⟨?_, ?_, ?_⟩
  · intro k hk
    obtain ⟨key, hm, ev, he, hr⟩ := hinv.covSub k hk (by simp [Pend.xs])
    refine ⟨key, ev, hm, he, ?_⟩
    rcases hr with ⟨h1, h2, h3⟩ | hr
    · left; refine ⟨h1, h2, ?_⟩
      rw [h3, u16_nat]; omega
    · exact Or.inr hr
  · intro k hk
    obtain ⟨ev, he, ht, ha⟩ := hinv.covMac k hk (by simp [Pend.xm])
    refine ⟨ev, he, ht, ?_⟩
    rw [ha, u16_succ]; omega
  · intro i hi
    obtain ⟨ev, he, hr⟩ := hinv.covData i hi
    refine ⟨ev, he, ?_⟩
    rcases hr with ⟨h1, h2⟩ | ⟨h1, h2⟩
    · left; refine ⟨h1, ?_⟩; rw [h2, u16_nat]; omega
    · right; refine ⟨h1, ?_⟩; rw [h2, u16_succ]; omega

/-- `index_resolves`, per event: whatever index-bearing event a hook call pushes carries the index
that the conversion state registers under the key of the id THIS song event names — the
subroutine key (track, drum flags) of a `JUMP`, the data-bank index of the `INS` instrument
(tagged for PCM) or of the `PITCH_ENVELOPE` (tagged when extended), the macro track of a
`PAN_ENVELOPE`.  (Maps only grow — `SubMono`, `getEnvelope` appends — so the key keeps that index
to the end of the conversion.) -/
theorem C09_event_names {song : Song} {d : DataInfo} (hpc : PlatformClean d) {n : Nat} {c c' : Conv} {w w' : WState}
    {it : Player.TraceItem} {L : List (List MEv)} {P : Pend} (hinv : Inv song d c (w.out :: L) P)
    (h : hook song d (n + 1) c w it = .ok (c', w')) :
    ∃ new, w'.out = w.out ++ new ∧ ∀ ev ∈ new, EventNames d it w c' ev := by
  have ih := writerInv (song := song) hpc n
  cases hook_step hpc h with
  | plain w' evs hout hpl => exact ⟨evs, hout, fun ev he => eventNames_of_plain (hpl ev he)⟩
  | drum c' id w' pre ev _ _ _ hout hpre _ hplain =>
    exact ⟨pre ++ [ev], by rw [hout, List.append_assoc], eventNames_append hpre (eventNames_of_plain hplain)⟩
  | jump c' id w' pre ht hg hout hpre =>
    obtain ⟨k, rfl, _, hmem, _, _⟩ := ih.sub c _ _ _ c' id (w.out :: L) P hinv hg
    refine ⟨pre ++ [⟨mds_PAT, u16 (k : Int)⟩], by rw [hout, List.append_assoc], eventNames_append hpre ?_⟩
    refine ⟨fun _ => ⟨ht, k, rfl, hmem⟩, fun t => ?_, fun t => ?_, fun t => ?_⟩
    · rcases t with t | t
      · exact absurd (show mds_PAT = mds_INS from t) (by decide)
      · exact absurd (show mds_PAT = mds_PCM from t) (by decide)
    · exact absurd (show mds_PAT = mds_PEG from t) (by decide)
    · exact absurd (show mds_PAT = mds_MTAB from t) (by decide)
  | data key ty arg w' pre hf hout hpre hprov =>
    have hmemU := (getEnvelope_spec c key hinv.maps).2.2.2.2.2.2.2
    refine ⟨pre ++ [⟨ty, arg⟩], by rw [hout, List.append_assoc], eventNames_append hpre ?_⟩
    rcases hprov with ⟨hti, idx, tyI, he, _, hk⟩ | ⟨htp, hne, idx, hl, hkey, hty⟩
    · -- an instrument
      have hty : ty = mds_INS ∨ ty = mds_PCM := by rcases hk with ⟨_, _, h⟩ | ⟨_, _, h⟩; exact Or.inl h; exact Or.inr h
      have harg : arg = u16 ((getEnvelope c key).2 : Int) := by
        rcases hf with ⟨_, ha⟩ | ⟨hp, _⟩
        · exact ha
        · rcases hty with h | h <;> (rw [h] at hp; exact absurd hp (by decide))
      refine ⟨fun t => ?_, fun _ => ⟨hti, idx, (getEnvelope c key).2, he, harg, ?_⟩, fun t => ?_, fun t => ?_⟩
      · rcases hty with h | h <;> (rw [show ty = mds_PAT from t] at h; exact absurd h (by decide))
      · rcases hk with ⟨_, hkk, h⟩ | ⟨_, hkk, h⟩
        · left; exact ⟨h, by rw [← hkk]; exact hmemU⟩
        · right; exact ⟨h, by rw [← hkk]; exact hmemU⟩
      · rcases hty with h | h <;> (rw [show ty = mds_PEG from t] at h; exact absurd h (by decide))
      · rcases hty with h | h <;> (rw [show ty = mds_MTAB from t] at h; exact absurd h (by decide))
    · -- a pitch envelope
      have harg : arg = u16 (wrap16 (((getEnvelope c key).2 : Int) + 1)) := by
        rcases hf with ⟨hp, _⟩ | ⟨_, ha⟩
        · rcases hp with hp | hp <;> (rw [hty] at hp; exact absurd hp (by decide))
        · exact ha
      refine ⟨fun t => ?_, fun t => ?_, fun _ _ => ⟨htp, idx, (getEnvelope c key).2, hl, harg, by rw [← hkey]; exact hmemU⟩, fun t => ?_⟩
      · exact absurd (show mds_PEG = mds_PAT from hty ▸ t) (by decide)
      · rcases t with t | t
        · exact absurd (show mds_PEG = mds_INS from hty ▸ t) (by decide)
        · exact absurd (show mds_PEG = mds_PCM from hty ▸ t) (by decide)
      · exact absurd (show mds_PEG = mds_MTAB from hty ▸ t) (by decide)
  | mtab c' id w' pre ht hne hg hout hpre =>
    obtain ⟨k, rfl, _, hmem, _, _⟩ := ih.mac c _ c' id (w.out :: L) P hinv hg
    obtain ⟨ev, hev⟩ : ∃ ev : MEv, ev = ⟨mds_MTAB, u16 (wrap16 ((k : Int) + 1))⟩ := ⟨_, rfl⟩
    refine ⟨pre ++ [ev], by rw [hout, List.append_assoc, hev], eventNames_append hpre ?_⟩
    have h1 : ev.type = mds_MTAB := by rw [hev]
    have h2 : ev.arg = u16 (wrap16 ((k : Int) + 1)) := by rw [hev]
    refine ⟨fun t => ?_, fun t => ?_, fun t => ?_, fun _ _ => ⟨ht, k, h2, hmem⟩⟩
    · rw [h1] at t; exact absurd t (by decide)
    · rcases t with t | t <;> (rw [h1] at t; exact absurd t (by decide))
    · rw [h1] at t; exact absurd t (by decide)

/-! ## round 3: the reader side — `Spec/MdsResolve` on the bytes -/

/-- `reader_sees_operands` (partial: the fragment `MdsRead.Frag` — every event has a defined
encoding (`okEv`: loop point, rests / ties / notes of any 16-bit length, every command of
`convert_track`'s switch including subroutine calls, drum mode, `DMFINISH`, counted loops with
breaks, the loop-back jump), the list ends with its only terminator, loops are balanced — and a
stream shorter than 64 KiB).  Wherever the stream lies in a chunk, the reader-side decoder of
`Spec/MdsResolve` (instruction boundaries by `SeqWf.instrLen`) walks it instruction by instruction
to exactly its end and returns exactly `opsOf`: one reading per byte-emitting event.  Every
decoded `PAT`/`INS`/`PCM`/`PEG`/`MTAB` operand is the operand byte `convert_track` computed from
an event of the list (index offset by the number of subroutines / macro tracks, cut to a byte),
and every such event is decoded. -/
theorem C09_reader_sees_operands_partial (nS nM : Nat) (es : List MEv) (hfr : MdsRead.Frag es) {bytes : List Nat}
    (h : convertTrackChk nS nM es = .ok bytes) (hlen : bytes.length < 65536)
    (seq : List Nat) (pos : Nat) (hat : MdsRead.At seq pos bytes) (drum : Bool) (fuel : Nat) (hf : fuel ≥ bytes.length + 1) :
    MdsResolve.decodeStream seq fuel pos drum [] = some (MdsRead.opsOf nS nM es drum, pos + bytes.length) ∧
    (∀ o ∈ MdsRead.opsOf nS nM es drum, ∃ ev ∈ es,
      (o = .pat (ev.arg % 256) ∧ ev.type = mds_PAT) ∨
      (o = .ins ((nS + nM + ev.arg) % 256) ∧ ev.type = mds_INS) ∨
      (o = .pcm ((nS + nM + ev.arg) % 256) ∧ ev.type = mds_PCM) ∨
      (o = .peg (if ev.arg ≠ 0 then (nS + nM + ev.arg) % 256 else 0) ∧ ev.type = mds_PEG) ∨
      (o = .mtab (if ev.arg ≠ 0 then (ev.arg + nS) % 256 else 0) ∧ ev.type = mds_MTAB) ∨
      (ev.type = mds_DMFINISH ∧ o = .dmfinish (ev.arg % 256)) ∨
      (mds_NOTE ≤ ev.type ∧ ev.type < mds_SLR ∧ ev.arg ≠ 0 ∧ (o = .drumNote (ev.type - mds_NOTE) ∨ o = .note (ev.type - mds_NOTE)))) ∧
    (∀ ev ∈ es,
      (ev.type = mds_PAT → MdsResolve.Op.pat (ev.arg % 256) ∈ MdsRead.opsOf nS nM es drum) ∧
      (ev.type = mds_INS → MdsResolve.Op.ins ((nS + nM + ev.arg) % 256) ∈ MdsRead.opsOf nS nM es drum) ∧
      (ev.type = mds_PCM → MdsResolve.Op.pcm ((nS + nM + ev.arg) % 256) ∈ MdsRead.opsOf nS nM es drum) ∧
      (ev.type = mds_PEG → MdsResolve.Op.peg (if ev.arg ≠ 0 then (nS + nM + ev.arg) % 256 else 0) ∈ MdsRead.opsOf nS nM es drum) ∧
      (ev.type = mds_MTAB → MdsResolve.Op.mtab (if ev.arg ≠ 0 then (ev.arg + nS) % 256 else 0) ∈ MdsRead.opsOf nS nM es drum)) := by
  obtain ⟨body, t, rfl, hb, ht, hbal⟩ := hfr
  obtain ⟨pre, post, rfl, rfl⟩ := hat
  refine ⟨MdsRead.decode_convertTrack nS nM body t hb ht hbal (convertTrackChk_fits h).2 hlen pre post drum fuel hf,
    fun o ho => MdsRead.mem_opsOf ho, fun ev hev => MdsRead.opsOf_records hev drum⟩

/-- a track with a call, an instrument, a counted loop with a break (back-patched into the
middle of the stream) and a length-less note in front of the break position -/
def exFrag : List MEv :=
  [⟨mds_PAT, 0⟩, ⟨mds_INS, 0⟩, ⟨mds_LP, 0⟩, ⟨mds_NOTE + 36, 24⟩, ⟨mds_NOTE + 38, 24⟩, ⟨mds_LPB, 0⟩, ⟨mds_REST, 3⟩, ⟨mds_LPF, 2⟩,
   ⟨mds_FINISH, 0⟩]

example : MdsRead.Frag exFrag ∧ (convertTrackChk 1 0 exFrag).toOption = some [254, 0, 225, 1, 250, 166, 23, 168, 252, 3, 2, 251, 2, 255] ∧
    MdsRead.opsOf 1 0 exFrag false = [.pat 0, .ins 1, .note 36, .note 38] ∧
    MdsResolve.decodeStream ([9, 9] ++ [254, 0, 225, 1, 250, 166, 23, 168, 252, 3, 2, 251, 2, 255] ++ [7]) 15 2 false [] =
      some ([.pat 0, .ins 1, .note 36, .note 38], 16) :=
  ⟨⟨exFrag.dropLast, ⟨mds_FINISH, 0⟩, by decide, by decide, by decide, by decide⟩, by decide, by decide, by decide⟩

/-- position of channel track `i`'s stream in the exported `seq ` -/
def trackPos (b : Built) (i : Nat) : Nat := hdrSize b.conv b.trackList.length + ((b.trackStreams.take i).flatten).length

/-- data slot `k` resolves, through the reader-side `resolve`, to the content of THE `dblk` entry
with id `k`, which holds the data-bank item registered under a key of `used_data_map`; the slot
itself is zero -/
def DataRes (b : Built) (bank : List (List Nat)) (mf : MdsResolve.MdsFile) (hd : MdsResolve.Header) (k : Nat) : Prop :=
  ∃ mapped dat, b.conv.subList.length + b.conv.macroList.length ≤ k ∧
    (mapped, k - (b.conv.subList.length + b.conv.macroList.length)) ∈ b.conv.usedData ∧
    bank[mapped % (mdsFile_bankMask + 1)]? = some dat ∧
    MdsResolve.entriesWith mf k = [MdsRead.entryOfP b.conv.subList.length b.conv.macroList.length mapped
      (k - (b.conv.subList.length + b.conv.macroList.length)) dat] ∧
    MdsResolve.resolve mf hd (.data k) = some (MdsResolve.nat (toU8 dat)) ∧ Seq.rd16 mf.seq (hd.base + 2 * k) = some 0

/-- what "the operand resolves to the entry the song named" means for a decoded operand -/
def Resolves (song : Song) (d : DataInfo) (b : Built) (bank : List (List Nat)) (mf : MdsResolve.MdsFile) (hd : MdsResolve.Header) :
    MdsResolve.Op → Prop
  | .pat k => ∃ key evs stream rest, (key, k) ∈ b.conv.subMap ∧ b.conv.subList[k]? = some evs ∧ SubNamed song d key evs ∧
      convertTrackChk b.conv.subList.length b.conv.macroList.length evs = .ok stream ∧
      MdsResolve.resolve mf hd (.stream k) = some (stream ++ rest)
  | .mtab k => k = 0 ∨ ∃ key evs stream, (key, k - 1 - b.conv.subList.length) ∈ b.conv.macroMap ∧
      b.conv.macroList[k - 1 - b.conv.subList.length]? = some evs ∧ MacNamed song d key evs ∧ convertMacroTrack evs = .ok stream ∧
      (stream ≠ [] → ∃ rest, MdsResolve.resolve mf hd (.stream (k - 1)) = some (stream ++ rest))
  | .ins k => DataRes b bank mf hd k
  | .pcm k => DataRes b bank mf hd k
  | .peg k => k = 0 ∨ DataRes b bank mf hd (k - 1)
  | _ => True

theorem entryId_mod {nS nM m e : Nat} (h : nS + nM + e < 2147483648) : entryId nS nM m e % 2147483648 = nS + nM + e := by
  unfold entryId
  have : mdsFile_extIdBit = 2147483648 := rfl
  rw [this]
  split <;> omega

theorem range_getD (l : List Nat) (hl : ∀ x ∈ l, x < 256) : (List.range l.length).map (fun i => l[i]?.getD 0 % 256) = l := by
  apply List.ext_getElem (by simp)
  intro i h1 h2
  have hi : i < l.length := h2
  simp only [List.getElem_map, List.getElem_range, List.getElem?_eq_getElem hi, Option.getD_some]
  exact Nat.mod_eq_of_lt (hl _ (List.getElem_mem hi))

/-- the exported `seq ` consists of bytes when the channel-track and subroutine lists are in the
fragment and their streams are shorter than 64 KiB (header and macro streams: always) -/
theorem C09_seq_bytes {c : Conv} {tl : List (Nat × List MEv)} {vol : Option String} {b : Built} (h : assemble c tl vol = .ok b)
    (hfr : ∀ l ∈ tl.map (·.2) ++ c.subList, MdsRead.Frag l) (hlen : ∀ s ∈ b.trackStreams ++ b.subStreams, s.length < 65536) :
    ∀ x ∈ b.seq, x < 256 := by
  obtain ⟨ts, ss, ms, hts, hss, hms, _, _, _, hbt, hbs, _, hseq⟩ := assemble_ok h
  have hstream : ∀ (es : List (List MEv)) (pos : Nat) (bs : List (List Nat)),
      encodeStreams (convertTrackChk c.subList.length c.macroList.length) (4 + 4 * tl.length) pos es = .ok bs →
      (∀ l ∈ es, MdsRead.Frag l) → (∀ s ∈ bs, s.length < 65536) → ∀ x ∈ bs.flatten, x < 256 := by
    intro es pos bs he hf hl x hx
    obtain ⟨s, hs, hxs⟩ := List.mem_flatten.mp hx
    obtain ⟨l, hlm, hc⟩ := MdsRead.encodeStreams_mem _ _ _ _ _ he s hs
    obtain ⟨body, t, rfl, hb, ht, _⟩ := hf l hlm
    refine MdsRead.convertTrack_bytes _ _ _ ?_ (convertTrackChk_fits hc).2 (hl s hs) x hxs
    intro ev hev
    rcases List.mem_append.mp hev with hev | hev
    · exact (hb ev hev).1
    · simp only [List.mem_singleton] at hev; subst hev; exact ht.1
  rw [hseq]
  refine MdsRead.app_bytes (MdsRead.app_bytes (MdsRead.app_bytes (MdsRead.headerOf_bytes _ _ _ _ _ _ _) ?_) ?_) ?_
  · exact hstream _ _ _ hts (fun l hl => hfr l (List.mem_append_left _ hl)) (fun s hs => hlen s (List.mem_append_left _ (hbt ▸ hs)))
  · exact hstream _ _ _ hss (fun l hl => hfr l (List.mem_append_right _ hl)) (fun s hs => hlen s (List.mem_append_right _ (hbs ▸ hs)))
  · intro x hx
    obtain ⟨s, hs, hxs⟩ := List.mem_flatten.mp hx
    obtain ⟨l, _, hc⟩ := MdsRead.encodeStreams_mem _ _ _ _ _ hms s hs
    exact MdsRead.convertMacroTrack_bytes hc x hxs

/-- **`full` (partial)**: the property THROUGH the reader-side definitions on the serialised file.
For an export `construct … = b`, `get_mds … = f`: `parseFile f` (RIFF walk + shape) gives the
container with `seq = b.seq` and the `dblk` entries of `used_data_map`, ids pairwise distinct and
inside the data part of the slot space; `headerOf` reads base, `|subs|+|macros|+|data|` slots and
the channel tracks of the song at the positions of their streams; `decodeStream` — the decoder
`checkFile` uses — started at each channel track and at the `streamPos` of each subroutine slot
walks the stream and returns exactly the operands of the emitted events (`opsOf`); and every
`PAT`/`INS`/`PCM`/`PEG`/`MTAB` operand so decoded `Resolves`: through `MdsResolve.resolve` to the
stream of the subroutine / macro track registered under the key the writer used, resp. to the
content of the one `dblk` entry holding the data-bank item of the `used_data_map` key.

Residual hypotheses (everything else is `C09_full_statement`): `hfr`/`hlen` — every channel and
subroutine event list is in the fragment `Frag`, streams shorter than 64 KiB (then the model's `seq`
holds bytes: `C09_seq_bytes`); `hsmall` — the file is below 4 GiB; `hs` — the track map is sorted (a
`std::map`); `hn` — at least one channel track; macro streams resolve when non-empty.  Not covered:
`checkFile`'s comparison with the SONG's events (`namedOf`, `matchAll`: which id each operand
must name is proved per hook call by `C09_event_names`), drum-note operands, `contiguous`. -/
theorem C09_full_partial {song : Song} {d : DataInfo} (hpc : PlatformClean d) {vol : Option String} {b : Built}
    (h : construct song d vol = .ok b) {bank : List (List Nat)} {group pcm f : Bytes} (hg : getMds b bank group pcm = .ok f)
    (hs : (song.tracks.map (·.1)).Pairwise (· < ·)) (hn : 0 < b.trackList.length)
    (hsmall : ∀ ts, entryTrees b.conv.subList.length b.conv.macroList.length bank (usedSorted b.conv) = some ts →
      (mdsTree (toU8 b.seq) group pcm ts).small)
    (hfr : ∀ l ∈ b.trackList.map (·.2) ++ b.conv.subList, MdsRead.Frag l)
    (hlen : ∀ s ∈ b.trackStreams ++ b.subStreams, s.length < 65536) :
    ∃ mf hd, MdsResolve.parseFile f = .ok mf ∧ mf.seq = b.seq ∧ mf.group = MdsResolve.nat group ∧
      mf.version = [MDSDRV_SEQ_VERSION_MAJOR, MDSDRV_SEQ_VERSION_MINOR] ∧
      MdsResolve.headerOf mf.seq = some hd ∧ hd.base = 4 + 4 * b.trackList.length ∧ hd.volume = volByte vol ∧
      hd.slots = b.conv.subList.length + b.conv.macroList.length + b.conv.usedData.length ∧
      hd.tracks.map (·.1) = channelIds song ∧ hd.tracks.map (·.2) = (List.range b.trackList.length).map (trackPos b) ∧
      (mf.entries.map (·.id)).Nodup ∧
      (∀ e ∈ mf.entries, b.conv.subList.length + b.conv.macroList.length ≤ e.id ∧ e.id < hd.slots) ∧
      (∀ (i : Nat) (hi : i < b.trackList.length), ∃ stop,
        MdsResolve.decodeStream mf.seq (mf.seq.length + 1) (trackPos b i) false [] =
          some (MdsRead.opsOf b.conv.subList.length b.conv.macroList.length b.trackList[i].2 false, stop)) ∧
      (∀ (k : Nat) (hk : k < b.conv.subList.length) (drum : Bool), ∃ p stop, MdsResolve.streamPos mf hd k = some p ∧
        MdsResolve.decodeStream mf.seq (mf.seq.length + 1) p drum [] =
          some (MdsRead.opsOf b.conv.subList.length b.conv.macroList.length b.conv.subList[k] drum, stop)) ∧
      (∀ l ∈ b.trackList.map (·.2) ++ b.conv.subList, ∀ (drum : Bool),
        ∀ o ∈ MdsRead.opsOf b.conv.subList.length b.conv.macroList.length l drum, Resolves song d b bank mf hd o) := by
  obtain ⟨hinv, hids, hasm⟩ := construct_inv hpc h
  have hbyte : ∀ x ∈ b.seq, x < 256 := C09_seq_bytes hasm hfr hlen
  obtain ⟨hsz, hseqlen, r0, r2, r3, htr, hsub, hmac, hdat⟩ := MdsRead.layout hasm
  obtain ⟨ts, hts, _, _, _⟩ := getMds_serialize hg
  obtain ⟨_, hidmap⟩ := MdsRead.mapM_parse _ _ _ _ _ hts
  have hparse := MdsRead.parseFile_getMds hg hsmall hbyte
  have htx := C09_tracks_exact h
  have hn16 : b.trackList.length ≤ 16 := (htx.2.2 hs).2
  have hidlt : ∀ x ∈ b.trackList.map (·.1), x < 256 := by
    intro x hx; rw [htx.1] at hx; have := (htx.2.1 x hx).1; omega
  unfold hdrSize at hsz hseqlen
  have hsz' : 4 + 4 * b.trackList.length + (b.conv.subList.length + b.conv.macroList.length + b.conv.usedData.length) * 2 < 65536 := hsz
  have hseqlen' : 4 + 4 * b.trackList.length + (b.conv.subList.length + b.conv.macroList.length + b.conv.usedData.length) * 2 ≤ b.seq.length := hseqlen
  have htp0 : trackPos b 0 = 4 + 4 * b.trackList.length + 2 * (b.conv.subList.length + b.conv.macroList.length + b.conv.usedData.length) := by
    simp [trackPos, hdrSize]; omega
  have htpi : ∀ i, trackPos b i = 4 + 4 * b.trackList.length + (b.conv.subList.length + b.conv.macroList.length + b.conv.usedData.length) * 2 + ((b.trackStreams.take i).flatten).length := by
    intro i; simp [trackPos, hdrSize]
  obtain ⟨mf, hmf⟩ : ∃ mf : MdsResolve.MdsFile, mf = (⟨[MDSDRV_SEQ_VERSION_MAJOR, MDSDRV_SEQ_VERSION_MINOR],
      MdsResolve.nat group, b.seq, MdsRead.entriesOf b.conv.subList.length b.conv.macroList.length bank (usedSorted b.conv), MdsResolve.nat pcm⟩ : MdsResolve.MdsFile) := ⟨_, rfl⟩
  rw [← hmf] at hparse
  have hmseq : mf.seq = b.seq := by rw [hmf]
  have hment : mf.entries = MdsRead.entriesOf b.conv.subList.length b.conv.macroList.length bank (usedSorted b.conv) := by rw [hmf]
  obtain ⟨hd, hhd⟩ : ∃ hd : MdsResolve.Header, hd = (⟨4 + 4 * b.trackList.length, volByte vol,
      (List.range b.trackList.length).map (fun i => ((b.trackList.map (·.1))[i]?.getD 0 % 256, trackPos b i)), b.conv.subList.length + b.conv.macroList.length + b.conv.usedData.length⟩ : MdsResolve.Header) := ⟨_, rfl⟩
  have hbase : hd.base = 4 + 4 * b.trackList.length := by rw [hhd]
  have hslots : hd.slots = b.conv.subList.length + b.conv.macroList.length + b.conv.usedData.length := by rw [hhd]
  have hheader : MdsResolve.headerOf mf.seq = some hd := by
    rw [hmseq, hhd]
    refine MdsRead.headerOf_of_reads b.seq b.trackList.length (volByte vol) (b.conv.subList.length + b.conv.macroList.length + b.conv.usedData.length) _ (trackPos b) hn (by omega) r0 r2
      (by rw [r3, Nat.mod_eq_of_lt (by omega)]) ?_ htp0 (by omega)
    intro i hi
    obtain ⟨off, stream, q1, q2, _, _, _, q6⟩ := htr i hi
    refine ⟨off, ?_, q2, ?_⟩
    · rw [q1]; simp [List.getElem?_map, List.getElem?_eq_getElem (show i < b.trackList.length by omega)]
    · rw [q6, htpi]; simp [hdrSize]
  have hperm : (usedSorted b.conv).Perm b.conv.usedData := List.mergeSort_perm _ _
  have hnd : (mf.entries.map (·.id)).Nodup := by
    rw [hment, hidmap]; exact C09_ids_injective hpc h
  -- an entry of the parsed list
  have hentry : ∀ e ∈ mf.entries, b.conv.subList.length + b.conv.macroList.length ≤ e.id ∧ e.id < hd.slots := by
    intro e he
    rw [hment] at he
    obtain ⟨p, hp, hpe⟩ := List.mem_filterMap.mp he
    cases hbk : bank[p.1 % (mdsFile_bankMask + 1)]? with
    | none => simp [hbk] at hpe
    | some dat =>
      simp only [hbk, Option.map_some, Option.some.injEq] at hpe
      subst hpe
      have hlt : p.2 < b.conv.usedData.length := val_lt_of_mem hinv.maps.used (hperm.mem_iff.mp hp)
      show b.conv.subList.length + b.conv.macroList.length ≤ entryId b.conv.subList.length b.conv.macroList.length p.1 p.2 % 2147483648 ∧ entryId b.conv.subList.length b.conv.macroList.length p.1 p.2 % 2147483648 < hd.slots
      rw [entryId_mod (by omega), hslots]; omega
  -- data slots
  have hdata : ∀ i, i < b.conv.usedData.length → DataRes b bank mf hd (b.conv.subList.length + b.conv.macroList.length + i) := by
    intro i hi
    obtain ⟨mapped, hkey⟩ := exists_key_of_lt hinv.maps.used (k := i) hi
    obtain ⟨dat, hbk, _⟩ := entryTrees_mem _ _ _ _ _ hts (mapped, i) (hperm.mem_iff.mpr hkey)
    have he : MdsRead.entryOfP b.conv.subList.length b.conv.macroList.length mapped i dat ∈ mf.entries := by
      rw [hment]; exact MdsRead.entriesOf_mem (p := (mapped, i)) (hperm.mem_iff.mpr hkey) hbk
    have hid : (MdsRead.entryOfP b.conv.subList.length b.conv.macroList.length mapped i dat).id = b.conv.subList.length + b.conv.macroList.length + i := entryId_mod (by omega)
    obtain ⟨q1, q2⟩ := MdsRead.resolve_data mf hd _ (by rw [hid, hslots]; omega) he hnd
    rw [hid] at q1 q2
    refine ⟨mapped, dat, by omega, ?_, hbk, ?_, q2, ?_⟩
    · rw [Nat.add_sub_cancel_left]; exact hkey
    · rw [Nat.add_sub_cancel_left]; exact q1
    · rw [hmseq, hbase]; exact hdat _ (by omega) (by omega)
  -- subroutine slots
  have hsubres : ∀ (k : Nat) (hk : k < b.conv.subList.length), ∃ off stream,
      convertTrackChk b.conv.subList.length b.conv.macroList.length b.conv.subList[k] = .ok stream ∧ MdsRead.At b.seq (4 + 4 * b.trackList.length + off) stream ∧
      stream.length < 65536 ∧ MdsResolve.streamPos mf hd k = some (4 + 4 * b.trackList.length + off) ∧
      ∃ rest, MdsResolve.resolve mf hd (.stream k) = some (stream ++ rest) := by
    intro k hk
    obtain ⟨off, stream, q1, q2, q3, q4, q5⟩ := hsub k hk
    have hfrag := hfr b.conv.subList[k] (List.mem_append_right _ (List.getElem_mem _))
    obtain ⟨body, t, hbt, _, ht, _⟩ := hfrag
    have hne : stream ≠ [] := by
      have := (convertTrackChk_fits q2).2
      rw [hbt] at this
      exact MdsRead.convertTrack_ne b.conv.subList.length b.conv.macroList.length body t ht this
    have hsl : stream.length < 65536 := hlen stream (List.mem_append_right _ (List.mem_of_getElem? q5))
    obtain ⟨p1, p2⟩ := MdsRead.resolve_stream mf hd k off stream (by rw [hslots]; omega)
      (fun e he hc => by have := (hentry e he).1; omega) (by rw [hmseq, hbase]; exact q1) (by rw [hmseq, hbase]; exact q3) hne
      (by rw [hbase, hslots]; simp only [hdrSize] at q4; omega)
    rw [hbase] at p1
    exact ⟨off, stream, q2, q3, hsl, p1, p2⟩
  have hall_of : ∀ l ∈ b.trackList.map (·.2) ++ b.conv.subList, ∀ ev ∈ l, AllEv b.conv (b.trackList.map (·.2)) ev := by
    intro l hl ev hev
    rcases List.mem_append.mp hl with hl | hl
    · exact Or.inr (Or.inr ⟨l, hl, hev⟩)
    · exact Or.inl ⟨l, hl, hev⟩
  refine ⟨mf, hd, hparse, hmseq, by rw [hmf], by rw [hmf], hheader, hbase, by rw [hhd], hslots, ?_, ?_, hnd, hentry, ?_, ?_, ?_⟩
  · -- channel ids
    rw [hhd, ← htx.1]
    simp only [List.map_map]
    have := range_getD (b.trackList.map (·.1)) hidlt
    simp only [List.length_map] at this
    exact this
  · rw [hhd]; simp [List.map_map, Function.comp_def]
  · -- channel tracks
    intro i hi
    obtain ⟨off, stream, _, _, q3, q4, q5, q6⟩ := htr i hi
    have hfrag := hfr b.trackList[i].2 (List.mem_append_left _ (List.mem_map.mpr ⟨b.trackList[i], List.getElem_mem _, rfl⟩))
    have hsl : stream.length < 65536 := hlen stream (List.mem_append_left _ (List.mem_of_getElem? q5))
    have hpos : trackPos b i = 4 + 4 * b.trackList.length + off := by rw [q6, htpi]; simp [hdrSize]
    have hle : stream.length ≤ b.seq.length := by
      obtain ⟨pre, post, hq, _⟩ := q4; rw [hq]; simp; omega
    rw [hpos, hmseq]
    exact ⟨_, (C09_reader_sees_operands_partial b.conv.subList.length b.conv.macroList.length _ hfrag q3 hsl b.seq _ q4 false _ (by omega)).1⟩
  · -- subroutine slots
    intro k hk drum
    obtain ⟨off, stream, q2, q3, hsl, p1, _⟩ := hsubres k hk
    have hfrag := hfr b.conv.subList[k] (List.mem_append_right _ (List.getElem_mem _))
    have hle : stream.length ≤ b.seq.length := by
      obtain ⟨pre, post, hq, _⟩ := q3; rw [hq]; simp; omega
    refine ⟨4 + 4 * b.trackList.length + off, 4 + 4 * b.trackList.length + off + stream.length, p1, ?_⟩
    rw [hmseq]
    exact (C09_reader_sees_operands_partial b.conv.subList.length b.conv.macroList.length _ hfrag q2 hsl b.seq _ q3 drum _ (by omega)).1
  · -- every decoded index operand resolves
    intro l hl drum o ho
    obtain ⟨ev, hev, hcase⟩ := MdsRead.mem_opsOf ho
    have hfit := C09_index_fits_byte hasm l hl ev hev
    have hsc := hinv.scopedEv ev (hall_of l hl ev hev)
    unfold ScopedC Scoped at hsc
    rcases hcase with ⟨rfl, ht⟩ | ⟨rfl, ht⟩ | ⟨rfl, ht⟩ | ⟨rfl, ht⟩ | ⟨rfl, ht⟩ | ⟨_, rfl⟩ | ⟨_, _, _, rfl | rfl⟩
    · -- PAT
      rw [hfit.1 ht]
      have hk := hsc.1 ht
      obtain ⟨key, hkey⟩ := exists_key_of_lt hinv.maps.sub (by rw [hinv.maps.subLen]; exact hk)
      obtain ⟨evs, he, hnm⟩ := hinv.namedS _ hkey (by simp [Pend.hs])
      obtain ⟨off, stream, q2, _, _, _, rest, p2⟩ := hsubres ev.arg hk
      have : evs = b.conv.subList[ev.arg] := by
        rw [List.getElem?_eq_getElem hk] at he; exact (Option.some.inj he).symm
      subst this
      exact ⟨key, _, stream, rest, hkey, he, hnm, q2, p2⟩
    · -- INS
      rw [hfit.2.1 (.inl ht)]
      exact hdata ev.arg (hsc.2.1 (.inl ht))
    · -- PCM
      rw [hfit.2.1 (.inr ht)]
      exact hdata ev.arg (hsc.2.1 (.inr ht))
    · -- PEG
      by_cases ha : ev.arg = 0
      · simp only [ha, ne_eq, not_true_eq_false, if_false]; exact .inl rfl
      · simp only [ha, ne_eq, not_false_eq_true, if_true]
        rw [hfit.2.2.1 ht ha]
        right
        have hk := hsc.2.2.1 ht
        have := hdata (ev.arg - 1) (by omega)
        rw [show b.conv.subList.length + b.conv.macroList.length + (ev.arg - 1) = b.conv.subList.length + b.conv.macroList.length + ev.arg - 1 by omega] at this
        exact this
    · -- MTAB
      by_cases ha : ev.arg = 0
      · simp only [ha, ne_eq, not_true_eq_false, if_false]; exact .inl rfl
      · simp only [ha, ne_eq, not_false_eq_true, if_true]
        rw [hfit.2.2.2 ht ha]
        right
        have hk := hsc.2.2.2 ht
        have hk' : ev.arg - 1 < b.conv.macroList.length := by omega
        obtain ⟨key, hkey⟩ := exists_key_of_lt hinv.maps.mac (by rw [hinv.maps.macLen]; exact hk')
        obtain ⟨evs, he, hnm⟩ := hinv.namedM _ hkey (by simp [Pend.hm])
        obtain ⟨off, stream, q1, q2, q3, q4⟩ := hmac (ev.arg - 1) hk'
        have : evs = b.conv.macroList[ev.arg - 1] := by
          rw [List.getElem?_eq_getElem hk'] at he; exact (Option.some.inj he).symm
        subst this
        have e1 : ev.arg + b.conv.subList.length - 1 - b.conv.subList.length = ev.arg - 1 := by omega
        have e2 : ev.arg + b.conv.subList.length - 1 = b.conv.subList.length + (ev.arg - 1) := by omega
        refine ⟨key, _, stream, by rw [e1]; exact hkey, by rw [e1]; exact he, hnm, q2, fun hne => ?_⟩
        rw [e2]
        exact (MdsRead.resolve_stream mf hd (b.conv.subList.length + (ev.arg - 1)) off stream (by rw [hslots]; omega)
          (fun e he hc => by have := (hentry e he).1; omega) (by rw [hmseq, hbase]; exact q1) (by rw [hmseq, hbase]; exact q3) hne
          (by rw [hbase, hslots]; simp only [hdrSize] at q4; omega)).2
    · trivial
    · trivial
    · trivial


/-- the decidable residual hypotheses of `C09_full_partial` (`Spec/MdsFrag.fullPartialHyps`, evaluated on every
accepted generated song by the C09 judge, `Driver/MdsFile`) are those of the theorem -/
theorem fullPartialHyps_sound {song : Song} {b : Built} (h : fullPartialHyps song b = true) :
    (song.tracks.map (·.1)).Pairwise (· < ·) ∧ 0 < b.trackList.length ∧
    (∀ l ∈ b.trackList.map (·.2) ++ b.conv.subList, MdsRead.Frag l) ∧ (∀ s ∈ b.trackStreams ++ b.subStreams, s.length < 65536) := by
  simp only [fullPartialHyps, Bool.and_eq_true, decide_eq_true_eq, List.all_eq_true] at h
  obtain ⟨⟨⟨h1, h2⟩, h4⟩, h5⟩ := h
  exact ⟨h1, h2, fun l hl => MdsRead.fragB_sound (h4 l hl), h5⟩

/-- the decidable residual hypotheses hold of a concrete assembled export with a subroutine, a
data item and a channel track (the `construct` hypothesis itself cannot be evaluated by the kernel —
see the note at the end of the file — and is met by every accepted generated song of the
correspondence runs, on each of which the judge also evaluates `fullPartialHyps`) -/
example : ((assemble { subList := [[⟨mds_FINISH, 0⟩]], subMap := [(400, 0)], usedData := [(1, 0)] }
      [(0, [⟨mds_PAT, 0⟩, ⟨mds_INS, 0⟩, ⟨mds_NOTE + 36, 24⟩, ⟨mds_FINISH, 0⟩])] (some "5")).toOption.map
        (fullPartialHyps { tracks := [(0, []), (400, [])] })) = some true := by decide

theorem drumArg_nat {k : Nat} (h : k < 32768) : drumArg (k : Int) = k := by
  unfold drumArg wrap16; split <;> omega

/-- `nothing_unused`, at the level of what the reader decodes.  Every subroutine, macro-track and
data slot of an export is an operand in `opsOf` of a channel-track or subroutine event list —
which, for lists in the fragment, is what `decodeStream` reads from the bytes
(`C09_full_partial`) — EXCEPT slots that the witnessing song reference can reach only through
an event that emits no operand byte:
 (E1) an index-bearing event of a MACRO-TRACK list (`convert_macro_track` drops INS / PCM / PEG /
      PAT / MTAB and notes' opcodes: the entry is registered and emitted, no byte names it);
 (E2) a drum-mode note of length 0 (`convert_track` emits nothing for it);
 (E3) a drum-mode note inside a drum routine: the routine index is the operand of `DMFINISH`,
      which the driver reads as a note number.
The entries of the exceptions are named by the song (`C09_nothing_unused`: every entry is the
target of an event the writer made of a song event) but unreachable from the sequence bytes. -/
theorem C09_nothing_unused_bytes {song : Song} {d : DataInfo} (hpc : PlatformClean d) {vol : Option String} {b : Built}
    (h : construct song d vol = .ok b) :
    (∀ k, k < b.conv.subList.length →
      (∃ l ∈ b.trackList.map (·.2) ++ b.conv.subList, ∀ drum : Bool,
        MdsResolve.Op.pat k ∈ MdsRead.opsOf b.conv.subList.length b.conv.macroList.length l drum) ∨
      (∃ l ∈ b.trackList.map (·.2) ++ b.conv.subList, ∀ drum : Bool,
        MdsResolve.Op.drumNote k ∈ MdsRead.opsOf b.conv.subList.length b.conv.macroList.length l drum ∨
        MdsResolve.Op.note k ∈ MdsRead.opsOf b.conv.subList.length b.conv.macroList.length l drum) ∨
      (∃ l ∈ b.conv.macroList, ∃ ev ∈ l, (ev.type = mds_PAT ∧ ev.arg = k) ∨ DrumRef ev k) ∨
      (∃ l ∈ b.trackList.map (·.2) ++ b.conv.subList, ∃ ev ∈ l, ev.type = mds_NOTE + k ∧ ev.arg = 0) ∨
      (∃ l ∈ b.trackList.map (·.2) ++ b.conv.subList, ∃ ev ∈ l, ev.type = mds_DMFINISH ∧ ev.arg = k)) ∧
    (∀ k, k < b.conv.macroList.length →
      (∃ l ∈ b.trackList.map (·.2) ++ b.conv.subList, ∀ drum : Bool,
        MdsResolve.Op.mtab (k + 1 + b.conv.subList.length) ∈ MdsRead.opsOf b.conv.subList.length b.conv.macroList.length l drum) ∨
      (∃ l ∈ b.conv.macroList, ∃ ev ∈ l, ev.type = mds_MTAB ∧ ev.arg = k + 1)) ∧
    (∀ i, i < b.conv.usedData.length →
      (∃ l ∈ b.trackList.map (·.2) ++ b.conv.subList, ∀ drum : Bool,
        MdsResolve.Op.ins (b.conv.subList.length + b.conv.macroList.length + i) ∈ MdsRead.opsOf b.conv.subList.length b.conv.macroList.length l drum ∨
        MdsResolve.Op.pcm (b.conv.subList.length + b.conv.macroList.length + i) ∈ MdsRead.opsOf b.conv.subList.length b.conv.macroList.length l drum ∨
        MdsResolve.Op.peg (b.conv.subList.length + b.conv.macroList.length + i + 1) ∈ MdsRead.opsOf b.conv.subList.length b.conv.macroList.length l drum) ∨
      (∃ l ∈ b.conv.macroList, ∃ ev ∈ l, ((ev.type = mds_INS ∨ ev.type = mds_PCM) ∧ ev.arg = i) ∨ (ev.type = mds_PEG ∧ ev.arg = i + 1))) := by
  obtain ⟨_, _, hasm⟩ := construct_inv hpc h
  obtain ⟨_, _, _, _, _, _, hsz, _⟩ := assemble_ok hasm
  unfold hdrSize at hsz
  obtain ⟨hS, hM, hD⟩ := C09_nothing_unused hpc h
  -- where the witnessing event lies
  have hwhere : ∀ ev, AllEv b.conv (b.trackList.map (·.2)) ev →
      (∃ l ∈ b.trackList.map (·.2) ++ b.conv.subList, ev ∈ l) ∨ (∃ l ∈ b.conv.macroList, ev ∈ l) := by
    rintro ev (⟨l, hl, he⟩ | ⟨l, hl, he⟩ | ⟨l, hl, he⟩)
    · exact .inl ⟨l, List.mem_append_right _ hl, he⟩
    · exact .inr ⟨l, hl, he⟩
    · exact .inl ⟨l, List.mem_append_left _ hl, he⟩
  refine ⟨fun k hk => ?_, fun k hk => ?_, fun i hi => ?_⟩
  · obtain ⟨key, ev, _, hall, hr⟩ := hS k hk
    have hda : drumArg (k : Int) = k := drumArg_nat (by omega)
    rcases hwhere ev hall with ⟨l, hl, he⟩ | ⟨l, hl, he⟩
    · have hfit := C09_index_fits_byte hasm l hl ev he
      rcases hr with ⟨_, ht, ha⟩ | ⟨_, hdr⟩
      · left
        refine ⟨l, hl, fun drum => ?_⟩
        have := (MdsRead.opsOf_records (nS := b.conv.subList.length) (nM := b.conv.macroList.length) he drum).1 ht
        rw [hfit.1 ht, ha] at this; exact this
      · rcases hdr with ⟨hty, hlt⟩ | ⟨hty, ha⟩
        · rw [hda] at hty hlt
          have hty' : ev.type = mds_NOTE + k := by simpa using hty
          by_cases ha0 : ev.arg = 0
          · exact .inr (.inr (.inr (.inl ⟨l, hl, ev, he, hty', ha0⟩)))
          · right; left
            refine ⟨l, hl, fun drum => ?_⟩
            have h1 : mds_NOTE ≤ ev.type := by rw [hty']; omega
            have h2 : ev.type < mds_SLR := by rw [hty']; simp only [mds_NOTE, mds_SLR]; omega
            have := MdsRead.opsOf_records_note (nS := b.conv.subList.length) (nM := b.conv.macroList.length) he h1 h2 ha0 drum
            rw [hty', Nat.add_sub_cancel_left] at this; exact this
        · refine .inr (.inr (.inr (.inr ⟨l, hl, ev, he, hty, ?_⟩)))
          rw [ha, hda, u16_nat]; omega
    · refine .inr (.inr (.inl ⟨l, hl, ev, he, ?_⟩))
      rcases hr with ⟨_, ht, ha⟩ | ⟨_, hdr⟩
      · exact .inl ⟨ht, ha⟩
      · exact .inr hdr
  · obtain ⟨ev, hall, ht, ha⟩ := hM k hk
    rcases hwhere ev hall with ⟨l, hl, he⟩ | ⟨l, hl, he⟩
    · left
      refine ⟨l, hl, fun drum => ?_⟩
      have hfit := C09_index_fits_byte hasm l hl ev he
      have := (MdsRead.opsOf_records (nS := b.conv.subList.length) (nM := b.conv.macroList.length) he drum).2.2.2.2 ht
      have hne : ev.arg ≠ 0 := by omega
      simp only [hne, ne_eq, not_false_eq_true, if_true] at this
      rw [hfit.2.2.2 ht hne, ha] at this; exact this
    · exact .inr ⟨l, hl, ev, he, ht, ha⟩
  · obtain ⟨ev, hall, hr⟩ := hD i hi
    rcases hwhere ev hall with ⟨l, hl, he⟩ | ⟨l, hl, he⟩
    · left
      refine ⟨l, hl, fun drum => ?_⟩
      have hfit := C09_index_fits_byte hasm l hl ev he
      have hrec := MdsRead.opsOf_records (nS := b.conv.subList.length) (nM := b.conv.macroList.length) he drum
      rcases hr with ⟨ht | ht, ha⟩ | ⟨ht, ha⟩
      · left
        have := hrec.2.1 ht
        rw [hfit.2.1 (.inl ht), ha] at this; exact this
      · right; left
        have := hrec.2.2.1 ht
        rw [hfit.2.1 (.inr ht), ha] at this; exact this
      · right; right
        have := hrec.2.2.2.1 ht
        have hne : ev.arg ≠ 0 := by omega
        simp only [hne, ne_eq, not_false_eq_true, if_true] at this
        rw [hfit.2.2.1 ht hne, ha] at this; exact this
    · exact .inr ⟨l, hl, ev, he, hr⟩


/-! ### round 4: the fragment hypothesis discharged, the 4 GiB bound from input sizes -/

/-- **`writer_run_in_frag`**: whatever `while(writer.is_enabled()) writer.step_event()` returns, for ANY
conversion state, budget and track, started from a fresh player and a fresh writer (the only way
`parse_track`, `get_subroutine` and `get_macro_track` start it), is in the reader fragment
`MdsRead.Frag`: every event has a defined encoding (`okEv`), the last event is the only terminator
(`FINISH` / `JUMP` from `end_hook`, `DMFINISH` of a drum routine), loops are balanced.  Balance is
the player's loop discipline (`Proofs/MdsFragStack.coreStep_depth`: the writer's `LP`/`LPF` follow
the first-pass loop frames of the stack; at `end_hook` the stack is empty; the `DMFINISH` case is
D25's repair: the hook is not silenced and the stack top is no loop, so the stack is empty).
Side condition on platform commands: `platformFrag` (the injected raw events are `okEv`, no
terminators, no loop brackets) — nothing else is assumed, in particular not that the song validates. -/
theorem C09_writer_run_in_frag {song : Song} {d : DataInfo} (hpf : platformFrag d = true) (evs : List Event)
    (fuel steps : Nat) (c c' : Conv) (en inDrum : Bool) (t : Int) (w : WState)
    (h : runWriter song d evs fuel steps c { drumEnabled := en, inDrum := inDrum, trackId := t } Player.initState = .ok (c', w)) :
    MdsRead.Frag w.out :=
  MdsFragP.runWriter_frag hpf evs steps fuel c _ Player.initState c' w (MdsFragP.rinv_init song evs en inDrum t) h

/-- **`writer_outputs_in_frag`**: every channel-track list and every subroutine list of an export is
in the reader fragment (the former hypothesis `hfr` of `C09_full_partial`). -/
theorem C09_writer_outputs_in_frag {song : Song} {d : DataInfo} (hpc : PlatformClean d) (hpf : platformFrag d = true)
    {vol : Option String} {b : Built} (h : construct song d vol = .ok b) :
    ∀ l ∈ b.trackList.map (·.2) ++ b.conv.subList, MdsRead.Frag l :=
  MdsFragP.construct_frag hpc hpf h

/-- **`hsmall` from the input sizes**: an export whose `#group` value, `seq `, PCM block and used
data-bank items add up to less than 4 GiB − 64 (`exportSmall`, decidable) serialises to a `small`
chunk tree (every data vector below 4 GiB). -/
theorem C09_small_of_sizes {b : Built} {bank : List (List Nat)} {group pcm : Bytes}
    (h : exportSmall b bank group pcm = true) :
    ∀ ts, entryTrees b.conv.subList.length b.conv.macroList.length bank (usedSorted b.conv) = some ts →
      (mdsTree (toU8 b.seq) group pcm ts).small :=
  small_of_exportSmall h

/-- in particular: data bank items and PCM block below 2 GiB in total, `seq ` and `#group` below
1 GiB each (64 bytes of slack) -/
theorem C09_small_of_2GiB {b : Built} {bank : List (List Nat)} {group pcm : Bytes}
    (h1 : usedBytes bank (usedSorted b.conv) + pcm.length < 2147483648) (h2 : b.seq.length < 1073741824)
    (h3 : group.length < 1073741760) : exportSmall b bank group pcm = true := by
  unfold exportSmall sizeBound
  simp only [decide_eq_true_eq]; omega

/-- **`full` (partial, round 4)**: `C09_full_partial` without the fragment hypothesis and with the
4 GiB bound replaced by the decidable size bound on the inputs.  Residual hypotheses:
`PlatformClean` and `platformFrag` (both about raw platform `cmd`s only; both hold when the song
has no platform command), streams shorter than 64 KiB, sorted track map (a `std::map`), at least
one channel track, `exportSmall`. -/
theorem C09_full_partial2 {song : Song} {d : DataInfo} (hpc : PlatformClean d) (hpf : platformFrag d = true)
    {vol : Option String} {b : Built}
    (h : construct song d vol = .ok b) {bank : List (List Nat)} {group pcm f : Bytes} (hg : getMds b bank group pcm = .ok f)
    (hs : (song.tracks.map (·.1)).Pairwise (· < ·)) (hn : 0 < b.trackList.length)
    (hsize : exportSmall b bank group pcm = true)
    (hlen : ∀ s ∈ b.trackStreams ++ b.subStreams, s.length < 65536) :
    ∃ mf hd, MdsResolve.parseFile f = .ok mf ∧ mf.seq = b.seq ∧ mf.group = MdsResolve.nat group ∧
      mf.version = [MDSDRV_SEQ_VERSION_MAJOR, MDSDRV_SEQ_VERSION_MINOR] ∧
      MdsResolve.headerOf mf.seq = some hd ∧ hd.base = 4 + 4 * b.trackList.length ∧ hd.volume = volByte vol ∧
      hd.slots = b.conv.subList.length + b.conv.macroList.length + b.conv.usedData.length ∧
      hd.tracks.map (·.1) = channelIds song ∧ hd.tracks.map (·.2) = (List.range b.trackList.length).map (trackPos b) ∧
      (mf.entries.map (·.id)).Nodup ∧
      (∀ e ∈ mf.entries, b.conv.subList.length + b.conv.macroList.length ≤ e.id ∧ e.id < hd.slots) ∧
      (∀ (i : Nat) (hi : i < b.trackList.length), ∃ stop,
        MdsResolve.decodeStream mf.seq (mf.seq.length + 1) (trackPos b i) false [] =
          some (MdsRead.opsOf b.conv.subList.length b.conv.macroList.length b.trackList[i].2 false, stop)) ∧
      (∀ (k : Nat) (hk : k < b.conv.subList.length) (drum : Bool), ∃ p stop, MdsResolve.streamPos mf hd k = some p ∧
        MdsResolve.decodeStream mf.seq (mf.seq.length + 1) p drum [] =
          some (MdsRead.opsOf b.conv.subList.length b.conv.macroList.length b.conv.subList[k] drum, stop)) ∧
      (∀ l ∈ b.trackList.map (·.2) ++ b.conv.subList, ∀ (drum : Bool),
        ∀ o ∈ MdsRead.opsOf b.conv.subList.length b.conv.macroList.length l drum, Resolves song d b bank mf hd o) :=
  C09_full_partial hpc h hg hs hn (C09_small_of_sizes hsize) (C09_writer_outputs_in_frag hpc hpf h) hlen

/-- the decidable residual hypotheses of `C09_full_partial2` (`Spec/MdsFrag.fullHyps`, evaluated by the judge) -/
theorem fullHyps_sound {song : Song} {d : DataInfo} {b : Built} (h : fullHyps song d b = true) :
    (song.tracks.map (·.1)).Pairwise (· < ·) ∧ 0 < b.trackList.length ∧ platformFrag d = true ∧
    (∀ s ∈ b.trackStreams ++ b.subStreams, s.length < 65536) := by
  simp only [fullHyps, Bool.and_eq_true, decide_eq_true_eq, List.all_eq_true] at h
  obtain ⟨⟨⟨h1, h2⟩, h4⟩, h5⟩ := h
  exact ⟨h1, h2, h4, h5⟩

/-! #### non-vacuity of round 4: a song WITH a channel track goes through `construct`
The writer is a mutual well-founded recursion the kernel does not unfold; the instance is proved by
rewriting with the equation lemmas one loop iteration at a time, every non-recursive piece
(`stepTrace`, the hook's `switch`, `end_hook`, `assemble`) evaluated by `rfl`. -/
section Ex4
open Ctrmml.Player

def ex4Song : Song := { tracks := [(0, [⟨ev_NOTE, 40, 2, 2⟩])] }
def ex4Root : List Event := [⟨ev_NOTE, 40, 2, 2⟩]
def ex4S1 : PState := { core := { track := .root, position := 1, stack := [] }, acc := { onTime := 2, offTime := 2 } }
def ex4S2 : PState := { core := { track := .root, position := 2, stack := [] }, acc := { playTime := 4, enabled := false } }
def ex4It : TraceItem := { ev := ⟨ev_NOTE, 40, 2, 2⟩, on := 2, off := 2, insideLoop := false, insideJump := false, topLoop := false }
def ex4W0 : WState := { drumEnabled := false, inDrum := false, trackId := 0 }
def ex4W1 : WState := { ex4W0 with out := [⟨mds_NOTE + 40, 2⟩], restTime := 2 }
def ex4W2 : WState := { ex4W0 with out := [⟨mds_NOTE + 40, 2⟩, ⟨mds_REST, 2⟩, ⟨mds_FINISH, 0⟩], restTime := 0 }

theorem ex4_step1 : stepTrace ex4Song ex4Root false initState = .ok (ex4S1, some (some ex4It)) := rfl
theorem ex4_hook (n : Nat) : hook ex4Song {} (n + 1) {} ex4W0 ex4It = .ok ({}, ex4W1) := by
  rw [hook_succ_eq]; rfl
theorem ex4_step2 : stepTrace ex4Song ex4Root false ex4S1 = .ok (ex4S2, some none) := rfl

theorem ex4_run : runWriter ex4Song {} ex4Root 64 20000000 {} ex4W0 initState = .ok ({}, ex4W2) := by
  rw [runWriter]
  simp only [ex4_step1, ex4_hook]
  rw [if_neg (by decide), runWriter]
  simp only [ex4_step2]
  rw [if_neg (by decide)]
  rfl

theorem ex4_parse : parseTracks ex4Song {} (channelIds ex4Song) {} [] = .ok ({}, [(0, ex4W2.out)]) := by
  show parseTracks ex4Song {} [0] {} [] = _
  rw [parseTracks]
  simp only [show ex4Song.track? 0 = some ex4Root from rfl]
  rw [show ((0 : Nat) : Int) = 0 from rfl, show ({ drumEnabled := false, inDrum := false, trackId := 0 } : WState) = ex4W0 from rfl, ex4_run]
  rfl

/-- `note 40` on channel A: the constructor runs the writer and assembles its one list `[note, rest, FINISH]` -/
theorem ex4_construct : construct ex4Song {} (some "7") = assemble {} [(0, ex4W2.out)] (some "7") := by
  unfold construct
  rw [ex4_parse]

/-- the decidable hypotheses on that export (and its `seq `) -/
theorem ex4_hyps : (assemble {} [(0, ex4W2.out)] (some "7")).toOption.map
    (fun b => (fullHyps ex4Song {} b, b.seq)) = some (true, [0, 8, 7, 1, 0, 0, 0, 0, 170, 1, 1, 255]) := by decide

/-- all hypotheses of `C09_full_partial2` hold of this song (empty bank, no PCM, no `#group`);
and the conclusion of `C09_writer_outputs_in_frag` is about a non-empty list -/
example : PlatformClean {} ∧ platformFrag {} = true ∧ ∃ b, construct ex4Song {} (some "7") = .ok b ∧
    (ex4Song.tracks.map (·.1)).Pairwise (· < ·) ∧ 0 < b.trackList.length ∧
    exportSmall b [] [] [] = true ∧ (∀ s ∈ b.trackStreams ++ b.subStreams, s.length < 65536) ∧
    (∀ l ∈ b.trackList.map (·.2) ++ b.conv.subList, MdsRead.Frag l) ∧ ex4W2.out ∈ b.trackList.map (·.2) := by
  have hpc : PlatformClean {} := by intro k evs h; simp at h
  refine ⟨hpc, rfl, ?_⟩
  have hh := ex4_hyps
  cases hb : assemble {} [(0, ex4W2.out)] (some "7") with
  | error e => rw [hb] at hh; simp [Except.toOption] at hh
  | ok b =>
    rw [hb] at hh
    simp only [Except.toOption, Option.map_some, Option.some.injEq, Prod.mk.injEq] at hh
    obtain ⟨h1, hseq⟩ := hh
    obtain ⟨q1, q2, q3, q4⟩ := fullHyps_sound h1
    have hc : construct ex4Song {} (some "7") = .ok b := by rw [ex4_construct, hb]
    obtain ⟨_, _, _, _, _, _, _, hcv, ht, _⟩ := assemble_ok hb
    have h2 : exportSmall b [] [] [] = true := by
      apply C09_small_of_2GiB
      · rw [hcv]; simp [usedSorted, usedBytes]
      · rw [hseq]; decide
      · decide
    exact ⟨b, hc, q1, q2, h2, q4, C09_writer_outputs_in_frag hpc rfl hc, by rw [ht]; simp⟩

end Ex4

/-! #### non-vacuity with a loop and a subroutine: `A [c]2 *100`, `*100 d`
(`Proofs/MdsFragEx`: one `runWriter` iteration per rewrite; the player's states are unified by `rfl`) -/
section Ex5
open Ctrmml.Player Ctrmml.MdsFragP

def ex5Root : List Event := [⟨ev_LOOP_START, 0, 0, 0⟩, ⟨ev_NOTE, 40, 2, 2⟩, ⟨ev_LOOP_END, 2, 0, 0⟩, ⟨ev_JUMP, 100, 0, 0⟩]
def ex5Sub : List Event := [⟨ev_NOTE, 42, 3, 1⟩]
def ex5Song : Song := { tracks := [(0, ex5Root), (100, ex5Sub)] }
def ex5W0 : WState := { drumEnabled := false, inDrum := false, trackId := 0 }

theorem ex5_sub (c : Conv) : runWriter ex5Song {} ex5Sub 61 20000000 c { drumEnabled := false, inDrum := false, trackId := 100 } initState =
    .ok (c, { drumEnabled := false, inDrum := false, trackId := 100, out := [⟨mds_NOTE + 42, 3⟩, ⟨mds_REST, 1⟩, ⟨mds_FINISH, 0⟩] }) := by
  rw [run_hook_step rfl rfl rfl ((hook_vis rfl rfl).trans rfl)]
  rw [run_end_step rfl rfl rfl]
  rfl

def ex5Conv : Conv := { subMap := [(400, 0)], subList := [[⟨mds_NOTE + 42, 3⟩, ⟨mds_REST, 1⟩, ⟨mds_FINISH, 0⟩]] }
def ex5W : WState := { ex5W0 with out := [⟨mds_LP, 0⟩, ⟨mds_NOTE + 40, 2⟩, ⟨mds_REST, 2⟩, ⟨mds_LPF, 2⟩, ⟨mds_PAT, 0⟩, ⟨mds_FINISH, 0⟩] }

/-- `A [c]2 *100` with `*100 d`: the writer's run on channel A, one loop iteration of `runWriter` at a time -/
theorem ex5_run : runWriter ex5Song {} ex5Root 64 20000000 {} ex5W0 initState = .ok (ex5Conv, ex5W) := by
  rw [run_hook_step rfl rfl rfl ((hook_vis rfl rfl).trans rfl)]   -- LOOP_START
  rw [run_hook_step rfl rfl rfl ((hook_vis rfl rfl).trans rfl)]   -- NOTE, first pass
  rw [run_hook_step rfl rfl rfl (hook_silent rfl (by decide))]     -- LOOP_END: back for the second pass
  rw [run_hook_step rfl rfl rfl (hook_silent rfl (by decide))]     -- NOTE, second pass: silenced
  rw [run_hook_step rfl rfl rfl ((hook_vis rfl rfl).trans rfl)]   -- LOOP_END, last pass
  rw [run_hook_step rfl rfl rfl ((hook_vis rfl rfl).trans (hookVis_jump rfl (getSub_new rfl rfl (ex5_sub _))))]  -- JUMP
  rw [run_hook_step rfl rfl rfl (hook_silent rfl (by decide))]     -- NOTE of the subroutine: inside a jump
  rw [run_none_step rfl rfl rfl]                                   -- END of the subroutine: return
  rw [run_end_step rfl rfl rfl]
  rfl

theorem ex5_construct : construct ex5Song {} none = assemble ex5Conv [(0, ex5W.out)] none := by
  unfold construct
  have hp : parseTracks ex5Song {} (channelIds ex5Song) {} [] = .ok (ex5Conv, [(0, ex5W.out)]) := by
    show parseTracks ex5Song {} [0] {} [] = _
    rw [parseTracks]
    simp only [show ex5Song.track? 0 = some ex5Root from rfl]
    rw [show ((0 : Nat) : Int) = 0 from rfl, show ({ drumEnabled := false, inDrum := false, trackId := 0 } : WState) = ex5W0 from rfl, ex5_run]
    rfl
  rw [hp]

theorem ex5_hyps : (assemble ex5Conv [(0, ex5W.out)] none).toOption.map (fun b => (fullHyps ex5Song {} b, b.seq)) =
    some (true, [0, 8, 0, 1, 0, 0, 0, 2, 0, 11, 250, 170, 1, 1, 251, 2, 254, 0, 255, 172, 2, 0, 255]) := by decide


/-- all hypotheses of `C09_full_partial2` hold of this song; the conclusion of
`C09_writer_outputs_in_frag` covers a channel list with a loop and a call, and a subroutine list -/
example : PlatformClean {} ∧ platformFrag {} = true ∧ ∃ b, construct ex5Song {} none = .ok b ∧
    (ex5Song.tracks.map (·.1)).Pairwise (· < ·) ∧ 0 < b.trackList.length ∧
    exportSmall b [] [] [] = true ∧ (∀ s ∈ b.trackStreams ++ b.subStreams, s.length < 65536) ∧
    (∀ l ∈ b.trackList.map (·.2) ++ b.conv.subList, MdsRead.Frag l) ∧
    b.trackList.map (·.2) ++ b.conv.subList = [ex5W.out, [⟨mds_NOTE + 42, 3⟩, ⟨mds_REST, 1⟩, ⟨mds_FINISH, 0⟩]] := by
  have hpc : PlatformClean {} := by intro k evs h; simp at h
  refine ⟨hpc, rfl, ?_⟩
  have hh := ex5_hyps
  cases hb : assemble ex5Conv [(0, ex5W.out)] none with
  | error e => rw [hb] at hh; simp [Except.toOption] at hh
  | ok b =>
    rw [hb] at hh
    simp only [Except.toOption, Option.map_some, Option.some.injEq, Prod.mk.injEq] at hh
    obtain ⟨h1, hseq⟩ := hh
    obtain ⟨q1, q2, q3, q4⟩ := fullHyps_sound h1
    have hc : construct ex5Song {} none = .ok b := by rw [ex5_construct, hb]
    obtain ⟨_, _, _, _, _, _, _, hcv, ht, _⟩ := assemble_ok hb
    have h2 : exportSmall b [] [] [] = true := by
      apply C09_small_of_2GiB
      · rw [hcv]; simp [usedSorted, usedBytes, ex5Conv]
      · rw [hseq]; decide
      · decide
    exact ⟨b, hc, q1, q2, h2, q4, C09_writer_outputs_in_frag hpc rfl hc, by rw [ht, hcv]; rfl⟩

end Ex5

/-! ### non-vacuity: a conversion state with one subroutine, one data item and one channel track
assembles, and the container is produced -/
def exConv : Conv := { subList := [[⟨mds_FINISH, 0⟩]], subMap := [(400, 0)], usedData := [(1, 0)] }
def exTl : List (Nat × List MEv) := [(0, [⟨mds_PAT, 0⟩, ⟨mds_INS, 0⟩, ⟨mds_NOTE + 36, 24⟩, ⟨mds_FINISH, 0⟩])]

example : ((assemble exConv exTl (some "5")).toOption.map (·.seq)) =
    some [0, 8, 5, 1, 0, 0, 0, 4, 0, 11, 0, 0, 254, 0, 225, 1, 166, 23, 255, 255] := by decide

example : ∃ f, getMds ⟨{}, [], [], [], [], [0, 4, 0, 0]⟩ [] [] [] = .ok f := by
  simp [getMds, usedSorted, addEntries, liftRiff, Riff.addChunk, Riff.mk3, Riff.mk2, Riff.isList, Riff.TYPE_RIFF,
    Riff.TYPE_LIST, bind, Except.bind, pure, Except.pure]

/-- the hypotheses of the `construct`-level theorems are satisfiable (a song whose only track is
not a channel: the kernel does not unfold the mutually recursive writer, so songs with channel
tracks are exercised by the correspondence runs — every accepted generated song is an instance) -/
example : PlatformClean {} ∧ ∃ b, construct { tracks := [(100, [⟨ev_NOTE, 40, 2, 2⟩])] } {} (some "7") = .ok b :=
  ⟨by intro k evs h; simp at h, _, rfl⟩

example : ∃ ids : List Nat, ids.Pairwise (· < ·) ∧ ids = [0, 6, 100] := ⟨_, by decide, rfl⟩

/-- The full statement, phrased with the reader-side check on the bytes of the file (decided per
case by `Spec/MdsResolve.checkFile` on the REAL file).  What is proved instead: the same facts on
the converter's event lists and the exported `seq ` / `dblk` (`C09_index_resolves`,
`C09_data_resolves`, `C09_nothing_unused`, `C09_ids_injective`, `C09_track_table_exact`,
`C09_slot_count`); not proved: that `checkFile`'s byte-level decoder (`decodeStream`, `namedOf`)
reads exactly these operands back out of the `convertTrackChk` bytes (the codec's instruction
boundaries, C03), and the drum-note / zero-length-note accounting of `namedOf`. -/
def C09_full_statement : Prop :=
  ∀ (inp : Input) (o : Output), exportMds MdsData.Arith.float inp = .ok o →
    ∀ d, readSong MdsData.Arith.float inp.files inp.tags = .ok d →
      MdsResolve.checkFile o.file inp.song
        { ins := d.st.tyMap.filterMap fun (id, ty) =>
            match MdsData.mget d.st.envMap id with
            | some idx => (d.st.bank[idx.toNat]?).map fun b => (keyOfId id, decide (ty = (mdsdrv_INS_PCM : Int)), b)
            | none => none,
          pitch := d.st.pitchMap.filterMap fun (id, idx) =>
            (d.st.bank[idx.toNat]?).map fun b => (keyOfId id, d.st.pitchExt.contains id, b) }
        none (inp.group.toUTF8.toList.map (·.toNat)) = .ok ()

end Ctrmml.MdsFile
