/-
  C09 — The MDS container is complete and internally consistent.

  Theorems over `Model/MdsFile` (constructor assembly + get_mds on top of the writer of
  `Model/MdsConv`), read back with the reader-side definitions of `Spec/SeqInterp`
  (`Seq.rd`, `Seq.rd16`: header fields and pointer slots) and `Spec/RiffTree` (`walkTop`).
-/
import Ctrmml.Proofs.MdsFile
import Ctrmml.Properties.C13
namespace Ctrmml.MdsFile
open Ctrmml Ctrmml.Mds Tables

/-- `volume_carried`: header byte 2 is the `#volume` setting — absent or empty: 0; a number
below 2^31: that number, at most 127. -/
theorem C09_volume_carried {c : Conv} {tl : List (Nat × List MEv)} {vol : Option String} {b : Built}
    (h : assemble c tl vol = .ok b) :
    Seq.rd b.seq 2 = some (volByte vol) ∧
    volByte none = 0 ∧
    (∀ s : String, s.isEmpty = false → strtoul0 s < 2147483648 → volByte (some s) = min 127 (strtoul0 s)) := by
  obtain ⟨ts, ss, ms, _, _, _, hsz, _, _, _, _, _, hseq⟩ := assemble_ok h
  refine ⟨?_, rfl, ?_⟩
  · rw [hseq, List.append_assoc, List.append_assoc]
    generalize startsFrom (hdrSize c tl.length) ts = tS
    generalize startsFrom (hdrSize c tl.length + ts.flatten.length) ss = sS
    generalize startsFrom (hdrSize c tl.length + ts.flatten.length + ss.flatten.length) ms = mS
    have := (header_fixed (4 + 4 * tl.length) (volByte vol) (tl.map (·.1)) tS sS mS c.usedData.length
      (ts.flatten ++ (ss.flatten ++ ms.flatten)) (by unfold hdrSize at hsz; omega)).2.1
    rw [this, Nat.mod_eq_of_lt (volByte_lt vol)]
  · intro s hs hv
    unfold volByte
    simp only [hs, Bool.false_eq_true, ↓reduceIte]
    have : strtoul0 s % 4294967296 = strtoul0 s := Nat.mod_eq_of_lt (by omega)
    rw [this]
    split
    · omega
    · split <;> omega

example : volByte (some "5") = 5 ∧ volByte (some "200") = 127 ∧ volByte (some "0x10") = 16 := by decide


/-- `track_table_exact`: the header holds the table position `4 + 4n` and the count; entry `i` is
(channel id, 0, 16-bit offset), and `base + offset` is exactly where the bytes that
`convert_track` made of that channel's events begin. -/
theorem C09_track_table_exact {c : Conv} {tl : List (Nat × List MEv)} {vol : Option String} {b : Built}
    (h : assemble c tl vol = .ok b) (hlen : b.seq.length ≤ 65536) :
    Seq.rd16 b.seq 0 = some (4 + 4 * tl.length) ∧
    Seq.rd b.seq 3 = some (tl.length % 256) ∧
    ∀ (i : Nat) (hi : i < tl.length), ∃ off stream rest,
      Seq.rd b.seq (4 + 4 * i) = some (tl[i].1 % 256) ∧ Seq.rd b.seq (4 + 4 * i + 1) = some 0 ∧
      Seq.rd16 b.seq (4 + 4 * i + 2) = some off ∧
      convertTrackChk c.subList.length c.macroList.length tl[i].2 = .ok stream ∧
      b.seq.drop (4 + 4 * tl.length + off) = stream ++ rest := by
  obtain ⟨ts, ss, ms, hts, hss, hms, hsz, _, _, _, _, _, hseq⟩ := assemble_ok h
  have lts : ts.length = tl.length := by simpa using encodeStreams_length _ _ _ hts
  have lss : ss.length = c.subList.length := encodeStreams_length _ _ _ hss
  have lms : ms.length = c.macroList.length := encodeStreams_length _ _ _ hms
  have hb : 4 + 4 * tl.length < 65536 := by unfold hdrSize at hsz; omega
  obtain ⟨tS, htS⟩ : ∃ x, x = startsFrom (hdrSize c tl.length) ts := ⟨_, rfl⟩
  obtain ⟨sS, hsS⟩ : ∃ x, x = startsFrom (hdrSize c tl.length + ts.flatten.length) ss := ⟨_, rfl⟩
  obtain ⟨mS, hmS⟩ : ∃ x, x = startsFrom (hdrSize c tl.length + ts.flatten.length + ss.flatten.length) ms := ⟨_, rfl⟩
  rw [← htS, ← hsS, ← hmS] at hseq
  have ltS : tS.length = (tl.map (·.1)).length := by rw [htS, startsFrom_length]; simpa using lts
  have lsS : sS.length = c.subList.length := by rw [hsS, startsFrom_length, lss]
  have lmS : mS.length = c.macroList.length := by rw [hmS, startsFrom_length, lms]
  have hH : (headerOf (4 + 4 * tl.length) (volByte vol) (tl.map (·.1)) tS sS mS c.usedData.length).length
      = hdrSize c tl.length := by
    rw [headerOf_length _ _ _ _ _ _ _ ltS, lsS, lmS]; simp [hdrSize]; omega
  have hseq' : b.seq = headerOf (4 + 4 * tl.length) (volByte vol) (tl.map (·.1)) tS sS mS c.usedData.length
      ++ (ts.flatten ++ (ss.flatten ++ ms.flatten)) := by rw [hseq]; simp [List.append_assoc]
  have hfix := header_fixed (4 + 4 * tl.length) (volByte vol) (tl.map (·.1)) tS sS mS c.usedData.length
      (ts.flatten ++ (ss.flatten ++ ms.flatten)) hb
  refine ⟨by rw [hseq']; exact hfix.1, by rw [hseq']; simpa using hfix.2.2, ?_⟩
  intro i hi
  have hi' : i < (tl.map (·.1)).length := by simpa using hi
  have hit : i < tS.length := by rw [ltS]; exact hi'
  have htr := header_track (4 + 4 * tl.length) (volByte vol) (tl.map (·.1)) tS sS mS c.usedData.length
      (ts.flatten ++ (ss.flatten ++ ms.flatten)) ltS i hi' hit
  have his : i < ts.length := by rw [lts]; exact hi
  have hen := encodeStreams_get _ _ _ hts i (by simpa using hi) his
  -- where the stream begins
  have hlen' : (headerOf (4 + 4 * tl.length) (volByte vol) (tl.map (·.1)) tS sS mS c.usedData.length
      ++ ts.flatten ++ (ss.flatten ++ ms.flatten)).length ≤ 65536 := by
    rw [hseq'] at hlen; simpa [List.append_assoc] using hlen
  obtain ⟨st, hst, hdrop⟩ := stream_at
    (headerOf (4 + 4 * tl.length) (volByte vol) (tl.map (·.1)) tS sS mS c.usedData.length)
    (ss.flatten ++ ms.flatten) ts i his (4 + 4 * tl.length) (by rw [hH]; unfold hdrSize; omega) (by omega) hlen'
  rw [hH, ← htS] at hst
  have hst' : tS[i] = st := by
    have := List.getElem?_eq_getElem hit
    rw [this] at hst; exact Option.some.inj hst
  refine ⟨off16 tS[i] (4 + 4 * tl.length), ts[i], (ts.drop (i + 1)).flatten ++ (ss.flatten ++ ms.flatten), ?_, ?_, ?_, ?_, ?_⟩
  · rw [hseq']; simpa using htr.1
  · rw [hseq']; exact htr.2.1
  · rw [hseq']; exact htr.2.2
  · simpa using hen
  · rw [hst', hseq']
    rw [← List.append_assoc]
    exact hdrop


/-- `slot_count`: behind the track table lie exactly `|subs| + |macros| + |data|` two-byte slots
and the first stream begins right after them; slot `k < |subs|` points at the bytes
`convert_track` made of subroutine `k`, slot `|subs| + k` at the bytes `convert_macro_track`
made of macro track `k`, and the slots of the data items are zero (the linker fills them). -/
theorem C09_slot_count {c : Conv} {tl : List (Nat × List MEv)} {vol : Option String} {b : Built}
    (h : assemble c tl vol = .ok b) (hlen : b.seq.length ≤ 65536) :
    b.seq.length = 4 + 4 * tl.length + 2 * (c.subList.length + c.macroList.length + c.usedData.length)
        + (b.trackStreams.flatten ++ b.subStreams.flatten ++ b.macroStreams.flatten).length ∧
    (0 < tl.length → Seq.rd16 b.seq 6 = some (2 * (c.subList.length + c.macroList.length + c.usedData.length))) ∧
    (∀ (k : Nat) (hk : k < c.subList.length), ∃ off stream rest,
      Seq.rd16 b.seq (4 + 4 * tl.length + 2 * k) = some off ∧
      convertTrackChk c.subList.length c.macroList.length c.subList[k] = .ok stream ∧
      b.seq.drop (4 + 4 * tl.length + off) = stream ++ rest) ∧
    (∀ (k : Nat) (hk : k < c.macroList.length), ∃ off stream rest,
      Seq.rd16 b.seq (4 + 4 * tl.length + 2 * (c.subList.length + k)) = some off ∧
      convertMacroTrack c.macroList[k] = .ok stream ∧
      b.seq.drop (4 + 4 * tl.length + off) = stream ++ rest) ∧
    (∀ k : Nat, c.subList.length + c.macroList.length ≤ k →
      k < c.subList.length + c.macroList.length + c.usedData.length →
      Seq.rd16 b.seq (4 + 4 * tl.length + 2 * k) = some 0) := by
  obtain ⟨ts, ss, ms, hts, hss, hms, hsz, _, _, hbt, hbs, hbm, hseq⟩ := assemble_ok h
  have lts : ts.length = tl.length := by simpa using encodeStreams_length _ _ _ hts
  have lss : ss.length = c.subList.length := encodeStreams_length _ _ _ hss
  have lms : ms.length = c.macroList.length := encodeStreams_length _ _ _ hms
  have hb : 4 + 4 * tl.length < 65536 := by unfold hdrSize at hsz; omega
  obtain ⟨tS, htS⟩ : ∃ x, x = startsFrom (hdrSize c tl.length) ts := ⟨_, rfl⟩
  obtain ⟨sS, hsS⟩ : ∃ x, x = startsFrom (hdrSize c tl.length + ts.flatten.length) ss := ⟨_, rfl⟩
  obtain ⟨mS, hmS⟩ : ∃ x, x = startsFrom (hdrSize c tl.length + ts.flatten.length + ss.flatten.length) ms := ⟨_, rfl⟩
  rw [← htS, ← hsS, ← hmS] at hseq
  have ltS : tS.length = (tl.map (·.1)).length := by rw [htS, startsFrom_length]; simpa using lts
  have lsS : sS.length = c.subList.length := by rw [hsS, startsFrom_length, lss]
  have lmS : mS.length = c.macroList.length := by rw [hmS, startsFrom_length, lms]
  obtain ⟨H, hHdef⟩ : ∃ x, x = headerOf (4 + 4 * tl.length) (volByte vol) (tl.map (·.1)) tS sS mS c.usedData.length := ⟨_, rfl⟩
  have hH : H.length = hdrSize c tl.length := by
    rw [hHdef, headerOf_length _ _ _ _ _ _ _ ltS, lsS, lmS]; simp [hdrSize]; omega
  have hseq' : b.seq = H ++ (ts.flatten ++ (ss.flatten ++ ms.flatten)) := by rw [hseq, hHdef]; simp [List.append_assoc]
  have hml : (tl.map (·.1)).length = tl.length := by simp
  have hlenN : H.length + (ts.flatten.length + (ss.flatten.length + ms.flatten.length)) ≤ 65536 := by
    rw [hseq'] at hlen; simpa using hlen
  refine ⟨?_, ?_, ?_, ?_, ?_⟩
  · rw [hseq', hbt, hbs, hbm]; simp only [List.length_append, hH, hdrSize]; omega
  · intro hpos
    have hi' : 0 < (tl.map (·.1)).length := by simpa using hpos
    have hit : 0 < tS.length := by rw [ltS]; exact hi'
    have htr := (header_track (4 + 4 * tl.length) (volByte vol) (tl.map (·.1)) tS sS mS c.usedData.length
      (ts.flatten ++ (ss.flatten ++ ms.flatten)) ltS 0 hi' hit).2.2
    rw [← hHdef, ← hseq'] at htr
    have h0 : tS[0]? = some (hdrSize c tl.length + ((ts.take 0).flatten).length) := by
      rw [htS]; exact startsFrom_get _ _ 0 (by omega)
    have h0' : tS[0] = hdrSize c tl.length := by
      rw [List.getElem?_eq_getElem hit] at h0; simpa using h0
    rw [h0'] at htr
    simp only [Nat.mul_zero, Nat.add_zero] at htr
    rw [htr]; unfold off16 hdrSize; unfold hdrSize at hsz; congr 1; omega
  · intro k hk
    have hk' : k < (sS ++ mS).length := by simp [lsS]; omega
    have hsl := header_slot (4 + 4 * tl.length) (volByte vol) (tl.map (·.1)) tS sS mS c.usedData.length
      (ts.flatten ++ (ss.flatten ++ ms.flatten)) ltS k hk'
    rw [← hHdef, ← hseq', hml] at hsl
    have hks : k < ss.length := by rw [lss]; exact hk
    have hkS : k < sS.length := by rw [lsS]; exact hk
    have hget : (sS ++ mS)[k] = sS[k] := List.getElem_append_left hkS
    have hen := encodeStreams_get _ _ _ hss k hk hks
    obtain ⟨st, hst, hdrop⟩ := stream_at (H ++ ts.flatten) ms.flatten ss k hks (4 + 4 * tl.length)
      (by rw [List.length_append, hH]; unfold hdrSize; omega) (by omega)
      (by simp only [List.length_append]; omega)
    rw [List.length_append, hH, ← hsS] at hst
    have hst' : sS[k] = st := by
      rw [List.getElem?_eq_getElem hkS] at hst; exact Option.some.inj hst
    refine ⟨off16 sS[k] (4 + 4 * tl.length), ss[k], (ss.drop (k + 1)).flatten ++ ms.flatten, ?_, hen, ?_⟩
    · rw [hsl, hget]
    · rw [hst', hseq']
      have : H ++ (ts.flatten ++ (ss.flatten ++ ms.flatten)) = H ++ ts.flatten ++ ss.flatten ++ ms.flatten := by
        simp [List.append_assoc]
      rw [this]; exact hdrop
  · intro k hk
    have hk' : c.subList.length + k < (sS ++ mS).length := by simp [lsS, lmS]; omega
    have hsl := header_slot (4 + 4 * tl.length) (volByte vol) (tl.map (·.1)) tS sS mS c.usedData.length
      (ts.flatten ++ (ss.flatten ++ ms.flatten)) ltS (c.subList.length + k) hk'
    rw [← hHdef, ← hseq', hml] at hsl
    have hks : k < ms.length := by rw [lms]; exact hk
    have hkS : k < mS.length := by rw [lmS]; exact hk
    have hget : (sS ++ mS)[c.subList.length + k] = mS[k] := by
      rw [List.getElem_append_right (by rw [lsS]; omega)]
      simp [lsS]
    have hen := encodeStreams_get _ _ _ hms k hk hks
    obtain ⟨st, hst, hdrop⟩ := stream_at (H ++ ts.flatten ++ ss.flatten) [] ms k hks (4 + 4 * tl.length)
      (by simp only [List.length_append, hH]; unfold hdrSize; omega) (by omega)
      (by simp only [List.length_append, List.length_nil]; omega)
    simp only [List.length_append, hH] at hst
    rw [← hmS] at hst
    have hst' : mS[k] = st := by
      rw [List.getElem?_eq_getElem hkS] at hst; exact Option.some.inj hst
    refine ⟨off16 mS[k] (4 + 4 * tl.length), ms[k], (ms.drop (k + 1)).flatten ++ [], ?_, hen, ?_⟩
    · rw [hsl, hget]
    · rw [hst', hseq']
      have : H ++ (ts.flatten ++ (ss.flatten ++ ms.flatten)) = H ++ ts.flatten ++ ss.flatten ++ ms.flatten ++ [] := by
        simp [List.append_assoc]
      rw [this]; exact hdrop
  · intro k hk1 hk2
    have hds := header_data_slot (4 + 4 * tl.length) (volByte vol) (tl.map (·.1)) tS sS mS c.usedData.length
      (ts.flatten ++ (ss.flatten ++ ms.flatten)) ltS k (by simp [lsS, lmS]; omega) (by simp [lsS, lmS]; omega)
    rw [← hHdef, ← hseq', hml] at hds
    exact hds

end Ctrmml.MdsFile
