/-
  C11 — Instrument and envelope definitions are encoded faithfully.
  Property theorems only; helper lemmas are in Proofs/MdsData.lean, the model in
  Model/MdsData.lean (generic in the floating-point arithmetic `Arith α`), the decoders
  `decodeFm` / `expandPsg` / `runPitchEnv` in Spec/MdsData.lean.

  All theorems start from the *parsed* numbers of a definition (`strtol`/`strtod` on the
  tag items are tied to the code by the correspondence check only).
-/
import Ctrmml.Proofs.MdsData
namespace Ctrmml.MdsData
open Ctrmml.MdsSpec

/-- FM round trip: the 30-byte register image `add_ins_fm_4op` builds from the 42 written
parameters (and the transpose) of any in-range definition decodes back to exactly that
definition: algorithm, feedback, the ten parameters of each operator with the operators in
hardware order 1,3,2,4, the AM flag taken from SSG-EG + 100, and the transpose byte. -/
theorem C11_fm_roundtrip (d : FmDef) (h : d.inRange) :
    decodeFm (fm4opBytes d.params (u8 ((d.tr + 24) * 2))) = some d :=
  fm_roundtrip_aux d h

example : (⟨3, 5, ⟨31, 0, 19, 5, 0, 23, 0, 0, 0, 0, true⟩, ⟨31, 6, 0, 4, 3, 19, 3, 15, 7, 15, false⟩,
    ⟨31, 15, 0, 5, 4, 38, 0, 4, 0, 0, false⟩, ⟨31, 27, 0, 11, 1, 127, 0, 1, 0, 0, true⟩, -4⟩ : FmDef).inRange := by decide

/-- 2op: for every base image that decodes to a definition `d` (any 30 bytes), the image
`add_ins_fm_2op` derives from it and from the written multipliers / transpose decodes to `d`
with only the four multipliers, the fourth operator's level (set to the second operator's,
which is what mml_ref.md's "disabled carrier operators are also enabled" describes and what
`fm_data[27] = fm_data[26]` does — the source comment says "same as op1", the code and the
manual say operator 2) and the transpose replaced. -/
theorem C11_fm_2op_spec (b : NBytes) (d : FmDef) (hd : decodeFm b = some d) (hbyte : ∀ x ∈ b, x < 256)
    (bid m1 m2 m3 m4 : Nat) (tr : Int) (h1 : m1 < 16) (h2 : m2 < 16) (h3 : m3 < 16) (h4 : m4 < 16)
    (htr : -24 ≤ tr ∧ tr ≤ 103) :
    decodeFm (fm2opBytes b [bid, m1, m2, m3, m4, u8 tr]) = some (d.twoOp m1 m2 m3 m4 tr) :=
  fm_2op_aux b d hd hbyte bid m1 m2 m3 m4 tr h1 h2 h3 h4 htr

example : ∃ b d, decodeFm b = some d ∧ (∀ x ∈ b, x < 256) ∧ d.op4.tl ≠ d.op2.tl :=
  ⟨fm4opBytes [4, 0, 20, 5, 0, 1, 1, 9, 0, 4, 7, 0, 31, 8, 4, 7, 2, 0, 0, 4, 0, 0, 20, 5, 0, 1, 1, 9, 0, 1, 7, 0,
      31, 8, 4, 7, 2, 127, 0, 1, 0, 0] 48, _, rfl, by decide, by decide⟩

/-- PSG envelopes, for EVERY arithmetic `A` whose single slides have the slide shape
(`SlideOK A`: for all initial, target ≤ 15 and 1 ≤ length ≤ 255 the frame values of
`initial>target:length` are `length` frames, the first at the initial level when there are at
least two, the last at the target, monotone, between the two levels): every definition built
from in-range values, sustain marks (each after at least one value) and loop marks compiles to
bytes that the independent reader `expandPsg` accepts, and the expansion is, frame by frame,
the concatenation of one block per written value — merging equal neighbouring frames, the
15-frame cap per byte, marks in between and the end/loop command do not add, drop or change a
frame — and every block has the slide shape (so the total number of frames is the sum of the
written lengths). -/
theorem C11_psg_frames_partial {α} (A : Arith α) (hA : SlideOK A) (items : List PsgItem)
    (hok : itemsOk items false = true) :
    ∃ e, expandPsg (psgFinish (items.foldl (psgItem A) {})) = some e ∧
      e.frames = items.flatMap (itemFrames A) ∧
      ∀ i t n, PsgItem.value i t n ∈ items → slideShape i t n (slideOf A i t n) = true := by
  obtain ⟨e, h1, h2⟩ := psg_frames_aux A hA items hok
  refine ⟨e, h1, h2, ?_⟩
  intro i t n hm
  -- in-range by `itemsOk`
  have : ∀ (l : List PsgItem) (h : Bool), itemsOk l h = true → PsgItem.value i t n ∈ l →
      i ≤ 15 ∧ t ≤ 15 ∧ 1 ≤ n ∧ n ≤ 255 := by
    intro l
    induction l with
    | nil => intro _ _ hm; cases hm
    | cons x r ih =>
      intro h hk hm
      cases x with
      | value i' t' n' =>
        simp only [itemsOk, Bool.and_eq_true, decide_eq_true_eq] at hk
        rcases List.mem_cons.mp hm with heq | hm'
        · cases heq; omega
        · exact ih true hk.2 hm'
      | sustain =>
        simp only [itemsOk, Bool.and_eq_true] at hk
        rcases List.mem_cons.mp hm with heq | hm'
        · cases heq
        · exact ih false hk.2 hm'
      | loop =>
        simp only [itemsOk] at hk
        rcases List.mem_cons.mp hm with heq | hm'
        · cases heq
        · exact ih h hk hm'
  obtain ⟨a, b, c, d⟩ := this items false hok hm
  exact hA i t n a b c d

/-- the hypotheses are satisfiable: a definition with a slide, a sustain and a loop mark whose
value after the loop mark equals the one before it (the former defect D20), in exact arithmetic -/
example : itemsOk [.value 15 15 1, .loop, .value 15 15 1, .value 15 10 6, .sustain, .value 3 0 20] false = true := by decide

example : expandPsg (psgFinish ([PsgItem.value 15 15 1, .loop, .value 15 15 1, .value 10 10 1].foldl (psgItem Arith.rat) {}))
    = some { frames := [15, 15, 10], sustains := [], loopTo := some 1 } := by decide

/-- The full statement (not proved): additionally the sustain and loop marks sit at the written
frame positions (`psgMeets` checks frames, shapes and marks). Missing from the theorem above:
the mark positions; they are checked by `expandPsg`/`psgMeets` on the real bytes of every
generated definition (judge), including all D20-shaped inputs. -/
def C11_full_statement : Prop :=
  ∀ {α} (A : Arith α), SlideOK A → ∀ items : List PsgItem, itemsOk items false = true →
    ∃ e, expandPsg (psgFinish (items.foldl (psgItem A) {})) = some e ∧ psgMeets items e = true

/-- `SlideOK` in exact arithmetic, small instances (the kernel evaluates the model's slide loop
over `Q`): every slide between levels 0..3 of up to 6 frames has the slide shape.  For IEEE
binary64 (what the C++ runs; 10301 of the 65280 slides differ from exact arithmetic in some
intermediate frame, e.g. `0>1:7`) the shape of all 65280 slides is checked against the real
code by the `psg-slide` family of the check. -/
theorem C11_psg_slide_rat_partial :
    ∀ i ∈ List.range 4, ∀ t ∈ List.range 4, ∀ n ∈ [1, 2, 3, 4, 5, 6],
      slideShape i t n (slideOf Arith.rat i t n) = true := by decide

/- Pitch envelopes — NOT proved (time): the statement the check evaluates with the independent
reader `runPitchEnv` + `pitchMeets` on the real bytes of every generated envelope: the chunks of
each written node start at the written pitch (8.8, truncated, capped at 0x7eff), last the
written number of frames (split at 255; the final node of an envelope without loop holds for
ever), end within one step per frame of the written target, the extended form is used exactly
when some step does not fit a signed byte (never under `noextpitch`, where the step is capped),
and the loop mark is the index of the written node.  Known exception: a per-frame step outside
int16 (`-127>127:1`) is undefined behaviour in `add_pitch_node` (known finding). -/
-- (no Lean statement is given for the pitch clauses: the written-node → token rendering is not part of the model)

end Ctrmml.MdsData
