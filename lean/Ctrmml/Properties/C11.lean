/-
  C11 — Instrument and envelope definitions are encoded faithfully.
  Property theorems only; helper lemmas are in Proofs/MdsData.lean, the model in
  Model/MdsData.lean (generic in the floating-point arithmetic `Arith α`), the decoders
  `decodeFm` / `expandPsg` / `runPitchEnv` in Spec/MdsData.lean.

  All theorems start from the *parsed* numbers of a definition (`strtol`/`strtod` on the
  tag items are tied to the code by the correspondence check only).
-/
import Ctrmml.Proofs.MdsPitch
import Ctrmml.Proofs.MdsBase
import Ctrmml.Proofs.B64Slide
namespace Ctrmml.MdsData
open Ctrmml.MdsSpec

/-- FM round trip: the 30-byte register image `add_ins_fm_4op` builds from the 42 written
parameters (and the transpose) of any in-range definition decodes back to exactly that
definition: algorithm, feedback, the ten parameters of each operator with the operators in
hardware order 1,3,2,4, the AM flag taken from SSG-EG + 100, and the transpose byte. -/
theorem C11_fm_roundtrip (d : FmDef) (h : d.inRange) :
    decodeFm (fm4opBytes d.params (u8 ((d.tr + 24) * 2))) = some d :=
  fm_roundtrip_aux d h

example : (⟨3, 5, ⟨31, 0, 19, 5, 0, 23, 0, 0, 0, 0, true⟩, ⟨31, 6, 0, 4, 3, 19, 3, 15, 7, 15, false⟩,
    ⟨31, 15, 0, 5, 4, 38, 0, 4, 0, 0, false⟩, ⟨31, 27, 0, 11, 1, 127, 0, 1, 0, 0, true⟩, -4⟩ : FmDef).inRange := by decide

/-- 2op: for every base image that decodes to a definition `d` (any 30 bytes), the image
`add_ins_fm_2op` derives from it and from the written multipliers / transpose decodes to `d`
with only the four multipliers, the fourth operator's level (set to the second operator's,
which is what mml_ref.md's "disabled carrier operators are also enabled" describes and what
`fm_data[27] = fm_data[26]` does — the source comment says "same as op1", the code and the
manual say operator 2) and the transpose replaced. -/
theorem C11_fm_2op_spec (b : NBytes) (d : FmDef) (hd : decodeFm b = some d) (hbyte : ∀ x ∈ b, x < 256)
    (bid m1 m2 m3 m4 : Nat) (tr : Int) (h1 : m1 < 16) (h2 : m2 < 16) (h3 : m3 < 16) (h4 : m4 < 16)
    (htr : -24 ≤ tr ∧ tr ≤ 103) :
    decodeFm (fm2opBytes b [bid, m1, m2, m3, m4, u8 tr]) = some (d.twoOp m1 m2 m3 m4 tr) :=
  fm_2op_aux b d hd hbyte bid m1 m2 m3 m4 tr h1 h2 h3 h4 htr

example : ∃ b d, decodeFm b = some d ∧ (∀ x ∈ b, x < 256) ∧ d.op4.tl ≠ d.op2.tl :=
  ⟨fm4opBytes [4, 0, 20, 5, 0, 1, 1, 9, 0, 4, 7, 0, 31, 8, 4, 7, 2, 0, 0, 4, 0, 0, 20, 5, 0, 1, 1, 9, 0, 1, 7, 0,
      31, 8, 4, 7, 2, 127, 0, 1, 0, 0] 48, _, rfl, by decide, by decide⟩

/-- the base of a 2op definition is always a 30-byte FM register image.  `FmInv st`: every id
whose `ins_type` is `INS_FM` has an `envelope_map` entry that points at a 30-byte bank entry.  It
holds in every state `read_song` reaches, for every tag list (so at every call of
`add_ins_fm_2op`, which happens in the state reached on a prefix of the tags), whatever the
definitions are: ids redefined through other keys (`@1` / `@01`), empty PSG tags, failures. -/
theorem C11_fm_base_inv {α} (A : Arith α) (noext : Bool) (tags : List (String × List String)) :
    FmInv (readSong A noext tags).1 :=
  FmInv_readTags A tags (initState noext) (FmInv_init noext)

/-- …and in such a state `add_ins_fm_2op` succeeds only when the referenced instrument is of type
FM, its image — the `base` given to `fm2opBytes`, hypothesis of `C11_fm_2op_spec` up to
`decodeFm` — has exactly 30 bytes, and the invariant is kept.  Before fix 45b84a6 a PSG
envelope of 2 bytes could be the base: `fm_data[27]`, `fm_data[29]` were written past its size
and the player read 30 bytes from it. -/
theorem C11_fm_2op_base (st st' : State) (id : Nat) (tag : List String) (hinv : FmInv st)
    (h : addInsFm2op st id tag = .ok st') :
    ∃ bi base, mget st.envMap (nth ((tag.take 6).map fun t => u8 (tokVal t)) 0) = some bi ∧
      st.bank[bi.toNat]? = some base ∧ base.length = 30 ∧ FmInv st' := by
  obtain ⟨h1, bi, base, e1, e2, e3⟩ := FmInv_fm2op st st' id tag hinv h
  exact ⟨bi, base, e1, e2, e3, h1⟩

/-- the invariant is not vacuous: after an FM and a 2op definition both ids are of type FM -/
example : mget (readSong Arith.rat false [("@1", "fm" :: (List.replicate 42 "1")), ("@2", ["2op", "1", "2", "3", "4", "5", "0"])]).1.tyMap 2
    = some (Tables.mdsdrv_INS_FM : Int) := by decide

/-- PSG envelopes, for EVERY arithmetic `A` whose single slides have the slide shape
(`SlideOK A`: for all initial, target ≤ 15 and 1 ≤ length ≤ 255 the frame values of
`initial>target:length` are `length` frames, the first at the initial level when there are at
least two, the last at the target, monotone, between the two levels): every definition built
from in-range values, sustain marks (each after at least one value) and loop marks compiles to
bytes that the independent reader `expandPsg` accepts, and the expansion is, frame by frame,
the concatenation of one block per written value — merging equal neighbouring frames, the
15-frame cap per byte, marks in between and the end/loop command do not add, drop or change a
frame — and every block has the slide shape (so the total number of frames is the sum of the
written lengths). -/
theorem C11_psg_frames {α} (A : Arith α) (hA : SlideOK A) (items : List PsgItem)
    (hok : itemsOk items false = true) :
    ∃ e, expandPsg (psgFinish (items.foldl (psgItem A) {})) = some e ∧
      e.frames = items.flatMap (itemFrames A) ∧
      ∀ i t n, PsgItem.value i t n ∈ items → slideShape i t n (slideOf A i t n) = true := by
  obtain ⟨e, h1, h2⟩ := psg_frames_aux A hA items hok
  refine ⟨e, h1, h2, ?_⟩
  intro i t n hm
  -- in-range by `itemsOk`
  have : ∀ (l : List PsgItem) (h : Bool), itemsOk l h = true → PsgItem.value i t n ∈ l →
      i ≤ 15 ∧ t ≤ 15 ∧ 1 ≤ n ∧ n ≤ 255 := by
    intro l
    induction l with
    | nil => intro _ _ hm; cases hm
    | cons x r ih =>
      intro h hk hm
      cases x with
      | value i' t' n' =>
        simp only [itemsOk, Bool.and_eq_true, decide_eq_true_eq] at hk
        rcases List.mem_cons.mp hm with heq | hm'
        · cases heq; omega
        · exact ih true hk.2 hm'
      | sustain =>
        simp only [itemsOk, Bool.and_eq_true] at hk
        rcases List.mem_cons.mp hm with heq | hm'
        · cases heq
        · exact ih false hk.2 hm'
      | loop =>
        simp only [itemsOk] at hk
        rcases List.mem_cons.mp hm with heq | hm'
        · cases heq
        · exact ih h hk hm'
  obtain ⟨a, b, c, d⟩ := this items false hok hm
  exact hA i t n a b c d

/-- the hypotheses are satisfiable: a definition with a slide, a sustain and a loop mark whose
value after the loop mark equals the one before it (the former defect D20), in exact arithmetic -/
example : itemsOk [.value 15 15 1, .loop, .value 15 15 1, .value 15 10 6, .sustain, .value 3 0 20] false = true := by decide

example : expandPsg (psgFinish ([PsgItem.value 15 15 1, .loop, .value 15 15 1, .value 10 10 1].foldl (psgItem Arith.rat) {}))
    = some { frames := [15, 15, 10], sustains := [], loopTo := some 1 } := by decide

/-- PSG marks — with `C11_psg_frames` the full PSG clause modulo `SlideOK`, for EVERY definition
`add_ins_psg` accepts (no size hypothesis any more): whenever the end of `add_ins_psg` (`psgEnd`:
the range check of the loop position added by fix ff36345, then the end / loop command) returns
bytes, the frame index at which the independent reader sees each sustain mark, and the frame
index its loop command jumps to, equal the number of frames written before the mark
(`refSus`/`refLoop` count frames with the written lengths; the last `|` wins), and the whole
expansion passes the spec check `psgMeets` (frames split by written lengths, every block of
slide shape, marks at the written places).  This is what the former defects D20 and
`psg:index-overflow` violated. -/
theorem C11_psg_marks {α} (A : Arith α) (hA : SlideOK A) (id : Nat) (items : List PsgItem)
    (hok : itemsOk items false = true) (bytes : NBytes)
    (h : psgEnd id (items.foldl (psgItem A) {}) = .ok bytes) :
    ∃ e, expandPsg bytes = some e ∧
      e.frames = items.flatMap (itemFrames A) ∧
      e.sustains = refSus items 0 ∧ e.loopTo = refLoop items 0 none ∧
      psgMeets items e = true := by
  obtain ⟨hlp, rfl⟩ := (psgEnd_ok id _ bytes).mp h
  exact psg_full_aux A hA items hok hlp

example : itemsOk [.value 15 15 1, .loop, .value 15 15 1, .value 15 10 6, .sustain, .value 3 0 20] false = true ∧
    (psgEnd 7 ([PsgItem.value 15 15 1, .loop, .value 15 15 1, .value 15 10 6, .sustain, .value 3 0 20].foldl (psgItem Arith.rat) {})).toOption
      = some [0x10, 0x20, 0x11, 0x12, 0x13, 0x14, 0x15, 0x01, 0x4c, 0x6d, 0x6e, 0x4f, 0x02, 0x01] ∧
    refLoop [.value 15 15 1, .loop, .value 15 15 1, .value 15 10 6, .sustain, .value 3 0 20] 0 none = some 1 ∧
    refSus [.value 15 15 1, .loop, .value 15 15 1, .value 15 10 6, .sustain, .value 3 0 20] 0 = [8] := by decide +kernel

/-- …and the check is exactly the byte limit: `add_ins_psg` throws (an InputError) only when the
loop position — the number of envelope bytes in front of the last loop mark — is above 255, it
never throws for a definition whose written size (frames + sustain marks, an upper bound of the
number of bytes) is below 256, and when it does not throw it emits `psgFinish` with a loop
position that fits the byte.  Before ff36345 the position was narrowed to a byte silently
(`@1 psg (15 14)x130 | 3 2` compiled to the loop command `02 04`). -/
theorem C11_psg_loop_checked {α} (A : Arith α) (hA : SlideOK A) (id : Nat) (items : List PsgItem)
    (hok : itemsOk items false = true) :
    (∀ e, psgEnd id (items.foldl (psgItem A) {}) = .error e →
        255 < (items.foldl (psgItem A) {}).loopPos ∧ 255 < psgSize items ∧ ∃ msg, e = .input msg) ∧
    (∀ bytes, psgEnd id (items.foldl (psgItem A) {}) = .ok bytes →
        (items.foldl (psgItem A) {}).loopPos ≤ 255 ∧ bytes = psgFinish (items.foldl (psgItem A) {})) ∧
    (psgSize items < 256 →
        psgEnd id (items.foldl (psgItem A) {}) = .ok (psgFinish (items.foldl (psgItem A) {}))) := by
  have hle := psg_loopPos_le A hA items hok
  refine ⟨fun e h => ?_, fun bytes h => (psgEnd_ok id _ bytes).mp h, fun hfit => ?_⟩
  · obtain ⟨h1, h2⟩ := psgEnd_error id _ e h
    exact ⟨h1, by omega, h2⟩
  · exact (psgEnd_ok id _ _).mpr ⟨by omega, rfl⟩

/-- the witness of the former finding is rejected: 260 one-frame values, then the loop mark -/
example : (match psgEnd 1 (((List.replicate 130 [PsgItem.value 15 15 1, .value 14 14 1]).flatten ++
      [PsgItem.loop, PsgItem.value 3 3 1, PsgItem.value 2 2 1]).foldl (psgItem Arith.rat) {}) with
    | .error _ => true | .ok _ => false) = true := by decide +kernel

/-- the former statement of `C11_psg_marks` (written size below 256, bytes of `psgFinish`): a
corollary -/
theorem C11_psg_marks_fit {α} (A : Arith α) (hA : SlideOK A) (items : List PsgItem)
    (hok : itemsOk items false = true) (hfit : psgSize items < 256) :
    ∃ e, expandPsg (psgFinish (items.foldl (psgItem A) {})) = some e ∧
      e.frames = items.flatMap (itemFrames A) ∧
      e.sustains = refSus items 0 ∧ e.loopTo = refLoop items 0 none ∧
      psgMeets items e = true :=
  C11_psg_marks A hA 0 items hok _ ((C11_psg_loop_checked A hA 0 items hok).2.2 hfit)

example : itemsOk [.value 15 15 1, .loop, .value 15 15 1, .value 15 10 6, .sustain, .value 3 0 20] false = true ∧
    psgSize [.value 15 15 1, .loop, .value 15 15 1, .value 15 10 6, .sustain, .value 3 0 20] < 256 := by decide

/-! ## pitch envelopes (every arithmetic `A`; no hypothesis on `A` is needed for these clauses)

`PItem` = a parsed token (`pitchParse`); `nodeOf` = the iterations of `add_pitch_node` for one
written node; `envChunks` = the iterations of the whole envelope + the loop index;
`render` = their bytes (`pitchItems_chunks`: the model's token loop produces exactly
`render (envChunks …)`). -/

/-- one written node `initial>target:length` pushed behind `size` bytes of envelope: its
iterations last exactly the node length (`pitchLength`: the written length, or
`lround(|Δ|+1.5) >> 4`, at least 1) in total, each 1..255 frames, all but the last exactly 255
(the split the code makes), every field fits its format (8.8 start, 16-bit step; signed-byte
step in the compact form), the first iteration starts at the written pitch in 8.8
(`chunkStart A initial` = `(int16)(initial*256)` capped at 0x7eff), and — the limit
`add_pitch_node` now enforces — the envelope then holds at most 256 nodes' worth of bytes. -/
theorem C11_pitch_node {α} (A : Arith α) (ue ex : Bool) (size : Nat) (i t : α) (e : Option Int) (cs : List RawChunk)
    (h : nodeOf A ue ex size i t e = .ok cs) (hp : 0 < pitchLength A i t e) :
    (cs.map (·.len)).sum = pitchLength A i t e ∧ (∀ n, e = some n → 1 ≤ n → pitchLength A i t e = n) ∧
      (∀ c ∈ cs, 1 ≤ c.len ∧ c.len ≤ 255) ∧ (∀ c ∈ cs.dropLast, c.len = 255) ∧
      (∀ c ∈ cs, -32768 ≤ c.start ∧ c.start ≤ 32767 ∧ -32768 ≤ c.delta ∧ c.delta ≤ 32767 ∧
        (ex = false → -128 ≤ c.delta ∧ c.delta ≤ 127)) ∧
      (cs.head?.map (·.start)) = some (chunkStart A i) ∧
      size + nodeSize ex * cs.length ≤ nodeSize ex * 256 := by
  obtain ⟨a, b, c, d, f, g⟩ := nodeOf_spec A ue ex size i t e cs h
  have hq : ∀ n, e = some n → 1 ≤ n → pitchLength A i t e = n := by
    intro n hn h1
    subst hn
    simp only [pitchLength, Option.getD_some]
    split <;> omega
  have hne : cs ≠ [] := by
    intro hc
    subst hc
    simp at a
    omega
  exact ⟨by omega, hq, b, c, d, f hp, g hne⟩

/-- the limit is sharp and is an error, not a silent wrap: a node whose iterations do not fit
behind the `size` bytes already there (more than 256 nodes in all) makes `add_pitch_node` throw —
`nodeOf` never returns more iterations than fit, and it throws nothing but `invalid_argument`
(only in the compact form with extended pitch allowed), the too-long InputError and (fix f788cbf)
the too-steep InputError of `C11_pitch_step_checked`. -/
theorem C11_pitch_node_limit {α} (A : Arith α) (ue ex : Bool) (size : Nat) (i t : α) (e : Option Int) :
    (∀ cs, nodeOf A ue ex size i t e = .ok cs → cs ≠ [] → size + nodeSize ex * cs.length ≤ nodeSize ex * 256) ∧
    (∀ err, nodeOf A ue ex size i t e = .error err →
      err = .tooLong ∨ err = .tooSteep ∨ (err = .invalidArgument ∧ ue = true ∧ ex = false)) :=
  ⟨fun cs h => (nodeOf_spec A ue ex size i t e cs h).2.2.2.2.2, fun err h => nodeChunks_error A ue ex t _ _ _ i err h⟩

/-- one iteration of `add_pitch_node`, with the range check of fix f788cbf: the per-frame step
`d = trunc(((target - counter) / length) * 256)` is tested as computed, before it is narrowed:
outside `int16_t` the node is an InputError (`tooSteep`) in every form — it used to be converted
to `int16_t` (undefined behaviour; g++ kept the low 16 bits, `-127>127:1` slid downwards) —
and when the iteration is accepted the stored step IS `d` (its signed-byte cap under
`noextpitch` in the compact form), the start is the counter in 8.8, the iteration lasts
`min 255 length` frames and the loop continues with the counter advanced by the stored step.
So no accepted node carries a wrapped step: with `C11_pitch_node` every field of every iteration
is the value the code computed. -/
theorem C11_pitch_step_checked {α} (A : Arith α) (ue ex : Bool) (target : α) (fuel size : Nat) (length : Int) (counter : α)
    (hl : 0 < length) :
    ((chunkDelta A target counter length < -32768 ∨ 32767 < chunkDelta A target counter length) →
      nodeChunks A ue ex target (fuel + 1) size length counter = .error .tooSteep) ∧
    (∀ c cs, nodeChunks A ue ex target (fuel + 1) size length counter = .ok (c :: cs) →
      -32768 ≤ chunkDelta A target counter length ∧ chunkDelta A target counter length ≤ 32767 ∧
      c.delta = (if ex || ue then chunkDelta A target counter length else clamp8 (chunkDelta A target counter length)) ∧
      c.start = chunkStart A counter ∧ c.len = (if length > 255 then 255 else length) ∧
      nodeChunks A ue ex target fuel (size + nodeSize ex) (length - c.len)
        (A.add counter (A.ofInt (Int.tdiv (c.delta * c.len) 256))) = .ok cs) := by
  have hl' : ¬ length ≤ 0 := by omega
  have e1 : Tables.mdsdrv_pitch_step_min = -32768 := rfl
  have e2 : Tables.mdsdrv_pitch_step_max = 32767 := rfl
  refine ⟨fun hd => ?_, fun c cs h => ?_⟩
  · unfold nodeChunks
    simp only [hl', if_false]
    rw [if_pos]
    rw [e1, e2]
    rcases hd with hd | hd <;> simp [hd]
  · unfold nodeChunks at h
    simp only [hl', if_false] at h
    split at h
    · cases h
    · rename_i hst
      have hr := chunkDelta_checked _ hst
      split at h
      · cases h
      · split at h
        · cases h
        · simp only [map_eq_ok] at h
          obtain ⟨cs', h1, h2⟩ := h
          simp only [List.cons.injEq] at h2
          obtain ⟨rfl, rfl⟩ := h2
          refine ⟨hr.1, hr.2, ?_, rfl, rfl, h1⟩
          cases ex <;> cases ue <;> simp

example : nodeOf Arith.rat true false 0 (Arith.rat.ofDec true 127 0) (Arith.rat.ofDec false 127 0) (some 1) = .error .tooSteep ∧
    nodeOf Arith.rat false false 0 (Arith.rat.ofDec false 100 0) (Arith.rat.ofDec true 100 0) (some 1) = .error .tooSteep ∧
    chunkDelta Arith.rat (Arith.rat.ofDec false 127 0) (Arith.rat.ofDec true 127 0) 1 = 65024 ∧
    nodeOf Arith.rat true true 0 (Arith.rat.ofDec true 64 0) (Arith.rat.ofDec false 63 0) (some 1) = .ok [⟨-16384, 32512, 1⟩] := by
  decide +kernel

/-- the vibrato macro `Vbase:depth:rate` is a loop mark followed by the three nodes
`base>top:rate`, `top>-top:2*rate`, `-top>base:rate` (top = depth/2 + base), each value
rendered with `%f` and read back (`fmt6`); the doubled rate is computed in `long long` and read
back into an `int` (`i32`, the identity for |rate| < 2^30 — `C11_vibrato_rate`).  Same result
and same exception. -/
theorem C11_pitch_vibrato {α} (A : Arith α) (ue ex : Bool) (cs : List RawChunk) (lp : Int) (b d : α) (r : Int) :
    pitchItem A ue ex (render ex cs, lp) (.vib b d r) =
      pitchItems A ue ex [.loop, .node (A.fmt6 b) (A.fmt6 d) (some r), .node (A.fmt6 d) (A.fmt6 (A.neg d)) (some (i32 (r * 2))),
        .node (A.fmt6 (A.neg d)) (A.fmt6 b) (some r)] (render ex cs, lp) := by
  rw [pitchItems_chunks, pitchItem_chunks]
  simp only [itemChunks, envChunks, isMark, if_true, Bool.false_eq_true, if_false, Except.bind, List.append_nil,
    List.length_append]
  cases nodeOf A ue ex (nodeSize ex * cs.length) (A.fmt6 b) (A.fmt6 d) (some r) with
  | error e => simp [Except.map]
  | ok c1 =>
    simp only []
    cases nodeOf A ue ex (nodeSize ex * (cs.length + c1.length)) (A.fmt6 d) (A.fmt6 (A.neg d)) (some (i32 (r * 2))) with
    | error e => simp [Except.map]
    | ok c2 =>
      simp only []
      cases nodeOf A ue ex (nodeSize ex * (cs.length + c1.length + c2.length)) (A.fmt6 (A.neg d)) (A.fmt6 b) (some r) with
      | error e => simp [Except.map]
      | ok c3 => simp [Except.map, List.append_assoc]

/-- the doubled vibrato rate is exact for every rate below 2^30 in magnitude (no signed
overflow any more: the product is formed in `long long`) -/
theorem C11_vibrato_rate (r : Int) (h1 : -1073741824 ≤ r) (h2 : r < 1073741824) : i32 (r * 2) = r * 2 := by
  unfold i32; omega

/-- compact form read back: when the envelope compiles in the compact form to iterations `cs`
with loop index `lp`, the independent reader `runPitchEnv` decodes the bytes
`pitchFinish (render cs) lp` to exactly those iterations (start, signed-byte step, frames), the
last node holding for ever when there is no loop mark, and the loop target is the index of the
first iteration after the mark.  There are never more than 256 nodes (`add_pitch_node` rejects
the 257th), so every node index fits its byte; the only hypothesis left is on the loop mark:
`lp < 256` excludes the one case where it sits behind the 256th node, which `addPitch` rejects
before it calls `pitchFinish` (`C11_pitch_loop_checked`). -/
theorem C11_pitch_decode_compact {α} (A : Arith α) (ue : Bool) (items : List (PItem α)) (cs : List RawChunk) (lp : Int)
    (h : envChunks A ue false items [] (-1) = .ok (cs, lp)) (hlp : lp < 256) (hne : cs ≠ []) :
    cs.length ≤ 256 ∧
    ((lp = -1 ∧ runPitchEnv false (pitchFinish (render false cs) lp) =
        some { chunks := cs.dropLast.map (toChunk · none) ++
                 (cs.getLast?.map fun c => { toChunk c none with frames := none }).toList, loopTo := none }) ∨
    (∃ k : Nat, lp = k ∧ k ≤ cs.length ∧ runPitchEnv false (pitchFinish (render false cs) lp) =
        some { chunks := cs.map (toChunk · none), loopTo := some k })) := by
  obtain ⟨hok, hlp', _, h256⟩ := envChunks_ok A ue false items [] (-1) cs lp h (by simp) (Or.inl rfl)
  refine ⟨h256 (by simp), ?_⟩
  have hcr : ∀ c ∈ cs, CR c := fun c hc => by simpa [ChunkOK] using hok c hc
  have hr : render false cs = cs.flatMap bytes4 := by simp [render, foldl_compact]
  rcases hlp' with rfl | ⟨h1, h2⟩
  · left
    refine ⟨rfl, ?_⟩
    obtain ⟨init, c, rfl⟩ : ∃ init c, cs = init ++ [c] := ⟨cs.dropLast, cs.getLast hne, (List.dropLast_concat_getLast hne).symm⟩
    rw [hr, compact_noloop init c hcr]
    simp
  · right
    obtain ⟨k, rfl⟩ : ∃ k : Nat, lp = k := ⟨lp.toNat, by omega⟩
    refine ⟨k, rfl, by omega, ?_⟩
    rw [hr, compact_loop cs k (by omega) hcr]

/-- extended form read back (used when some step does not fit a signed byte): 16-bit steps,
every node continues at the next one, the last one at the loop node — or at itself, for ever,
when there is no loop mark.  Holds for every envelope that compiles (at most 256 nodes; with
exactly 256 the next-node byte of the last node wraps to 0 and is overwritten by the end
command), again with `lp < 256` as the only hypothesis. -/
theorem C11_pitch_decode_extended {α} (A : Arith α) (ue : Bool) (items : List (PItem α)) (cs : List RawChunk) (lp : Int)
    (h : envChunks A ue true items [] (-1) = .ok (cs, lp)) (hlp : lp < 256) (hne : cs ≠ []) :
    cs.length ≤ 256 ∧
    ((lp = -1 ∧ runPitchEnv true (pitchFinishExt (render true cs) lp) =
        some { chunks := extChunks 0 cs.dropLast ++
                 (cs.getLast?.map fun c => { toChunk c (some (cs.length - 1)) with frames := none }).toList, loopTo := none }) ∨
    (∃ k : Nat, lp = k ∧ k ≤ cs.length ∧ runPitchEnv true (pitchFinishExt (render true cs) lp) =
        some { chunks := extChunks 0 cs.dropLast ++ (cs.getLast?.map fun c => toChunk c (some k)).toList,
               loopTo := some k })) := by
  obtain ⟨hok, hlp', _, h256⟩ := envChunks_ok A ue true items [] (-1) cs lp h (by simp) (Or.inl rfl)
  have hn := h256 (by simp)
  refine ⟨hn, ?_⟩
  have her : ∀ c ∈ cs, ER c := fun c hc => by simpa [ChunkOK] using hok c hc
  have hr : render true cs = ext6 0 cs := by simp [render, foldl_ext cs [] 0 rfl]
  obtain ⟨init, c, rfl⟩ : ∃ init c, cs = init ++ [c] := ⟨cs.dropLast, cs.getLast hne, (List.dropLast_concat_getLast hne).symm⟩
  have hl : init.length < 256 := by simp at hn; omega
  rcases hlp' with rfl | ⟨h1, h2⟩
  · left
    refine ⟨rfl, ?_⟩
    rw [hr, ext_noloop init c her hl]
    simp
  · right
    obtain ⟨k, rfl⟩ : ∃ k : Nat, lp = k := ⟨lp.toNat, by omega⟩
    have hk : k < 256 := by omega
    refine ⟨k, rfl, by simp at h2 ⊢; omega, ?_⟩
    rw [hr, ext_loop init c k hk her hl]
    simp

/-- the hypothesis `lp < 256` of the two read-back theorems is what `add_pitch_envelope` /
`add_extended_pitch_envelope` check before they emit the end command: whenever `addPitch`
accepts a (non-empty) definition, the loop position of the form it stores is below 256 — a loop
mark behind the 256th node is an InputError, not a wrapped byte. -/
theorem C11_pitch_loop_checked {α} (A : Arith α) (st st' : State) (id : Nat) (tag : List String)
    (h : addPitch A st id tag = .ok st') (hne : tag ≠ []) :
    (∃ env lp, pitchTokens A st.useExt false tag [] (-1) = .ok (env, lp) ∧ lp < 256) ∨
    (pitchTokens A st.useExt false tag [] (-1) = .error .invalidArgument ∧
      ∃ env lp, pitchTokens A st.useExt true tag [] (-1) = .ok (env, lp) ∧ lp < 256) := by
  unfold addPitch at h
  have hte : tag.isEmpty = false := by cases tag <;> simp_all
  simp only [hte, Bool.false_eq_true, if_false] at h
  by_cases hg : tag.any outsideStrtod = true
  · rw [if_pos hg] at h; cases h
  rw [if_neg hg] at h
  cases h1 : pitchTokens A st.useExt false tag [] (-1) with
  | ok r =>
    obtain ⟨env, lp⟩ := r
    left
    refine ⟨env, lp, rfl, ?_⟩
    simp only [h1] at h
    split at h
    · cases h
    · split at h
      · cases h
      · rename_i hlp
        simp only [Tables.mdsdrv_pitch_loop_max] at hlp
        omega
  | error e =>
    cases e with
    | input => simp [h1] at h
    | tooLong => simp [h1] at h
    | tooSteep => simp [h1] at h
    | invalidArgument =>
      right
      refine ⟨rfl, ?_⟩
      simp only [h1] at h
      cases h2 : pitchTokens A st.useExt true tag [] (-1) with
      | ok r =>
        obtain ⟨env, lp⟩ := r
        refine ⟨env, lp, rfl, ?_⟩
        simp only [h2] at h
        split at h
        · cases h
        · rename_i hlp
          simp only [Tables.mdsdrv_pitch_loop_max] at hlp
          omega
      | error e => cases e <;> simp [h2] at h

/-- which form: under `noextpitch` (`ue = false`) the compact form never throws
`invalid_argument` — a step that does not fit is capped to a signed byte (`clamp8`); neither
does the extended form; the only other exceptions of `add_pitch_node` are the too-long and the
too-steep InputError; and when the compact form succeeds with extended pitch allowed, every step fits a
signed byte and the iterations are exactly those of the extended form behind the same number of
nodes `n` (it fails, by definition of `nodeChunks`, at the first iteration whose step
`chunkDelta` is outside -128..127, and `addPitch` then compiles the extended form). -/
theorem C11_pitch_form {α} (A : Arith α) (target : α) (fuel n : Nat) (length : Int) (counter : α) :
    (∀ size e, nodeChunks A false false target fuel size length counter = .error e → e = .tooLong ∨ e = .tooSteep) ∧
    (∀ ue size e, nodeChunks A ue true target fuel size length counter = .error e → e = .tooLong ∨ e = .tooSteep) ∧
    (∀ cs, nodeChunks A true false target fuel (nodeSize false * n) length counter = .ok cs →
        nodeChunks A true true target fuel (nodeSize true * n) length counter = .ok cs ∧
        ∀ c ∈ cs, -128 ≤ c.delta ∧ c.delta ≤ 127) := by
  refine ⟨?_, fun ue size e h => C11_pitch_ext_total A ue target fuel size length counter e h, ?_⟩
  · intro size e h
    rcases nodeChunks_error A false false target fuel size length counter e h with h | h | ⟨_, h, _⟩
    · exact Or.inl h
    · exact Or.inr h
    · cases h
  · intro cs h
    refine ⟨?_, fun c hc => (nodeChunks_range A true false target fuel _ length counter cs h c hc).2.2.2.2 rfl⟩
    induction fuel generalizing n length counter cs with
    | zero => simpa [nodeChunks] using h
    | succ fuel ih =>
      unfold nodeChunks at h ⊢
      by_cases hl : length ≤ 0
      · simpa [hl] using h
      · simp only [hl, if_false, Bool.not_false, Bool.not_true, Bool.true_and, Bool.false_and, Bool.false_eq_true,
          if_true] at h ⊢
        split at h
        · cases h
        rename_i hst
        rw [if_neg hst]
        split at h
        · cases h
        · have e4 : nodeSize false * n + nodeSize false = nodeSize false * (n + 1) := by rw [Nat.mul_add, Nat.mul_one]
          have e6 : nodeSize true * n + nodeSize true = nodeSize true * (n + 1) := by rw [Nat.mul_add, Nat.mul_one]
          rw [e4] at h
          rw [e6]
          have hlim : (nodeSize true * (n + 1) > nodeSize true * Tables.mdsdrv_pitch_node_max) ↔
              (nodeSize false * (n + 1) > nodeSize false * Tables.mdsdrv_pitch_node_max) := by
            simp only [nodeSize_eq, if_true, Bool.false_eq_true, if_false, Tables.mdsdrv_pitch_node_max]; omega
          split at h
          · cases h
          · rename_i hsz
            rw [if_neg (by rw [hlim]; exact hsz)]
            simp only [map_eq_ok] at h ⊢
            obtain ⟨cs', h1, rfl⟩ := h
            exact ⟨cs', ih _ _ _ cs' h1, rfl⟩

/-- a written pitch item (exact decimals, `Spec.PitchItem`) as the parsed item of the model -/
def writtenItem {α} (A : Arith α) : PitchItem → PItem α
  | .node i t l => .node (A.ofDec (decide (i.num < 0)) i.num.natAbs i.dec) (A.ofDec (decide (t.num < 0)) t.num.natAbs t.dec)
      (l.map Int.ofNat)
  | .loop => .loop

/-! ## the slide hypothesis for IEEE binary64, and the full statement -/

/-- `SlideOK` for IEEE-754 binary64: every single PSG slide `initial>target:length` with levels
0..15 and 1..255 frames, computed as `add_ins_psg` does in `double` — `delta = (double)(target -
initial) / (length - 1)` (one correctly rounded division), `counter = initial + 0.5`, then per
frame `(int)counter` and `counter += delta` (one correctly rounded addition each), the last frame
forced to the target — has the slide shape: `length` frames, the first at the initial level, the
last at the target, monotone, all between the two levels.  `Arith.b64` is binary64 written out in
Lean (`Model/MdsData: B64`, round to nearest even by `B64.round`).  Proof (`Proofs/B64Slide`):
all values are multiples of 2^-60; a rounded sum in [1/2, 16) is within 2^11·2^-60 of the exact sum
(`add_fix_pos/neg`, for ALL operands, by reasoning about `B64.round`); the 31·254 steps
`fl(±d/m)` and the 16 start values are evaluated by the kernel (`stepTable`, `startTable`: the
finite tables are exactly the quantifier); by induction over the frames the counter stays within
`k·2^11·2^-60` of `initial + 0.5 + k·delta`, far from the next integer where it matters.
This discharges the hypothesis `hA` of `C11_psg_frames`, `C11_psg_marks`, `C11_psg_loop_checked`
for the arithmetic the C++ runs, up to the identification of `Arith.b64` with the hardware
`double` (trusted; compared on every request of every run by the driver, and `Arith.float` is
compared with the C++). -/
theorem C11_psg_slide_binary64 : SlideOK Arith.b64 := B64.slideOK_b64

/-- the slide of the evidence file where binary64 and exact arithmetic differ (`0>1:7`: frame 3 is
0 in binary64, 1 in exact arithmetic), and a long one -/
example : slideOf Arith.b64 0 1 7 = [0, 0, 0, 0, 1, 1, 1] ∧ slideOf Arith.rat 0 1 7 = [0, 0, 0, 1, 1, 1, 1] ∧
    slideShape 15 0 255 (slideOf Arith.b64 15 0 255) = true := by decide +kernel

/-- the PSG clause of the property for binary64, with no hypothesis left: every definition built
from in-range values, sustain marks (each after a value) and loop marks that `add_ins_psg`
accepts is read back by the independent reader as the written frames with the marks at the
written places; it is rejected only when its loop mark lies behind more than 255 envelope bytes. -/
theorem C11_psg_binary64 (id : Nat) (items : List PsgItem) (hok : itemsOk items false = true) :
    (∀ bytes, psgEnd id (items.foldl (psgItem Arith.b64) {}) = .ok bytes →
      ∃ e, expandPsg bytes = some e ∧ e.frames = items.flatMap (itemFrames Arith.b64) ∧
        e.sustains = refSus items 0 ∧ e.loopTo = refLoop items 0 none ∧ psgMeets items e = true) ∧
    (∀ err, psgEnd id (items.foldl (psgItem Arith.b64) {}) = .error err → 255 < psgSize items) :=
  ⟨fun bytes h => C11_psg_marks Arith.b64 C11_psg_slide_binary64 id items hok bytes h,
   fun err h => ((C11_psg_loop_checked Arith.b64 C11_psg_slide_binary64 id items hok).1 err h).2.1⟩

example : itemsOk [.value 0 1 7, .sustain, .loop, .value 15 0 255] false = true := by decide

/-- what the independent reader returns for an accepted pitch envelope (`C11_pitch_decode_compact`
/ `_extended`): the iterations `cs` as nodes; without a loop mark the last node holds for ever -/
def decodedEnv (ex : Bool) (cs : List RawChunk) (lp : Int) : PitchEnv :=
  if ex then
    if lp = -1 then
      { chunks := extChunks 0 cs.dropLast ++
          (cs.getLast?.map fun c => { toChunk c (some (cs.length - 1)) with frames := none }).toList, loopTo := none }
    else
      { chunks := extChunks 0 cs.dropLast ++ (cs.getLast?.map fun c => toChunk c (some lp.toNat)).toList,
        loopTo := some lp.toNat }
  else
    if lp = -1 then
      { chunks := cs.dropLast.map (toChunk · none) ++
          (cs.getLast?.map fun c => { toChunk c none with frames := none }).toList, loopTo := none }
    else { chunks := cs.map (toChunk · none), loopTo := some lp.toNat }

/-- the full statement of the PSG and pitch clauses over an arithmetic `A`, for the code as
repaired (ff36345, f788cbf, 54bd60e, 1772c47): every accepted PSG definition meets the written
definition; every accepted pitch envelope (compact form, or extended form after the compact pass
threw `invalid_argument`; loop position at most 255, which `addPitch` checks —
`C11_pitch_loop_checked`) is read back by the independent reader to nodes that meet the written
decimals (`pitchMeets`: start = ⌊256·initial⌋ capped, written length, error below one step per
frame). -/
def C11_full_for {α} (A : Arith α) : Prop :=
  (∀ (id : Nat) (items : List PsgItem) (bytes : NBytes), itemsOk items false = true →
    psgEnd id (items.foldl (psgItem A) {}) = .ok bytes →
    ∃ e, expandPsg bytes = some e ∧ psgMeets items e = true) ∧
  (∀ (noext : Bool) (items : List PitchItem) (cs : List RawChunk) (lp : Int),
    (envChunks A (!noext) false (items.map (writtenItem A)) [] (-1) = .ok (cs, lp) → cs ≠ [] → lp ≤ 255 →
      ∃ e, runPitchEnv false (pitchFinish (render false cs) lp) = some e ∧ pitchMeets noext items e = true) ∧
    (envChunks A (!noext) false (items.map (writtenItem A)) [] (-1) = .error .invalidArgument →
      envChunks A (!noext) true (items.map (writtenItem A)) [] (-1) = .ok (cs, lp) → cs ≠ [] → lp ≤ 255 →
      ∃ e, runPitchEnv true (pitchFinishExt (render true cs) lp) = some e ∧ pitchMeets noext items e = true))

/-- the full statement for the arithmetic the C++ runs (hardware binary64 = Lean `Float`, opaque
to the kernel): NOT a theorem as such — see `C11_full_partial` for what is proved. -/
def C11_full_statement : Prop := C11_full_for Arith.float

/-- residual hypothesis 2 of `C11_full_partial`, the numerical content of the pitch clause: the
iterations `add_pitch_node` computes in the arithmetic `A` from the written decimals, read as
nodes, meet the written definition.  Decided per generated definition by the judge (`pitchMeets`
on the real bytes); not proved for any arithmetic. -/
def PitchExact {α} (A : Arith α) : Prop :=
  ∀ (noext ex : Bool) (items : List PitchItem) (cs : List RawChunk) (lp : Int),
    envChunks A (!noext) ex (items.map (writtenItem A)) [] (-1) = .ok (cs, lp) → cs ≠ [] → lp ≤ 255 →
    pitchMeets noext items (decodedEnv ex cs lp) = true

/-- read-back of an accepted pitch envelope in either form, as one equation -/
theorem C11_pitch_readback {α} (A : Arith α) (ue ex : Bool) (items : List (PItem α)) (cs : List RawChunk) (lp : Int)
    (h : envChunks A ue ex items [] (-1) = .ok (cs, lp)) (hlp : lp ≤ 255) (hne : cs ≠ []) :
    runPitchEnv ex (if ex then pitchFinishExt (render true cs) lp else pitchFinish (render false cs) lp) =
      some (decodedEnv ex cs lp) := by
  cases ex with
  | false =>
    obtain ⟨_, hd⟩ := C11_pitch_decode_compact A ue items cs lp h (by omega) hne
    simp only [Bool.false_eq_true, if_false, decodedEnv]
    rcases hd with ⟨h1, h2⟩ | ⟨k, h1, _, h2⟩
    · rw [if_pos h1]; exact h2
    · rw [if_neg (by omega)]
      have : lp.toNat = k := by omega
      rw [this]; exact h2
  | true =>
    obtain ⟨_, hd⟩ := C11_pitch_decode_extended A ue items cs lp h (by omega) hne
    simp only [if_true, decodedEnv]
    rcases hd with ⟨h1, h2⟩ | ⟨k, h1, _, h2⟩
    · rw [if_pos h1]; exact h2
    · rw [if_neg (by omega)]
      have : lp.toNat = k := by omega
      rw [this]; exact h2

/-- The full statement from the pieces, for EVERY arithmetic, with exactly two residual
hypotheses about the arithmetic: (1) `SlideOK A` — single PSG slides have the slide shape; a
theorem for binary64 written out in Lean (`C11_psg_slide_binary64`); (2) `PitchExact A` — the
pitch iterations meet the written decimals; oracle-only.  Everything else of the statement is
proved: merging, the 15-frame cap, marks, the end commands and both limits of the PSG compiler;
node splitting, both pitch forms, loop marks, the 256-node limit and the step limit of the pitch
compiler, and the read-back by the independent readers.
`C11_full_statement` is `C11_full_for Arith.float`; instantiating this theorem there needs (1)
and (2) for the hardware arithmetic, i.e. for (1) the identification of `Arith.float` with
`Arith.b64` (trusted base, compared by the driver on every request). -/
theorem C11_full_partial {α} (A : Arith α) (hS : SlideOK A) (hP : PitchExact A) : C11_full_for A := by
  refine ⟨fun id items bytes hok h => ?_, fun noext items cs lp => ⟨fun h hne hlp => ?_, fun _ h hne hlp => ?_⟩⟩
  · obtain ⟨e, h1, _, _, _, h5⟩ := C11_psg_marks A hS id items hok bytes h
    exact ⟨e, h1, h5⟩
  · have hr := C11_pitch_readback A (!noext) false _ cs lp h hlp hne
    simp only [Bool.false_eq_true, if_false] at hr
    exact ⟨_, hr, hP noext false items cs lp h hne hlp⟩
  · have hr := C11_pitch_readback A (!noext) true _ cs lp h hlp hne
    simp only [if_true] at hr
    exact ⟨_, hr, hP noext true items cs lp h hne hlp⟩

/-- for binary64 written out in Lean only the pitch hypothesis is left -/
theorem C11_full_binary64_partial (hP : PitchExact Arith.b64) : C11_full_for Arith.b64 :=
  C11_full_partial Arith.b64 C11_psg_slide_binary64 hP

/-- the hypotheses of `C11_full_partial` are met together by a concrete, non-trivial piece: the
slide hypothesis holds for `Arith.b64`, and on a concrete envelope (a slide of 510 frames = two
iterations, a loop mark, a one-frame node) the pitch hypothesis' conclusion holds there -/
example : SlideOK Arith.b64 ∧
    (∃ cs lp, envChunks Arith.b64 true false ([PitchItem.node ⟨0, 0⟩ ⟨3, 0⟩ (some 510), .loop, .node ⟨-25, 1⟩ ⟨-25, 1⟩ none].map
        (writtenItem Arith.b64)) [] (-1) = .ok (cs, lp) ∧ cs.length = 3 ∧ lp = 2 ∧
      pitchMeets false [PitchItem.node ⟨0, 0⟩ ⟨3, 0⟩ (some 510), .loop, .node ⟨-25, 1⟩ ⟨-25, 1⟩ none] (decodedEnv false cs lp) = true) := by
  refine ⟨C11_psg_slide_binary64, [⟨0, 1, 255⟩, ⟨0, 3, 255⟩, ⟨-640, 0, 1⟩], 2, ?_⟩
  decide +kernel

/-- `SlideOK` in exact arithmetic, by kernel evaluation of the model's own slide loop over `Q`:
every slide between any two levels 0..15 of 1..10 frames has the slide shape (2560 of the
65280 slides; longer ones cost too much kernel time — 1..31 did not finish in 280 s — and the
general proof by reasoning about the loop was not done).  For IEEE binary64 (what the C++ runs;
10301 of the 65280 slides differ from exact arithmetic in some intermediate frame, e.g.
`0>1:7`, measured every thorough run and written to the evidence) the shape of all 65280
slides is checked against the real code by the `psg-slide` family of the check. -/
theorem C11_psg_slide_rat_partial :
    ∀ i ∈ List.range 16, ∀ t ∈ List.range 16, ∀ n ∈ List.range' 1 10,
      slideShape i t n (slideOf Arith.rat i t n) = true := by decide +kernel

end Ctrmml.MdsData
