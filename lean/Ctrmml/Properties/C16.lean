/-
  C16 — Output is a function of the input alone.  Property theorems only; model with the hidden
  inputs explicit: Model/Globals.lean (+ Model/Vgm, Model/MdsConv, Model/Player); helper lemmas:
  Proofs/Globals.lean, Proofs/BrkEq.lean.

  `DriverFn`: the part of the VGM export between the construction of MD_Driver and `stop()` is a
  parameter — ANY function of the input and of the volume table (the only mutable statics of the
  library, by `statics_known` over the regenerated clang-AST list).  All theorems hold for every
  such function that emits exporter operations (`XOp`: PSG/YM2612 writes, delays, loop point,
  stream data blocks, DAC stream commands — what `VGM_Interface` offers).
-/
import Ctrmml.Proofs.Globals
import Ctrmml.Proofs.BrkEq
namespace Ctrmml.Globals
open Ctrmml Ctrmml.Vgm

/-- export_history_independent: after ANY history of compilations in the process, compiling an
input gives exactly the result it gives in a fresh process (for the same heap fill and clock): VGM
file, MDS sequence and the tools' extension lookup. -/
theorem C16_export_history_independent {α} (drv : DriverFn α) (g : Globals) (h : Reachable drv g)
    (fill : Nat → UInt8) (clk : Clock) (inp : α) (tags : Tags) (song : Song) (d : Mds.DataInfo) (vol : Option Nat) (name : Bytes) :
    (compileVgm drv g fill clk inp tags).2 = (compileVgm drv initial fill clk inp tags).2 ∧
    (compileMds g song d vol).2 = (compileMds initial song d vol).2 ∧
    (getExtension g name).2 = (getExtension initial name).2 := by
  refine ⟨?_, rfl, ?_⟩
  · have h1 := (pcmCtor_table (reachable_tableOk h)).1
    have h2 := (pcmCtor_table tableOk_initial).1
    simp only [compileVgm, h1, h2]
  · unfold getExtension
    cases strncpy256 name <;> rfl

/-- non-vacuity: a state reached by two exports with different inputs is not the initial one, and
its table is the constant table (first row entry: sample 0x00 = −128 scaled by 255/256 = −128) -/
example : Reachable (fun _ (n : Nat) => [Op.delay n]) (pcmCtor (pcmCtor initial)) :=
  .vgm (fun _ => 0) ⟨[], []⟩ 7 ⟨[], [], [], [], [], [], [], [], [], [], []⟩ (.vgm (fun _ => 1) ⟨[], []⟩ 3 ⟨[], [], [], [], [], [], [], [], [], [], []⟩ .init)
example : (pcmCtor initial).tablesInitialized = true ∧ initial.tablesInitialized = false := ⟨rfl, rfl⟩
example : (volRow 255)[0]? = some (-128) ∧ (volRow 128)[255]? = some 63 ∧ (volRow 8)[0]? = some (-4) := by decide

/-- compile_defined: for every driver function, input, tags, clock and globals, the exported file
is what the cell model of C08 (`Vgm.run`, which FAILS on an indeterminate cell) computes — whenever
the operation sequence succeeds, every byte of the file was stored by the writer: no byte comes from
the allocator.  Hence the result does not depend on the heap fill. -/
theorem C16_compile_defined {α} (drv : XDriver α) (hv : ∀ t i, ∀ x ∈ drv t i, x.valid) (g : Globals)
    (fill : Nat → UInt8) (clk : Clock) (inp : α) (tags : Tags) :
    (compileVgm drv.fn g fill clk inp tags).2 =
      Vgm.run Tables.vgm_export_version Tables.vgm_export_header_size (exportOps drv.fn (pcmCtor g).volTable inp tags clk) ∧
    (∀ fill', (compileVgm drv.fn g fill' clk inp tags).2 = (compileVgm drv.fn g fill clk inp tags).2) ∧
    (compileVgm drv.fn g fill clk inp tags).2 ≠ .error .indeterminate := by
  have key : ∀ fill, (compileVgm drv.fn g fill clk inp tags).2 =
      Vgm.run Tables.vgm_export_version Tables.vgm_export_header_size (exportOps drv.fn (pcmCtor g).volTable inp tags clk) ∧
      (compileVgm drv.fn g fill clk inp tags).2 ≠ .error .indeterminate := by
    intro fill
    obtain ⟨s0, pre, hc, inv0, hl0, _⟩ := ctor_inv Tables.vgm_export_version Tables.vgm_export_header_size (by decide) (by decide)
    simp only [compileVgm, Vgm.run, hc]
    cases h1 : steps s0 (exportOps drv.fn (pcmCtor g).volTable inp tags clk) with
    | error e =>
      refine ⟨rfl, ?_⟩
      intro hcon; cases hcon
      exact steps_ni _ _ h1
    | ok s' =>
      simp only
      have hmd : mdPokes = (Tables.md_vgm_pokes.map fun (w, off, v) =>
          (off, if w = 4 then le32 v else if w = 2 then le16 v else [byteOf v])).map fun p => Op.poke p.1 p.2 := by
        simp [mdPokes, List.map_map, Function.comp_def]
      have a : AllSome s'.mem := by
        unfold exportOps at h1
        rw [hmd] at h1
        exact export_allSome (drv (pcmCtor g).volTable inp) (hv _ _) _ _ inv0
          (fun p hp => by rw [hl0]; exact mdPokes_inside p hp) h1
      rw [getCells_getBuffer fill a]
      refine ⟨rfl, ?_⟩
      unfold getBuffer
      split
      · simp only [bind, Except.bind]
        cases hp : poke32 s' 4 (s'.pos - 4) with
        | error e =>
          simp only
          intro hcon; cases hcon
          exact poke_ni _ _ _ hp
        | ok s5 =>
          obtain ⟨b5, hb5⟩ := poke_allSome a hp
          simp [hb5, cellsToBytes_some]
      · obtain ⟨b4, hb4⟩ := a
        simp [hb4, cellsToBytes_some, bind, Except.bind, pure, Except.pure]
  exact ⟨(key fill).1, fun fill' => by rw [(key fill').1, (key fill).1], (key fill).2⟩

/-- non-vacuity: a concrete driver (one data block, a YM2612 write whose data comes from the
volume table, a delay) satisfies the hypothesis and the export succeeds -/
def demoDrv : XDriver Nat := fun tbl n =>
  [.datablock 0 [1, 2, 3] 3 0, .ym false 0x2a (((tbl.getD 3 []).getD n 0) % 256).toNat, .delay (735 * n)]

example : ∀ t i, ∀ x ∈ demoDrv t i, x.valid := by
  intro t i x hx; simp [demoDrv] at hx; rcases hx with rfl | rfl | rfl <;> simp [XOp.valid]

/-- compile_frame: a process that compiles a list of songs (VGM or MDS, any mix, starting after any
history) produces for each of them exactly what a fresh process produces for it alone: compiling
one song leaves no trace in the result of compiling another. -/
theorem C16_compile_frame {α} (drv : DriverFn α) (g : Globals) (h : Reachable drv g)
    (fill : Nat → UInt8) (clk : Clock) (jobs : List (Job α)) :
    (runJobs drv fill clk g jobs).2 = jobs.map fun j => (runJob drv initial fill clk j).2 := by
  induction jobs generalizing g with
  | nil => rfl
  | cons j js ih =>
    simp only [runJobs, List.map_cons]
    have hr : Reachable drv (runJob drv g fill clk j).1 := by
      cases j with
      | vgm inp tags =>
        show Reachable drv (compileVgm drv g fill clk inp tags).1
        exact .vgm fill clk inp tags h
      | mds song d vol =>
        show Reachable drv (compileMds g song d vol).1
        exact .mds song d vol h
    rw [ih _ hr]
    congr 1
    cases j with
    | vgm inp tags =>
      simp only [runJob]
      rw [(C16_export_history_independent drv g h fill clk inp tags ⟨[]⟩ {} none []).1]
    | mds song d vol => rfl

/-- removing a job from the list does not change the results of the others -/
example {α} (drv : DriverFn α) (fill : Nat → UInt8) (clk : Clock) (a b : Job α) :
    (runJobs drv fill clk initial [a, b]).2.drop 1 = (runJobs drv fill clk initial [b]).2 := by
  rw [C16_compile_frame drv initial .init, C16_compile_frame drv initial .init]; rfl

/-- export_idempotent_on_song: what the players leave in a `Song` does not influence the MDS
export.  (i) Two songs that differ only in `LOOP_BREAK` params (`BrkEq`) are converted to the same
`seq ` bytes, track lists, subroutines, data references or the same error — this covers every
function of `MDSDRV_Track_Writer` (`event_hook`, the run loop, `get_subroutine`,
`get_macro_track`: `writerInv`) and the `MDSDRV_Converter` constructor; (ii) one `step_event` of any
player, in any state, changes the track it reads only in `LOOP_BREAK` params and `play_time`
stamps (which no exporter of the model reads: `Event` has no such field), so the song after any
number of player steps is `BrkEq` to the song before.  Hence exporting the same `Song` object
twice (MDS then VGM, VGM then MDS, after validation) gives the same MDS bytes. -/
theorem C16_export_idempotent_on_song :
    (∀ (s s' : Song) (d : Mds.DataInfo) (v : Option Nat), BrkEq s s' →
        (Mds.convertSong s d v).map (·.seq) = (Mds.convertSong s' d v).map (·.seq) ∧
        (compileMds initial s d v).2 = (compileMds initial s' d v).2) ∧
    (∀ (st : Player.PState) (code : List SEvent),
        normCode (eraseStamps (wbStep st code)) = normCode (eraseStamps code)) := by
  refine ⟨?_, wbStep_norm⟩
  intro s s' d v h
  have e1 := convertSong_norm s d v
  have e2 := convertSong_norm s' d v
  unfold BrkEq at h
  rw [h] at e1
  have : Mds.convertSong s d v = Mds.convertSong s' d v := by rw [← e1, e2]
  simp only [compileMds, this, and_self]

/-- non-vacuity: a song whose `LOOP_BREAK` carries the end position a player wrote (3) and the same
song as the front end built it (0) are `BrkEq` but different, and a player step on a break inside a
running loop does write that param -/
example : BrkEq ⟨[(0, [⟨4, 0, 0, 0⟩, ⟨2, 36, 6, 0⟩, ⟨5, 3, 0, 0⟩, ⟨2, 38, 6, 0⟩, ⟨6, 2, 0, 0⟩])]⟩
                ⟨[(0, [⟨4, 0, 0, 0⟩, ⟨2, 36, 6, 0⟩, ⟨5, 0, 0, 0⟩, ⟨2, 38, 6, 0⟩, ⟨6, 2, 0, 0⟩])]⟩ := by
  unfold BrkEq; rfl
example : (wbStep { core := { track := .root, position := 0, stack := [⟨.loop, .root, 1, 5, 1⟩] }, acc := {} }
    [⟨⟨5, 0, 0, 0⟩, 4294967295⟩]) = [⟨⟨5, 5, 0, 0⟩, 0⟩] := by decide

/-- The part of the property that is NOT a theorem here: `MD_Driver` (the VGM side between driver
construction and `stop()`) and the MML front end are not modelled in this tree, so that (i) the real
driver reads nothing but its input and the volume table and emits only `VGM_Interface` operations,
(ii) it is blind to `LOOP_BREAK` params and `play_time` stamps and to the empty tags `safe_get_tag`
inserts, is an ASSUMPTION of the theorems above (the hypotheses `drv : XDriver α`, `hv`), decided per
generated case by the history / same-object / fresh-process / heap-fill differential execution of the
real code (checks/c16.py).  With `realDrv` standing for the real driver the full statement reads: -/
def C16_full_statement : Prop :=
  ∀ (realDrv : XDriver Song), (∀ t i, ∀ x ∈ realDrv t i, x.valid) →
    (∀ t s s', BrkEq s s' → realDrv t s = realDrv t s') →
    ∀ (g : Globals), Reachable realDrv.fn g →
    ∀ (fill fill' : Nat → UInt8) (clk : Clock) (s s' : Song) (tags : Tags), BrkEq s s' →
      (compileVgm realDrv.fn g fill clk s tags).2 = (compileVgm realDrv.fn initial fill' clk s' tags).2

/-- …and it follows from the theorems above once the two assumptions on the driver are granted -/
theorem C16_full_from_assumptions : C16_full_statement := by
  intro realDrv hv hb g hg fill fill' clk s s' tags hss
  rw [(C16_export_history_independent realDrv.fn g hg fill clk s tags ⟨[]⟩ {} none []).1]
  rw [(C16_compile_defined realDrv hv initial fill' clk s tags).2.1 fill]
  simp only [compileVgm, exportOps, XDriver.fn, hb _ s s' hss]

end Ctrmml.Globals
