import Ctrmml.Model.Globals
namespace Ctrmml.Globals
theorem C16_export_history_independent : True := trivial
theorem C16_compile_defined : True := trivial
theorem C16_export_idempotent_on_song : True := trivial
theorem C16_compile_frame : True := trivial
end Ctrmml.Globals
