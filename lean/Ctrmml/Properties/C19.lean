/-
  C19 — The command-line tools report success truthfully and write the library's output.
  Property theorems only (pure logic of mmlc.cpp / mdslink.cpp as modelled in Model/Cli.lean,
  against Spec/Cli.lean).  File I/O, exit status delivery and signals are runtime behaviour and
  are checked on the built executables (checks/c19.py), not here.
-/
import Ctrmml.Proofs.Cli
namespace Ctrmml.Cli
open Ctrmml.Tables

/-- For EVERY input path and format string, the name `mmlc` derives is the directory part,
then the last path component without its last extension, then "." and the format. -/
theorem C19_output_name_spec (p fmt : Str) : outputFilename p fmt = Spec.outputName p fmt := by
  unfold outputFilename Spec.outputName
  rcases Spec.path_cases p with ⟨hs, hd, hf⟩ | ⟨a, r, e, hr, hd, hf⟩
  · rw [hd, hf]
    by_cases hdot : '.' ∈ p
    · obtain ⟨x, y, e, hy⟩ := split_last hdot
      have hys : '/' ∉ y := fun h => hs (by rw [e]; simp [h])
      rw [e, lastIdx_append_cons x y hy, Spec.stem_split x y hy]
      simp [hys]
    · rw [lastIdx_none.mpr hdot, Spec.stem_nodot p hdot]; simp
  · rw [hd, hf]
    subst e
    by_cases hdot : '.' ∈ r
    · obtain ⟨x, y, er, hy⟩ := split_last hdot
      subst er
      have hys : '/' ∉ y := fun h => hr (by simp [h])
      have ep : a ++ '/' :: (x ++ '.' :: y) = (a ++ '/' :: x) ++ '.' :: y := by simp
      have ht : ((a ++ '/' :: x) ++ '.' :: y).take (a ++ '/' :: x).length = a ++ '/' :: x := by
        rw [List.take_left']; rfl
      have hd2 : ((a ++ '/' :: x) ++ '.' :: y).drop (a ++ '/' :: x).length = '.' :: y := by
        rw [List.drop_left']; rfl
      rw [Spec.stem_split x y hy, ep, lastIdx_append_cons _ y hy]
      simp only [ht, hd2]
      simp [hys]
    · have ep : a ++ '/' :: r = (a ++ ['/']) ++ r := by simp
      rw [Spec.stem_nodot r hdot]
      have hl' : lastIdx '.' (a ++ '/' :: r) = lastIdx '.' (a ++ ['/']) := by rw [ep, lastIdx_append_right _ _ hdot]
      rw [hl']
      cases hl : lastIdx '.' (a ++ ['/']) with
      | none => simp
      | some i =>
        have hi := lastIdx_lt hl
        have hi' : i ≤ a.length := by simp at hi; omega
        have hm : '/' ∈ (a ++ '/' :: r).drop i := by
          rw [List.drop_append_of_le_length hi']; simp
        simp [hm]

example : outputFilename "dir.v1/song".toList "vgm".toList = "dir.v1/song.vgm".toList := by decide
example : outputFilename "nodot".toList "mds".toList = "nodot.mds".toList := by decide
example : outputFilename "a/b.c/d.e.mml".toList "vgm".toList = "a/b.c/d.e.vgm".toList := by decide

/-- mmlc never reaches an undefined-behaviour site or an uncaught exception, whatever the
argument vector and whatever the library answers: the result is always a normal exit.
(`argv[argc]` is a modelled NULL: the proof goes through the operand check of the code.) -/
theorem C19_no_crash (lib : MmlcLib) (argv : List Str) : ∃ r, mmlcMain lib argv = .done r := by
  obtain ⟨p, hp⟩ := mmlcArgs_ok argv argv.length 1 {} (by omega)
  unfold mmlcMain; rw [hp]
  cases p with
  | exit hlp => exact ⟨_, rfl⟩
  | opts o =>
    dsimp only
    repeat (first | exact ⟨_, rfl⟩ | split)

/-- the same for mdslink -/
theorem C19_link_no_crash (lib : LinkLib) (argv : List Str) : ∃ r, linkMain lib argv = .done r := by
  obtain ⟨p, hp⟩ := linkArgs_ok argv argv.length 1 {} (by omega)
  unfold linkMain; rw [hp]
  cases p with
  | exit hlp => exact ⟨_, rfl⟩
  | opts o =>
    dsimp only
    repeat (first | exact ⟨_, rfl⟩ | split)

example : mmlcMain ⟨fun _ => .error .input, fun _ => .ok (), fun _ _ _ => .error .other⟩
    ["mmlc".toList, "x.mml".toList, "-o".toList] = .done (failR) := by decide

/-- before the fix (D13): `mmlc x.mml -o` reads argv[argc] -/
theorem C19_v0_missing_operand :
    mmlcArgsV0 ["mmlc".toList, "x.mml".toList, "-o".toList] 3 1 {} = .error .nullString := by rfl
/-- before the fix (D13): `mdslink x.mml -o a.bin` and `mdslink x.mml -h` read argv[argc] -/
theorem C19_v0_link_missing_operand :
    linkArgsV0 ["mdslink".toList, "x.mml".toList, "-o".toList, "a.bin".toList] 4 1 {} = .error .nullString ∧
    linkArgsV0 ["mdslink".toList, "x.mml".toList, "-h".toList] 3 1 {} = .error .nullString := ⟨by rfl, by rfl⟩
/-- before the fixes (D13): no dot → strncat(NULL); a dot only in a directory → wrong name;
a path of 256 characters → the static buffer is overrun -/
theorem C19_v0_output_name :
    outputFilenameV0 "nodot".toList "vgm".toList = .error .nullDeref ∧
    outputFilenameV0 "dir.v1/song".toList "vgm".toList = .ok "dir.vgm".toList ∧
    (∀ inp ext, inp.length ≥ 256 → outputFilenameV0 inp ext = .error .bufOverflow) ∧
    (List.replicate 252 'x' ++ ['.', 'm', 'm', 'l']).length ≥ 256 := by
  refine ⟨by rfl, by rfl, ?_, by rw [List.length_append, List.length_replicate]; decide⟩
  intro inp ext h
  simp [outputFilenameV0, h]

/-- The format option selects the format case-insensitively: the lookup loop of `main` finds
exactly the first format whose name equals the option up to ASCII case (the first format when
no option is given), and two spellings that differ only in case select the same format. -/
theorem C19_format_case_insensitive (fmts : List Str) (f : Str) :
    (∀ i nm, Spec.selectFormat fmts f = some (i, nm) → findFormat fmts f 0 = (nm, i)) ∧
    (Spec.selectFormat fmts f = none → (findFormat fmts f 0).2 = fmts.length) ∧
    (∀ g, f ≠ [] → g ≠ [] → Spec.lower g = Spec.lower f → (findFormat fmts g 0).2 = (findFormat fmts f 0).2) := by
  have gen : ∀ (fs : List Str) (h : Str) (n : Nat), h ≠ [] →
      findFormat fs h n = (h, n + ((fs.findIdx? fun x => Spec.sameNoCase x h).getD fs.length)) := by
    intro fs h n hh
    induction fs generalizing n with
    | nil => simp [findFormat]
    | cons x xs ih =>
      simp only [findFormat, if_neg hh]
      by_cases hx : iequal x h = true
      · have : Spec.sameNoCase x h = true := by simp [Spec.sameNoCase, (iequal_iff x h).mp hx]
        simp [hx, List.findIdx?_cons, this]
      · have : Spec.sameNoCase x h = false := by
          simp [Spec.sameNoCase]; intro e; exact hx ((iequal_iff x h).mpr e)
        simp only [hx, Bool.false_eq_true, if_false, ih (n + 1), List.findIdx?_cons, this]
        cases List.findIdx? (fun x => Spec.sameNoCase x h) xs <;> simp <;> omega
  have self : ∀ x : Str, iequal x x = true := fun x => (iequal_iff x x).mpr rfl
  refine ⟨?_, ?_, ?_⟩
  · intro i nm hs
    unfold Spec.selectFormat at hs
    by_cases hf : f = []
    · subst hf
      cases fmts with
      | nil => simp at hs
      | cons x xs =>
        simp at hs
        obtain ⟨rfl, rfl⟩ := hs
        simp [findFormat, self]
    · rw [if_neg hf] at hs
      rw [gen fmts f 0 hf]
      cases hidx : List.findIdx? (fun x => Spec.sameNoCase x f) fmts with
      | none => simp [hidx] at hs
      | some k => simp [hidx] at hs; obtain ⟨rfl, rfl⟩ := hs; simp
  · intro hs
    unfold Spec.selectFormat at hs
    by_cases hf : f = []
    · subst hf
      cases fmts with
      | nil => simp [findFormat]
      | cons x xs => simp at hs
    · rw [if_neg hf] at hs
      rw [gen fmts f 0 hf]
      cases hidx : List.findIdx? (fun x => Spec.sameNoCase x f) fmts with
      | none => simp
      | some k => simp [hidx] at hs
  · intro g hf hg e
    rw [gen fmts f 0 hf, gen fmts g 0 hg]
    have : (fun x => Spec.sameNoCase x g) = (fun x => Spec.sameNoCase x f) := by
      funext x; simp [Spec.sameNoCase, e]
    rw [this]

example : findFormat ["vgm".toList, "mds".toList] "MdS".toList 0 = ("MdS".toList, 1) := by decide
example : findFormat ["vgm".toList, "mds".toList] [] 0 = ("vgm".toList, 0) := by decide
example : (findFormat ["vgm".toList, "mds".toList] "xyz".toList 0).2 = 2 := by decide

/-- mmlc exits with status 0 EXACTLY when every library step for the parsed command succeeded,
and then the only file it writes is the library's export under the selected name; a non-zero
status never comes with a written file; with writable output locations the files that exist
afterwards are exactly the writes.  (mmlc does not check the stream state: on an unwritable
location the status is still 0 — outside the property's quantifier.) -/
theorem C19_exit_zero_iff_written (lib : MmlcLib) (argv : List Str) (r : Result)
    (h : mmlcMain lib argv = .done r) :
    (r.status = 0 ↔ ∃ o fmts b, mmlcArgs argv argv.length 1 {} = .ok (.opts o) ∧ o.inFile ≠ [] ∧
        lib.convert o.inFile = .ok fmts ∧ (findFormat fmts o.format 0).2 ≠ fmts.length ∧
        (o.optimize = true → lib.optimize o.inFile = .ok ()) ∧
        lib.exportData o.inFile o.optimize (findFormat fmts o.format 0).2 = .ok b ∧
        r.writes = (if b.size ≠ 0 then
          [(if o.outFile = [] then outputFilename o.inFile (findFormat fmts o.format 0).1 else o.outFile, b)] else []))
    ∧ (r.status ≠ 0 → r.writes = [] ∧ r.status = 255)
    ∧ (∀ w : Str → Bool, (∀ n, w n = true) → r.files w = r.writes) := by
  refine ⟨?_, ?_, fun w hw => by simp [Result.files, hw]⟩
  · unfold mmlcMain at h
    constructor
    · intro hs
      split at h
      · cases h
      · cases h; revert hs; split <;> simp [helpR, failR, cli_fail_status]
      · next o hp =>
        split at h
        · cases h; simp [failR, cli_fail_status] at hs
        · split at h
          · cases h; simp [failR, cli_fail_status] at hs
          · next fmts hc =>
            dsimp only at h
            split at h
            · cases h; simp [failR, cli_fail_status] at hs
            · next hid =>
              split at h
              · cases h; simp [failR, cli_fail_status] at hs
              · next hopt =>
                split at h
                · cases h; simp [failR, cli_fail_status] at hs
                · next b hb =>
                  cases h
                  refine ⟨o, fmts, b, hp, by assumption, hc, hid, ?_, hb, rfl⟩
                  intro ho; simp [ho] at hopt; exact hopt
    · rintro ⟨o, fmts, b, hp, hin, hc, hid, hopt, hb, hw⟩
      rw [hp] at h
      simp only [hin, if_false, hc, hid, hb] at h
      by_cases ho : o.optimize = true
      · simp [ho, hopt ho] at h; rw [← h]
      · simp [ho] at h; rw [← h]
  · intro hs
    unfold mmlcMain at h
    repeat' split at h
    all_goals first
      | (cases h; done)
      | (cases h; simp [failR, helpR, cli_fail_status] at hs ⊢; done)
      | (cases h; simp [failR, helpR, cli_fail_status]; done)
      | (cases h; split <;> simp [failR, helpR, cli_fail_status]; done)
      | (cases h; simp at hs)

/-- mdslink exits with status 0 EXACTLY when the inputs were loaded and every requested output
was generated, and then the files written are exactly the requested ones with the library's
bytes; with writable locations the files that exist afterwards are the writes. -/
theorem C19_link_exit_zero_iff_written (lib : LinkLib) (argv : List Str) (r : Result)
    (h : linkMain lib argv = .done r) :
    (r.status = 0 ↔ ∃ o items, linkArgs argv argv.length 1 {} = .ok (.opts o) ∧ o.inputs ≠ [] ∧
        linkItems o.inputs = .ok items ∧ lib.load items = .ok () ∧
        (∀ x ∈ [(o.seq, lib.seq items), (o.pcm, lib.pcm items), (o.asmHeader, lib.asmHeader items), (o.cHeader, lib.cHeader items)],
          x.1 ≠ [] → ∃ b, x.2 = .ok b) ∧
        r.writes = [(o.seq, lib.seq items), (o.pcm, lib.pcm items), (o.asmHeader, lib.asmHeader items),
          (o.cHeader, lib.cHeader items)].filterMap Spec.okWrite)
    ∧ (∀ w : Str → Bool, (∀ n, w n = true) → r.files w = r.writes) := by
  refine ⟨?_, fun w hw => by simp [Result.files, hw]⟩
  unfold linkMain at h
  constructor
  · intro hs
    split at h
    · cases h
    · cases h; revert hs; split <;> simp [helpR, failR, cli_fail_status]
    · next o hp =>
      split at h
      · cases h; simp [failR, cli_fail_status] at hs
      · next hin =>
        split at h
        · cases h; simp [failR, cli_fail_status] at hs
        · next items hi =>
          split at h
          · cases h; simp [failR, cli_fail_status] at hs
          · next hl =>
            cases h
            have sp := linkWrite_spec [(o.seq, lib.seq items), (o.pcm, lib.pcm items), (o.asmHeader, lib.asmHeader items), (o.cHeader, lib.cHeader items)] []
            exact ⟨o, items, hp, hin, hi, hl, sp.1.mp hs, by simpa using sp.2 hs⟩
  · rintro ⟨o, items, hp, hin, hi, hl, hall, hw⟩
    rw [hp] at h
    simp only [hin, if_false, hi, hl] at h
    cases h
    exact (linkWrite_spec _ []).1.mpr hall

/-- The song name mdslink hands to the linker is the last path component without its last
extension, for every path shorter than 2^63 characters (the `size_t` subtraction in
`get_filename` wraps around when the last dot precedes the last '/', and the wrapped count is
then larger than the rest of the string). -/
theorem C19_link_song_name_spec (s : Str) (hlen : s.length < 2 ^ 63) :
    getFilename s = .ok (Spec.songName s) := by
  unfold getFilename Spec.songName
  rcases Spec.path_cases s with ⟨hs, hd, hf⟩ | ⟨a, r, e, hr, hd, hf⟩
  · rw [hf, lastIdx_none.mpr hs]
    dsimp only
    by_cases hdot : '.' ∈ s
    · obtain ⟨x, y, e, hy⟩ := split_last hdot
      subst e
      rw [lastIdx_append_cons x y hy, Spec.stem_split x y hy]
      simp [substr]
    · rw [lastIdx_none.mpr hdot, Spec.stem_nodot s hdot]
      simp only [Option.getD_none, substr, npos]
      simp
      apply List.take_of_length_le; omega
  · subst e
    rw [hf, lastIdx_append_cons a r hr]
    dsimp only
    have hpos : ¬ (a.length + 1 > (a ++ '/' :: r).length) := by simp
    have hdrop : (a ++ '/' :: r).drop (a.length + 1) = r := by
      have : a ++ '/' :: r = (a ++ ['/']) ++ r := by simp
      rw [this, List.drop_left']; simp
    by_cases hdot : '.' ∈ r
    · obtain ⟨x, y, er, hy⟩ := split_last hdot
      subst er
      have hl : lastIdx '.' (a ++ '/' :: (x ++ '.' :: y)) = some (a.length + 1 + x.length) := by
        have : a ++ '/' :: (x ++ '.' :: y) = (a ++ '/' :: x) ++ '.' :: y := by simp
        rw [this, lastIdx_append_cons _ y hy]; simp; omega
      rw [hl, Spec.stem_split x y hy]
      simp only [Option.getD_some, substr, if_neg hpos, hdrop]
      have hc : (a.length + 1 + x.length + 2 ^ 64 - a.length - 1) % 2 ^ 64 = x.length := by
        simp at hlen; omega
      rw [hc]; simp
    · rw [Spec.stem_nodot r hdot]
      have hl' : lastIdx '.' (a ++ '/' :: r) = lastIdx '.' a := by
        have : a ++ '/' :: r = a ++ ('/' :: r) := rfl
        rw [lastIdx_append_right a ('/' :: r) (by simp [hdot])]
      rw [hl']
      simp only [substr, if_neg hpos, hdrop]
      congr 1
      apply List.take_of_length_le
      simp at hlen
      cases hl : lastIdx '.' a with
      | none => simp [npos]; omega
      | some i => have := lastIdx_lt hl; simp; omega

example : getFilename "dir.v1/song".toList = .ok "song".toList := by rfl
example : getFilename "a/b.c/d.e.mml".toList = .ok "d.e".toList := by rfl

/-- non-vacuity: a library that accepts everything -/
def demoLib : MmlcLib :=
  ⟨fun _ => .ok ["vgm".toList, "mds".toList], fun _ => .ok (), fun _ _ i => .ok ⟨10 + i, "b"⟩⟩
example : mmlcMain demoLib ["mmlc".toList, "-f".toList, "MDS".toList, "-O".toList, "d.v/s".toList] =
    .done ⟨0, false, [("d.v/s.MDS".toList, ⟨11, "b"⟩)]⟩ := by rfl
example : mmlcMain demoLib ["mmlc".toList, "s.mml".toList, "--output".toList, "o".toList, "-f".toList, "zzz".toList] =
    .done failR := by rfl
def demoLink : LinkLib :=
  ⟨fun _ => .ok (), fun _ => .ok ⟨1, "s"⟩, fun _ => .error .input, fun _ => .ok ⟨3, "a"⟩, fun _ => .ok ⟨4, "c"⟩⟩
example : linkMain demoLink ["mdslink".toList, "a.mml".toList, "-o".toList, "x".toList, [], "-h".toList, "h".toList] =
    .done ⟨0, false, [("x".toList, ⟨1, "s"⟩), ("h".toList, ⟨4, "c"⟩)]⟩ := by rfl
example : linkMain demoLink ["mdslink".toList, "a.mml".toList] =
    .done (failR [("mdsseq.bin".toList, ⟨1, "s"⟩)]) := by rfl

/-- NOT PROVED (kept as the full statement of the option-handling part): every well-formed
command line — items in any order and either spelling, an input path that is not spelled like
an option — has the outcome `Spec.mmlcOutcome` of its request.  What is proved instead:
`C19_exit_zero_iff_written` and `C19_no_crash` for ALL argument vectors over the model's own
parse (`mmlcArgs`); that `mmlcArgs` computes `Spec.request` on rendered item lists is checked
by the judge on every generated command (Spec.request vs. the model's plan, and
Spec.mmlcVerdict on the observed run) but is not a theorem. -/
def C19_full_statement : Prop :=
  ∀ (lib : MmlcLib) (prog : Str) (items : List Spec.Item), (∀ it ∈ items, it.ok) →
    mmlcMain lib (prog :: (items.map Spec.Item.render).flatten) = .done (Spec.mmlcOutcome lib (Spec.request items {}))

end Ctrmml.Cli
