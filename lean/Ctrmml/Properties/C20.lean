/-
  C20 — Configuration text parses to the tree it denotes.  Property theorems only; the
  model is Model/Conf.lean, the documented syntax (decorated trees, `text`, `erase`,
  `legal`, `Renders`) is Spec/ConfRender.lean, helper lemmas are Proofs/ConfFuel.lean and
  Proofs/ConfRoundtrip.lean.

  All four main theorems are at full strength (no `_partial`): they hold for the code
  after the two `fix:` commits (7587463 backslash before the NUL, 0496ec2 stray `}`); the
  two `…_before_fix` theorems are the counterexamples against the code as it was.
-/
import Ctrmml.Proofs.ConfRoundtrip
namespace Ctrmml.ConfModel
open Ctrmml Ctrmml.ConfSpec

/-- Round trip.  `Renders t r` = "`r` is the text of some legal decorated tree that denotes
`t`": any tree depth, keys spelled bare or quoted with any mix of literal and escaped
characters, any of the node forms `k` / `k,` / `,` / `k: c` / `k { … }`, any blanks and `;`
comments where the syntax admits filler.  Every such text parses to exactly `t`.
Restrictions on keys are only those inside `legal`: a bare key is non-empty, contains no
delimiter and does not begin with VT/FF; a quoted key is arbitrary. -/
theorem C20_conf_roundtrip (t : Conf) (r : List Char) (h : Renders t r) : fromString r = .ok t := by
  obtain ⟨s, hl, rfl, rfl⟩ := h
  obtain ⟨ns, trail, lc⟩ := s
  simp only [STop.legal, Bool.and_eq_true] at hl
  obtain ⟨⟨hns, htr⟩, hlc⟩ := hl
  have key : ∀ e, Term e [] → STop.text ⟨ns, trail, lc⟩ = SNode.texts ns ++ (gapText trail ++ e) →
      fromString (STop.text ⟨ns, trail, lc⟩) = .ok (STop.erase ⟨ns, trail, lc⟩) := by
    intro e ht he
    have hb := (list_parse ns hns [] trail _ _ htr ht).1
    rw [← he] at hb
    have := top_of_block _ [] (STop.text ⟨ns, trail, lc⟩) _ (Nat.le_refl _) hb
    simp only [fromString, this, STop.erase, List.nil_append]
  cases lc with
  | none => exact key [] Term.eof rfl
  | some b => exact key (';' :: b) (Term.lastComment b (by simpa using hlc)) rfl

/-- Termination: on every input string every loop of `parse_token` / `from_string` ends —
the model's budget of `2·|s|+2` loop iterations is never exhausted. -/
theorem C20_conf_terminates (s : List Char) : fromString s ≠ .error .fuel := by
  unfold fromString
  have := top_ne_fuel (2 * s.length + 2) [] s (Nat.le_refl _)
  cases h : top (2 * s.length + 2) [] s with
  | ok subs => simp
  | error e => rw [h] at this; simpa using this

/-- No input makes the parser read past the terminating NUL. -/
theorem C20_conf_no_oob (s : List Char) : fromString s ≠ .error .oob := by
  unfold fromString
  have := top_noOob (2 * s.length + 2) [] s
  cases h : top (2 * s.length + 2) [] s with
  | ok subs => simp
  | error e => rw [h] at this; simpa using this

/-- Hence every input ends in a tree or in one of the two diagnosed errors. -/
theorem C20_conf_total (s : List Char) :
    (∃ t, fromString s = .ok t) ∨ fromString s = .error .missingBrace ∨ fromString s = .error .strayBrace := by
  have h1 := C20_conf_terminates s
  have h2 := C20_conf_no_oob s
  cases h : fromString s with
  | ok t => exact Or.inl ⟨t, rfl⟩
  | error e => cases e <;> simp_all

/-- The syntax can denote every tree: any tree of subkeys under the (empty-keyed) root has
a rendering — so the round-trip theorem is not about a thin slice of trees. -/
theorem C20_every_tree_has_a_rendering (subs : List Conf) : ∃ r, Renders (.mk [] subs) r := by
  have h := plainNodes_ok subs
  exact ⟨_, ⟨plainNodes subs, [], none⟩, by simp [STop.legal, h.1, gapLegal], by simp [STop.erase, h.2], rfl⟩

/-! ### the code before the fixes (counterexamples; replayed on the real code as
`conf 7d`, `conf 61207d` → timeout and `conf 225c`, `conf 22615c` → ASan heap-buffer-overflow) -/

/-- D14: with the old top-level loop a `}` at top level is never consumed — whatever the
budget, the loop is still running when it is used up. -/
theorem C20_D14_before_fix (n : Nat) (acc : List Conf) (r : List Char) :
    Pre.top parseToken n acc ('}' :: r) = .error .fuel := by
  induction n generalizing acc with
  | zero => rfl
  | succ n ih =>
    cases n with
    | zero => simp [Pre.top, parseToken, loop_zero]
    | succ m =>
      have : parseToken (m + 1) ('}' :: r) = .ok (none, '}' :: r) := by
        simp [parseToken, loop_succ, loopBody_rbrace, finish]
      simp only [Pre.top, this]
      exact ih _

/-- D17: the old quoted-key scanner, on a key that ends in a backslash, reads the byte
after the terminating NUL. -/
theorem C20_D17_before_fix (k pre : List Char) (h : ∀ c ∈ pre, c ≠ '\\' ∧ c ≠ '"') :
    Pre.quoted k (pre ++ ['\\']) = .error .oob := by
  induction pre generalizing k with
  | nil => simp [Pre.quoted]
  | cons c cs ih =>
    have hc := h c (by simp)
    have := ih (k ++ [c]) (fun d hd => h d (by simp [hd]))
    simp only [List.cons_append]
    unfold Pre.quoted
    simp [hc.1, hc.2, this]

/-! ### non-vacuity -/

/-- `a { b, "c d":e ; note⏎ } "x\"y"` — bare and quoted keys, an escape, braces, comma, colon,
a comment, open keys, filler.  -/
def exTop : STop :=
  { nodes :=
      [ .braces [] (some (.bare ['a'])) [.ws ' ' []]
          [ .comma [.ws ' ' []] (some (.bare ['b'])) [],
            .colon [.ws ' ' []] (some (.quoted [.lit 'c', .lit ' ', .lit 'd'])) [] (.leaf [] (.bare ['e'])) ]
          [.ws ' ' [], .comment [' ', 'n', 'o', 't', 'e'] '\n', .ws ' ' []],
        .leaf [.ws ' ' []] (.quoted [.lit 'x', .esc '"', .lit 'y']) ],
    trail := [], lastComment := some [' ', 'e', 'n', 'd'] }

example : exTop.legal = true := by decide
example : Renders exTop.erase exTop.text := ⟨exTop, by decide, rfl, rfl⟩
example : fromString exTop.text = .ok exTop.erase :=
  C20_conf_roundtrip _ _ ⟨exTop, by decide, rfl, rfl⟩
/-- the same text, computed: `a { b, "c d":e ; note⏎ } "x\"y"; end` -/
example : String.ofList exTop.text = "a { b, \"c d\":e ; note\n } \"x\\\"y\"; end" := by decide
example : exTop.erase =
    .mk [] [.mk ['a'] [.mk ['b'] [], .mk ['c', ' ', 'd'] [.mk ['e'] []]], .mk ['x', '"', 'y'] []] := rfl

/-- the model computes: the documented errors and the fixed behaviours -/
example : fromString ['a', ' ', '}'] = .error .strayBrace := rfl
example : fromString ['a', ' ', '{'] = .error .missingBrace := rfl
example : (fromString ['"', 'a', '\\']).toOption.map Conf.subkeys = some [.mk ['a'] []] := rfl
example : Pre.top parseToken 100 [] ['a', ' ', '}'] = .error .fuel := rfl
example : Pre.quoted [] ['a', '\\'] = .error .oob := C20_D17_before_fix [] ['a'] (by decide)

end Ctrmml.ConfModel
