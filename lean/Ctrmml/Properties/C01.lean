/-
  C01 — Optimisation never changes what is played.

  Rewrite soundness of the two rewrites `Optimizer::apply_match` performs on the flat event
  lists of a song (src/optimizer.cpp), against the specification of what a track means
  (`Spec/Tree.parse`, `Spec/Expand.perf`):

  * loop fold:  `A·A^k·A0 ↦ [ A0 / A1 ](k+2)` with `A = A0·A1` (break only if there is a
    remainder `A0`; otherwise `A^(k+1) ↦ [ A ](k+1)`),
  * subroutine extraction: occurrences of `X ↦ JUMP id`, new track `id = X`.

  What is compared is `obs` (`Spec/Played`): the played projection with durations, the total
  length and the loop-point time of the expansion `perf song track`.

  The theorems hold for EVERY song, every track list, every context `pre`/`post` around the
  rewritten segment (the context need not be balanced: it may open loops that `post` closes,
  contain stray `LOOP_END`s, …), and for every track of the song — the rewritten one and every
  track that reaches it through calls.  They come in two forms:
  * `…_sound`:    if both expansions are `.ok`, the observations are equal;
  * `…_accepts`:  if the original expansion is `.ok`, the rewritten one is `.ok` (with the same
                  observation) unless it is `.error .depth` — each rewrite adds one stack frame
                  at the place of the rewrite, so a depth budget is unavoidable (defect D18, repaired:
                  `C01_fold_headroom` says exactly how much room a fold needs, and the section "the
                  depth side of the loop fold" ties it to the stack test of `find_match`).

  The hypotheses "no `SEGNO`" and "no `DRUM_MODE`" under which the optimiser applies the
  rewrites are NOT needed for these theorems: `obs` is compositional (`Rewrite.obs_append`) and
  the inserted events are silent, so the loop-point time is preserved even if `A0`, `A1` or
  `X` contain `SEGNO`; `DRUM_MODE` has no meaning in `Spec/Expand` (drum-mode calls are a
  matter of the channel player, C12).  The theorems are therefore stated without them, which
  is stronger.

  The proofs are in `Proofs/Rewrite.lean`.  The notions the statements use — the side conditions
  and segments of the rewrites (`FoldSide`, `foldX`, `foldX'`, `Fold0Side`, `fold0X`, `fold0X'`,
  `ExtractSide`), `obsOf` / `okTrack`, one pass (`Step`, `StepN`), sequences of passes (`chain`,
  `chainN`, `lastSong`), the validator of the property (`validAll`) — are defined in
  `Proofs/OptChain.lean`, with the helper lemmas about them; the well-formedness of songs
  (`SongWF`, `FreshInv`, `SongI16`) and the measure (`totalEvents`, `playedEvents`) in
  `Proofs/OptPass.lean`, `Proofs/OptSubPass.lean`, `Proofs/OptAnalyze.lean`, `Proofs/OptMeasure.lean`.
  This file holds the property theorems, the statements that are not proved (`def … : Prop`) and the
  non-vacuity examples.
-/
import Ctrmml.Proofs.OptChain
import Ctrmml.Proofs.OptCount
import Ctrmml.Proofs.OptDepth
namespace Ctrmml.C01
open Ctrmml Ctrmml.Tree Ctrmml.Expand Ctrmml.Rewrite Tables

/-- repeating an item list `n+1` times is one copy followed by `n` copies -/
theorem C01_repeat_unfold (n : Nat) (l : List Item) : repeatItems (n + 1) l = l ++ repeatItems n l := rfl

/-! ## the loop fold -/

/-- **Loop fold, soundness.**  In a song one of whose tracks contains the segment
`A·A^k·A0` (anywhere: `pre`, `post` arbitrary) replace that segment by `[ A0 / A1 ](k+2)`.
Then every track `id` of the song — the rewritten track itself (`id = tid`, the root of its
own performance) as well as any track that reaches it through calls — has the same observation
before and after, whenever both performances validate. -/
theorem C01_fold_sound {A0 A1 : List Node} {k : Nat} {ls lb le : Event} (h : FoldSide A0 A1 k ls lb le)
    (S S' : Song) (l1 l2 : Tracks) (tid : Nat) (pre post : List Event)
    (hS : S.tracks = l1 ++ (tid, pre ++ foldX A0 A1 k ++ post) :: l2)
    (hS' : S'.tracks = l1 ++ (tid, pre ++ foldX' A0 A1 ls lb le ++ post) :: l2)
    (id : Nat) (t t' : List Event) (ht : S.track? id = some t) (ht' : S'.track? id = some t')
    (items items' : List Item) (hp : perf S t = .ok items) (hp' : perf S' t' = .ok items') :
    obs items' = obs items :=
  (fold_track_rel h hS hS' ht ht').sound hp hp'

/-- **Loop fold, soundness for a root track that is not in the song map** (a player may be
constructed on any event list): the song is unchanged, the root track is rewritten. -/
theorem C01_fold_sound_root {A0 A1 : List Node} {k : Nat} {ls lb le : Event} (h : FoldSide A0 A1 k ls lb le)
    (S : Song) (pre post : List Event)
    (items items' : List Item) (hp : perf S (pre ++ foldX A0 A1 k ++ post) = .ok items)
    (hp' : perf S (pre ++ foldX' A0 A1 ls lb le ++ post) = .ok items') :
    obs items' = obs items := by
  have htr : SongRel (foldSrc A0 A1 k) (foldDst A0 A1 ls lb le) S S :=
    SongRel.of_tracks (TracksRel.refl (ERel.refl _ _) _)
  have hr : ERel (foldSrc A0 A1 k) (foldDst A0 A1 ls lb le)
      (pre ++ foldX A0 A1 k ++ post) (pre ++ foldX' A0 A1 ls lb le ++ post) := by
    rw [foldX_eq, foldDstX_eq]; exact ERel.ctx _ _ pre post
  exact (C01_fold_rel h htr hr).sound hp hp'

/-- **Loop fold, acceptance.**  If the original performance validates, the folded one validates
too (and plays the same) unless it runs out of stack frames: the only new failure a fold can
cause is `.error .depth` (the fold adds one frame around `A0 A1`). -/
theorem C01_fold_accepts {A0 A1 : List Node} {k : Nat} {ls lb le : Event} (h : FoldSide A0 A1 k ls lb le)
    (S S' : Song) (l1 l2 : Tracks) (tid : Nat) (pre post : List Event)
    (hS : S.tracks = l1 ++ (tid, pre ++ foldX A0 A1 k ++ post) :: l2)
    (hS' : S'.tracks = l1 ++ (tid, pre ++ foldX' A0 A1 ls lb le ++ post) :: l2)
    (id : Nat) (t t' : List Event) (ht : S.track? id = some t) (ht' : S'.track? id = some t')
    (items : List Item) (hp : perf S t = .ok items) (hd : perf S' t' ≠ .error .depth) :
    ∃ items', perf S' t' = .ok items' ∧ obs items' = obs items := by
  have hr := fold_track_rel h hS hS' ht ht'
  obtain ⟨y, hy⟩ := hr.accepts hp hd
  exact ⟨y, hy, hr.sound hp hy⟩

/-! ### the variant without remainder (no `LOOP_BREAK` is emitted) -/

/-- **Loop fold without remainder, soundness**: `A^(k+1) ↦ [ A ](k+1)`. -/
theorem C01_fold0_sound {A : List Node} {k : Nat} {ls le : Event} (h : Fold0Side A k ls le)
    (S S' : Song) (l1 l2 : Tracks) (tid : Nat) (pre post : List Event)
    (hS : S.tracks = l1 ++ (tid, pre ++ fold0X A k ++ post) :: l2)
    (hS' : S'.tracks = l1 ++ (tid, pre ++ fold0X' A ls le ++ post) :: l2)
    (id : Nat) (t t' : List Event) (ht : S.track? id = some t) (ht' : S'.track? id = some t')
    (items items' : List Item) (hp : perf S t = .ok items) (hp' : perf S' t' = .ok items') :
    obs items' = obs items :=
  (fold0_track_rel h hS hS' ht ht').sound hp hp'

/-- **Loop fold without remainder, acceptance.** -/
theorem C01_fold0_accepts {A : List Node} {k : Nat} {ls le : Event} (h : Fold0Side A k ls le)
    (S S' : Song) (l1 l2 : Tracks) (tid : Nat) (pre post : List Event)
    (hS : S.tracks = l1 ++ (tid, pre ++ fold0X A k ++ post) :: l2)
    (hS' : S'.tracks = l1 ++ (tid, pre ++ fold0X' A ls le ++ post) :: l2)
    (id : Nat) (t t' : List Event) (ht : S.track? id = some t) (ht' : S'.track? id = some t')
    (items : List Item) (hp : perf S t = .ok items) (hd : perf S' t' ≠ .error .depth) :
    ∃ items', perf S' t' = .ok items' ∧ obs items' = obs items := by
  have hr := fold0_track_rel h hS hS' ht ht'
  obtain ⟨y, hy⟩ := hr.accepts hp hd
  exact ⟨y, hy, hr.sound hp hy⟩

/-! ## subroutine extraction -/

/-- **Subroutine extraction, any number of occurrences in any tracks.**  `ts'` is the track
list of `S` with occurrences of `flattenL X` replaced by `[j]` (`TracksRel (ERel X [.ev j])`:
same ids, each track equal up to such replacements at segment positions); the new song is `ts'`
with the fresh track `(id, flattenL X)` inserted anywhere.  Every ORIGINAL track has the same
observation before and after, whenever both performances validate. -/
theorem C01_extract_sound {X : List Node} {j : Event} (h : ExtractSide X j)
    (S S' : Song) (m1 m2 : Tracks)
    (hfresh : S.track? (trackIdOfParam j.param) = none)
    (hrepl : TracksRel (ERel X [.ev j]) S.tracks (m1 ++ m2))
    (hS' : S'.tracks = m1 ++ (trackIdOfParam j.param, flattenL X) :: m2)
    (id : Nat) (t t' : List Event) (ht : S.track? id = some t) (ht' : S'.track? id = some t')
    (items items' : List Item) (hp : perf S t = .ok items) (hp' : perf S' t' = .ok items') :
    obs items' = obs items := by
  obtain ⟨htr, hnew⟩ := SongRel.of_tracks_insert hrepl hS' hfresh
  obtain ⟨t'', h1, hr⟩ := htr id t ht
  rw [ht'] at h1
  cases h1
  exact (C01_extract_rel h hnew htr hr).sound hp hp'

/-- **Subroutine extraction, acceptance**: the only new failure is `.error .depth` (the call
occupies one frame). -/
theorem C01_extract_accepts {X : List Node} {j : Event} (h : ExtractSide X j)
    (S S' : Song) (m1 m2 : Tracks)
    (hfresh : S.track? (trackIdOfParam j.param) = none)
    (hrepl : TracksRel (ERel X [.ev j]) S.tracks (m1 ++ m2))
    (hS' : S'.tracks = m1 ++ (trackIdOfParam j.param, flattenL X) :: m2)
    (id : Nat) (t t' : List Event) (ht : S.track? id = some t) (ht' : S'.track? id = some t')
    (items : List Item) (hp : perf S t = .ok items) (hd : perf S' t' ≠ .error .depth) :
    ∃ items', perf S' t' = .ok items' ∧ obs items' = obs items := by
  obtain ⟨htr, hnew⟩ := SongRel.of_tracks_insert hrepl hS' hfresh
  obtain ⟨t'', h1, hr⟩ := htr id t ht
  rw [ht'] at h1
  cases h1
  have hrr := C01_extract_rel h hnew htr hr
  obtain ⟨y, hy⟩ := hrr.accepts hp hd
  exact ⟨y, hy, hrr.sound hp hy⟩

/-- **Subroutine extraction, one occurrence** `pre ++ flattenL X ++ post ↦ pre ++ [j] ++ post`
in track `tid`. -/
theorem C01_extract_one_sound {X : List Node} {j : Event} (h : ExtractSide X j)
    (S S' : Song) (l1 l2 m1 m2 : Tracks) (tid : Nat) (pre post : List Event)
    (hfresh : S.track? (trackIdOfParam j.param) = none)
    (hS : S.tracks = l1 ++ (tid, pre ++ flattenL X ++ post) :: l2)
    (hm : m1 ++ m2 = l1 ++ (tid, pre ++ [j] ++ post) :: l2)
    (hS' : S'.tracks = m1 ++ (trackIdOfParam j.param, flattenL X) :: m2)
    (id : Nat) (t t' : List Event) (ht : S.track? id = some t) (ht' : S'.track? id = some t')
    (items items' : List Item) (hp : perf S t = .ok items) (hp' : perf S' t' = .ok items') :
    obs items' = obs items := by
  apply C01_extract_sound h S S' m1 m2 hfresh ?_ hS' id t t' ht ht' items items' hp hp'
  rw [hS, hm, ← flatten_jump j]
  exact TracksRel.one (ERel.refl _ _) l1 l2 tid (ERel.ctx _ _ pre post)

/-! ## sequences of passes -/

/-- **Any finite sequence of passes preserves the observation of every original track**,
provided the track validates in every intermediate song. -/
theorem C01_passes_preserve (S : Song) (l : List Song) (hc : chain S l) (id : Nat)
    (h0 : okTrack S id) (hall : ∀ T ∈ l, okTrack T id) :
    obsOf (lastSong S l) id = obsOf S id := by
  induction l generalizing S with
  | nil => rfl
  | cons S1 r ih =>
    obtain ⟨hs, hr⟩ := hc
    have h1 : okTrack S1 id := hall S1 (List.mem_cons_self)
    have := ih S1 hr h1 (fun T hT => hall T (List.mem_cons_of_mem _ hT))
    simp only [lastSong]
    rw [this]
    exact hs.preserve h0 h1

/-- the same with the weaker premise that no intermediate performance of the track runs out of
stack frames: then all of them validate -/
theorem C01_passes_preserve_nodepth (S : Song) (l : List Song) (hc : chain S l) (id : Nat)
    (h0 : okTrack S id)
    (hall : ∀ T ∈ l, ∀ t', T.track? id = some t' → perf T t' ≠ .error .depth) :
    okTrack (lastSong S l) id ∧ obsOf (lastSong S l) id = obsOf S id := by
  induction l generalizing S with
  | nil => exact ⟨h0, rfl⟩
  | cons S1 r ih =>
    obtain ⟨hs, hr⟩ := hc
    have h1 : okTrack S1 id := hs.accepts h0 (hall S1 (List.mem_cons_self))
    obtain ⟨i1, i2⟩ := ih S1 hr h1 (fun T hT => hall T (List.mem_cons_of_mem _ hT))
    simp only [lastSong]
    exact ⟨i1, by rw [i2]; exact hs.preserve h0 h1⟩

/-- The full property, for an optimiser model that is still to be written (the search
`find_best_match`, the stack analysis and the pass loop of src/optimizer.cpp): it is a parameter
here, with the hypothesis that a normal return is a sequence of passes.  NOT proved, and not
provable from that hypothesis alone: one also has to show that the optimiser always returns
normally and that its stack analysis keeps every intermediate performance within the depth limit
(that is where defects D1/D18/D28 live); given that, `C01_passes_preserve_nodepth` concludes. -/
def C01_full_statement : Prop :=
  ∀ (optimize : Nat → Song → Except Unit Song),
    (∀ thr S S', optimize thr S = .ok S' → ∃ l, chain S l ∧ lastSong S l = S') →
    ∀ (thr : Nat) (S : Song), (∀ id, S.track? id ≠ none → okTrack S id) →
      ∃ S', optimize thr S = .ok S' ∧ ∀ id, S.track? id ≠ none → obsOf S' id = obsOf S id

/-- what is proved of it: every normal return whose intermediate songs stay within the depth
limit has the same observation for every original track -/
theorem C01_full_partial (optimize : Nat → Song → Except Unit Song)
    (hopt : ∀ thr S S', optimize thr S = .ok S' → ∃ l, chain S l ∧ lastSong S l = S' ∧
      ∀ T ∈ l, ∀ id t', T.track? id = some t' → perf T t' ≠ .error .depth)
    (thr : Nat) (S S' : Song) (hS : ∀ id, S.track? id ≠ none → okTrack S id)
    (hr : optimize thr S = .ok S') (id : Nat) (hid : S.track? id ≠ none) :
    okTrack S' id ∧ obsOf S' id = obsOf S id := by
  obtain ⟨l, hc, hl, hd⟩ := hopt thr S S' hr
  rw [← hl]
  exact C01_passes_preserve_nodepth S l hc id (hS id hid) (fun T hT t' ht' => hd T hT id t' ht')


/-! ## concrete instances

The hypotheses are satisfiable by non-trivial values, and the conclusions are checked by
kernel evaluation (`decide`) on small songs. -/
namespace Ex

instance : DecidableEq (Nat × Int × Nat × Nat) := inferInstance
instance : DecidableEq Obs := inferInstance

def note (n : Int) : Event := ⟨ev_NOTE, n, 6, 0⟩
def lsE : Event := ⟨ev_LOOP_START, 0, 0, 0⟩
def lbE : Event := ⟨ev_LOOP_BREAK, 0, 0, 0⟩
def leE (n : Int) : Event := ⟨ev_LOOP_END, n, 0, 0⟩
def jmp (n : Int) : Event := ⟨ev_JUMP, n, 0, 0⟩
def segnoE : Event := ⟨ev_SEGNO, 0, 0, 0⟩

/-- `A0 = c`, `A1 = [d]2 e` -/
def A0 : List Node := [.ev (note 1)]
def A1 : List Node := [.loop lsE [.ev (note 2)] (leE 2), .ev (note 3)]

theorem side : FoldSide A0 A1 1 lsE lbE (leE 3) := by
  constructor <;> first | decide | (simp [A0, A1, closedL, Node.closed] <;> decide)

/-- the context opens a loop before the segment and closes it after it (so neither `pre` nor
`post` is balanced), and has a loop point -/
def pre : List Event := [note 9, segnoE, lsE, note 8]
def post : List Event := [note 7, leE 2, note 6]

/-- track 0 calls track 1, which contains `A A A0` -/
def S : Song := { tracks := [(0, [note 5, jmp 1, note 5]), (1, pre ++ foldX A0 A1 1 ++ post)] }
def S' : Song := { tracks := [(0, [note 5, jmp 1, note 5]), (1, pre ++ foldX' A0 A1 lsE lbE (leE 3) ++ post)] }

example : foldX A0 A1 1 = [note 1, lsE, note 2, leE 2, note 3, note 1, lsE, note 2, leE 2, note 3, note 1] := by decide
example : foldX' A0 A1 lsE lbE (leE 3) = [lsE, note 1, lbE, lsE, note 2, leE 2, note 3, leE 3] := by decide

/-- the theorem applies to this song: for the rewritten track and for its caller -/
example (id : Nat) (t t' : List Event) (ht : S.track? id = some t) (ht' : S'.track? id = some t')
    (items items' : List Item) (hp : perf S t = .ok items) (hp' : perf S' t' = .ok items') :
    obs items' = obs items :=
  C01_fold_sound side S S' [(0, [note 5, jmp 1, note 5])] [] 1 pre post rfl rfl id t t' ht ht' items items' hp hp'

/-- … and its conclusion, evaluated: both tracks validate before and after and are observed equal
(24 notes and the loop point event in track 1, 144 ticks, loop point at tick 6) -/
example : obsOf S' 1 = obsOf S 1 ∧ obsOf S' 0 = obsOf S 0 ∧
    (obsOf S 1).map (fun o => (o.1.length, o.2)) = some (25, 144, some 6) ∧ (obsOf S 0).isSome = true := by
  decide

/-- the depth proviso of `C01_fold_accepts` cannot be dropped (defect D18): nine enclosing loops
plus the loop inside `A1` use all ten frames; the fold needs an eleventh -/
def deepPre : List Event := List.replicate 9 lsE
def deepPost : List Event := List.replicate 9 (leE 1)

def isOk : Res → Bool | .ok _ => true | .error _ => false
def isDepthErr : Res → Bool | .error .depth => true | _ => false

example : isOk (perf ⟨[]⟩ (deepPre ++ foldX A0 A1 0 ++ deepPost)) = true ∧
    isDepthErr (perf ⟨[]⟩ (deepPre ++ foldX' A0 A1 lsE lbE (leE 2) ++ deepPost)) = true := by
  decide

/-- fold without remainder: `(c [d]2 e)^3 ↦ [c [d]2 e]3` -/
theorem side0 : Fold0Side (A0 ++ A1) 2 lsE (leE 3) := by
  constructor <;> first | decide | (simp [A0, A1, closedL, Node.closed] <;> decide)

def T : Song := { tracks := [(3, pre ++ fold0X (A0 ++ A1) 2 ++ post)] }
def T' : Song := { tracks := [(3, pre ++ fold0X' (A0 ++ A1) lsE (leE 3) ++ post)] }

example (id : Nat) (t t' : List Event) (ht : T.track? id = some t) (ht' : T'.track? id = some t')
    (items items' : List Item) (hp : perf T t = .ok items) (hp' : perf T' t' = .ok items') :
    obs items' = obs items :=
  C01_fold0_sound side0 T T' [] [] 3 pre post rfl rfl id t t' ht ht' items items' hp hp'

example : obsOf T' 3 = obsOf T 3 ∧ (obsOf T 3).isSome = true := by decide

/-- extraction of `X = c [d]2 e` (twice in track 0, once inside a loop of track 2) into the
fresh track 15000 -/
def X : List Node := A0 ++ A1
def j : Event := jmp 15000

theorem sideX : ExtractSide X j := by
  constructor <;> first | decide | (simp [X, A0, A1, closedL, Node.closed] <;> decide)

def U : Song := { tracks := [(0, [note 9] ++ flattenL X ++ [note 8] ++ flattenL X ++ [segnoE]),
                             (2, [lsE] ++ flattenL X ++ [leE 2])] }
def U' : Song := { tracks := [(0, [note 9] ++ [j] ++ [note 8] ++ [j] ++ [segnoE]),
                              (2, [lsE] ++ [j] ++ [leE 2]),
                              (15000, flattenL X)] }

example (id : Nat) (t t' : List Event) (ht : U.track? id = some t) (ht' : U'.track? id = some t')
    (items items' : List Item) (hp : perf U t = .ok items) (hp' : perf U' t' = .ok items') :
    obs items' = obs items := by
  refine C01_extract_sound sideX U U' [(0, [note 9] ++ [j] ++ [note 8] ++ [j] ++ [segnoE]),
    (2, [lsE] ++ [j] ++ [leE 2])] [] (by decide) ?_ rfl id t t' ht ht' items items' hp hp'
  refine .cons 0 (erel_two X j _ _ _) (.cons 2 ?_ .nil)
  have := ERel.ctx X [.ev j] [lsE] [leE 2]
  rwa [flatten_jump] at this

example : obsOf U' 0 = obsOf U 0 ∧ obsOf U' 2 = obsOf U 2 ∧ (obsOf U 0).isSome = true ∧
    (obsOf U 2).isSome = true := by decide

/-- a one-step chain for `C01_passes_preserve` -/
example : chain S [S'] :=
  ⟨.fold A0 A1 1 lsE lbE (leE 3) side
      (fold_songRel (l1 := [(0, [note 5, jmp 1, note 5])]) (l2 := []) (tid := 1) (pre := pre) (post := post) rfl rfl),
    trivial⟩

end Ex

end Ctrmml.C01


/-! # Layers 2–3: the executable optimiser (`Model/Optimizer.lean`) performs these rewrites

`Opt.applyMatch` compares events with `sameEvent`, i.e. up to the param of a `LOOP_BREAK` (which
the players use as scratch space).  The specification does not depend on those params
(`OptSteps.perf_brk`), so a pass of the optimiser is a `Step` *up to `LOOP_BREAK` params*:
`StepN`. -/
namespace Ctrmml.C01
open Ctrmml Ctrmml.Tree Ctrmml.Expand Ctrmml.Rewrite Ctrmml.Opt Ctrmml.OptSteps Tables

/-- `C01_passes_preserve_nodepth` for passes up to `LOOP_BREAK` params -/
theorem C01_passesN_preserve_nodepth (S : Song) (l : List Song) (hc : chainN S l) (id : Nat)
    (h0 : okTrack S id)
    (hall : ∀ T ∈ l, ∀ t', T.track? id = some t' → perf T t' ≠ .error .depth) :
    okTrack (lastSong S l) id ∧ obsOf (lastSong S l) id = obsOf S id := by
  induction l generalizing S with
  | nil => exact ⟨h0, rfl⟩
  | cons S1 r ih =>
    obtain ⟨hs, hr⟩ := hc
    have h1 : okTrack S1 id := hs.accepts h0 (hall S1 (List.mem_cons_self))
    obtain ⟨i1, i2⟩ := ih S1 hr h1 (fun T hT => hall T (List.mem_cons_of_mem _ hT))
    simp only [lastSong]
    exact ⟨i1, by rw [i2]; exact hs.preserve h0 h1⟩

/-! ## the loop branch of `apply_match` is a loop fold -/

/-- **The loop branch of `apply_match` is one loop fold** (`Step.fold` if the matched length is
not a multiple of the period — a `LOOP_BREAK` is emitted — and `Step.fold0` otherwise), up to
`LOOP_BREAK` params.

Hypotheses: `bm` satisfies the conditions under which `find_match` records a loop candidate
(`LoopOK`; `findMatch_loopOK` below shows that every match returned by `find_match` with a
non-zero `loopLength` does), the loop branch is taken, the rewritten track contains no explicit
`END` event and its `LOOP_BREAK`s have zero duration (true of every song the MML front end and
the optimiser produce).  The folded length `L` is the matched `loopLength` capped to 254 whole
repetitions (`capLoopLength`, repair of defect D2: the repeat count `L/len + 1 (+1)` is at most
255, `C01_fold_count_le_255`; before the repair this theorem needed the hypothesis that the count
fits `int16_t`); a capped fold is the rewrite without remainder with `k = 254`
(`LoopWindow.cap`), the repetitions beyond it stay in `post`.
With `A = src[position, loopPosition)`, `k = L / |A|`, `bp = L % |A|`: `A0 = parse A[0,bp)`,
`A1 = parse A[bp,|A|)`, `le.param = k + 2` (`k + 1` without remainder). -/
theorem applyMatch_loop_is_step {song : Song} {m : SAMap} {bm : Match} {subId : Int} {src : List Event}
    (hok : LoopOK song m bm) (hbr : ¬ bm.loopScore < bm.subScore)
    (hsrc : song.track? bm.trackId = some src) (hne : NoEnd src) (hbz : BrkZero src) :
    ∃ S', applyMatch song m bm subId = .ok (S', m, subId) ∧ StepN song S' ∧
      S' = setTrack song bm.trackId (foldedTrack src bm.position bm.loopPosition
        (capLoopLength (bm.loopPosition - bm.position) bm.loopLength)) := by
  refine ⟨_, applyMatch_loop_eq hsrc hbr, ?_, rfl⟩
  have hw := (hok.window hsrc hbz).cap hok.lt
  have hrep := capLoopLength_rep bm.loopLength (Nat.sub_pos_of_lt hok.lt)
  obtain ⟨p, hp⟩ : ∃ p, p = bm.position := ⟨_, rfl⟩
  obtain ⟨q, hq⟩ : ∃ q, q = bm.loopPosition := ⟨_, rfl⟩
  obtain ⟨L, hL⟩ : ∃ L, L = capLoopLength (bm.loopPosition - bm.position) bm.loopLength := ⟨_, rfl⟩
  have hpq : p < q := by rw [hp, hq]; exact hok.lt
  rw [← hL] at hw hrep ⊢
  rw [← hp, ← hq] at hw hrep ⊢
  obtain ⟨pre, hpre⟩ : ∃ pre, pre = src.take p := ⟨_, rfl⟩
  obtain ⟨A, hA⟩ : ∃ A, A = (src.drop p).take (q - p) := ⟨_, rfl⟩
  obtain ⟨post, hpost⟩ : ∃ post, post = src.drop (q + L) := ⟨_, rfl⟩
  obtain ⟨k, hk⟩ : ∃ k, k = L / (q - p) := ⟨_, rfl⟩
  obtain ⟨bp, hbp⟩ : ∃ bp, bp = L % (q - p) := ⟨_, rfl⟩
  have hneA : NoEnd A := by rw [hA]; exact noEnd_take (noEnd_drop hne p) _
  obtain ⟨c0, b0, f0⟩ := forest_of_scan (l := A.take bp) (noEnd_take hneA bp) (by rw [hA, hbp]; exact hw.bal0)
  obtain ⟨c1, b1, f1⟩ := forest_of_scan (l := A.drop bp) (noEnd_drop hneA bp) (by rw [hA, hbp]; exact hw.bal1)
  -- the song with the later copies replaced by exact copies of `A`
  let src1 := pre ++ (A ++ (List.replicate k A).flatten ++ A.take bp) ++ post
  have hn1 : normL src1 = normL src := by
    have hs := split4 src p q L (Nat.le_of_lt hpq)
    have hper := hw.per
    rw [← hA, ← hk, ← hbp] at hper
    conv => rhs; rw [hs]
    simp only [src1, normL, List.map_append, ← hpre, ← hA, ← hpost] at hper ⊢
    rw [hper]
    simp [List.append_assoc]
  have hb : BrkEqv song (setTrack song bm.trackId src1) := by
    intro id
    rw [track?_setTrack hsrc]
    split
    · rename_i h; subst h; rw [hsrc]; simp [hn1]
    · rfl
  refine ⟨setTrack song bm.trackId src1, hb, ?_⟩
  by_cases hb0 : bp = 0
  · -- no remainder: `A^(k+1) ↦ [A](k+1)`
    obtain ⟨cA, bA, fA⟩ := forest_of_scan hneA (by rw [hA]; exact hw.balA)
    have hfold : foldedTrack src p q L = pre ++ fold0X' (parse A) lsEv (leEv ((k : Int) + 1)) ++ post := by
      rw [foldedTrack_nobreak hpq hw.len (by rw [← hbp]; exact hb0) hrep, ← hpre, ← hA, ← hpost, ← hk]
      simp [fold0X', fA]
    have hsrc1 : src1 = pre ++ fold0X (parse A) k ++ post := by
      rw [fold0X, flattenL_replicate, fA, List.replicate_succ, List.flatten_cons]
      simp only [src1, hb0, List.take_zero, List.append_nil]
    refine Step.fold0 (parse A) k lsEv (leEv ((k : Int) + 1))
      ⟨cA, bA, lsEv_kind, leEv_kind _, ⟨rfl, rfl⟩, ⟨rfl, rfl⟩, rfl⟩ ?_
    intro id evs he
    rw [track?_setTrack hsrc] at he ⊢
    split at he
    · rename_i h
      simp only [h, if_true]
      cases he
      refine ⟨_, rfl, ?_⟩
      rw [hfold, hsrc1, fold0DstX_eq]
      exact ERel.ctx _ _ pre post
    · rename_i h
      simp only [h, if_false]
      exact ⟨evs, he, ERel.refl _ _ _⟩
  · -- remainder: `A·A^k·A0 ↦ [A0 / A1](k+2)`
    have hfold : foldedTrack src p q L =
        pre ++ foldX' (parse (A.take bp)) (parse (A.drop bp)) lsEv lbEv (leEv ((k : Int) + 2)) ++ post := by
      rw [foldedTrack_break hpq hw.len (by rw [← hbp]; exact hb0) hrep, ← hpre, ← hA, ← hpost, ← hk, ← hbp]
      simp [foldX', f0, f1]
    have hsrc1 : src1 = pre ++ foldX (parse (A.take bp)) (parse (A.drop bp)) k ++ post := by
      simp only [src1, foldX, flattenL_replicate, flattenL_append, f0, f1, List.take_append_drop]
    refine Step.fold (parse (A.take bp)) (parse (A.drop bp)) k lsEv lbEv (leEv ((k : Int) + 2))
      ⟨c0, c1, b0, b1, lsEv_kind, lbEv_kind, leEv_kind _, ⟨rfl, rfl⟩, ⟨rfl, rfl⟩, ⟨rfl, rfl⟩, rfl⟩ ?_
    intro id evs he
    rw [track?_setTrack hsrc] at he ⊢
    split at he
    · rename_i h
      simp only [h, if_true]
      cases he
      refine ⟨_, rfl, ?_⟩
      rw [hfold, hsrc1, foldX_eq, foldDstX_eq]
      exact ERel.ctx _ _ pre post
    · rename_i h
      simp only [h, if_false]
      exact ⟨evs, he, ERel.refl _ _ _⟩

/-! ## passes of `Opt.optimize` that fold loops -/

/-- **One pass of `find_best_match` that takes the loop branch** (or finds nothing) is a loop
fold up to `LOOP_BREAK` params, and keeps the song well formed. -/
theorem pass_loop_is_step {song : Song} {m : SAMap} {subId : Int} {s' : Song} {best : Match} {subId' : Int}
    (hwf : SongWF song) (hfb : findBestMatch song m subId = .ok (s', best, subId'))
    (hl : ¬ best.loopScore < best.subScore) :
    (s' = song ∨ StepN song s') ∧ SongWF s' ∧ subId' = subId := by
  rcases findBestMatch_spec hfb with ⟨_, h1, h2⟩ | ⟨_, ⟨srcT, srcPos, hfm⟩, m', happ⟩
  · exact ⟨Or.inl h1, h1 ▸ hwf, h2⟩
  · obtain ⟨_, _, hss, hlo⟩ := findMatch_spec hwf.nodup hfm
    have hne : best.loopLength ≠ 0 := by
      unfold Match.loopScore at hl
      omega
    have hok := hlo hne
    obtain ⟨len0, hf⟩ := hok.fml
    obtain ⟨src, _, hsrc, _, _⟩ := findMatchLength_spec hf
    obtain ⟨w1, w2, w3⟩ := hwf.track hsrc
    have hw := (hok.window hsrc w2).cap hok.lt
    have hrep := repeats_small hok.lt hw.len w3
    obtain ⟨S', happ', hstep, hS'⟩ := applyMatch_loop_is_step (subId := subId) hok hl hsrc w1 w2
    rw [happ'] at happ
    simp only [Except.ok.injEq, Prod.mk.injEq] at happ
    obtain ⟨rfl, _, rfl⟩ := happ
    refine ⟨Or.inr hstep, ?_, rfl⟩
    rw [hS']
    have hL : 3 ≤ capLoopLength (best.loopPosition - best.position) best.loopLength := by
      have := hok.minLen; rw [minLoopScore_eq] at this
      exact capLoopLength_ge3 (Nat.sub_pos_of_lt hok.lt) this
    obtain ⟨f1, f2, f3⟩ := foldedTrack_wf hok.lt hw.len hL hrep w1 w2
    exact hwf.setTrack hsrc f1 f2 (by omega)

/-- a run of `Opt.optimize` all of whose passes take the loop branch is a chain of loop folds
(up to `LOOP_BREAK` params) through songs that the validator accepts -/
theorem optimize_loop_chain (valid : Song → Bool) (minScore : Int) :
    ∀ (fuel : Nat) (song : Song) (subId : Int) (acc : List Match) (r : OptResult),
    SongWF song → optimize valid minScore fuel song subId acc = .ok r → r.validated = true →
    (∀ bm ∈ r.passes.drop acc.length, ¬ bm.loopScore < bm.subScore) →
    ∃ l, chainN song l ∧ lastSong song l = r.song ∧ (∀ T ∈ l, valid T = true) ∧ SongWF r.song := by
  intro fuel
  induction fuel with
  | zero => intro song subId acc r _ h; simp [optimize] at h
  | succ fuel ih =>
    intro song subId acc r hwf h hv hloop
    obtain ⟨ps, hps⟩ := optimize_passes_prefix valid minScore _ _ _ _ _ h
    unfold optimize at h
    obtain ⟨m, _, h⟩ := bind_ok h
    obtain ⟨x, hfb, h⟩ := bind_ok h
    obtain ⟨s', best, subId'⟩ := x
    simp only at h
    split at h
    · simp only [pure, Except.pure, Except.ok.injEq] at h
      rw [← h] at hv; simp at hv
    · rename_i hval
      have hval' : valid s' = true := by simpa using hval
      -- `best` is the first pass after `acc`
      have hbest : ¬ best.loopScore < best.subScore := by
        apply hloop
        split at h
        · obtain ⟨ps', hps'⟩ := optimize_passes_prefix valid minScore _ _ _ _ _ h
          rw [hps']; simp
        · simp only [pure, Except.pure, Except.ok.injEq] at h
          rw [← h]; simp
      obtain ⟨hstep, hwf', _⟩ := pass_loop_is_step hwf hfb hbest
      split at h
      · obtain ⟨l, hc, hlast, hall, hwfr⟩ := ih s' subId' (acc ++ [best]) r hwf' h hv (by
          intro bm hbm
          apply hloop
          have : List.drop (acc ++ [best]).length r.passes = List.drop 1 (List.drop acc.length r.passes) := by
            rw [List.drop_drop]; simp
          rw [this] at hbm
          exact List.mem_of_mem_drop hbm)
        rcases hstep with rfl | hstep
        · exact ⟨l, hc, hlast, hall, hwfr⟩
        · refine ⟨s' :: l, ⟨hstep, hc⟩, hlast, ?_, hwfr⟩
          intro T hT
          rcases List.mem_cons.1 hT with rfl | hT
          · exact hval'
          · exact hall T hT
      · simp only [pure, Except.pure, Except.ok.injEq] at h
        subst h
        rcases hstep with rfl | hstep
        · exact ⟨[], trivial, rfl, by simp, hwf'⟩
        · exact ⟨[s'], ⟨hstep, trivial⟩, rfl, by simpa using hval', hwf'⟩

/-- **C01 for runs of the optimiser that only fold loops** (`_partial`: the extra hypothesis is
`hloop`, every pass took the loop branch of `apply_match`).  For every well-formed song (distinct
track ids, no explicit `END` event, `LOOP_BREAK`s without duration, tracks shorter than 32767
events) all of whose tracks validate, every threshold `minScore` and every fuel: if
`Opt.optimize` with the validator "every track validates" returns normally with
`validated = true`, then every original track still validates in the optimised song and is
observed the same (what is played with durations, total length, loop-point time). -/
theorem C01_optimize_preserves_partial (song : Song) (minScore : Int) (fuel : Nat) (r : OptResult)
    (hwf : SongWF song) (hok : ∀ id, song.track? id ≠ none → okTrack song id)
    (hr : optimize validAll minScore fuel song (initialSubId song) [] = .ok r) (hv : r.validated = true)
    (hloop : ∀ bm ∈ r.passes, ¬ bm.loopScore < bm.subScore)
    (id : Nat) (hid : song.track? id ≠ none) :
    okTrack r.song id ∧ obsOf r.song id = obsOf song id := by
  obtain ⟨l, hc, hlast, hall, _⟩ := optimize_loop_chain validAll minScore fuel song _ [] r hwf hr hv
    (by simpa using hloop)
  rw [← hlast]
  exact C01_passesN_preserve_nodepth song l hc id (hok id hid)
    (fun T hT t' ht' => validAll_validOK T (hall T hT) id t' ht')

/-! ## the subroutine branch of `apply_match` is a subroutine extraction -/

/-- **The subroutine branch of `apply_match` is one subroutine extraction** (`Step.extract`, any
number of occurrences in any tracks), up to `LOOP_BREAK` params: the new track `(subId, X)` with
`X` the balanced `subLength`-prefix at `position`, that occurrence replaced by the `JUMP`, and every
further replacement made by `find_subroutines` an occurrence of the same phrase up to
`LOOP_BREAK` params (`findMatchLength_spec` with `len = subLength`).

Hypotheses: the subroutine branch is taken; the song is well formed; `subId` is fresh (no track
with that id) and not called anywhere (`hnoj`; follows from freshness for a song all of whose
tracks validate, `noJump_of_valid`); the phrase lies within the track and is balanced (`hbal`;
`findMatch_subOK` shows that the match `find_match` returns has this property).  (The model
inserts the new track into the id-ordered track list with the library's `Array.qsort`;
`OptSteps.qsortPerm_of_core` proves that it returns a permutation.) -/
theorem applyMatch_sub_is_step {song : Song} {m : SAMap} {bm : Match} {subId : Int}
    {src : List Event} (hwf : SongWF song)
    (hbr : bm.loopScore < bm.subScore) (hsrc : song.track? bm.trackId = some src)
    (hfresh : song.track? (trackIdOfParam subId) = none)
    (hnoj : ∀ e ∈ src, e ≠ jumpEvent subId)
    (hlen : bm.position + bm.subLength ≤ src.length)
    (hbal : scan ((src.drop bm.position).take bm.subLength) 0 = some 0)
    {s3 : Song} {m3 : SAMap} {subId' : Int} (h : applyMatch song m bm subId = .ok (s3, m3, subId')) :
    StepN song s3 ∧ subId' = wrap16 (subId + 1) ∧
      SubInv song ((src.drop bm.position).take bm.subLength) (jumpEvent subId) (trackIdOfParam subId) s3 := by
  obtain ⟨w1, w2, _⟩ := hwf.track hsrc
  obtain ⟨hinv, hid⟩ := applyMatch_sub_inv qsortPerm_of_core hwf.nodup hbr hsrc w2 hfresh
    (fun id t ht => (hwf.track ht).2.1) hlen h
    (fun x hx => hnoj x (List.mem_of_mem_drop (List.mem_of_mem_take hx)))
  exact ⟨stepN_of_subInv hinv hfresh (noEnd_take (noEnd_drop w1 _) _) hbal, hid, hinv⟩

/-! ## every pass of `Opt.optimize` is a step; the whole run -/

/-- **One pass of `find_best_match` (`find_match` over every position, then `apply_match`) is a
step**: nothing (score 0), a loop fold, or a subroutine extraction — up to `LOOP_BREAK` params — and
it keeps the song well formed and the next subroutine id fresh. -/
theorem pass_is_step {song : Song} {m : SAMap} {subId : Int} {s' : Song} {best : Match} {subId' : Int}
    (hwf : SongWF song) (hfr : FreshInv song subId) (hval : validAll song = true) (hnext : subId + 1 < 32768)
    (hfb : findBestMatch song m subId = .ok (s', best, subId')) :
    (s' = song ∨ StepN song s') ∧ SongWF s' ∧ FreshInv s' subId' ∧ subId' ≤ subId + 1 := by
  by_cases hl : best.loopScore < best.subScore
  · rcases findBestMatch_spec hfb with ⟨_, h1, h2⟩ | ⟨hbs, ⟨srcT, srcPos, hfm⟩, m', happ⟩
    · exact ⟨Or.inl h1, h1 ▸ hwf, by rw [h1, h2]; exact hfr, by omega⟩
    · obtain ⟨ht, hp, hss, _⟩ := findMatch_spec hwf.nodup hfm
      obtain ⟨src, hsrc⟩ := findMatch_track hfm
      have hpos : 0 < best.subScore := by
        unfold Match.bestScore at hbs
        rw [if_pos hl] at hbs
        omega
      have hso := findMatch_subOK hsrc hfm hpos
      obtain ⟨hlen, hbal⟩ := subOK_balanced hsrc hso
      have hsrc' : song.track? best.trackId = some src := by rw [ht]; exact hsrc
      rw [← hp] at hlen hbal
      have hfresh := hfr.track_none
      obtain ⟨hstep, hid, hinv⟩ := applyMatch_sub_is_step hwf hl hsrc' hfresh
        (noJump_of_valid hwf hval hfresh hsrc') hlen hbal happ
      obtain ⟨g1, g2⟩ := subPass_wf qsortPerm_of_core hwf hfr hnext hl hsrc' hlen hso.1 happ hinv
      have hw : wrap16 (subId + 1) = subId + 1 := wrap16_small (by have := hfr.lo; omega) hnext
      rw [hw] at hid
      exact ⟨Or.inr hstep, g1, by rw [hid]; exact g2, by omega⟩
  · obtain ⟨h1, h2, h3⟩ := pass_loop_is_step hwf hfb hl
    refine ⟨h1, h2, ?_, by omega⟩
    rw [h3]
    rcases findBestMatch_spec hfb with ⟨_, g1, _⟩ | ⟨_, ⟨srcT, srcPos, hfm⟩, m', happ⟩
    · rw [g1]; exact hfr
    · -- the loop branch rewrites an existing track
      obtain ⟨_, _, hss, hlo⟩ := findMatch_spec hwf.nodup hfm
      have hne : best.loopLength ≠ 0 := by
        unfold Match.loopScore at hl
        omega
      have hok := hlo hne
      obtain ⟨len0, hf⟩ := hok.fml
      obtain ⟨src, _, hsrc, _, _⟩ := findMatchLength_spec hf
      rw [applyMatch_loop_eq hsrc hl] at happ
      simp only [Except.ok.injEq, Prod.mk.injEq] at happ
      rw [← happ.1]
      exact hfr.setTrack hsrc _

/-- a run of `Opt.optimize` (with a validator that accepts only songs all of whose tracks
validate) is a chain of steps through songs that validate -/
theorem optimize_chain (valid : Song → Bool) (hvalid : ∀ s, valid s = true → validAll s = true)
    (minScore : Int) :
    ∀ (fuel : Nat) (song : Song) (subId : Int) (acc : List Match) (r : OptResult),
    SongWF song → FreshInv song subId → validAll song = true →
    optimize valid minScore fuel song subId acc = .ok r → r.validated = true →
    subId + ((r.passes.length - acc.length : Nat) : Int) < 32768 →
    ∃ l, chainN song l ∧ lastSong song l = r.song ∧ (∀ T ∈ l, validAll T = true) ∧ SongWF r.song := by
  intro fuel
  induction fuel with
  | zero => intro song subId acc r _ _ _ h; simp [optimize] at h
  | succ fuel ih =>
    intro song subId acc r hwf hfr hval h hv hcnt
    obtain ⟨ps, hps⟩ := optimize_passes_prefix valid minScore _ _ _ _ _ h
    unfold optimize at h
    obtain ⟨m, _, h⟩ := bind_ok h
    obtain ⟨x, hfb, h⟩ := bind_ok h
    obtain ⟨s', best, subId'⟩ := x
    simp only at h
    split at h
    · simp only [pure, Except.pure, Except.ok.injEq] at h
      rw [← h] at hv; simp at hv
    · rename_i hvs
      have hval' : validAll s' = true := hvalid s' (by simpa using hvs)
      -- at least this pass remains
      have hps1 : 1 ≤ ps.length := by
        split at h
        · obtain ⟨ps', hps'⟩ := optimize_passes_prefix valid minScore _ _ _ _ _ h
          have : acc ++ ps = acc ++ [best] ++ ps' := by rw [← hps, hps']
          have := congrArg List.length this
          simp only [List.length_append, List.length_cons, List.length_nil] at this
          omega
        · simp only [pure, Except.pure, Except.ok.injEq] at h
          have : acc ++ ps = acc ++ [best] := by rw [← hps, ← h]
          have := congrArg List.length this
          simp only [List.length_append, List.length_cons, List.length_nil] at this
          omega
      have hlen : r.passes.length - acc.length = ps.length := by rw [hps]; simp
      rw [hlen] at hcnt
      obtain ⟨hstep, hwf', hfr', hid⟩ := pass_is_step hwf hfr hval (by omega) hfb
      split at h
      · obtain ⟨l, hc, hlast, hall, hwfr⟩ := ih s' subId' (acc ++ [best]) r hwf' hfr' hval' h hv (by
          have : r.passes.length - (acc ++ [best]).length = ps.length - 1 := by
            rw [hps]; simp; omega
          rw [this]
          omega)
        rcases hstep with rfl | hstep
        · exact ⟨l, hc, hlast, hall, hwfr⟩
        · refine ⟨s' :: l, ⟨hstep, hc⟩, hlast, ?_, hwfr⟩
          intro T hT
          rcases List.mem_cons.1 hT with rfl | hT
          · exact hval'
          · exact hall T hT
      · simp only [pure, Except.pure, Except.ok.injEq] at h
        subst h
        rcases hstep with rfl | hstep
        · exact ⟨[], trivial, rfl, by simp, hwf'⟩
        · exact ⟨[s'], ⟨hstep, trivial⟩, rfl, by simpa using hval', hwf'⟩

/-- **C01, preservation, for the executable model of the whole optimiser.**  For every well-formed
song (track list in id order without duplicates and ids below 32767, no explicit `END` event,
`LOOP_BREAK`s without duration, tracks shorter than 32767 events) all of whose tracks validate,
every threshold `minScore` and every fuel: if `Opt.optimize` — stack analysis, `find_best_match`,
`apply_match` (loop folds and subroutine extractions), after every pass a validator `valid` that
accepts only songs all of whose tracks validate (`hvalid`; for the `Song_Validator` of the real
code this is `C04_validator_rejects`) — returns normally with `validated = true`, and the
subroutine ids it hands out
stay within `int16_t` (`hcnt`: at most one id per pass; defect D3's neighbourhood), then every
original track still validates in the optimised song and is observed the same: what is played
with durations, total length, loop-point time. -/
theorem C01_optimize_preserves (valid : Song → Bool) (hvalid : ∀ s, valid s = true → validAll s = true)
    (song : Song) (minScore : Int) (fuel : Nat) (r : OptResult)
    (hwf : SongWF song) (hsorted : (song.tracks.map (·.1)).Pairwise (· < ·))
    (hids : ∀ p ∈ song.tracks, p.1 < 32767)
    (hok : ∀ id, song.track? id ≠ none → okTrack song id)
    (hr : optimize valid minScore fuel song (initialSubId song) [] = .ok r) (hv : r.validated = true)
    (hcnt : initialSubId song + (r.passes.length : Int) < 32768)
    (id : Nat) (hid : song.track? id ≠ none) :
    okTrack r.song id ∧ obsOf r.song id = obsOf song id := by
  obtain ⟨l, hc, hlast, hall, _⟩ := optimize_chain valid hvalid minScore fuel song _ [] r hwf
    (initialSubId_fresh hsorted hids) (validAll_of_ok hwf.nodup hok) hr hv (by simpa using hcnt)
  rw [← hlast]
  exact C01_passesN_preserve_nodepth song l hc id (hok id hid)
    (fun T hT t' ht' => validAll_validOK T (hall T hT) id t' ht')

end Ctrmml.C01

/-! ## termination of the pass loop -/
namespace Ctrmml.C01
open Ctrmml Ctrmml.Tree Ctrmml.Expand Ctrmml.Rewrite Ctrmml.Opt Ctrmml.OptSteps Tables

/-- **A pass that folds a loop strictly decreases the termination measure** `(number of events,
number of events that are not loop brackets/breaks)` lexicographically: it erases `L ≥ 3` events,
the first of which is not a bracket, and inserts 2 or 3 brackets. -/
theorem C01_fold_pass_decreases {song : Song} {m : SAMap} {subId : Int} {s' : Song} {best : Match} {subId' : Int}
    (hwf : SongWF song) (hfb : findBestMatch song m subId = .ok (s', best, subId'))
    (hl : ¬ best.loopScore < best.subScore) (hs : 1 ≤ best.bestScore) :
    totalEvents s' < totalEvents song ∨
      (totalEvents s' = totalEvents song ∧ playedEvents s' < playedEvents song) := by
  rcases findBestMatch_spec hfb with ⟨h0, _, _⟩ | ⟨_, ⟨srcT, srcPos, hfm⟩, m', happ⟩
  · omega
  obtain ⟨_, _, hss, hlo⟩ := findMatch_spec hwf.nodup hfm
  have hL3 : 3 ≤ best.loopLength := by
    unfold Match.bestScore at hs
    unfold Match.loopScore at hl hs
    split at hs <;> omega
  have hok := hlo (by omega)
  obtain ⟨len0, hf⟩ := hok.fml
  obtain ⟨src, _, hsrc, _, _⟩ := findMatchLength_spec hf
  obtain ⟨w1, w2, w3⟩ := hwf.track hsrc
  have hw := (hok.window hsrc w2).cap hok.lt
  have hrep := repeats_small hok.lt hw.len w3
  replace hL3 := capLoopLength_ge3 (Nat.sub_pos_of_lt hok.lt) hL3
  rw [applyMatch_loop_eq hsrc hl] at happ
  simp only [Except.ok.injEq, Prod.mk.injEq] at happ
  rw [← happ.1]
  obtain ⟨p, hp⟩ : ∃ p, p = best.position := ⟨_, rfl⟩
  obtain ⟨q, hq⟩ : ∃ q, q = best.loopPosition := ⟨_, rfl⟩
  obtain ⟨L, hL⟩ : ∃ L, L = capLoopLength (best.loopPosition - best.position) best.loopLength := ⟨_, rfl⟩
  have hpq : p < q := by rw [hp, hq]; exact hok.lt
  rw [← hL] at hL3 hw hrep ⊢
  rw [← hp, ← hq] at hw hrep ⊢
  -- the erased events
  have hBlen : ((src.drop q).take L).length = L := by
    rw [List.length_take, List.length_drop]; have := hw.len; omega
  obtain ⟨e, he, hpl⟩ := hw.plain
  have hB1 : 1 ≤ wsum (fun e => if isBracket e then 0 else 1) ((src.drop q).take L) := by
    have : (src.drop q).take L = e :: ((src.drop q).drop 1).take (L - 1) := by
      have h1 : (src.drop q).take L = (src.drop q).take (0 + 1) ++ ((src.drop q).drop (0 + 1)).take (L - 1) := by
        rw [← List.take_add]; congr 1; omega
      rw [take_succ_of_get (j := 0) (by simpa using he)] at h1
      simpa using h1
    rw [this, wsum_cons]
    have : isBracket e = false := by
      unfold isBracket
      simp [hpl.1, hpl.2.1, hpl.2.2]
    simp [this]
  -- both weights
  have t1 := songW_setTrack (fun _ => 1) hwf.nodup hsrc (foldedTrack src p q L)
  have t2 := foldedTrack_weight (fun _ => 1) hpq hw.len hrep
  have n1 := songW_setTrack (fun e => if isBracket e then 0 else 1) hwf.nodup hsrc (foldedTrack src p q L)
  have n2 := foldedTrack_weight (fun e => if isBracket e then 0 else 1) hpq hw.len hrep
  simp only [isBracket_ls, isBracket_lb, isBracket_le, if_true] at n2
  rw [wsum_one, wsum_one, wsum_one, hBlen] at t2
  rw [wsum_one, wsum_one] at t1
  unfold totalEvents playedEvents
  by_cases hb : L % (q - p) = 0
  · simp only [hb, ne_eq, not_true_eq_false, if_false] at t2 n2
    left; omega
  · simp only [hb, ne_eq, not_false_eq_true, if_true] at t2 n2
    by_cases h4 : 4 ≤ L
    · left; omega
    · right
      constructor <;> omega

/-- **A pass that extracts a subroutine strictly decreases the number of events of the song**: the
new track has `subLength ≥ 3` events, the occurrence the match was found at and at least one more
occurrence are replaced by one `JUMP` each (`find_subroutines` finds the occurrence `find_match`
counted again — `OptSubTerm.counted_found` — unless it has already replaced an earlier one). -/
theorem C01_extract_pass_decreases {song : Song} {m : SAMap} {subId : Int} {s' : Song} {best : Match} {subId' : Int}
    (hwf : SongWF song) (hfr : FreshInv song subId)
    (hfb : findBestMatch song m subId = .ok (s', best, subId'))
    (hl : best.loopScore < best.subScore) (hs : 1 ≤ best.bestScore) :
    totalEvents s' + 1 ≤ totalEvents song := by
  rcases findBestMatch_spec hfb with ⟨h0, _, _⟩ | ⟨_, ⟨srcT, srcPos, hfm⟩, m', happ⟩
  · omega
  obtain ⟨ht, hp, _, _⟩ := findMatch_spec hwf.nodup hfm
  obtain ⟨src, hsrc⟩ := findMatch_track hfm
  have hpos : 0 < best.subScore := by
    unfold Match.bestScore at hs
    rw [if_pos hl] at hs
    omega
  have hso := findMatch_subOK2 hsrc hfm hpos
  rw [← ht, ← hp] at hso
  rw [← ht] at hsrc
  exact applyMatch_sub_decreases qsortPerm_of_core hwf.nodup hl hsrc hfr.track_none hso happ

/-- **Every pass after which the pass loop goes on strictly decreases the termination measure**
`(number of events, number of events that are not loop brackets/breaks)`, lexicographically, and
uses up at most one subroutine id per event it removes. -/
theorem C01_pass_decreases {song : Song} {m : SAMap} {subId : Int} {s' : Song} {best : Match} {subId' : Int}
    (hwf : SongWF song) (hfr : FreshInv song subId) (hval : validAll song = true) (hnext : subId + 1 < 32768)
    (hfb : findBestMatch song m subId = .ok (s', best, subId')) (hs : 1 ≤ best.bestScore) :
    (totalEvents s' < totalEvents song ∨
      (totalEvents s' = totalEvents song ∧ playedEvents s' < playedEvents song)) ∧
    subId' + (totalEvents s' : Int) ≤ subId + (totalEvents song : Int) := by
  by_cases hl : best.loopScore < best.subScore
  · have h1 := C01_extract_pass_decreases hwf hfr hfb hl hs
    obtain ⟨_, _, _, h2⟩ := pass_is_step hwf hfr hval hnext hfb
    exact ⟨Or.inl (by omega), by omega⟩
  · have h1 := C01_fold_pass_decreases hwf hfb hl hs
    obtain ⟨_, _, h2⟩ := pass_loop_is_step hwf hfb hl
    refine ⟨h1, ?_⟩
    rw [h2]
    rcases h1 with h | ⟨h, _⟩ <;> omega

/-- a pass keeps the call parameters within `int16_t` -/
theorem pass_i16 {song : Song} {m : SAMap} {subId : Int} {s' : Song} {best : Match} {subId' : Int}
    (hwf : SongWF song) (hfr : FreshInv song subId) (hval : validAll song = true) (hnext : subId + 1 < 32768)
    (hi : SongI16 song) (hfb : findBestMatch song m subId = .ok (s', best, subId')) : SongI16 s' := by
  obtain ⟨_, hwf', _, _⟩ := pass_is_step hwf hfr hval hnext hfb
  rcases findBestMatch_spec hfb with ⟨_, h1, _⟩ | ⟨hbs, ⟨srcT, srcPos, hfm⟩, m', happ⟩
  · rw [h1]; exact hi
  obtain ⟨ht, hp, _, _⟩ := findMatch_spec hwf.nodup hfm
  obtain ⟨src, hsrc⟩ := findMatch_track hfm
  rw [← ht] at hsrc
  have hci : CallI16 src := hi _ (mem_of_lookup hsrc)
  by_cases hl : best.loopScore < best.subScore
  · have hpos : 0 < best.subScore := by
      unfold Match.bestScore at hbs
      rw [if_pos hl] at hbs
      have := (findMatch_spec hwf.nodup hfm).2.2.1
      omega
    have hso := findMatch_subOK hsrc (by rw [ht]; exact hfm) hpos
    obtain ⟨hlen, hbal⟩ := subOK_balanced hsrc hso
    rw [← hp] at hlen hbal
    have hfresh := hfr.track_none
    obtain ⟨_, _, hinv⟩ := applyMatch_sub_is_step hwf hl hsrc hfresh
      (noJump_of_valid hwf hval hfresh hsrc) hlen hbal happ
    exact songI16_of_subInv hwf'.nodup hinv hi (callI16_take (callI16_drop hci _) _)
      ⟨by have := hfr.lo; omega, hfr.hi⟩
  · rw [applyMatch_loop_eq hsrc hl] at happ
    simp only [Except.ok.injEq, Prod.mk.injEq] at happ
    rw [← happ.1]
    exact songI16_setTrack hi hsrc (callI16_foldedTrack hci _ _ _)

/-- the pass loop does not run out of fuel above the measure of the song -/
theorem optimize_no_fuel (valid : Song → Bool) (hvalid : ∀ s, valid s = true → validAll s = true)
    (minScore : Int) (hmin : 0 ≤ minScore) :
    ∀ (fuel : Nat) (song : Song) (subId : Int) (acc : List Match),
    SongWF song → FreshInv song subId → validAll song = true → SongI16 song →
    subId + (totalEvents song : Int) < 32767 → optMeasure song < fuel →
    optimize valid minScore fuel song subId acc ≠ .error .fuel := by
  intro fuel
  induction fuel with
  | zero => intro song subId acc _ _ _ _ _ h; omega
  | succ fuel ih =>
    intro song subId acc hwf hfr hval hi hid hmu
    unfold optimize
    cases h1 : analyzeStack song with
    | error e =>
      simp only [bind, Except.bind]
      intro h
      cases h
      exact analyzeStack_no_fuel hi h1
    | ok m =>
      simp only [bind, Except.bind]
      cases h2 : findBestMatch song m subId with
      | error e =>
        simp only
        intro h
        cases h
        exact findBestMatch_NF song m subId h2
      | ok x =>
        obtain ⟨s', best, subId'⟩ := x
        simp only
        split
        · simp [pure, Except.pure]
        · rename_i hvs
          split
          · rename_i hgt
            have hval' : validAll s' = true := hvalid s' (by simpa using hvs)
            have hnext : subId + 1 < 32768 := by omega
            obtain ⟨_, hwf', hfr', _⟩ := pass_is_step hwf hfr hval hnext h2
            obtain ⟨hdec, hid'⟩ := C01_pass_decreases hwf hfr hval hnext h2 (by omega)
            exact ih s' subId' _ hwf' hfr' hval' (pass_i16 hwf hfr hval hnext hi h2) (by omega)
              (by have := optMeasure_lt hdec; omega)
          · simp [pure, Except.pure]

/-- **Termination of the optimiser**, the statement without side conditions on the size of the
song — NOT proved in this form.  For `0 ≤ minScore` the pass loop of `Opt.optimize` ends on every
well-formed song, i.e. with enough fuel the run does not end in `.error .fuel`.
`C01_optimize_terminates_partial` proves it under three extra hypotheses (see there). -/
def C01_optimize_terminates_statement : Prop :=
  ∀ (song : Song) (minScore : Int), 0 ≤ minScore → SongWF song →
    (song.tracks.map (·.1)).Pairwise (· < ·) → (∀ p ∈ song.tracks, p.1 < 32767) →
    ∀ fuel, (totalEvents song + 1) * (totalEvents song + 1) < fuel →
      optimize validAll minScore fuel song (initialSubId song) [] ≠ .error .fuel

/-- **C01, termination of the optimiser.**  For every threshold `0 ≤ minScore` and every
well-formed song (track list in id order without duplicates and ids below 32767, no explicit `END`
event, `LOOP_BREAK`s without duration, tracks shorter than 32767 events) the run of `Opt.optimize`
— stack analysis with its own recursion budget, `find_best_match`, `apply_match`, validator after
every pass — does not end in `.error .fuel` for any fuel above `(totalEvents song + 1)²`: neither
the pass loop nor the recursion of `analyze_track` exhausts its budget.  Every pass after which the
loop goes on strictly decreases `(totalEvents, playedEvents)` (`C01_pass_decreases`).

`_partial`: three hypotheses are added to `C01_optimize_terminates_statement`:
* `hok` — every track of the input song validates (the assumption of property C01; the proof uses it
  to know that a fresh subroutine id is not called anywhere);
* `hi` — the parameters of `JUMP` and `NOTE` events are `int16_t` values.  True of every C++ `Event`
  by its type; the model keeps `param` as an unbounded `Int`, and without the hypothesis the model's
  `analyzeStack` does exhaust its budget (`Ex2.analyzeStack_fuel_artefact`);
* `hsz` — `initialSubId song + totalEvents song < 32767`: the subroutine ids the run can hand out
  (at most one per removed event) stay within `int16_t` (neighbourhood of defect D3: beyond that
  `sub_id` wraps to negative values). -/
theorem C01_optimize_terminates_partial (song : Song) (minScore : Int) (hmin : 0 ≤ minScore) (hwf : SongWF song)
    (hsorted : (song.tracks.map (·.1)).Pairwise (· < ·)) (hids : ∀ p ∈ song.tracks, p.1 < 32767)
    (hok : ∀ id, song.track? id ≠ none → okTrack song id) (hi : SongI16 song)
    (hsz : initialSubId song + (totalEvents song : Int) < 32767)
    (fuel : Nat) (hfuel : (totalEvents song + 1) * (totalEvents song + 1) < fuel) :
    optimize validAll minScore fuel song (initialSubId song) [] ≠ .error .fuel :=
  optimize_no_fuel validAll (fun _ h => h) minScore hmin fuel song _ [] hwf
    (initialSubId_fresh hsorted hids) (validAll_of_ok hwf.nodup hok) hi hsz
    (by have := optMeasure_bound song; omega)

/-- **The stack analysis never exhausts its recursion budget** (`tracks.length + 2` frames): the
`parsing` guard of `analyze_track` bounds the depth of the recursion by one plus the number of
tracks (`OptAnalyze.analyzeTrack_good`: every nested frame marks one more track as being parsed). -/
theorem C01_analyzeStack_budget (song : Song) (hi : SongI16 song) : analyzeStack song ≠ .error .fuel :=
  analyzeStack_no_fuel hi

/-- the same for a single call of `analyze_track` with any analyser map, key and event list -/
theorem C01_analyzeTrack_budget (song : Song) (hi : SongI16 song) (m : SAMap) (self : Int) (evs : List Event)
    (drum : Int) (hc : CallI16 evs) (fuel : Nat) (hf : song.tracks.length + 1 ≤ fuel) :
    analyzeTrack song fuel m self evs drum ≠ .error .fuel :=
  analyzeTrack_no_fuel hi m self evs drum hc fuel hf

/-! ## the loop counts the optimiser writes (repair of defect D2) -/

/-- **Every `LOOP_END` the optimiser inserts has a count in 2..255.**  The loop branch of
`apply_match`, on a match that satisfies the conditions under which `find_match` records a loop
candidate (`LoopOK`; `findMatch_loopOK`), rewrites the track `src` into a track `t'` all of whose
events are events of `src` or one of the three inserted events: `LOOP_START`, `LOOP_BREAK` (both with
parameter 0) and ONE `LOOP_END` whose count `c` satisfies `2 ≤ c ≤ 255` — the domain `[/]<0..255>` of
the language reference and of the one-byte operand of the MDSDRV loop-finish command.  `c` is
`foldCount` of the capped length: `L / len + 1`, one more with a break point.  (Before the repair
`c` was unbounded: 300 repetitions of one note gave `[c]300`, compiled to `fb 2c` = 44 passes.) -/
theorem C01_fold_count_le_255 {song : Song} {m : SAMap} {bm : Match} {subId : Int} {src : List Event}
    (hok : LoopOK song m bm) (hbr : ¬ bm.loopScore < bm.subScore)
    (hsrc : song.track? bm.trackId = some src) :
    ∃ (c : Nat) (t' : List Event), 2 ≤ c ∧ c ≤ 255 ∧
      c = foldCount (bm.loopPosition - bm.position) (capLoopLength (bm.loopPosition - bm.position) bm.loopLength) ∧
      applyMatch song m bm subId = .ok (setTrack song bm.trackId t', m, subId) ∧
      leEv (c : Int) ∈ t' ∧ ∀ e ∈ t', e ∈ src ∨ e = lsEv ∨ e = lbEv ∨ e = leEv (c : Int) := by
  obtain ⟨c, hc, h2, h255, hmem, hall⟩ := mem_foldedTrack_cap (src := src) hok.lt hok.pos
  exact ⟨c, _, h2, h255, hc, applyMatch_loop_eq hsrc hbr, hmem, hall⟩

/-- **A pass keeps every loop count of the song in the domain 0..255** (`SongCounts`): a loop fold
inserts one `LOOP_END` with a count in 2..255 (`C01_fold_count_le_255`), a subroutine extraction
moves events and inserts `JUMP`s. -/
theorem C01_pass_counts {song : Song} {m : SAMap} {subId : Int} {s' : Song} {best : Match} {subId' : Int}
    (hwf : SongWF song) (hfr : FreshInv song subId) (hval : validAll song = true) (hnext : subId + 1 < 32768)
    (hc : SongCounts song) (hfb : findBestMatch song m subId = .ok (s', best, subId')) : SongCounts s' := by
  obtain ⟨_, hwf', _, _⟩ := pass_is_step hwf hfr hval hnext hfb
  rcases findBestMatch_spec hfb with ⟨_, h1, _⟩ | ⟨hbs, ⟨srcT, srcPos, hfm⟩, m', happ⟩
  · rw [h1]; exact hc
  obtain ⟨ht, hp, hss, hlo⟩ := findMatch_spec hwf.nodup hfm
  obtain ⟨src, hsrc⟩ := findMatch_track hfm
  rw [← ht] at hsrc
  have hci : CountOK src := hc _ (mem_of_lookup hsrc)
  by_cases hl : best.loopScore < best.subScore
  · have hpos : 0 < best.subScore := by
      unfold Match.bestScore at hbs
      rw [if_pos hl] at hbs
      omega
    have hso := findMatch_subOK hsrc (by rw [ht]; exact hfm) hpos
    obtain ⟨hlen, hbal⟩ := subOK_balanced hsrc hso
    rw [← hp] at hlen hbal
    have hfresh := hfr.track_none
    obtain ⟨_, _, hinv⟩ := applyMatch_sub_is_step hwf hl hsrc hfresh
      (noJump_of_valid hwf hval hfresh hsrc) hlen hbal happ
    exact songCounts_of_subInv hwf'.nodup hinv hc (countOK_take (countOK_drop hci _) _)
  · have hne : best.loopLength ≠ 0 := by
      unfold Match.loopScore at hl
      omega
    have hok := hlo hne
    rw [applyMatch_loop_eq hsrc hl] at happ
    simp only [Except.ok.injEq, Prod.mk.injEq] at happ
    rw [← happ.1]
    exact songCounts_setTrack hc hsrc (countOK_foldedTrack_cap hci hok.lt hok.pos)

/-- every song a run of `Opt.optimize` goes through, the result included (validated or not), keeps
its loop counts in the domain -/
theorem optimize_counts (valid : Song → Bool) (hvalid : ∀ s, valid s = true → validAll s = true)
    (minScore : Int) :
    ∀ (fuel : Nat) (song : Song) (subId : Int) (acc : List Match) (r : OptResult),
    SongWF song → FreshInv song subId → validAll song = true → SongCounts song →
    optimize valid minScore fuel song subId acc = .ok r →
    subId + ((r.passes.length - acc.length : Nat) : Int) < 32768 → SongCounts r.song := by
  intro fuel
  induction fuel with
  | zero => intro song subId acc r _ _ _ _ h; simp [optimize] at h
  | succ fuel ih =>
    intro song subId acc r hwf hfr hval hc h hcnt
    obtain ⟨ps, hps⟩ := optimize_passes_prefix valid minScore _ _ _ _ _ h
    unfold optimize at h
    obtain ⟨m, _, h⟩ := bind_ok h
    obtain ⟨x, hfb, h⟩ := bind_ok h
    obtain ⟨s', best, subId'⟩ := x
    simp only at h
    have hlen : r.passes.length - acc.length = ps.length := by rw [hps]; simp
    rw [hlen] at hcnt
    split at h
    · simp only [pure, Except.pure, Except.ok.injEq] at h
      have hps1 : 1 ≤ ps.length := by
        have : acc ++ ps = acc ++ [best] := by rw [← hps, ← h]
        have := congrArg List.length this
        simp only [List.length_append, List.length_cons, List.length_nil] at this
        omega
      rw [← h]
      exact C01_pass_counts hwf hfr hval (by omega) hc hfb
    · rename_i hvs
      have hval' : validAll s' = true := hvalid s' (by simpa using hvs)
      have hps1 : 1 ≤ ps.length := by
        split at h
        · obtain ⟨ps', hps'⟩ := optimize_passes_prefix valid minScore _ _ _ _ _ h
          have : acc ++ ps = acc ++ [best] ++ ps' := by rw [← hps, hps']
          have := congrArg List.length this
          simp only [List.length_append, List.length_cons, List.length_nil] at this
          omega
        · simp only [pure, Except.pure, Except.ok.injEq] at h
          have : acc ++ ps = acc ++ [best] := by rw [← hps, ← h]
          have := congrArg List.length this
          simp only [List.length_append, List.length_cons, List.length_nil] at this
          omega
      obtain ⟨_, hwf', hfr', hid⟩ := pass_is_step hwf hfr hval (by omega) hfb
      have hc' := C01_pass_counts hwf hfr hval (by omega) hc hfb
      split at h
      · exact ih s' subId' (acc ++ [best]) r hwf' hfr' hval' hc' h (by
          have : r.passes.length - (acc ++ [best]).length = ps.length - 1 := by
            rw [hps]; simp; omega
          rw [this]
          omega)
      · simp only [pure, Except.pure, Except.ok.injEq] at h
        rw [← h]
        exact hc'

/-- **The optimiser keeps a song inside the documented domain of loop counts.**  For every
well-formed song all of whose tracks validate and all of whose `LOOP_END` counts are in 0..255
(`[/]<0..255>`), every threshold and fuel: if `Opt.optimize` returns normally (whether or not the
validator accepted the last pass) and the subroutine ids stay within `int16_t` (`hcnt`, as in
`C01_optimize_preserves`), every `LOOP_END` of the optimised song — in the original tracks and in the
extracted subroutines — has a count in 0..255.  This is the statement defect D2 violated. -/
theorem C01_optimize_counts_le_255 (valid : Song → Bool) (hvalid : ∀ s, valid s = true → validAll s = true)
    (song : Song) (minScore : Int) (fuel : Nat) (r : OptResult)
    (hwf : SongWF song) (hsorted : (song.tracks.map (·.1)).Pairwise (· < ·))
    (hids : ∀ p ∈ song.tracks, p.1 < 32767)
    (hok : ∀ id, song.track? id ≠ none → okTrack song id) (hc : SongCounts song)
    (hr : optimize valid minScore fuel song (initialSubId song) [] = .ok r)
    (hcnt : initialSubId song + (r.passes.length : Int) < 32768) :
    SongCounts r.song :=
  optimize_counts valid hvalid minScore fuel song _ [] r hwf
    (initialSubId_fresh hsorted hids) (validAll_of_ok hwf.nodup hok) hc hr (by simpa using hcnt)

/-! ## the depth side of the loop fold (repair of defect D18)

`C01_fold_accepts` leaves one failure open: the folded song may run out of stack frames.  The new
loop encloses the period `A0·A1` — the phrase AND the part the break skips — and nothing else, so
one frame of headroom around the period is exactly what the fold needs (`C01_fold_headroom`).  Since
the repair, `find_match` applies its stack test to exactly those events (`LoopOK.room`,
`C01_fold_budget_covers_period`); `C01_fold_keeps_depth_partial` concludes that the loop branch of
`apply_match` keeps the song valid, given that the stack analysis is right about the period
(`StackSoundAt`). -/

/-- **Loop fold, acceptance without the depth proviso.**  `SW` is the song with the period wrapped
in one more loop (`[ A0 A1 ]·(A0 A1)^k·A0` in place of `A0 A1·(A0 A1)^k·A0`; `ls0`/`le0` any
`LOOP_START`/`LOOP_END` events).  If track `id` validates in `SW`, it validates in the folded song
`S'`: the fold needs one stack frame of headroom around the period, in every performance that
reaches it, and nothing more. -/
theorem C01_fold_headroom {A0 A1 : List Node} {k : Nat} {ls lb le : Event} (h : FoldSide A0 A1 k ls lb le)
    {ls0 le0 : Event} (kls0 : ls0.kind = .loopStart) (kle0 : le0.kind = .loopEnd)
    (SW S' : Song) (l1 l2 : Tracks) (tid : Nat) (pre post : List Event)
    (hSW : SW.tracks = l1 ++ (tid, pre ++ flattenL (foldSrcW A0 A1 k ls0 le0) ++ post) :: l2)
    (hS' : S'.tracks = l1 ++ (tid, pre ++ foldX' A0 A1 ls lb le ++ post) :: l2)
    (id : Nat) (t t' : List Event) (ht : SW.track? id = some t) (ht' : S'.track? id = some t')
    (items : List Item) (hp : perf SW t = .ok items) : ∃ items', perf S' t' = .ok items' := by
  have htr : SongRel (foldSrcW A0 A1 k ls0 le0) (foldDst A0 A1 ls lb le) SW S' := by
    apply SongRel.of_tracks
    rw [hSW, hS', foldDstX_eq]
    exact TracksRel.one (ERel.refl _ _) l1 l2 tid (ERel.ctx _ _ pre post)
  obtain ⟨t'', h1, hr⟩ := htr id t ht
  rw [ht'] at h1
  cases h1
  exact perf_le SW S' (foldSrcW_closed h.c0 h.c1 k kls0 kle0) (foldDst_closed h.c0 h.c1 h.kls h.klb h.kle)
    (fun _ hc => wrapfold_FLe hc A0 A1 k ls0 le0 ls lb le h.b0 h.b1 h.count) htr hr ⟨items, hp⟩

/-- the same for the fold without remainder: `[ A ]·A^k ↦ [ A ](k+1)` -/
theorem C01_fold0_headroom {A : List Node} {k : Nat} {ls le : Event} (h : Fold0Side A k ls le)
    {ls0 le0 : Event} (kls0 : ls0.kind = .loopStart) (kle0 : le0.kind = .loopEnd)
    (SW S' : Song) (l1 l2 : Tracks) (tid : Nat) (pre post : List Event)
    (hSW : SW.tracks = l1 ++ (tid, pre ++ flattenL (fold0SrcW A k ls0 le0) ++ post) :: l2)
    (hS' : S'.tracks = l1 ++ (tid, pre ++ fold0X' A ls le ++ post) :: l2)
    (id : Nat) (t t' : List Event) (ht : SW.track? id = some t) (ht' : S'.track? id = some t')
    (items : List Item) (hp : perf SW t = .ok items) : ∃ items', perf S' t' = .ok items' := by
  have htr : SongRel (fold0SrcW A k ls0 le0) (fold0Dst A ls le) SW S' := by
    apply SongRel.of_tracks
    rw [hSW, hS', fold0DstX_eq]
    exact TracksRel.one (ERel.refl _ _) l1 l2 tid (ERel.ctx _ _ pre post)
  obtain ⟨t'', h1, hr⟩ := htr id t ht
  rw [ht'] at h1
  cases h1
  exact perf_le SW S' (fold0SrcW_closed h.c0 k kls0 kle0)
    (by simp [closedL, Node.closed, h.c0, h.kls, h.kle])
    (fun _ hc => wrapfold0_FLe hc A k ls0 le0 ls le h.b0 h.count) htr hr ⟨items, hp⟩

/-- **`find_match`'s stack test covers everything the new loop encloses** (the repair of D18).  For
every match `find_match` returns with a loop candidate, every event of the period
`[position, loopPosition)` — the matched phrase and the part before the repetition that the loop
break skips — has a stack-list entry `u` with `u + base_usage < max_loop_stack`.  Before the repair
the test was applied to the events of the matched copy only. -/
theorem C01_fold_budget_covers_period {song : Song} {m : SAMap} {srcT srcStart : Nat} {mt : Match}
    (hnd : (song.tracks.map (·.1)).Nodup) (h : findMatch song m srcT srcStart = .ok mt) (hne : mt.loopLength ≠ 0) :
    ∀ i, mt.position ≤ i → i < mt.loopPosition →
      ∃ u, (getSA m mt.trackId).eventList[i]? = some u ∧ u + (getSA m mt.trackId).baseUsage < maxLoopStack :=
  ((findMatch_spec hnd h).2.2.2 hne).room

/-- **`find_match`'s stack test covers the source phrase of a subroutine** (the other half of the
repair of D18).  For every match `find_match` returns with a positive subroutine score, every event
of the phrase `[position, position + subLength)` — the occurrence that `apply_match` replaces by
the first call — has a stack-list entry `u` with `u + base_usage < max_src_stack` (= the 10 frames of
the song validator, `C01_src_stack_le_limit`).  Before the repair only the other occurrences were
tested. -/
theorem C01_sub_budget_covers_source {song : Song} {m : SAMap} {srcT srcStart : Nat} {mt : Match}
    (hnd : (song.tracks.map (·.1)).Nodup) (h : findMatch song m srcT srcStart = .ok mt) (hp : 0 < mt.subScore) :
    ∀ i, mt.position ≤ i → i < mt.position + mt.subLength →
      ∃ u, (getSA m mt.trackId).eventList[i]? = some u ∧ u + (getSA m mt.trackId).baseUsage < maxSrcStack := by
  obtain ⟨ht, hpos, _, _⟩ := findMatch_spec hnd h
  obtain ⟨src, hsrc⟩ := findMatch_track h
  rw [ht, hpos]
  exact findMatch_subRoom hsrc h hp

/-- the budget of the source phrase is the depth limit of the validator (both constants are
extracted from the C++ on every run) -/
theorem C01_src_stack_le_limit : maxSrcStack ≤ (limit : Int) := by decide

/-- **`analyze_stack` marks the unused macro tracks after the loop over all tracks** (the shape of the
repair of D28, repository fix f7fbaab).  A normal return `m` of `analyze_stack` is the map `m0` the
first loop leaves — every track analysed, each unused root (a track with id > 15 whose `base_usage`
was still 0 when the loop reached it) collected in `unused` — with `base_usage = 100` on exactly the
collected ids: every other analyser, and the `parsing` flag, `max_usage` and stack list of the
collected ones, are as the first loop left them.  In particular no `base_usage` is overwritten
while the analysis is still running: a later caller always sees the base usage the calls gave. -/
theorem C01_analyzeStack_marks_after {song : Song} {m : SAMap} (h : analyzeStack song = .ok m) :
    ∃ m0 unused, song.tracks.foldlM (analyzeStackStep song) ([], []) = .ok (m0, unused) ∧
      (∀ k ∈ unused, getSA m k = { getSA m0 k with baseUsage := unusedBase }) ∧
      (∀ k, k ∉ unused → getSA m k = getSA m0 k) := by
  obtain ⟨m0, u, h1, -, hm⟩ := analyzeStack_ok h
  refine ⟨m0, u, h1, fun k hk => ?_, fun k hk => ?_⟩
  · rw [hm, getSA_markUnused, if_pos hk]
  · rw [hm, getSA_markUnused, if_neg hk]

/-- the stack analysis is right about the period of the match `bm`: if every event of
`[position, loopPosition)` passes the stack test of `find_match`, the period has one stack frame of
headroom in every performance that reaches it — the song validates with the period wrapped in one
more loop -/
def StackSoundAt (song : Song) (m : SAMap) (bm : Match) : Prop :=
  ∀ src, song.track? bm.trackId = some src →
    (∀ i, bm.position ≤ i → i < bm.loopPosition → LoopRoom (getSA m bm.trackId) i) →
    validAll (setTrack song bm.trackId (wrapTrack src bm.position bm.loopPosition)) = true

/-- **Every loop fold the modelled optimiser performs keeps every track within the depth limit** —
the statement without side condition on the stack analysis.  NOT proved.  It was false of the code
before repository fix f7fbaab (finding D28: the lists `analyze_stack` computed underestimated the depth
of a track reached only through a chain of unused macro tracks with descending ids; `Ex2.D28_witness`
keeps the old answer as a witness, `Ex2.D28_regression` is the repaired analysis on the same song); no
counterexample is known for the repaired code (family `d28-chain` of checks/c01.py).
`C01_fold_keeps_depth_partial` proves it with the hypothesis `StackSoundAt song m bm`. -/
def C01_fold_keeps_depth_full_statement : Prop :=
  ∀ (song : Song) (m : SAMap) (bm : Match) (subId : Int), SongWF song → validAll song = true →
    analyzeStack song = .ok m → (∃ srcT srcPos, findMatch song m srcT srcPos = .ok bm) → bm.loopLength ≠ 0 →
    ¬ bm.loopScore < bm.subScore →
    ∃ S', applyMatch song m bm subId = .ok (S', m, subId) ∧ validAll S' = true

/-- **The loop branch of `apply_match` keeps every track within the depth limit** (`_partial`: the
extra hypothesis is `hsound`, the stack analysis is right about the period of the match).  For a
well-formed song and a match that satisfies the conditions under which `find_match` records a loop
candidate — among them, since the repair of D18, the stack test on every event of the period —
the song the loop branch produces validates: every track, the folded one and every track that
reaches it through calls, expands without error.  No run of the song validator is needed to know
it. -/
theorem C01_fold_keeps_depth_partial {song : Song} {m : SAMap} {bm : Match} {subId : Int} {src : List Event}
    (hwf : SongWF song) (hok : LoopOK song m bm) (hbr : ¬ bm.loopScore < bm.subScore)
    (hsrc : song.track? bm.trackId = some src) (hsound : StackSoundAt song m bm) :
    ∃ S', applyMatch song m bm subId = .ok (S', m, subId) ∧ validAll S' = true := by
  obtain ⟨w1, w2, w3⟩ := hwf.track hsrc
  refine ⟨_, applyMatch_loop_eq hsrc hbr, ?_⟩
  have hw := (hok.window hsrc w2).cap hok.lt
  have hrep := repeats_small hok.lt hw.len w3
  have hL : 3 ≤ capLoopLength (bm.loopPosition - bm.position) bm.loopLength := by
    have := hok.minLen; rw [minLoopScore_eq] at this
    exact capLoopLength_ge3 (Nat.sub_pos_of_lt hok.lt) this
  obtain ⟨f1, f2, f3⟩ := foldedTrack_wf hok.lt hw.len hL hrep w1 w2
  have hwf' := hwf.setTrack hsrc f1 f2 (by omega)
  exact validAll_of_isOk hwf'.nodup
    (fun id t' ht' => applyMatch_loop_keeps_valid hok hsrc w1 w2 (hsound src hsrc hok.room) id t' ht')

/-- **One pass of `find_best_match` that takes the loop branch keeps the song valid** (`_partial`:
`hsound` as above, for the match the pass chose): the validator run after such a pass cannot throw. -/
theorem C01_loop_pass_keeps_valid_partial {song : Song} {m : SAMap} {subId : Int} {s' : Song} {best : Match}
    {subId' : Int} (hwf : SongWF song) (hval : validAll song = true)
    (hfb : findBestMatch song m subId = .ok (s', best, subId'))
    (hl : ¬ best.loopScore < best.subScore) (hsound : StackSoundAt song m best) : validAll s' = true := by
  rcases findBestMatch_spec hfb with ⟨_, h1, _⟩ | ⟨_, ⟨srcT, srcPos, hfm⟩, m', happ⟩
  · rw [h1]; exact hval
  · obtain ⟨_, _, _, hlo⟩ := findMatch_spec hwf.nodup hfm
    have hne : best.loopLength ≠ 0 := by
      unfold Match.loopScore at hl
      omega
    have hok := hlo hne
    obtain ⟨len0, hf⟩ := hok.fml
    obtain ⟨src, _, hsrc, _, _⟩ := findMatchLength_spec hf
    obtain ⟨S', happ', hv⟩ := C01_fold_keeps_depth_partial (subId := subId) hwf hok hl hsrc hsound
    rw [happ'] at happ
    simp only [Except.ok.injEq, Prod.mk.injEq] at happ
    rw [← happ.1]
    exact hv

end Ctrmml.C01

/-! ## concrete instances for layers 2–3

The hypotheses of the theorems above are satisfiable by concrete songs; where the kernel can
evaluate the model (everything except the stack analysis, whose recursion is well-founded, and the
library quicksort) the conclusions are checked by evaluation. -/
namespace Ctrmml.C01.Ex2
open Ctrmml Ctrmml.Tree Ctrmml.Expand Ctrmml.Rewrite Ctrmml.Opt Ctrmml.OptSteps Tables

instance (l : List Event) : Decidable (NoEnd l) := by unfold NoEnd; infer_instance
instance (l : List Event) : Decidable (BrkZero l) := by unfold BrkZero; infer_instance

def n (k : Int) : Event := ⟨ev_NOTE, k, 6, 0⟩
def okv {α : Type} (r : Except OErr α) : Option α := match r with | .ok a => some a | .error _ => none

/-- six equal notes: `find_best_match` folds them into `[c]6` -/
def songL : Song := { tracks := [(0, [n 1, n 1, n 1, n 1, n 1, n 1])] }
def mL : SAMap := [(0, { eventList := [0, 0, 0, 0, 0, 0] })]
def bmL : Match := { trackId := 0, position := 0, loopPosition := 1, loopLength := 5 }

example : okv ((findBestMatch songL mL 15000).map fun r => (r.1.tracks, r.2.1, r.2.2)) =
    some ([(0, [lsEv, n 1, leEv 6])], bmL, 15000) := by decide +kernel

theorem wfL : SongWF songL := by
  refine ⟨by decide, ?_⟩
  intro p hp
  simp only [songL, List.mem_singleton] at hp
  subst hp
  exact ⟨by decide, by decide, by decide⟩

theorem loopOK_L : LoopOK songL mL bmL := by
  refine ⟨by decide, by decide, by decide, ⟨5, by rfl⟩, ?_, ?_⟩
  · intro src hsrc
    have : src = [n 1, n 1, n 1, n 1, n 1, n 1] := by
      have h : songL.track? 0 = some [n 1, n 1, n 1, n 1, n 1, n 1] := rfl
      rw [show bmL.trackId = 0 from rfl, h] at hsrc
      exact (Option.some.inj hsrc).symm
    subst this
    decide
  · -- the period is the one event at index 0: stack usage 0 + base 0 < 6
    intro i _ h2
    have : i = 0 := by
      have : bmL.loopPosition = 1 := rfl
      omega
    subst this
    exact ⟨0, by decide, by decide⟩

example : ∃ S', applyMatch songL mL bmL 15000 = .ok (S', mL, 15000) ∧ StepN songL S' := by
  obtain ⟨S', h1, h2, _⟩ := applyMatch_loop_is_step (subId := 15000) loopOK_L (by decide)
    (src := [n 1, n 1, n 1, n 1, n 1, n 1]) rfl (by decide) (by decide)
  exact ⟨S', h1, h2⟩

/-- the hypotheses of `C01_optimize_preserves` are satisfiable: the run of the optimiser on
`songL` (which the compiled model evaluates to `[c]6`, one loop-fold pass and one empty pass) -/
example (r : OptResult) (hr : optimize validAll 0 5 songL (initialSubId songL) [] = .ok r)
    (hv : r.validated = true) (hcnt : initialSubId songL + (r.passes.length : Int) < 32768) :
    okTrack r.song 0 ∧ obsOf r.song 0 = obsOf songL 0 :=
  C01_optimize_preserves validAll (fun _ h => h) songL 0 5 r wfL (by decide) (by decide)
    (fun id hid => by
      have : id = 0 := by
        by_cases h : id = 0
        · exact h
        · exfalso; apply hid
          have hb : (id == 0) = false := by simp [h]
          simp [Song.track?, songL, List.lookup, hb]
      subst this
      exact ⟨_, List.replicate 6 (item (n 1)), rfl, by rfl⟩)
    hr hv hcnt 0 (by decide)

/-- a phrase of four notes in two tracks: `find_best_match` extracts it into track 15000 -/
def songS : Song := { tracks := [(0, [n 1, n 2, n 3, n 4, n 9]), (1, [n 7, n 1, n 2, n 3, n 4])] }
def mS : SAMap := [(0, { eventList := [0, 0, 0, 0, 0] }), (1, { eventList := [0, 0, 0, 0, 0] })]
def bmS : Match := { trackId := 0, position := 0, subLength := 4, subRepeats := 1, subScore := 2 }

theorem wfS : SongWF songS := by
  refine ⟨by decide, ?_⟩
  intro p hp
  simp only [songS, List.mem_cons, List.not_mem_nil, or_false] at hp
  rcases hp with rfl | rfl <;> exact ⟨by decide, by decide, by decide⟩

/-- the hypotheses of `applyMatch_sub_is_step` are satisfiable (the compiled model evaluates
`applyMatch songS mS bmS 15000` to the song `0: *15000 n9`, `1: n7 *15000`, `15000: n1 n2 n3 n4`
and the next id 15001; the kernel cannot evaluate the library quicksort it goes through) -/
example (s3 : Song) (m3 : SAMap) (id' : Int) (h : applyMatch songS mS bmS 15000 = .ok (s3, m3, id')) :
    StepN songS s3 ∧ id' = 15001 := by
  obtain ⟨h1, h2, _⟩ := applyMatch_sub_is_step (src := [n 1, n 2, n 3, n 4, n 9]) wfS (by decide) rfl
    (by decide) (by decide) (by decide) (by decide) h
  exact ⟨h1, by rw [h2]; decide⟩

/-! ### termination -/

instance (p : Int) : Decidable (I16 p) := by unfold I16; infer_instance
instance (l : List Event) : Decidable (CallI16 l) := by unfold CallI16; infer_instance
instance (S : Song) : Decidable (SongI16 S) := by unfold SongI16; infer_instance

def jmp (k : Int) : Event := ⟨ev_JUMP, k, 0, 0⟩

/-- two tracks that call each other, and a track 65535 that is called with parameter `-1`: the
hypothesis of `C01_analyzeStack_budget` holds, so the stack analysis stays within its budget -/
def songR : Song := { tracks := [(0, [n 1, jmp 1, jmp (-1)]), (1, [jmp 0, n 2]), (65535, [jmp (-1), jmp 1])] }

example : analyzeStack songR ≠ .error .fuel := C01_analyzeStack_budget songR (by decide)

/-- one call of `analyze_track` on track 0 of that song with a budget of `3 + 1` frames -/
example : analyzeTrack songR 4 [] 0 [n 1, jmp 1, jmp (-1)] 0 ≠ .error .fuel :=
  C01_analyzeTrack_budget songR (by decide) [] 0 _ 0 (by decide) 4 (by decide)

/-- **The `int16_t` hypothesis cannot be dropped in the model** (a model artefact, not a defect of
the C++, whose `Event::param` is an `int16_t`): parameters that differ by multiples of 65536 name
the same track but have different analysers, so one track with three such calls to itself needs
four frames; the budget is `1 + 2`. -/
def songA : Song := { tracks := [(0, [jmp 65536, jmp 131072, jmp 196608])] }

theorem analyzeStack_fuel_artefact : analyzeStack songA = .error .fuel := by
  have k1 : trackIdOfParam 65536 = 0 := by decide
  have k2 : trackIdOfParam 131072 = 0 := by decide
  have k3 : trackIdOfParam 196608 = 0 := by decide
  have j1 : ev_JUMP ≠ ev_LOOP_START := by decide
  have j2 : ev_JUMP ≠ ev_NOTE := by decide
  have w1 : wrap16 1 = 1 := by decide
  have w2 : wrap16 2 = 2 := by decide
  have w3 : wrap16 3 = 3 := by decide
  have w4 : wrap16 4 = 4 := by decide
  have w5 : wrap16 5 = 5 := by decide
  simp [analyzeStack, analyzeStackStep, List.foldlM, songA, analyzeTrack.eq_2, go_cons, stepR, calleeR, analyzeTrack.eq_1,
    jmp, usage0, k1, k2, k3, j1, j2, getSA, setSA, List.lookup, Song.track?, w1, w2, w3, w4, w5]

example : ¬ SongI16 songA := by decide

/-- `C01_analyzeStack_marks_after` on a song that is one unused macro track: it is analysed (its list
is complete) and marked -/
def songM : Song := { tracks := [(20, [n 2, n 3])] }

theorem analyzeStack_songM : analyzeStack songM =
    .ok [(20, { baseUsage := 100, eventList := [0, 0] })] := by
  have j1 : ev_NOTE ≠ ev_LOOP_START := by decide
  have j2 : ev_NOTE ≠ ev_JUMP := by decide
  have j3 : ev_NOTE ≠ ev_DRUM_MODE := by decide
  have j4 : ev_NOTE ≠ ev_LOOP_END := by decide
  have w0 : wrap16 0 = 0 := by decide
  have u1 : unusedBase = 100 := by decide
  have f1 : Tables.opt_first_macro_above = 15 := by decide
  simp [analyzeStack, analyzeStackStep, markUnused, List.foldlM, songM, analyzeTrack.eq_2, go_cons, stepR,
    analyzeTrack.go.eq_1, n, usage0, j1, j2, j3, j4, getSA, setSA, List.lookup, w0, u1, f1]

example : ∃ m0 unused, songM.tracks.foldlM (analyzeStackStep songM) ([], []) = .ok (m0, unused) ∧
    (∀ k ∈ unused, getSA [(20, { baseUsage := 100, eventList := [0, 0] })] k =
      { getSA m0 k with baseUsage := unusedBase }) ∧
    (∀ k, k ∉ unused → getSA [(20, { baseUsage := 100, eventList := [0, 0] })] k = getSA m0 k) :=
  C01_analyzeStack_marks_after analyzeStack_songM

theorem freshL : FreshInv songL 15000 := ⟨by decide, by decide, by decide⟩
theorem freshS : FreshInv songS 15000 := ⟨by decide, by decide, by decide⟩

/-- `C01_pass_decreases` on the pass that folds `songL` (evaluated above: the result is `[c]6`,
`best = bmL`): six events become three -/
example (s' : Song) (best : Match) (id' : Int) (hfb : findBestMatch songL mL 15000 = .ok (s', best, id'))
    (hs : 1 ≤ best.bestScore) :
    (totalEvents s' < totalEvents songL ∨
      (totalEvents s' = totalEvents songL ∧ playedEvents s' < playedEvents songL)) ∧
    id' + (totalEvents s' : Int) ≤ 15000 + (totalEvents songL : Int) :=
  C01_pass_decreases wfL freshL (by decide) (by decide) hfb hs

example : totalEvents songL = 6 ∧ totalEvents ⟨[(0, [lsEv, n 1, leEv 6])]⟩ = 3 ∧ bmL.bestScore = 3 := by decide

/-- `C01_extract_pass_decreases` on the pass that extracts the four-note phrase of `songS` (the
compiled model evaluates it to `0: *15000 n9`, `1: n7 *15000`, `15000: n1 n2 n3 n4`: ten events
become eight) -/
example (s' : Song) (best : Match) (id' : Int) (hfb : findBestMatch songS mS 15000 = .ok (s', best, id'))
    (hl : best.loopScore < best.subScore) (hs : 1 ≤ best.bestScore) :
    totalEvents s' + 1 ≤ totalEvents songS :=
  C01_extract_pass_decreases wfS freshS hfb hl hs

example : bmS.loopScore < bmS.subScore ∧ 1 ≤ bmS.bestScore ∧ totalEvents songS = 10 := by decide

/-- `pass_i16` on that pass: the inserted `JUMP 15000` is an `int16_t` call -/
example (s' : Song) (best : Match) (id' : Int) (hfb : findBestMatch songS mS 15000 = .ok (s', best, id')) :
    SongI16 s' :=
  pass_i16 wfS freshS (by decide) (by decide) (by decide) hfb

/-- the hypotheses of `C01_optimize_terminates_partial` are satisfiable: the run on `songL` does not
run out of fuel for any fuel above `(6 + 1)²` -/
example (fuel : Nat) (h : 49 < fuel) : optimize validAll 0 fuel songL (initialSubId songL) [] ≠ .error .fuel :=
  C01_optimize_terminates_partial songL 0 (by decide) wfL (by decide) (by decide)
    (fun id hid => by
      have : id = 0 := by
        by_cases h : id = 0
        · exact h
        · exfalso; apply hid
          have hb : (id == 0) = false := by simp [h]
          simp [Song.track?, songL, List.lookup, hb]
      subst this
      exact ⟨_, List.replicate 6 (item (n 1)), rfl, by rfl⟩)
    (by decide) (by decide) fuel (by
      have : totalEvents songL = 6 := by decide
      rw [this]; omega)

/-! ### the cap of the loop count (repair of D2) -/

instance (l : List Event) : Decidable (CountOK l) := by unfold CountOK; infer_instance
instance (S : Song) : Decidable (SongCounts S) := by unfold SongCounts; infer_instance

/-- the neighbourhood of the cap, period 1 and period 2 (`(period, matched length) ↦ folded length,
count`): 254 further repetitions are the most one fold takes; a remainder counts as one pass -/
example : [capLoopLength 1 253, capLoopLength 1 254, capLoopLength 1 255, capLoopLength 1 299,
    capLoopLength 2 507, capLoopLength 2 508, capLoopLength 2 509, capLoopLength 2 1000] =
    [253, 254, 254, 254, 507, 508, 508, 508] := by decide
example : [foldCount 1 253, foldCount 1 254, foldCount 2 506, foldCount 2 507, foldCount 2 508] =
    [254, 255, 254, 255, 255] := by decide

/-- 300 equal notes (the D2 corpus case): the loop branch folds 255 of them into `[c]255`, the other
45 stay in the track for the next pass -/
def songC : Song := { tracks := [(0, List.replicate 300 (n 1))] }
def mC : SAMap := [(0, { eventList := List.replicate 300 0 })]
def bmC : Match := { trackId := 0, position := 0, loopPosition := 1, loopLength := 299 }

example : okv ((applyMatch songC mC bmC 15000).map fun r => r.1.tracks) =
    some [(0, lsEv :: n 1 :: leEv 255 :: List.replicate 45 (n 1))] := by decide +kernel

theorem loopOK_C : LoopOK songC mC bmC := by
  have hf : findMatchLength songC mC 0 0 0 1 true = .ok (299, 299) := by
    have h : okv (findMatchLength songC mC 0 0 0 1 true) = some (299, 299) := by decide +kernel
    cases hx : findMatchLength songC mC 0 0 0 1 true with
    | error e => rw [hx] at h; simp [okv] at h
    | ok v => rw [hx] at h; simp only [okv, Option.some.injEq] at h; rw [h]
  refine ⟨by decide, by decide, by decide, ⟨299, hf⟩, ?_, ?_⟩
  · intro src hsrc
    have : src = List.replicate 300 (n 1) := by
      have h : songC.track? 0 = some (List.replicate 300 (n 1)) := rfl
      rw [show bmC.trackId = 0 from rfl, h] at hsrc
      exact (Option.some.inj hsrc).symm
    subst this
    decide +kernel
  · intro i _ h2
    have : i = 0 := by
      have : bmC.loopPosition = 1 := rfl
      omega
    subst this
    exact ⟨0, by decide +kernel, by decide⟩

/-- `C01_fold_count_le_255` on that match: the inserted count is 255 -/
example : ∃ (c : Nat) (t' : List Event), c = 255 ∧
    applyMatch songC mC bmC 15000 = .ok (setTrack songC 0 t', mC, 15000) ∧ leEv (c : Int) ∈ t' := by
  obtain ⟨c, t', _, _, hc, happ, hmem, _⟩ := C01_fold_count_le_255 (subId := 15000) loopOK_C (by decide)
    (src := List.replicate 300 (n 1)) rfl
  exact ⟨c, t', by rw [hc]; decide, happ, hmem⟩

/-- `applyMatch_loop_is_step` on the capped match: it is a loop fold (`k = 254`, no remainder) -/
example : ∃ S', applyMatch songC mC bmC 15000 = .ok (S', mC, 15000) ∧ StepN songC S' := by
  obtain ⟨S', h1, h2, _⟩ := applyMatch_loop_is_step (subId := 15000) loopOK_C (by decide)
    (src := List.replicate 300 (n 1)) rfl (by decide +kernel) (by decide +kernel)
  exact ⟨S', h1, h2⟩

/-- the hypotheses of `C01_optimize_counts_le_255` are satisfiable: the run on `songL` -/
example (r : OptResult) (hr : optimize validAll 0 5 songL (initialSubId songL) [] = .ok r)
    (hcnt : initialSubId songL + (r.passes.length : Int) < 32768) : SongCounts r.song :=
  C01_optimize_counts_le_255 validAll (fun _ h => h) songL 0 5 r wfL (by decide) (by decide)
    (fun id hid => by
      have : id = 0 := by
        by_cases h : id = 0
        · exact h
        · exfalso; apply hid
          have hb : (id == 0) = false := by simp [h]
          simp [Song.track?, songL, List.lookup, hb]
      subst this
      exact ⟨_, List.replicate 6 (item (n 1)), rfl, by rfl⟩)
    (by decide) hr hcnt

/-- `C01_pass_counts` on the pass that folds `songL` -/
example (s' : Song) (best : Match) (id' : Int) (hfb : findBestMatch songL mL 15000 = .ok (s', best, id')) :
    SongCounts s' :=
  C01_pass_counts wfL freshL (by decide) (by decide) (by decide) hfb

/-! ### the depth side of the loop fold (repair of D18) -/

def isOkB : Res → Bool | .ok _ => true | .error _ => false

/-- `C01_fold_headroom` on the songs of `Ex` (track 0 calls track 1, which holds `pre A A A0 post`
inside an open loop of the context): `SW` has the first `A` wrapped in `[ … ]1` -/
def SW : Song := { tracks := [(0, [Ex.note 5, Ex.jmp 1, Ex.note 5]),
  (1, Ex.pre ++ flattenL (foldSrcW Ex.A0 Ex.A1 1 Ex.lsE (Ex.leE 1)) ++ Ex.post)] }

example (id : Nat) (t t' : List Event) (ht : SW.track? id = some t) (ht' : Ex.S'.track? id = some t')
    (items : List Item) (hp : perf SW t = .ok items) : ∃ items', perf Ex.S' t' = .ok items' :=
  C01_fold_headroom Ex.side (by decide) (by decide) SW Ex.S' [(0, [Ex.note 5, Ex.jmp 1, Ex.note 5])] [] 1
    Ex.pre Ex.post rfl rfl id t t' ht ht' items hp

/-- … its hypothesis holds for both tracks of `SW`, and so does its conclusion, evaluated -/
example : (SW.tracks.map fun p => isOkB (perf SW p.2)) = [true, true] ∧
    (Ex.S'.tracks.map fun p => isOkB (perf Ex.S' p.2)) = [true, true] := by decide

/-- the headroom hypothesis is what fails in the D18 situation: inside nine enclosing loops the
wrapped period runs out of frames (and so does the folded song, `Ex`, above) -/
example : Ex.isDepthErr (perf ⟨[]⟩ (Ex.deepPre ++ flattenL (foldSrcW Ex.A0 Ex.A1 0 Ex.lsE (Ex.leE 1)) ++ Ex.deepPost)) = true := by
  decide

/-- `StackSoundAt` holds for the fold of `songL`: one note wrapped in a loop validates -/
theorem soundL : StackSoundAt songL mL bmL := by
  intro src hsrc _
  have : src = [n 1, n 1, n 1, n 1, n 1, n 1] := by
    have h : songL.track? 0 = some [n 1, n 1, n 1, n 1, n 1, n 1] := rfl
    rw [show bmL.trackId = 0 from rfl, h] at hsrc
    exact (Option.some.inj hsrc).symm
  subst this
  decide

/-- `C01_fold_keeps_depth_partial` on that fold: the result (`[c]6`, evaluated above) validates -/
example : ∃ S', applyMatch songL mL bmL 15000 = .ok (S', mL, 15000) ∧ validAll S' = true :=
  C01_fold_keeps_depth_partial (subId := 15000) (src := [n 1, n 1, n 1, n 1, n 1, n 1]) wfL loopOK_L (by decide) rfl soundL

/-- `C01_loop_pass_keeps_valid_partial` on the pass that folds `songL` -/
example (s' : Song) (best : Match) (id' : Int) (hfb : findBestMatch songL mL 15000 = .ok (s', best, id'))
    (hl : ¬ best.loopScore < best.subScore) (hs : StackSoundAt songL mL best) : validAll s' = true :=
  C01_loop_pass_keeps_valid_partial wfL (by decide) hfb hl hs

/-- the corpus case of D18, `c d e [x10 g ]x10 c d e`, with the stack lists `analyze_stack` computes
for it (2 per open loop): since the repair `find_best_match` finds nothing to do — the only repeated
phrase would need a loop around the ten-deep nest (usage 20 ≥ `max_loop_stack`).  Before the repair
the pass folded it and the validator threw "stack overflow (depth limit reached)". -/
def lsD : Event := ⟨ev_LOOP_START, 0, 0, 0⟩
def leD : Event := ⟨ev_LOOP_END, 2, 0, 0⟩
def songD : Song := { tracks := [(0, [n 1, n 2, n 3] ++ List.replicate 10 lsD ++ [n 4] ++ List.replicate 10 leD ++ [n 1, n 2, n 3])] }
def listD : List Int := [0, 0, 0, 2, 4, 6, 8, 10, 12, 14, 16, 18, 20, 20, 20, 18, 16, 14, 12, 10, 8, 6, 4, 2, 0, 0, 0]
def mD : SAMap := [(0, { maxUsage := 20, eventList := listD })]

example : okv ((findBestMatch songD mD 15000).map fun r => (r.1.tracks == songD.tracks, r.2.1.bestScore)) =
    some (true, 0) := by decide +kernel

/-- the candidate it rejects: the phrase at 0, its repetition at 24; the event at index 5 (the third
`LOOP_START` of the nest, usage 6) fails the stack test, so `LoopOK` does not hold of it -/
example : ¬ LoopRoom (getSA mD 0) 5 := by
  rintro ⟨u, hu, hlt⟩
  have : u = 6 := by
    have h : (getSA mD 0).eventList[5]? = some 6 := by decide
    rw [h] at hu
    exact (Option.some.inj hu).symm
  subst this
  revert hlt
  decide

/-- the subroutine half of the repair: `[x9 c [d]2 e f ]x9 c [d]2 e f` — the phrase inside nine loops
(usage 18) is not a subroutine candidate any more (`max_src_stack = 10`); the pass finds nothing to do.
Before the repair it was extracted and the call inside nine loops to a subroutine with a loop of its
own needed an eleventh frame. -/
def phraseN : List Event := [n 1, lsD, n 2, leD, n 3, n 4]
def songN : Song := { tracks := [(0, List.replicate 9 lsD ++ phraseN ++ List.replicate 9 leD ++ phraseN)] }
def listN : List Int := [2, 4, 6, 8, 10, 12, 14, 16, 18, 18, 20, 20, 20, 18, 18, 18, 16, 14, 12, 10, 8, 6, 4, 2, 0, 2, 2, 2, 0, 0]
def mN : SAMap := [(0, { maxUsage := 20, eventList := listN })]

example : okv ((findBestMatch songN mN 15000).map fun r => (r.1.tracks == songN.tracks, r.2.1.bestScore)) =
    some (true, 0) := by decide +kernel

/-! ### the hypothesis `StackSoundAt` is about the map, not a formality (finding D28, repaired)

Ten unused macro tracks `*20 … *29`, each calling the one below it, `*20` calling `*30`; `*30` holds a
phrase three times.  BEFORE repository fix f7fbaab `analyze_stack` analysed `*20` as a root (base usage 0:
`*30` gets base usage 1) and marked it unused right away (`base_usage = 100`); the callers `*21 … *29`,
analysed later, found `100` there and did not analyse `*20` again, so `*30` kept base usage 1 although
the validator reaches it through `*29 → … → *20 → *30` with all ten frames in use.  The fold of `*30`
passed the stack test and the validator threw "stack overflow (depth limit reached)" on the result.
`mU` is the map the unrepaired `analyze_stack` returned (kept as the witness that a map which
underestimates a base usage breaks the fold: `D28_witness`, `stackSound_needed`); `mU2` is the map the
compiled model's repaired `analyzeStack songU` returns (the kernel cannot evaluate the well-founded
recursion of `analyze_track`): `*30` has base usage 10, the period fails the stack test, nothing is
folded (`D28_regression`).  Replayed on the real code: corpus case "D28" and family `d28-chain` of
checks/c01.py. -/

def songU : Song := { tracks := [(20, [jmp 30]), (21, [jmp 20]), (22, [jmp 21]), (23, [jmp 22]), (24, [jmp 23]),
  (25, [jmp 24]), (26, [jmp 25]), (27, [jmp 26]), (28, [jmp 27]), (29, [jmp 28]),
  (30, [n 1, n 2, n 3, n 1, n 2, n 3, n 1, n 2, n 3])] }
def mU : SAMap := [(20, { baseUsage := 100, maxUsage := 1, eventList := [1] }),
  (30, { baseUsage := 1, maxUsage := 0, eventList := [0, 0, 0, 0, 0, 0, 0, 0, 0] }),
  (21, { baseUsage := 100, maxUsage := 2, eventList := [2] }), (22, { baseUsage := 100, maxUsage := 3, eventList := [3] }),
  (23, { baseUsage := 100, maxUsage := 4, eventList := [4] }), (24, { baseUsage := 100, maxUsage := 5, eventList := [5] }),
  (25, { baseUsage := 100, maxUsage := 6, eventList := [6] }), (26, { baseUsage := 100, maxUsage := 7, eventList := [7] }),
  (27, { baseUsage := 100, maxUsage := 8, eventList := [8] }), (28, { baseUsage := 100, maxUsage := 9, eventList := [9] }),
  (29, { baseUsage := 100, maxUsage := 10, eventList := [10] })]
def bmU : Match := { trackId := 30, position := 0, loopPosition := 3, loopLength := 6 }

theorem wfU : SongWF songU := by
  refine ⟨by decide, ?_⟩
  intro p hp
  simp only [songU, List.mem_cons, List.not_mem_nil, or_false] at hp
  rcases hp with rfl | rfl | rfl | rfl | rfl | rfl | rfl | rfl | rfl | rfl | rfl <;>
    exact ⟨by decide, by decide, by decide⟩

theorem loopOK_U : LoopOK songU mU bmU := by
  have hf : findMatchLength songU mU 30 0 30 3 true = .ok (6, 6) := by
    have h : okv (findMatchLength songU mU 30 0 30 3 true) = some (6, 6) := by decide +kernel
    cases hx : findMatchLength songU mU 30 0 30 3 true with
    | error e => rw [hx] at h; simp [okv] at h
    | ok v => rw [hx] at h; simp only [okv, Option.some.injEq] at h; rw [h]
  refine ⟨by decide, by decide, by decide, ⟨6, hf⟩, ?_, ?_⟩
  · intro src hsrc
    have : src = [n 1, n 2, n 3, n 1, n 2, n 3, n 1, n 2, n 3] := by
      have h : songU.track? 30 = some [n 1, n 2, n 3, n 1, n 2, n 3, n 1, n 2, n 3] := by decide
      rw [show bmU.trackId = 30 from rfl, h] at hsrc
      exact (Option.some.inj hsrc).symm
    subst this
    decide
  · intro i _ h2
    have h3 : bmU.loopPosition = 3 := rfl
    have : i = 0 ∨ i = 1 ∨ i = 2 := by omega
    rcases this with rfl | rfl | rfl <;> exact ⟨0, by decide, by decide⟩

/-- the song validates, the match passes every test of `find_match` (the stack test on the whole period
included), the loop branch is taken — and the folded song does not validate -/
theorem D28_witness : validAll songU = true ∧ LoopOK songU mU bmU ∧ ¬ bmU.loopScore < bmU.subScore ∧
    okv ((applyMatch songU mU bmU 15000).map fun r => validAll r.1) = some false :=
  ⟨by decide +kernel, loopOK_U, by decide, by decide +kernel⟩

/-- hence a stack analysis that answers `mU` is not right about this period:
`C01_fold_keeps_depth_partial` needs its hypothesis -/
theorem stackSound_needed : ¬ StackSoundAt songU mU bmU := by
  intro hs
  obtain ⟨S', happ, hv⟩ := C01_fold_keeps_depth_partial (subId := 15000)
    (src := [n 1, n 2, n 3, n 1, n 2, n 3, n 1, n 2, n 3]) wfU loopOK_U (by decide) (by decide) hs
  have h := D28_witness.2.2.2
  rw [happ] at h
  simp only [Except.map, okv, Option.some.injEq] at h
  rw [hv] at h
  cases h

/-- the map the repaired `analyze_stack` computes for `songU` (marking after the loop over all tracks:
every later caller raises the base usage of the chain below it; `*30` ends at base usage 10) -/
def mU2 : SAMap := [(20, { baseUsage := 100, maxUsage := 1, eventList := [1] }),
  (30, { baseUsage := 10, maxUsage := 0, eventList := [0, 0, 0, 0, 0, 0, 0, 0, 0] }),
  (21, { baseUsage := 100, maxUsage := 2, eventList := [2] }), (22, { baseUsage := 100, maxUsage := 3, eventList := [3] }),
  (23, { baseUsage := 100, maxUsage := 4, eventList := [4] }), (24, { baseUsage := 100, maxUsage := 5, eventList := [5] }),
  (25, { baseUsage := 100, maxUsage := 6, eventList := [6] }), (26, { baseUsage := 100, maxUsage := 7, eventList := [7] }),
  (27, { baseUsage := 100, maxUsage := 8, eventList := [8] }), (28, { baseUsage := 100, maxUsage := 9, eventList := [9] }),
  (29, { baseUsage := 100, maxUsage := 10, eventList := [10] })]

/-- **regression of D28 on the repaired model**: with the repaired analysis the period of `bmU` fails the
stack test (`0 + 10 ≥ max_loop_stack`), so `StackSoundAt` holds of it (its premise is false), the
candidate is not a `LoopOK` match, and the whole pass finds nothing to do: the song stays as it is — and
it validates (`D28_witness.1`) -/
theorem D28_regression : ¬ LoopRoom (getSA mU2 30) 0 ∧ StackSoundAt songU mU2 bmU ∧ ¬ LoopOK songU mU2 bmU ∧
    okv ((findBestMatch songU mU2 15000).map fun r => (r.1.tracks == songU.tracks, r.2.1.bestScore)) = some (true, 0) := by
  have hroom : ¬ LoopRoom (getSA mU2 30) 0 := by
    rintro ⟨u, hu, hlt⟩
    have : u = 0 := by
      have h : (getSA mU2 30).eventList[0]? = some 0 := by decide
      rw [h] at hu
      exact (Option.some.inj hu).symm
    subst this
    revert hlt
    decide
  refine ⟨hroom, ?_, ?_, by decide +kernel⟩
  · intro src _ hall
    exact absurd (hall 0 (by decide) (by decide)) hroom
  · intro hok
    exact hroom (hok.room 0 (by decide) (by decide))

end Ctrmml.C01.Ex2
