/-
  C01 — Optimisation never changes what is played.   (placeholder layer; rewrite-soundness
  theorems are being ported from notes/proto_fold_sound.lean)
-/
import Ctrmml.Spec.Expand
namespace Ctrmml.C01
open Ctrmml Ctrmml.Expand

/-- repeating an item list `n+1` times is one copy followed by `n` copies -/
theorem C01_repeat_unfold (n : Nat) (l : List Item) : repeatItems (n + 1) l = l ++ repeatItems n l := rfl

end Ctrmml.C01
