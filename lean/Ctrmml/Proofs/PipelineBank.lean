/-
  Helper lemmas for Properties/C15: `data_bank[…]` in `get_mds` is always an access inside the bank.

  `MDSDRV_Data::read_song` stores in `envelope_map` / `pitch_map` only indices returned by
  `add_unique_data` (or 0, the default PSG envelope registered first) and the bank only grows
  (`BankInv`); the writer copies those indices into `used_data_map` under the tags 0x10000 /
  0x20000 (`UsedIn`, Proofs/PipelineWriter); `get_mds` masks the tag off.  Hence the converter model
  never returns `FErr.bankIndex`, and — same induction — never `FErr.writer (.player .impossible)`.
-/
import Ctrmml.Proofs.PipelineWriter
import Ctrmml.Proofs.PipelineStages
import Ctrmml.Proofs.MdsFile
namespace Ctrmml.Pipeline
open Ctrmml Ctrmml.Mds Ctrmml.MdsFile Tables

/-! ### `read_song`: the maps index the bank -/

structure BankInv (st : MdsData.State) : Prop where
  pos : 1 ≤ st.bank.length
  env : ∀ kv ∈ st.envMap, kv.2.toNat < st.bank.length
  pitch : ∀ kv ∈ st.pitchMap, kv.2.toNat < st.bank.length

theorem mset_mem {m : List (Nat × Int)} {k : Nat} {v : Int} {kv : Nat × Int} (h : kv ∈ MdsData.mset m k v) :
    kv ∈ m ∨ kv = (k, v) := by
  unfold MdsData.mset at h
  split at h
  · obtain ⟨q, hq, rfl⟩ := List.mem_map.1 h
    split
    · right; rfl
    · left; exact hq
  · rcases List.mem_append.1 h with h | h
    · left; exact h
    · right; simpa using h

theorem addUnique_spec {st st' : MdsData.State} {d : MdsData.NBytes} {idx : Nat}
    (h : MdsData.addUnique st d = .ok (st', idx)) :
    idx < st'.bank.length ∧ st.bank.length ≤ st'.bank.length ∧ st'.envMap = st.envMap ∧ st'.pitchMap = st.pitchMap := by
  unfold MdsData.addUnique at h
  split at h
  · rename_i i hi
    cases h
    unfold MdsData.findIdx at hi
    simp only at hi
    split at hi
    · rename_i hlt
      cases hi
      exact ⟨hlt, Nat.le_refl _, rfl, rfl⟩
    · cases hi
  · split at h
    · cases h
    · cases h
      simp

theorem BankInv.grow {st st' : MdsData.State} (h : BankInv st) (hl : st.bank.length ≤ st'.bank.length)
    (he : st'.envMap = st.envMap) (hp : st'.pitchMap = st.pitchMap) : BankInv st' :=
  ⟨by have := h.pos; omega, fun kv hkv => by rw [he] at hkv; have := h.env kv hkv; omega,
   fun kv hkv => by rw [hp] at hkv; have := h.pitch kv hkv; omega⟩

/-- storing a fresh index under an instrument id -/
theorem BankInv.setEnv {st st' : MdsData.State} (h : BankInv st) (hb : st'.bank = st.bank) (hp : st'.pitchMap = st.pitchMap)
    {id : Nat} {v : Int} (hv : v.toNat < st.bank.length) (he : st'.envMap = MdsData.mset st.envMap id v) : BankInv st' := by
  refine ⟨by rw [hb]; exact h.pos, fun kv hkv => ?_, fun kv hkv => by rw [hp] at hkv; rw [hb]; exact h.pitch kv hkv⟩
  rw [he] at hkv
  rw [hb]
  rcases mset_mem hkv with h1 | h1
  · exact h.env kv h1
  · rw [h1]; exact hv

theorem BankInv.setPitch {st st' : MdsData.State} (h : BankInv st) (hb : st'.bank = st.bank) (he : st'.envMap = st.envMap)
    {id : Nat} {v : Int} (hv : v.toNat < st.bank.length) (hp : st'.pitchMap = MdsData.mset st.pitchMap id v) : BankInv st' := by
  refine ⟨by rw [hb]; exact h.pos, fun kv hkv => by rw [he] at hkv; rw [hb]; exact h.env kv hkv, fun kv hkv => ?_⟩
  rw [hp] at hkv
  rw [hb]
  rcases mset_mem hkv with h1 | h1
  · exact h.pitch kv h1
  · rw [h1]; exact hv

/-- the common tail of the instrument adders: `add_unique_data`, then the entry of `envelope_map` -/
theorem bankInv_store {st st1 : MdsData.State} {d : MdsData.NBytes} {idx : Nat} (h : BankInv st)
    (hu : MdsData.addUnique st d = .ok (st1, idx)) {st2 : MdsData.State} (hb : st2.bank = st1.bank)
    (hp : st2.pitchMap = st1.pitchMap) {id : Nat} (he : st2.envMap = MdsData.mset st1.envMap id (idx : Int)) : BankInv st2 := by
  obtain ⟨h1, h2, h3, h4⟩ := addUnique_spec hu
  exact (h.grow h2 h3 h4).setEnv hb hp (by simpa using h1) he

theorem addInsFm4op_inv {st st' : MdsData.State} {id : Nat} {tag : List String} (h : BankInv st)
    (hr : MdsData.addInsFm4op st id tag = .ok st') : BankInv st' := by
  unfold MdsData.addInsFm4op at hr
  split at hr
  · cases hr
  · simp only at hr
    split at hr
    · cases hr
    · rename_i st1 idx hu
      cases hr
      exact bankInv_store h hu rfl rfl rfl

theorem addInsFm2op_inv {st st' : MdsData.State} {id : Nat} {tag : List String} (h : BankInv st)
    (hr : MdsData.addInsFm2op st id tag = .ok st') : BankInv st' := by
  unfold MdsData.addInsFm2op at hr
  split at hr
  · cases hr
  · simp only at hr
    split at hr
    · cases hr
    · split at hr
      · cases hr
      · split at hr
        · cases hr
        · split at hr
          · cases hr
          · rename_i st1 idx hu
            cases hr
            exact bankInv_store h hu rfl rfl rfl

theorem addInsPsg_inv {st st' : MdsData.State} {id : Nat} {tag : List String} (h : BankInv st)
    (hr : MdsData.addInsPsg MdsData.Arith.float st id tag = .ok st') : BankInv st' := by
  unfold MdsData.addInsPsg at hr
  split at hr
  · cases hr; exact h
  · split at hr
    · cases hr
    · split at hr
      · cases hr
      · rename_i st1 idx hu
        cases hr
        exact bankInv_store h hu rfl rfl rfl

theorem addPitch_inv {st st' : MdsData.State} {id : Nat} {tag : List String} (h : BankInv st)
    (hr : MdsData.addPitch MdsData.Arith.float st id tag = .ok st') : BankInv st' := by
  unfold MdsData.addPitch at hr
  split at hr
  · cases hr
    split
    · exact h.setPitch rfl rfl (by have := h.pos; show 0 < _; omega) rfl
    · exact h
  · simp only at hr
    repeat' split at hr
    all_goals first
      | (cases hr; done)
      | (cases hr
         obtain ⟨h1, h2, h3, h4⟩ := addUnique_spec ‹MdsData.addUnique st _ = Except.ok (_, _)›
         exact (h.grow h2 h3 h4).setPitch rfl rfl (by simpa using h1) rfl)

theorem addInstrument_inv {st st' : MdsData.State} {id : Nat} {tag : List String} (h : BankInv st)
    (hr : MdsData.addInstrument MdsData.Arith.float st id tag = .ok st') : BankInv st' := by
  unfold MdsData.addInstrument at hr
  split at hr
  · cases hr
  · simp only at hr
    split at hr
    · exact addInsFm4op_inv h hr
    · split at hr
      · exact addInsFm2op_inv h hr
      · split at hr
        · cases hp : MdsData.addInsPsg MdsData.Arith.float st id _ with
          | error e => rw [hp] at hr; simp [Except.map] at hr
          | ok s1 =>
            rw [hp] at hr
            simp only [Except.map, Except.ok.injEq] at hr
            have h1 := addInsPsg_inv h hp
            rw [← hr]
            split
            · exact h1.setEnv rfl rfl (by have := h1.pos; show 0 < _; omega) rfl
            · exact h1
        · split at hr <;> cases hr

theorem addInsPcm_inv {files : List (String × Bytes)} {d d' : DState} {id : Nat} {tag : List String} (h : BankInv d.st)
    (hr : addInsPcm files d id tag = .ok d') : BankInv d'.st := by
  unfold addInsPcm at hr
  simp only at hr
  repeat' split at hr
  all_goals first
    | (cases hr; done)
    | (cases hr
       have hu := ‹MdsData.addUnique d.st _ = Except.ok (_, _)›
       exact bankInv_store h hu rfl rfl rfl)

theorem liftData_ok {r : Except MdsData.Err MdsData.State} {s : MdsData.State} (h : liftData r = .ok s) : r = .ok s := by
  unfold liftData at h
  split at h
  · cases h; rfl
  · cases h
  · cases h

theorem readTags_inv (files : List (String × Bytes)) :
    ∀ (tags : List (String × List String)) (d d' : DState), BankInv d.st →
      readTags MdsData.Arith.float files d tags = .ok d' → BankInv d'.st := by
  intro tags
  induction tags with
  | nil => intro d d' h hr; cases hr; exact h
  | cons kv rest ih =>
    intro d d' h hr
    obtain ⟨key, tag⟩ := kv
    unfold readTags at hr
    split at hr
    · exact ih d d' h hr
    · simp only at hr
      split at hr
      · cases hr
      · rename_i d1 hd1
        refine ih d1 d' ?_ hr
        have hmap : ∀ (r : Except MdsData.Err MdsData.State),
            (liftData r).map (fun st => ({ d with st := st } : DState)) = .ok d1 → ∃ s, r = .ok s ∧ d1.st = s := by
          intro r hm
          cases hl : liftData r with
          | error e => rw [hl] at hm; simp [Except.map] at hm
          | ok s =>
            rw [hl] at hm
            simp only [Except.map, Except.ok.injEq] at hm
            exact ⟨s, liftData_ok hl, by rw [← hm]⟩
        split at hd1
        · obtain ⟨s, hs, he⟩ := hmap _ hd1
          rw [he]; exact addPitch_inv h hs
        · split at hd1
          · split at hd1
            · exact addInsPcm_inv h hd1
            · obtain ⟨s, hs, he⟩ := hmap _ hd1
              rw [he]; exact addInstrument_inv h hs
          · obtain ⟨s, hs, he⟩ := hmap _ hd1
            rw [he]; exact addInstrument_inv h hs

theorem bankInv_init (noext : Bool) : BankInv (MdsData.initState noext) :=
  ⟨by simp [MdsData.initState], fun kv h => by simp [MdsData.initState] at h ⊢; rw [h]; decide,
   fun kv h => by simp [MdsData.initState] at h⟩

theorem readSong_inv {files : List (String × Bytes)} {tags : List (String × List String)} {d : DState}
    (h : readSong MdsData.Arith.float files tags = .ok d) : BankInv d.st :=
  readTags_inv files tags _ d (bankInv_init _) h

/-! ### the writer sees indices inside the bank -/

theorem lookup_map_mem {α β γ : Type} [BEq γ] [LawfulBEq γ] (f : α × β → γ × Nat) :
    ∀ (l : List (α × β)) (k : γ) (v : Nat), (l.map f).lookup k = some v → ∃ kv ∈ l, (f kv).2 = v := by
  intro l
  induction l with
  | nil => intro k v h; simp at h
  | cons a r ih =>
    intro k v h
    simp only [List.map_cons, List.lookup] at h
    split at h
    · injection h with h
      exact ⟨a, List.mem_cons_self, h⟩
    · obtain ⟨kv, hkv, he⟩ := ih k v h
      exact ⟨kv, List.mem_cons_of_mem _ hkv, he⟩

theorem dataIn_of_bankInv {st : MdsData.State} (h : BankInv st) (platform : List (Int × Option (List MEv))) :
    DataIn st.bank.length (dataInfoOf st platform) := by
  constructor
  · intro k idx hl
    obtain ⟨kv, hkv, he⟩ := lookup_map_mem (fun kv : Nat × Int => (keyOfId kv.1, kv.2.toNat)) st.envMap k idx hl
    rw [← he]
    exact h.env kv hkv
  · intro k idx hl
    obtain ⟨kv, hkv, he⟩ := lookup_map_mem (fun kv : Nat × Int => (keyOfId kv.1, kv.2.toNat)) st.pitchMap k idx hl
    rw [← he]
    exact h.pitch kv hkv

/-! ### the constructor -/

theorem parseTracks_good {song : Song} {d : DataInfo} {B : Nat} (hd : DataIn B d) :
    ∀ (ids : List Nat) (c : Conv) (tl : List (Nat × List MEv)), UsedIn B c →
      (∀ x, parseTracks song d ids c tl = .error x → WOk x) ∧
      (∀ c' tl', parseTracks song d ids c tl = .ok (c', tl') → UsedIn B c') := by
  intro ids
  induction ids with
  | nil =>
    intro c tl hc
    exact ⟨fun _ h => (by cases h), fun c' tl' h => (by cases h; exact hc)⟩
  | cons id rest ih =>
    intro c tl hc
    unfold parseTracks
    split
    · exact ih c tl hc
    · rename_i evs _
      have hr := (wgood (song := song) hd 64).run 20000000 evs c
        { drumEnabled := false, inDrum := false, trackId := id } Player.initState hc (initState_ok song evs)
      split
      · rename_i x hx
        exact ⟨fun y h => (by cases h; exact hr.1 _ hx), fun _ _ h => (by cases h)⟩
      · rename_i c1 w hx
        exact ih c1 _ (hr.2 _ _ hx)

theorem usedIn_empty (B : Nat) : UsedIn B {} := fun p hp => by simp at hp

theorem addEntries_ok (nS nM : Nat) (bank : List (List Nat)) :
    ∀ (l : List (Nat × Nat)) (dblk : Riff.Riff), (∀ p ∈ l, p.1 % (mdsFile_bankMask + 1) < bank.length) →
      addEntries nS nM bank dblk l ≠ .error .bankIndex := by
  intro l
  induction l with
  | nil => intro dblk _ h; cases h
  | cons p rest ih =>
    intro dblk hl
    obtain ⟨mapped, envId⟩ := p
    unfold addEntries
    split
    · rename_i hnone
      exfalso
      have := hl (mapped, envId) List.mem_cons_self
      have h2 := List.getElem?_eq_none_iff.1 hnone
      simp only at this
      omega
    · rename_i dat _
      dsimp only
      cases ha : Riff.addChunk dblk (Riff.mk2 (if mapped < mdsFile_pcmTag then mdsFile_glob else mdsFile_pcmh)
          (le32 (entryId nS nM mapped envId) ++ toU8 dat)) with
      | error e => intro h; cases h
      | ok d' => exact ih _ (fun q hq => hl q (List.mem_cons_of_mem _ hq))

theorem getMds_ok {b : Built} {bank : List (List Nat)} (group pcm : Bytes) (h : UsedIn bank.length b.conv) :
    ∃ f, getMds b bank group pcm = .ok f := by
  cases hg : getMds b bank group pcm with
  | ok f => exact ⟨f, rfl⟩
  | error e =>
    exfalso
    have he := getMds_err hg
    subst he
    -- the only `bankIndex` comes from `addEntries`
    unfold getMds at hg
    obtain ⟨r1, h1, t1⟩ := addChunk_list (r := Riff.mk3 Riff.TYPE_RIFF mdsFile_MDS0) isList_riff
      (Riff.mk2 mdsFile_ver (toU8 [MDSDRV_SEQ_VERSION_MAJOR, MDSDRV_SEQ_VERSION_MINOR]))
    have l1 : Riff.isList r1.type = true := by rw [t1]; exact isList_riff
    obtain ⟨r2, h2, t2⟩ := addChunk_list l1 (Riff.mk2 mdsFile_grp group)
    have l2 : Riff.isList r2.type = true := by rw [t2]; exact l1
    obtain ⟨r3, h3, t3⟩ := addChunk_list l2 (Riff.mk2 mdsFile_seq (toU8 b.seq))
    have l3 : Riff.isList r3.type = true := by rw [t3]; exact l2
    simp only [h1, h2, h3, liftRiff, bind, Except.bind] at hg
    have hne := addEntries_ok b.conv.subList.length b.conv.macroList.length bank (usedSorted b.conv)
      (Riff.mk3 Riff.TYPE_LIST mdsFile_dblk) (by
        intro p hp
        apply h p
        unfold usedSorted at hp
        exact (List.mergeSort_perm _ _).mem_iff.1 hp)
    cases hd : addEntries b.conv.subList.length b.conv.macroList.length bank (Riff.mk3 Riff.TYPE_LIST mdsFile_dblk)
        (usedSorted b.conv) with
    | error x =>
      rw [hd] at hg
      simp only at hg
      injection hg with hg
      rw [hg] at hd
      exact hne hd
    | ok dblk =>
      rw [hd] at hg
      simp only at hg
      obtain ⟨r4, h4, t4⟩ := addChunk_list l3 dblk
      have l4 : Riff.isList r4.type = true := by rw [t4]; exact l3
      obtain ⟨r5, h5, _⟩ := addChunk_list l4 (Riff.mk2 mdsFile_pcmd pcm)
      simp only [h4, h5, pure, Except.pure] at hg
      cases hg

/-- **The converter model never indexes the data bank outside, and its writer's player never hits
the `vector::at` of the final-pass loop break** — for every input. -/
theorem exportMds_no_bank_no_at (inp : MdsFile.Input) :
    exportMds MdsData.Arith.float inp ≠ .error .bankIndex ∧
    exportMds MdsData.Arith.float inp ≠ .error (.writer (.player .impossible)) := by
  unfold exportMds
  cases hr : readSong MdsData.Arith.float inp.files inp.tags with
  | error e =>
    have := readTags_err _ _ _ _ hr
    constructor
    · intro h; injection h with h; rw [h] at this; exact this
    · intro h; injection h with h; rw [h] at this; exact this
  | ok d =>
    simp only
    have hinv := readSong_inv hr
    have hd := dataIn_of_bankInv hinv inp.platform
    obtain ⟨p1, p2⟩ := parseTracks_good (song := inp.song) hd (channelIds inp.song) {} [] (usedIn_empty _)
    cases hc : construct inp.song (dataInfoOf d.st inp.platform) inp.volume with
    | error e =>
      simp only
      unfold construct at hc
      split at hc
      · rename_i x hx
        cases hc
        refine ⟨fun h => (by cases h), fun h => ?_⟩
        injection h with h
        injection h with h
        exact p1 x hx h
      · have := assemble_err _ _ _ _ hc
        constructor
        · intro h; injection h with h; rw [h] at this; exact this
        · intro h; injection h with h; rw [h] at this; exact this
    | ok b =>
      simp only
      have hb : UsedIn d.st.bank.length b.conv := by
        unfold construct at hc
        split at hc
        · cases hc
        · rename_i c tl hx
          obtain ⟨_, _, _, _, _, _, _, hconv, _⟩ := assemble_ok hc
          rw [hconv]
          exact p2 c tl hx
      obtain ⟨f, hf⟩ := getMds_ok (inp.group.toUTF8.toList) (pcmOf d) hb
      rw [hf]
      exact ⟨fun h => (by cases h), fun h => (by cases h)⟩

end Ctrmml.Pipeline
