/-
  Codec round trip for counted loops WITH break: decoding the structured encoder
  (Proofs/CodecStruct) instruction by instruction, then transferring to `convert_track` with
  `convert_structured_eq`.

  Register invariant at the join points: at the loop start the encoder assumes nothing (forgot both
  registers at `LP`); at the exit by break the interpreter holds the registers of the break point,
  at the exit by count (only when the count is ≤ 1) those of the loop end — the encoder assumes
  nothing after a loop with a break (forgets both at `LPF`).
-/
import Ctrmml.Proofs.CodecStruct
namespace Ctrmml.Codec
open Ctrmml.Mds Ctrmml.Seq Tables

variable {seq : List Nat} {base mj : Nat} {M : Mode}

theorem brkCmd_cons (off : Nat) : ∃ b rest, brkCmd off = b :: rest ∧ b ≥ 0x80 := by
  unfold brkCmd; split
  · exact ⟨_, _, rfl, by decide⟩
  · exact ⟨_, _, rfl, by decide⟩

/-- the interpreter on the loop-break instruction (either form) -/
theorem step_brk {s : St} {l r : List Nat} {off : Nat} {f : LoopF} {fs : List LoopF}
    (hp : l ++ (brkCmd off ++ r) <+: seq) (hpc : s.pc = l.length) (hl : s.loops = f :: fs) :
    step seq base mj s =
      if f.count = 1 then .ok { s with pc := s.pc + (brkCmd off).length + off, loops := fs }
      else .ok { s with pc := s.pc + (brkCmd off).length } := by
  unfold brkCmd at hp ⊢
  by_cases hc : off < 256
  · simp only [hc, if_true] at hp ⊢
    have r0 : seq[s.pc]? = some mds_LPB := by rw [hpc]; exact rd_at hp
    have r1 : seq[s.pc + 1]? = some off := by rw [hpc]; exact rd_at1 hp
    rw [step_lpb r0 r1 hl]; rfl
  · simp only [hc, if_false] at hp ⊢
    have r0 : seq[s.pc]? = some mds_LPBL := by rw [hpc]; exact rd_at hp
    have r1 : seq[s.pc + 1]? = some (off / 256) := by rw [hpc]; exact rd_at1 hp
    have r2 : seq[s.pc + 1 + 1]? = some (off % 256) := by rw [hpc]; exact rd_at2 hp
    rw [step_lpbl r0 r1 r2 hl]
    have : off / 256 * 256 + off % 256 = off := by omega
    rw [this]; rfl

/-- everything that is fixed while the interpreter goes round one loop with a break -/
structure LB (M : Mode) (seq : List Nat) (base mj : Nat) (e e2 e4 : Enc) (off n : Nat) (r : List Nat) (Tb Tt : List Tk) : Prop where
  snd : M.Sound seq base mj
  semB : ∀ (s : St) (O : List Tk), Good M (afterLP e) s O →
    ∃ s1, Reach seq base mj s s1 ∧ FrameX s s1 ∧ Good M e2 s1 (Tb.reverse ++ O)
  semT : ∀ (s : St) (O : List Tk), Good M (afterLPB e2 (brkCmd off)) s O →
    ∃ s1, Reach seq base mj s s1 ∧ FrameX s s1 ∧ Good M e4 s1 (Tt.reverse ++ O)
  hp : (afterLPFB e4 n r).out <+: seq
  p4 : (afterLPB e2 (brkCmd off)).out <+: e4.out
  htgt : e2.out.length + (brkCmd off).length + off = e4.out.length + 2

namespace LB
variable {e e2 e4 : Enc} {off n : Nat} {r : List Nat} {Tb Tt : List Tk}

theorem hpF (c : LB M seq base mj e e2 e4 off n r Tb Tt) : e4.out ++ [mds_LPF, n % 256] <+: seq := c.hp

theorem hpC (c : LB M seq base mj e e2 e4 off n r Tb Tt) : e2.out ++ (brkCmd off ++ []) <+: seq := by
  have h : e2.out ++ brkCmd off <+: seq := c.p4.trans ((List.prefix_append _ _).trans c.hpF)
  simpa using h

/-- a state standing on the loop start is related to the encoder state after `LP` -/
theorem goodStart (s : St) (hpc : s.pc = (afterLP e).out.length) (hd : s.drum = M.dm) :
    Good M (afterLP e) s s.out :=
  ⟨fun h => absurd rfl h, fun h => absurd rfl h, hd,
    .inl ⟨needLenB_cmd (show mds_LP ≥ 0xe0 by decide), hpc, rfl⟩⟩

/-- body, then the interpreter stands on the break instruction -/
theorem toBrk (c : LB M seq base mj e e2 e4 off n r Tb Tt) {s : St} {O : List Tk} (g : Good M (afterLP e) s O) :
    ∃ s2, Reach seq base mj s s2 ∧ FrameX s s2 ∧ Idle M e2 s2 (Tb.reverse ++ O) := by
  obtain ⟨s1, r1, f1, g1⟩ := c.semB s O g
  obtain ⟨b, rest, hb, hge⟩ := brkCmd_cons off
  have hp : e2.out ++ b :: (rest ++ []) <+: seq := by
    have := c.hpC; rw [hb] at this; simpa using this
  obtain ⟨s2, r2, f2, i2⟩ := resolve (base := base) (mj := mj) c.snd g1 hge hp
  exact ⟨s2, r1.trans r2, f1.trans f2.x, i2⟩

/-- tail, then the interpreter stands on the loop end -/
theorem toLpf (c : LB M seq base mj e e2 e4 off n r Tb Tt) {s : St} {O : List Tk}
    (g : Good M (afterLPB e2 (brkCmd off)) s O) :
    ∃ s2, Reach seq base mj s s2 ∧ FrameX s s2 ∧ Idle M e4 s2 (Tt.reverse ++ O) ∧
      seq[s2.pc]? = some mds_LPF ∧ seq[s2.pc + 1]? = some (n % 256) := by
  obtain ⟨s1, r1, f1, g1⟩ := c.semT s O g
  obtain ⟨s2, r2, f2, i2⟩ := resolve (base := base) (mj := mj) c.snd g1 (b := mds_LPF) (by decide) c.hpF
  exact ⟨s2, r1.trans r2, f1.trans f2.x, i2, by rw [i2.pc]; exact rd_at c.hpF, by rw [i2.pc]; exact rd_at1 c.hpF⟩

theorem goodF (s : St) (O : List Tk) (hpc : s.pc = (afterLPFB e4 n r).out.length) (hd : s.drum = M.dm)
    (ho : s.out = O) : Good M (afterLPFB e4 n r) s O :=
  ⟨fun h => absurd rfl h, fun h => absurd rfl h, hd,
    .inl ⟨needLenB_cmd (show mds_LPF ≥ 0xe0 by decide), hpc, ho⟩⟩

theorem goodAfterBrk (s : St) (O : List Tk) (i : Idle M e2 s O) (s' : St)
    (hpc : s'.pc = s.pc + (brkCmd off).length) (hn : s'.lastNote = s.lastNote) (hr : s'.lastRest = s.lastRest)
    (hd : s'.drum = s.drum) (ho : s'.out = s.out) : Good M (afterLPB e2 (brkCmd off)) s' O :=
  ⟨by rw [hn]; exact i.note, by rw [hr]; exact i.rest, hd.trans i.drum,
    .inl ⟨needLenB_cmd (show mds_LPB ≥ 0xe0 by decide), by rw [hpc, i.pc]; simp [afterLPB], ho.trans i.out⟩⟩

theorem ticks_step (k : Nat) (Tb Tt O : List Tk) :
    (repeatL k (Tb ++ Tt) ++ Tb).reverse ++ (Tt.reverse ++ (Tb.reverse ++ O)) =
      (repeatL (k + 1) (Tb ++ Tt) ++ Tb).reverse ++ O := by
  simp [repeatL, List.reverse_append, List.append_assoc]

/-- passes with a known remaining count `k + 1`: `k` full passes, then the body and out by the break -/
theorem passes (c : LB M seq base mj e e2 e4 off n r Tb Tt) :
    ∀ (k : Nat) (s : St) (O : List Tk) (fs : List LoopF), Good M (afterLP e) s O →
      s.loops = { start := (afterLP e).out.length, count := k + 1 } :: fs →
      ∃ s', Reach seq base mj s s' ∧
        Good M (afterLPFB e4 n r) s' ((repeatL k (Tb ++ Tt) ++ Tb).reverse ++ O) ∧
        s'.loops = fs ∧ s'.calls = s.calls ∧ s'.drum = s.drum ∧ s'.jumps = s.jumps := by
  intro k
  induction k with
  | zero =>
    intro s O fs g hl
    obtain ⟨s2, r2, f2, i2⟩ := c.toBrk g
    have hl2 : s2.loops = { start := (afterLP e).out.length, count := 0 + 1 } :: fs := by rw [f2.loops, hl]
    have hs := step_brk (base := base) (mj := mj) c.hpC i2.pc hl2
    simp only [Nat.zero_add, if_true] at hs
    refine ⟨_, r2.trans (.one hs (Nat.le_refl _)), ?_, rfl, f2.calls, i2.drum.trans g.drum.symm, f2.jumps⟩
    apply goodF
    · have := c.htgt; simp [afterLPFB, i2.pc]; omega
    · exact i2.drum
    · simp [i2.out, repeatL]
  | succ k ih =>
    intro s O fs g hl
    obtain ⟨s2, r2, f2, i2⟩ := c.toBrk g
    have hl2 : s2.loops = { start := (afterLP e).out.length, count := k + 1 + 1 } :: fs := by rw [f2.loops, hl]
    have hs := step_brk (base := base) (mj := mj) c.hpC i2.pc hl2
    have c1 : ¬ (k + 1 + 1 = 1) := by omega
    simp only [c1, if_false] at hs
    obtain ⟨s3, hs3, hpc3, hn3, hr3, hlo3, hca3, hdr3, hju3, hou3⟩ : ∃ s3 : St, step seq base mj s2 = .ok s3 ∧
        s3.pc = s2.pc + (brkCmd off).length ∧ s3.lastNote = s2.lastNote ∧ s3.lastRest = s2.lastRest ∧
        s3.loops = s2.loops ∧ s3.calls = s2.calls ∧ s3.drum = s2.drum ∧ s3.jumps = s2.jumps ∧ s3.out = s2.out :=
      ⟨_, hs, rfl, rfl, rfl, rfl, rfl, rfl, rfl, rfl⟩
    have g3 := goodAfterBrk (off := off) s2 _ i2 s3 hpc3 hn3 hr3 hdr3 hou3
    obtain ⟨s4, r4, f4, i4, r0, r1⟩ := c.toLpf g3
    have hl4 : s4.loops = { start := (afterLP e).out.length, count := k + 1 + 1 } :: fs := by
      rw [f4.loops, hlo3, hl2]
    have hs4 := step_lpf (base := base) (mj := mj) r0 r1 hl4
    have c2 : ¬ (k + 1 + 1 = 0) := by omega
    have c3 : k + 1 + 1 - 1 > 0 := by omega
    simp only [c2, if_false, c3, if_true] at hs4
    obtain ⟨s5, hs5, hpc5, hlo5, hca5, hdr5, hju5, hou5⟩ : ∃ s5 : St, step seq base mj s4 = .ok s5 ∧
        s5.pc = (afterLP e).out.length ∧ s5.loops = { start := (afterLP e).out.length, count := k + 1 } :: fs ∧
        s5.calls = s4.calls ∧ s5.drum = s4.drum ∧ s5.jumps = s4.jumps ∧ s5.out = s4.out :=
      ⟨_, hs4, rfl, rfl, rfl, rfl, rfl, rfl⟩
    have g5 : Good M (afterLP e) s5 s5.out := goodStart s5 hpc5 (hdr5.trans i4.drum)
    obtain ⟨s', r', g', hl', hc', hd', hj'⟩ := ih s5 _ fs g5 hlo5
    refine ⟨s', r2.trans (.head hs3 (by rw [hou3]; exact Nat.le_refl _)
      (r4.trans (.head hs5 (by rw [hou5]; exact Nat.le_refl _) r'))), ?_, hl', ?_, ?_, ?_⟩
    · rw [hou5, i4.out] at g'
      rw [← ticks_step]; exact g'
    · rw [hc', hca5, f4.calls, hca3]; exact f2.calls
    · rw [hd', hdr5]; exact i4.drum.trans g.drum.symm
    · rw [hj', hju5, f4.jumps, hju3]; exact f2.jumps

/-- from the loop start with the count not yet known: the whole loop -/
theorem first (c : LB M seq base mj e e2 e4 off n r Tb Tt) (s : St) (O : List Tk) (fs : List LoopF)
    (g : Good M (afterLP e) s O) (hl : s.loops = { start := (afterLP e).out.length, count := 0 } :: fs) :
    ∃ s', Reach seq base mj s s' ∧
      Good M (afterLPFB e4 n r) s'
        ((repeatL (Codec.passes n - 1) (Tb ++ Tt) ++ Tb ++ (if n % 256 ≤ 1 then Tt else [])).reverse ++ O) ∧
      s'.loops = fs ∧ s'.calls = s.calls ∧ s'.drum = s.drum ∧ s'.jumps = s.jumps := by
  obtain ⟨s2, r2, f2, i2⟩ := c.toBrk g
  have hl2 : s2.loops = { start := (afterLP e).out.length, count := 0 } :: fs := by rw [f2.loops, hl]
  have hs := step_brk (base := base) (mj := mj) c.hpC i2.pc hl2
  have c1 : ¬ ((0 : Nat) = 1) := by omega
  simp only [c1, if_false] at hs
  obtain ⟨s3, hs3, hpc3, hn3, hr3, hlo3, hca3, hdr3, hju3, hou3⟩ : ∃ s3 : St, step seq base mj s2 = .ok s3 ∧
      s3.pc = s2.pc + (brkCmd off).length ∧ s3.lastNote = s2.lastNote ∧ s3.lastRest = s2.lastRest ∧
      s3.loops = s2.loops ∧ s3.calls = s2.calls ∧ s3.drum = s2.drum ∧ s3.jumps = s2.jumps ∧ s3.out = s2.out :=
    ⟨_, hs, rfl, rfl, rfl, rfl, rfl, rfl, rfl, rfl⟩
  have g3 := goodAfterBrk (off := off) s2 _ i2 s3 hpc3 hn3 hr3 hdr3 hou3
  obtain ⟨s4, r4, f4, i4, r0, r1⟩ := c.toLpf g3
  have hl4 : s4.loops = { start := (afterLP e).out.length, count := 0 } :: fs := by rw [f4.loops, hlo3, hl2]
  have hs4 := step_lpf (base := base) (mj := mj) r0 r1 hl4
  simp only [if_true] at hs4
  by_cases hc : n % 256 - 1 > 0
  · rw [if_pos hc] at hs4
    obtain ⟨k, hk⟩ : ∃ k, n % 256 - 1 = k + 1 := ⟨n % 256 - 1 - 1, by omega⟩
    obtain ⟨s5, hs5, hpc5, hlo5, hca5, hdr5, hju5, hou5⟩ : ∃ s5 : St, step seq base mj s4 = .ok s5 ∧
        s5.pc = (afterLP e).out.length ∧ s5.loops = { start := (afterLP e).out.length, count := k + 1 } :: fs ∧
        s5.calls = s4.calls ∧ s5.drum = s4.drum ∧ s5.jumps = s4.jumps ∧ s5.out = s4.out :=
      ⟨_, hs4, rfl, by simp [hk], rfl, rfl, rfl, rfl⟩
    have g5 : Good M (afterLP e) s5 s5.out := goodStart s5 hpc5 (hdr5.trans i4.drum)
    obtain ⟨s', r', g', hl', hc', hd', hj'⟩ := c.passes k s5 _ fs g5 hlo5
    have hpass : Codec.passes n - 1 = k + 1 := by unfold Codec.passes; split <;> omega
    have hn1 : ¬ n % 256 ≤ 1 := by omega
    refine ⟨s', r2.trans (.head hs3 (by rw [hou3]; exact Nat.le_refl _)
      (r4.trans (.head hs5 (by rw [hou5]; exact Nat.le_refl _) r'))), ?_, hl', ?_, ?_, ?_⟩
    · rw [hou5, i4.out] at g'
      rw [hpass, if_neg hn1, List.append_nil, ← ticks_step]; exact g'
    · rw [hc', hca5, f4.calls, hca3]; exact f2.calls
    · rw [hd', hdr5]; exact i4.drum.trans g.drum.symm
    · rw [hj', hju5, f4.jumps, hju3]; exact f2.jumps
  · rw [if_neg hc] at hs4
    have hpass : Codec.passes n - 1 = 0 := by unfold Codec.passes; split <;> omega
    have hn1 : n % 256 ≤ 1 := by omega
    refine ⟨_, r2.trans (.head hs3 (by rw [hou3]; exact Nat.le_refl _) (r4.trans (.one hs4 (Nat.le_refl _)))),
      ?_, rfl, ?_, ?_, ?_⟩
    · apply goodF
      · simp [afterLPFB, i4.pc]
      · exact i4.drum
      · simp [i4.out, hpass, if_pos hn1, repeatL, List.reverse_append, List.append_assoc]
    · show s4.calls = s.calls; rw [f4.calls, hca3]; exact f2.calls
    · show s4.drum = s.drum; exact i4.drum.trans g.drum.symm
    · show s4.jumps = s.jumps; rw [f4.jumps, hju3]; exact f2.jumps

end LB

/-- what a function on encoder states does, semantically (as `EvOk` / `SegOk`, for any encoder):
from mode `M` to mode `M'` -/
def StepOk (M M' : Mode) (C : List Nat → Nat → Nat → Prop) (f : Enc → Except CErr Enc) (e : Enc) (T : List Tk) : Prop :=
  ∃ e', f e = .ok e' ∧
    ∀ (seq : List Nat) (base mj : Nat) (s : St) (O : List Tk), M.Sound seq base mj → C seq base mj → e'.out <+: seq →
      Good M e s O → ∃ s1, Reach seq base mj s s1 ∧ FrameX s s1 ∧ Good M' e' s1 (T.reverse ++ O)

mutual
theorem noCall_callsOk (M : Mode) (seq : List Nat) (base mj : Nat) : ∀ (t : Node), t.noCall = true → t.callsOk M seq base mj
  | .ev _, _ => by simp [Node.callsOk]
  | .xbrk, _ => by simp [Node.callsOk]
  | .call _ _, h => by simp [Node.noCall] at h
  | .loop body _, h => by
    simp only [Node.callsOk]; exact noCallL_callsOkL M seq base mj body (by simpa [Node.noCall] using h)
  | .loopB body tail _, h => by
    simp only [Node.noCall, Bool.and_eq_true] at h
    simp only [Node.callsOk]
    exact ⟨noCallL_callsOkL M seq base mj body h.1, noCallL_callsOkL M seq base mj tail h.2⟩
theorem noCallL_callsOkL (M : Mode) (seq : List Nat) (base mj : Nat) : ∀ (ts : List Node), noCallL ts = true →
    callsOkL M seq base mj ts
  | [], _ => by simp [callsOkL]
  | t :: ts, h => by
    simp only [noCallL, Bool.and_eq_true] at h
    simp only [callsOkL]
    exact ⟨noCall_callsOk M seq base mj t h.1, noCallL_callsOkL _ seq base mj ts h.2⟩
end

/-- entering a loop: the pending note is resolved by the `LP` byte, a frame is pushed -/
theorem enter_loop (hS : M.Sound seq base mj) {e : Enc} {s : St} {O : List Tk} {rest : List Nat} (g : Good M e s O)
    (hp : e.out ++ mds_LP :: rest <+: seq) :
    ∃ s1, Reach seq base mj s s1 ∧ Good M (afterLP e) s1 O ∧
      s1.loops = { start := (afterLP e).out.length, count := 0 } :: s.loops ∧
      s1.calls = s.calls ∧ s1.drum = s.drum ∧ s1.jumps = s.jumps := by
  obtain ⟨s0, r0, f0, i0⟩ := resolve (base := base) (mj := mj) hS g (b := mds_LP) (by decide) hp
  have rd0 : seq[s0.pc]? = some mds_LP := by rw [i0.pc]; exact rd_at hp
  have hs := step_lp (base := base) (mj := mj) rd0
  obtain ⟨s1, hs1, hpc1, hlo1, hca1, hdr1, hju1, hou1⟩ : ∃ s1 : St, step seq base mj s0 = .ok s1 ∧
      s1.pc = s0.pc + 1 ∧ s1.loops = { start := s0.pc + 1, count := 0 } :: s0.loops ∧
      s1.calls = s0.calls ∧ s1.drum = s0.drum ∧ s1.jumps = s0.jumps ∧ s1.out = s0.out :=
    ⟨_, hs, rfl, rfl, rfl, rfl, rfl, rfl⟩
  have hlen1 : (afterLP e).out.length = s0.pc + 1 := by rw [i0.pc]; simp [afterLP]
  refine ⟨s1, r0.trans (.one hs1 (by rw [hou1]; exact Nat.le_refl _)), ?_, ?_, ?_, ?_, ?_⟩
  · have := LB.goodStart (M := M) (e := e) s1 (by rw [hpc1, hlen1]) (hdr1.trans i0.drum)
    rw [hou1, i0.out] at this; exact this
  · rw [hlo1, hlen1, f0.loops]
  · rw [hca1]; exact f0.calls
  · rw [hdr1]; exact f0.drum
  · rw [hju1]; exact f0.jumps

/-- an event that does not fit the mode but is allowed at the top level is a `FLG` command whose
argument switches the drum flag -/
theorem switch_of_not_evOk {M : Mode} {ev : MEv} (hv : linEv ev = true) (h1 : M.evOk ev = false)
    (h2 : ev.type = mds_FLG) : ev.arg % 256 < 0x80 := by
  simp only [Mode.evOk, Bool.and_eq_false_iff, Bool.or_eq_false_iff, bne_eq_false_iff_eq] at h1
  rcases h1 with h1 | h1
  · have : ¬ (mds_TIE ≤ ev.type ∧ ev.type < mds_SLR) := by rw [h2]; decide
    simp [h2, mds_FLG, mds_TIE, mds_SLR] at h1
  · have := h1.2
    simp only [drumSafe, Bool.or_eq_false_iff, decide_eq_false_iff_not] at this
    omega

theorem encEv_flg (nS nM : Nat) (e : Enc) (arg : Nat) :
    encEv nS nM e ⟨mds_FLG, arg⟩ = .ok { e with out := e.out ++ [mds_FLG, arg % 256], lastType := mds_FLG } :=
  encEv_other (by decide) (encOther_byte nS nM e arg (by decide))

mutual
/-- **decoding the structured encoder**: every bracket structure over the linear fragment -/
theorem encN_sim (M : Mode) (top : Bool) (nS nM : Nat) : ∀ (t : Node), t.lin = true → t.mok M top = true → ∀ e : Enc,
    StepOk M (t.after M) (fun seq base mj => t.callsOk M seq base mj) (encN nS nM t) e (t.exp M nS nM)
  | .ev ev, hl, hm, e => by
    have hl' : linEv ev = true := by simpa [Node.lin] using hl
    cases hok : M.evOk ev with
    | true =>
      obtain ⟨e', h, _, _, _, sem⟩ := encEv_lin M nS nM e ev hl' hok
      refine ⟨e', by simpa [encN] using h, fun seq base mj s O hS _ hp g => ?_⟩
      obtain ⟨s1, a, b, c⟩ := sem seq base mj s O hS hp g
      refine ⟨s1, a, b.x, ?_⟩
      simpa [Node.exp, Node.after, Mode.after_of_evOk hok] using c
    | false =>
      simp only [Node.mok, hok, Bool.false_or, Bool.and_eq_true, beq_iff_eq] at hm
      obtain ⟨ty, arg⟩ := ev
      have hty : ty = mds_FLG := hm.2
      subst hty
      have hlt : arg % 256 < 0x80 := switch_of_not_evOk hl' hok rfl
      refine ⟨_, by simpa [encN] using encEv_flg nS nM e arg, fun seq base mj s O hS _ hp g => ?_⟩
      obtain ⟨s1, a, b, c⟩ := flg_good (base := base) (mj := mj) hS g
        (e' := { e with out := e.out ++ [mds_FLG, arg % 256], lastType := mds_FLG }) hlt rfl rfl rfl
        (show mds_FLG ≥ 0xe0 by decide) hp
      refine ⟨s1, a, b, ?_⟩
      have hev : evTicks M nS nM ⟨mds_FLG, arg⟩ = [Tk.cmd mds_FLG (arg % 256)] := by
        have w : ¬ (236 : Nat) ∈ wordArgOps := by decide
        have b : (236 : Nat) ∈ byteArgOps := by decide
        simp [evTicks, cmdArg, isCmdOp, w, b, mds_FLG, mds_REST, mds_TIE, mds_SLR, mds_MTAB, mds_INS,
          mds_PCM, mds_PEG, mds_DMFINISH]
      simpa [Node.exp, Node.after, Mode.after, hlt, hev] using c
  | .xbrk, _, _, e =>
    ⟨e, rfl, fun _ _ _ s O _ _ _ g => ⟨s, .refl _, FrameX.rfl' _, by simpa [Node.exp, Node.after] using g⟩⟩
  | .call arg T, _, _, e => by
    refine ⟨afterPAT e arg, rfl, ?_⟩
    intro seq base mj s O hS hc hp g
    simp only [Node.callsOk] at hc
    obtain ⟨t, ht, hsub⟩ := hc
    obtain ⟨s1, a, b, c⟩ := pat_good hS g arg hp ht hsub
    exact ⟨s1, a, b.x, by simpa [Node.exp, Node.after] using c⟩
  | .loop body n, hl, hm, e => by
    have hl' : linL body = true := by simpa [Node.lin] using hl
    have hm' : mokL M false body = true := by simpa [Node.mok] using hm
    obtain ⟨e2, h2, sem2⟩ := encL_sim M false nS nM body hl' hm' (afterLP e)
    rw [afterL_of_mok hm'] at sem2
    obtain ⟨_, h2', p2, _, _⟩ := encL_total nS nM body hl' (afterLP e)
    rw [h2] at h2'; injection h2' with h2'; subst h2'
    refine ⟨afterLPF e2 n e.breaks, by simp [encN, h2], ?_⟩
    intro seq base mj s O hS hc hp g
    simp only [Node.callsOk] at hc
    have pF : e2.out <+: (afterLPF e2 n e.breaks).out := List.prefix_append _ _
    have hp1 : e.out ++ mds_LP :: [] <+: seq := p2.trans (pF.trans hp)
    obtain ⟨s1, r1, g1, hl1, hc1, hd1, hj1⟩ := enter_loop (base := base) (mj := mj) hS g hp1
    obtain ⟨s', r', g', hl', hc', hd', hj'⟩ := loop_first (base := base) (mj := mj) (n := n) hS
      (eF := afterLPF e2 n e.breaks)
      (fun s O g => sem2 seq base mj s O hS hc (pF.trans hp) g) rfl rfl rfl (show mds_LPF ≥ 0xe0 by decide) rfl rfl
      (needLenB_cmd (show mds_LP ≥ 0xe0 by decide)) hp s1 O s.loops g1 hl1
    refine ⟨s', r1.trans r', ⟨hl', hc'.trans hc1, hj'.trans hj1⟩, ?_⟩
    simpa [Node.exp, Node.after] using g'
  | .loopB body tail n, hl, hm, e => by
    simp only [Node.lin, Bool.and_eq_true] at hl
    simp only [Node.mok, Bool.and_eq_true] at hm
    obtain ⟨e2, h2, semB⟩ := encL_sim M false nS nM body hl.1 hm.1 (afterLP e)
    rw [afterL_of_mok hm.1] at semB
    obtain ⟨_, h2', p2, _, _⟩ := encL_total nS nM body hl.1 (afterLP e)
    rw [h2] at h2'; injection h2' with h2'; subst h2'
    obtain ⟨e4, h4, p4, _, _⟩ := encL_total nS nM tail hl.2 (afterLPB e2 [])
    obtain ⟨off, hoff⟩ : ∃ off, off = e4.out.length - e2.out.length + 2 := ⟨_, rfl⟩
    obtain ⟨e4', h4', semT⟩ := encL_sim M false nS nM tail hl.2 hm.2 (afterLPB e2 (brkCmd off))
    rw [afterL_of_mok hm.2] at semT
    obtain ⟨_, h4'', p4', _, _⟩ := encL_total nS nM tail hl.2 (afterLPB e2 (brkCmd off))
    rw [h4'] at h4''; injection h4'' with h4''; subst h4''
    -- pass 1 and pass 2 have the same length
    obtain ⟨x, hx, q⟩ := encL_par nS nM tail hl.2 _ (afterLPB e2 (brkCmd off)) _
      (sim_afterLPB (e := e2) (e2 := e2) ⟨rfl, rfl, rfl, fun _ => rfl⟩ [] (brkCmd off)) h4
    rw [h4'] at hx; injection hx with hx; subst hx
    have htgt : e2.out.length + (brkCmd off).length + off = e4'.out.length + 2 := by
      have h1 := q.len
      have h2 := p4.length_le
      have h3 := p4'.length_le
      simp [afterLPB] at h1 h2 h3
      omega
    refine ⟨afterLPFB e4' n e.breaks, by simp [encN, h2, h4, ← hoff, h4'], ?_⟩
    intro seq base mj s O hS hc hp g
    simp only [Node.callsOk] at hc
    have pF : e4'.out <+: (afterLPFB e4' n e.breaks).out := List.prefix_append _ _
    have pC : e2.out <+: (afterLPB e2 (brkCmd off)).out := List.prefix_append _ _
    have hp1 : e.out ++ mds_LP :: [] <+: seq := p2.trans (pC.trans (p4'.trans (pF.trans hp)))
    obtain ⟨s1, r1, g1, hl1, hc1, hd1, hj1⟩ := enter_loop (base := base) (mj := mj) hS g hp1
    have c : LB M seq base mj e e2 e4' off n e.breaks (expL M nS nM body) (expL M nS nM tail) :=
      ⟨hS, fun s O g => semB seq base mj s O hS hc.1 (pC.trans (p4'.trans (pF.trans hp))) g,
       fun s O g => semT seq base mj s O hS hc.2 (pF.trans hp) g, hp, p4', htgt⟩
    obtain ⟨s', r', g', hl', hc', hd', hj'⟩ := c.first s1 O s.loops g1 hl1
    refine ⟨s', r1.trans r', ⟨hl', hc'.trans hc1, hj'.trans hj1⟩, ?_⟩
    simpa [Node.exp, Node.after] using g'
theorem encL_sim (M : Mode) (top : Bool) (nS nM : Nat) : ∀ (ts : List Node), linL ts = true → mokL M top ts = true →
    ∀ e : Enc, StepOk M (afterL M ts) (fun seq base mj => callsOkL M seq base mj ts) (encL nS nM ts) e (expL M nS nM ts)
  | [], _, _, e => ⟨e, rfl, fun _ _ _ s O _ _ _ g => ⟨s, .refl _, FrameX.rfl' _, by simpa [expL, afterL] using g⟩⟩
  | t :: ts, hl, hm, e => by
    simp only [linL, Bool.and_eq_true] at hl
    simp only [mokL, Bool.and_eq_true] at hm
    obtain ⟨e1, h1, sem1⟩ := encN_sim M top nS nM t hl.1 hm.1 e
    obtain ⟨e2, h2, sem2⟩ := encL_sim (t.after M) top nS nM ts hl.2 hm.2 e1
    obtain ⟨_, h2', p2, _, _⟩ := encL_total nS nM ts hl.2 e1
    rw [h2] at h2'; injection h2' with h2'; subst h2'
    refine ⟨e2, by simp [encL, h1, h2], ?_⟩
    intro seq base mj s O hS hc hp g
    simp only [callsOkL] at hc
    obtain ⟨s1, r1, f1, g1⟩ := sem1 seq base mj s O hS hc.1 (p2.trans hp) g
    have hS' : (t.after M).Sound seq base mj := by
      cases t <;> simp only [Node.after] <;> try exact hS
      unfold Mode.after; split
      · exact Mode.set_sound hS _
      · exact hS
    obtain ⟨s2, r2, f2, g2⟩ := sem2 seq base mj s1 _ hS' hc.2 hp g1
    exact ⟨s2, r1.trans r2, f1.trans f2, by simpa [expL, afterL, List.reverse_append, List.append_assoc] using g2⟩
end

theorem afterL_sound {M : Mode} {seq : List Nat} {base mj : Nat} (hS : M.Sound seq base mj) :
    ∀ ts : List Node, (afterL M ts).Sound seq base mj := by
  intro ts
  induction ts generalizing M with
  | nil => exact hS
  | cons t ts ih =>
    simp only [afterL]
    apply ih
    cases t <;> simp only [Node.after] <;> try exact hS
    unfold Mode.after; split
    · exact Mode.set_sound hS _
    · exact hS

/-- **C02, counted loops with and without break, nested to any depth.**  The structured encoding
exists; if it (with the terminator) is shorter than 64 KiB it is what `convert_track` produces, and
the interpreter plays exactly the loop expansion. -/
theorem codec_roundtrip_loops (nS nM : Nat) (ts : List Node) (hl : linL ts = true) (hk : brkOkL false ts = true)
    (hnc : noCallL ts = true) (hm : mokL Mode.plain false ts = true) (farg : Nat) :
    ∃ e', encL nS nM ts {} = .ok e' ∧
      (e'.out.length + 1 < 65536 →
        convertTrack nS nM (flatL ts ++ [⟨mds_FINISH, farg⟩]) = .ok (e'.out ++ [mds_FINISH]) ∧
        ∀ (base mj : Nat) (ln lr : Option Nat),
          Plays (e'.out ++ [mds_FINISH]) base mj ln lr (expL Mode.plain nS nM ts)) := by
  obtain ⟨e1, he1, sem⟩ := encL_sim Mode.plain false nS nM ts hl hm {}
  rw [afterL_of_mok hm] at sem
  refine ⟨e1, he1, fun hb => ⟨?_, ?_⟩⟩
  · have := encL_eq nS nM ts false hl hk {} e1 (fun h => by cases h) he1 (by omega)
    simp [convertTrack, encAll_append, this, encAll, encEv_finish, Except.map]
  · intro base mj ln lr
    have hS := Mode.plain_sound (e1.out ++ [mds_FINISH]) base mj
    obtain ⟨s1, r1, f1, g1⟩ := sem (e1.out ++ [mds_FINISH]) base mj _ [] hS (noCallL_callsOkL _ _ _ _ ts hnc)
      (List.prefix_append _ _) (good_init ln lr)
    obtain ⟨s2, r2, hfin, ho⟩ := finish_run (base := base) (mj := mj) hS g1 (f1.calls) (List.prefix_refl _)
    exact ⟨s2, r1.trans r2, hfin, by simpa using ho⟩

end Ctrmml.Codec
