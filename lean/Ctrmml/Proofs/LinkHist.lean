/-
  Helper lemmas for C10: the invariant of a linker over whole histories of `add_song` calls.
  What each song carried for every pointer slot (`Carried`, read off the file by `readSong`), what
  it means that a patch-table entry resolves to it in the current banks (`Resolves`), and the
  proof that one `glob` / `pcmh` chunk, one `add_song`, and any list of operations keep every
  earlier resolution intact (`Ext`), on top of the allocator invariant of C14 (`Wave.Inv`).
  No property statements here.
-/
import Ctrmml.Proofs.LinkWalk
import Ctrmml.Proofs.Linker
import Ctrmml.Proofs.Wave
import Ctrmml.Spec.Link
namespace Ctrmml.Linker
open Ctrmml Ctrmml.Alloc

/-- what a song carries for one pointer slot, as `add_song` reads it from the `dblk` list -/
inductive Carried
  | data (addr : Nat) (flag : Bool) (bytes : Bytes)
  | pcm (addr : Nat) (hdr : Wave.Sample) (bytes : Bytes)   -- the song's header and its playback window `pcmd[position+start, +size)`
  deriving DecidableEq

/-- the `uint16_t` patch address of entry `id` -/
def slotAddr (sdata id : Nat) : Nat := Wave.u32 (sdata + Wave.u32 (id * 2)) % 65536

def carriedOf (sdata : Nat) (pcmd : Bytes) (c : Riff.Riff) : Option Carried :=
  if c.type = Tables.link_cc_glob then
    match rdLe32 c.data 0 with
    | none => none
    | some id => some (.data (slotAddr sdata id) (decide (id ≥ 2147483648)) (c.data.drop 4))
  else if c.type = Tables.link_cc_pcmh then
    match rdLe32 c.data 0, Wave.Sample.fromBytes (c.data.drop 4) with
    | some id, some hdr => some (.pcm (slotAddr sdata id) hdr (LinkSpec.readAt pcmd (hdr.position + hdr.start) hdr.size))
    | _, _ => none
  else none

def SongRead.carried (rd : SongRead) : List Carried := rd.chunks.filterMap (carriedOf rd.sdata rd.pcmd)

/-- patch-table entry `q = (address, value)` resolves to what the song carried: the value is the
(16-bit) index of a data-bank entry that is the carried data itself, or the PCM header of a sample
`h2` of the wave bank whose window shows the carried sample bytes -/
def Resolves (bank : List Bytes) (w : Wave.Bank) (q : Nat × Nat) : Carried → Prop
  | .data addr flag bytes => q.1 = addr ∧
      ∃ idx, q.2 = (if flag then idx % 65536 ||| 0x8000 else idx % 65536) ∧ bank[idx]? = some bytes
  | .pcm addr hdr bytes => q.1 = addr ∧
      ∃ idx h2, q.2 = idx % 65536 ∧ bank[idx]? = some (pcmHeader h2) ∧ h2 ∈ w.samples ∧ h2.start = 0 ∧
        h2.size = hdr.size ∧ h2.rate = hdr.rate ∧ Win.reads w.rom ⟨h2.position, h2.size⟩ = bytes

/-- the banks only grow: data-bank indices keep their entries, sample headers stay, regions stay, and
no byte of a window inside an old region changes -/
structure Ext (bank : List Bytes) (w : Wave.Bank) (rs : List Win) (bank' : List Bytes) (w' : Wave.Bank) (rs' : List Win) : Prop where
  bank : ∀ (i : Nat) (e : Bytes), bank[i]? = some e → bank'[i]? = some e
  samples : ∀ s ∈ w.samples, s ∈ w'.samples
  regions : ∀ r ∈ rs, r ∈ rs'
  stable : ∀ win : Win, (∃ r ∈ rs, r.lo ≤ win.lo ∧ win.lo + win.len ≤ r.lo + r.len) → win.reads w'.rom = win.reads w.rom
  count : w.samples.length ≤ w'.samples.length
  same : w'.maxSize = w.maxSize ∧ w'.bankSize = w.bankSize

theorem Ext.refl (bank : List Bytes) (w : Wave.Bank) (rs : List Win) : Ext bank w rs bank w rs :=
  ⟨fun _ _ h => h, fun _ h => h, fun _ h => h, fun _ _ => rfl, Nat.le_refl _, rfl, rfl⟩

theorem Ext.trans {b1 b2 b3 : List Bytes} {w1 w2 w3 : Wave.Bank} {r1 r2 r3 : List Win}
    (x : Ext b1 w1 r1 b2 w2 r2) (y : Ext b2 w2 r2 b3 w3 r3) : Ext b1 w1 r1 b3 w3 r3 := by
  refine ⟨fun i e h => y.bank i e (x.bank i e h), fun s h => y.samples s (x.samples s h),
    fun r h => y.regions r (x.regions r h), ?_, Nat.le_trans x.count y.count,
    by rw [y.same.1, x.same.1], by rw [y.same.2, x.same.2]⟩
  intro win ⟨r, hr, h1, h2⟩
  rw [y.stable win ⟨r, x.regions r hr, h1, h2⟩, x.stable win ⟨r, hr, h1, h2⟩]

theorem Resolves.mono {bank bank' : List Bytes} {w w' : Wave.Bank} {rs rs' : List Win} {q : Nat × Nat} {c : Carried}
    (h : Resolves bank w q c) (inv : Wave.Inv w rs) (x : Ext bank w rs bank' w' rs') : Resolves bank' w' q c := by
  cases c with
  | data addr flag bytes =>
    obtain ⟨h1, idx, h2, h3⟩ := h
    exact ⟨h1, idx, h2, x.bank idx bytes h3⟩
  | pcm addr hdr bytes =>
    obtain ⟨h1, idx, h2, e1, e2, e3, e4, e5, e6, e7⟩ := h
    refine ⟨h1, idx, h2, e1, x.bank idx _ e2, x.samples h2 e3, e4, e5, e6, ?_⟩
    obtain ⟨r, hr, g1, g2⟩ := inv.housed h2 e3
    rw [x.stable ⟨h2.position, h2.size⟩ ⟨r, hr, g1, by simp only; omega⟩]
    exact e7

/-- pointwise relation between two lists of equal length -/
inductive All2 {α β : Type} (R : α → β → Prop) : List α → List β → Prop
  | nil : All2 R [] []
  | cons {a : α} {b : β} {as : List α} {bs : List β} : R a b → All2 R as bs → All2 R (a :: as) (b :: bs)

theorem All2.imp {α β : Type} {R S : α → β → Prop} (f : ∀ a b, R a b → S a b) {as : List α} {bs : List β}
    (h : All2 R as bs) : All2 S as bs := by
  induction h with
  | nil => exact .nil
  | cons h _ ih => exact .cons (f _ _ h) ih

theorem forall2_mono {bank bank' : List Bytes} {w w' : Wave.Bank} {rs rs' : List Win} {qs : List (Nat × Nat)} {cs : List Carried}
    (h : All2 (Resolves bank w) qs cs) (inv : Wave.Inv w rs) (x : Ext bank w rs bank' w' rs') :
    All2 (Resolves bank' w') qs cs := by
  induction h with
  | nil => exact .nil
  | cons h _ ih => exact .cons (h.mono inv x) ih

/-! ### add_unique_data -/

theorem addUnique_spec (bank : List Bytes) (d : Bytes) (hnd : bank.Nodup) :
    (addUnique bank d).2[(addUnique bank d).1]? = some d ∧
    (∀ (i : Nat) (e : Bytes), bank[i]? = some e → (addUnique bank d).2[i]? = some e) ∧ (addUnique bank d).2.Nodup := by
  unfold addUnique
  cases h : findUnique bank d with
  | some i => exact ⟨(findUnique_some h).1, fun _ _ h => h, hnd⟩
  | none =>
    have hn := findUnique_none h
    refine ⟨by simp, ?_, ?_⟩
    · intro i e hi
      have hlt : i < bank.length := by
        rcases Nat.lt_or_ge i bank.length with h | h
        · exact h
        · rw [List.getElem?_eq_none h] at hi; cases hi
      simp only
      rw [List.getElem?_append_left hlt]; exact hi
    · simp only
      rw [List.nodup_append]
      exact ⟨hnd, by simp, by intro a ha b hb; simp at hb; subst hb; intro e; subst e; exact hn ha⟩

/-! ### sample counts only grow (no invariant needed) -/

theorem addSample_count (b : Wave.Bank) (h : Wave.Sample) (data : Bytes) (b' : Wave.Bank) (idx : Nat)
    (hok : Wave.addSample b h data = .ok (b', idx)) : b.samples.length ≤ b'.samples.length ∧ idx < b'.samples.length := by
  unfold Wave.addSample at hok
  split at hok
  · cases hok
  split at hok
  · cases hok
  cases hd : Wave.findDuplicate b h data with
  | some d =>
    simp only [hd] at hok
    split at hok
    · rename_i r hr
      simp only [Except.ok.injEq, Prod.mk.injEq] at hok
      obtain ⟨rfl, rfl⟩ := hok
      exact ⟨Nat.le_refl _, (List.findIdx?_eq_some_iff_getElem.mp hr).1⟩
    · simp only [Except.ok.injEq, Prod.mk.injEq] at hok
      obtain ⟨rfl, rfl⟩ := hok
      simp
  | none =>
    simp only [hd] at hok
    unfold Wave.addFresh at hok
    simp only at hok
    split at hok
    · cases hok
    split at hok
    · cases hok
    simp only [Except.ok.injEq, Prod.mk.injEq] at hok
    obtain ⟨rfl, rfl⟩ := hok
    simp

/-- a successful addition of a whole sample is never larger than the rom -/
theorem addSample_small (b : Wave.Bank) (rs : List Win) (h : Wave.Sample) (data : Bytes) (b' : Wave.Bank) (idx : Nat)
    (inv : Wave.Inv b rs) (hsz : h.size = data.length) (hok : Wave.addSample b h data = .ok (b', idx)) :
    data.length < 1073741824 := by
  obtain ⟨hm, _⟩ := inv.small
  have hrl := inv.romLen
  unfold Wave.addSample at hok
  split at hok
  · cases hok
  split at hok
  · cases hok
  split at hok
  · rename_i d hd
    unfold Wave.findDuplicate at hd
    obtain ⟨hlt, hp, _⟩ := List.findIdx?_eq_some_iff_getElem.mp hd
    simp only [Wave.dupTest, Bool.and_eq_true, decide_eq_true_eq] at hp
    obtain ⟨⟨⟨⟨t1, _⟩, _⟩, _⟩, _⟩ := hp
    omega
  · unfold Wave.addFresh at hok
    simp only at hok
    split at hok
    · cases hok
    split at hok
    · cases hok
    · rename_i hc
      omega

/-! ### one chunk -/

theorem addGlob_step (sdata seqLen : Nat) (data : Bytes) (a a' : Acc) (hnd : a.bank.Nodup)
    (h : addGlob sdata seqLen data a = .ok a') :
    ∃ id q, rdLe32 data 0 = some id ∧ a'.patch = a.patch ++ [q] ∧ a'.wave = a.wave ∧ a'.bank.Nodup ∧
      (∀ (i : Nat) (e : Bytes), a.bank[i]? = some e → a'.bank[i]? = some e) ∧
      Resolves a'.bank a'.wave q (.data (slotAddr sdata id) (decide (id ≥ 2147483648)) (data.drop 4)) := by
  unfold addGlob at h
  split at h
  · cases h
  · rename_i id hid
    simp only at h
    split at h
    · cases h
    · simp only [Except.ok.injEq] at h
      subst h
      obtain ⟨u1, u2, u3⟩ := addUnique_spec a.bank (data.drop 4) hnd
      refine ⟨id, _, hid, rfl, rfl, u3, u2, rfl, (addUnique a.bank (data.drop 4)).1, ?_, u1⟩
      by_cases hf : id ≥ 2147483648
      · simp [hf]
      · simp [hf]

theorem addPcmh_count (sdata seqLen : Nat) (pcmd data : Bytes) (a a' : Acc)
    (h : addPcmh sdata seqLen pcmd data a = .ok a') : a.wave.samples.length ≤ a'.wave.samples.length := by
  unfold addPcmh at h
  split at h
  · cases h
  simp only at h
  split at h
  · cases h
  split at h
  · cases h
  split at h
  · cases h
  split at h
  · cases h
  · rename_i w sidx hadd
    split at h
    · cases h
    · simp only [Except.ok.injEq] at h
      subst h
      exact (addSample_count _ _ _ _ _ hadd).1

theorem addPcmh_step (sdata seqLen : Nat) (pcmd data : Bytes) (a a' : Acc) (rs : List Win)
    (inv : Wave.Inv a.wave rs) (hnd : a.bank.Nodup)
    (h : addPcmh sdata seqLen pcmd data a = .ok a') :
    ∃ id hdr q rs', rdLe32 data 0 = some id ∧ Wave.Sample.fromBytes (data.drop 4) = some hdr ∧
      a'.patch = a.patch ++ [q] ∧ Wave.Inv a'.wave rs' ∧ a'.bank.Nodup ∧
      Ext a.bank a.wave rs a'.bank a'.wave rs' ∧
      Resolves a'.bank a'.wave q (.pcm (slotAddr sdata id) hdr (LinkSpec.readAt pcmd (hdr.position + hdr.start) hdr.size)) := by
  unfold addPcmh at h
  split at h
  · cases h
  · rename_i id hid
    simp only at h
    split at h
    · cases h
    · split at h
      · cases h
      · rename_i header hh
        split at h
        · cases h
        · rename_i hfit
          split at h
          · cases h
          · rename_i w sidx hadd
            split at h
            · cases h
            · rename_i h2 hget
              simp only [Except.ok.injEq] at h
              subst h
              have hlen : ((pcmd.drop (header.position + header.start)).take header.size).length = header.size := by
                simp only [List.length_take, List.length_drop]; omega
              have hsmall := addSample_small a.wave rs { header with position := 0, start := 0 } _ w sidx inv (by simp only [hlen]) hadd
              have adm : Wave.Adm a.wave { header with position := 0, start := 0 } ((pcmd.drop (header.position + header.start)).take header.size) :=
                ⟨hsmall⟩
              have so := Wave.addSample_step a.wave rs _ _ w sidx inv adm hadd
              obtain ⟨s0, hs0, hread, hst, hsz, hrt⟩ := so.entry
              have hst0 : s0.start = 0 := by rw [hst]; simp
              have hcnt := addSample_count _ _ _ _ _ hadd
              have es : s0 = h2 := by rw [hs0] at hget; exact Option.some.inj hget
              subst es
              obtain ⟨u1, u2, u3⟩ := addUnique_spec a.bank (pcmHeader s0) hnd
              have hreg : ∀ r ∈ rs, r ∈ Wave.stepRegions a.wave { header with position := 0, start := 0 } ((pcmd.drop (header.position + header.start)).take header.size) rs := by
                intro r hr
                unfold Wave.stepRegions
                split
                · exact hr
                · exact List.mem_append_left _ hr
              have hsamp : ∀ s ∈ a.wave.samples, s ∈ w.samples := by
                intro s hs
                rcases so.grows with ⟨_, g⟩ | ⟨_, s1, g⟩
                · rw [g]; exact hs
                · rw [g]; exact List.mem_append_left _ hs
              refine ⟨id, header, _, _, hid, hh, rfl, so.inv, u3, ⟨u2, hsamp, hreg, so.stable, hcnt.1, so.same⟩, rfl,
                (addUnique a.bank (pcmHeader s0)).1, s0, rfl, u1, List.mem_of_getElem? hs0, hst0, hsz, hrt, ?_⟩
              · have : Wave.Sample.win s0 = ⟨s0.position, s0.size⟩ := by
                  simp only [Wave.Sample.win, hst0, Nat.add_zero]
                rw [← this, hread]
                simp only [List.drop_zero, LinkSpec.readAt]
                rw [List.take_take, Nat.min_self]

/-- one child of the `dblk` list -/
theorem stepDblk_step (sdata seqLen : Nat) (pcmd : Bytes) (c : Riff.Riff) (a a' : Acc) (rs : List Win)
    (inv : Wave.Inv a.wave rs) (hnd : a.bank.Nodup)
    (h : stepDblk sdata seqLen pcmd c a = .ok a') :
    ∃ rs', Wave.Inv a'.wave rs' ∧ a'.bank.Nodup ∧ Ext a.bank a.wave rs a'.bank a'.wave rs' ∧
      ((carriedOf sdata pcmd c = none ∧ a'.patch = a.patch) ∨
       ∃ q cr, carriedOf sdata pcmd c = some cr ∧ a'.patch = a.patch ++ [q] ∧ Resolves a'.bank a'.wave q cr) := by
  unfold stepDblk at h
  split at h
  · rename_i hty
    obtain ⟨id, q, h1, h2, h3, h4, h5, h6⟩ := addGlob_step sdata seqLen c.data a a' hnd h
    refine ⟨rs, by rw [h3]; exact inv, h4, ⟨h5, by rw [h3]; exact fun _ h => h, fun _ h => h, by rw [h3]; exact fun _ _ => rfl, by rw [h3]; exact Nat.le_refl _, by rw [h3]; exact ⟨rfl, rfl⟩⟩, Or.inr ⟨q, _, ?_, h2, h6⟩⟩
    simp only [carriedOf, hty, if_true, h1]
  · split at h
    · rename_i hty1 hty
      obtain ⟨id, hdr, q, rs', h1, h2, h3, h4, h5, h6, h7⟩ := addPcmh_step sdata seqLen pcmd c.data a a' rs inv hnd h
      refine ⟨rs', h4, h5, h6, Or.inr ⟨q, _, ?_, h3, h7⟩⟩
      simp only [carriedOf, hty, show Tables.link_cc_pcmh ≠ Tables.link_cc_glob by decide, if_true, if_false, h1, h2]
    · rename_i hty1 hty2
      simp only [Except.ok.injEq] at h
      subst h
      exact ⟨rs, inv, hnd, Ext.refl .., Or.inl ⟨by simp only [carriedOf, hty1, hty2, if_false], rfl⟩⟩

theorem stepDblk_count (sdata seqLen : Nat) (pcmd : Bytes) (c : Riff.Riff) (a a' : Acc)
    (h : stepDblk sdata seqLen pcmd c a = .ok a') : a.wave.samples.length ≤ a'.wave.samples.length := by
  unfold stepDblk at h
  split at h
  · unfold addGlob at h
    split at h
    · cases h
    simp only at h
    split at h
    · cases h
    simp only [Except.ok.injEq] at h
    subst h
    exact Nat.le_refl _
  · split at h
    · exact addPcmh_count _ _ _ _ _ _ h
    · simp only [Except.ok.injEq] at h
      subst h
      exact Nat.le_refl _

theorem foldDblk_count (sdata seqLen : Nat) (pcmd : Bytes) (cs : List Riff.Riff) (a a' : Acc)
    (h : foldDblk sdata seqLen pcmd cs none a = .ok a') : a.wave.samples.length ≤ a'.wave.samples.length := by
  induction cs generalizing a with
  | nil => simp only [foldDblk, Except.ok.injEq] at h; subst h; exact Nat.le_refl _
  | cons c cs ih =>
    unfold foldDblk at h
    cases hs : stepDblk sdata seqLen pcmd c a with
    | error e => rw [hs] at h; cases h
    | ok a1 =>
      rw [hs] at h
      exact Nat.le_trans (stepDblk_count _ _ _ _ _ _ hs) (ih a1 h)

/-- the whole `dblk` loop: the patch table gains one entry per carried item, in order, each
resolving in the final banks -/
theorem foldDblk_step (sdata seqLen : Nat) (pcmd : Bytes) (cs : List Riff.Riff) (a a' : Acc) (rs : List Win)
    (inv : Wave.Inv a.wave rs) (hnd : a.bank.Nodup)
    (h : foldDblk sdata seqLen pcmd cs none a = .ok a') :
    ∃ rs' qs, Wave.Inv a'.wave rs' ∧ a'.bank.Nodup ∧ Ext a.bank a.wave rs a'.bank a'.wave rs' ∧
      a'.patch = a.patch ++ qs ∧ All2 (Resolves a'.bank a'.wave) qs (cs.filterMap (carriedOf sdata pcmd)) := by
  induction cs generalizing a rs with
  | nil =>
    simp only [foldDblk, Except.ok.injEq] at h; subst h
    exact ⟨rs, [], inv, hnd, Ext.refl .., by simp, .nil⟩
  | cons c cs ih =>
    unfold foldDblk at h
    cases hs : stepDblk sdata seqLen pcmd c a with
    | error e => rw [hs] at h; cases h
    | ok a1 =>
      rw [hs] at h
      simp only at h
      obtain ⟨rs1, inv1, hnd1, x1, hcase⟩ := stepDblk_step sdata seqLen pcmd c a a1 rs inv hnd hs
      obtain ⟨rs', qs, inv', hnd', x2, hp, hf⟩ := ih a1 rs1 inv1 hnd1 h
      rcases hcase with ⟨hn, hp1⟩ | ⟨q, cr, hsome, hp1, hres⟩
      · refine ⟨rs', qs, inv', hnd', x1.trans x2, by rw [hp, hp1], ?_⟩
        simp only [List.filterMap_cons, hn]; exact hf
      · refine ⟨rs', q :: qs, inv', hnd', x1.trans x2, by rw [hp, hp1]; simp, ?_⟩
        simp only [List.filterMap_cons, hsome]
        exact .cons (hres.mono inv1 x2) hf

/-! ### the linker over histories -/

/-- song `sd` of the sequence bank was read from one of the source files, and every entry of its
patch table resolves, in the current banks, to what that file carried for the slot -/
def SongOk (src : List (Bytes × Bytes)) (bank : List Bytes) (w : Wave.Bank) (sd : SeqData) : Prop :=
  ∃ name file rd, (name, file) ∈ src ∧ readSong file = some rd ∧ sd.filename = name ∧ sd.data = rd.seq ∧
    All2 (Resolves bank w) sd.patch rd.carried

structure LInv (l : Linker) (rs : List Win) (src : List (Bytes × Bytes)) : Prop where
  wave : Wave.Inv l.wave rs
  nodup : l.dataBank.Nodup
  songs : ∀ sd ∈ l.songs, SongOk src l.dataBank l.wave sd

theorem mem_songs_seqInsert (bank : List (Bytes × List SeqData)) (key : Bytes) (sd x : SeqData) :
    x ∈ (seqInsert bank key sd).flatMap (·.2) ↔ x ∈ bank.flatMap (·.2) ∨ x = sd := by
  induction bank with
  | nil => simp [seqInsert]
  | cons p bank ih =>
    obtain ⟨k, l⟩ := p
    unfold seqInsert
    split
    · simp only [List.flatMap_cons, List.mem_append, List.mem_cons, List.not_mem_nil, or_false]
      constructor
      · rintro ((h | h) | h)
        · exact Or.inl (Or.inl h)
        · exact Or.inr h
        · exact Or.inl (Or.inr h)
      · rintro ((h | h) | h)
        · exact Or.inl (Or.inl h)
        · exact Or.inr h
        · exact Or.inl (Or.inr h)
    · split
      · simp only [List.flatMap_cons, List.mem_append, List.mem_cons, List.not_mem_nil, or_false]
        constructor
        · rintro (h | h | h)
          · exact Or.inr h
          · exact Or.inl (Or.inl h)
          · exact Or.inl (Or.inr h)
        · rintro ((h | h) | h)
          · exact Or.inr (Or.inl h)
          · exact Or.inr (Or.inr h)
          · exact Or.inl h
      · simp only [List.flatMap_cons, List.mem_append, ih]
        constructor
        · rintro (h | h | h)
          · exact Or.inl (Or.inl h)
          · exact Or.inl (Or.inr h)
          · exact Or.inr h
        · rintro ((h | h) | h)
          · exact Or.inl h
          · exact Or.inr (Or.inl h)
          · exact Or.inr (Or.inr h)

def Op.src : Op → List (Bytes × Bytes)
  | .add name file => [(name, file)]
  | .query => []

theorem SongOk.mono {src src' : List (Bytes × Bytes)} {bank bank' : List Bytes} {w w' : Wave.Bank} {rs rs' : List Win} {sd : SeqData}
    (h : SongOk src bank w sd) (hsub : ∀ p ∈ src, p ∈ src') (inv : Wave.Inv w rs) (x : Ext bank w rs bank' w' rs') :
    SongOk src' bank' w' sd := by
  obtain ⟨name, file, rd, h1, h2, h3, h4, h5⟩ := h
  exact ⟨name, file, rd, hsub _ h1, h2, h3, h4, forall2_mono h5 inv x⟩

/-- one `add_song` -/
theorem addSong_step (l l' : Linker) (rs : List Win) (src : List (Bytes × Bytes)) (name file : Bytes) (mds : Riff.Riff)
    (I : LInv l rs src) (ho : Riff.ofBytes file = .ok mds)
    (h : addSong l mds name = .ok l') :
    ∃ rs', LInv l' rs' (src ++ [(name, file)]) ∧ Ext l.dataBank l.wave rs l'.dataBank l'.wave rs' ∧
      ∃ sd, sd.filename = name ∧ ∀ x, x ∈ l'.songs ↔ x ∈ l.songs ∨ x = sd := by
  obtain ⟨rd, a, hrd, hfold, hl'⟩ := addSong_read l l' file mds name ho h
  subst hl'
  obtain ⟨rs', qs, inv', hnd', x, hp, hf⟩ := foldDblk_step rd.sdata rd.seq.length rd.pcmd rd.chunks _ a rs I.wave I.nodup hfold
  simp only [List.nil_append] at hp
  refine ⟨rs', ⟨inv', hnd', ?_⟩, x, { filename := name, data := rd.seq, patch := a.patch }, rfl, ?_⟩
  · intro sd hsd
    simp only [Linker.songs] at hsd
    rcases (mem_songs_seqInsert _ _ _ _).mp hsd with hold | hnew
    · exact (I.songs sd hold).mono (fun p hp => List.mem_append_left _ hp) I.wave x
    · subst hnew
      exact ⟨name, file, rd, by simp, hrd, rfl, rfl, by simp only [hp]; exact hf⟩
  · intro y
    simp only [Linker.songs]
    exact mem_songs_seqInsert _ _ _ _

theorem addSong_count (l l' : Linker) (file : Bytes) (mds : Riff.Riff) (name : Bytes)
    (ho : Riff.ofBytes file = .ok mds) (h : addSong l mds name = .ok l') : l.wave.samples.length ≤ l'.wave.samples.length := by
  obtain ⟨rd, a, _, hfold, hl'⟩ := addSong_read l l' file mds name ho h
  subst hl'
  exact foldDblk_count _ _ _ _ _ _ hfold

theorem runOps_count (ops : List Op) (l l' : Linker) (h : runOps ops l = .ok l') :
    l.wave.samples.length ≤ l'.wave.samples.length := by
  induction ops generalizing l with
  | nil => simp only [runOps, Except.ok.injEq] at h; subst h; exact Nat.le_refl _
  | cons o ops ih =>
    cases o with
    | query => exact ih l h
    | add name file =>
      simp only [runOps] at h
      cases ho : Riff.ofBytes file with
      | error e => rw [ho] at h; cases h
      | ok mds =>
        rw [ho] at h
        simp only at h
        cases ha : addSong l mds name with
        | error e => rw [ha] at h; cases h
        | ok l1 =>
          rw [ha] at h
          exact Nat.le_trans (addSong_count _ _ _ _ _ ho ha) (ih l1 h)

/-- any list of operations -/
theorem runOps_inv (ops : List Op) (l l' : Linker) (rs : List Win) (src : List (Bytes × Bytes))
    (I : LInv l rs src)
    (h : runOps ops l = .ok l') :
    ∃ rs', LInv l' rs' (src ++ ops.flatMap Op.src) ∧ Ext l.dataBank l.wave rs l'.dataBank l'.wave rs' ∧
      (∀ x ∈ l.songs, x ∈ l'.songs) := by
  induction ops generalizing l rs src with
  | nil =>
    simp only [runOps, Except.ok.injEq] at h; subst h
    exact ⟨rs, by simpa using I, Ext.refl .., fun _ h => h⟩
  | cons o ops ih =>
    cases o with
    | query =>
      obtain ⟨rs', I', x, hs⟩ := ih l rs src I h
      exact ⟨rs', by simpa [Op.src] using I', x, hs⟩
    | add name file =>
      simp only [runOps] at h
      cases ho : Riff.ofBytes file with
      | error e => rw [ho] at h; cases h
      | ok mds =>
        rw [ho] at h
        simp only at h
        cases ha : addSong l mds name with
        | error e => rw [ha] at h; cases h
        | ok l1 =>
          rw [ha] at h
          simp only at h
          obtain ⟨rs1, I1, x1, sd, _, hmem⟩ := addSong_step l l1 rs src name file mds I ho ha
          obtain ⟨rs', I', x2, hs⟩ := ih l1 rs1 _ I1 h
          refine ⟨rs', ?_, x1.trans x2, fun y hy => hs y ((hmem y).mpr (Or.inl hy))⟩
          simpa [Op.src, List.append_assoc] using I'

theorem runOps_songs_length (ops : List Op) (l l' : Linker) (h : runOps ops l = .ok l') :
    l'.songs.length = l.songs.length + (ops.flatMap Op.src).length := by
  induction ops generalizing l with
  | nil => simp only [runOps, Except.ok.injEq] at h; subst h; simp
  | cons o ops ih =>
    cases o with
    | query => rw [ih l h]; simp [Op.src]
    | add name file =>
      simp only [runOps] at h
      cases ho : Riff.ofBytes file with
      | error e => rw [ho] at h; cases h
      | ok mds =>
        rw [ho] at h
        simp only at h
        cases ha : addSong l mds name with
        | error e => rw [ha] at h; cases h
        | ok l1 =>
          rw [ha] at h
          obtain ⟨rd, a, _, _, hl'⟩ := addSong_read l l1 file mds name ho ha
          rw [ih l1 h, hl']
          simp only [Linker.songs, songs_seqInsert_length, List.flatMap_cons, Op.src, List.length_append, List.length_cons, List.length_nil]
          omega

theorem linv_new : LInv Linker.new [] [] := by
  refine ⟨?_, by simp [Linker.new], by simp [Linker.new, Linker.songs]⟩
  exact Wave.inv_new _ _ (by decide) (by decide) (by decide)

/-! ### what the invariant gives for every sample header with start offset 0 -/

theorem getPcmData_eq (l : Linker) (rs : List Win) (inv : Wave.Inv l.wave rs) : getPcmData l = l.wave.rom.take l.wave.currentSize := by
  unfold getPcmData Wave.Bank.freeBytes
  have h1 := inv.curLe
  have h2 := inv.small.1
  have h3 := inv.romLen
  have : Wave.u32 (l.wave.maxSize + 4294967296 * 4294967296 - l.wave.currentSize) = l.wave.maxSize - l.wave.currentSize := by
    unfold Wave.u32
    have : l.wave.maxSize + 4294967296 * 4294967296 - l.wave.currentSize = (l.wave.maxSize - l.wave.currentSize) + 4294967296 * 4294967296 := by omega
    rw [this, Nat.add_mul_mod_self_left]
    exact Nat.mod_eq_of_lt (by omega)
  rw [this, h3]
  congr 1; omega

theorem window_facts (l : Linker) (rs : List Win) (inv : Wave.Inv l.wave rs) (s : Wave.Sample) (hs : s ∈ l.wave.samples)
    (h0 : s.start = 0) :
    s.position + s.size ≤ l.wave.currentSize ∧ s.position + s.size ≤ (getPcmData l).length ∧
    LinkSpec.readAt (getPcmData l) s.position s.size = Win.reads l.wave.rom ⟨s.position, s.size⟩ ∧
    bankRule l.wave.bankSize ⟨s.position, s.size⟩ := by
  have hb := Wave.housed_bounds inv hs
  rw [h0, Nat.add_zero] at hb
  have hcur := inv.curLe
  have hrl := inv.romLen
  obtain ⟨hm, hbk⟩ := inv.small
  have hlen : (getPcmData l).length = l.wave.currentSize := by
    rw [getPcmData_eq l rs inv, List.length_take]; omega
  refine ⟨hb, by omega, ?_, ?_⟩
  · rw [getPcmData_eq l rs inv]
    simp only [LinkSpec.readAt, Win.reads]
    rw [List.drop_take, List.take_take]
    congr 1; omega
  · intro hle
    obtain ⟨_, _, h3⟩ := Wave.fitStart_spec l.wave.bankSize s.size (s.position + s.start) inv.bankPos hbk (by omega) (by omega)
    rw [inv.placed s hs, h0, Nat.add_zero] at h3
    exact h3 hle

/-! ### fresh linkers, split histories, the bytes of a PCM header -/

/-- a linker that has not been used, over a wave rom of `m` bytes in banks of `bk` (`MDSDRV_Linker()`
is `fresh 4161536 32768`) -/
def Linker.fresh (m bk : Nat) : Linker := { dataBank := [], seqBank := [], wave := Wave.Bank.new m bk }

theorem Linker.new_eq : Linker.new = Linker.fresh Tables.mds_linkWaveRom Tables.mds_linkWaveBank := rfl

theorem linv_fresh (m bk : Nat) (hm : 0 < m) (hm2 : m < 1073741824) (hb : bk < 1073741824) : LInv (Linker.fresh m bk) [] [] :=
  ⟨Wave.inv_new m bk hm hm2 hb, by simp [Linker.fresh], by simp [Linker.fresh, Linker.songs]⟩

theorem runOps_append (a b : List Op) (l : Linker) :
    runOps (a ++ b) l = match runOps a l with | .error e => .error e | .ok l1 => runOps b l1 := by
  induction a generalizing l with
  | nil => rfl
  | cons o a ih =>
    cases o with
    | query => simp only [List.cons_append, runOps]; exact ih l
    | add name file =>
      simp only [List.cons_append, runOps]
      cases Riff.ofBytes file with
      | error e => rfl
      | ok mds =>
        simp only
        cases addSong l mds name with
        | error e => rfl
        | ok l1 => exact ih l1

theorem pitchCode_range (rate : Nat) : 1 ≤ pitchCode rate ∧ pitchCode rate ≤ 8 := by
  have key : ∀ cp : Nat, 1 ≤ (if cp < 1 then 1 else if cp > 8 then 8 else cp) ∧ (if cp < 1 then 1 else if cp > 8 then 8 else cp) ≤ 8 := by
    intro cp
    by_cases h1 : cp < 1
    · simp [h1]
    · by_cases h2 : cp > 8
      · simp [h1, h2]
      · simp only [h1, h2, if_false]; omega
  exact key _

theorem nat32be_be32 (n : Nat) (hn : n < 4294967296) (pre rest : Bytes) :
    LinkSpec.nat32be (pre ++ be32 n ++ rest) pre.length = some n := by
  simp only [LinkSpec.nat32be, LinkSpec.readAt, List.append_assoc, List.drop_left, be32, List.cons_append, List.nil_append,
    List.take_succ_cons, List.take_zero, byteOf_toNat]
  congr 1; omega

/-- the two big-endian words of the 8-byte PCM header: address (24 bits) with the pitch code in the top
byte, and the size -/
theorem pcmHeader_fields (s : Wave.Sample) (hp : s.position + s.start < 16777216) (hs : s.size < 4294967296) :
    LinkSpec.nat32be (pcmHeader s) 0 = some (s.position + s.start + pitchCode s.rate * 16777216) ∧
    LinkSpec.nat32be (pcmHeader s) 4 = some s.size ∧ (pcmHeader s).length = 8 := by
  have hpc := pitchCode_range s.rate
  have hu : Wave.u32 (s.position + s.start) = s.position + s.start := Wave.u32_small (by omega)
  have hor : (s.position + s.start) ||| (pitchCode s.rate * 16777216) = s.position + s.start + pitchCode s.rate * 16777216 := by
    have := Nat.shiftLeft_add_eq_or_of_lt (i := 24) (b := s.position + s.start) (by omega) (pitchCode s.rate)
    rw [Nat.shiftLeft_eq] at this
    rw [Nat.or_comm, ← this]
    omega
  unfold pcmHeader
  rw [hu, hor]
  refine ⟨?_, ?_, by simp⟩
  · have := nat32be_be32 (s.position + s.start + pitchCode s.rate * 16777216) (by omega) [] (be32 s.size)
    simpa using this
  · have := nat32be_be32 s.size hs (be32 (s.position + s.start + pitchCode s.rate * 16777216)) []
    simpa using this

end Ctrmml.Linker
