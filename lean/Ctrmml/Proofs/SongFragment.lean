/-
  `Fragment.plainSongB` (Spec/PlainFragment.lean, executable) implies `SongTop.PlainSong`.
-/
import Ctrmml.Proofs.SongChunk
import Ctrmml.Spec.PlainFragment
namespace Ctrmml.SongTop
open Ctrmml Ctrmml.Mds Ctrmml.WFold Ctrmml.WTrace Ctrmml.SongSem Ctrmml.SongSplit Ctrmml.Tree Ctrmml.Fragment Tables

theorem simpleEv_of_B {e : Event} (h : simpleEvB e = true) : SimpleEv e := by
  unfold simpleEvB at h
  simp only [Bool.and_eq_true, Bool.or_eq_true, bne_iff_ne, decide_eq_true_eq, ne_eq] at h
  intro t
  rcases h with h | h
  · exact absurd t h
  · exact h

theorem timed_of_B {e : Event} (h : timedB e = true) : Timed e := by
  unfold timedB at h
  simp only [Bool.and_eq_true, Bool.or_eq_true, bne_iff_ne, beq_iff_eq, decide_eq_true_eq, ne_eq] at h
  obtain ⟨⟨⟨⟨h1, h2⟩, h3⟩, h4⟩, h5⟩ := h
  refine ⟨h1, h2, fun a b => ?_, fun a b c => ?_, fun t => ?_⟩
  · rcases h3 with (h | h) | h
    · exact absurd h a
    · exact absurd h b
    · exact h
  · rcases h4 with ((h | h) | h) | h
    · exact absurd h a
    · exact absurd h b
    · exact absurd h c
    · exact h
  · rcases h5 with h | h
    · exact absurd t h
    · exact h

theorem sorted_of_B : ∀ (l : List Nat), sortedB l = true → l.Pairwise (· < ·)
  | [], _ => List.Pairwise.nil
  | a :: l, h => by
    simp only [sortedB, Bool.and_eq_true, List.all_eq_true, decide_eq_true_eq] at h
    exact List.Pairwise.cons h.1 (sorted_of_B l h.2)

theorem drumTop_of_B {t : List Event} (h : drumTopB t = true) :
    ∀ n ∈ parse t, ∀ e ∈ flattenN n, e.type = ev_DRUM_MODE → n = .ev e := by
  unfold drumTopB at h
  simp only [List.all_eq_true] at h
  intro n hn e he te
  have := h n hn
  cases n with
  | ev e' => simp [flattenN] at he; rw [he]
  | brk e' =>
    simp only [List.all_eq_true, bne_iff_ne, ne_eq] at this
    exact absurd te (this e he)
  | loop ls b le =>
    simp only [List.all_eq_true, bne_iff_ne, ne_eq] at this
    exact absurd te (this e he)
  | strayEnd e' =>
    simp only [List.all_eq_true, bne_iff_ne, ne_eq] at this
    exact absurd te (this e he)
  | openLoop ls b =>
    simp only [List.all_eq_true, bne_iff_ne, ne_eq] at this
    exact absurd te (this e he)

/-- **the executable fragment predicate is sound** -/
theorem plainSong_of_B {song : Song} (h : plainSongB song = true) : PlainSong song := by
  unfold plainSongB at h
  simp only [Bool.and_eq_true, List.all_eq_true] at h
  obtain ⟨⟨hs, ht⟩, hdt⟩ := h
  have hev : ∀ id t, (id, t) ∈ song.tracks → ∀ e ∈ t, e.kind ≠ .fin ∧ evB e = true ∧ calleeB song e = true := by
    intro id t hm e he
    have := ht (id, t) hm e he
    simp only [bne_iff_ne, ne_eq] at this
    exact ⟨this.1.1, this.1.2, this.2⟩
  refine ⟨sorted_of_B _ hs, fun id t hm e he => (hev id t hm e he).1, fun id t hm e he => ?_, fun id t hm e he hk => ?_,
    fun id t hm => drumTop_of_B (hdt (id, t) hm)⟩
  · have h2 := (hev id t hm e he).2.1
    unfold evB at h2
    simp only [Bool.and_eq_true, Bool.or_eq_true, bne_iff_ne, decide_eq_true_eq, ne_eq] at h2
    refine ⟨simpleEv_of_B h2.1.1, timed_of_B h2.1.2, fun tt => ?_⟩
    rcases h2.2 with h' | h'
    · exact absurd tt h'
    · exact h'
  · have h3 := (hev id t hm e he).2.2
    unfold calleeB at h3
    simp only [Bool.or_eq_true, bne_iff_ne, ne_eq] at h3
    rcases h3 with h' | h'
    · exact absurd hk h'
    · intro t' htr
      rw [htr] at h'
      simp only [List.all_eq_true, Bool.and_eq_true, bne_iff_ne, ne_eq] at h'
      exact h'

theorem segCount_of_B {root : List Event} (h : segCountB root = true) : segCount root ≤ 1 := by
  unfold segCountB at h
  simpa [segCount] using h

theorem dAfterL_drumOfE (d : Bool) : ∀ (l : List Event), dAfterL d (l.map fun e => tItem e e) = drumOfE d l
  | [] => rfl
  | e :: l => by
    simp only [List.map_cons, dAfterL, drumOfE, dAfter]
    exact dAfterL_drumOfE _ l

theorem loopDrum_of_B' : ∀ (a : List Event) (d : Bool) (s : Event) (c : List Event), loopDrumB d (a ++ s :: c) = true →
    s.kind = .segno → drumOfE (drumOfE d a) c = drumOfE d a
  | [], d, s, c, h, hs => by
    have hnd : ¬ s.type = ev_DRUM_MODE := by
      intro t
      have : s.kind = .other := by unfold Event.kind kindOfType; simp +decide [t]
      rw [hs] at this; cases this
    simp only [List.nil_append, loopDrumB, if_neg hnd, Bool.and_eq_true, Bool.or_eq_true, bne_iff_ne, ne_eq, beq_iff_eq] at h
    rcases h.1 with h' | h'
    · exact absurd hs h'
    · simpa [drumOfE] using h'
  | e :: a, d, s, c, h, hs => by
    simp only [List.cons_append, loopDrumB, Bool.and_eq_true] at h
    simp only [drumOfE]
    exact loopDrum_of_B' a _ s c h.2 hs

theorem loopDrum_of_B {root : List Event} (h : loopDrumB false root = true) : LoopDrumOK root := by
  intro a s c hroot hs
  rw [dAfterL_drumOfE, dAfterL_drumOfE]
  rw [hroot] at h
  exact loopDrum_of_B' a false s c h hs

theorem splitNote_spec : ∀ (f : List Tree.Node) (a : List Tree.Node) (x : Event) (b : List Tree.Node),
    splitNote f = some (a, x, b) → f = a ++ Tree.Node.ev x :: b ∧ x.type = ev_NOTE
  | [], _, _, _, h => by simp [splitNote] at h
  | .ev e :: ns, a, x, b, h => by
    unfold splitNote at h
    by_cases t : e.type = ev_NOTE
    · rw [if_pos t] at h
      simp only [Option.some.injEq, Prod.mk.injEq] at h
      obtain ⟨rfl, rfl, rfl⟩ := h
      exact ⟨rfl, t⟩
    · rw [if_neg t] at h
      cases hr : splitNote ns with
      | none => rw [hr] at h; simp at h
      | some p =>
        obtain ⟨a', x', b'⟩ := p
        rw [hr] at h
        simp only [Option.map_some, Option.some.injEq, Prod.mk.injEq] at h
        obtain ⟨rfl, rfl, rfl⟩ := h
        obtain ⟨h1, h2⟩ := splitNote_spec ns a' x' b' hr
        exact ⟨by rw [h1]; rfl, h2⟩
  | .brk e :: ns, a, x, b, h => by
    simp only [splitNote] at h
    cases hr : splitNote ns with
    | none => rw [hr] at h; simp at h
    | some p =>
      obtain ⟨a', x', b'⟩ := p
      rw [hr] at h
      simp only [Option.map_some, Option.some.injEq, Prod.mk.injEq] at h
      obtain ⟨rfl, rfl, rfl⟩ := h
      obtain ⟨h1, h2⟩ := splitNote_spec ns a' x' b' hr
      exact ⟨by rw [h1]; rfl, h2⟩
  | .loop ls bd le :: ns, a, x, b, h => by
    simp only [splitNote] at h
    cases hr : splitNote ns with
    | none => rw [hr] at h; simp at h
    | some p =>
      obtain ⟨a', x', b'⟩ := p
      rw [hr] at h
      simp only [Option.map_some, Option.some.injEq, Prod.mk.injEq] at h
      obtain ⟨rfl, rfl, rfl⟩ := h
      obtain ⟨h1, h2⟩ := splitNote_spec ns a' x' b' hr
      exact ⟨by rw [h1]; rfl, h2⟩
  | .strayEnd e :: ns, a, x, b, h => by
    simp only [splitNote] at h
    cases hr : splitNote ns with
    | none => rw [hr] at h; simp at h
    | some p =>
      obtain ⟨a', x', b'⟩ := p
      rw [hr] at h
      simp only [Option.map_some, Option.some.injEq, Prod.mk.injEq] at h
      obtain ⟨rfl, rfl, rfl⟩ := h
      obtain ⟨h1, h2⟩ := splitNote_spec ns a' x' b' hr
      exact ⟨by rw [h1]; rfl, h2⟩
  | .openLoop ls bd :: ns, a, x, b, h => by
    simp only [splitNote] at h
    cases hr : splitNote ns with
    | none => rw [hr] at h; simp at h
    | some p =>
      obtain ⟨a', x', b'⟩ := p
      rw [hr] at h
      simp only [Option.map_some, Option.some.injEq, Prod.mk.injEq] at h
      obtain ⟨rfl, rfl, rfl⟩ := h
      obtain ⟨h1, h2⟩ := splitNote_spec ns a' x' b' hr
      exact ⟨by rw [h1]; rfl, h2⟩

theorem routine_of_B {song : Song} {p : Int} (h : routineB song p = true) :
    RoutineTrack song p ∧ ∃ ritems, Expand.callK song Expand.limit 1 (trackIdOfParam p) = .ok ritems := by
  unfold routineB at h
  cases htr : song.track? (trackIdOfParam p) with
  | none => rw [htr] at h; cases h
  | some tevs =>
    rw [htr] at h
    simp only at h
    cases hsp : splitNote (parse tevs) with
    | none => rw [hsp] at h; cases h
    | some q =>
      obtain ⟨fpre, note, fpost⟩ := q
      rw [hsp] at h
      simp only [Bool.and_eq_true, List.all_eq_true, bne_iff_ne, ne_eq] at h
      obtain ⟨hpre, hck⟩ := h
      obtain ⟨h1, h2⟩ := splitNote_spec _ _ _ _ hsp
      refine ⟨⟨tevs, fpre, note, fpost, htr, h1, h2, fun e he => ?_⟩, ?_⟩
      · obtain ⟨⟨⟨⟨⟨a1, a2⟩, a3⟩, a4⟩, a5⟩, a6⟩ := hpre e he
        exact ⟨a1, a2, a3, a4, a5, a6⟩
      · cases hc : Expand.callK song Expand.limit 1 (trackIdOfParam p) with
        | error x => rw [hc] at hck; cases hck
        | ok r => exact ⟨r, rfl⟩

theorem routines_of_B {song : Song} {b : MdsFile.Built} (h : routinesB song b.conv.subMap = true) : RoutinesOK song b := by
  unfold routinesB at h
  simp only [List.all_eq_true, Bool.or_eq_true, bne_iff_ne, ne_eq] at h
  intro p k hmem
  have := h _ hmem
  have hk : Mds.subKey p true false = p * 4 + 2 := by simp [Mds.subKey]
  simp only [hk] at this
  rcases this with h' | h'
  · exact absurd (by omega) h'
  · have e : (p * 4 + 2 - 2) / 4 = p := by omega
    rw [e] at h'
    exact routine_of_B h'

/-! ### platform commands -/

/-- the converter's platform commands (`pl`) and the timeline's (`pf`) agree: every command the
converter knows consists of events the theorems cover, and the timeline reads it as those denote -/
def PlatAgree (pl : List (Int × Option (List MEv))) (pf : Timeline.Platform) : Prop :=
  ∀ id evs, pl.lookup id = some (some evs) → (∀ ev ∈ evs, platEvB ev = true) ∧ pf.lookup id = some (platSpec evs)

theorem platAgree_of_B {pl : List (Int × Option (List MEv))} {pf : Timeline.Platform} (h : platAgreeB pl pf = true) :
    PlatAgree pl pf := by
  intro id evs hl
  unfold platAgreeB at h
  simp only [List.all_eq_true] at h
  have hm : (id, some evs) ∈ pl := Mds.lookup_some_mem _ _ _ hl
  have := h _ hm
  simp only [hl, Bool.and_eq_true, List.all_eq_true, beq_iff_eq] at this
  exact this

theorem platEv_sem (M : Codec.Mode) (nS nM : Nat) (ev : MEv) (h : platEvB ev = true) :
    Codec.linEv ev = true ∧ M.evOk ev = true ∧
      mk (Codec.evTicks M nS nM ev) = (platSpec [ev]).map (fun p => Seq.Tk.cmd p.1 p.2) := by
  obtain ⟨ty, arg⟩ := ev
  unfold platEvB at h
  simp only [Bool.or_eq_true, Bool.and_eq_true, beq_iff_eq, bne_iff_ne, ne_eq, decide_eq_true_eq] at h
  rcases h with ⟨rfl, rfl⟩ | ⟨⟨hop, hflg⟩, harg⟩
  · refine ⟨by decide, by simp +decide [Codec.Mode.evOk], ?_⟩
    simp +decide [Codec.evTicks, platSpec, mk, Codec.isCmdOp]
  · rcases hop with ⟨hb, hnd⟩ | hw
    · have hb' : ty ∈ byteArgOps := by simpa using hb
      simp only [byteArgOps, List.mem_cons, List.mem_nil_iff, or_false] at hb'
      have hfl : ty = mds_FLG → arg % 256 ≥ 128 := by
        intro t
        rcases hflg with hh | hh
        · exact absurd t hh
        · exact hh
      rcases hb' with rfl | rfl | rfl | rfl | rfl | rfl | rfl | rfl | rfl | rfl | rfl | rfl | rfl | rfl
      all_goals first
        | exact absurd rfl hnd
        | (refine ⟨by simp +decide [Codec.linEv, Codec.isCmdOp], ?_, ?_⟩
           · have := hfl
             simp +decide [Codec.Mode.evOk, Codec.drumSafe] at this ⊢
             try omega
           · simp +decide [Codec.evTicks, Codec.cmdArg, Codec.isCmdOp, platSpec, mk, Timeline.maskTk])
    · have hw' : ty ∈ wordArgOps := by simpa using hw
      simp only [wordArgOps, List.mem_cons, List.mem_nil_iff, or_false] at hw'
      have hmod : arg % 65536 = arg := Nat.mod_eq_of_lt harg
      rcases hw' with rfl | rfl | rfl | rfl
      all_goals
        refine ⟨by simp +decide [Codec.linEv, Codec.isCmdOp], by simp +decide [Codec.Mode.evOk], ?_⟩
        simp +decide [Codec.evTicks, Codec.cmdArg, Codec.isCmdOp, platSpec, mk, Timeline.maskTk, hmod]

theorem platSpec_cons (ev : MEv) (evs : List MEv) : platSpec (ev :: evs) = platSpec [ev] ++ platSpec evs := by
  simp [platSpec]

theorem platOK_of_agree {pl : List (Int × Option (List MEv))} {pf : Timeline.Platform} (h : PlatAgree pl pf) (nS nM : Nat) :
    PlatOK nS nM pf pl := by
  intro id evs hl
  obtain ⟨hev, hpf⟩ := h id evs hl
  refine ⟨fun ev he => (platEv_sem Codec.Mode.plain nS nM ev (hev ev he)).1,
    fun M ev he => (platEv_sem M nS nM ev (hev ev he)).2.1, fun M => ?_⟩
  rw [hpf]
  simp only [Option.getD_some]
  clear hl hpf
  induction evs with
  | nil => rfl
  | cons ev evs ih =>
    rw [Codec.ticks_cons, mk_append, platSpec_cons, List.map_append,
      (platEv_sem M nS nM ev (hev ev (by simp))).2.2, ih (fun x hx => hev x (by simp [hx]))]

end Ctrmml.SongTop
