/-
  `Fragment.plainSongB` (Spec/PlainFragment.lean, executable) implies `SongTop.PlainSong`.
-/
import Ctrmml.Proofs.SongChunk
import Ctrmml.Spec.PlainFragment
namespace Ctrmml.SongTop
open Ctrmml Ctrmml.WFold Ctrmml.SongSem Ctrmml.SongSplit Ctrmml.Tree Ctrmml.Fragment Tables

theorem simpleEv_of_B {e : Event} (h : simpleEvB e = true) : SimpleEv e := by
  unfold simpleEvB at h
  simp only [Bool.and_eq_true, Bool.or_eq_true, bne_iff_ne, beq_iff_eq, decide_eq_true_eq, ne_eq] at h
  obtain ⟨⟨⟨⟨h1, h2⟩, h3⟩, h4⟩, h5⟩ := h
  refine ⟨h1, h2, fun t => ?_, fun t => ?_, fun t => ?_⟩
  · rcases h3 with h | h
    · exact absurd t h
    · exact h
  · rcases h4 with h | h
    · exact absurd t h
    · exact h
  · rcases h5 with h | h
    · exact absurd t h
    · exact h

theorem timed_of_B {e : Event} (h : timedB e = true) : Timed e := by
  unfold timedB at h
  simp only [Bool.and_eq_true, Bool.or_eq_true, bne_iff_ne, beq_iff_eq, decide_eq_true_eq, ne_eq] at h
  obtain ⟨⟨⟨⟨h1, h2⟩, h3⟩, h4⟩, h5⟩ := h
  refine ⟨h1, h2, fun a b => ?_, fun a b c => ?_, fun t => ?_⟩
  · rcases h3 with (h | h) | h
    · exact absurd h a
    · exact absurd h b
    · exact h
  · rcases h4 with ((h | h) | h) | h
    · exact absurd h a
    · exact absurd h b
    · exact absurd h c
    · exact h
  · rcases h5 with h | h
    · exact absurd t h
    · exact h

theorem sorted_of_B : ∀ (l : List Nat), sortedB l = true → l.Pairwise (· < ·)
  | [], _ => List.Pairwise.nil
  | a :: l, h => by
    simp only [sortedB, Bool.and_eq_true, List.all_eq_true, decide_eq_true_eq] at h
    exact List.Pairwise.cons h.1 (sorted_of_B l h.2)

/-- **the executable fragment predicate is sound** -/
theorem plainSong_of_B {song : Song} (h : plainSongB song = true) : PlainSong song := by
  unfold plainSongB at h
  simp only [Bool.and_eq_true, List.all_eq_true] at h
  obtain ⟨hs, ht⟩ := h
  have hev : ∀ id t, (id, t) ∈ song.tracks → ∀ e ∈ t, e.kind ≠ .fin ∧ evB e = true ∧ calleeB song e = true := by
    intro id t hm e he
    have := ht (id, t) hm e he
    simp only [bne_iff_ne, ne_eq] at this
    exact ⟨this.1.1, this.1.2, this.2⟩
  refine ⟨sorted_of_B _ hs, fun id t hm e he => (hev id t hm e he).1, fun id t hm e he => ?_, fun id t hm e he hk => ?_⟩
  · have h2 := (hev id t hm e he).2.1
    unfold evB at h2
    simp only [Bool.and_eq_true, Bool.or_eq_true, bne_iff_ne, decide_eq_true_eq, ne_eq] at h2
    refine ⟨simpleEv_of_B h2.1.1, timed_of_B h2.1.2, fun tt => ?_⟩
    rcases h2.2 with h' | h'
    · exact absurd tt h'
    · exact h'
  · have h3 := (hev id t hm e he).2.2
    unfold calleeB at h3
    simp only [Bool.or_eq_true, bne_iff_ne, ne_eq] at h3
    rcases h3 with h' | h'
    · exact absurd hk h'
    · intro t' htr
      rw [htr] at h'
      simp only [List.all_eq_true, bne_iff_ne, ne_eq] at h'
      exact h'

theorem segCount_of_B {root : List Event} (h : segCountB root = true) : segCount root ≤ 1 := by
  unfold segCountB at h
  simpa [segCount] using h

end Ctrmml.SongTop
