/-
  Helper lemmas for C07, mid-song tempo: the tempo in force after an update is determined by the
  tempo commands among the events delivered in that update (instance of the generic chain of
  Proofs/MdChain; any channel kind, slurs allowed).
-/
import Ctrmml.Proofs.MdChain
namespace Ctrmml.MdDriver
open Ctrmml Player PlayerCh Tables TickStream

/-- the tempo after a list of delivered events: a native tempo command sets `δ` to its
parameter (8 bits), a BPM command to `bpm_to_delta` of it, the last command wins -/
def tempoAfter (δ : Nat) : List Event → Nat
  | [] => δ
  | e :: es =>
    tempoAfter (if e.type = ev_TEMPO then u8 e.param else if e.type = ev_TEMPO_BPM then bpmToDelta (u16 e.param) else δ) es

theorem tempoAfter_append (δ : Nat) (a b : List Event) : tempoAfter δ (a ++ b) = tempoAfter (tempoAfter δ a) b := by
  induction a generalizing δ with
  | nil => rfl
  | cons e r ih => simp [tempoAfter, ih]

theorem fail_tempo (g : G) (e : DErr) : (g.fail e).tempoDelta = g.tempoDelta := by
  unfold G.fail; split <;> rfl

theorem keyOffPcm_tempo (g : G) (c : Ch) : (keyOffPcm g c).1.tempoDelta = g.tempoDelta := by
  unfold keyOffPcm; split <;> rfl

theorem keyOnPcm_tempo (d : Data) (g : G) (c : Ch) : (keyOnPcm d g c).1.tempoDelta = g.tempoDelta := by
  unfold keyOnPcm
  split
  · split
    · exact fail_tempo _ _
    · rfl
  · rfl

theorem noteStart_tempo (g : G) (c : Ch) (e : Event) : (noteStart g c e).1.tempoDelta = g.tempoDelta := by
  unfold noteStart
  simp only
  split
  · split
    · rw [fail_tempo, keyOffPcm_tempo]
    · rw [keyOffPcm_tempo]
  · rfl

theorem insOrVol_tempo (d : Data) (g : G) (c : Ch) : (insOrVol d g c).1.tempoDelta = g.tempoDelta := by
  unfold insOrVol
  split
  · rw [(setIns_ctl d g c).2]
  · split <;> rfl

theorem vSetPan_tempo (g : G) (c : Ch) : (vSetPan g c).1.tempoDelta = g.tempoDelta := by
  unfold vSetPan
  split
  · simp only
    split
    · rfl
    · exact fail_tempo _ _
  · exact fail_tempo _ _
  · exact fail_tempo _ _
  · rfl

/-- every event but a tempo command leaves the tempo alone -/
theorem writeEvent_tempo_other (d : Data) (g : G) (c : Ch) (e : Event)
    (h1 : c.evType ≠ ev_TEMPO) (h2 : c.evType ≠ ev_TEMPO_BPM) : (writeEvent d g c e).1.tempoDelta = g.tempoDelta := by
  unfold writeEvent
  simp only
  by_cases c1 : c.evType = ev_SEGNO
  · rw [if_pos c1]
  rw [if_neg c1]
  by_cases c2 : c.evType = ev_NOTE
  · rw [if_pos c2]; simp only; rw [insOrVol_tempo, noteStart_tempo]
  rw [if_neg c2]
  by_cases c3 : c.evType = ev_TIE
  · rw [if_pos c3]; exact insOrVol_tempo d g c
  rw [if_neg c3]
  by_cases c4 : c.evType = ev_END
  · rw [if_pos c4]; exact keyOffPcm_tempo g c
  rw [if_neg c4]
  by_cases c5 : c.evType = ev_REST
  · rw [if_pos c5]; exact keyOffPcm_tempo g c
  rw [if_neg c5]
  by_cases c6 : c.evType = ev_SLUR
  · rw [if_pos c6]
  rw [if_neg c6]
  have c7 : ¬ (c.evType = ev_TEMPO ∨ c.evType = ev_TEMPO_BPM) := fun h => h.elim h1 h2
  rw [if_neg c7]
  by_cases c8 : c.evType = ev_PLATFORM
  · rw [if_pos c8]; exact fail_tempo _ _
  rw [if_neg c8]
  by_cases c9 : c.evType = ev_PAN
  · rw [if_pos c9]; exact vSetPan_tempo g c
  rw [if_neg c9]
  by_cases c10 : c.evType = ev_PAN_ENVELOPE
  · rw [if_pos c10]
    split
    · exact fail_tempo _ _
    · rfl
  rw [if_neg c10]

/-- a tempo command sets the tempo from the channel variable `TEMPO` and the BPM flag -/
theorem writeEvent_tempo_cmd (d : Data) (g : G) (c : Ch) (e : Event) (h : c.evType = ev_TEMPO ∨ c.evType = ev_TEMPO_BPM) :
    (writeEvent d g c e).1.tempoDelta = (if c.bpm then bpmToDelta (u16 (c.var ev_TEMPO)) else u8 (c.var ev_TEMPO)) := by
  have n1 : c.evType ≠ ev_SEGNO := by rcases h with h | h <;> rw [h] <;> decide
  have n2 : c.evType ≠ ev_NOTE := by rcases h with h | h <;> rw [h] <;> decide
  have n3 : c.evType ≠ ev_TIE := by rcases h with h | h <;> rw [h] <;> decide
  have n4 : c.evType ≠ ev_END := by rcases h with h | h <;> rw [h] <;> decide
  have n5 : c.evType ≠ ev_REST := by rcases h with h | h <;> rw [h] <;> decide
  have n6 : c.evType ≠ ev_SLUR := by rcases h with h | h <;> rw [h] <;> decide
  unfold writeEvent
  simp only [n1, n2, n3, n4, n5, n6, if_false, h, if_true]
  rfl

/-! ### what `handle_event` does to the channel variables -/
def VarsLen (c : Chan) : Prop := c.trackState.length = ev_CHANNEL_CMD_COUNT

theorem setCh_len (c : Chan) (t : Nat) (v : Int) : (setCh c t v).trackState.length = c.trackState.length := by
  simp [setCh]

theorem handleEvent_len (song : Song) (s : PS) (e : Event) (hp : e.type ≠ ev_PLATFORM) (hd : drumOff s.ch) :
    (handleEvent song (fun _ => false) s e).1.ch.trackState.length = s.ch.trackState.length := by
  unfold handleEvent
  by_cases hN : e.type = ev_NOTE
  · rw [if_pos hN]
    have : ¬ (getCh s.ch ev_DRUM_MODE ≠ 0) := by unfold drumOff at hd; simp [hd]
    rw [if_neg this]
  rw [if_neg hN, if_neg hp]
  split
  · exact setCh_len _ _ _
  split
  · exact setCh_len _ _ _
  split
  · exact setCh_len _ _ _
  split
  · exact setCh_len _ _ _
  split
  · simp only
    have hts : ∀ (c : Chan) (b : Prop) [Decidable b] (m : List Nat),
        (if b then ({ c with mask := m } : Chan) else c).trackState = c.trackState := by
      intro c b _ m; split <;> rfl
    rw [hts, hts]; exact setCh_len _ _ _
  · rfl

theorem getCh_setCh_self (c : Chan) (t : Nat) (v : Int) (h : chIdx t < c.trackState.length) : getCh (setCh c t v) t = v := by
  simp [getCh, setCh, h]

theorem handleEvent_tempo (song : Song) (s : PS) (e : Event) (hl : VarsLen s.ch) (h : e.type = ev_TEMPO) :
    getCh (handleEvent song (fun _ => false) s e).1.ch ev_TEMPO = e.param ∧
      (handleEvent song (fun _ => false) s e).1.ch.mask.contains BPM_BIT = false := by
  have hidx : chIdx ev_TEMPO < s.ch.trackState.length := by rw [hl]; decide
  unfold handleEvent
  have n1 : ¬ e.type = ev_NOTE := by rw [h]; decide
  have n2 : ¬ e.type = ev_PLATFORM := by rw [h]; decide
  have n3 : ¬ e.type = ev_TRANSPOSE_REL := by rw [h]; decide
  have n4 : ¬ e.type = ev_VOL := by rw [h]; decide
  have n5 : ¬ (e.type = ev_VOL_REL ∨ e.type = ev_VOL_FINE_REL) := by rw [h]; decide
  have n6 : ¬ e.type = ev_TEMPO_BPM := by rw [h]; decide
  have n7 : e.type ≥ ev_CHANNEL_CMD ∧ e.type < ev_CMD_COUNT := by rw [h]; decide
  have n8 : ¬ e.type = ev_VOL_FINE := by rw [h]; decide
  rw [if_neg n1, if_neg n2, if_neg n3, if_neg n4, if_neg n5, if_neg n6, if_pos n7]
  simp only [n8, if_false]
  rw [if_pos h]
  constructor
  · have := getCh_setCh_self s.ch ev_TEMPO e.param hidx
    rw [h]
    simpa [getCh] using this
  · simp [clrBit, List.contains_iff_mem]

theorem handleEvent_tempo_bpm (song : Song) (s : PS) (e : Event) (hl : VarsLen s.ch) (h : e.type = ev_TEMPO_BPM) :
    getCh (handleEvent song (fun _ => false) s e).1.ch ev_TEMPO = e.param ∧
      (handleEvent song (fun _ => false) s e).1.ch.mask.contains BPM_BIT = true := by
  have hidx : chIdx ev_TEMPO < s.ch.trackState.length := by rw [hl]; decide
  unfold handleEvent
  have n1 : ¬ e.type = ev_NOTE := by rw [h]; decide
  have n2 : ¬ e.type = ev_PLATFORM := by rw [h]; decide
  have n3 : ¬ e.type = ev_TRANSPOSE_REL := by rw [h]; decide
  have n4 : ¬ e.type = ev_VOL := by rw [h]; decide
  have n5 : ¬ (e.type = ev_VOL_REL ∨ e.type = ev_VOL_FINE_REL) := by rw [h]; decide
  rw [if_neg n1, if_neg n2, if_neg n3, if_neg n4, if_neg n5, if_pos h]
  simp only
  constructor
  · have := getCh_setCh_self s.ch ev_TEMPO e.param hidx
    simpa [getCh] using this
  · unfold setBit
    split
    · assumption
    · simp

/-! ### the chain instance -/
section
variable (d : Data) (song : Song)

/-- summary: the tempo after the events -/
def TempoS (g : G) (_ : Ch) (evs : List Event) (g' : G) (_ : Ch) (_ : List Wr) : Prop :=
  g'.tempoDelta = tempoAfter g.tempoDelta evs

/-- invariant: the channel variables are all there, drum mode is off -/
def VarsOK (c : Ch) : Prop := VarsLen c.ps.ch ∧ drumOff c.ps.ch

theorem varsOK_of_ts {c c' : Ch} (h : c'.ps.ch.trackState = c.ps.ch.trackState) (hc : VarsOK c) : VarsOK c' :=
  ⟨by unfold VarsLen; rw [h]; exact hc.1, drumOff_of_ts h hc.2⟩

theorem tempoChain : Chain d song (fun _ => True) VarsOK TempoS := by
  refine ⟨?_, ?_, ?_⟩
  · intro g c ps' t hj hch _
    exact ⟨varsOK_of_ts (c := c) (by show ps'.ch.trackState = _; rw [hch]) hj, rfl⟩
  · intro g c ps' e hj hg hr
    right
    have sc := writeEvent_ctl d g { c with ps := ps', evType := e.type } e
    cases hr with
    | rest hch =>
      refine ⟨varsOK_of_ts (c := c) (by rw [sc.ts]; show ps'.ch.trackState = _; rw [hch]) hj, ?_⟩
      unfold TempoS
      rw [writeEvent_tempo_other d g _ _ (by show restEvent.type ≠ _; decide) (by show restEvent.type ≠ _; decide)]
      rfl
    | fin hch =>
      refine ⟨varsOK_of_ts (c := c) (by rw [sc.ts]; show ps'.ch.trackState = _; rw [hch]) hj, ?_⟩
      unfold TempoS
      rw [writeEvent_tempo_other d g _ _ (by show endEvent.type ≠ _; decide) (by show endEvent.type ≠ _; decide)]
      rfl
    | hook v s1 hs1 hp hdm _ hch =>
      have hl1 : VarsLen s1.ch := by unfold VarsLen; rw [hs1]; exact hj.1
      have hd1 : drumOff s1.ch := by rw [hs1]; exact hj.2
      have hlen := handleEvent_len song s1 e hp hd1
      have hdr := (handleEvent_plain song (fun _ => false) s1 e hd1 hp hdm).2.2.2.2
      constructor
      · constructor
        · unfold VarsLen; rw [sc.ts]; show ps'.ch.trackState.length = _
          rw [hch, hlen]; exact hl1
        · apply drumOff_of_ts sc.ts
          show drumOff ps'.ch
          unfold drumOff; rw [hch]; exact hdr
      · unfold TempoS
        by_cases ht : e.type = ev_TEMPO
        · rw [writeEvent_tempo_cmd d g _ _ (Or.inl ht)]
          obtain ⟨q1, q2⟩ := handleEvent_tempo song s1 e hl1 ht
          have hv : ({ c with ps := ps', evType := e.type } : Ch).var ev_TEMPO = e.param := by
            show getCh ps'.ch ev_TEMPO = _; rw [hch]; exact q1
          have hb : ({ c with ps := ps', evType := e.type } : Ch).bpm = false := by
            show ps'.ch.mask.contains BPM_BIT = _; rw [hch]; exact q2
          rw [hv, hb]
          simp [tempoAfter, ht]
        · by_cases hb : e.type = ev_TEMPO_BPM
          · rw [writeEvent_tempo_cmd d g _ _ (Or.inr hb)]
            obtain ⟨q1, q2⟩ := handleEvent_tempo_bpm song s1 e hl1 hb
            have hv : ({ c with ps := ps', evType := e.type } : Ch).var ev_TEMPO = e.param := by
              show getCh ps'.ch ev_TEMPO = _; rw [hch]; exact q1
            have hbb : ({ c with ps := ps', evType := e.type } : Ch).bpm = true := by
              show ps'.ch.mask.contains BPM_BIT = _; rw [hch]; exact q2
            rw [hv, hbb]
            have hne : ¬ ev_TEMPO_BPM = ev_TEMPO := by decide
            simp [tempoAfter, hb, hne]
          · rw [writeEvent_tempo_other d g _ _ ht hb]
            simp [tempoAfter, ht, hb]
  · intro g1 g2 g3 a b c e1 e2 o1 o2 h1 h2
    unfold TempoS at *
    rw [h2, h1, tempoAfter_append]

end

/-! ### the part of `MD_Channel::update` after the tick loop -/
/-- what `chAfter` never changes -/
structure SameAfter (g : G) (c : Ch) (r : G × Ch × List Wr) : Prop where
  tempo : r.1.tempoDelta = g.tempoDelta
  ps : r.2.1.ps = c.ps
  root : r.2.1.root = c.root
  kind : r.2.1.kind = c.kind

theorem psgEnvCmd_same (c c' : Ch) (d0 : Nat) (h : psgEnvCmd c d0 = some c') :
    c'.ps = c.ps ∧ c'.root = c.root ∧ c'.kind = c.kind := by
  unfold psgEnvCmd at h
  split at h
  · cases h; exact ⟨rfl, rfl, rfl⟩
  · split at h
    · split at h
      · cases h
      · cases h; exact ⟨rfl, rfl, rfl⟩
    · cases h; exact ⟨rfl, rfl, rfl⟩

theorem psgEnvValue_same (g : G) (c : Ch) (id : Nat) : SameAfter g c (psgEnvValue g c id) := by
  unfold psgEnvValue
  split
  · exact ⟨fail_tempo _ _, rfl, rfl, rfl⟩
  · split
    · exact ⟨rfl, rfl, rfl, rfl⟩
    · split <;> exact ⟨rfl, rfl, rfl, rfl⟩

theorem psgEnvBody_same (g : G) (c : Ch) (id : Nat) : SameAfter g c (psgEnvBody g c id) := by
  unfold psgEnvBody
  split
  · split
    · exact ⟨rfl, rfl, rfl, rfl⟩
    · split
      · exact ⟨fail_tempo _ _, rfl, rfl, rfl⟩
      · split
        · exact ⟨fail_tempo _ _, rfl, rfl, rfl⟩
        · rename_i c' hc
          obtain ⟨a, b, cc⟩ := psgEnvCmd_same _ _ _ hc
          have := psgEnvValue_same g c' id
          exact ⟨this.tempo, this.ps.trans a, this.root.trans b, this.kind.trans cc⟩
  · exact ⟨rfl, rfl, rfl, rfl⟩

theorem chEnv_same (g : G) (c : Ch) : SameAfter g c (chEnv g c) := by
  unfold chEnv
  split
  · rename_i id _
    unfold psgEnvelope
    split
    · exact ⟨rfl, rfl, rfl, rfl⟩
    · have := psgEnvBody_same g (psgEnvRestart c) id
      have hr : (psgEnvRestart c).ps = c.ps ∧ (psgEnvRestart c).root = c.root ∧ (psgEnvRestart c).kind = c.kind := by
        unfold psgEnvRestart; split <;> exact ⟨rfl, rfl, rfl⟩
      exact ⟨this.tempo, this.ps.trans hr.1, this.root.trans hr.2.1, this.kind.trans hr.2.2⟩
  · exact ⟨rfl, rfl, rfl, rfl⟩

theorem chAfter_same (d : Data) (g : G) (c : Ch) : SameAfter g c (chAfter d g c) := by
  unfold chAfter
  split
  · exact ⟨rfl, rfl, rfl, rfl⟩
  · have h1 := chEnv_same g c
    simp only
    refine ⟨?_, ?_, ?_, ?_⟩
    · unfold chKeyOnPcm
      split
      · rw [keyOnPcm_tempo]
        split
        · rw [fail_tempo]; exact h1.tempo
        · exact h1.tempo
      · simp only
        split
        · rw [fail_tempo]; exact h1.tempo
        · exact h1.tempo
    · unfold chKeyOn chPitch
      simp only
      split <;> exact h1.ps
    · unfold chKeyOn chPitch
      simp only
      split <;> exact h1.root
    · unfold chKeyOn chPitch
      simp only
      split <;> exact h1.kind

section
variable (d : Data) (song : Song) (root : List Event)

/-- **The tempo after one update of any channel** (plain subset): the last tempo command among
the events delivered in its ticks, else the tempo before. -/
theorem chUpdate_tempo (hpl : PlainHooks song root) (n : Nat) (g : G) (c : Ch) (hb : Base root c) (hj : VarsOK c)
    (hg : g.err = none) (s' : PState) (ws : List (List Event))
    (hrun : ctRun song root n ⟨c.ps.core, c.ps.acc⟩ = some (s', ws)) :
    (chUpdate d song n g c).1.err.isSome = true ∨
      ((chUpdate d song n g c).2.1.ps.core = s'.core ∧ (chUpdate d song n g c).2.1.ps.acc = s'.acc ∧
       Base root (chUpdate d song n g c).2.1 ∧ VarsOK (chUpdate d song n g c).2.1 ∧
       (chUpdate d song n g c).1.tempoDelta = tempoAfter g.tempoDelta ws.flatten) := by
  have hf := chTicks_g d song root hpl (fun _ _ _ _ _ => trivial) (tempoChain d song) n g c hb hj hg s' ws hrun
  unfold chUpdate
  cases ht : chTicks d song n g c with
  | mk g1 r1 =>
    obtain ⟨c1, o1⟩ := r1
    rw [ht] at hf
    simp only
    have hs := chAfter_same d g1 c1
    rcases hf with herr | ⟨a1, a2, a3, a4, a5⟩
    · simp only at herr
      left
      simp [chAfter, herr]
    · simp only at a1 a2 a3 a4 a5
      right
      refine ⟨by rw [hs.ps]; exact a1, by rw [hs.ps]; exact a2, ⟨hs.root.trans a3.root, by rw [hs.ps]; exact a3.err,
        by rw [hs.ps]; exact a3.drum⟩, ⟨by rw [hs.ps]; exact a4.1, by rw [hs.ps]; exact a4.2⟩, ?_⟩
      rw [hs.tempo]; exact a5

end

end Ctrmml.MdDriver
