/-
  Helper lemmas for C20, part 1: the fuel budget of Model/Conf.lean is sufficient
  (termination), results do not depend on surplus fuel, and the fuel-free unfolding
  equations `loopF = loopBody loopF blockF`, `blockF = blockBody loopF blockF`.
  No property statements here.
-/
import Ctrmml.Model.Conf
namespace Ctrmml.ConfModel
open Ctrmml

/-! ### character classes -/

theorem isBreak_iff (c : Char) :
    isBreak c = true ↔ (c = ' ' ∨ c = '\t' ∨ c = '\r' ∨ c = '\n' ∨ c = '"' ∨ c = ':' ∨ c = ',' ∨ c = ';' ∨ c = '{' ∨ c = '}') := by
  have e : Tables.conf_breakChars = [' ', '\t', '\r', '\n', '"', ':', ',', ';', '{', '}'] := by decide
  simp [isBreak, e]

theorem isBreak_false_iff (c : Char) :
    isBreak c = false ↔ (c ≠ ' ' ∧ c ≠ '\t' ∧ c ≠ '\r' ∧ c ≠ '\n' ∧ c ≠ '"' ∧ c ≠ ':' ∧ c ≠ ',' ∧ c ≠ ';' ∧ c ≠ '{' ∧ c ≠ '}') := by
  rw [← Bool.not_eq_true, isBreak_iff]; simp

/-! ### the scanners only move forward -/

theorem spanWord_snd_le (s : List Char) : (spanWord s).2.length ≤ s.length := by
  induction s with
  | nil => simp [spanWord]
  | cons c cs ih =>
    unfold spanWord
    split
    · simp
    · simp; omega

theorem spanWord_snd_lt (c : Char) (cs : List Char) (h : isBreak c = false) :
    (spanWord (c :: cs)).2.length < (c :: cs).length := by
  unfold spanWord
  simp [h]
  have := spanWord_snd_le cs
  omega

theorem quoted_snd_le (k s : List Char) : (quoted k s).2.length ≤ s.length := by
  fun_induction quoted k s <;> simp_all <;> omega

theorem skipComment_le (s : List Char) : (skipComment s).length ≤ s.length := by
  induction s with
  | nil => simp [skipComment]
  | cons c cs ih =>
    unfold skipComment
    split
    · simp
    · simp; omega

theorem skipComment_semicolon (cs : List Char) : skipComment (';' :: cs) = skipComment cs := by
  simp [skipComment]

theorem dropSpace_le (s : List Char) : (s.dropWhile isSpace).length ≤ s.length :=
  (List.dropWhile_sublist _).length_le

/-! ### unfolding the fuelled definitions -/

theorem loop_succ (n : Nat) : loop (n + 1) = loopBody (loop n) (block n) := by
  rw [loop]
theorem block_succ (n : Nat) : block (n + 1) = blockBody (loop n) (block n) := by
  rw [block]
theorem loop_zero (k rk s) : loop 0 k rk s = .error .fuel := by
  rw [loop]
theorem block_zero (acc s) : block 0 acc s = .error .fuel := by
  rw [block]

/-! ### termination: the budget suffices and the head only moves forward -/

/-- what a `parse_token` run from state `(k, rk, s)` guarantees -/
def LoopGood (r : Res) (rk : Bool) (s : List Char) : Prop :=
  r ≠ .error .fuel ∧
  ∀ o tl, r = .ok (o, tl) → tl.length ≤ s.length ∧
    (rk = false → ∀ c cs, s = c :: cs → c ≠ '}' → tl.length < s.length)

def BlockGood (r : BRes) (s : List Char) : Prop :=
  r ≠ .error .fuel ∧ ∀ a tl, r = .ok (a, tl) → tl.length ≤ s.length

theorem finish_good (k rk s) (h : rk = true ∨ s = [] ∨ ∃ cs, s = '}' :: cs) : LoopGood (finish k rk s) rk s := by
  refine ⟨by simp [finish], ?_⟩
  intro o tl e
  simp [finish] at e
  obtain ⟨_, rfl⟩ := e
  refine ⟨Nat.le_refl _, ?_⟩
  intro hrk c cs hs hc
  rcases h with h | h | ⟨cs', h⟩
  · simp [hrk] at h
  · simp [h] at hs
  · rw [h] at hs; simp at hs; exact absurd hs.1.symm hc

theorem loopBody_good {f : List Char → Bool → List Char → Res} {g : List Conf → List Char → BRes}
    (k : List Char) (rk : Bool) (s : List Char)
    (hf : ∀ k rk t, t.length < s.length → LoopGood (f k rk t) rk t)
    (hg : ∀ acc t, t.length < s.length → BlockGood (g acc t) t) :
    LoopGood (loopBody f g k rk s) rk s := by
  cases s with
  | nil => exact finish_good _ _ _ (Or.inr (Or.inl rfl))
  | cons c cs =>
    unfold loopBody
    simp only []
    -- a recursive call on a strictly shorter head inherits non-fuel and gives progress
    have rec_ok : ∀ k' rk' t, t.length < (c :: cs).length → LoopGood (f k' rk' t) rk (c :: cs) := by
      intro k' rk' t ht
      obtain ⟨h1, h2⟩ := hf k' rk' t ht
      refine ⟨h1, ?_⟩
      intro o tl e
      have := (h2 o tl e).1
      exact ⟨by omega, fun _ _ _ _ _ => by omega⟩
    split
    · next h => exact finish_good _ _ _ (Or.inr (Or.inr ⟨cs, by rw [h]⟩))
    split
    · next h =>
      split
      · next hrk => exact finish_good _ _ _ (Or.inl hrk)
      · exact rec_ok _ _ _ (spanWord_snd_lt c cs h)
    split
    · split
      · next hrk => exact finish_good _ _ _ (Or.inl hrk)
      · exact rec_ok _ _ _ (by have := quoted_snd_le k cs; simp; omega)
    split
    · -- ':'
      have hlt : cs.length < (c :: cs).length := by simp
      obtain ⟨h1, h2⟩ := hf [] false cs hlt
      cases hr : f [] false cs with
      | error e =>
        refine ⟨?_, by intro o tl e'; simp at e'⟩
        intro e'; rw [hr] at h1; simp at e'; exact h1 (by rw [e'])
      | ok p =>
        obtain ⟨sub, tl⟩ := p
        refine ⟨by simp, ?_⟩
        intro o tl' e
        simp at e
        obtain ⟨_, rfl⟩ := e
        have := (h2 sub tl hr).1
        simp
        exact ⟨by omega, fun _ _ => by omega⟩
    split
    · -- ','
      refine ⟨by simp, ?_⟩
      intro o tl e
      simp at e
      obtain ⟨_, rfl⟩ := e
      simp
    split
    · -- ';'
      next h =>
      refine rec_ok _ _ _ ?_
      rw [h, skipComment_semicolon]
      have := skipComment_le cs
      simp; omega
    split
    · -- '{'
      have hlt : cs.length < (c :: cs).length := by simp
      obtain ⟨h1, h2⟩ := hg [] cs hlt
      cases hr : g [] cs with
      | error e =>
        refine ⟨?_, by intro o tl e'; simp at e'⟩
        intro e'; rw [hr] at h1; simp at e'; exact h1 (by rw [e'])
      | ok p =>
        obtain ⟨subs, tl⟩ := p
        have hl := h2 subs tl hr
        cases tl with
        | nil => exact ⟨by simp, by intro o tl e; simp at e⟩
        | cons d tl' =>
          simp only []
          split
          · refine ⟨by simp, ?_⟩
            intro o tl'' e
            simp at e
            obtain ⟨_, rfl⟩ := e
            simp at hl ⊢
            exact ⟨by omega, fun _ _ => by omega⟩
          · exact ⟨by simp, by intro o tl e; simp at e⟩
    · -- white space
      exact rec_ok _ _ _ (by have := dropSpace_le cs; simp; omega)

theorem blockBody_good {f : List Char → Bool → List Char → Res} {g : List Conf → List Char → BRes}
    (acc : List Conf) (s : List Char)
    (hf : LoopGood (f [] false s) false s)
    (hg : ∀ acc t, t.length < s.length → BlockGood (g acc t) t) :
    BlockGood (blockBody f g acc s) s := by
  cases s with
  | nil => exact ⟨by simp [blockBody], by intro a tl e; simp [blockBody] at e; simp [e]⟩
  | cons c cs =>
    unfold blockBody
    simp only []
    split
    · refine ⟨by simp, ?_⟩
      intro a tl e
      simp at e
      simp [← e.2]
    · next hc =>
      obtain ⟨h1, h2⟩ := hf
      cases hr : f [] false (c :: cs) with
      | error e =>
        refine ⟨?_, by intro o tl e'; simp at e'⟩
        intro e'; rw [hr] at h1; simp at e'; exact h1 (by rw [e'])
      | ok p =>
        obtain ⟨o, tl⟩ := p
        have hlt := (h2 o tl hr).2 rfl c cs rfl hc
        obtain ⟨g1, g2⟩ := hg (acc ++ o.toList) tl hlt
        refine ⟨g1, ?_⟩
        intro a tl' e
        have := g2 a tl' e
        omega

theorem good_all (n : Nat) :
    (∀ k rk s, 2 * s.length + 1 ≤ n → LoopGood (loop n k rk s) rk s) ∧
    (∀ acc s, 2 * s.length + 2 ≤ n → BlockGood (block n acc s) s) := by
  induction n with
  | zero => exact ⟨fun _ _ s h => by omega, fun _ s h => by omega⟩
  | succ n ih =>
    constructor
    · intro k rk s h
      rw [loop_succ]
      exact loopBody_good k rk s (fun k rk t ht => ih.1 k rk t (by omega)) (fun acc t ht => ih.2 acc t (by omega))
    · intro acc s h
      rw [block_succ]
      exact blockBody_good acc s (ih.1 [] false s (by omega)) (fun acc t ht => ih.2 acc t (by omega))

theorem loop_good (n k rk s) (h : 2 * s.length + 1 ≤ n) : LoopGood (loop n k rk s) rk s := (good_all n).1 k rk s h
theorem block_good (n acc s) (h : 2 * s.length + 2 ≤ n) : BlockGood (block n acc s) s := (good_all n).2 acc s h

theorem top_ne_fuel (n : Nat) : ∀ acc s, 2 * s.length + 2 ≤ n → top n acc s ≠ .error .fuel := by
  induction n with
  | zero => intro _ s h; omega
  | succ n ih =>
    intro acc s h
    cases s with
    | nil => simp [top]
    | cons c cs =>
      unfold top
      split
      · simp
      · next hc =>
        obtain ⟨h1, h2⟩ := loop_good n [] false (c :: cs) (by omega)
        unfold parseToken
        cases hr : loop n [] false (c :: cs) with
        | error e =>
          intro e'; rw [hr] at h1; simp at e'; exact h1 (by rw [e'])
        | ok p =>
          obtain ⟨o, tl⟩ := p
          have hlt := (h2 o tl hr).2 rfl c cs rfl hc
          exact ih _ tl (by simp at hlt h; omega)

/-! ### surplus fuel changes nothing -/

def LoopLe (f f' : List Char → Bool → List Char → Res) : Prop :=
  ∀ k rk s, f k rk s ≠ .error .fuel → f' k rk s = f k rk s
def BlockLe (g g' : List Conf → List Char → BRes) : Prop :=
  ∀ acc s, g acc s ≠ .error .fuel → g' acc s = g acc s

/-! one rewrite rule per branch of the loop body -/
section branches
variable (f : List Char → Bool → List Char → Res) (g : List Conf → List Char → BRes)
variable (k : List Char) (rk : Bool) (cs : List Char)

theorem loopBody_nil : loopBody f g k rk [] = finish k rk [] := rfl
theorem loopBody_rbrace : loopBody f g k rk ('}' :: cs) = finish k rk ('}' :: cs) := by
  simp [loopBody]
theorem loopBody_word (c : Char) (h : isBreak c = false) :
    loopBody f g k rk (c :: cs) =
      if rk then finish k rk (c :: cs) else f (spanWord (c :: cs)).1 true (spanWord (c :: cs)).2 := by
  have : c ≠ '}' := ((isBreak_false_iff c).1 h).2.2.2.2.2.2.2.2.2
  simp [loopBody, this, h]
theorem loopBody_quote :
    loopBody f g k rk ('"' :: cs) =
      if rk then finish k rk ('"' :: cs) else f (quoted k cs).1 true (quoted k cs).2 := by
  have : isBreak '"' = true := by decide
  simp [loopBody, this]
theorem loopBody_colon :
    loopBody f g k rk (':' :: cs) =
      match f [] false cs with
      | .ok (sub, tl) => .ok (some (.mk k sub.toList), tl)
      | .error e => .error e := by
  have : isBreak ':' = true := by decide
  simp [loopBody, this]
  rfl
theorem loopBody_comma : loopBody f g k rk (',' :: cs) = .ok (some (.mk k []), cs) := by
  have : isBreak ',' = true := by decide
  simp [loopBody, this]
theorem loopBody_semicolon : loopBody f g k rk (';' :: cs) = f k rk (skipComment cs) := by
  have : isBreak ';' = true := by decide
  simp [loopBody, this, skipComment_semicolon]
theorem loopBody_lbrace :
    loopBody f g k rk ('{' :: cs) =
      match g [] cs with
      | .ok (subs, tl) =>
        match tl with
        | d :: tl' => if d = '}' then .ok (some (.mk k subs), tl') else .error .missingBrace
        | [] => .error .missingBrace
      | .error e => .error e := by
  have : isBreak '{' = true := by decide
  simp [loopBody, this]
  rfl
theorem loopBody_blank (c : Char) (h : c = ' ' ∨ c = '\t' ∨ c = '\r' ∨ c = '\n') :
    loopBody f g k rk (c :: cs) = f k rk (cs.dropWhile isSpace) := by
  rcases h with h | h | h | h <;> subst h
  · have : isBreak ' ' = true := by decide
    simp [loopBody, this]
  · have : isBreak '\t' = true := by decide
    simp [loopBody, this]
  · have : isBreak '\r' = true := by decide
    simp [loopBody, this]
  · have : isBreak '\n' = true := by decide
    simp [loopBody, this]
end branches

theorem char_cases (c : Char) :
    c = '}' ∨ isBreak c = false ∨ c = '"' ∨ c = ':' ∨ c = ',' ∨ c = ';' ∨ c = '{' ∨
      (c = ' ' ∨ c = '\t' ∨ c = '\r' ∨ c = '\n') := by
  cases h : isBreak c
  · exact Or.inr (Or.inl rfl)
  · rcases (isBreak_iff c).1 h with h | h | h | h | h | h | h | h | h | h <;> simp [h]

theorem loopBody_mono {f f' g g'} (hf : LoopLe f f') (hg : BlockLe g g') :
    LoopLe (loopBody f g) (loopBody f' g') := by
  intro k rk s h
  cases s with
  | nil => rfl
  | cons c cs =>
    rcases char_cases c with hc | hc | hc | hc | hc | hc | hc | hc
    · subst hc; simp only [loopBody_rbrace]
    · simp only [loopBody_word _ _ _ _ _ _ hc] at h ⊢
      cases rk
      · exact hf _ _ _ (by simpa using h)
      · rfl
    · subst hc; simp only [loopBody_quote] at h ⊢
      cases rk
      · exact hf _ _ _ (by simpa using h)
      · rfl
    · subst hc; simp only [loopBody_colon] at h ⊢
      cases hr : f [] false cs with
      | error e =>
        rw [hr] at h
        rw [hf [] false cs (by rw [hr]; simpa using h), hr]
      | ok p => rw [hf [] false cs (by rw [hr]; simp), hr]
    · subst hc; simp only [loopBody_comma]
    · subst hc; simp only [loopBody_semicolon] at h ⊢; exact hf _ _ _ h
    · subst hc; simp only [loopBody_lbrace] at h ⊢
      cases hr : g [] cs with
      | error e =>
        rw [hr] at h
        rw [hg [] cs (by rw [hr]; simpa using h), hr]
      | ok p => rw [hg [] cs (by rw [hr]; simp), hr]
    · simp only [loopBody_blank _ _ _ _ _ _ hc] at h ⊢; exact hf _ _ _ h

theorem blockBody_mono {f f' g g'} (hf : LoopLe f f') (hg : BlockLe g g') :
    BlockLe (blockBody f g) (blockBody f' g') := by
  intro acc s h
  cases s with
  | nil => rfl
  | cons c cs =>
    unfold blockBody at h ⊢
    simp only [] at h ⊢
    split
    · rfl
    · next h1 =>
      simp only [h1, if_false] at h
      cases hr : f [] false (c :: cs) with
      | error e =>
        rw [hr] at h
        rw [hf [] false _ (by rw [hr]; simpa using h), hr]
      | ok p =>
        rw [hr] at h
        rw [hf [] false _ (by rw [hr]; simp), hr]
        exact hg _ _ (by simpa using h)

theorem mono_succ (n : Nat) : LoopLe (loop n) (loop (n + 1)) ∧ BlockLe (block n) (block (n + 1)) := by
  induction n with
  | zero => exact ⟨fun k rk s h => absurd (loop_zero k rk s) h, fun acc s h => absurd (block_zero acc s) h⟩
  | succ n ih =>
    constructor
    · rw [loop_succ (n + 1), loop_succ n]; exact loopBody_mono ih.1 ih.2
    · rw [block_succ (n + 1), block_succ n]; exact blockBody_mono ih.1 ih.2

theorem loop_mono {n m : Nat} (h : n ≤ m) : LoopLe (loop n) (loop m) := by
  induction m with
  | zero => have : n = 0 := by omega
            subst this; intro _ _ _ _; rfl
  | succ m ih =>
    rcases Nat.lt_or_ge n (m + 1) with h' | h'
    · intro k rk s hne
      have e := ih (by omega) k rk s hne
      rw [← e]
      exact (mono_succ m).1 k rk s (by rw [e]; exact hne)
    · have : n = m + 1 := by omega
      subst this; intro _ _ _ _; rfl

theorem block_mono {n m : Nat} (h : n ≤ m) : BlockLe (block n) (block m) := by
  induction m with
  | zero => have : n = 0 := by omega
            subst this; intro _ _ _; rfl
  | succ m ih =>
    rcases Nat.lt_or_ge n (m + 1) with h' | h'
    · intro acc s hne
      have e := ih (by omega) acc s hne
      rw [← e]
      exact (mono_succ m).2 acc s (by rw [e]; exact hne)
    · have : n = m + 1 := by omega
      subst this; intro _ _ _; rfl

/-! ### fuel-free view -/

/-- `parse_token`'s loop with exactly the budget it needs -/
def loopF (k : List Char) (rk : Bool) (s : List Char) : Res := loop (2 * s.length + 1) k rk s
def blockF (acc : List Conf) (s : List Char) : BRes := block (2 * s.length + 2) acc s

theorem loop_eq_F {n k rk s} (h : 2 * s.length + 1 ≤ n) : loop n k rk s = loopF k rk s :=
  loop_mono h k rk s (loop_good _ k rk s (Nat.le_refl _)).1

theorem block_eq_F {n acc s} (h : 2 * s.length + 2 ≤ n) : block n acc s = blockF acc s :=
  block_mono h acc s (block_good _ acc s (Nat.le_refl _)).1

theorem loopF_good (k rk s) : LoopGood (loopF k rk s) rk s := loop_good _ k rk s (Nat.le_refl _)
theorem blockF_good (acc s) : BlockGood (blockF acc s) s := block_good _ acc s (Nat.le_refl _)

/-- `loopBody` only consults its recursive arguments on strictly shorter heads -/
theorem loopBody_congr {f f' : List Char → Bool → List Char → Res} {g g' : List Conf → List Char → BRes}
    (k : List Char) (rk : Bool) (s : List Char)
    (hf : ∀ k rk t, t.length < s.length → f k rk t = f' k rk t)
    (hg : ∀ acc t, t.length < s.length → g acc t = g' acc t) :
    loopBody f g k rk s = loopBody f' g' k rk s := by
  cases s with
  | nil => rfl
  | cons c cs =>
    unfold loopBody
    simp only []
    split
    · rfl
    split
    · next h =>
      split
      · rfl
      · exact hf _ _ _ (spanWord_snd_lt c cs h)
    split
    · split
      · rfl
      · exact hf _ _ _ (by have := quoted_snd_le k cs; simp; omega)
    split
    · rw [hf [] false cs (by simp)]
    split
    · rfl
    split
    · next h =>
      refine hf _ _ _ ?_
      rw [h, skipComment_semicolon]
      have := skipComment_le cs
      simp; omega
    split
    · rw [hg [] cs (by simp)]
    · exact hf _ _ _ (by have := dropSpace_le cs; simp; omega)

theorem loopF_unfold (k rk s) : loopF k rk s = loopBody loopF blockF k rk s := by
  unfold loopF
  rw [loop_succ]
  apply loopBody_congr
  · intro k rk t ht; exact loop_eq_F (by omega)
  · intro acc t ht; exact block_eq_F (by omega)

theorem blockF_unfold (acc s) : blockF acc s = blockBody loopF blockF acc s := by
  unfold blockF
  rw [block_succ]
  cases s with
  | nil => rfl
  | cons c cs =>
    unfold blockBody
    simp only []
    split
    · rfl
    · next hc =>
      have e : loop (2 * (c :: cs).length + 1) [] false (c :: cs) = loopF [] false (c :: cs) := rfl
      rw [e]
      cases hr : loopF [] false (c :: cs) with
      | error e => rfl
      | ok p =>
        obtain ⟨o, tl⟩ := p
        have hlt := ((loopF_good [] false (c :: cs)).2 o tl hr).2 rfl c cs rfl hc
        exact block_eq_F (by simp at hlt ⊢; omega)

end Ctrmml.ConfModel
