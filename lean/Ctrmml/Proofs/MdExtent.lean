/-
  Helper lemmas for C07 `export_extent`, tracks without loop point: the loop counters of
  `Basic_Player` stay untouched, `get_loop_count()` is -1 while the channel plays, so the export
  stops exactly when the channel stops and no loop marker is ever written.
-/
import Ctrmml.Proofs.MdTable
import Ctrmml.Proofs.TickTimes
namespace Ctrmml.MdDriver
open Ctrmml Player PlayerCh Tables TickStream Expand

/-- as long as no loop point has been read, the loop counters have their initial values -/
def CountInv (a : Acc) : Prop :=
  a.loopPosition = -1 → a.loopCount = -1 ∧ a.loopResetCount = 0 ∧ a.loopResetPosition = -1

section
variable (song : Song) (root : List Event)

theorem step_countInv (s s' : PState) (em : Emit) (h : step song root true s = .ok (s', em)) (hi : CountInv s.acc) :
    CountInv s'.acc := by
  unfold step at h
  cases hc : coreStep song root s.core with
  | error e => rw [hc] at h; simp at h
  | ok p =>
    obtain ⟨c', o⟩ := p
    rw [hc] at h
    simp only [Except.ok.injEq, Prod.mk.injEq] at h
    obtain ⟨rfl, _⟩ := h
    have hpos : ∀ (x : Int), x = -1 → ((s.core.position : Nat) : Int) ≠ x := by intro x hx; omega
    unfold CountInv at *
    unfold accStep
    cases o with
    | hook v f =>
      simp only
      split
      · intro hh; simp only at hh; omega
      · intro hh
        simp only at hh ⊢
        obtain ⟨i1, i2, i3⟩ := hi hh
        rw [if_neg (hpos _ i3)]
        exact ⟨i1, i2, i3⟩
    | ret f =>
      intro hh
      simp only at hh ⊢
      obtain ⟨i1, i2, i3⟩ := hi hh
      rw [if_neg (hpos _ i3)]
      exact ⟨i1, i2, i3⟩
    | rootEnd f =>
      simp only
      split
      · rename_i hcond
        intro hh; simp only at hh
        exact absurd hh hcond.1
      · intro hh
        simp only at hh ⊢
        obtain ⟨i1, i2, i3⟩ := hi hh
        rw [if_neg (hpos _ i3)]
        exact ⟨i1, i2, i3⟩

theorem ctSettle_countInv : ∀ (f : Nat) (s s' : PState) (w : List Event), ctSettle song root f s = some (s', w) →
    CountInv s.acc → CountInv s'.acc
  | 0, s, s', w, h, hi => by
    simp only [ctSettle] at h
    split at h
    · simp at h
    · simp only [Option.some.injEq, Prod.mk.injEq] at h; rw [← h.1]; exact hi
  | f + 1, s, s', w, h, hi => by
    simp only [ctSettle] at h
    split at h
    · cases hs : step song root true s with
      | error e => rw [hs] at h; simp at h
      | ok q =>
        obtain ⟨s1, em⟩ := q
        rw [hs] at h
        simp only at h
        cases hc : ctSettle song root f s1 with
        | none => rw [hc] at h; simp at h
        | some r =>
          rw [hc] at h
          simp only [Option.map_some, Option.some.injEq, Prod.mk.injEq] at h
          rw [← h.1]
          exact ctSettle_countInv f s1 r.1 r.2 (by rw [hc]) (step_countInv song root s s1 em hs hi)
    · simp only [Option.some.injEq, Prod.mk.injEq] at h; rw [← h.1]; exact hi

theorem ctRun_countInv : ∀ (n : Nat) (s s' : PState) (ws : List (List Event)), ctRun song root n s = some (s', ws) →
    CountInv s.acc → CountInv s'.acc
  | 0, s, s', ws, h, hi => by
    simp only [ctRun, Option.some.injEq, Prod.mk.injEq] at h; rw [← h.1]; exact hi
  | n + 1, s, s', ws, h, hi => by
    simp only [ctRun] at h
    cases ht : ctTick song root s with
    | none => rw [ht] at h; simp at h
    | some r =>
      obtain ⟨s1, w⟩ := r
      rw [ht] at h
      simp only at h
      cases hr : ctRun song root n s1 with
      | none => rw [hr] at h; simp at h
      | some r2 =>
        rw [hr] at h
        simp only [Option.map_some, Option.some.injEq, Prod.mk.injEq] at h
        rw [← h.1]
        apply ctRun_countInv n s1 r2.1 r2.2 (by rw [hr])
        unfold ctTick at ht
        cases hc : ctSettle song root settleFuel (ctDec s).1 with
        | none => rw [hc] at ht; simp at ht
        | some q =>
          rw [hc] at ht
          simp only [Option.map_some, Option.some.injEq, Prod.mk.injEq] at ht
          rw [← ht.1]
          apply ctSettle_countInv song root settleFuel (ctDec s).1 q.1 q.2 (by rw [hc])
          unfold ctDec
          split
          · exact hi
          · split <;> exact hi

end

/-- before the first jump back to the loop point the loop count is not positive -/
def JumpInv (a : Acc) : Prop := a.lastLoopJump = -1 → a.loopCount ≤ 0

section
variable (song : Song) (root : List Event)

theorem step_jumpInv (s s' : PState) (em : Emit) (h : step song root true s = .ok (s', em)) (hi : JumpInv s.acc) :
    JumpInv s'.acc := by
  unfold step at h
  cases hc : coreStep song root s.core with
  | error e => rw [hc] at h; simp at h
  | ok p =>
    obtain ⟨c', o⟩ := p
    rw [hc] at h
    simp only [Except.ok.injEq, Prod.mk.injEq] at h
    obtain ⟨rfl, _⟩ := h
    unfold JumpInv at *
    unfold accStep
    cases o with
    | hook v f =>
      simp only
      split
      · intro _; simp
      · exact hi
    | ret f => exact hi
    | rootEnd f =>
      simp only
      split
      · intro hh; simp only at hh; omega
      · exact hi

/-- an invariant of the accumulators that `step_event` keeps and that does not read the time
fields is kept by any number of ticks -/
theorem ctRun_accInv (I : Acc → Prop)
    (hstep : ∀ s s' em, step song root true s = .ok (s', em) → I s.acc → I s'.acc)
    (htime : ∀ (a : Acc) (on off pt : Nat), I a → I { a with onTime := on, offTime := off, playTime := pt }) :
    ∀ (n : Nat) (s s' : PState) (ws : List (List Event)), ctRun song root n s = some (s', ws) → I s.acc → I s'.acc := by
  have hsettle : ∀ (f : Nat) (s s' : PState) (w : List Event), ctSettle song root f s = some (s', w) → I s.acc → I s'.acc := by
    intro f
    induction f with
    | zero =>
      intro s s' w h hi
      simp only [ctSettle] at h
      split at h
      · simp at h
      · simp only [Option.some.injEq, Prod.mk.injEq] at h; rw [← h.1]; exact hi
    | succ f ih =>
      intro s s' w h hi
      simp only [ctSettle] at h
      split at h
      · cases hs : step song root true s with
        | error e => rw [hs] at h; simp at h
        | ok q =>
          obtain ⟨s1, em⟩ := q
          rw [hs] at h
          simp only at h
          cases hc : ctSettle song root f s1 with
          | none => rw [hc] at h; simp at h
          | some r =>
            rw [hc] at h
            simp only [Option.map_some, Option.some.injEq, Prod.mk.injEq] at h
            rw [← h.1]
            exact ih s1 r.1 r.2 (by rw [hc]) (hstep s s1 em hs hi)
      · simp only [Option.some.injEq, Prod.mk.injEq] at h; rw [← h.1]; exact hi
  intro n
  induction n with
  | zero =>
    intro s s' ws h hi
    simp only [ctRun, Option.some.injEq, Prod.mk.injEq] at h; rw [← h.1]; exact hi
  | succ n ih =>
    intro s s' ws h hi
    simp only [ctRun] at h
    cases ht : ctTick song root s with
    | none => rw [ht] at h; simp at h
    | some r =>
      obtain ⟨s1, w⟩ := r
      rw [ht] at h
      simp only at h
      cases hr : ctRun song root n s1 with
      | none => rw [hr] at h; simp at h
      | some r2 =>
        rw [hr] at h
        simp only [Option.map_some, Option.some.injEq, Prod.mk.injEq] at h
        rw [← h.1]
        apply ih s1 r2.1 r2.2 (by rw [hr])
        unfold ctTick at ht
        cases hc : ctSettle song root settleFuel (ctDec s).1 with
        | none => rw [hc] at ht; simp at ht
        | some q =>
          rw [hc] at ht
          simp only [Option.map_some, Option.some.injEq, Prod.mk.injEq] at ht
          rw [← ht.1]
          apply hsettle settleFuel (ctDec s).1 q.1 q.2 (by rw [hc])
          unfold ctDec
          split
          · exact htime s.acc _ _ _ hi
          · split
            · exact htime s.acc _ _ _ hi
            · exact hi

theorem ctRun_jumpInv (n : Nat) (s s' : PState) (ws : List (List Event)) (h : ctRun song root n s = some (s', ws))
    (hi : JumpInv s.acc) : JumpInv s'.acc :=
  ctRun_accInv song root JumpInv (step_jumpInv song root) (fun _ _ _ _ h => h) n s s' ws h hi

end

theorem resetLoopCh_jumpInv (c : Ch) (h : JumpInv c.ps.acc) : JumpInv (resetLoopCh c).ps.acc := by
  unfold resetLoopCh
  simp only
  split
  · intro _; simp
  · exact h

theorem resetLoopCh_countInv (c : Ch) (h : CountInv c.ps.acc) : CountInv (resetLoopCh c).ps.acc := by
  unfold resetLoopCh
  simp only
  split
  · rename_i hne
    intro hh
    simp only at hh
    exact absurd (h hh).1 hne
  · exact h

/-- `get_loop_count()` of a driver with one channel that has read no loop point -/
theorem loopCount_single (s : Drv) (c : Ch) (hc : s.chans = [c]) (hi : CountInv c.ps.acc) (hp : c.ps.acc.loopPosition = -1) :
    loopCount s = if c.enabled then -1 else intMax := by
  obtain ⟨i1, i2, _⟩ := hi hp
  unfold loopCount
  rw [hc]
  simp only [List.isEmpty_cons, Bool.false_eq_true, if_false, List.foldl_cons, List.foldl_nil, loopCountOf, i1, i2]
  by_cases he : c.enabled = true
  · simp only [he, true_and, if_true, intMax]
    decide
  · simp [he]

/-! ### the looping list machine without loop point -/
theorem fetchPass_noseg (t : Nat) (lp : Option (List Item)) (lt : Int) : ∀ (items : List Item),
    (∀ i ∈ items, i.src.kind ≠ .segno) →
    (fetchPass t lp lt items).loop = lp ∧ (fetchPass t lp lt items).loopT = lt ∧
      ∀ i ∈ (fetchPass t lp lt items).rest, i.src.kind ≠ .segno
  | [], _ => ⟨rfl, rfl, by simp [fetchPass]⟩
  | i :: is, h => by
    have hk : i.src.kind ≠ .segno := h i (by simp)
    have ih := fetchPass_noseg t lp lt is (fun x hx => h x (by simp [hx]))
    unfold fetchPass
    simp only [hk, if_false]
    split
    · exact ih
    · exact ⟨rfl, rfl, fun x hx => h x (by simp [hx])⟩

/-- a machine that has read no loop point and has none ahead never gets one -/
def NoLoop (m : LX) : Prop := m.loop = none ∧ ∀ i ∈ m.rest, i.src.kind ≠ .segno

theorem lxTick_noLoop (m : LX) (h : NoLoop m) : NoLoop (lxTick m).1 := by
  have hfetch : ∀ m' : LX, NoLoop m' → NoLoop (lxFetch m').1 := by
    intro m' h'
    obtain ⟨f1, f2, f3⟩ := fetchPass_noseg m'.t m'.loop m'.loopT m'.rest h'.2
    unfold lxFetch
    simp only
    split
    · exact ⟨by simp only; rw [f1]; exact h'.1, f3⟩
    · rw [f1, h'.1]
      exact ⟨rfl, by simp [LX.finish]⟩
  unfold lxTick
  split
  · exact h
  · split
    · split
      · exact hfetch _ ⟨h.1, h.2⟩
      · exact ⟨h.1, h.2⟩
    · split
      · split
        · exact hfetch _ ⟨h.1, h.2⟩
        · exact ⟨h.1, h.2⟩
      · exact hfetch _ h

theorem lxAfter_noLoop : ∀ (n : Nat) (m : LX), NoLoop m → NoLoop (lxAfter n m)
  | 0, _, h => h
  | n + 1, m, h => lxAfter_noLoop n _ (lxTick_noLoop m h)

/-! ### one channel track without loop point: when the export stops, no loop marker -/
theorem updMark_nil_of (d : Data) (song : Song) (s0 : Drv) (k : Nat) (c' : Ch)
    (hc : (updRun d song (k + 1) s0).chans = [c']) (hl : c'.ps.acc.loopCount = -1) : updMark d song s0 k = [] := by
  unfold updMark
  have hrun : (updRun d song (k + 1) s0).chans = (stepLoop (seqUpdate d song (updRun d song k s0)).1).1.chans := rfl
  rw [hrun] at hc
  generalize (seqUpdate d song (updRun d song k s0)).1 = x at hc ⊢
  unfold stepLoop at hc ⊢
  split
  · rename_i hcond
    exfalso
    rw [if_pos hcond] at hc
    simp only at hc
    cases hx : x.chans with
    | nil => rw [hx] at hc; simp at hc
    | cons c1 r =>
      rw [hx] at hc
      simp only [List.map_cons, List.cons.injEq, List.map_eq_nil_iff] at hc
      obtain ⟨hc1, hr⟩ := hc
      have hlc := hcond.2
      unfold loopCount at hlc
      rw [hx, hr] at hlc
      simp only [List.isEmpty_cons, Bool.false_eq_true, if_false, List.foldl_cons, List.foldl_nil] at hlc
      have h0 : loopCountOf c1.ps = 0 := by
        split at hlc
        · exact hlc
        · simp [intMax] at hlc
      have hne : c1.ps.acc.loopCount ≠ -1 := by
        intro h; unfold loopCountOf at h0; rw [h] at h0; omega
      have : (resetLoopCh c1).ps.acc.loopCount = 0 := by
        unfold resetLoopCh; simp only [hne, ne_eq, not_false_eq_true, if_true]
      rw [hc1, hl] at this
      omega
  · rfl

section
variable (d : Data) (song : Song) (root : List Event)

/-- **One channel track without loop point**: along an export without error the machine never
gets a loop point, the export's stop condition after `k` updates is "the machine has stopped",
and no update writes a loop marker. -/
theorem single_noloop (id : Nat) (hsingle : SingleTrack song id root)
    (cEnd : Core) (B : Nat) (hend : EndOK song root cEnd) (hB : 2 * B + 2 ≤ settleFuel)
    (hpl : PlainHooks song root) (m0 : LX) (hnl : NoLoop m0)
    (hrel0 : RelX song root cEnd B ⟨⟨.root, 0, []⟩, {}⟩ m0)
    (k : Nat) (herr : ∀ j, j ≤ k → (updRun d song j (playSong d song).1).g.err = none) :
    (stopCond (updRun d song k (playSong d song).1) ↔
      (lxAfter (updRun d song k (playSong d song).1).ticks m0).enabled = false) ∧
    (∀ j, j < k → updMark d song (playSong d song).1 j = []) := by
  obtain ⟨b0, v0, c0, a0⟩ := mkCh_base d root id
  have hinv : ∀ j, j ≤ k → ∃ c, (updRun d song j (playSong d song).1).chans = [c] ∧
      (Base root c ∧ VarsOK c ∧ CountInv c.ps.acc) ∧
      RelX song root cEnd B ⟨c.ps.core, c.ps.acc⟩ (lxAfter (updRun d song j (playSong d song).1).ticks m0) := by
    intro j hj
    exact single_inv d song root id hsingle cEnd B hend hB
      (fun c => Base root c ∧ VarsOK c ∧ CountInv c.ps.acc)
      (fun c hc => by
        obtain ⟨r1, r2, r3, r4, r5, r6, r7, _⟩ := resetLoopCh_same c
        exact ⟨⟨r2.trans hc.1.root, r4.trans hc.1.err, by rw [r5]; exact hc.1.drum⟩,
          ⟨by rw [r5]; exact hc.2.1.1, by rw [r5]; exact hc.2.1.2⟩, resetLoopCh_countInv c hc.2.2⟩)
      (fun n g c s' ws hc hg hrun => by
        rcases chUpdate_tempo d song root hpl n g c hc.1 hc.2.1 hg s' ws hrun with h | ⟨a1, a2, a3, a4, _⟩
        · exact Or.inl h
        · refine Or.inr ⟨a1, a2, a3, a4, ?_⟩
          rw [a2]; exact ctRun_countInv song root n _ s' ws hrun hc.2.2)
      ⟨b0, v0, by rw [a0]; intro _; exact ⟨rfl, rfl, rfl⟩⟩ m0 (by rw [c0, a0]; exact hrel0) j
      (fun i hi => herr i (by omega))
  have hcount : ∀ j, j ≤ k → ∃ c, (updRun d song j (playSong d song).1).chans = [c] ∧ c.ps.acc.loopCount = -1 ∧
      c.ps.acc.loopPosition = -1 ∧ CountInv c.ps.acc ∧
      c.enabled = (lxAfter (updRun d song j (playSong d song).1).ticks m0).enabled := by
    intro j hj
    obtain ⟨c, hc, ⟨_, _, hci⟩, hrel⟩ := hinv j hj
    have hnone := (lxAfter_noLoop (updRun d song j (playSong d song).1).ticks m0 hnl).1
    have hlr := hrel.2.2.2.2.2.2.1
    rw [hnone] at hlr
    have hp : c.ps.acc.loopPosition = -1 := hlr
    exact ⟨c, hc, (hci hp).1, hp, hci, hrel.1⟩
  constructor
  · obtain ⟨c, hc, _, hp, hci, hen⟩ := hcount k (Nat.le_refl _)
    have hlc := loopCount_single _ c hc hci hp
    unfold stopCond
    rw [hlc]
    have hplay : isPlaying (updRun d song k (playSong d song).1) = c.enabled := by
      unfold isPlaying; rw [hc]; simp
    rw [hplay, ← hen]
    cases he : c.enabled with
    | true => simp [vgm_export_num_loops]
    | false => simp
  · intro j hj
    obtain ⟨c', hc', hl, _, _, _⟩ := hcount (j + 1) (by omega)
    exact updMark_nil_of d song _ j c' hc' hl

/-- **One channel track, any loop structure**: the export's stop condition can only hold once the
machine has stopped or has jumped back to the loop point at least once. -/
theorem single_stop_after_pass (id : Nat) (hsingle : SingleTrack song id root)
    (cEnd : Core) (B : Nat) (hend : EndOK song root cEnd) (hB : 2 * B + 2 ≤ settleFuel)
    (hpl : PlainHooks song root) (m0 : LX)
    (hrel0 : RelX song root cEnd B ⟨⟨.root, 0, []⟩, {}⟩ m0)
    (k : Nat) (herr : ∀ j, j ≤ k → (updRun d song j (playSong d song).1).g.err = none)
    (hstop : stopCond (updRun d song k (playSong d song).1)) :
    (lxAfter (updRun d song k (playSong d song).1).ticks m0).enabled = false ∨
      (lxAfter (updRun d song k (playSong d song).1).ticks m0).lastJump ≠ -1 := by
  obtain ⟨b0, v0, c0, a0⟩ := mkCh_base d root id
  obtain ⟨c, hc, ⟨_, _, hji⟩, hrel⟩ := single_inv d song root id hsingle cEnd B hend hB
      (fun c => Base root c ∧ VarsOK c ∧ JumpInv c.ps.acc)
      (fun c hc => by
        obtain ⟨r1, r2, r3, r4, r5, r6, r7, _⟩ := resetLoopCh_same c
        exact ⟨⟨r2.trans hc.1.root, r4.trans hc.1.err, by rw [r5]; exact hc.1.drum⟩,
          ⟨by rw [r5]; exact hc.2.1.1, by rw [r5]; exact hc.2.1.2⟩, resetLoopCh_jumpInv c hc.2.2⟩)
      (fun n g c s' ws hc hg hrun => by
        rcases chUpdate_tempo d song root hpl n g c hc.1 hc.2.1 hg s' ws hrun with h | ⟨a1, a2, a3, a4, _⟩
        · exact Or.inl h
        · refine Or.inr ⟨a1, a2, a3, a4, ?_⟩
          rw [a2]; exact ctRun_jumpInv song root n _ s' ws hrun hc.2.2)
      ⟨b0, v0, by rw [a0]; intro _; decide⟩ m0 (by rw [c0, a0]; exact hrel0) k herr
  have hen : c.ps.acc.enabled = (lxAfter (updRun d song k (playSong d song).1).ticks m0).enabled := hrel.1
  have hlj : c.ps.acc.lastLoopJump = (lxAfter (updRun d song k (playSong d song).1).ticks m0).lastJump := hrel.2.2.2.2.2.1
  cases he : (lxAfter (updRun d song k (playSong d song).1).ticks m0).enabled with
  | false => exact Or.inl rfl
  | true =>
    right
    rw [he] at hen
    unfold stopCond at hstop
    have hplay : isPlaying (updRun d song k (playSong d song).1) = true := by
      unfold isPlaying; rw [hc]; simp [Ch.enabled, hen]
    rw [hplay] at hstop
    rcases hstop with h | h
    · simp at h
    · unfold loopCount at h
      rw [hc] at h
      simp only [List.isEmpty_cons, Bool.false_eq_true, if_false, List.foldl_cons, List.foldl_nil, Ch.enabled, hen, true_and] at h
      have hlc : c.ps.acc.loopCount ≥ 1 := by
        unfold loopCountOf at h
        simp only [vgm_export_num_loops] at h
        have hI : intMax = 2147483647 := rfl
        by_cases hlt : min c.ps.acc.loopResetCount c.ps.acc.loopCount < intMax
        · rw [if_pos hlt] at h; omega
        · omega
      intro hh
      have := hji (hlj.trans hh)
      omega

end

end Ctrmml.MdDriver
