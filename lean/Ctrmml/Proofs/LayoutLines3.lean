/-
  Helper lemmas for C06, round 5 (no property statements here): the whole-line files of round 3
  (Proofs/LayoutLine2, Proofs/LayoutLines2) replayed over the look-ahead condition `L3.LCmdTail`
  (Proofs/LayoutCmd3: the bare echo `\` before blanks or the end of the line included).  Namespace
  `Ctrmml.Mml.L2.W`: every notion that does not mention the look-ahead condition (`L2.LCovered`,
  `L2.CmdsOk`, `L2.runCmds`, `L2.Stop`, `L2.LineRes`, …) is the one of round 3; `ToksOk`, `LineOk`,
  `LinesOk` and the theorems over them are restated.  With the transfer `L2.ToksOk ⇒ W.ToksOk` (no side
  condition) and the `Decidable` instances.
-/
import Ctrmml.Proofs.LayoutCmd3
import Ctrmml.Proofs.LayoutDec2
import Ctrmml.Proofs.LayoutBlockLines2
namespace Ctrmml.Mml.L2.W
open Ctrmml.Tables Ctrmml.Lexer Ctrmml.TrackBuilder
open Ctrmml.MmlMeaning (Num Dur Acc Cmd)
open Ctrmml.Layout (Addr)

/-- blank tokens are a space or a tab; each command's look-ahead condition `L3.LCmdTail` holds on
the actual rest of the line -/
def ToksOk : List Tok → List Nat → Prop
  | [], _ => True
  | .blank b :: ts, e => (b = 32 ∨ b = 9) ∧ ToksOk ts e
  | .bar :: ts, e => ToksOk ts e
  | .cmd c :: ts, e => Ctrmml.Mml.L3.LCmdTail c (toksText ts e) ∧ ToksOk ts e

theorem toksOk_drop (ts : List Tok) (e : List Nat) (h : ToksOk ts e) : ∀ j, ToksOk (ts.drop j) e := by
  induction ts with
  | nil => intro j; simpa using h
  | cons t ts ih =>
    intro j
    cases j with
    | zero => exact h
    | succ j =>
      simp only [List.drop_succ_cons]
      cases t with
      | blank b => exact ih h.2 j
      | bar => exact ih h j
      | cmd c => exact ih h.2 j

/-- the shape of a line tail: its leading blanks, then nothing or a byte that starts no number -/
theorem toks_shape (ts : List Tok) (e : List Nat) (hok : ToksOk ts e) (hcov : ∀ c ∈ cmdsOf ts, LCovered c) (he : StopEnd e) :
    ∃ bl rest, toksText ts e = bl ++ rest ∧ bl.length = leadBlanks ts ∧ (∀ b ∈ bl, b = 32 ∨ b = 9) ∧
      (rest = [] ∨ ∃ c r, rest = c :: r ∧ Stop c) := by
  induction ts with
  | nil => exact ⟨[], e, rfl, rfl, fun b hb => by simp at hb, he⟩
  | cons t ts ih =>
    cases t with
    | blank b =>
      obtain ⟨bl, rest, h1, h2, h3, h4⟩ := ih hok.2 hcov
      refine ⟨b :: bl, rest, by simp [toksText, Tok.bytes, h1], by simp [leadBlanks, h2], ?_, h4⟩
      intro x hx
      simp at hx
      rcases hx with rfl | hx
      · exact hok.1
      · exact h3 x hx
    | bar =>
      exact ⟨[], 124 :: toksText ts e, rfl, rfl, fun b hb => by simp at hb, Or.inr ⟨124, _, rfl, by simp [Stop]⟩⟩
    | cmd c =>
      obtain ⟨ch, r, hcr, hch⟩ := lcovered_head c (hcov c (by simp [cmdsOf]))
      refine ⟨[], c.bytes ++ toksText ts e, rfl, rfl, fun b hb => by simp at hb, Or.inr ⟨ch, r ++ toksText ts e, by rw [hcr]; rfl, ?_⟩⟩
      exact Or.inr (Or.inr (Or.inr (Or.inr (Or.inr hch))))

theorem toks_numSpan (ts : List Tok) (e : List Nat) (hok : ToksOk ts e) (hcov : ∀ c ∈ cmdsOf ts, LCovered c) (he : StopEnd e) :
    numSpan (toksText ts e) = (none, leadBlanks ts) := by
  obtain ⟨bl, rest, h1, h2, h3, h4⟩ := toks_shape ts e hok hcov he
  rw [h1, numSpan_stop bl h3 rest h4, h2]

/-- `parse_mml_track` over a segment: any layout of a covered command list, up to a continuation
`e` that starts with a byte at which no number can begin.  The run equals the run from the state
behind the segment (with enough fuel left), where the track is, up to source references, as after
the builder calls of the commands in order; nothing but the cursor and the current track changed. -/
theorem parse_seg : ∀ (n : Nat) (ts : List Tok), ts.length ≤ n → ∀ (e : List Nat) (f : Nat) (s : MmlState), Sane s → StopEnd e → s.conditionalBlock = false →
    suffix s = toksText ts e → ToksOk ts e → CmdsOk (getTrack s).strip (cmdsOf ts) → (toksText ts e).length + 1 ≤ f →
    ∃ s' f', parseMmlTrackF f s = parseMmlTrackF f' s' ∧ e.length + 1 ≤ f' ∧ suffix s' = e ∧ Sane s' ∧ Moved s s' ∧
      (getTrack s').strip = runCmds (getTrack s).strip (cmdsOf ts) := by
  intro n
  induction n with
  | zero =>
    intro ts hlen e f s hs _ _ hsuf _ _ hf
    have : ts = [] := by cases ts <;> simp_all
    subst this
    exact ⟨s, f, rfl, hf, hsuf, hs, Moved.refl s, rfl⟩
  | succ n ih =>
    intro ts hlen e f s hs he hcb hsuf hok hcmds hf
    cases ts with
    | nil => exact ⟨s, f, rfl, hf, hsuf, hs, Moved.refl s, rfl⟩
    | cons t ts =>
      have hlen' : ts.length ≤ n := by simp at hlen; omega
      obtain ⟨f', rfl⟩ : ∃ f', f = f' + 1 := ⟨f - 1, by omega⟩
      cases t with
      | blank b =>
        have hsuf' : suffix s = b :: toksText ts e := hsuf
        have hs1 : Sane (adv s 1) := sane_adv s hs 1 (by rw [hsuf']; simp)
        obtain ⟨s', f2, h1, hf2, hsf, hsn, h2, h3⟩ := ih ts hlen' e (f' + 1) (adv s 1) hs1 he hcb (by rw [suffix_adv, hsuf']; rfl) hok.2 hcmds
          (by simp [toksText, Tok.bytes] at hf; omega)
        refine ⟨s', f2, ?_, hf2, hsf, hsn, Moved.trans ⟨1, Or.inl rfl⟩ h2, h3⟩
        rw [parseF_blank_step f' s b _ hsuf' (blank_isBlank b hok.1)]; exact h1
      | bar =>
        have hsuf' : suffix s = 124 :: toksText ts e := hsuf
        have hs1 : Sane (adv s 1) := sane_adv s hs 1 (by rw [hsuf']; simp)
        obtain ⟨s', f2, h1, hf2, hsf, hsn, h2, h3⟩ := ih ts hlen' e f' (adv s 1) hs1 he hcb (by rw [suffix_adv, hsuf']; rfl) hok hcmds
          (by simp [toksText, Tok.bytes] at hf; omega)
        refine ⟨s', f2, ?_, hf2, hsf, hsn, Moved.trans ⟨1, Or.inl rfl⟩ h2, h3⟩
        rw [parseF_bar_step f' s _ hsuf']; exact h1
      | cmd c =>
        obtain ⟨hcov, hnum, hrest⟩ : LCovered c ∧ LCmdNums (getTrack s).strip c ∧ CmdsOk (lcmdTrack (getTrack s).strip c) (cmdsOf ts) := hcmds
        obtain ⟨T, hT⟩ : ∃ T, T = toksText ts e := ⟨_, rfl⟩
        have hsuf' : suffix s = c.bytes ++ T := by rw [hT]; exact hsuf
        have htail : Ctrmml.Mml.L3.LCmdTail c T := by rw [hT]; exact hok.1
        have hstep := Ctrmml.Mml.L3.lcmd_step f' s hs c T hcov hcb hsuf' hnum htail
        obtain ⟨t2, ht2⟩ : ∃ t2, t2 = lcmdTrack ((getTrack s).setReference (some { line := s.inp.line, column := s.inp.lb.column })) c := ⟨_, rfl⟩
        rw [← ht2] at hstep
        have hst2 : t2.strip = lcmdTrack (getTrack s).strip c := by rw [ht2, strip_lcmdTrack _ _ hcov, Track.strip_setReference]
        have hcovs : ∀ x ∈ cmdsOf ts, LCovered x := cmdsOk_covered _ _ hrest
        have hns : numSpan T = (none, leadBlanks ts) := by rw [hT]; exact toks_numSpan ts e hok.2 hcovs he
        have hskip : lcmdSkip c T ≤ leadBlanks ts := by
          rcases lcmdSkip_cases c T hcov with h | h
          · omega
          · rw [h, hns]; exact Nat.le_refl _
        obtain ⟨hdrop, hcmdsdrop⟩ := toks_drop_lead ts e (lcmdSkip c T) hskip
        have hle : leadBlanks ts ≤ T.length := by rw [hT]; exact leadBlanks_le ts e
        obtain ⟨ch, r, hcr, _⟩ := lcovered_head c hcov
        have hcl : 1 ≤ c.bytes.length := by rw [hcr]; simp
        obtain ⟨s2, hs2⟩ : ∃ s2, s2 = adv (setTrack s t2) (c.bytes.length + lcmdSkip c T) := ⟨_, rfl⟩
        rw [← hs2] at hstep
        have hsane2 : Sane s2 := by
          rw [hs2]; exact sane_adv _ (sane_setTrack _ _ hs) _ (by rw [suffix_setTrack, hsuf']; simp; omega)
        have hsuf2 : suffix s2 = toksText (ts.drop (lcmdSkip c T)) e := by
          rw [hs2, suffix_adv, suffix_setTrack, hsuf', ← List.drop_drop, ← hdrop, hT]; simp
        have hgt2 : getTrack s2 = t2 := by rw [hs2, getTrack_adv]; exact getTrack_setTrack _ _
        obtain ⟨s', f2, h1, hf2, hsf, hsn, h2, h3⟩ := ih (ts.drop (lcmdSkip c T)) (by simp; omega) e f' s2 hsane2 he (by rw [hs2]; exact hcb) hsuf2
          (toksOk_drop ts e hok.2 _) (by rw [hgt2, hst2, hcmdsdrop]; exact hrest)
          (by
            rw [← hdrop, ← hT]
            have : (toksText (Tok.cmd c :: ts) e).length = c.bytes.length + T.length := by simp [toksText, Tok.bytes, hT]
            rw [this] at hf
            simp only [List.length_drop]; omega)
        refine ⟨s', f2, by rw [hstep]; exact h1, hf2, hsf, hsn, Moved.trans ⟨c.bytes.length + lcmdSkip c T, Or.inr ⟨t2, hs2⟩⟩ h2, ?_⟩
        rw [h3, hgt2, hst2, hcmdsdrop]; rfl

/-- `parse_mml_track` on any layout of a covered command list up to the end of the line: the track
ends, up to source references, as after the builder calls of the commands in order; nothing but
the cursor and the current track changes -/
theorem parse_toks (n : Nat) (ts : List Tok) (_hn : ts.length ≤ n) (e : List Nat) (f : Nat) (s : MmlState) (hs : Sane s) (he : EndOk e) (hcb : s.conditionalBlock = false)
    (hsuf : suffix s = toksText ts e) (hok : ToksOk ts e) (hcmds : CmdsOk (getTrack s).strip (cmdsOf ts))
    (hf : (toksText ts e).length + 1 ≤ f) :
    ∃ s', parseMmlTrackF f s = .ok () s' ∧ Moved s s' ∧ (getTrack s').strip = runCmds (getTrack s).strip (cmdsOf ts) := by
  obtain ⟨s1, f1, h1, hf1, hsf, _, hm1, ht1⟩ := parse_seg ts.length ts (Nat.le_refl _) e f s hs (stopEnd_of_endOk he) hcb hsuf hok hcmds hf
  obtain ⟨s', h2, hm2, ht2⟩ := parse_toks_nil e f1 s1 he hsf (by omega)
  exact ⟨s', by rw [h1]; exact h2, hm1.trans hm2, by rw [ht2]; exact ht1⟩

theorem parseMmlLoop_toks (ts : List Tok) (e : List Nat) (col : Nat) (he : EndOk e) (hok : ToksOk ts e) :
    ∀ (ids : List Nat) (i : Nat) (s : MmlState), Bytes s.inp.lb.buf → col ≤ s.inp.lb.buf.length →
    s.inp.lb.buf.drop col = toksText ts e → ids.Nodup → (∀ id ∈ ids, CmdsOk (trackOf id s).strip (cmdsOf ts)) →
    ∃ s', parseMmlLoop col i ids s = .ok () s' ∧ LoopKeeps s s' ∧
      (∀ id ∈ ids, (trackOf id s').strip = runCmds (trackOf id s).strip (cmdsOf ts)) ∧
      (∀ b, b ∉ ids → s'.song.tracks.lookup b = s.song.tracks.lookup b) := by
  intro ids
  induction ids with
  | nil => intro i s _ _ _ _ _; exact ⟨s, rfl, LoopKeeps.refl s, fun id h => by simp at h, fun _ _ => rfl⟩
  | cons id rest ih =>
    intro i s hbytes hcol hdrop hnd hcmds
    obtain ⟨s1, hs1⟩ : ∃ s1 : MmlState, s1 = { setLb s (s.inp.lb.seek col) with trackId := id, trackOffset := i % 65536, song := (setLb s (s.inp.lb.seek col)).song.makeTrack id, conditionalBlock := false } := ⟨_, rfl⟩
    have hsane1 : Sane s1 := by rw [hs1]; exact ⟨hbytes, hcol⟩
    have hsuf1 : suffix s1 = toksText ts e := by rw [hs1]; exact hdrop
    have hmk := makeTrack_lookup s.song id
    have hgt1 : getTrack s1 = trackOf id s := by
      rw [hs1]; unfold getTrack trackOf
      show (List.lookup id (s.song.makeTrack id).tracks).getD (Track.new (s.song.makeTrack id).ppqn) = _
      rw [hmk.1, hmk.2]; rfl
    have hfuel : (toksText ts e).length + 1 ≤ trackFuel s1 := by
      have h1 := suffix_length s1
      rw [hsuf1] at h1
      unfold trackFuel
      have := hsane1.inl
      omega
    obtain ⟨s2, hp, hmv, hres⟩ := parse_toks ts.length ts (Nat.le_refl _) e (trackFuel s1) s1 hsane1 he (by rw [hs1]) hsuf1 hok
      (by rw [hgt1]; exact hcmds id (by simp)) hfuel
    have hctl := hmv.ctl
    have hpt : parseMmlTrack s1 = .ok () s2 := by
      unfold parseMmlTrack; rw [bind_ok (getS_run s1)]; exact hp
    have hcond : s2.conditionalBlock = false := by rw [hctl.cond, hs1]
    have hid1 : s1.trackId = id := by rw [hs1]
    have hlk12 : ∀ b, b ≠ id → s2.song.tracks.lookup b = s.song.tracks.lookup b := by
      intro b hb
      rw [hctl.others b (by rw [hid1]; exact hb), hs1]
      exact lookup_makeTrack_ne b id s.song hb
    have hppqn2 : s2.song.ppqn = s.song.ppqn := by rw [hctl.ppqn, hs1]; exact hmk.2
    have hkeep2 : LoopKeeps s s2 := ⟨hctl.trackList.trans (by subst hs1; rfl), hctl.lastCmd.trans (by subst hs1; rfl), hppqn2,
      hctl.line.trans (by subst hs1; rfl), hctl.buf.trans (by subst hs1; rfl)⟩
    have hnd' := List.nodup_cons.mp hnd
    obtain ⟨s', hloop, hkeep, hall, hfr⟩ := ih (i + 1) s2 (by rw [hkeep2.buf]; exact hbytes) (by rw [hkeep2.buf]; exact hcol)
      (by rw [hkeep2.buf]; exact hdrop) hnd'.2
      (fun id' hid' => by
        have hne : id' ≠ id := fun e => hnd'.1 (e ▸ hid')
        rw [trackOf_congr id' s s2 (hlk12 id' hne) hppqn2]
        exact hcmds id' (by simp [hid']))
    refine ⟨s', ?_, hkeep2.trans hkeep, ?_, ?_⟩
    · rw [parseMmlLoop_cons, ← hs1, hpt]
      simp only [hcond, Bool.false_eq_true, if_false]
      exact hloop
    · intro x hx
      simp at hx
      rcases hx with rfl | hx
      · rw [trackOf_congr x s2 s' (hfr x hnd'.1) hkeep.ppqn]
        have : trackOf x s2 = getTrack s2 := by unfold trackOf getTrack; rw [hctl.trackId, hid1]
        rw [this, hres, hgt1]
      · have hne : x ≠ id := fun e => hnd'.1 (e ▸ hx)
        rw [hall x hx, trackOf_congr x s s2 (hlk12 x hne) hppqn2]
    · intro b hb
      simp at hb
      rw [hfr b hb.2, hlk12 b hb.1]

/-- behind the header (or at the start of a continuation line) one blank is required; then the
blanks are skipped and, unless the line ends there, `parse_mml` runs from the first other byte -/
theorem lineTail_toks (s : MmlState) (hs : Sane s) (b : Nat) (hb : b = 32 ∨ b = 9) (ts : List Tok) (e : List Nat)
    (hok : ToksOk ts e) (hcov : ∀ c ∈ cmdsOf ts, LCovered c) (he : EndOk e)
    (hsuf : suffix s = b :: toksText ts e) (hl : s.lastCmd = .parseMml) :
    lineTail s =
      if toksText (ts.drop (leadBlanks ts)) e = [] then .ok () (adv s (1 + leadBlanks ts))
      else parseMmlLoop (s.inp.lb.column + (1 + leadBlanks ts)) 0 s.trackList (adv s (1 + leadBlanks ts)) := by
  obtain ⟨bl, rest, h1, h2, h3, h4⟩ := toks_shape ts e hok hcov (stopEnd_of_endOk he)
  have hrest : toksText (ts.drop (leadBlanks ts)) e = rest := by
    rw [← (toks_drop_lead ts e (leadBlanks ts) (Nat.le_refl _)).1, h1, ← h2]; simp
  have hs1 : Sane (adv s 1) := sane_adv s hs 1 (by rw [hsuf]; simp)
  have hsuf1 : suffix (adv s 1) = bl ++ rest := by rw [suffix_adv, hsuf, ← h1]; rfl
  have hs2 : Sane (adv (adv s 1) bl.length) := sane_adv _ hs1 _ (by rw [hsuf1]; simp)
  have hsuf2 : suffix (adv (adv s 1) bl.length) = rest := suffix_adv_append _ _ _ hsuf1
  unfold lineTail
  rw [bind_ok (getC_cons s b _ hsuf)]
  simp only [blank_isBlank b hb, if_true]
  rw [bind_apply, getTokenC_eq, hsuf1, countBlanks_shape bl rest h3 h4, hrest, ← h2]
  rcases h4 with rfl | ⟨c, r, rfl, hc⟩
  · rw [getC_nil _ hsuf2]
    simp only []
    rw [bind_ok (ungetC_zero _)]
    simp only [adv_adv]
    rfl
  · have hrg := (stop_props c hc).1
    rw [getC_cons _ c r hsuf2]
    simp only []
    rw [bind_ok (ungetC_same _ hs2.bytes c r hsuf2), schar_small c hrg.2]
    have hc0 : ((c : Int) == 0) = false := by
      have : ¬ ((c : Int) = 0) := by omega
      simpa using this
    simp only [hc0, Bool.false_eq_true, if_false, reduceCtorEq]
    unfold runLastCmd
    rw [bind_ok (getS_run _)]
    simp only [adv_adv]
    have hl2 : (adv s (1 + bl.length)).lastCmd = .parseMml := hl
    simp only [hl2]
    rfl

/-- from the blank behind the header (or at the start of a continuation line) to the end of the line -/
theorem lineTail_run (ids : List Nat) (s : MmlState) (hs : Sane s) (b : Nat) (hb : b = 32 ∨ b = 9) (ts : List Tok) (e : List Nat)
    (hok : ToksOk ts e) (he : EndOk e) (hsuf : suffix s = b :: toksText ts e) (hready : Ready ids s) (hnd : ids.Nodup)
    (hcmds : ∀ id ∈ ids, CmdsOk (trackOf id s).strip (cmdsOf ts)) (hne : ids ≠ []) :
    ∃ s', lineTail s = .ok () s' ∧ LineRes ids (cmdsOf ts) s s' ∧ Ready ids s' := by
  obtain ⟨id0, hid0⟩ : ∃ id0, id0 ∈ ids := by
    cases ids with
    | nil => exact absurd rfl hne
    | cons a _ => exact ⟨a, by simp⟩
  have hcov : ∀ c ∈ cmdsOf ts, LCovered c := cmdsOk_covered _ _ (hcmds id0 hid0)
  obtain ⟨hdrop, hcd⟩ := toks_drop_lead ts e (leadBlanks ts) (Nat.le_refl _)
  rw [lineTail_toks s hs b hb ts e hok hcov he hsuf hready.2]
  by_cases hnil : toksText (ts.drop (leadBlanks ts)) e = []
  · simp only [hnil, if_true]
    have hc0 : cmdsOf ts = [] := by rw [← hcd]; exact toksText_nil_cmds _ e hnil (by rw [hcd]; exact hcov)
    refine ⟨_, rfl, ⟨fun id _ => by rw [hc0]; rfl, fun _ _ => rfl, rfl⟩, hready⟩
  · simp only [hnil, if_false]
    have hle := leadBlanks_le ts e
    have hs4 : Sane (adv s (1 + leadBlanks ts)) := sane_adv s hs _ (by rw [hsuf]; simp; omega)
    have hsuf4 : suffix (adv s (1 + leadBlanks ts)) = toksText (ts.drop (leadBlanks ts)) e := by
      rw [suffix_adv, hsuf, ← hdrop, Nat.add_comm]; rfl
    obtain ⟨s', hp, hkeep, hall, hfr⟩ := parseMmlLoop_toks (ts.drop (leadBlanks ts)) e (s.inp.lb.column + (1 + leadBlanks ts)) he
      (toksOk_drop ts e hok _) s.trackList 0 (adv s (1 + leadBlanks ts)) hs4.bytes hs4.inl hsuf4
      (by rw [hready.1]; exact hnd) (by rw [hready.1, hcd]; exact hcmds)
    rw [hready.1, hcd] at hall
    rw [hready.1] at hfr
    exact ⟨s', hp, ⟨hall, hfr, hkeep.ppqn⟩, ⟨hkeep.trackList.trans hready.1, hkeep.lastCmd.trans hready.2⟩⟩

/-- a well-formed line addressed to the tracks `ids` -/
def LineOk (ids : List Nat) : LLine → Prop
  | .hdr as b ts e => as ≠ [] ∧ HeaderOk as ∧ as.map Addr.id = ids ∧ (b = 32 ∨ b = 9) ∧ ToksOk ts e ∧ EndOk e ∧
      Bytes (headerBytes as ++ b :: toksText ts e)
  | .cont b ts e => (b = 32 ∨ b = 9) ∧ ToksOk ts e ∧ EndOk e ∧ Bytes (b :: toksText ts e)
  | .empty => True
  | .comment _ => True

theorem readLine_hdr (ids : List Nat) (as : List Addr) (b : Nat) (ts : List Tok) (e : List Nat) (n : Nat) (s : MmlState)
    (hok : LineOk ids (.hdr as b ts e)) (hnd : ids.Nodup) (hcmds : ∀ id ∈ ids, CmdsOk (trackOf id s).strip (cmdsOf ts)) :
    ∃ s', readLine (LLine.hdr as b ts e).text n s = .ok () s' ∧ LineRes ids (cmdsOf ts) s s' ∧ Ready ids s' := by
  obtain ⟨hne, hhdr, hids, hb, htoks, he, hbytes⟩ := hok
  obtain ⟨s0, hs0⟩ : ∃ s0 : MmlState, s0 = { s with inp := { lb := { buf := headerBytes as ++ b :: toksText ts e, column := 0 }, line := n } } := ⟨_, rfl⟩
  have hsane0 : Sane s0 := by rw [hs0]; exact ⟨hbytes, Nat.zero_le _⟩
  cases as with
  | nil => exact absurd rfl hne
  | cons a as' =>
    have hsuf0 : suffix s0 = addrBytes a ++ (headerBytes as' ++ b :: toksText ts e) := by
      rw [hs0, headerBytes_cons]; simp [suffix]
    have hget := getTrackId_addr s0 hsane0 a as' b _ hb hhdr hsuf0
    obtain ⟨s1, hs1⟩ : ∃ s1, s1 = adv s0 (addrBytes a).length := ⟨_, rfl⟩
    rw [← hs1] at hget
    have hsane1 : Sane s1 := by rw [hs1]; exact sane_adv s0 hsane0 _ (by rw [hsuf0]; simp)
    have hsuf1 : suffix s1 = headerBytes as' ++ b :: toksText ts e := by rw [hs1]; exact suffix_adv_append s0 _ _ hsuf0
    have hfuel : as'.length + 1 ≤ s1.inp.lb.buf.length + 2 := by
      have h1 := suffix_length s1
      rw [hsuf1] at h1
      have := headerBytes_length as'
      simp at h1; omega
    have hloop := trackListLoop_header as' (s1.inp.lb.buf.length + 2) (addrInt a) [] s1 hsane1 b _ hb hhdr.2.2 hsuf1 hfuel
    obtain ⟨s2, hs2⟩ : ∃ s2, s2 = adv s1 (headerBytes as').length := ⟨_, rfl⟩
    rw [← hs2] at hloop
    have hl : [] ++ [wrapU16 (addrInt a)] ++ as'.map Addr.id = ids := by
      rw [wrapU16_addrInt a hhdr.1, ← hids]; rfl
    rw [hl] at hloop
    obtain ⟨s3, hs3⟩ : ∃ s3 : MmlState, s3 = { s2 with trackList := ids, lastCmd := .parseMml } := ⟨_, rfl⟩
    have hpl : parseLine s0 = lineTail s3 := by rw [hs3]; exact parseLine_hdr s0 _ s1 ids s2 hget (addrInt_ne a) hloop
    have hsane2 : Sane s2 := by rw [hs2]; exact sane_adv s1 hsane1 _ (by rw [hsuf1]; simp)
    have hsuf2 : suffix s2 = b :: toksText ts e := by rw [hs2]; exact suffix_adv_append s1 _ _ hsuf1
    have hsane3 : Sane s3 := by rw [hs3]; exact ⟨hsane2.bytes, hsane2.inl⟩
    have hsuf3 : suffix s3 = b :: toksText ts e := by rw [hs3]; exact hsuf2
    have htr : ∀ id, trackOf id s3 = trackOf id s := by intro id; subst hs3 hs2 hs1 hs0; rfl
    have hne' : ids ≠ [] := by rw [← hids]; simp
    obtain ⟨s', hrun, hres, hready⟩ := lineTail_run ids s3 hsane3 b hb ts e htoks he hsuf3 (by rw [hs3]; exact ⟨rfl, rfl⟩) hnd
      (fun id hid => by rw [htr id]; exact hcmds id hid) hne'
    refine ⟨s', ?_, ⟨fun id hid => by rw [hres.tracks id hid, htr id], fun b' hb' => ?_, ?_⟩, hready⟩
    · show readLine (headerBytes (a :: as') ++ b :: toksText ts e) n s = _
      rw [readLine_start, ← hs0, hpl]; exact hrun
    · rw [hres.others b' hb']; subst hs3 hs2 hs1 hs0; rfl
    · rw [hres.ppqn]; subst hs3 hs2 hs1 hs0; rfl

theorem readLine_cont (ids : List Nat) (b : Nat) (ts : List Tok) (e : List Nat) (n : Nat) (s : MmlState)
    (hok : LineOk ids (.cont b ts e)) (hready : Ready ids s) (hnd : ids.Nodup) (hne : ids ≠ [])
    (hcmds : ∀ id ∈ ids, CmdsOk (trackOf id s).strip (cmdsOf ts)) :
    ∃ s', readLine (LLine.cont b ts e).text n s = .ok () s' ∧ LineRes ids (cmdsOf ts) s s' ∧ Ready ids s' := by
  obtain ⟨hb, htoks, he, hbytes⟩ := hok
  obtain ⟨s0, hs0⟩ : ∃ s0 : MmlState, s0 = { s with inp := { lb := { buf := b :: toksText ts e, column := 0 }, line := n } } := ⟨_, rfl⟩
  have hsane0 : Sane s0 := by rw [hs0]; exact ⟨hbytes, Nat.zero_le _⟩
  have hsuf0 : suffix s0 = b :: toksText ts e := by rw [hs0]; rfl
  have htr : ∀ id, trackOf id s0 = trackOf id s := by intro id; subst hs0; rfl
  obtain ⟨s', hrun, hres, hready'⟩ := lineTail_run ids s0 hsane0 b hb ts e htoks he hsuf0 (by rw [hs0]; exact hready) hnd
    (fun id hid => by rw [htr id]; exact hcmds id hid) hne
  refine ⟨s', ?_, ⟨fun id hid => by rw [hres.tracks id hid, htr id], fun b' hb' => ?_, ?_⟩, hready'⟩
  · show readLine (b :: toksText ts e) n s = _
    rw [readLine_start, ← hs0, parseLine_cont s0 hsane0 b _ hsuf0 hb]; exact hrun
  · rw [hres.others b' hb']; subst hs0; rfl
  · rw [hres.ppqn]; subst hs0; rfl

/-- every line is well formed for `ids`, and a continuation line comes only when the track list
and the command are remembered (`r`: they are at the start) -/
def LinesOk (ids : List Nat) : Bool → List LLine → Prop
  | _, [] => True
  | r, l :: ls => LineOk ids l ∧ (l.isCont = true → r = true) ∧ LinesOk ids (r || l.isHdr) ls

/-- a whole layout: every listed track receives the builder calls of the layout's commands, in
order; no other track changes -/
theorem readLines_layout (ids : List Nat) (hnd : ids.Nodup) (hne : ids ≠ []) : ∀ (ls : List LLine) (n : Nat) (s : MmlState) (r : Bool),
    LinesOk ids r ls → (r = true → Ready ids s) → (∀ id ∈ ids, CmdsOk (trackOf id s).strip (layoutCmds ls)) →
    ∃ s', readLines n (ls.map LLine.text) s = .ok () s' ∧ LineRes ids (layoutCmds ls) s s' := by
  intro ls
  induction ls with
  | nil => intro n s r _ _ _; exact ⟨s, rfl, ⟨fun _ _ => rfl, fun _ _ => rfl, rfl⟩⟩
  | cons l ls ih =>
    intro n s r hok hready hcmds
    obtain ⟨hline, hcont, hrest⟩ := hok
    have hsplit : ∀ id ∈ ids, CmdsOk (trackOf id s).strip l.cmds ∧ CmdsOk (runCmds (trackOf id s).strip l.cmds) (layoutCmds ls) := by
      intro id hid
      have := hcmds id hid
      simp only [layoutCmds, List.flatMap_cons] at this
      exact (cmdsOk_append _ _ _).mp this
    -- the line itself
    have hstep : ∃ s1, readLine l.text n s = .ok () s1 ∧ LineRes ids l.cmds s s1 ∧ ((r || l.isHdr) = true → Ready ids s1) := by
      cases l with
      | hdr as b ts e =>
        obtain ⟨s1, h1, h2, h3⟩ := readLine_hdr ids as b ts e n s hline hnd (fun id hid => (hsplit id hid).1)
        exact ⟨s1, h1, h2, fun _ => h3⟩
      | cont b ts e =>
        have hr : r = true := hcont rfl
        obtain ⟨s1, h1, h2, h3⟩ := readLine_cont ids b ts e n s hline (hready hr) hnd hne (fun id hid => (hsplit id hid).1)
        exact ⟨s1, h1, h2, fun _ => h3⟩
      | empty =>
        refine ⟨_, readLine_empty n s, ⟨fun _ _ => rfl, fun _ _ => rfl, rfl⟩, fun h => ?_⟩
        have hr : r = true := by simpa [LLine.isHdr] using h
        exact hready hr
      | comment c =>
        refine ⟨_, readLine_comment c n s, ⟨fun _ _ => rfl, fun _ _ => rfl, rfl⟩, fun h => ?_⟩
        have hr : r = true := by simpa [LLine.isHdr] using h
        exact hready hr
    obtain ⟨s1, h1, hres1, hready1⟩ := hstep
    obtain ⟨s', h2, hres2⟩ := ih (n + 1) s1 (r || l.isHdr) hrest hready1
      (fun id hid => by rw [hres1.tracks id hid]; exact (hsplit id hid).2)
    refine ⟨s', ?_, ?_⟩
    · show readLines n (l.text :: ls.map LLine.text) s = _
      rw [readLines_cons n _ _ s s1 h1]; exact h2
    · have := hres1.trans hres2
      simpa [layoutCmds] using this

/-! ### round 3 ⇒ here (no side condition) -/

theorem toksOk_of_v2 (ts : List Tok) (e : List Nat) (h : L2.ToksOk ts e) : ToksOk ts e := by
  induction ts with
  | nil => trivial
  | cons t ts ih =>
    cases t with
    | blank b => exact ⟨h.1, ih h.2⟩
    | bar => exact ih h
    | cmd c => exact ⟨Ctrmml.Mml.L3.lcmdTail_of_v2 c _ h.1, ih h.2⟩

theorem lineOk_of_v2 (ids : List Nat) (l : LLine) (h : L2.LineOk ids l) : LineOk ids l := by
  cases l with
  | hdr as b ts e =>
    obtain ⟨h1, h2, h3, h4, h5, h6, h7⟩ := h
    exact ⟨h1, h2, h3, h4, toksOk_of_v2 ts e h5, h6, h7⟩
  | cont b ts e =>
    obtain ⟨h1, h2, h3, h4⟩ := h
    exact ⟨h1, toksOk_of_v2 ts e h2, h3, h4⟩
  | empty => trivial
  | comment _ => trivial

theorem linesOk_of_v2 (ids : List Nat) (ls : List LLine) : ∀ (r : Bool), L2.LinesOk ids r ls → LinesOk ids r ls := by
  induction ls with
  | nil => intro r _; trivial
  | cons l ls ih =>
    intro r h
    exact ⟨lineOk_of_v2 ids l h.1, h.2.1, ih _ h.2.2⟩

/-! ### decidability -/

/-- `L3.BareTail` as a Boolean -/
def bareTailB : List Nat → Bool
  | [] => true
  | c :: r => if c = 32 ∨ c = 9 then bareTailB r else decide (L2.Stop c)

theorem bareTail_iff (tail : List Nat) : Ctrmml.Mml.L3.BareTail tail ↔ bareTailB tail = true := by
  constructor
  · rintro ⟨bl, rest, rfl, hbl, hrest⟩
    induction bl with
    | nil =>
      rcases hrest with rfl | ⟨c, r, rfl, hc⟩
      · rfl
      · have := (L2.stop_props c hc).1
        have hnb : ¬ (c = 32 ∨ c = 9) := by omega
        simp [bareTailB, hnb, hc]
    | cons b bl ih =>
      have hb := hbl b (by simp)
      simp only [List.cons_append, bareTailB, hb, if_true]
      exact ih (fun x hx => hbl x (by simp [hx]))
  · intro h
    induction tail with
    | nil => exact ⟨[], [], rfl, fun b hb => by simp at hb, Or.inl rfl⟩
    | cons c r ih =>
      by_cases hb : c = 32 ∨ c = 9
      · simp only [bareTailB, hb, if_true] at h
        obtain ⟨bl, rest, h1, h2, h3⟩ := ih h
        refine ⟨c :: bl, rest, by rw [h1]; rfl, ?_, h3⟩
        intro x hx
        simp at hx
        rcases hx with rfl | hx
        · exact hb
        · exact h2 x hx
      · simp only [bareTailB, hb, if_false, decide_eq_true_eq] at h
        exact ⟨[], c :: r, rfl, fun b hb => by simp at hb, Or.inr ⟨c, r, rfl, h⟩⟩

instance decBareTail (tail : List Nat) : Decidable (Ctrmml.Mml.L3.BareTail tail) := decidable_of_iff _ (bareTail_iff tail).symm

instance decLCmdTail3 : (c : Cmd) → (tail : List Nat) → Decidable (Ctrmml.Mml.L3.LCmdTail c tail)
  | .echo d, tail => inferInstanceAs (Decidable (DurTail d tail ∧ (EchoHead (d.bytes ++ tail) ∨ (d = .dflt 0 ∧ Ctrmml.Mml.L3.BareTail tail))))
  | .note l a d, tail => inferInstanceAs (Decidable (L2.LCmdTail (.note l a d) tail))
  | .rest d, tail => inferInstanceAs (Decidable (L2.LCmdTail (.rest d) tail))
  | .tie d, tail => inferInstanceAs (Decidable (L2.LCmdTail (.tie d) tail))
  | .slur, tail => inferInstanceAs (Decidable (L2.LCmdTail (.slur) tail))
  | .octave n, tail => inferInstanceAs (Decidable (L2.LCmdTail (.octave n) tail))
  | .octUp, tail => inferInstanceAs (Decidable (L2.LCmdTail (.octUp) tail))
  | .octDown, tail => inferInstanceAs (Decidable (L2.LCmdTail (.octDown) tail))
  | .length d, tail => inferInstanceAs (Decidable (L2.LCmdTail (.length d) tail))
  | .quantize n, tail => inferInstanceAs (Decidable (L2.LCmdTail (.quantize n) tail))
  | .early n, tail => inferInstanceAs (Decidable (L2.LCmdTail (.early n) tail))
  | .revRest d, tail => inferInstanceAs (Decidable (L2.LCmdTail (.revRest d) tail))
  | .grace l a d, tail => inferInstanceAs (Decidable (L2.LCmdTail (.grace l a d) tail))
  | .measure n, tail => inferInstanceAs (Decidable (L2.LCmdTail (.measure n) tail))
  | .shuffle n, tail => inferInstanceAs (Decidable (L2.LCmdTail (.shuffle n) tail))
  | .echoSet a b, tail => inferInstanceAs (Decidable (L2.LCmdTail (.echoSet a b) tail))
  | .keyScale nm, tail => inferInstanceAs (Decidable (L2.LCmdTail (.keyScale nm) tail))
  | .keyMod gs, tail => inferInstanceAs (Decidable (L2.LCmdTail (.keyMod gs) tail))
  | .drum n, tail => inferInstanceAs (Decidable (L2.LCmdTail (.drum n) tail))
  | .simple sm n, tail => inferInstanceAs (Decidable (L2.LCmdTail (.simple sm n) tail))
  | .bar, tail => inferInstanceAs (Decidable (L2.LCmdTail (.bar) tail))

instance decToksOk : (ts : List Tok) → (e : List Nat) → Decidable (ToksOk ts e)
  | [], _ => isTrue trivial
  | .blank b :: ts, e =>
    have := decToksOk ts e
    inferInstanceAs (Decidable ((b = 32 ∨ b = 9) ∧ ToksOk ts e))
  | .bar :: ts, e => decToksOk ts e
  | .cmd c :: ts, e =>
    have := decToksOk ts e
    inferInstanceAs (Decidable (Ctrmml.Mml.L3.LCmdTail c (toksText ts e) ∧ ToksOk ts e))

instance decLineOk (ids : List Nat) : (l : LLine) → Decidable (LineOk ids l)
  | .hdr as b ts e => inferInstanceAs (Decidable (as ≠ [] ∧ HeaderOk as ∧ as.map Addr.id = ids ∧ (b = 32 ∨ b = 9) ∧ ToksOk ts e ∧ EndOk e ∧
      Bytes (headerBytes as ++ b :: toksText ts e)))
  | .cont b ts e => inferInstanceAs (Decidable ((b = 32 ∨ b = 9) ∧ ToksOk ts e ∧ EndOk e ∧ Bytes (b :: toksText ts e)))
  | .empty => isTrue trivial
  | .comment _ => isTrue trivial

instance decLinesOk (ids : List Nat) : (r : Bool) → (ls : List LLine) → Decidable (LinesOk ids r ls)
  | _, [] => isTrue trivial
  | r, l :: ls =>
    have := decLinesOk ids (r || l.isHdr) ls
    inferInstanceAs (Decidable (LineOk ids l ∧ (l.isCont = true → r = true) ∧ LinesOk ids (r || l.isHdr) ls))

end Ctrmml.Mml.L2.W
