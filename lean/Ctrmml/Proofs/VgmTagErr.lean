/-
  Helper lemmas for C08: a tag that the UTF-8 → UTF-16 conversion rejects makes `write_tag` end
  in `std::range_error` (and nothing else goes wrong before it): the outcome `rangeError` of the
  writer model, which `Platform::vgm_export` turns into an `InputError`.
  No property statements here.
-/
import Ctrmml.Proofs.VgmInv
namespace Ctrmml.Vgm
open Ctrmml Ctrmml.VgmSpec

theorem addGd3All_bad (ts : List Bytes) (s : W) (hbad : ∃ t ∈ ts, ¬ Decodable t) (hk : s.pos + ts.length * 514 ≤ s.alloc) :
    addGd3All s ts = .error .rangeError := by
  induction ts generalizing s with
  | nil => obtain ⟨t, ht, _⟩ := hbad; cases ht
  | cons t ts ih =>
    rw [List.length_cons] at hk
    have hk1 : s.pos + 514 ≤ s.alloc := by omega
    have hk2 : s.pos + 514 + ts.length * 514 ≤ s.alloc := by omega
    clear hk
    unfold addGd3All addGd3
    cases hu : utf8ToUtf16 (cstr t) with
    | error e =>
      simp only []
      rw [utf8_err _ _ hu]
    | ok us =>
      simp only []
      have hgu : gd3Units t = us.take gd3MaxUnits := by unfold gd3Units; rw [hu]
      have hl : (unitsBytes (gd3Units t) ++ [0, 0]).length ≤ 514 := by
        have := gd3Units_length t
        rw [List.length_append, unitsBytes_length]
        simp only [List.length_cons, List.length_nil]; omega
      rw [← hgu, put_ok s _ (by omega)]
      simp only []
      apply ih
      · obtain ⟨q, hq, hnq⟩ := hbad
        rcases List.mem_cons.mp hq with rfl | hq
        · exact absurd ⟨us, hu⟩ hnq
        · exact ⟨q, hq, hnq⟩
      · show (s.mem ++ _).length + _ ≤ s.alloc
        unfold W.pos at hk2
        rw [List.length_append, List.length_map]
        generalize (unitsBytes (gd3Units t) ++ [0, 0]).length = n at hl ⊢
        omega

/-- `write_tag` on a stopped writer with a tag that does not decode -/
theorem writeTag_bad {H : Nat} {hdr0 : Bytes} {s : W} {pre body : Bytes} {cs lk} (inv : SInv H hdr0 s pre body [] cs lk)
    (t : Tags) (hbad : ∃ x ∈ t.toList, ¬ Decodable x) : writeTag s t = .error .rangeError := by
  have hpl := inv.hdr.plen
  have h38 := inv.hdr.h38
  obtain ⟨hroom, hg0⟩ := reserve_room s Tables.vgm_reserve_write_tag inv.safe.1
  have hN : Tables.vgm_reserve_write_tag = 5666 := rfl
  rw [hN] at hroom
  have hpos : s.pos = H + body.length + 1 := by unfold W.pos; rw [inv.mem]; simp [hpl]; omega
  unfold writeTag
  rw [hN]
  have hm0 : (reserve s 5666).mem = pre.map some ++ (body ++ [0x66]).map some := inv.mem
  simp only [bind, Except.bind, poke32]
  rw [poke_hdr _ pre _ hm0 0x14 _ (by simp; omega)]
  have l14 : (setL pre 0x14 (le32 ((reserve s 5666).pos - 0x14))).length = pre.length := setL_length _ _ _ (by simp; omega)
  generalize hp1 : setL pre 0x14 (le32 ((reserve s 5666).pos - 0x14)) = p1 at l14
  simp only []
  have hpos1 : ∀ (w : W), w.mem = p1.map some ++ (body ++ [0x66]).map some → w.pos = s.pos := by
    intro w hw; unfold W.pos; rw [hw, inv.mem]; simp [l14]
  rw [reserve_pos] at hroom
  rw [put_ok _ gd3Magic (by rw [hpos1 _ rfl]; simp [gd3Magic]; show s.pos + 8 ≤ (reserve s 5666).alloc; omega)]
  simp only []
  have hpos2 : (W.pos { reserve s 5666 with mem := p1.map some ++ (body ++ [0x66]).map some ++ gd3Magic.map some }) = s.pos + 8 := by
    unfold W.pos; rw [inv.mem] ; simp [l14, gd3Magic]; omega
  rw [skip_ok _ 4 (by rw [hpos2]; show s.pos + 8 + 4 ≤ (reserve s 5666).alloc; omega)]
  simp only []
  rw [addGd3All_bad t.toList _ hbad (by
    show (List.length _) + _ ≤ (reserve s 5666).alloc
    simp [Tags.toList, l14, gd3Magic, hpl]; omega)]

/-- an export whose tags do not all decode ends in `range_error`, whatever the operations -/
theorem export_bad_tag (version H : Nat) (pokes : List (Nat × Bytes)) (xs : List XOp) (tags : Tags)
    (h38 : 0x38 ≤ H) (hA : H ≤ initialAlloc) (hpokes : ∀ p ∈ pokes, SafeOff H p.1 p.2.length)
    (hvalid : ∀ x ∈ xs, x.valid) (hdelays : (xs.map XOp.delayOf).sum < 2147483648)
    (hbad : ∃ t ∈ tags.toList, ¬ Decodable t) :
    run version H (exportOps pokes xs tags) = .error .rangeError := by
  obtain ⟨s0, pre0, hc, inv0, q0, e0⟩ := ctor_x version H h38 hA
  obtain ⟨s1, pre1, h1, inv1, q1, e1⟩ := pokes_x pokes inv0 hpokes
  obtain ⟨s2, pre2, body2, cs2, lk2, h2, inv2, ex2, l2, w2⟩ := xsteps_x xs hvalid inv1 (by rw [q1, q0]; simpa using hdelays)
  have hp2 : s2.pending < 2147483648 := by
    simp [waits, q1, q0] at w2; omega
  obtain ⟨s3, pre3, h3, inv3⟩ := stop_x inv2 hp2
  have hsteps : steps s0 (exportOps pokes xs tags) = .error .rangeError := by
    unfold exportOps
    rw [steps_append, steps_append, h1]
    simp only [h2, steps, step, h3, writeTag_bad inv3 tags hbad]
  unfold run
  rw [hc]
  simp only [hsteps]

end Ctrmml.Vgm
