/-
  C12 round 3, part 4: counted loops without nesting.  `Loop1 root`: the root track consists of
  "other" events (not PLATFORM, not DRUM_MODE) and non-nested `[ … ] n` loops (LOOP_START … LOOP_END
  with `0 ≤ n ≤ 255`, no LOOP_BREAK inside), every loop closed, and the weight bound below holds.
  No SEGNO / JUMP / END.

  Step budget: weight `W` = 1 per event (+1 for the synthesised END) and `255 * N + 1` per
  LOOP_START (`N = length + 1`); a loop frame is worth `count * N` (255 before the count is known).
  Every fetch step decreases `muL` = weight of the rest of the track + worth of the frame; the jump
  back at a LOOP_END is paid by one unit of the count.  `Loop1` demands `W root + 255 * N < 100000`
  (the model's budget; the C++ has none).
-/
import Ctrmml.Proofs.SeekFlatL
namespace Ctrmml.PlayerCh
open Ctrmml Player Tables

def loopK : Nat := 255

def okEv (e : Event) : Bool := (e.type != ev_PLATFORM) && (e.type != ev_DRUM_MODE)

def depthOK : Nat → List Event → Bool
  | d, [] => d == 0
  | d, e :: es =>
    okEv e &&
    (if e.kind = .loopStart then d == 0 && depthOK 1 es
     else if e.kind = .loopEnd then
       d == 1 && decide (0 ≤ e.param) && decide (e.param ≤ (loopK : Int)) && depthOK 0 es
     else decide (e.kind = .other) && depthOK d es)

theorem depthOK_cons (d : Nat) (e : Event) (es : List Event) :
    depthOK d (e :: es) = (okEv e &&
      (if e.kind = .loopStart then d == 0 && depthOK 1 es
       else if e.kind = .loopEnd then
         d == 1 && decide (0 ≤ e.param) && decide (e.param ≤ (loopK : Int)) && depthOK 0 es
       else decide (e.kind = .other) && depthOK d es)) := by
  rw [depthOK]

def wEv (N : Nat) (e : Event) : Nat := if e.kind = .loopStart then loopK * N + 1 else 1

def W (N : Nat) : List Event → Nat
  | [] => 1
  | e :: es => wEv N e + W N es

def Loop1 (root : List Event) : Prop :=
  depthOK 0 root = true ∧ W (root.length + 1) root + loopK * (root.length + 1) < 100000

instance (root : List Event) : Decidable (Loop1 root) := by unfold Loop1; infer_instance

def extraOf (N : Nat) : List Frame → Nat
  | [] => 0
  | f :: _ => (if f.loopCount = 0 then loopK else f.loopCount.toNat) * N

def muL (root : List Event) (s : PS) : Nat :=
  W (root.length + 1) (root.drop s.core.position) + extraOf (root.length + 1) s.core.stack

structure LInv (root : List Event) (s : PS) : Prop where
  track : s.core.track = .root
  loopPos : s.acc.loopPosition = -1
  drum : getCh s.ch ev_DRUM_MODE = 0
  err : s.err = none
  stk : (s.core.stack = [] ∧ depthOK 0 (root.drop s.core.position) = true) ∨
        (∃ f, s.core.stack = [f] ∧ f.type = .loop ∧ depthOK 1 (root.drop s.core.position) = true ∧
          depthOK 1 (root.drop f.position) = true ∧ f.position ≤ s.core.position ∧
          W (root.length + 1) (root.drop f.position)
            ≤ W (root.length + 1) (root.drop s.core.position) + (s.core.position - f.position) ∧
          0 ≤ f.loopCount ∧ f.loopCount ≤ (loopK : Int))

theorem okEv_spec {e : Event} (h : okEv e = true) : e.type ≠ ev_PLATFORM ∧ e.type ≠ ev_DRUM_MODE := by
  simp only [okEv, Bool.and_eq_true, bne_iff_ne, ne_eq] at h
  exact h

section
variable (song : Song) (root : List Event) (pd : Int → Bool)

theorem coreStep_loopStart (c : Core) (ht : c.track = .root) (hs : c.stack = [])
    (hk : (fetch root c.position).kind = .loopStart) :
    coreStep song root c
      = .ok ({ c with position := c.position + 1,
                      stack := [{ type := .loop, track := c.track, position := c.position + 1,
                                  endPosition := 0, loopCount := 0 }] },
             .hook (fetch root c.position) (fetch root c.position)) := by
  unfold coreStep
  have hp : ∀ f : Frame, push [] f = .ok [f] := by
    intro f; simp [push, maxStack, playerMaxStackDepth]
  simp only [ht, codeOf, hk, hs, hp]

theorem coreStep_loopEnd (c : Core) (f : Frame) (ht : c.track = .root) (hs : c.stack = [f])
    (hf : f.type = .loop) (hk : (fetch root c.position).kind = .loopEnd)
    (cnt : Int) (hc : cnt = if f.loopCount = 0 then (fetch root c.position).param else f.loopCount)
    (h0 : 0 ≤ cnt) :
    coreStep song root c
      = if cnt - 1 > 0 then
          .ok ({ c with position := f.position,
                        stack := [{ f with endPosition := c.position + 1, loopCount := cnt - 1 }] },
               .hook (fetch root c.position) (fetch root c.position))
        else
          .ok ({ c with position := c.position + 1, stack := [] },
               .hook (fetch root c.position) (fetch root c.position)) := by
  unfold coreStep
  have h0' : ¬ (cnt < 0) := by omega
  simp only [ht, codeOf, hk, hs, stackTop, hf, if_true, ← hc, h0', if_false, List.tail_cons]

theorem step_hook (c c' : Core) (a : Acc) (v f : Event) (h : coreStep song root c = .ok (c', .hook v f))
    (hns : ¬ f.kind = .segno) :
    ∃ a', step song root true ⟨c, a⟩ = .ok (⟨c', a'⟩, .event v) ∧ a'.loopPosition = a.loopPosition ∧
      a'.enabled = a.enabled := by
  unfold step
  simp only [h]
  simp only [accStep, Out.fetched, hns, if_false]
  exact ⟨_, rfl, rfl, rfl⟩

theorem pstep_event_safe (skip : Bool) (s : PS) (bs : PState) (v : Event) (herr : s.err = none)
    (h : step song root true ⟨s.core, s.acc⟩ = .ok (bs, .event v)) (hv : okEv v = true)
    (hd : getCh s.ch ev_DRUM_MODE = 0) :
    (pstep song root pd skip s).1.core = bs.core ∧ (pstep song root pd skip s).1.acc = bs.acc ∧
    (pstep song root pd skip s).1.err = none ∧ getCh (pstep song root pd skip s).1.ch ev_DRUM_MODE = 0 := by
  have herr' : s.err.isSome = false := by simp [herr]
  rw [pstep_event song root pd skip s bs v herr' h]
  obtain ⟨hp, hm⟩ := okEv_spec hv
  obtain ⟨h1, h2, h3, h4⟩ := handleEvent_safe song pd { s with core := bs.core, acc := bs.acc } v hp hm hd
  exact ⟨h1, h2, by rw [h3]; exact herr, h4⟩

theorem W_pos (N : Nat) (l : List Event) : W N l ≥ 1 := by
  cases l with
  | nil => simp [W]
  | cons e es => simp only [W, wEv]; split <;> omega

/-- one fetch step on a `Loop1` track keeps the invariant and either stops the track or decreases
the measure -/
theorem pstep_loop1 (skip : Bool) (s : PS) (hi : LInv root s) :
    LInv root (pstep song root pd skip s).1 ∧
    ((pstep song root pd skip s).1.acc.enabled = false ∨ muL root (pstep song root pd skip s).1 < muL root s) := by
  have herr : s.err.isSome = false := by simp [hi.err]
  by_cases hlt : s.core.position < root.length
  · have hfe : fetch root s.core.position = root[s.core.position] := by
      simp [fetch, List.getElem?_eq_getElem hlt]
    have hdrop : root.drop s.core.position = fetch root s.core.position :: root.drop (s.core.position + 1) := by
      rw [hfe]; exact List.drop_eq_getElem_cons hlt
    have hgen : ∀ (c' : Core),
        coreStep song root s.core = .ok (c', .hook (fetch root s.core.position) (fetch root s.core.position)) →
        okEv (fetch root s.core.position) = true → ¬ (fetch root s.core.position).kind = .segno →
        c'.track = .root →
        ((c'.stack = [] ∧ depthOK 0 (root.drop c'.position) = true) ∨
          (∃ f, c'.stack = [f] ∧ f.type = .loop ∧ depthOK 1 (root.drop c'.position) = true ∧
            depthOK 1 (root.drop f.position) = true ∧ f.position ≤ c'.position ∧
            W (root.length + 1) (root.drop f.position)
              ≤ W (root.length + 1) (root.drop c'.position) + (c'.position - f.position) ∧
            0 ≤ f.loopCount ∧ f.loopCount ≤ (loopK : Int))) →
        W (root.length + 1) (root.drop c'.position) + extraOf (root.length + 1) c'.stack < muL root s →
        LInv root (pstep song root pd skip s).1 ∧
        ((pstep song root pd skip s).1.acc.enabled = false ∨ muL root (pstep song root pd skip s).1 < muL root s) := by
      intro c' hcs hv hns htr hstk hmu
      obtain ⟨a', hst, hlp, _⟩ := step_hook song root s.core c' s.acc _ _ hcs hns
      obtain ⟨h1, h2, h3, h4⟩ := pstep_event_safe song root pd skip s _ _ hi.err hst hv hi.drum
      refine ⟨⟨by rw [h1]; exact htr, by rw [h2]; exact hlp.trans hi.loopPos, h4, h3, by rw [h1]; exact hstk⟩,
        Or.inr ?_⟩
      unfold muL at hmu ⊢
      rw [h1]; exact hmu
    rcases hi.stk with ⟨hs, hd⟩ | ⟨f, hs, hft, hd, hdf, hle, hJ, hc0, hcK⟩
    · -- outside a loop
      rw [hdrop] at hd
      rw [depthOK_cons, Bool.and_eq_true] at hd
      obtain ⟨hv, hd2⟩ := hd
      have hmu0 : muL root s = wEv (root.length + 1) (fetch root s.core.position)
          + W (root.length + 1) (root.drop (s.core.position + 1)) := by
        unfold muL; rw [hs, hdrop]; simp [W, extraOf]
      by_cases hks : (fetch root s.core.position).kind = .loopStart
      · rw [if_pos hks] at hd2
        simp only [Bool.and_eq_true, beq_self_eq_true, true_and] at hd2
        apply hgen _ (coreStep_loopStart song root s.core hi.track hs hks) hv (by rw [hks]; decide) hi.track
        · exact Or.inr ⟨_, rfl, rfl, hd2, hd2, Nat.le_refl _, by simp,
            by show (0 : Int) ≤ 0; exact Int.le_refl 0, by show (0 : Int) ≤ (loopK : Int); decide⟩
        · rw [hmu0]
          simp only [wEv, hks, if_true, extraOf]
          omega
      · by_cases hke : (fetch root s.core.position).kind = .loopEnd
        · rw [if_neg hks, if_pos hke] at hd2
          simp at hd2
        · rw [if_neg hks, if_neg hke] at hd2
          simp only [Bool.and_eq_true, decide_eq_true_eq] at hd2
          apply hgen _ (coreStep_other song root s.core hi.track hd2.1) hv (by rw [hd2.1]; decide) hi.track
          · exact Or.inl ⟨hs, hd2.2⟩
          · rw [hmu0]
            simp only [wEv, hks, if_false, hs, extraOf]
            omega
    · -- inside a loop
      rw [hdrop] at hd hJ
      rw [depthOK_cons, Bool.and_eq_true] at hd
      obtain ⟨hv, hd2⟩ := hd
      have hmu0 : muL root s = wEv (root.length + 1) (fetch root s.core.position)
          + W (root.length + 1) (root.drop (s.core.position + 1))
          + (if f.loopCount = 0 then loopK else f.loopCount.toNat) * (root.length + 1) := by
        unfold muL; rw [hs, hdrop]; simp [W, extraOf]
      by_cases hks : (fetch root s.core.position).kind = .loopStart
      · rw [if_pos hks] at hd2
        simp at hd2
      · have hw1 : wEv (root.length + 1) (fetch root s.core.position) = 1 := by simp [wEv, hks]
        simp only [W, hw1] at hJ
        by_cases hke : (fetch root s.core.position).kind = .loopEnd
        · rw [if_neg hks, if_pos hke] at hd2
          simp only [Bool.and_eq_true, decide_eq_true_eq, beq_self_eq_true, true_and] at hd2
          obtain ⟨⟨hp0, hpK⟩, hd0⟩ := hd2
          obtain ⟨cnt, hcnt⟩ : ∃ cnt : Int, cnt = if f.loopCount = 0 then (fetch root s.core.position).param else f.loopCount := ⟨_, rfl⟩
          have h0 : 0 ≤ cnt := by rw [hcnt]; split <;> omega
          have hK : cnt ≤ (loopK : Int) := by rw [hcnt]; split <;> omega
          obtain ⟨E, hE⟩ : ∃ E : Nat, E = if f.loopCount = 0 then loopK else f.loopCount.toNat := ⟨_, rfl⟩
          have hcE : cnt.toNat ≤ E := by
            rw [hcnt, hE]; split <;> omega
          rw [← hE] at hmu0
          have hcs := coreStep_loopEnd song root s.core f hi.track hs hft hke cnt hcnt h0
          by_cases hj : cnt - 1 > 0
          · rw [if_pos hj] at hcs
            apply hgen _ hcs hv (by rw [hke]; decide) hi.track
            · exact Or.inr ⟨_, rfl, hft, hdf, hdf, Nat.le_refl _, by simp, by show 0 ≤ cnt - 1; omega,
                by show cnt - 1 ≤ (loopK : Int); omega⟩
            · rw [hmu0, hw1]
              have hne : ¬ (cnt - 1 = 0) := by omega
              simp only [extraOf, hne, if_false]
              have hm : ((cnt - 1).toNat + 1) * (root.length + 1) ≤ E * (root.length + 1) :=
                Nat.mul_le_mul_right _ (by omega)
              rw [Nat.add_mul, Nat.one_mul] at hm
              omega
          · rw [if_neg hj] at hcs
            apply hgen _ hcs hv (by rw [hke]; decide) hi.track
            · exact Or.inl ⟨rfl, hd0⟩
            · rw [hmu0, hw1]
              simp only [extraOf]
              omega
        · rw [if_neg hks, if_neg hke] at hd2
          simp only [Bool.and_eq_true, decide_eq_true_eq] at hd2
          apply hgen _ (coreStep_other song root s.core hi.track hd2.1) hv (by rw [hd2.1]; decide) hi.track
          · refine Or.inr ⟨f, hs, hft, hd2.2, hdf, by show f.position ≤ s.core.position + 1; omega, ?_, hc0, hcK⟩
            show W (root.length + 1) (List.drop f.position root)
              ≤ W (root.length + 1) (List.drop (s.core.position + 1) root) + (s.core.position + 1 - f.position)
            omega
          · rw [hmu0, hw1]
            show W (root.length + 1) (List.drop (s.core.position + 1) root) + extraOf (root.length + 1) s.core.stack < _
            rw [hs]
            simp only [extraOf]
            omega
  · -- past the last event: the synthesised END stops the track
    have hnil : root.drop s.core.position = [] := List.drop_eq_nil_of_le (Nat.le_of_not_lt hlt)
    have hfe : fetch root s.core.position = endEvent := by
      simp [fetch, List.getElem?_eq_none (Nat.le_of_not_lt hlt)]
    have hk : (fetch root s.core.position).kind = .fin := by rw [hfe]; decide
    rcases hi.stk with ⟨hs, _⟩ | ⟨f, _, _, hd, _⟩
    · have hstep : ∃ a', step song root true ⟨s.core, s.acc⟩
          = .ok (⟨{ s.core with position := s.core.position + 1 }, a'⟩, .finish) ∧
            a'.enabled = false ∧ a'.loopPosition = -1 := by
        unfold step
        simp only [coreStep_fin song root s.core hi.track hs hk]
        simp only [accStep, Out.fetched]
        split
        · rename_i h; exact absurd hi.loopPos h.1
        · exact ⟨_, rfl, rfl, hi.loopPos⟩
      obtain ⟨a', hst, hen, hlp'⟩ := hstep
      rw [pstep_finish song root pd skip s _ herr hst]
      refine ⟨⟨hi.track, hlp', hi.drum, hi.err, Or.inl ⟨hs, ?_⟩⟩, Or.inl hen⟩
      show depthOK 0 (List.drop (s.core.position + 1) root) = true
      rw [List.drop_eq_nil_of_le (by omega)]
      rfl
    · rw [hnil] at hd
      simp [depthOK] at hd

theorem settleO_loop1 (skip : Bool) : ∀ (fuel : Nat) (s : PS), LInv root s →
    fuel > muL root s → LInv root (settleO song root pd skip fuel s).1
  | 0, s, hi, hf => by omega
  | fuel + 1, s, hi, hf => by
    simp only [settleO]
    split
    · exact hi
    · obtain ⟨hi1, hd⟩ := pstep_loop1 song root pd skip s hi
      cases hp : pstep song root pd skip s with
      | mk s1 w =>
        rw [hp] at hi1 hd
        dsimp only at hi1 hd ⊢
        rcases hd with hd | hd
        · have hs1 : isSettled s1 = true := by simp [isSettled, hd]
          rw [settleO_fix song root pd skip fuel s1 hs1]
          exact hi1
        · have ih := settleO_loop1 skip fuel s1 hi1 (by omega)
          cases hq : settleO song root pd skip fuel s1 with
          | mk s2 w2 => rw [hq] at ih; exact ih

theorem W_drop_le (N : Nat) : ∀ (l : List Event) (k : Nat), W N (l.drop k) ≤ W N l
  | [], k => by simp
  | e :: es, 0 => by simp
  | e :: es, k + 1 => by
    have := W_drop_le N es k
    simp only [List.drop_succ_cons, W]
    omega

theorem muL_bound (hfl : Loop1 root) (s : PS) (hi : LInv root s) : muL root s < 100000 := by
  have h1 := W_drop_le (root.length + 1) root s.core.position
  have h2 := hfl.2
  unfold muL
  rcases hi.stk with ⟨hs, _⟩ | ⟨f, hs, _, _, _, _, _, hc0, hcK⟩
  · rw [hs]; simp only [extraOf]; omega
  · rw [hs]; simp only [extraOf]
    have : (if f.loopCount = 0 then loopK else f.loopCount.toNat) * (root.length + 1) ≤ loopK * (root.length + 1) :=
      Nat.mul_le_mul_right _ (by split <;> omega)
    omega

theorem settle_loop1 (hfl : Loop1 root) (s : PS) (hi : LInv root s) : LInv root (settle song root pd s) := by
  unfold settle
  apply settleO_loop1 song root pd false settleFuel s hi
  have := muL_bound root hfl s hi
  rw [settleFuel_ge 0 (by omega)]
  omega

theorem playTickS_loop1 (hfl : Loop1 root) (s : PS) (hi : LInv root s) :
    LInv root (playTickS song root pd s) := by
  have herr : s.err.isSome = false := by simp [hi.err]
  unfold playTickS
  simp only [herr, Bool.false_eq_true, if_false]
  apply settle_loop1 song root pd hfl
  split
  · exact ⟨hi.track, hi.loopPos, hi.drum, hi.err, hi.stk⟩
  · split
    · exact ⟨hi.track, hi.loopPos, hi.drum, hi.err, hi.stk⟩
    · exact hi

theorem initPS_loop1 (hfl : Loop1 root) : LInv root initPS :=
  ⟨rfl, rfl, by decide, rfl, Or.inl ⟨rfl, hfl.1⟩⟩

theorem iter_loop1 (hfl : Loop1 root) : ∀ (n : Nat) (s : PS), LInv root s →
    LInv root (iter (playTickS song root pd) n s)
  | 0, _, hi => hi
  | n + 1, s, hi => iter_loop1 hfl n _ (playTickS_loop1 song root pd hfl s hi)

end
end Ctrmml.PlayerCh
