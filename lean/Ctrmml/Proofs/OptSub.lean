/-
  C01, layers 2–3 — the subroutine branch of `apply_match`: the new track, the replaced
  occurrence and every further replacement made by `find_subroutines` are occurrences of the same
  phrase up to `LOOP_BREAK` params.
-/
import Ctrmml.Proofs.OptPass
namespace Ctrmml.OptSteps
open Ctrmml Ctrmml.Tree Ctrmml.Expand Ctrmml.Rewrite Ctrmml.Opt Tables

/-! ## tracks equal up to replacing occurrences of a phrase (up to `LOOP_BREAK` params) by `j` -/

inductive NRel (Xl : List Event) (j : Event) : List Event → List Event → Prop
  | nil : NRel Xl j [] []
  | cons (e : Event) {l l' : List Event} : NRel Xl j l l' → NRel Xl j (e :: l) (e :: l')
  | repl (seg : List Event) {l l' : List Event} : normL seg = normL Xl → NRel Xl j l l' →
      NRel Xl j (seg ++ l) (j :: l')

theorem NRel.refl (Xl : List Event) (j : Event) : ∀ l, NRel Xl j l l
  | [] => .nil
  | e :: l => .cons e (NRel.refl Xl j l)

theorem NRel.prepend {Xl : List Event} {j : Event} (pre : List Event) {l l' : List Event}
    (h : NRel Xl j l l') : NRel Xl j (pre ++ l) (pre ++ l') := by
  induction pre with
  | nil => exact h
  | cons e pre ih => exact .cons e ih

/-- a `j`-free prefix of the rewritten track is a prefix of the original -/
theorem NRel.peel {Xl : List Event} {j : Event} : ∀ (s : List Event) {l b : List Event},
    NRel Xl j l (s ++ b) → (∀ e ∈ s, e ≠ j) → ∃ lb, l = s ++ lb ∧ NRel Xl j lb b
  | [], l, b, h, _ => ⟨l, rfl, h⟩
  | x :: s, l, b, h, hs => by
    generalize hr : (x :: s) ++ b = r at h
    cases h with
    | nil => simp at hr
    | cons e h' =>
      simp only [List.cons_append, List.cons.injEq] at hr
      obtain ⟨rfl, rfl⟩ := hr
      obtain ⟨lb, h1, h2⟩ := NRel.peel s h' (fun e he => hs e (List.mem_cons_of_mem _ he))
      exact ⟨lb, by rw [h1]; rfl, h2⟩
    | repl seg hn h' =>
      simp only [List.cons_append, List.cons.injEq] at hr
      exact absurd hr.1 (hs x List.mem_cons_self)

/-- one more occurrence replaced in the rewritten track -/
theorem NRel.replace {Xl : List Event} {j : Event} {seg : List Event} (hseg : ∀ e ∈ seg, e ≠ j)
    (hn : normL seg = normL Xl) : ∀ {evs : List Event} (a : List Event) {b : List Event},
    NRel Xl j evs (a ++ seg ++ b) → NRel Xl j evs (a ++ j :: b) := by
  intro evs a b h
  generalize hr : a ++ seg ++ b = r at h
  induction h generalizing a with
  | nil =>
    have : a = [] ∧ seg = [] ∧ b = [] := by simpa using hr
    obtain ⟨rfl, rfl, rfl⟩ := this
    exact NRel.repl [] hn NRel.nil
  | @cons e l l' h ih =>
    cases a with
    | nil =>
      simp only [List.nil_append] at hr
      have h0 : NRel Xl j (e :: l) (seg ++ b) := by rw [hr]; exact NRel.cons e h
      obtain ⟨lb, h1, h2⟩ := NRel.peel seg h0 hseg
      rw [h1]
      exact NRel.repl seg hn h2
    | cons x a' =>
      simp only [List.cons_append, List.cons.injEq] at hr
      obtain ⟨rfl, hr⟩ := hr
      exact NRel.cons x (ih a' hr)
  | @repl seg0 l l' hn0 h ih =>
    cases a with
    | nil =>
      simp only [List.nil_append] at hr
      have h0 : NRel Xl j (seg0 ++ l) (seg ++ b) := by rw [hr]; exact NRel.repl seg0 hn0 h
      obtain ⟨lb, h1, h2⟩ := NRel.peel seg h0 hseg
      rw [h1]
      exact NRel.repl seg hn h2
    | cons x a' =>
      simp only [List.cons_append, List.cons.injEq] at hr
      obtain ⟨rfl, hr⟩ := hr
      exact NRel.repl seg0 hn0 (ih a' hr)

/-- the original track with every replaced occurrence made an exact copy of the phrase -/
theorem NRel.toERel {Xl : List Event} {j : Event} {X : List Node} (hX : flattenL X = Xl)
    {evs evs' : List Event} (h : NRel Xl j evs evs') :
    ∃ evs1, normL evs1 = normL evs ∧ ERel X [.ev j] evs1 evs' := by
  induction h with
  | nil => exact ⟨[], rfl, ERel.nil⟩
  | cons e _ ih =>
    obtain ⟨evs1, h1, h2⟩ := ih
    exact ⟨e :: evs1, by simp [normL] at h1 ⊢; exact h1, ERel.cons e h2⟩
  | repl seg hn _ ih =>
    obtain ⟨evs1, h1, h2⟩ := ih
    refine ⟨Xl ++ evs1, ?_, ?_⟩
    · simp only [normL, List.map_append] at h1 hn ⊢
      rw [h1, hn]
    · have := ERel.repl (X := X) (X' := [.ev j]) h2
      rw [hX] at this
      simpa [flattenL, flattenN] using this

/-! ## `find_subroutines`, restructured -/

def fsInner (bm : Match) (subId : Int) (dstT : Nat) (s : Song × SAMap × Nat) :
    Except OErr (ForInStep (Song × SAMap × Nat)) :=
  if s.2.2 < (Option.map (fun x => x.length) (s.1.track? dstT)).getD 0 then
    findMatchLength s.1 s.2.1 (trackIdOfParam subId) 0 dstT s.2.2 false >>= fun x =>
      if x.1 = bm.subLength then
        pure (ForInStep.yield ((replaceWithSub s.1 s.2.1 subId dstT s.2.2 x.1).1,
          (replaceWithSub s.1 s.2.1 subId dstT s.2.2 x.1).2, s.2.2 + 1))
      else pure (ForInStep.yield (s.1, s.2.1, s.2.2 + 1))
  else pure (ForInStep.yield (s.1, s.2.1, s.2.2))

def fsOuter (bm : Match) (subId : Int) (x : Nat × List Event) (s : Song × SAMap) :
    Except OErr (ForInStep (Song × SAMap)) :=
  if x.1 < bm.trackId ∨ x.1 = trackIdOfParam subId then pure (ForInStep.yield (s.1, s.2))
  else
    forIn (List.range ((Option.map (fun x => x.length) (s.1.track? x.1)).getD 0 + 1))
      (s.1, s.2, if x.1 = bm.trackId then bm.position + 1 else 0) (fun _ => fsInner bm subId x.1)
    >>= fun r => pure (ForInStep.yield (r.1, r.2.1))

theorem findSubroutines_eq (song : Song) (m : SAMap) (bm : Match) (subId : Int) :
    findSubroutines song m bm subId =
      (forIn song.tracks (song, m) (fsOuter bm subId) >>= fun r => pure (r.1, r.2)) := by
  rfl

/-! ## the invariant of `find_subroutines` -/

/-- the song while `find_subroutines` runs, relative to the song before the pass: the new track
holds the phrase, every other track is the original one with occurrences replaced -/
structure SubInv (song : Song) (Xl : List Event) (j : Event) (subT : Nat) (s : Song) : Prop where
  sub : s.track? subT = some Xl
  rel : ∀ id, id ≠ subT → (song.track? id = none ∧ s.track? id = none) ∨
    ∃ evs evs', song.track? id = some evs ∧ s.track? id = some evs' ∧ NRel Xl j evs evs' ∧ BrkZero evs'

theorem jumpEvent_norm (subId : Int) : normE (jumpEvent subId) = jumpEvent subId :=
  normE_of_ne (by show ev_JUMP ≠ ev_LOOP_BREAK; decide)

/-- a full-length match of the phrase is an occurrence up to `LOOP_BREAK` params -/
theorem seg_of_fml {Xl dst : List Event} {pos ll : Nat} (h : FMLSpec Xl dst 0 pos Xl.length ll)
    (hX : BrkZero Xl) (hd : BrkZero dst) (hp : pos ≤ dst.length) :
    normL ((dst.drop pos).take Xl.length) = normL Xl ∧ pos + Xl.length ≤ dst.length := by
  constructor
  · apply List.ext_getElem?
    intro i
    simp only [normL, List.getElem?_map, List.getElem?_take, List.getElem?_drop]
    by_cases hi : i < Xl.length
    · obtain ⟨s, d, h1, h2, h3, _, _⟩ := h.same i hi
      simp only [Nat.zero_add] at h1
      simp only [hi, if_true, h1, h2, Option.map_some]
      rw [sameEvent_norm h3 (hX s (List.mem_of_getElem? h1)) (hd d (List.mem_of_getElem? h2))]
    · simp only [hi, if_false, Option.map_none]
      rw [List.getElem?_eq_none (by omega)]
      rfl
  · by_cases h0 : Xl.length = 0
    · omega
    · obtain ⟨s, d, _, h2, _⟩ := h.same (Xl.length - 1) (by omega)
      have := (List.getElem?_eq_some_iff.1 h2).1
      omega

theorem mem_norm_of_eq {seg Xl : List Event} (hn : normL seg = normL Xl) {e : Event} (he : e ∈ seg) :
    ∃ x ∈ Xl, normE x = normE e := by
  have : normE e ∈ normL Xl := by rw [← hn]; exact List.mem_map.2 ⟨e, he, rfl⟩
  obtain ⟨x, hx, hxe⟩ := List.mem_map.1 this
  exact ⟨x, hx, hxe⟩

/-- a segment that is the phrase up to `LOOP_BREAK` params contains no `j` if the phrase does not -/
theorem seg_noj {seg Xl : List Event} {subId : Int} (hn : normL seg = normL Xl)
    (hX : ∀ x ∈ Xl, x ≠ jumpEvent subId) : ∀ e ∈ seg, e ≠ jumpEvent subId := by
  intro e he hej
  obtain ⟨x, hx, hxe⟩ := mem_norm_of_eq hn he
  rw [hej, jumpEvent_norm] at hxe
  have ht : x.type = ev_JUMP := by
    have := congrArg Event.type hxe
    rw [normE_type] at this
    exact this
  have : normE x = x := normE_of_ne (by rw [ht]; decide)
  rw [this] at hxe
  exact hX x hx hxe

theorem brkZero_jump_splice {evs : List Event} (h : BrkZero evs) (pos len : Nat) (subId : Int) :
    BrkZero (evs.take pos ++ [jumpEvent subId] ++ evs.drop (pos + len)) :=
  brkZero_append (brkZero_append (brkZero_take h _) (brkZero_cons ⟨rfl, rfl⟩ (fun _ h => by simp at h)))
    (brkZero_drop h _)

/-- one replacement by `replace_with_subroutine` keeps the invariant -/
theorem SubInv.replace {song : Song} {Xl : List Event} {subId : Int} {subT : Nat} {s : Song}
    (hinv : SubInv song Xl (jumpEvent subId) subT s) (hbzX : BrkZero Xl)
    (hnojX : ∀ x ∈ Xl, x ≠ jumpEvent subId)
    {mm : SAMap} {dstT pos ll : Nat} (hd : dstT ≠ subT) {evs' : List Event} (hdst : s.track? dstT = some evs')
    (hpos : pos ≤ evs'.length)
    (hf : findMatchLength s mm subT 0 dstT pos false = .ok (Xl.length, ll)) :
    SubInv song Xl (jumpEvent subId) subT (replaceWithSub s mm subId dstT pos Xl.length).1 := by
  obtain ⟨src, dst, hs, hdd, hspec⟩ := findMatchLength_spec hf
  rw [hinv.sub] at hs
  rw [hdst] at hdd
  cases hs; cases hdd
  rcases hinv.rel dstT hd with ⟨_, h2⟩ | ⟨evs, evs2, h1, h2, h3, h4⟩
  · rw [hdst] at h2; simp at h2
  rw [hdst] at h2
  cases h2
  obtain ⟨hseg, hlen⟩ := seg_of_fml hspec hbzX h4 hpos
  have hsplit : evs' = evs'.take pos ++ (evs'.drop pos).take Xl.length ++ evs'.drop (pos + Xl.length) := by
    have := split4 evs' 0 pos Xl.length (Nat.zero_le _)
    simpa using this
  have hnew : NRel Xl (jumpEvent subId) evs
      (evs'.take pos ++ jumpEvent subId :: evs'.drop (pos + Xl.length)) := by
    apply NRel.replace (seg_noj hseg hnojX) hseg
    rw [← hsplit]; exact h3
  have hrw : (replaceWithSub s mm subId dstT pos Xl.length).1 =
      setTrack s dstT (evs'.take pos ++ [jumpEvent subId] ++ evs'.drop (pos + Xl.length)) := by
    unfold replaceWithSub
    rw [hdst]
  rw [hrw]
  constructor
  · rw [track?_setTrack hdst, if_neg (Ne.symm hd)]
    exact hinv.sub
  · intro id hid
    rw [track?_setTrack hdst]
    by_cases h : id = dstT
    · subst h
      right
      refine ⟨evs, _, h1, by rw [if_pos rfl], ?_, brkZero_jump_splice h4 _ _ _⟩
      simpa using hnew
    · rw [if_neg h]
      exact hinv.rel id hid

theorem fsInner_step {song : Song} {Xl : List Event} {subId : Int} {bm : Match} {dstT : Nat}
    {s : Song × SAMap × Nat} (hinv : SubInv song Xl (jumpEvent subId) (trackIdOfParam subId) s.1)
    (hbzX : BrkZero Xl) (hnojX : ∀ x ∈ Xl, x ≠ jumpEvent subId) (hlen : bm.subLength = Xl.length)
    (hd : dstT ≠ trackIdOfParam subId) {r : ForInStep (Song × SAMap × Nat)}
    (hr : fsInner bm subId dstT s = .ok r) :
    ∃ b', r = .yield b' ∧ SubInv song Xl (jumpEvent subId) (trackIdOfParam subId) b'.1 := by
  unfold fsInner at hr
  split at hr
  · rename_i hlt
    obtain ⟨x, hx, hr⟩ := bind_ok hr
    split at hr
    · rename_i hxl
      simp only [pure, Except.pure, Except.ok.injEq] at hr
      refine ⟨_, hr.symm, ?_⟩
      cases hdst : s.1.track? dstT with
      | none => rw [hdst] at hlt; simp at hlt
      | some evs' =>
        rw [hdst] at hlt
        simp only [Option.map_some, Option.getD_some] at hlt
        have hx' : findMatchLength s.1 s.2.1 (trackIdOfParam subId) 0 dstT s.2.2 false = .ok (Xl.length, x.2) := by
          rw [hx, ← hlen, ← hxl]
        have := hinv.replace hbzX hnojX hd hdst (Nat.le_of_lt hlt) hx'
        rw [hxl, hlen]
        exact this
    · simp only [pure, Except.pure, Except.ok.injEq] at hr
      exact ⟨_, hr.symm, hinv⟩
  · simp only [pure, Except.pure, Except.ok.injEq] at hr
    exact ⟨_, hr.symm, hinv⟩

theorem findSubroutines_inv {song : Song} {Xl : List Event} {subId : Int} {bm : Match} {s2 : Song} {m2 : SAMap}
    (hinv : SubInv song Xl (jumpEvent subId) (trackIdOfParam subId) s2)
    (hbzX : BrkZero Xl) (hnojX : ∀ x ∈ Xl, x ≠ jumpEvent subId) (hlen : bm.subLength = Xl.length)
    {s3 : Song} {m3 : SAMap} (h : findSubroutines s2 m2 bm subId = .ok (s3, m3)) :
    SubInv song Xl (jumpEvent subId) (trackIdOfParam subId) s3 := by
  rw [findSubroutines_eq] at h
  obtain ⟨r, hr, h⟩ := bind_ok h
  simp only [pure, Except.pure, Except.ok.injEq, Prod.mk.injEq] at h
  rw [← h.1]
  refine forIn_inv' _ (fun s : Song × SAMap => SubInv song Xl (jumpEvent subId) (trackIdOfParam subId) s.1)
    _ _ hinv ?_ r hr
  intro x _ b hb r1 hr1
  unfold fsOuter at hr1
  split at hr1
  · simp only [pure, Except.pure, Except.ok.injEq] at hr1
    exact ⟨_, hr1.symm, hb⟩
  · rename_i hc
    obtain ⟨r2, hr2, hr1⟩ := bind_ok hr1
    simp only [pure, Except.pure, Except.ok.injEq] at hr1
    refine ⟨_, hr1.symm, ?_⟩
    have hd : x.1 ≠ trackIdOfParam subId := fun h => hc (Or.inr h)
    exact forIn_inv' _ (fun s : Song × SAMap × Nat => SubInv song Xl (jumpEvent subId) (trackIdOfParam subId) s.1)
      _ _ hb (fun _ _ b hb r hr => fsInner_step hb hbzX hnojX hlen hd hr) r2 hr2

/-! ## inserting the new track (`Song::make_track`: `setTrack` on a fresh id) -/

/-- `Array.qsort` returns a permutation of its input.  A fact about the core library's in-place
quicksort that is used as an explicit hypothesis below (its worker functions are private to
`Init.Data.Array.QSort`; `qsortPerm_of_core` in `Proofs/OptQSort.lean` discharges it). -/
def QSortPerm : Prop :=
  ∀ l : List (Nat × List Event), ((l.toArray.qsort (fun a b => a.1 < b.1)).toList).Perm l

theorem lookup_none_iff {β : Type} (l : List (Nat × β)) (k : Nat) :
    l.lookup k = none ↔ ∀ p ∈ l, p.1 ≠ k := by
  induction l with
  | nil => simp [List.lookup]
  | cons p r ih =>
    by_cases hk : k = p.1
    · subst hk; simp [List.lookup]
    · have h' : (k == p.1) = false := by simp [hk]
      simp only [List.lookup, h', ih, List.mem_cons, forall_eq_or_imp]
      constructor
      · intro h; exact ⟨fun h2 => hk h2.symm, h⟩
      · intro h; exact h.2

theorem lookup_perm {β : Type} {l1 l2 : List (Nat × β)} (hp : l1.Perm l2) (hnd : (l1.map (·.1)).Nodup) (k : Nat) :
    l1.lookup k = l2.lookup k := by
  have hnd2 : (l2.map (·.1)).Nodup := (hp.map _).nodup_iff.1 hnd
  cases h1 : l1.lookup k with
  | some v =>
    have : (k, v) ∈ l2 := hp.mem_iff.1 (mem_of_lookup h1)
    exact (lookup_of_mem_nodup hnd2 this).symm
  | none =>
    cases h2 : l2.lookup k with
    | none => rfl
    | some v =>
      have : (k, v) ∈ l1 := hp.mem_iff.2 (mem_of_lookup h2)
      rw [lookup_of_mem_nodup hnd this] at h1
      cases h1

theorem setTrack_fresh_tracks {song : Song} {id : Nat} (hfresh : song.track? id = none) (evs : List Event) :
    (setTrack song id evs).tracks =
      ((song.tracks ++ [(id, evs)]).toArray.qsort (fun a b => a.1 < b.1)).toList := by
  unfold setTrack
  have : song.tracks.any (·.1 == id) = false := by
    rw [List.any_eq_false]
    intro p hp
    have := (lookup_none_iff _ _).1 hfresh p hp
    simpa using this
  rw [this]
  rfl

theorem nodup_keys_snoc {song : Song} {id : Nat} (hnd : (song.tracks.map (·.1)).Nodup)
    (hfresh : song.track? id = none) (evs : List Event) :
    ((song.tracks ++ [(id, evs)]).map (·.1)).Nodup := by
  rw [List.map_append, List.nodup_append]
  refine ⟨hnd, by simp, ?_⟩
  intro a ha b hb
  simp only [List.map_cons, List.map_nil, List.mem_singleton] at hb
  obtain ⟨p, hp, rfl⟩ := List.mem_map.1 ha
  rw [hb]
  exact (lookup_none_iff _ _).1 hfresh p hp

/-- adding a track with a fresh id -/
theorem track?_setTrack_fresh (hq : QSortPerm) {song : Song} {id : Nat}
    (hnd : (song.tracks.map (·.1)).Nodup) (hfresh : song.track? id = none) (evs : List Event) (id' : Nat) :
    (setTrack song id evs).track? id' = if id' = id then some evs else song.track? id' := by
  unfold Song.track?
  rw [setTrack_fresh_tracks hfresh]
  have hp := hq (song.tracks ++ [(id, evs)])
  have hnd' := nodup_keys_snoc hnd hfresh evs
  rw [lookup_perm hp ((hp.map _).nodup_iff.2 hnd'), List.lookup_append]
  by_cases h : id' = id
  · subst h
    have : List.lookup id' song.tracks = none := hfresh
    simp [this, List.lookup]
  · have hb : (id' == id) = false := by simp [h]
    simp only [h, if_false, List.lookup, hb]
    cases List.lookup id' song.tracks <;> rfl

/-! ## the subroutine branch of `apply_match` -/

theorem applyMatch_sub_inv (hq : QSortPerm) {song : Song} {m : SAMap} {bm : Match} {subId : Int}
    {src : List Event} (hnd : (song.tracks.map (·.1)).Nodup)
    (hbr : bm.loopScore < bm.subScore) (hsrc : song.track? bm.trackId = some src) (hbz : BrkZero src)
    (hfresh : song.track? (trackIdOfParam subId) = none)
    (hbzall : ∀ id t, song.track? id = some t → BrkZero t)
    (hlen : bm.position + bm.subLength ≤ src.length)
    {s3 : Song} {m3 : SAMap} {subId' : Int} (h : applyMatch song m bm subId = .ok (s3, m3, subId'))
    (hnojX : ∀ x ∈ (src.drop bm.position).take bm.subLength, x ≠ jumpEvent subId) :
    SubInv song ((src.drop bm.position).take bm.subLength) (jumpEvent subId) (trackIdOfParam subId) s3 ∧
      subId' = wrap16 (subId + 1) := by
  obtain ⟨Xl, hXl⟩ : ∃ Xl, Xl = (src.drop bm.position).take bm.subLength := ⟨_, rfl⟩
  obtain ⟨subT, hsubT⟩ : ∃ subT, subT = trackIdOfParam subId := ⟨_, rfl⟩
  have hXlen : Xl.length = bm.subLength := by
    rw [hXl, List.length_take, List.length_drop]; omega
  have hbzX : BrkZero Xl := by rw [hXl]; exact brkZero_take (brkZero_drop hbz _) _
  have hne : bm.trackId ≠ subT := by
    intro he; rw [he, hsubT, hfresh] at hsrc; cases hsrc
  unfold applyMatch at h
  simp only [hsrc, hbr, if_true, hfresh, Option.getD_none, List.nil_append, bind, Except.bind, pure,
    Except.pure] at h
  rw [← hXl] at h hnojX ⊢
  rw [← hsubT] at h ⊢
  -- the song with the new track
  have hs1 : ∀ id', (setTrack song subT Xl).track? id' = if id' = subT then some Xl else song.track? id' := by
    intro id'; rw [hsubT]; exact track?_setTrack_fresh hq hnd hfresh Xl id'
  have hs1src : (setTrack song subT Xl).track? bm.trackId = some src := by
    rw [hs1, if_neg hne]; exact hsrc
  -- the first replacement
  have hrw : (replaceWithSub (setTrack song subT Xl) m subId bm.trackId bm.position bm.subLength).1 =
      setTrack (setTrack song subT Xl) bm.trackId
        (src.take bm.position ++ [jumpEvent subId] ++ src.drop (bm.position + bm.subLength)) := by
    unfold replaceWithSub
    rw [hs1src]
  cases hrs : replaceWithSub (setTrack song subT Xl) m subId bm.trackId bm.position bm.subLength with
  | mk s2 m2 =>
  rw [hrs] at h hrw
  simp only at h hrw
  split at h
  · simp at h
  · rename_i v hv
    simp only [Except.ok.injEq, Prod.mk.injEq] at h
    obtain ⟨h1, h2, h3⟩ := h
    refine ⟨?_, h3.symm⟩
    rw [← h1]
    have hinv2 : SubInv song Xl (jumpEvent subId) subT
        (setTrack (setTrack song subT Xl) bm.trackId
          (src.take bm.position ++ [jumpEvent subId] ++ src.drop (bm.position + bm.subLength))) := by
      constructor
      · rw [track?_setTrack hs1src, if_neg (Ne.symm hne), hs1, if_pos rfl]
      · intro id hid
        rw [track?_setTrack hs1src]
        by_cases hi : id = bm.trackId
        · subst hi
          right
          refine ⟨src, _, hsrc, by rw [if_pos rfl], ?_, brkZero_jump_splice hbz _ _ _⟩
          have hsplit := split4 src 0 bm.position bm.subLength (Nat.zero_le _)
          simp only [List.take_zero, List.nil_append, Nat.sub_zero, List.drop_zero] at hsplit
          have hr := NRel.repl (j := jumpEvent subId) Xl (Xl := Xl) rfl (NRel.refl Xl (jumpEvent subId)
            (src.drop (bm.position + bm.subLength)))
          have := NRel.prepend (src.take bm.position) hr
          rw [hXl] at this
          rw [hXl]
          conv => arg 3; rw [hsplit]
          simpa [List.append_assoc] using this
        · rw [if_neg hi, hs1, if_neg hid]
          cases ht : song.track? id with
          | none => left; exact ⟨rfl, rfl⟩
          | some t => right; exact ⟨t, t, rfl, rfl, NRel.refl _ _ _, hbzall id t ht⟩
    rw [← hrw] at hinv2
    have := findSubroutines_inv (bm := bm) (m2 := m2) (by rw [← hsubT]; exact hinv2) hbzX hnojX hXlen.symm
      (s3 := v.1) (m3 := v.2) (by rw [hv])
    rw [← hsubT] at this
    exact this

end Ctrmml.OptSteps
