/- Lemmas about the bracket matcher: `flattenL (parse l) = l`, kinds of parsed nodes. -/
import Ctrmml.Spec.Tree
namespace Ctrmml.Tree
open Ctrmml

theorem flattenL_append (a b : List Node) : flattenL (a ++ b) = flattenL a ++ flattenL b := by
  induction a with
  | nil => simp [flattenL]
  | cons n ns ih => simp [flattenL, ih]

theorem flattenL_cons (n : Node) (ns : List Node) : flattenL (n :: ns) = flattenN n ++ flattenL ns := by
  simp [flattenL]

theorem flattenL_single (n : Node) : flattenL [n] = flattenN n := by simp [flattenL]

/-- flattening of an open context: enclosing levels first -/
def ctx : List (Event × List Node) → List Node → List Event
  | [], cur => flattenL cur.reverse
  | (ls, outer) :: st, cur => ctx st outer ++ ls :: flattenL cur.reverse

theorem ctx_snoc (st : List (Event × List Node)) (cur : List Node) (n : Node) :
    ctx st (n :: cur) = ctx st cur ++ flattenN n := by
  cases st with
  | nil => simp [ctx, flattenL_append, flattenL_single]
  | cons p st => obtain ⟨ls, outer⟩ := p; simp [ctx, flattenL_append, flattenL_single]

theorem flatten_closeAll (st : List (Event × List Node)) (cur : List Node) :
    flattenL (closeAll st cur) = ctx st cur := by
  induction st generalizing cur with
  | nil => simp [closeAll, ctx]
  | cons p st ih =>
    obtain ⟨ls, outer⟩ := p
    simp [closeAll, ctx, ih, ctx_snoc, flattenN]

theorem flatten_parseAux (l : List Event) (st : List (Event × List Node)) (cur : List Node) :
    flattenL (parseAux st cur l) = ctx st cur ++ l := by
  induction l generalizing st cur with
  | nil => simp [parseAux, flatten_closeAll]
  | cons e rest ih =>
    simp only [parseAux]
    split
    · rw [ih]; simp [ctx, flattenL]
    · split
      · rw [ih, ctx_snoc]; simp [flattenN]
      · rw [ih, ctx_snoc]; simp [ctx, flattenN]
    · rw [ih, ctx_snoc]; simp [flattenN]
    · rw [ih, ctx_snoc]; simp [flattenN]

theorem flatten_parse (l : List Event) : flattenL (parse l) = l := by
  simp [parse, flatten_parseAux, ctx, flattenL]

/- closed nodes: event kinds consistent with the constructors, no explicit `END` event, and no
structural fault inside -/
mutual
def Node.closed : Node → Prop
  | .ev e => e.kind = .segno ∨ e.kind = .jump ∨ e.kind = .other
  | .brk e => e.kind = .loopBreak
  | .loop ls b le => ls.kind = .loopStart ∧ closedL b ∧ le.kind = .loopEnd
  | .strayEnd _ => False
  | .openLoop _ _ => False
def closedL : List Node → Prop
  | [] => True
  | n :: ns => Node.closed n ∧ closedL ns
end

theorem closedL_append (a b : List Node) : closedL (a ++ b) ↔ closedL a ∧ closedL b := by
  induction a with
  | nil => simp [closedL]
  | cons n ns ih => simp [closedL, ih, and_assoc]

theorem closedL_reverse (a : List Node) : closedL a.reverse ↔ closedL a := by
  induction a with
  | nil => simp
  | cons n ns ih => simp [closedL_append, closedL, ih, and_comm]

/-- The shape of every parsed track: closed nodes up to the first fault; a stray `LOOP_END`
only at the top level of the track (what follows it is never reached); an unterminated loop is
the last node of its level and its body has the same shape. -/
inductive Spine : Bool → List Node → Prop
  | nil {b : Bool} : Spine b []
  | closed {b : Bool} {n : Node} {ns : List Node} : Node.closed n → Spine b ns → Spine b (n :: ns)
  | stray {e : Event} {ns : List Node} : e.kind = .loopEnd → Spine false (Node.strayEnd e :: ns)
  | opened {b : Bool} {ls : Event} {body : List Node} :
      ls.kind = .loopStart → Spine true body → Spine b [Node.openLoop ls body]

theorem Spine.of_closed {b : Bool} {a rest : List Node} (ha : closedL a) (hr : Spine b rest) :
    Spine b (a ++ rest) := by
  induction a with
  | nil => simpa using hr
  | cons n ns ih => exact Spine.closed ha.1 (ih ha.2)

/-- top-level lists: closed nodes and stray ends -/
def topLevel : List Node → Prop
  | [] => True
  | .strayEnd e :: ns => e.kind = .loopEnd ∧ topLevel ns
  | n :: ns => Node.closed n ∧ topLevel ns

theorem topLevel_append (a b : List Node) : topLevel (a ++ b) ↔ topLevel a ∧ topLevel b := by
  induction a with
  | nil => simp [topLevel]
  | cons n ns ih => cases n <;> simp [topLevel, ih, and_assoc]

theorem topLevel_reverse (a : List Node) : topLevel a.reverse ↔ topLevel a := by
  induction a with
  | nil => simp
  | cons n ns ih => cases n <;> simp [topLevel_append, topLevel, ih, and_comm]

theorem Spine.of_topLevel {a rest : List Node} (ha : topLevel a) (hr : Spine false rest) :
    Spine false (a ++ rest) := by
  induction a with
  | nil => simpa using hr
  | cons n ns ih =>
    cases n with
    | strayEnd e => exact Spine.stray ha.1
    | ev e => exact Spine.closed ha.1 (ih ha.2)
    | brk e => exact Spine.closed ha.1 (ih ha.2)
    | loop ls b le => exact Spine.closed ha.1 (ih ha.2)
    | openLoop ls b => exact absurd ha.1 (by simp [Node.closed])

/-- invariant of the matcher's open context: inner levels hold closed nodes, the outermost
level holds top-level nodes -/
def ctxOK : List (Event × List Node) → List Node → Prop
  | [], cur => topLevel cur
  | (ls, outer) :: st, cur => ls.kind = .loopStart ∧ closedL cur ∧ ctxOK st outer

/-- no explicit `END` event in a flat list -/
def NoEnd (l : List Event) : Prop := ∀ e ∈ l, e.kind ≠ .fin

/-- closing: the current level followed by an already-shaped tail -/
theorem spine_close (st : List (Event × List Node)) (cur tail : List Node)
    (h : ctxOK st cur) (ht : Spine (decide (st ≠ [])) tail) :
    Spine false (closeAll st (tail.reverse ++ cur)) := by
  induction st generalizing cur tail with
  | nil =>
    simp only [closeAll, List.reverse_append, List.reverse_reverse]
    exact Spine.of_topLevel ((topLevel_reverse cur).2 h) (by simpa using ht)
  | cons p st ih =>
    obtain ⟨ls, outer⟩ := p
    obtain ⟨h1, h2, h3⟩ := h
    simp only [closeAll, List.reverse_append, List.reverse_reverse]
    have hb : Spine true (cur.reverse ++ tail) :=
      Spine.of_closed ((closedL_reverse cur).2 h2) (by simpa using ht)
    have := ih outer [Node.openLoop ls (cur.reverse ++ tail)] h3 (Spine.opened h1 hb)
    simpa using this

theorem spine_parseAux (l : List Event) (hl : NoEnd l) (st : List (Event × List Node)) (cur : List Node)
    (h : ctxOK st cur) : Spine false (parseAux st cur l) := by
  induction l generalizing st cur with
  | nil =>
    simp only [parseAux]
    have := spine_close st cur [] h Spine.nil
    simpa using this
  | cons e rest ih =>
    have hrest : NoEnd rest := fun x hx => hl x (List.mem_cons_of_mem _ hx)
    have he : e.kind ≠ .fin := hl e (List.mem_cons_self)
    simp only [parseAux]
    split
    · rename_i hk
      apply ih hrest
      cases st with
      | nil => exact ⟨hk, by simp [closedL], h⟩
      | cons p st' => obtain ⟨ls, outer⟩ := p; exact ⟨hk, by simp [closedL], h⟩
    · rename_i hk
      split
      · apply ih hrest; simpa [ctxOK, topLevel, hk] using h
      · rename_i ls outer st'
        obtain ⟨h1, h2, h3⟩ := h
        apply ih hrest
        have hn : Node.closed (Node.loop ls cur.reverse e) := ⟨h1, (closedL_reverse cur).2 h2, hk⟩
        cases st' with
        | nil => simpa [ctxOK, topLevel] using And.intro hn h3
        | cons p st'' =>
          obtain ⟨ls2, outer2⟩ := p
          obtain ⟨g1, g2, g3⟩ := h3
          exact ⟨g1, ⟨hn, g2⟩, g3⟩
    · rename_i hk
      apply ih hrest
      have hn : Node.closed (Node.brk e) := hk
      cases st with
      | nil => simpa [ctxOK, topLevel] using And.intro hn h
      | cons p st' => obtain ⟨ls, outer⟩ := p; exact ⟨h.1, ⟨hn, h.2.1⟩, h.2.2⟩
    · rename_i h1 h2 h3
      have hn : Node.closed (Node.ev e) := by
        show e.kind = .segno ∨ e.kind = .jump ∨ e.kind = .other
        cases hk : e.kind <;> simp_all
      apply ih hrest
      cases st with
      | nil => simpa [ctxOK, topLevel] using And.intro hn h
      | cons p st' => obtain ⟨ls, outer⟩ := p; exact ⟨h.1, ⟨hn, h.2.1⟩, h.2.2⟩

theorem spine_parse (l : List Event) (hl : NoEnd l) : Spine false (parse l) :=
  spine_parseAux l hl [] [] (by simp [ctxOK, topLevel])

end Ctrmml.Tree
