/-
  Helper lemmas for the "extended note" theorems of C05 (no property statements here): the events
  an extended note — a note with its ties, slur, reverse rests — is recorded in, as a prefix of the
  (newest-first) event list on top of the events recorded before the note, and how `add_tie`,
  `add_slur`, `reverse_rest` and the calls that record no duration act on it.
-/
import Ctrmml.Proofs.TrackBuilder
namespace Ctrmml.TrackBuilder
open Ctrmml.Tables Ctrmml.Lexer

/-- ticks an event keeps the key down: the on-time of a NOTE or TIE -/
def keyOn (e : BEvent) : Nat := if e.type = ev_NOTE ∨ e.type = ev_TIE then e.on.toNat else 0

/-- Σ key-on time of the NOTE and TIE events -/
def sumOn : List BEvent → Nat
  | [] => 0
  | e :: es => keyOn e + sumOn es

theorem sumOn_append (a b : List BEvent) : sumOn (a ++ b) = sumOn a + sumOn b := by
  induction a with
  | nil => simp [sumOn]
  | cons x xs ih => simp [sumOn, ih]; omega

/-- an event that occupies no time -/
def ZeroLen (e : BEvent) : Prop := e.on = 0 ∧ e.off = 0

theorem sumOn_zero (l : List BEvent) (h : ∀ x ∈ l, ZeroLen x) : sumOn l = 0 := by
  induction l with
  | nil => rfl
  | cons x xs ih =>
    have hx := h x (by simp)
    have := ih (fun y hy => h y (by simp [hy]))
    simp only [sumOn, keyOn, hx.1, this]
    split <;> simp

theorem sumLen_zero (l : List BEvent) (h : ∀ x ∈ l, ZeroLen x) : sumLen l = 0 := by
  induction l with
  | nil => rfl
  | cons x xs ih =>
    have hx := h x (by simp)
    have := ih (fun y hy => h y (by simp [hy]))
    simp [sumLen, evLen, hx.1, hx.2, this]

theorem keyOn_le (e : BEvent) : keyOn e ≤ evLen e := by
  unfold keyOn evLen; split <;> omega

theorem sumOn_le (l : List BEvent) : sumOn l ≤ sumLen l := by
  induction l with
  | nil => exact Nat.le_refl _
  | cons x xs ih => have := keyOn_le x; simp only [sumOn, sumLen]; omega

theorem modify_mid (a : List BEvent) (x : BEvent) (b : List BEvent) (f : BEvent → BEvent) :
    (a ++ x :: b).modify a.length f = a ++ f x :: b := by
  induction a with
  | nil => simp [List.modify_cons]
  | cons y ys ih => simpa [List.modify_cons] using ih

theorem getElem_mid (a : List BEvent) (x : BEvent) (b : List BEvent) : (a ++ x :: b)[a.length]? = some x := by
  simp

/-! ### calls that record no duration -/

/-- API calls that record no duration: everything but notes, ties, rests, slurs, echoes and
reverse rests; a raw event must have no length -/
def Untimed : Track.Op → Prop
  | .addNote _ _ | .addTie _ | .addRest _ | .addSlur | .addEcho _ | .reverseRest _ => False
  | .addEvent _ _ on off => on = 0 ∧ off = 0
  | _ => True

/-- … that record no event either (settings: octave, length, quantise, early release, shuffle,
measure, echo parameters, key signature, reference) -/
def Setting : Track.Op → Prop
  | .addNote _ _ | .addTie _ | .addRest _ | .addSlur | .addEcho _ | .reverseRest _ | .addEvent _ _ _ _ | .setDrumMode _ => False
  | _ => True

/-- untimed calls whose event, if any, the backward walks of `add_slur` / `reverse_rest` step over -/
def Passable : Track.Op → Prop
  | .addNote _ _ | .addTie _ | .addRest _ | .addSlur | .addEcho _ | .reverseRest _ => False
  | .addEvent ty _ on off =>
    on = 0 ∧ off = 0 ∧ ty ≠ ev_NOTE ∧ ty ≠ ev_TIE ∧ ty ≠ ev_REST ∧ ty ≠ ev_SEGNO ∧ ty ≠ ev_LOOP_END
  | _ => True

theorem Setting.untimed {op : Track.Op} (h : Setting op) : Untimed op := by
  cases op <;> simp_all [Setting, Untimed]

theorem Passable.untimed {op : Track.Op} (h : Passable op) : Untimed op := by
  cases op <;> simp_all [Passable, Untimed]

/-- what an untimed call does to the event list: at most zero-length events on top; `last_note_pos` stays -/
structure UntimedStep (t t' : Track) (z : List BEvent) : Prop where
  ev : t'.revEvents = z ++ t.revEvents
  zero : ∀ x ∈ z, ZeroLen x
  lnp : t'.lastNotePos = t.lastNotePos

theorem UntimedStep.same {t t' : Track} (h1 : t'.revEvents = t.revEvents) (h2 : t'.lastNotePos = t.lastNotePos) :
    UntimedStep t t' [] := ⟨by simpa using h1, by simp, h2⟩

theorem untimed_step (t : Track) (op : Track.Op) (t' : Track) (r : String) (hu : Untimed op)
    (h : t.applyOp op = .ok (t', r)) :
    ∃ z, UntimedStep t t' z ∧ (Setting op → z = []) ∧ (Passable op → ∀ x ∈ z, Transparent x) := by
  unfold Track.applyOp at h
  split at h
  · cases h
  · cases op with
    | addNote n d => exact absurd hu (by simp [Untimed])
    | addTie d => exact absurd hu (by simp [Untimed])
    | addRest d => exact absurd hu (by simp [Untimed])
    | addSlur => exact absurd hu (by simp [Untimed])
    | addEcho d => exact absurd hu (by simp [Untimed])
    | reverseRest d => exact absurd hu (by simp [Untimed])
    | addEvent ty p a b =>
      simp only [Except.ok.injEq, Prod.mk.injEq] at h
      simp only [Untimed] at hu
      refine ⟨[{ type := ty, param := wrapS16 p, on := a, off := b, ref := t.reference }], ⟨?_, ?_, ?_⟩, ?_, ?_⟩
      · rw [← h.1]; rfl
      · intro x hx; simp at hx; subst hx; exact ⟨hu.1, hu.2⟩
      · rw [← h.1]; rfl
      · intro hs; exact absurd hs (by simp [Setting])
      · intro hp x hx
        simp at hx; subst hx
        simp only [Passable] at hp
        exact ⟨hp.2.2.1, hp.2.2.2.1, hp.2.2.2.2.1, hp.2.2.2.2.2.1, hp.2.2.2.2.2.2⟩
    | setDrumMode p =>
      simp only [Except.ok.injEq, Prod.mk.injEq] at h
      refine ⟨[{ type := ev_DRUM_MODE, param := wrapS16 p.toNat, on := 0, off := 0, ref := t.reference }], ⟨?_, ?_, ?_⟩, ?_, ?_⟩
      · rw [← h.1]; rfl
      · intro x hx; simp at hx; subst hx; exact ⟨rfl, rfl⟩
      · rw [← h.1]; rfl
      · intro hs; exact absurd hs (by simp [Setting])
      · intro _ x hx
        simp at hx; subst hx
        exact ⟨(by decide : ev_DRUM_MODE ≠ ev_NOTE), (by decide : ev_DRUM_MODE ≠ ev_TIE), (by decide : ev_DRUM_MODE ≠ ev_REST),
          (by decide : ev_DRUM_MODE ≠ ev_SEGNO), (by decide : ev_DRUM_MODE ≠ ev_LOOP_END)⟩
    | setReference r' =>
      simp only [Except.ok.injEq, Prod.mk.injEq] at h
      exact ⟨[], by rw [← h.1]; exact UntimedStep.same rfl rfl, fun _ => rfl, fun _ x hx => by simp at hx⟩
    | setOctave p =>
      simp only [Except.ok.injEq, Prod.mk.injEq] at h
      exact ⟨[], by rw [← h.1]; exact UntimedStep.same rfl rfl, fun _ => rfl, fun _ x hx => by simp at hx⟩
    | changeOctave p =>
      simp only [Except.ok.injEq, Prod.mk.injEq] at h
      exact ⟨[], by rw [← h.1]; exact UntimedStep.same rfl rfl, fun _ => rfl, fun _ x hx => by simp at hx⟩
    | setDuration d =>
      simp only [Except.ok.injEq, Prod.mk.injEq] at h
      exact ⟨[], by rw [← h.1]; exact UntimedStep.same rfl rfl, fun _ => rfl, fun _ x hx => by simp at hx⟩
    | setQuantize p parts =>
      simp only [Except.ok.injEq, Prod.mk.injEq] at h
      refine ⟨[], ?_, fun _ => rfl, fun _ x hx => by simp at hx⟩
      rw [← h.1]
      unfold Track.setQuantize
      split <;> exact UntimedStep.same rfl rfl
    | setEarlyRelease p =>
      simp only [Except.ok.injEq, Prod.mk.injEq] at h
      exact ⟨[], by rw [← h.1]; exact UntimedStep.same rfl rfl, fun _ => rfl, fun _ x hx => by simp at hx⟩
    | setEcho d v =>
      simp only [Except.ok.injEq, Prod.mk.injEq] at h
      exact ⟨[], by rw [← h.1]; exact UntimedStep.same rfl rfl, fun _ => rfl, fun _ x hx => by simp at hx⟩
    | clearEchoBuffer =>
      simp only [Except.ok.injEq, Prod.mk.injEq] at h
      exact ⟨[], by rw [← h.1]; exact UntimedStep.same rfl rfl, fun _ => rfl, fun _ x hx => by simp at hx⟩
    | setMeasureLen p =>
      simp only [Except.ok.injEq, Prod.mk.injEq] at h
      exact ⟨[], by rw [← h.1]; exact UntimedStep.same rfl rfl, fun _ => rfl, fun _ x hx => by simp at hx⟩
    | setShuffle p =>
      simp only [Except.ok.injEq, Prod.mk.injEq] at h
      exact ⟨[], by rw [← h.1]; exact UntimedStep.same rfl rfl, fun _ => rfl, fun _ x hx => by simp at hx⟩
    | setKeySignature key =>
      have hs := setKeySignature_same t key
      simp only [] at h
      split at h <;> simp only [Except.ok.injEq, Prod.mk.injEq, reduceCtorEq] at h <;> rename_i heq <;>
        (rw [heq] at hs; rw [← h.1]
         exact ⟨[], UntimedStep.same hs.1 hs.2.1, fun _ => rfl, fun _ x hx => by simp at hx⟩)
    | modifyKeySignature n m =>
      have hs := modifyKeySignature_same t n m
      simp only [] at h
      split at h <;> simp only [Except.ok.injEq, Prod.mk.injEq, reduceCtorEq] at h <;> rename_i heq <;>
        (rw [heq] at hs; rw [← h.1]
         exact ⟨[], UntimedStep.same hs.1 hs.2.1, fun _ => rfl, fun _ x hx => by simp at hx⟩)
    | getKeySignature n =>
      simp only [] at h
      split at h <;> simp only [Except.ok.injEq, Prod.mk.injEq, reduceCtorEq] at h <;>
        (rw [← h.1]; exact ⟨[], UntimedStep.same rfl rfl, fun _ => rfl, fun _ x hx => by simp at hx⟩)

theorem untimed_steps (ops : List Track.Op) (t t' : Track) (hu : ∀ o ∈ ops, Untimed o)
    (h : applyOps t ops = .ok t') :
    ∃ z, UntimedStep t t' z ∧ ((∀ o ∈ ops, Setting o) → z = []) ∧ ((∀ o ∈ ops, Passable o) → ∀ x ∈ z, Transparent x) := by
  induction ops generalizing t with
  | nil =>
    simp only [applyOps, Except.ok.injEq] at h
    subst h
    exact ⟨[], UntimedStep.same rfl rfl, fun _ => rfl, fun _ x hx => by simp at hx⟩
  | cons op ops ih =>
    unfold applyOps at h
    cases ha : t.applyOp op with
    | error e => rw [ha] at h; cases h
    | ok pr =>
      obtain ⟨u, r⟩ := pr
      rw [ha] at h
      simp only [] at h
      obtain ⟨z1, s1, e1, p1⟩ := untimed_step t op u r (hu op (by simp)) ha
      obtain ⟨z2, s2, e2, p2⟩ := ih u (fun o ho => hu o (by simp [ho])) h
      refine ⟨z2 ++ z1, ⟨?_, ?_, ?_⟩, ?_, ?_⟩
      · rw [s2.ev, s1.ev, List.append_assoc]
      · intro x hx
        rcases List.mem_append.mp hx with hx | hx
        · exact s2.zero x hx
        · exact s1.zero x hx
      · rw [s2.lnp, s1.lnp]
      · intro hs
        rw [e1 (hs op (by simp)), e2 (fun o ho => hs o (by simp [ho]))]
        rfl
      · intro hp x hx
        rcases List.mem_append.mp hx with hx | hx
        · exact p2 (fun o ho => hp o (by simp [ho])) x hx
        · exact p1 (hp op (by simp)) x hx

/-! ### the extended note as a prefix of the event list -/

/-- A live extended note on top of `base` (the events recorded before its NOTE): the events since
are `post ++ L :: pre`, newest first — `L` is the NOTE/TIE event `last_note_pos` points at, `pre`
the pieces that earlier ties split off (keyed on for all of their length), `post` events without
length recorded since `L`. -/
structure Live (base : List BEvent) (t : Track) (post : List BEvent) (L : BEvent) (pre : List BEvent) : Prop where
  ev : t.revEvents = post ++ L :: (pre ++ base)
  lnp : t.lastNotePos = some (pre.length + base.length)
  ty : L.type = ev_NOTE ∨ L.type = ev_TIE
  post0 : ∀ x ∈ post, ZeroLen x
  preOn : sumOn pre = sumLen pre

theorem Live.index {base : List BEvent} {t : Track} {post : List BEvent} {L : BEvent} {pre : List BEvent}
    (h : Live base t post L pre) : t.revEvents.length - 1 - (pre.length + base.length) = post.length := by
  rw [h.ev]; simp

theorem Live.getLast {base : List BEvent} {t : Track} {post : List BEvent} {L : BEvent} {pre : List BEvent}
    (h : Live base t post L pre) : t.revEvents[t.revEvents.length - 1 - (pre.length + base.length)]? = some L := by
  rw [h.index, h.ev]; exact getElem_mid _ _ _

theorem Live.groupLen {base : List BEvent} {t : Track} {post : List BEvent} {L : BEvent} {pre : List BEvent}
    (h : Live base t post L pre) : groupLen t = evLen L := by
  simp only [TrackBuilder.groupLen, h.lnp, h.getLast]

theorem Live.keyOnL {base : List BEvent} {t : Track} {post : List BEvent} {L : BEvent} {pre : List BEvent}
    (h : Live base t post L pre) : keyOn L = L.on.toNat := by
  unfold keyOn; rw [if_pos h.ty]

/-- the sums over the extended note -/
theorem Live.sums {base : List BEvent} {t : Track} {post : List BEvent} {L : BEvent} {pre : List BEvent}
    (h : Live base t post L pre) :
    sumLen (post ++ L :: pre) = sumLen pre + evLen L ∧ sumOn (post ++ L :: pre) = sumLen pre + L.on.toNat := by
  rw [sumLen_append, sumOn_append, sumLen_zero _ h.post0, sumOn_zero _ h.post0]
  simp only [sumLen, sumOn, h.keyOnL, h.preOn]
  omega

theorem live_addNote (t : Track) (n : Int) (d : UInt16) : Live t.revEvents (t.addNote n d) [] (noteEvent t n d) [] :=
  ⟨by rw [addNote_revEvents]; rfl, by rw [addNote_lastNotePos]; simp, Or.inl rfl, by simp, rfl⟩

theorem Live.untimed {base : List BEvent} {t t' : Track} {post : List BEvent} {L : BEvent} {pre z : List BEvent}
    (h : Live base t post L pre) (s : UntimedStep t t' z) : Live base t' (z ++ post) L pre :=
  ⟨by rw [s.ev, h.ev, List.append_assoc], by rw [s.lnp, h.lnp], h.ty,
   fun x hx => by
     rcases List.mem_append.mp hx with hx | hx
     · exact s.zero x hx
     · exact h.post0 x hx,
   h.preOn⟩

/-- what `add_tie` leaves behind -/
inductive TieOutcome (base : List BEvent) (t' : Track) (g : List BEvent) : Prop
  /-- the note can be extended again: `last_note_pos` points at the newest event of `g` -/
  | live (L' : BEvent) (pre' : List BEvent) (hg : g = L' :: pre') (h : Live base t' [] L' pre')
  /-- the tie was recorded as a REST and the note is forgotten (`last_note_pos = −1`) -/
  | closed (h : t'.lastNotePos = none)

/-- the law of `add_tie` on a live extended note: with `new` = length of the event it extends +
the tie's duration, the events of the note afterwards last `Σ pre + new` ticks and are keyed on
for `Σ pre + on_time(new)` ticks — in each of the three cases (extend, TIE, REST) -/
theorem live_addTie {base : List BEvent} {t : Track} {post : List BEvent} {L : BEvent} {pre : List BEvent}
    (h : Live base t post L pre) (hI : t.Inv) (d : UInt16)
    (hd : t.earlyRelease.toNat = 0 ∨ (t.effDur d).toNat ≠ 0) (hw : evLen L + (t.effDur d).toNat < 65536) :
    ∃ g, (t.addTie d).revEvents = g ++ base ∧
      sumLen g = sumLen pre + (evLen L + (t.effDur d).toNat) ∧
      sumOn g = sumLen pre + onRule t (evLen L + (t.effDur d).toNat) ∧
      TieOutcome base (t.addTie d) g ∧
      (post = [] → ∃ L', g = L' :: pre ∧ Live base (t.addTie d) [] L' pre) := by
  have hb : evLen L < 65536 := hI.ev L (by rw [h.ev]; simp)
  have hold : (L.on + L.off).toNat = evLen L := by
    simp only [evLen, UInt16.toNat_add] at hb ⊢; omega
  have hnew : (L.on + L.off + t.effDur d).toNat = evLen L + (t.effDur d).toNat := by
    rw [UInt16.toNat_add, hold]; omega
  have hd' : t.earlyRelease.toNat = 0 ∨ (L.on + L.off + t.effDur d).toNat ≠ 0 := by
    rcases hd with h0 | h0
    · exact Or.inl h0
    · exact Or.inr (by omega)
  have hs := on_off_sum t hI.q_le (L.on + L.off + t.effDur d) hd'
  have hr := onTime_toNat t hI.q_le (L.on + L.off + t.effDur d)
  rw [hnew] at hr hs
  have hE : evLen L = L.on.toNat + L.off.toNat := rfl
  have hc := addTie_cases t d
  cases post with
  | nil =>
    have hev : t.revEvents = L :: (pre ++ base) := by simpa using h.ev
    have hl : t.lastNotePos = some (pre ++ base).length := by rw [h.lnp]; simp
    obtain ⟨e1, e2⟩ := hc.2.1 L (pre ++ base) hev hl
    have hlive : Live base (t.addTie d) []
        { L with on := t.onTime (L.on + L.off + t.effDur d), off := t.offTime (L.on + L.off + t.effDur d) } pre :=
      ⟨by rw [e1]; rfl, by rw [e2]; simp, h.ty, by simp, h.preOn⟩
    refine ⟨{ L with on := t.onTime (L.on + L.off + t.effDur d), off := t.offTime (L.on + L.off + t.effDur d) } :: pre,
      by rw [e1]; rfl, ?_, ?_, .live _ _ rfl hlive, fun _ => ⟨_, rfl, hlive⟩⟩
    · simp only [sumLen, evLen]; omega
    · simp only [sumOn, keyOn, h.ty, if_true, h.preOn]; omega
  | cons x xs =>
    have hlen : t.revEvents.length = (x :: xs).length + 1 + (pre.length + base.length) := by
      rw [h.ev]; simp; omega
    have hp : pre.length + base.length + 1 < t.revEvents.length := by rw [hlen]; simp; omega
    obtain ⟨c1, c2⟩ := hc.2.2 (pre.length + base.length) L h.lnp hp h.getLast
    have hmod : ∀ f : BEvent → BEvent, t.revEvents.modify (t.revEvents.length - 1 - (pre.length + base.length)) f =
        (x :: xs) ++ f L :: (pre ++ base) := by
      intro f; rw [h.index, h.ev]; exact modify_mid _ _ _ f
    have hpost0l := sumLen_zero _ h.post0
    have hpost0o := sumOn_zero _ h.post0
    by_cases hgt : t.onTime (L.on + L.off + t.effDur d) > L.on + L.off
    · obtain ⟨e1, e2⟩ := c1 hgt
      have hgt' : evLen L < onRule t (evLen L + (t.effDur d).toNat) := by
        have := UInt16.lt_iff_toNat_lt.mp hgt
        rw [hold, hr] at this; exact this
      have hle : (L.on + L.off) ≤ t.onTime (L.on + L.off + t.effDur d) :=
        UInt16.le_iff_toNat_le.mpr (by rw [hold, hr]; omega)
      have hsub := UInt16.toNat_sub_of_le _ _ hle
      rw [hold, hr] at hsub
      rw [hmod] at e1
      -- the old event, now keyed on for all of its length
      have hL0l : evLen { L with on := L.on + L.off, off := 0 } = evLen L := by
        simp only [evLen, UInt16.toNat_zero]; omega
      have hL0o : keyOn { L with on := L.on + L.off, off := 0 } = evLen L := by
        simp only [keyOn, h.ty, if_true]; omega
      have hpl : sumLen ((x :: xs) ++ { L with on := L.on + L.off, off := 0 } :: pre) = evLen L + sumLen pre := by
        rw [sumLen_append, hpost0l]; simp only [sumLen, hL0l]; omega
      have hpo : sumOn ((x :: xs) ++ { L with on := L.on + L.off, off := 0 } :: pre) = evLen L + sumLen pre := by
        rw [sumOn_append, hpost0o]; simp only [sumOn, hL0o, h.preOn]; omega
      -- the new TIE event
      have hTl : evLen { type := ev_TIE, param := 0, on := t.onTime (L.on + L.off + t.effDur d) - (L.on + L.off),
                         off := t.offTime (L.on + L.off + t.effDur d), ref := t.reference } =
          evLen L + (t.effDur d).toNat - evLen L := by
        simp only [evLen]; omega
      have hTo : keyOn { type := ev_TIE, param := 0, on := t.onTime (L.on + L.off + t.effDur d) - (L.on + L.off),
                         off := t.offTime (L.on + L.off + t.effDur d), ref := t.reference } =
          onRule t (evLen L + (t.effDur d).toNat) - evLen L := by
        simp [keyOn, hsub]
      have hlive : Live base (t.addTie d) []
          { type := ev_TIE, param := 0, on := t.onTime (L.on + L.off + t.effDur d) - (L.on + L.off),
            off := t.offTime (L.on + L.off + t.effDur d), ref := t.reference }
          ((x :: xs) ++ { L with on := L.on + L.off, off := 0 } :: pre) := by
        refine ⟨?_, ?_, Or.inr rfl, by simp, by rw [hpo, hpl]⟩
        · rw [e1]; simp
        · rw [e2, hlen]; simp; omega
      refine ⟨{ type := ev_TIE, param := 0, on := t.onTime (L.on + L.off + t.effDur d) - (L.on + L.off),
                off := t.offTime (L.on + L.off + t.effDur d), ref := t.reference } ::
              ((x :: xs) ++ { L with on := L.on + L.off, off := 0 } :: pre), ?_, ?_, ?_, .live _ _ rfl hlive,
              fun hnil => by cases hnil⟩
      · rw [e1]; simp
      · rw [sumLen, hTl, hpl]; omega
      · rw [sumOn, hTo, hpo]; omega
    · obtain ⟨e1, e2⟩ := c2 hgt
      have hle : t.onTime (L.on + L.off + t.effDur d) ≤ (L.on + L.off) := UInt16.le_iff_toNat_le.mpr (by
        have : ¬ (L.on + L.off).toNat < (t.onTime (L.on + L.off + t.effDur d)).toNat := fun hh => hgt (UInt16.lt_iff_toNat_lt.mpr hh)
        omega)
      have hsub := UInt16.toNat_sub_of_le _ _ hle
      have hle' := UInt16.le_iff_toNat_le.mp hle
      rw [hold, hr] at hsub hle'
      rw [hmod] at e1
      have hL1l : evLen { L with on := t.onTime (L.on + L.off + t.effDur d),
                                 off := L.on + L.off - t.onTime (L.on + L.off + t.effDur d) } = evLen L := by
        simp only [evLen]; omega
      have hL1o : keyOn { L with on := t.onTime (L.on + L.off + t.effDur d),
                                 off := L.on + L.off - t.onTime (L.on + L.off + t.effDur d) } =
          onRule t (evLen L + (t.effDur d).toNat) := by
        simp only [keyOn, h.ty, if_true]; omega
      have hRl : evLen { type := ev_REST, param := 0, on := 0, off := t.effDur d, ref := t.reference } = (t.effDur d).toNat := by
        simp [evLen]
      have hRo : keyOn { type := ev_REST, param := 0, on := 0, off := t.effDur d, ref := t.reference } = 0 := by
        simp [keyOn]
      refine ⟨{ type := ev_REST, param := 0, on := 0, off := t.effDur d, ref := t.reference } ::
              ((x :: xs) ++ { L with on := t.onTime (L.on + L.off + t.effDur d),
                                      off := L.on + L.off - t.onTime (L.on + L.off + t.effDur d) } :: pre), ?_, ?_, ?_,
              .closed e2, fun hnil => by cases hnil⟩
      · rw [e1]; simp
      · rw [sumLen, hRl, sumLen_append, hpost0l]; simp only [sumLen, hL1l]; omega
      · rw [sumOn, hRo, sumOn_append, hpost0o]; simp only [sumOn, hL1o, h.preOn]; omega

/-! ### slur and reverse rest on a live extended note -/

/-- the event `add_slur` records -/
def slurEvent (t : Track) : BEvent := { type := ev_SLUR, param := 0, on := 0, off := 0, ref := t.reference }

theorem slurEvent_transparent (t : Track) : Transparent (slurEvent t) :=
  ⟨(by decide : ev_SLUR ≠ ev_NOTE), (by decide : ev_SLUR ≠ ev_TIE), (by decide : ev_SLUR ≠ ev_REST),
   (by decide : ev_SLUR ≠ ev_SEGNO), (by decide : ev_SLUR ≠ ev_LOOP_END)⟩

/-- `add_slur` reaches the event `last_note_pos` points at across transparent events and keys it
on for all of its length -/
theorem live_addSlur {base : List BEvent} {t : Track} {post : List BEvent} {L : BEvent} {pre : List BEvent}
    (h : Live base t post L pre) (hI : t.Inv) (hpost : ∀ x ∈ post, Transparent x) :
    t.addSlur.2 = 0 ∧
    Live base t.addSlur.1 (slurEvent t :: post) { L with on := L.on + L.off, off := 0 } pre ∧
    evLen { L with on := L.on + L.off, off := 0 } = evLen L ∧
    ({ L with on := L.on + L.off, off := 0 } : BEvent).on.toNat = evLen L := by
  have hb : evLen L < 65536 := hI.ev L (by rw [h.ev]; simp)
  have hold : (L.on + L.off).toNat = evLen L := by
    simp only [evLen, UInt16.toNat_add] at hb ⊢; omega
  have hw := slurBack_walk (slurEvent t :: post) L (pre ++ base) (fun x hx => by
    simp at hx
    rcases hx with rfl | hx
    · exact slurEvent_transparent t
    · exact hpost x hx)
  have hev : (t.addEvent ev_SLUR).revEvents = (slurEvent t :: post) ++ L :: (pre ++ base) := by
    simp [Track.addEvent, h.ev, wrapS16, slurEvent]
  have hsb := hw.1 h.ty
  have e1 : t.addSlur.1.revEvents = (slurEvent t :: post) ++ { L with on := L.on + L.off, off := 0 } :: (pre ++ base) := by
    unfold Track.addSlur
    simp only [hev, hsb]
  have e2 : t.addSlur.2 = 0 := by
    unfold Track.addSlur
    simp only [hev, hsb]
  have e3 : t.addSlur.1.lastNotePos = t.lastNotePos := by
    unfold Track.addSlur
    simp only [hev, hsb]
    rfl
  refine ⟨e2, ⟨e1, by rw [e3, h.lnp], h.ty, ?_, h.preOn⟩, ?_, hold⟩
  · intro x hx
    simp at hx
    rcases hx with rfl | hx
    · exact ⟨rfl, rfl⟩
    · exact h.post0 x hx
  · have hE : evLen L = L.on.toNat + L.off.toNat := rfl
    simp only [evLen, UInt16.toNat_zero]; omega

/-- `reverse_rest d` with `d` shorter than the event `last_note_pos` points at: the event loses
`d` ticks, silence first -/
theorem live_reverseRest {base : List BEvent} {t : Track} {post : List BEvent} {L : BEvent} {pre : List BEvent}
    (h : Live base t post L pre) (hpost : ∀ x ∈ post, Transparent x) (d : UInt16) (hd : d.toNat < evLen L) :
    (t.reverseRest d).2 = .done ∧
    ∃ L', Live base (t.reverseRest d).1 post L' pre ∧ evLen L' = evLen L - d.toNat ∧
      L'.on.toNat = min L.on.toNat (evLen L - d.toNat) := by
  have hw := (rrBack_walk d post L (pre ++ base) hpost).1 (by rcases h.ty with h1 | h1; exact Or.inl h1; exact Or.inr (Or.inl h1))
  have e1 : (t.reverseRest d).2 = (Track.rrBack d t.revEvents).1 := rfl
  have e2 : (t.reverseRest d).1.revEvents = (Track.rrBack d t.revEvents).2 := rfl
  have e3 : (t.reverseRest d).1.lastNotePos = t.lastNotePos := rfl
  have hE : evLen L = L.on.toNat + L.off.toNat := rfl
  rw [h.ev, hw] at e1 e2
  by_cases hgt : d > L.off
  · have hlt : L.off.toNat < d.toNat := UInt16.lt_iff_toNat_lt.mp hgt
    have hle : L.off ≤ d := UInt16.le_iff_toNat_le.mpr (by omega)
    have hsub := UInt16.toNat_sub_of_le _ _ hle
    have hlt2 : d - L.off < L.on := UInt16.lt_iff_toNat_lt.mpr (by rw [hsub]; omega)
    have hle2 : d - L.off ≤ L.on := UInt16.le_iff_toNat_le.mpr (by rw [hsub]; omega)
    have hsub2 := UInt16.toNat_sub_of_le _ _ hle2
    simp only [hgt, hlt2, if_true] at e1 e2
    refine ⟨e1, { L with off := 0, on := L.on - (d - L.off) }, ⟨e2, by rw [e3, h.lnp], h.ty, h.post0, h.preOn⟩, ?_, ?_⟩
    · simp only [evLen, UInt16.toNat_zero]; omega
    · show (L.on - (d - L.off)).toNat = _
      rw [hsub2, hsub]; omega
  · have hle : d ≤ L.off := UInt16.le_iff_toNat_le.mpr (by
      have : ¬ L.off.toNat < d.toNat := fun hh => hgt (UInt16.lt_iff_toNat_lt.mpr hh)
      omega)
    have hsub := UInt16.toNat_sub_of_le _ _ hle
    have hle' := UInt16.le_iff_toNat_le.mp hle
    simp only [hgt, if_false] at e1 e2
    refine ⟨e1, { L with off := L.off - d }, ⟨e2, by rw [e3, h.lnp], h.ty, h.post0, h.preOn⟩, ?_, ?_⟩
    · simp only [evLen]; omega
    · show L.on.toNat = _
      omega

/-! ### call sequences of an extended note -/

theorem untimed_stepOk (t : Track) (op : Track.Op) (h : Untimed op) : StepOk t op := by
  cases op <;> simp_all [StepOk, Untimed]

theorem untimed_stepsOk (ops : List Track.Op) (t : Track) (h : ∀ o ∈ ops, Untimed o) : StepsOk t ops := by
  induction ops generalizing t with
  | nil => trivial
  | cons op ops ih =>
    unfold StepsOk
    refine ⟨untimed_stepOk t op (h op (by simp)), ?_⟩
    cases t.applyOp op with
    | error e => trivial
    | ok pr => exact ih pr.1 (fun o ho => h o (by simp [ho]))

theorem untimed_written (t : Track) (op : Track.Op) (h : Untimed op) : written t op = 0 := by
  cases op <;> simp_all [written, Untimed]

theorem untimed_writtenSum (ops : List Track.Op) (t : Track) (h : ∀ o ∈ ops, Untimed o) : writtenSum t ops = 0 := by
  induction ops generalizing t with
  | nil => rfl
  | cons op ops ih =>
    unfold writtenSum
    rw [untimed_written t op (h op (by simp))]
    cases t.applyOp op with
    | error e => rfl
    | ok pr => simpa using ih pr.1 (fun o ho => h o (by simp [ho]))

theorem applyOp_addTie (t : Track) (d : UInt16) : t.applyOp (.addTie d) = .ok (t.addTie d, "") := by
  simp [Track.applyOp, Track.opUB]

/-- settings and ties directly behind the note: the note stays one event, the newest -/
theorem ext_steps (base : List BEvent) (ext : List Track.Op) (u u' : Track) (hI : u.Inv)
    (hl : ∃ L, Live base u [] L []) (hext : ∀ o ∈ ext, Setting o ∨ ∃ d, o = Track.Op.addTie d)
    (hok : StepsOk u ext) (h : applyOps u ext = .ok u') : u'.Inv ∧ ∃ L, Live base u' [] L [] := by
  induction ext generalizing u with
  | nil =>
    simp only [applyOps, Except.ok.injEq] at h
    subst h
    exact ⟨hI, hl⟩
  | cons op ops ih =>
    unfold applyOps at h
    unfold StepsOk at hok
    cases ha : u.applyOp op with
    | error e => rw [ha] at h; cases h
    | ok pr =>
      obtain ⟨v, r⟩ := pr
      rw [ha] at h hok
      simp only [] at h hok
      have hIv := (applyOp_conserves u op v r hI hok.1 ha).1
      refine ih v hIv ?_ (fun o ho => hext o (by simp [ho])) hok.2 h
      obtain ⟨L, hL⟩ := hl
      rcases hext op (by simp) with hs | ⟨d, rfl⟩
      · obtain ⟨z, s1, e1, _⟩ := untimed_step u op v r hs.untimed ha
        have := hL.untimed s1
        rw [e1 hs] at this
        exact ⟨L, this⟩
      · rw [applyOp_addTie] at ha
        simp only [Except.ok.injEq, Prod.mk.injEq] at ha
        have hk : StepOk u (.addTie d) := hok.1
        simp only [StepOk, hL.groupLen] at hk
        obtain ⟨g, _, _, _, _, hnil⟩ := live_addTie hL hI d hk.1 hk.2
        obtain ⟨L', _, hL'⟩ := hnil rfl
        rw [ha.1] at hL'
        exact ⟨L', hL'⟩

end Ctrmml.TrackBuilder
