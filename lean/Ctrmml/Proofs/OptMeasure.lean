/-
  C01, layer 3 — the termination measure of the pass loop (DESIGN §6 C01): the total number of
  events of the song and the number of events that are not loop brackets/breaks.  A loop fold
  erases `L ≥ 3` events, the first of which is not a bracket, and inserts 2 or 3 brackets.
-/
import Ctrmml.Proofs.OptSubPass
namespace Ctrmml.OptSteps
open Ctrmml Ctrmml.Tree Ctrmml.Expand Ctrmml.Rewrite Ctrmml.Opt Tables

/-- weighted number of events of a track -/
def wsum (w : Event → Nat) (l : List Event) : Nat := (l.map w).sum

theorem wsum_append (w : Event → Nat) (a b : List Event) : wsum w (a ++ b) = wsum w a + wsum w b := by
  simp [wsum]

theorem wsum_cons (w : Event → Nat) (e : Event) (a : List Event) : wsum w (e :: a) = w e + wsum w a := by
  simp [wsum]

theorem wsum_nil (w : Event → Nat) : wsum w [] = 0 := rfl

/-- weighted number of events of a song -/
def songW (w : Event → Nat) (S : Song) : Nat := (S.tracks.map fun p => wsum w p.2).sum

theorem songW_replace (w : Event → Nat) : ∀ (l : List (Nat × List Event)) (id : Nat) (x evs : List Event),
    (l.map (·.1)).Nodup → l.lookup id = some x →
    ((l.map fun p => if p.1 == id then (id, evs) else p).map fun p => wsum w p.2).sum + wsum w x =
      (l.map fun p => wsum w p.2).sum + wsum w evs := by
  intro l
  induction l with
  | nil => intro id x evs _ h; simp [List.lookup] at h
  | cons p r ih =>
    intro id x evs hnd h
    simp only [List.map_cons, List.nodup_cons] at hnd
    by_cases hp : id = p.1
    · subst hp
      simp only [List.lookup, beq_self_eq_true, Option.some.injEq] at h
      subst h
      have hrest : (r.map fun q => if q.1 == p.1 then (p.1, evs) else q) = r := by
        conv => rhs; rw [← List.map_id r]
        apply List.map_congr_left
        intro q hq
        have : q.1 ≠ p.1 := fun he => hnd.1 (by rw [← he]; exact List.mem_map.2 ⟨q, hq, rfl⟩)
        simp [this]
      simp only [List.map_cons, beq_self_eq_true, if_true, List.sum_cons, hrest]
      omega
    · have hb : (id == p.1) = false := by simp [hp]
      have hb' : (p.1 == id) = false := by simp; exact fun h => hp h.symm
      simp only [List.lookup, hb] at h
      have := ih id x evs hnd.2 h
      simp only [List.map_cons, hb', Bool.false_eq_true, if_false, List.sum_cons]
      omega

theorem songW_setTrack (w : Event → Nat) {S : Song} {id : Nat} {x : List Event}
    (hnd : (S.tracks.map (·.1)).Nodup) (hx : S.track? id = some x) (evs : List Event) :
    songW w (setTrack S id evs) + wsum w x = songW w S + wsum w evs := by
  unfold songW
  rw [setTrack_tracks hx]
  exact songW_replace w S.tracks id x evs hnd hx

/-- the number of events of a song -/
def totalEvents (S : Song) : Nat := songW (fun _ => 1) S

def isBracket (e : Event) : Bool :=
  e.type == ev_LOOP_START || e.type == ev_LOOP_END || e.type == ev_LOOP_BREAK

/-- the number of events that are not loop brackets or breaks -/
def playedEvents (S : Song) : Nat := songW (fun e => if isBracket e then 0 else 1) S

theorem wsum_one (l : List Event) : wsum (fun _ => 1) l = l.length := by
  induction l with
  | nil => rfl
  | cons e r ih => rw [wsum_cons, ih, List.length_cons]; omega

/-- weight of the folded track against the original one -/
theorem foldedTrack_weight (w : Event → Nat) {src : List Event} {p q L : Nat} (hpq : p < q)
    (hlen : q + L ≤ src.length) (hrep : L / (q - p) + 2 < 32768) :
    wsum w (foldedTrack src p q L) + wsum w ((src.drop q).take L) =
      wsum w src + w lsEv + (if L % (q - p) ≠ 0 then w lbEv else 0) +
        w (leEv ((L / (q - p) : Nat) + (if L % (q - p) ≠ 0 then 2 else 1))) := by
  have hs := split4 src p q L (Nat.le_of_lt hpq)
  by_cases hb : L % (q - p) = 0
  · rw [foldedTrack_nobreak hpq hlen hb hrep]
    conv => rhs; rw [hs]
    simp only [hb, ne_eq, not_true_eq_false, if_false, wsum_append, wsum_cons, wsum_nil]
    omega
  · rw [foldedTrack_break hpq hlen hb hrep]
    conv => rhs; rw [hs]
    have hA : wsum w ((src.drop p).take (q - p)) =
        wsum w (((src.drop p).take (q - p)).take (L % (q - p))) +
        wsum w (((src.drop p).take (q - p)).drop (L % (q - p))) := by
      rw [← wsum_append, List.take_append_drop]
    simp only [hb, ne_eq, not_false_eq_true, if_true, wsum_append, wsum_cons, wsum_nil, hA]
    omega

/-! ## small facts about the inserted events -/

theorem lsEv_kind : lsEv.kind = .loopStart := by decide
theorem lbEv_kind : lbEv.kind = .loopBreak := by decide
theorem leEv_kind (n : Int) : (leEv n).kind = .loopEnd := by
  show kindOfType ev_LOOP_END = .loopEnd
  decide

theorem jumpEvent_kind (subId : Int) : (jumpEvent subId).kind = .jump := by
  show kindOfType ev_JUMP = .jump
  decide

theorem lookup_map_snd {β γ : Type} (l : List (Nat × β)) (f : Nat → β → γ) (k : Nat) :
    (l.map fun p => (p.1, f p.1 p.2)).lookup k = (l.lookup k).map (f k) := by
  induction l with
  | nil => rfl
  | cons p r ih =>
    by_cases h : k = p.1
    · subst h; simp [List.lookup]
    · have h' : (k == p.1) = false := by simp [h]
      simp [List.lookup, h', ih]

theorem isBracket_ls : isBracket lsEv = true := by decide
theorem isBracket_lb : isBracket lbEv = true := by decide
theorem isBracket_le (n : Int) : isBracket (leEv n) = true := by
  show (ev_LOOP_END == ev_LOOP_START || ev_LOOP_END == ev_LOOP_END || ev_LOOP_END == ev_LOOP_BREAK) = true
  decide


end Ctrmml.OptSteps
