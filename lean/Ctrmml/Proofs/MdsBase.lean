/- Helper lemmas for C11: the base of a 2op instrument is always a 30-byte FM image
   (state invariant of `read_song`; no property statements). -/
import Ctrmml.Proofs.MdsData
namespace Ctrmml.MdsData

/-! ## the maps -/

theorem mget_mset (m : List (Nat × Int)) (k k' : Nat) (v : Int) :
    mget (mset m k v) k' = if k' = k then some v else mget m k' := by
  unfold mset
  split
  · rename_i hany
    have hf : ∀ kv : Nat × Int, ((if kv.1 == k then (k, v) else kv).1 == k') = (kv.1 == k') := by
      intro kv
      by_cases h : kv.1 = k <;> simp [h]
    have hcomp : ((fun x : Nat × Int => x.1 == k') ∘ fun kv => if kv.1 == k then (k, v) else kv)
        = fun x => x.1 == k' := funext hf
    simp only [mget, List.find?_map, hcomp]
    by_cases hk : k' = k
    · subst hk
      obtain ⟨x, hx, hxk⟩ := List.any_eq_true.mp hany
      cases hfind : m.find? (fun x => x.1 == k') with
      | none =>
        have := List.find?_eq_none.mp hfind x hx
        simp_all
      | some y =>
        have hy := List.find?_some hfind
        simp only [beq_iff_eq] at hy
        simp [hy]
    · simp only [hk, if_false]
      cases hfind : m.find? (fun x => x.1 == k') with
      | none => simp
      | some y =>
        have hy := List.find?_some hfind
        simp only [beq_iff_eq] at hy
        have : ¬ y.1 = k := by rw [hy]; exact hk
        simp [this]
  · rename_i hany
    simp only [Bool.not_eq_true, List.any_eq_false, beq_iff_eq] at hany
    simp only [mget, List.find?_append]
    by_cases hk : k' = k
    · subst hk
      have : m.find? (fun kv => kv.1 == k') = none := by
        simp only [List.find?_eq_none, beq_iff_eq]
        exact hany
      simp [this]
    · have hne : ¬ k = k' := fun h => hk h.symm
      simp only [hk, if_false]
      cases m.find? (fun kv => kv.1 == k') <;> simp [hne]

/-! ## the bank -/

/-- `add_unique_data` returns an index at which the bank holds the data, and keeps every entry -/
theorem addUnique_spec (st st' : State) (d : NBytes) (idx : Nat) (h : addUnique st d = .ok (st', idx)) :
    st'.bank[idx]? = some d ∧ (∀ (i : Nat) (b : NBytes), st.bank[i]? = some b → st'.bank[i]? = some b) ∧
      st'.envMap = st.envMap ∧ st'.tyMap = st.tyMap := by
  unfold addUnique findIdx at h
  by_cases hlt : st.bank.findIdx (· == d) < st.bank.length
  · simp only [hlt, if_true, Except.ok.injEq, Prod.mk.injEq] at h
    obtain ⟨rfl, rfl⟩ := h
    refine ⟨?_, fun _ _ h => h, rfl, rfl⟩
    have := List.findIdx_getElem (w := hlt)
    simp only [beq_iff_eq] at this
    rw [List.getElem?_eq_getElem hlt, this]
  · simp only [hlt, if_false] at h
    split at h
    · cases h
    · simp only [Except.ok.injEq, Prod.mk.injEq] at h
      obtain ⟨rfl, rfl⟩ := h
      refine ⟨by simp, ?_, rfl, rfl⟩
      intro i b hb
      have hi : i < st.bank.length := by
        rcases Nat.lt_or_ge i st.bank.length with h | h
        · exact h
        · simp [List.getElem?_eq_none h] at hb
      simp only [List.getElem?_append_left hi]
      exact hb

theorem fm4opBytes_length (td : List Nat) (tr : Nat) : (fm4opBytes td tr).length = 30 := by
  simp [fm4opBytes, List.range_succ, List.flatMap_append]

theorem fm2opBytes_length (base : NBytes) (td : List Nat) : (fm2opBytes base td).length = base.length := by
  simp [fm2opBytes]

/-! ## the invariant -/

/-- every instrument of type FM has its envelope entry in the bank, and that entry is a 30-byte
register image -/
def FmInv (st : State) : Prop :=
  ∀ id, mget st.tyMap id = some (Tables.mdsdrv_INS_FM : Int) →
    ∃ bi b, mget st.envMap id = some bi ∧ st.bank[bi.toNat]? = some b ∧ b.length = 30

theorem FmInv_init (noext : Bool) : FmInv (initState noext) := by
  intro id h
  simp only [initState, mget, List.find?_cons, List.find?_nil] at h
  split at h
  · simp [Tables.mdsdrv_INS_UNDEFINED, Tables.mdsdrv_INS_FM] at h
  · simp at h

/-- storing a 30-byte image for `id` with type FM keeps the invariant -/
theorem FmInv_store (st st1 : State) (d : NBytes) (idx : Nat) (id : Nat) (tr : Int) (hinv : FmInv st)
    (hu : addUnique st d = .ok (st1, idx)) (hd : d.length = 30) :
    FmInv { st1 with envMap := mset st1.envMap id idx, trMap := mset st1.trMap id tr,
                     tyMap := mset st1.tyMap id Tables.mdsdrv_INS_FM } := by
  obtain ⟨h1, h2, h3, h4⟩ := addUnique_spec st st1 d idx hu
  intro id' hty
  simp only [mget_mset] at hty ⊢
  by_cases hk : id' = id
  · simp only [hk, if_true]
    exact ⟨idx, d, rfl, by simpa using h1, hd⟩
  · simp only [hk, if_false] at hty ⊢
    rw [h4] at hty
    obtain ⟨bi, b, e1, e2, e3⟩ := hinv id' hty
    exact ⟨bi, b, by rw [h3]; exact e1, h2 _ _ e2, e3⟩

theorem FmInv_fm4op (st st' : State) (id : Nat) (tag : List String) (hinv : FmInv st)
    (h : addInsFm4op st id tag = .ok st') : FmInv st' := by
  unfold addInsFm4op at h
  split at h
  · cases h
  · simp only at h
    split at h
    · cases h
    · rename_i st1 idx hu
      simp only [Except.ok.injEq] at h
      subst h
      exact FmInv_store st st1 _ idx id _ hinv hu (fm4opBytes_length _ _)

/-- `add_ins_fm_2op` succeeds only on a base that is a 30-byte FM image, and keeps the invariant -/
theorem FmInv_fm2op (st st' : State) (id : Nat) (tag : List String) (hinv : FmInv st)
    (h : addInsFm2op st id tag = .ok st') :
    FmInv st' ∧ ∃ bi base, mget st.envMap (nth ((tag.take 6).map fun t => u8 (tokVal t)) 0) = some bi ∧
      st.bank[bi.toNat]? = some base ∧ base.length = 30 := by
  unfold addInsFm2op at h
  split at h
  · cases h
  · simp only at h
    split at h
    · cases h
    · rename_i hty
      simp only [bne_iff_ne, ne_eq, Decidable.not_not] at hty
      obtain ⟨bi, b, e1, e2, e3⟩ := hinv _ hty
      simp only [e1, e2] at h
      split at h
      · cases h
      · rename_i st1 idx hu
        simp only [Except.ok.injEq] at h
        subst h
        exact ⟨FmInv_store st st1 _ idx id _ hinv hu (by rw [fm2opBytes_length]; exact e3), bi, b, e1, e2, e3⟩

theorem FmInv_psg {α} (A : Arith α) (st st' : State) (id : Nat) (tag : List String) (hinv : FmInv st)
    (h : addInsPsg A st id tag = .ok st') : FmInv st' := by
  unfold addInsPsg at h
  split at h
  · simp only [Except.ok.injEq] at h; subst h; exact hinv
  · split at h
    · cases h
    · rename_i env _
      split at h
      · cases h
      · rename_i st1 idx hu
        simp only [Except.ok.injEq] at h
        subst h
        obtain ⟨h1, h2, h3, h4⟩ := addUnique_spec st st1 env idx hu
        intro id' hty
        simp only [mget_mset] at hty ⊢
        by_cases hk : id' = id
        · simp [hk, Tables.mdsdrv_INS_PSG, Tables.mdsdrv_INS_FM] at hty
        · simp only [hk, if_false] at hty ⊢
          rw [h4] at hty
          obtain ⟨bi, b, e1, e2, e3⟩ := hinv id' hty
          exact ⟨bi, b, by rw [h3]; exact e1, h2 _ _ e2, e3⟩

theorem FmInv_pitch {α} (A : Arith α) (st st' : State) (id : Nat) (tag : List String) (hinv : FmInv st)
    (h : addPitch A st id tag = .ok st') : FmInv st' := by
  -- `addPitch` only appends to the bank and touches the pitch tables
  have key : ∀ (env : NBytes) (ext : Bool) (st' : State),
      (match addUnique st env with
        | .error e => (.error e : Except Err State)
        | .ok (st1, idx) =>
          .ok { st1 with pitchMap := mset st1.pitchMap id idx,
                         pitchExt := if ext && !st1.pitchExt.contains id then st1.pitchExt ++ [id] else st1.pitchExt }) = .ok st' →
      FmInv st' := by
    intro env ext st' h
    split at h
    · cases h
    · rename_i st1 idx hu
      simp only [Except.ok.injEq] at h
      subst h
      obtain ⟨_, h2, h3, h4⟩ := addUnique_spec st st1 env idx hu
      intro id' hty
      simp only at hty ⊢
      rw [h4] at hty
      obtain ⟨bi, b, e1, e2, e3⟩ := hinv id' hty
      exact ⟨bi, b, by rw [h3]; exact e1, h2 _ _ e2, e3⟩
  unfold addPitch at h
  split at h
  · simp only [Except.ok.injEq] at h
    subst h
    split
    · intro id' hty; exact hinv id' hty
    · exact hinv
  · simp only at h
    split at h
    · cases h
    split at h
    · split at h
      · cases h
      · split at h
        · cases h
        · exact key _ _ _ h
    · cases h
    · cases h
    · cases h
    · split at h
      · split at h
        · cases h
        · exact key _ _ _ h
      · cases h
      · cases h
      · cases h

theorem FmInv_instrument {α} (A : Arith α) (st st' : State) (id : Nat) (tag : List String) (hinv : FmInv st)
    (h : addInstrument A st id tag = .ok st') : FmInv st' := by
  unfold addInstrument at h
  split at h
  · cases h
  · rename_i ty rest
    simp only at h
    split at h
    · exact FmInv_fm4op st st' id rest hinv h
    · split at h
      · exact (FmInv_fm2op st st' id rest hinv h).1
      · split at h
        · -- psg, then the default-created `envelope_map[id]`
          cases hp : addInsPsg A st id rest with
          | error e => simp [hp, Except.map] at h
          | ok st2 =>
            simp only [hp, Except.map, Except.ok.injEq] at h
            have hinv2 := FmInv_psg A st st2 id rest hinv hp
            subst h
            split
            · rename_i hnone
              intro id' hty
              simp only [mget_mset] at hty ⊢
              obtain ⟨bi, b, e1, e2, e3⟩ := hinv2 id' hty
              by_cases hk : id' = id
              · subst hk
                simp [e1] at hnone
              · simp only [hk, if_false]
                exact ⟨bi, b, e1, e2, e3⟩
            · exact hinv2
        · split at h <;> cases h

theorem FmInv_readTags {α} (A : Arith α) (tags : List (String × List String)) (st : State) (hinv : FmInv st) :
    FmInv (readTags A st tags).1 := by
  induction tags generalizing st with
  | nil => exact hinv
  | cons kt rest ih =>
    obtain ⟨key, tag⟩ := kt
    unfold readTags
    split
    · exact ih st hinv
    · rename_i isPitch id _
      split
      · rename_i st' hok
        apply ih
        cases isPitch with
        | true => exact FmInv_pitch A st st' id tag hinv (by simpa using hok)
        | false => exact FmInv_instrument A st st' id tag hinv (by simpa using hok)
      · exact hinv

end Ctrmml.MdsData
