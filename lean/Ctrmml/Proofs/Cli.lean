/- Helper lemmas for C19 (no property statements here). -/
import Ctrmml.Spec.Cli
namespace Ctrmml.Cli
open Ctrmml.Tables

/-! ### lastIdx -/

theorem lastIdx_none {c : Char} {s : Str} : lastIdx c s = none ↔ c ∉ s := by
  induction s with
  | nil => simp [lastIdx]
  | cons x xs ih =>
    simp only [lastIdx]
    cases h : lastIdx c xs with
    | some i =>
      have : c ∈ xs := by
        rcases Classical.em (c ∈ xs) with h' | h'
        · exact h'
        · rw [ih.mpr h'] at h; cases h
      simp [this]
    | none =>
      have hx := ih.mp h
      by_cases hxc : x = c
      · simp [hxc]
      · simp [hxc, hx]; exact fun h => hxc h.symm

theorem lastIdx_append_cons {c : Char} (a b : Str) (hb : c ∉ b) :
    lastIdx c (a ++ c :: b) = some a.length := by
  induction a with
  | nil => simp [lastIdx, lastIdx_none.mpr hb]
  | cons x xs ih => simp [lastIdx, ih]

theorem lastIdx_append_right {c : Char} (a b : Str) (hb : c ∉ b) :
    lastIdx c (a ++ b) = lastIdx c a := by
  induction a with
  | nil => simp [lastIdx, lastIdx_none.mpr hb]
  | cons x xs ih => simp [lastIdx, ih]

theorem lastIdx_lt {c : Char} {s : Str} {i : Nat} (h : lastIdx c s = some i) : i < s.length := by
  induction s generalizing i with
  | nil => simp [lastIdx] at h
  | cons x xs ih =>
    simp only [lastIdx] at h
    cases h' : lastIdx c xs with
    | some j =>
      rw [h'] at h; simp at h; have := ih h'; simp; omega
    | none =>
      rw [h'] at h; simp at h; simp; omega

/-- the last occurrence splits the list -/
theorem split_last {c : Char} {s : Str} (h : c ∈ s) : ∃ a b, s = a ++ c :: b ∧ c ∉ b := by
  induction s with
  | nil => cases h
  | cons x xs ih =>
    by_cases hx : c ∈ xs
    · obtain ⟨a, b, e, nb⟩ := ih hx
      exact ⟨x :: a, b, by simp [e], nb⟩
    · have : c = x := by
        rcases List.mem_cons.mp h with h | h
        · exact h
        · exact absurd h hx
      subst this
      exact ⟨[], xs, rfl, hx⟩

/-! ### takeWhile / dropWhile up to a stop element -/

theorem takeWhile_stop {p : Char → Bool} (l r : Str) (y : Char) (hl : ∀ x ∈ l, p x = true) (hy : p y = false) :
    (l ++ y :: r).takeWhile p = l := by
  induction l with
  | nil => simp [hy]
  | cons x xs ih =>
    have hx : p x = true := hl x (by simp)
    simp [hx]
    exact ih (fun z hz => hl z (by simp [hz]))

theorem dropWhile_stop {p : Char → Bool} (l r : Str) (y : Char) (hl : ∀ x ∈ l, p x = true) (hy : p y = false) :
    (l ++ y :: r).dropWhile p = y :: r := by
  induction l with
  | nil => simp [hy]
  | cons x xs ih =>
    have hx : p x = true := hl x (by simp)
    simp [hx]
    exact ih (fun z hz => hl z (by simp [hz]))

theorem takeWhile_all {p : Char → Bool} (l : Str) (hl : ∀ x ∈ l, p x = true) : l.takeWhile p = l := by
  induction l with
  | nil => rfl
  | cons x xs ih =>
    have hx : p x = true := hl x (by simp)
    simp [hx]
    exact ih (fun z hz => hl z (by simp [hz]))

theorem dropWhile_all {p : Char → Bool} (l : Str) (hl : ∀ x ∈ l, p x = true) : l.dropWhile p = [] := by
  induction l with
  | nil => rfl
  | cons x xs ih =>
    have hx : p x = true := hl x (by simp)
    simp [hx]
    exact ih (fun z hz => hl z (by simp [hz]))

/-! ### Spec names on a split path -/
namespace Spec

theorem ne_pred {c : Char} {l : Str} (h : c ∉ l) : ∀ x ∈ l.reverse, (decide (x ≠ c)) = true := by
  intro x hx
  have : x ∈ l := by simpa using hx
  simp
  intro e; subst e; exact h this

theorem fileName_split (a b : Str) (hb : '/' ∉ b) : fileName (a ++ '/' :: b) = b := by
  unfold fileName
  have : (a ++ '/' :: b).reverse = b.reverse ++ '/' :: a.reverse := by simp
  rw [this, takeWhile_stop _ _ _ (ne_pred hb) (by simp)]
  simp

theorem dirPart_split (a b : Str) (hb : '/' ∉ b) : dirPart (a ++ '/' :: b) = a ++ ['/'] := by
  unfold dirPart
  have : (a ++ '/' :: b).reverse = b.reverse ++ '/' :: a.reverse := by simp
  rw [this, dropWhile_stop _ _ _ (ne_pred hb) (by simp)]
  simp

theorem fileName_noslash (s : Str) (h : '/' ∉ s) : fileName s = s := by
  unfold fileName
  rw [takeWhile_all _ (ne_pred h)]; simp

theorem dirPart_noslash (s : Str) (h : '/' ∉ s) : dirPart s = [] := by
  unfold dirPart
  rw [dropWhile_all _ (ne_pred h)]; simp

theorem stem_split (a b : Str) (hb : '.' ∉ b) : stem (a ++ '.' :: b) = a := by
  unfold stem
  have hm : '.' ∈ a ++ '.' :: b := by simp
  have : (a ++ '.' :: b).reverse = b.reverse ++ '.' :: a.reverse := by simp
  rw [if_pos hm, this, dropWhile_stop _ _ _ (ne_pred hb) (by simp)]
  simp

theorem stem_nodot (s : Str) (h : '.' ∉ s) : stem s = s := by
  unfold stem; rw [if_neg h]

/-- every path is `dir ++ file` with no '/' in `file` and `dir` empty or ending in '/' -/
theorem path_cases (s : Str) :
    ('/' ∉ s ∧ dirPart s = [] ∧ fileName s = s) ∨
    (∃ a r, s = a ++ '/' :: r ∧ '/' ∉ r ∧ dirPart s = a ++ ['/'] ∧ fileName s = r) := by
  by_cases h : '/' ∈ s
  · obtain ⟨a, r, e, hr⟩ := split_last h
    right
    refine ⟨a, r, e, hr, ?_, ?_⟩
    · rw [e]; exact dirPart_split a r hr
    · rw [e]; exact fileName_split a r hr
  · left; exact ⟨h, dirPart_noslash s h, fileName_noslash s h⟩

end Spec

/-! ### iequal and case folding -/

theorem toLowerC_eq (c : Char) : toLowerC c = Spec.lowerChar c := by
  have key : ('A'.toNat ≤ c.toNat ∧ c.toNat ≤ 'Z'.toNat) ↔ (c.val ≥ 'A'.val ∧ c.val ≤ 'Z'.val) :=
    ⟨fun ⟨a, b⟩ => ⟨UInt32.le_iff_toNat_le.mpr a, UInt32.le_iff_toNat_le.mpr b⟩,
     fun ⟨a, b⟩ => ⟨UInt32.le_iff_toNat_le.mp a, UInt32.le_iff_toNat_le.mp b⟩⟩
  unfold toLowerC Spec.lowerChar Char.isUpper
  by_cases h : c.val ≥ 'A'.val ∧ c.val ≤ 'Z'.val
  · rw [if_pos (key.mpr h), if_pos (by simpa using h)]
  · rw [if_neg (fun x => h (key.mp x)), if_neg (by simpa using h)]

theorem iequal_iff (a b : Str) : iequal a b = true ↔ Spec.lower a = Spec.lower b := by
  induction a generalizing b with
  | nil => cases b <;> simp [iequal, Spec.lower]
  | cons x xs ih =>
    cases b with
    | nil => simp [iequal, Spec.lower]
    | cons y ys =>
      simp only [iequal, Bool.and_eq_true, beq_iff_eq, ih, Spec.lower, List.map_cons, List.cons.injEq, toLowerC_eq]

/-! ### the argument loops never leave the argument vector -/

theorem argAt_lt {argv : List Str} {i : Nat} (h : i < argv.length) : argAt argv i = .ok argv[i] := by
  simp [argAt, h]

theorem out_needs {a : Str} (h : cli_mmlc_out.contains a = true) : cli_mmlc_needs_operand.contains a = true := by
  simp [cli_mmlc_out, cli_mmlc_needs_operand] at *
  rcases h with h | h <;> simp [h]

theorem fmt_needs {a : Str} (h : cli_mmlc_fmt.contains a = true) : cli_mmlc_needs_operand.contains a = true := by
  simp [cli_mmlc_fmt, cli_mmlc_needs_operand] at *
  rcases h with h | h <;> simp [h]

theorem mmlcArgs_ok (argv : List Str) : ∀ fuel arg o, argv.length ≤ arg + fuel →
    ∃ p, mmlcArgs argv fuel arg o = .ok p := by
  intro fuel
  induction fuel with
  | zero =>
    intro arg o h
    have : ¬ arg < argv.length := by omega
    exact ⟨.opts o, by simp [mmlcArgs, this]⟩
  | succ n ih =>
    intro arg o hle
    unfold mmlcArgs
    by_cases h : arg < argv.length
    · rw [if_pos h, argAt_lt h]
      dsimp only
      split
      · exact ⟨_, rfl⟩
      · next hn =>
        split
        · next ho =>
          have ho' : cli_mmlc_out.contains argv[arg] = true := by simp at ho; simp [ho.1]
          have h1 : arg + 1 < argv.length := by
            have := out_needs ho'
            rw [this] at hn; simp at hn; omega
          rw [argAt_lt h1]; exact ih _ _ (by omega)
        · split
          · next hf =>
            have hf' : cli_mmlc_fmt.contains argv[arg] = true := by simp at hf; simp [hf.1]
            have h1 : arg + 1 < argv.length := by
              have := fmt_needs hf'
              rw [this] at hn; simp at hn; omega
            rw [argAt_lt h1]; exact ih _ _ (by omega)
          · split
            · exact ih _ _ (by omega)
            · split
              · exact ih _ _ (by omega)
              · split
                · exact ⟨_, rfl⟩
                · split
                  · exact ih _ _ (by omega)
                  · exact ih _ _ (by omega)
    · rw [if_neg h]; exact ⟨_, rfl⟩

theorem link_out_two {a : Str} (h : cli_link_out.contains a = true) : cli_link_two_operands.contains a = true := by
  simp [cli_link_out, cli_link_two_operands] at *
  rcases h with h | h <;> simp [h]

theorem link_ch_one {a : Str} (h : cli_link_cheader.contains a = true) :
    cli_link_two_operands.contains a = false ∧ cli_link_one_operand.contains a = true := by
  simp [cli_link_cheader, cli_link_two_operands, cli_link_one_operand] at *
  rcases h with h | h <;> simp [h]

theorem link_ah_one {a : Str} (h : cli_link_asmheader.contains a = true) :
    cli_link_two_operands.contains a = false ∧ cli_link_one_operand.contains a = true := by
  simp [cli_link_asmheader, cli_link_two_operands, cli_link_one_operand] at *
  rcases h with h | h <;> simp [h]

theorem linkArgs_ok (argv : List Str) : ∀ fuel arg o, argv.length ≤ arg + fuel →
    ∃ p, linkArgs argv fuel arg o = .ok p := by
  intro fuel
  induction fuel with
  | zero =>
    intro arg o h
    have : ¬ arg < argv.length := by omega
    exact ⟨.opts o, by simp [linkArgs, this]⟩
  | succ n ih =>
    intro arg o hle
    unfold linkArgs
    by_cases h : arg < argv.length
    · rw [if_pos h, argAt_lt h]
      dsimp only
      generalize hop : (if cli_link_two_operands.contains argv[arg] = true then 2
        else if cli_link_one_operand.contains argv[arg] = true then 1 else 0) = operands
      split
      · exact ⟨_, rfl⟩
      · next hn =>
        split
        · next ho =>
          have ho' : cli_link_out.contains argv[arg] = true := by simp at ho; simp [ho.1]
          have h2 : arg + 2 < argv.length := by
            have := link_out_two ho'
            rw [this] at hop; simp at hop; omega
          have h1 : arg + 1 < argv.length := by omega
          rw [argAt_lt h1, argAt_lt h2]; exact ih _ _ (by omega)
        · split
          · next hc =>
            have hc' : cli_link_cheader.contains argv[arg] = true := by simp at hc; simp [hc.1]
            have h1 : arg + 1 < argv.length := by
              have := link_ch_one hc'
              rw [this.1, this.2] at hop; simp at hop; omega
            rw [argAt_lt h1]; exact ih _ _ (by omega)
          · split
            · next ha =>
              have ha' : cli_link_asmheader.contains argv[arg] = true := by simp at ha; simp [ha.1]
              have h1 : arg + 1 < argv.length := by
                have := link_ah_one ha'
                rw [this.1, this.2] at hop; simp at hop; omega
              rw [argAt_lt h1]; exact ih _ _ (by omega)
            · exact ih _ _ (by omega)
    · rw [if_neg h]; exact ⟨_, rfl⟩

/-- the output phase of mdslink: status 0 exactly when every requested generator succeeded, and
then the writes are exactly the requested files, in order, with the library's bytes -/
theorem linkWrite_spec (outs : List (Str × Except LibErr Blob)) : ∀ acc : List (Str × Blob),
    ((linkWrite acc outs).status = 0 ↔ ∀ x ∈ outs, x.1 ≠ [] → ∃ b, x.2 = .ok b) ∧
    ((linkWrite acc outs).status = 0 → (linkWrite acc outs).writes = acc ++ outs.filterMap Spec.okWrite) := by
  induction outs with
  | nil => intro acc; simp [linkWrite]
  | cons x xs ih =>
    intro acc
    obtain ⟨name, gen⟩ := x
    unfold linkWrite
    by_cases hn : name = []
    · simp only [hn, if_true]
      have := ih acc
      constructor
      · rw [this.1]; simp
      · intro hs; rw [this.2 hs]; simp [Spec.okWrite]
    · simp only [hn, if_false]
      cases gen with
      | error e => simp [failR, cli_fail_status, hn]
      | ok b =>
        have := ih (acc ++ [(name, b)])
        constructor
        · rw [this.1]; simp [hn]
        · intro hs; rw [this.2 hs]; simp [hn, Spec.okWrite]


end Ctrmml.Cli
