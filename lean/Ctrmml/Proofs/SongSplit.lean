/-
  C02 helper, specification side only (Spec/Expand, Spec/Timeline):
  * the expansion is monotone in the call budget and in the stack depth (a callee that is played
    inside a performance is also played on its own);
  * performances of forests without loop point contain no loop-point item;
  * a closed forest with the loop point at bracket depth 0, at most once: the forest splits at it;
  * `Timeline.expected` of a performance that splits at its loop point.
-/
import Ctrmml.Proofs.SongSem
namespace Ctrmml.SongSplit
open Ctrmml Ctrmml.Expand Ctrmml.Tree Ctrmml.WTrace Ctrmml.SongSem Ctrmml.Seq Tables

/-! ### monotonicity of the expansion -/

def CallLE (c1 c2 : Nat → Nat → Except SErr (List Item)) : Prop :=
  ∀ x y tid its, y ≤ x → c1 x tid = .ok its → c2 y tid = .ok its

mutual
theorem expN_mono {c1 c2 : Nat → Nat → Except SErr (List Item)} (h : CallLE c1 c2) :
    ∀ (n : Tree.Node) (d1 d2 : Nat) (il : Bool) (items : List Item), d2 ≤ d1 →
      Expand.expN c1 d1 il n = .ok items → Expand.expN c2 d2 il n = .ok items
  | .ev e, d1, d2, il, items, hd, hx => by
    cases hk : e.kind <;> simp only [expN, hk] at hx ⊢ <;> try exact hx
    obtain ⟨x, y, hx1, hy, rfl⟩ := seq_ok hx
    rw [h _ _ _ _ hd hy]
    simp only [Except.ok.injEq] at hx1; subst hx1; rfl
  | .brk e, d1, d2, il, items, hd, hx => by simpa [expN] using hx
  | .strayEnd e, _, _, _, _, _, hx => by simp [expN] at hx
  | .openLoop ls b, _, _, _, _, _, hx => by simp [expN] at hx
  | .loop ls body le, d1, d2, il, items, hd, hx => by
    simp only [expN] at hx ⊢
    by_cases hf : d1 ≥ limit
    · simp [hf] at hx
    have hf2 : ¬ d2 ≥ limit := by omega
    simp only [hf, hf2, if_false] at hx ⊢
    cases hfull : Expand.expL c1 (d1 + 1) true body with
    | error x => rw [hfull] at hx; simp at hx
    | ok full =>
      rw [hfull] at hx
      rw [expL_mono h body (d1 + 1) (d2 + 1) true full (by omega) hfull]
      simp only at hx ⊢
      by_cases hneg : le.param < 0
      · simp [hneg] at hx
      simp only [hneg, if_false] at hx ⊢
      by_cases hn1 : le.param.toNat ≤ 1
      · simpa [hn1] using hx
      simp only [hn1, if_false] at hx ⊢
      by_cases hb : hasTopBreak body = true
      · simp only [hb, if_true] at hx ⊢
        cases hpre : Expand.expPre c1 (d1 + 1) body with
        | error x => rw [hpre] at hx; simp at hx
        | ok pre =>
          rw [hpre] at hx
          rw [expPre_mono h body (d1 + 1) (d2 + 1) pre (by omega) hpre]
          exact hx
      · simpa [hb] using hx
theorem expL_mono {c1 c2 : Nat → Nat → Except SErr (List Item)} (h : CallLE c1 c2) :
    ∀ (f : List Tree.Node) (d1 d2 : Nat) (il : Bool) (items : List Item), d2 ≤ d1 →
      Expand.expL c1 d1 il f = .ok items → Expand.expL c2 d2 il f = .ok items
  | [], _, _, _, _, _, hx => by simpa [Expand.expL] using hx
  | n :: ns, d1, d2, il, items, hd, hx => by
    rw [Refine.expL_cons] at hx ⊢
    obtain ⟨x, y, hx1, hy, rfl⟩ := seq_ok hx
    rw [expN_mono h n d1 d2 il x hd hx1, expL_mono h ns d1 d2 il y hd hy]; rfl
theorem expPre_mono {c1 c2 : Nat → Nat → Except SErr (List Item)} (h : CallLE c1 c2) :
    ∀ (f : List Tree.Node) (d1 d2 : Nat) (items : List Item), d2 ≤ d1 →
      Expand.expPre c1 d1 f = .ok items → Expand.expPre c2 d2 f = .ok items
  | [], _, _, _, _, hx => by simpa [Expand.expPre] using hx
  | .brk e :: ns, _, _, _, _, hx => by simpa [Expand.expPre] using hx
  | .ev e :: ns, d1, d2, items, hd, hx => by
    simp only [Expand.expPre] at hx ⊢
    obtain ⟨x, y, hx1, hy, rfl⟩ := seq_ok hx
    rw [expN_mono h (.ev e) d1 d2 true x hd hx1, expPre_mono h ns d1 d2 y hd hy]; rfl
  | .loop ls b le :: ns, d1, d2, items, hd, hx => by
    simp only [Expand.expPre] at hx ⊢
    obtain ⟨x, y, hx1, hy, rfl⟩ := seq_ok hx
    rw [expN_mono h (.loop ls b le) d1 d2 true x hd hx1, expPre_mono h ns d1 d2 y hd hy]; rfl
  | .strayEnd e :: ns, d1, d2, items, hd, hx => by
    simp only [Expand.expPre] at hx ⊢
    obtain ⟨x, y, hx1, hy, rfl⟩ := seq_ok hx
    rw [expN_mono h (.strayEnd e) d1 d2 true x hd hx1, expPre_mono h ns d1 d2 y hd hy]; rfl
  | .openLoop ls b :: ns, d1, d2, items, hd, hx => by
    simp only [Expand.expPre] at hx ⊢
    obtain ⟨x, y, hx1, hy, rfl⟩ := seq_ok hx
    rw [expN_mono h (.openLoop ls b) d1 d2 true x hd hx1, expPre_mono h ns d1 d2 y hd hy]; rfl
end

theorem callK_mono (song : Song) : ∀ (k1 k2 : Nat), k1 ≤ k2 → CallLE (callK song k1) (callK song k2)
  | 0, _, _ => by intro x y tid its _ h; simp [callK] at h
  | k1 + 1, k2, hk => by
    obtain ⟨k2', rfl⟩ : ∃ k2', k2 = k2' + 1 := ⟨k2 - 1, by omega⟩
    intro x y tid its hyx h
    simp only [callK] at h ⊢
    by_cases hf : x ≥ limit
    · simp [hf] at h
    have hf2 : ¬ y ≥ limit := by omega
    simp only [hf, hf2, if_false] at h ⊢
    cases htr : song.track? tid with
    | none => rw [htr] at h; simp at h
    | some evs =>
      rw [htr] at h
      simp only at h ⊢
      exact expL_mono (callK_mono song k1 k2' (by omega)) (parse evs) (x + 1) (y + 1) false its (by omega) h

/-- a callee that is played somewhere inside a performance is played on its own, with the same items -/
theorem perf_of_callK (song : Song) {k d tid : Nat} {its : List Item} {evs : List Event} (hk : k ≤ limit)
    (htr : song.track? tid = some evs) (h : callK song k d tid = .ok its) : perf song evs = .ok its := by
  cases k with
  | zero => simp [callK] at h
  | succ k =>
    simp only [callK] at h
    by_cases hf : d ≥ limit
    · simp [hf] at h
    simp only [hf, if_false, htr] at h
    exact expL_mono (callK_mono song k limit (by omega)) (parse evs) (d + 1) 0 false its (by omega) h

/-! ### no loop-point items -/

theorem mem_repeatItems {k : Nat} {l : List Item} {i : Item} (h : i ∈ repeatItems k l) : i ∈ l := by
  induction k with
  | zero => simp [repeatItems] at h
  | succ k ih =>
    simp only [repeatItems, List.mem_append] at h
    rcases h with h | h
    · exact h
    · exact ih h

theorem topBreakEv_mem_or : ∀ (f : List Tree.Node), topBreakEv f ∈ flattenL f ∨ topBreakEv f = endEvent
  | [] => .inr rfl
  | .brk e :: ns => .inl (by simp [topBreakEv, Tree.flattenL_cons, flattenN])
  | .ev e :: ns => by
    rcases topBreakEv_mem_or ns with h | h
    · exact .inl (by simp [topBreakEv, Tree.flattenL_cons, h])
    · exact .inr (by simpa [topBreakEv] using h)
  | .loop ls b le :: ns => by
    rcases topBreakEv_mem_or ns with h | h
    · exact .inl (by simp [topBreakEv, Tree.flattenL_cons, h])
    · exact .inr (by simpa [topBreakEv] using h)
  | .strayEnd e :: ns => by
    rcases topBreakEv_mem_or ns with h | h
    · exact .inl (by simp [topBreakEv, Tree.flattenL_cons, h])
    · exact .inr (by simpa [topBreakEv] using h)
  | .openLoop ls b :: ns => by
    rcases topBreakEv_mem_or ns with h | h
    · exact .inl (by simp [topBreakEv, Tree.flattenL_cons, h])
    · exact .inr (by simpa [topBreakEv] using h)

/-- the items of the calls made from a piece consist of events with property `P` -/
def CallsP (P : Event → Prop) (call : Nat → Nat → Except SErr (List Item)) (l : List Event) : Prop :=
  ∀ e ∈ l, e.kind = .jump → ∀ d its, call d (trackIdOfParam e.param) = .ok its → ∀ i ∈ its, P i.ev ∧ P i.src

mutual
theorem noseg_N (P : Event → Prop) (hend : P endEvent) (call : Nat → Nat → Except SErr (List Item)) : ∀ (n : Tree.Node), (∀ e ∈ flattenN n, P e) →
    CallsP P call (flattenN n) → ∀ (d : Nat) (il : Bool) (items : List Item), Expand.expN call d il n = .ok items →
    ∀ i ∈ items, P i.ev ∧ P i.src
  | .ev e, hn, hc, d, il, items, hx => by
    have he : P e := hn e (by simp [flattenN])
    cases hk : e.kind <;> simp only [expN, hk] at hx
    case jump =>
      obtain ⟨x, y, hx1, hy, rfl⟩ := seq_ok hx
      simp only [Except.ok.injEq] at hx1; subst hx1
      intro i hi
      rcases List.mem_append.mp hi with h | h
      · simp at h; subst h; exact ⟨he, he⟩
      · exact hc e (by simp [flattenN]) hk d y hy i h
    all_goals (simp only [Except.ok.injEq] at hx; subst hx; intro i hi; simp at hi; subst hi; exact ⟨he, he⟩)
  | .brk e, hn, _, d, il, items, hx => by
    have he : P e := hn e (by simp [flattenN])
    cases il <;> simp [expN] at hx
    subst hx; intro i hi; simp at hi; subst hi; exact ⟨he, he⟩
  | .strayEnd e, _, _, _, _, _, hx => by simp [expN] at hx
  | .openLoop ls b, _, _, _, _, _, hx => by simp [expN] at hx
  | .loop ls body le, hn, hc, d, il, items, hx => by
    have hls : P ls := hn ls (by simp [flattenN])
    have hle : P le := hn le (by simp [flattenN])
    have hnb : ∀ e ∈ flattenL body, P e := fun e he => hn e (by simp [flattenN, he])
    have hcb : CallsP P call (flattenL body) := fun e he => hc e (by simp [flattenN, he])
    simp only [expN] at hx
    by_cases hf : d ≥ limit
    · simp [hf] at hx
    simp only [hf, if_false] at hx
    cases hfull : Expand.expL call (d + 1) true body with
    | error x => rw [hfull] at hx; simp at hx
    | ok full =>
      rw [hfull] at hx
      simp only at hx
      have hfl := noseg_L P hend call body hnb hcb (d + 1) true full hfull
      by_cases hneg : le.param < 0
      · simp [hneg] at hx
      simp only [hneg, if_false] at hx
      have hstep : ∀ i ∈ full ++ [item le], P i.ev ∧ P i.src := by
        intro i hi
        rcases List.mem_append.mp hi with h | h
        · exact hfl i h
        · simp at h; subst h; exact ⟨hle, hle⟩
      by_cases hn1 : le.param.toNat ≤ 1
      · simp only [hn1, if_true, Except.ok.injEq] at hx
        subst hx
        intro i hi
        rcases List.mem_cons.mp hi with h | h
        · subst h; exact ⟨hls, hls⟩
        · exact hstep i h
      simp only [hn1, if_false] at hx
      by_cases hb : hasTopBreak body = true
      · simp only [hb, if_true] at hx
        cases hpre : Expand.expPre call (d + 1) body with
        | error x => rw [hpre] at hx; simp at hx
        | ok pre =>
          rw [hpre] at hx
          simp only [Except.ok.injEq] at hx
          subst hx
          have hpl := noseg_P P hend call body hnb hcb (d + 1) pre hpre
          intro i hi
          rcases List.mem_cons.mp hi with h | h
          · subst h; exact ⟨hls, hls⟩
          · rcases List.mem_append.mp h with h | h
            · exact hstep i (mem_repeatItems h)
            · rcases List.mem_append.mp h with h | h
              · exact hpl i h
              · simp at h; subst h
                refine ⟨hle, ?_⟩
                show P (topBreakEv body)
                rcases topBreakEv_mem_or body with h' | h'
                · exact hnb _ h'
                · rw [h']; exact hend
      · simp only [hb, Bool.false_eq_true, if_false, Except.ok.injEq] at hx
        subst hx
        intro i hi
        rcases List.mem_cons.mp hi with h | h
        · subst h; exact ⟨hls, hls⟩
        · exact hstep i (mem_repeatItems h)
theorem noseg_L (P : Event → Prop) (hend : P endEvent) (call : Nat → Nat → Except SErr (List Item)) : ∀ (f : List Tree.Node), (∀ e ∈ flattenL f, P e) →
    CallsP P call (flattenL f) → ∀ (d : Nat) (il : Bool) (items : List Item), Expand.expL call d il f = .ok items →
    ∀ i ∈ items, P i.ev ∧ P i.src
  | [], _, _, _, _, items, hx => by
    have : items = [] := by simpa [Expand.expL] using hx.symm
    subst this; intro i hi; simp at hi
  | n :: ns, hn, hc, d, il, items, hx => by
    rw [Refine.expL_cons] at hx
    obtain ⟨x, y, hx1, hy, rfl⟩ := seq_ok hx
    intro i hi
    rcases List.mem_append.mp hi with h | h
    · exact noseg_N P hend call n (fun e he => hn e (by simp [Tree.flattenL_cons, he]))
        (fun e he => hc e (by simp [Tree.flattenL_cons, he])) d il x hx1 i h
    · exact noseg_L P hend call ns (fun e he => hn e (by simp [Tree.flattenL_cons, he]))
        (fun e he => hc e (by simp [Tree.flattenL_cons, he])) d il y hy i h
theorem noseg_P (P : Event → Prop) (hend : P endEvent) (call : Nat → Nat → Except SErr (List Item)) : ∀ (f : List Tree.Node), (∀ e ∈ flattenL f, P e) →
    CallsP P call (flattenL f) → ∀ (d : Nat) (items : List Item), Expand.expPre call d f = .ok items →
    ∀ i ∈ items, P i.ev ∧ P i.src
  | [], _, _, _, items, hx => by
    have : items = [] := by simpa [Expand.expPre] using hx.symm
    subst this; intro i hi; simp at hi
  | .brk e :: ns, _, _, _, items, hx => by
    have : items = [] := by simpa [Expand.expPre] using hx.symm
    subst this; intro i hi; simp at hi
  | .ev e :: ns, hn, hc, d, items, hx => by
    simp only [Expand.expPre] at hx
    obtain ⟨x, y, hx1, hy, rfl⟩ := seq_ok hx
    intro i hi
    rcases List.mem_append.mp hi with h | h
    · exact noseg_N P hend call (.ev e) (fun e' he => hn e' (by simp [Tree.flattenL_cons, he]))
        (fun e' he => hc e' (by simp [Tree.flattenL_cons, he])) d true x hx1 i h
    · exact noseg_P P hend call ns (fun e' he => hn e' (by simp [Tree.flattenL_cons, he]))
        (fun e' he => hc e' (by simp [Tree.flattenL_cons, he])) d y hy i h
  | .loop ls b le :: ns, hn, hc, d, items, hx => by
    simp only [Expand.expPre] at hx
    obtain ⟨x, y, hx1, hy, rfl⟩ := seq_ok hx
    intro i hi
    rcases List.mem_append.mp hi with h | h
    · exact noseg_N P hend call (.loop ls b le) (fun e' he => hn e' (by simp [Tree.flattenL_cons, he]))
        (fun e' he => hc e' (by simp [Tree.flattenL_cons, he])) d true x hx1 i h
    · exact noseg_P P hend call ns (fun e' he => hn e' (by simp [Tree.flattenL_cons, he]))
        (fun e' he => hc e' (by simp [Tree.flattenL_cons, he])) d y hy i h
  | .strayEnd e :: ns, _, _, d, items, hx => by
    simp only [Expand.expPre] at hx
    obtain ⟨x, y, hx1, hy, rfl⟩ := seq_ok hx
    simp [expN] at hx1
  | .openLoop ls b :: ns, _, _, d, items, hx => by
    simp only [Expand.expPre] at hx
    obtain ⟨x, y, hx1, hy, rfl⟩ := seq_ok hx
    simp [expN] at hx1
end

/-! ### the loop point at bracket depth 0 -/

open Timeline in
theorem segAt_cons_other {d : Nat} {e : Event} {es : List Event} (h1 : e.kind ≠ .loopStart) (h2 : e.kind ≠ .loopEnd)
    (h3 : e.kind ≠ .segno) : segnoAtDepth0 d (e :: es) = segnoAtDepth0 d es := by
  simp [segnoAtDepth0, h1, h2, h3]

mutual
/-- inside a counted loop there is no loop point -/
theorem inner_noseg_N : ∀ (n : Tree.Node), Node.closed n → ∀ (d : Nat) (rest : List Event),
    Timeline.segnoAtDepth0 (d + 1) (flattenN n ++ rest) = true →
    (∀ e ∈ flattenN n, e.kind ≠ .segno) ∧ Timeline.segnoAtDepth0 (d + 1) rest = true
  | .ev e, hc, d, rest, h => by
    simp only [flattenN, List.singleton_append] at h
    rcases hc with hk | hk | hk
    · simp [Timeline.segnoAtDepth0, hk] at h
    · rw [segAt_cons_other (by rw [hk]; decide) (by rw [hk]; decide) (by rw [hk]; decide)] at h
      exact ⟨by intro x hx; simp [flattenN] at hx; subst hx; rw [hk]; decide, h⟩
    · rw [segAt_cons_other (by rw [hk]; decide) (by rw [hk]; decide) (by rw [hk]; decide)] at h
      exact ⟨by intro x hx; simp [flattenN] at hx; subst hx; rw [hk]; decide, h⟩
  | .brk e, hc, d, rest, h => by
    have hk : e.kind = .loopBreak := hc
    simp only [flattenN, List.singleton_append] at h
    rw [segAt_cons_other (by rw [hk]; decide) (by rw [hk]; decide) (by rw [hk]; decide)] at h
    exact ⟨by intro x hx; simp [flattenN] at hx; subst hx; rw [hk]; decide, h⟩
  | .strayEnd e, hc, _, _, _ => by exact absurd hc (by simp [Node.closed])
  | .openLoop ls b, hc, _, _, _ => by exact absurd hc (by simp [Node.closed])
  | .loop ls body le, hc, d, rest, h => by
    obtain ⟨hlsk, hbcl, hlek⟩ := hc
    have e1 : flattenN (.loop ls body le) ++ rest = ls :: (flattenL body ++ (le :: rest)) := by
      simp [flattenN, List.append_assoc]
    rw [e1] at h
    have h1 : Timeline.segnoAtDepth0 (d + 1 + 1) (flattenL body ++ (le :: rest)) = true := by
      simpa [Timeline.segnoAtDepth0, hlsk] using h
    obtain ⟨hb, h2⟩ := inner_noseg_L body hbcl (d + 1) (le :: rest) h1
    have h3 : Timeline.segnoAtDepth0 (d + 1) rest = true := by
      have : le.kind ≠ .loopStart := by rw [hlek]; decide
      simpa [Timeline.segnoAtDepth0, hlek, this] using h2
    refine ⟨?_, h3⟩
    intro x hx
    simp only [flattenN, List.mem_cons, List.mem_append, List.mem_singleton, List.not_mem_nil, or_false] at hx
    rcases hx with rfl | hx | rfl
    · rw [hlsk]; decide
    · exact hb x hx
    · rw [hlek]; decide
theorem inner_noseg_L : ∀ (f : List Tree.Node), closedL f → ∀ (d : Nat) (rest : List Event),
    Timeline.segnoAtDepth0 (d + 1) (flattenL f ++ rest) = true →
    (∀ e ∈ flattenL f, e.kind ≠ .segno) ∧ Timeline.segnoAtDepth0 (d + 1) rest = true
  | [], _, d, rest, h => ⟨by intro e he; simp [flattenL] at he, by simpa [flattenL] using h⟩
  | n :: ns, hc, d, rest, h => by
    rw [Tree.flattenL_cons, List.append_assoc] at h
    obtain ⟨h1, h2⟩ := inner_noseg_N n hc.1 d _ h
    obtain ⟨h3, h4⟩ := inner_noseg_L ns hc.2 d rest h2
    refine ⟨?_, h4⟩
    intro e he
    rw [Tree.flattenL_cons] at he
    rcases List.mem_append.mp he with h' | h'
    · exact h1 e h'
    · exact h3 e h'
end

/-- number of loop points of a track -/
def segCount (l : List Event) : Nat := (l.filter fun e => decide (e.kind = .segno)).length

theorem segCount_zero {l : List Event} (h : segCount l = 0) : ∀ e ∈ l, e.kind ≠ .segno := by
  intro e he hk
  have : e ∈ l.filter fun e => decide (e.kind = .segno) := List.mem_filter.mpr ⟨he, by simpa using hk⟩
  unfold segCount at h
  rw [List.length_eq_zero_iff] at h
  rw [h] at this; simp at this

theorem segCount_append (a b : List Event) : segCount (a ++ b) = segCount a + segCount b := by
  simp [segCount, List.filter_append]

theorem segCount_noseg {l : List Event} (h : ∀ e ∈ l, e.kind ≠ .segno) : segCount l = 0 := by
  unfold segCount
  rw [List.length_eq_zero_iff, List.filter_eq_nil_iff]
  intro e he; simpa using h e he

/-- **the forest splits at the loop point**: a closed forest with the loop point only at bracket
depth 0 and at most once either has none, or is `FA ++ [loop point] ++ FB` with `FA`, `FB` free of it -/
theorem split_segno : ∀ (F : List Tree.Node), closedL F → Timeline.segnoAtDepth0 0 (flattenL F) = true →
    segCount (flattenL F) ≤ 1 →
    (∀ e ∈ flattenL F, e.kind ≠ .segno) ∨
    ∃ FA s FB, F = FA ++ Tree.Node.ev s :: FB ∧ s.kind = .segno ∧ (∀ e ∈ flattenL FA, e.kind ≠ .segno) ∧
      (∀ e ∈ flattenL FB, e.kind ≠ .segno)
  | [], _, _, _ => .inl (by intro e he; simp [flattenL] at he)
  | n :: ns, hc, h, hcnt => by
    rw [Tree.flattenL_cons] at h hcnt
    rw [segCount_append] at hcnt
    -- a first node without loop point
    have step : (∀ e ∈ flattenN n, e.kind ≠ .segno) → Timeline.segnoAtDepth0 0 (flattenL ns) = true →
        (∀ e ∈ flattenL (n :: ns), e.kind ≠ .segno) ∨
        ∃ FA s FB, n :: ns = FA ++ Tree.Node.ev s :: FB ∧ s.kind = .segno ∧ (∀ e ∈ flattenL FA, e.kind ≠ .segno) ∧
          (∀ e ∈ flattenL FB, e.kind ≠ .segno) := by
      intro hn hrest
      rcases split_segno ns hc.2 hrest (by omega) with hl | ⟨FA, s, FB, e1, hs, hA, hB⟩
      · left
        intro e he
        rw [Tree.flattenL_cons] at he
        rcases List.mem_append.mp he with h' | h'
        · exact hn e h'
        · exact hl e h'
      · right
        refine ⟨n :: FA, s, FB, by rw [e1]; rfl, hs, ?_, hB⟩
        intro e he
        rw [Tree.flattenL_cons] at he
        rcases List.mem_append.mp he with h' | h'
        · exact hn e h'
        · exact hA e h'
    cases n with
    | ev e =>
      rcases hc.1 with hk | hk | hk
      · -- the loop point itself
        right
        have hc1 : segCount (flattenN (.ev e)) = 1 := by simp [segCount, flattenN, hk]
        have hns : ∀ x ∈ flattenL ns, x.kind ≠ .segno := segCount_zero (by omega)
        exact ⟨[], e, ns, rfl, hk, by intro x hx; simp [flattenL] at hx, hns⟩
      · apply step
        · intro x hx; simp [flattenN] at hx; subst hx; rw [hk]; decide
        · simp only [flattenN, List.singleton_append] at h
          rwa [segAt_cons_other (by rw [hk]; decide) (by rw [hk]; decide) (by rw [hk]; decide)] at h
      · apply step
        · intro x hx; simp [flattenN] at hx; subst hx; rw [hk]; decide
        · simp only [flattenN, List.singleton_append] at h
          rwa [segAt_cons_other (by rw [hk]; decide) (by rw [hk]; decide) (by rw [hk]; decide)] at h
    | brk e =>
      have hk : e.kind = .loopBreak := hc.1
      apply step
      · intro x hx; simp [flattenN] at hx; subst hx; rw [hk]; decide
      · simp only [flattenN, List.singleton_append] at h
        rwa [segAt_cons_other (by rw [hk]; decide) (by rw [hk]; decide) (by rw [hk]; decide)] at h
    | strayEnd e => exact absurd hc.1 (by simp [Node.closed])
    | openLoop ls b => exact absurd hc.1 (by simp [Node.closed])
    | loop ls body le =>
      obtain ⟨hlsk, hbcl, hlek⟩ := hc.1
      have e1 : flattenN (.loop ls body le) ++ flattenL ns = ls :: (flattenL body ++ (le :: flattenL ns)) := by
        simp [flattenN, List.append_assoc]
      rw [e1] at h
      have h1 : Timeline.segnoAtDepth0 (0 + 1) (flattenL body ++ (le :: flattenL ns)) = true := by
        simpa [Timeline.segnoAtDepth0, hlsk] using h
      obtain ⟨hb, h2⟩ := inner_noseg_L body hbcl 0 (le :: flattenL ns) h1
      have h3 : Timeline.segnoAtDepth0 0 (flattenL ns) = true := by
        have : le.kind ≠ .loopStart := by rw [hlek]; decide
        simpa [Timeline.segnoAtDepth0, hlek, this] using h2
      apply step _ h3
      intro x hx
      simp only [flattenN, List.mem_cons, List.mem_append, List.mem_singleton, List.not_mem_nil, or_false] at hx
      rcases hx with rfl | hx | rfl
      · rw [hlsk]; decide
      · exact hb x hx
      · rw [hlek]; decide

/-! ### `Timeline.expected` -/

theorem afterSegno_noseg : ∀ (l : List Item), (∀ i ∈ l, i.src.kind ≠ .segno) → Timeline.afterSegno l = none
  | [], _ => rfl
  | i :: is, h => by
    simp [Timeline.afterSegno, afterSegno_noseg is (fun j hj => h j (by simp [hj])), h i (by simp)]

theorem afterSegno_split (s : Item) (hs : s.src.kind = .segno) (iB : List Item) (hB : ∀ i ∈ iB, i.src.kind ≠ .segno) :
    ∀ (iA : List Item), Timeline.afterSegno (iA ++ s :: iB) = some iB
  | [] => by simp [Timeline.afterSegno, afterSegno_noseg iB hB, hs]
  | i :: iA => by simp [Timeline.afterSegno, afterSegno_split s hs iB hB iA]

theorem loopTimeAux_noseg : ∀ (l : List Item), (∀ i ∈ l, i.src.kind ≠ .segno) → ∀ (t : Nat) (acc : Option Nat),
    loopTimeAux t acc l = acc
  | [], _, _, _ => rfl
  | i :: is, h, t, acc => by
    simp [loopTimeAux, h i (by simp), loopTimeAux_noseg is (fun j hj => h j (by simp [hj]))]

theorem totalDur_cons (i : Item) (l : List Item) : totalDur (i :: l) = i.dur + totalDur l := by simp [totalDur]
theorem totalDur_append (a b : List Item) : totalDur (a ++ b) = totalDur a + totalDur b := by simp [totalDur]

theorem loopTimeAux_split (s : Item) (hs : s.src.kind = .segno) (iB : List Item) (hB : ∀ i ∈ iB, i.src.kind ≠ .segno) :
    ∀ (iA : List Item), (∀ i ∈ iA, i.src.kind ≠ .segno) → ∀ (t : Nat) (acc : Option Nat),
    loopTimeAux t acc (iA ++ s :: iB) = some (t + totalDur iA)
  | [], _, t, acc => by simp [loopTimeAux, hs, loopTimeAux_noseg iB hB, totalDur]
  | i :: iA, hA, t, acc => by
    simp only [List.cons_append, loopTimeAux, hA i (by simp), if_false]
    rw [loopTimeAux_split s hs iB hB iA (fun j hj => hA j (by simp [hj])), totalDur_cons]
    congr 1; omega

/-- a track without loop point: the expected tick string is the ticks of the performance -/
theorem expected_noseg (song : Song) (pf : Timeline.Platform) (root : List Event) (items : List Item)
    (hperf : perf song root = .ok items) (hn : ∀ i ∈ items, i.src.kind ≠ .segno) {t : List Tk}
    (h : Timeline.expected song pf root = .ok t) :
    t = ticksT (rhead song pf) pf false items ∧ DefT (rhead song pf) false items := by
  unfold Timeline.expected at h
  simp only [hperf] at h
  cases ht : Timeline.ticksOf song pf false items with
  | error x => rw [ht] at h; cases h
  | ok all =>
    rw [ht] at h
    simp only [afterSegno_noseg items hn, Except.ok.injEq] at h
    exact ⟨by rw [← h]; exact ticksOf_eq song pf items false all ht, ticksOf_def song pf items false all ht⟩

/-- a track that splits at its loop point: what is replayed after the loop-back jump is the part
after the loop point, in the drum-mode state the track ends in — unless that part takes no time,
then the track just ends -/
theorem expected_split (song : Song) (pf : Timeline.Platform) (root : List Event) (iA iB : List Item) (s : Item)
    (hperf : perf song root = .ok (iA ++ s :: iB))
    (hs : s.src.kind = .segno) (hA : ∀ i ∈ iA, i.src.kind ≠ .segno) (hB : ∀ i ∈ iB, i.src.kind ≠ .segno)
    {t : List Tk} (h : Timeline.expected song pf root = .ok t) :
    t = (if totalDur (iA ++ s :: iB) = totalDur iA then ticksT (rhead song pf) pf false (iA ++ s :: iB)
         else ticksT (rhead song pf) pf false (iA ++ s :: iB) ++ [Tk.loopMark] ++
           ticksT (rhead song pf) pf (Timeline.drumAt false (iA ++ s :: iB)) iB) ∧
    loopTime (iA ++ s :: iB) = some (totalDur iA) ∧ DefT (rhead song pf) false (iA ++ s :: iB) ∧
    (totalDur (iA ++ s :: iB) ≠ totalDur iA → DefT (rhead song pf) (Timeline.drumAt false (iA ++ s :: iB)) iB) := by
  have hlt : loopTime (iA ++ s :: iB) = some (totalDur iA) := by
    unfold loopTime
    rw [loopTimeAux_split s hs iB hB iA hA]; simp
  unfold Timeline.expected at h
  simp only [hperf] at h
  cases ht : Timeline.ticksOf song pf false (iA ++ s :: iB) with
  | error x => rw [ht] at h; cases h
  | ok all =>
    rw [ht] at h
    simp only [afterSegno_split s hs iB hB iA, hlt] at h
    have hall := ticksOf_eq song pf _ false all ht
    have hdef := ticksOf_def song pf _ false all ht
    by_cases hz : totalDur (iA ++ s :: iB) = totalDur iA
    · rw [if_pos hz] at h ⊢
      simp only [Except.ok.injEq] at h
      exact ⟨by rw [← h]; exact hall, hlt, hdef, fun hne => absurd hz hne⟩
    · rw [if_neg hz] at h ⊢
      cases ht2 : Timeline.ticksOf song pf (Timeline.drumAt false (iA ++ s :: iB)) iB with
      | error x => rw [ht2] at h; cases h
      | ok again =>
        rw [ht2] at h
        simp only [Except.ok.injEq] at h
        exact ⟨by rw [← h, hall, ticksOf_eq song pf iB _ again ht2], hlt, hdef, fun _ => ticksOf_def song pf iB _ again ht2⟩

end Ctrmml.SongSplit
