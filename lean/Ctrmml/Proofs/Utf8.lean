/-
  Helper lemmas for C08, GD3 text: the writer model's UTF-8 → UTF-16 decoder
  (`Vgm.utf8ToUtf16`, the libstdc++ `codecvt_utf8_utf16` behaviour) against the reader-side
  encoder `VgmSpec.utf8OfUnits` and the scalar-value reading of both encodings.
  No property statements here.
-/
import Ctrmml.Proofs.VgmInv
namespace Ctrmml.Vgm
open Ctrmml Ctrmml.VgmSpec

theorem map_ok_cons {ε : Type} (r : Except ε (List Nat)) (a : Nat) :
    r.map (a :: ·) = r.map ([a] ++ ·) := rfl

/-- decoding the UTF-8 form of one code point (surrogate code points included: the decoder is
as lenient as libstdc++) yields its UTF-16 form, in front of whatever follows -/
theorem decode_enc (cp : Nat) (h : cp < 0x110000) (rest : Bytes) :
    utf8ToUtf16 (utf8OfUnits.enc cp ++ rest) = (utf8ToUtf16 rest).map (unitsOf cp ++ ·) := by
  unfold utf8OfUnits.enc
  split
  · -- one byte
    have hu : unitsOf cp = [cp] := by unfold unitsOf; rw [if_pos (by omega)]
    simp only [List.cons_append, List.nil_append]
    conv => lhs; unfold utf8ToUtf16
    simp only [byteOf_toNat]
    rw [if_pos (by omega), hu]
    have : cp % 256 = cp := by omega
    rw [this]; rfl
  · split
    · -- two bytes
      have hu : unitsOf cp = [cp] := by unfold unitsOf; rw [if_pos (by omega)]
      simp only [List.cons_append, List.nil_append]
      conv => lhs; unfold utf8ToUtf16
      simp only [byteOf_toNat]
      have e1 : (0xC0 + cp / 64) % 256 = 0xC0 + cp / 64 := by omega
      have e2 : (0x80 + cp % 64) % 256 = 0x80 + cp % 64 := by omega
      have hc : isCont (byteOf (0x80 + cp % 64)) = true := by
        rw [isCont_iff, byteOf_toNat]; omega
      rw [if_neg (by omega), if_neg (by omega), if_pos (by omega)]
      simp only [hc, Bool.not_true, Bool.false_eq_true, if_false, e1, e2, hu]
      have : (0xC0 + cp / 64) * 64 + (0x80 + cp % 64) - 0x3080 = cp := by omega
      rw [this]; rfl
    · split
      · -- three bytes
        have hu : unitsOf cp = [cp] := by unfold unitsOf; rw [if_pos (by omega)]
        simp only [List.cons_append, List.nil_append]
        conv => lhs; unfold utf8ToUtf16
        simp only [byteOf_toNat]
        have e1 : (0xE0 + cp / 4096) % 256 = 0xE0 + cp / 4096 := by omega
        have e2 : (0x80 + cp / 64 % 64) % 256 = 0x80 + cp / 64 % 64 := by omega
        have e3 : (0x80 + cp % 64) % 256 = 0x80 + cp % 64 := by omega
        have hc2 : isCont (byteOf (0x80 + cp / 64 % 64)) = true := by
          rw [isCont_iff, byteOf_toNat]; omega
        have hc3 : isCont (byteOf (0x80 + cp % 64)) = true := by
          rw [isCont_iff, byteOf_toNat]; omega
        rw [if_neg (by omega), if_neg (by omega), if_neg (by omega), if_pos (by omega)]
        simp only [hc2, hc3, Bool.not_true, Bool.false_eq_true, if_false, e1, e2, e3, hu]
        rw [if_neg (by omega)]
        have : (0xE0 + cp / 4096) * 4096 + (0x80 + cp / 64 % 64) * 64 + (0x80 + cp % 64) - 0xE2080 = cp := by omega
        rw [this]; rfl
      · -- four bytes
        simp only [List.cons_append, List.nil_append]
        conv => lhs; unfold utf8ToUtf16
        simp only [byteOf_toNat]
        have e1 : (0xF0 + cp / 262144) % 256 = 0xF0 + cp / 262144 := by omega
        have e2 : (0x80 + cp / 4096 % 64) % 256 = 0x80 + cp / 4096 % 64 := by omega
        have e3 : (0x80 + cp / 64 % 64) % 256 = 0x80 + cp / 64 % 64 := by omega
        have e4 : (0x80 + cp % 64) % 256 = 0x80 + cp % 64 := by omega
        have hc2 : isCont (byteOf (0x80 + cp / 4096 % 64)) = true := by
          rw [isCont_iff, byteOf_toNat]; omega
        have hc3 : isCont (byteOf (0x80 + cp / 64 % 64)) = true := by
          rw [isCont_iff, byteOf_toNat]; omega
        have hc4 : isCont (byteOf (0x80 + cp % 64)) = true := by
          rw [isCont_iff, byteOf_toNat]; omega
        rw [if_neg (by omega), if_neg (by omega), if_neg (by omega), if_neg (by omega), if_pos (by omega)]
        simp only [hc2, hc3, hc4, Bool.not_true, Bool.false_eq_true, if_false, e1, e2, e3, e4]
        rw [if_neg (by omega), if_neg (by omega)]
        have : (0xF0 + cp / 262144) * 262144 + (0x80 + cp / 4096 % 64) * 4096 + (0x80 + cp / 64 % 64) * 64 + (0x80 + cp % 64) - 0x3C82080 = cp := by omega
        rw [this]

theorem byteOf_toNat_self (c : UInt8) : byteOf c.toNat = c := by
  apply UInt8.toNat_inj.mp
  rw [byteOf_toNat]
  have := c.toNat_lt
  omega

theorem unitsOf_eq (cp : Nat) : unitsOf cp = utf16OfScalar cp := rfl

/-- the decoder inverts the reader-side encoder on every string of 16-bit code units -/
theorem decode_utf8OfUnits (us : List Nat) (h : ∀ u ∈ us, u < 65536) :
    utf8ToUtf16 (utf8OfUnits us) = .ok us := by
  fun_induction utf8OfUnits us
  case case1 => rfl
  case case2 u =>
    have hu := h u (by simp)
    have := decode_enc u (by omega) []
    rw [List.append_nil] at this
    rw [this]
    have : unitsOf u = [u] := by unfold unitsOf; rw [if_pos (by omega)]
    rw [this]; rfl
  case case3 u v r hp ih =>
    have hu := h u (by simp)
    have hv := h v (by simp)
    rw [decode_enc _ (by omega), ih (fun x hx => h x (by simp [hx]))]
    have : unitsOf (0x10000 + (u - 0xD800) * 1024 + (v - 0xDC00)) = [u, v] := by
      unfold unitsOf
      rw [if_neg (by omega)]
      have a : 0xD800 + (0x10000 + (u - 0xD800) * 1024 + (v - 0xDC00) - 0x10000) / 1024 = u := by omega
      have b : 0xDC00 + (0x10000 + (u - 0xD800) * 1024 + (v - 0xDC00) - 0x10000) % 1024 = v := by omega
      rw [a, b]
    rw [this]; rfl
  case case4 u v r hp ih =>
    have hu := h u (by simp)
    rw [decode_enc _ (by omega), ih (fun x hx => h x (by simp at hx ⊢; rcases hx with rfl | hx; exact Or.inr (Or.inl rfl); exact Or.inr (Or.inr hx)))]
    have : unitsOf u = [u] := by unfold unitsOf; rw [if_pos (by omega)]
    rw [this]; rfl

/-- decoding the UTF-8 form of any list of code points gives their UTF-16 forms -/
theorem decode_utf8OfScalars (cps : List Nat) (h : ∀ cp ∈ cps, cp < 0x110000) :
    utf8ToUtf16 (utf8OfScalars cps) = .ok (cps.flatMap utf16OfScalar) := by
  induction cps with
  | nil => rfl
  | cons cp r ih =>
    have : utf8OfScalars (cp :: r) = utf8OfUnits.enc cp ++ utf8OfScalars r := by simp [utf8OfScalars]
    rw [this, decode_enc cp (h cp (by simp)), ih (fun x hx => h x (by simp [hx]))]
    simp [Except.map, unitsOf_eq]

/-- what the (lenient) decoder read: the bytes are the UTF-8 forms of code points `cps`
followed by an incomplete sequence `tail` that is dropped; the units are the UTF-16 forms -/
def DecodedAs (b : Bytes) (us : List Nat) : Prop :=
  ∃ cps tail, b = utf8OfScalars cps ++ tail ∧ tail.length ≤ 3 ∧ utf8ToUtf16 tail = .ok [] ∧
    us = cps.flatMap utf16OfScalar ∧ ∀ cp ∈ cps, cp < 0x110000

theorem DecodedAs.cons {r : Bytes} {v : List Nat} (cp : Nat) (pre : Bytes) (hpre : utf8OfUnits.enc cp = pre)
    (hcp : cp < 0x110000) (ih : DecodedAs r v) : DecodedAs (pre ++ r) (utf16OfScalar cp ++ v) := by
  obtain ⟨cps, tail, rfl, h1, h2, rfl, h3⟩ := ih
  refine ⟨cp :: cps, tail, by simp [utf8OfScalars, hpre], h1, h2, by simp, ?_⟩
  intro x hx
  rcases List.mem_cons.mp hx with rfl | hx
  · exact hcp
  · exact h3 x hx

theorem map_ok_inv {f : List Nat → List Nat} {r : Except Err (List Nat)} {us : List Nat}
    (h : Except.map f r = .ok us) : ∃ v, r = .ok v ∧ us = f v := by
  cases r with
  | error e => cases h
  | ok v => exact ⟨v, rfl, by cases h; rfl⟩

theorem decodedAs_of_decode (b : Bytes) (us : List Nat) (h : utf8ToUtf16 b = .ok us) : DecodedAs b us := by
  fun_induction utf8ToUtf16 b generalizing us
  case case1 => cases h; exact ⟨[], [], rfl, by simp, rfl, rfl, by simp⟩
  case case2 c1 rest n1 hlt ih =>
    have hn1 : n1 = c1.toNat := rfl
    obtain ⟨v, hv, rfl⟩ := map_ok_inv h
    have := DecodedAs.cons n1 [c1] (by
      unfold utf8OfUnits.enc; rw [if_pos hlt, hn1, byteOf_toNat_self]) (by omega) (ih v hv)
    have e : utf16OfScalar n1 = [n1] := by unfold utf16OfScalar; rw [if_pos (by omega)]
    rw [e] at this; exact this
  case case3 => cases h
  case case4 => cases h
  case case5 c1 n1 h1 h2 h3 c2 r hc2 ih =>
    have hn1 : n1 = c1.toNat := rfl
    have b2 := (isCont_iff c2).mp (by simpa using hc2)
    obtain ⟨v, hv, rfl⟩ := map_ok_inv h
    have hcp : n1 * 64 + c2.toNat - 12416 < 0x800 ∧ 0x80 ≤ n1 * 64 + c2.toNat - 12416 := by omega
    have := DecodedAs.cons (n1 * 64 + c2.toNat - 12416) [c1, c2] (by
      unfold utf8OfUnits.enc
      rw [if_neg (by omega), if_pos (by omega)]
      have a : 0xC0 + (n1 * 64 + c2.toNat - 12416) / 64 = c1.toNat := by omega
      have b : 0x80 + (n1 * 64 + c2.toNat - 12416) % 64 = c2.toNat := by omega
      rw [a, b, byteOf_toNat_self, byteOf_toNat_self]) (by omega) (ih v hv)
    have e : utf16OfScalar (n1 * 64 + c2.toNat - 12416) = [n1 * 64 + c2.toNat - 12416] := by
      unfold utf16OfScalar; rw [if_pos (by omega)]
    rw [e] at this; exact this
  case case6 c1 rest n1 h1 h2 h3 hx =>
    cases h
    refine ⟨[], c1 :: rest, rfl, ?_, ?_, rfl, by simp⟩
    · match rest, hx with
      | [], _ => simp
      | c2 :: r, hx => exact absurd rfl (hx c2 r)
    · match rest, hx with
      | [], _ =>
        conv => lhs; unfold utf8ToUtf16
        simp only []
        rw [if_neg h1, if_neg h2, if_pos h3]
      | c2 :: r, hx => exact absurd rfl (hx c2 r)
  case case7 => cases h
  case case8 => cases h
  case case9 => cases h
  case case10 c1 n1 h1 h2 h3 h4 c2 c3 r hc2 he0 hc3 ih =>
    have hn1 : n1 = c1.toNat := rfl
    have b2 := (isCont_iff c2).mp (by simpa using hc2)
    have b3 := (isCont_iff c3).mp (by simpa using hc3)
    obtain ⟨v, hv, rfl⟩ := map_ok_inv h
    have hcp : n1 * 4096 + c2.toNat * 64 + c3.toNat - 925824 < 0x10000 ∧ 0x800 ≤ n1 * 4096 + c2.toNat * 64 + c3.toNat - 925824 := by omega
    have := DecodedAs.cons (n1 * 4096 + c2.toNat * 64 + c3.toNat - 925824) [c1, c2, c3] (by
      unfold utf8OfUnits.enc
      rw [if_neg (by omega), if_neg (by omega), if_pos (by omega)]
      have a : 0xE0 + (n1 * 4096 + c2.toNat * 64 + c3.toNat - 925824) / 4096 = c1.toNat := by omega
      have b : 0x80 + (n1 * 4096 + c2.toNat * 64 + c3.toNat - 925824) / 64 % 64 = c2.toNat := by omega
      have c : 0x80 + (n1 * 4096 + c2.toNat * 64 + c3.toNat - 925824) % 64 = c3.toNat := by omega
      rw [a, b, c, byteOf_toNat_self, byteOf_toNat_self, byteOf_toNat_self]) (by omega) (ih v hv)
    have e : utf16OfScalar (n1 * 4096 + c2.toNat * 64 + c3.toNat - 925824) = [n1 * 4096 + c2.toNat * 64 + c3.toNat - 925824] := by
      unfold utf16OfScalar; rw [if_pos (by omega)]
    rw [e] at this; exact this
  case case11 c1 rest n1 h1 h2 h3 h4 hx =>
    cases h
    refine ⟨[], c1 :: rest, rfl, ?_, ?_, rfl, by simp⟩
    · match rest, hx with
      | [], _ => simp
      | [_], _ => simp
      | c2 :: c3 :: r, hx => exact absurd rfl (hx c2 c3 r)
    · match rest, hx with
      | [], _ =>
        conv => lhs; unfold utf8ToUtf16
        simp only []
        rw [if_neg h1, if_neg h2, if_neg h3, if_pos h4]
      | [_], _ =>
        conv => lhs; unfold utf8ToUtf16
        simp only []
        rw [if_neg h1, if_neg h2, if_neg h3, if_pos h4]
      | c2 :: c3 :: r, hx => exact absurd rfl (hx c2 c3 r)
  case case12 => cases h
  case case13 => cases h
  case case14 => cases h
  case case15 => cases h
  case case16 => cases h
  case case17 c1 n1 h1 h2 h3 h4 h5 c2 c3 c4 r hc2 hf0 hf4 hc3 hc4 ih =>
    have hn1 : n1 = c1.toNat := rfl
    have b2 := (isCont_iff c2).mp (by simpa using hc2)
    have b3 := (isCont_iff c3).mp (by simpa using hc3)
    have b4 := (isCont_iff c4).mp (by simpa using hc4)
    obtain ⟨cp, hcpd⟩ : ∃ cp, cp = n1 * 262144 + c2.toNat * 4096 + c3.toNat * 64 + c4.toNat - 63447168 := ⟨_, rfl⟩
    rw [← hcpd] at h
    obtain ⟨v, hv, hus⟩ := map_ok_inv h
    rw [hus]
    have hcp : cp < 0x110000 ∧ 0x10000 ≤ cp := by omega
    have := DecodedAs.cons cp [c1, c2, c3, c4] (by
      unfold utf8OfUnits.enc
      rw [if_neg (by omega), if_neg (by omega), if_neg (by omega)]
      have a : 0xF0 + cp / 262144 = c1.toNat := by omega
      have b : 0x80 + cp / 4096 % 64 = c2.toNat := by omega
      have c : 0x80 + cp / 64 % 64 = c3.toNat := by omega
      have d : 0x80 + cp % 64 = c4.toNat := by omega
      rw [a, b, c, d, byteOf_toNat_self, byteOf_toNat_self, byteOf_toNat_self, byteOf_toNat_self]) (by omega) (ih v hv)
    rw [unitsOf_eq]; exact this
  case case18 c1 rest n1 h1 h2 h3 h4 h5 hx =>
    cases h
    refine ⟨[], c1 :: rest, rfl, ?_, ?_, rfl, by simp⟩
    · match rest, hx with
      | [], _ => simp
      | [_], _ => simp
      | [_, _], _ => simp
      | c2 :: c3 :: c4 :: r, hx => exact absurd rfl (hx c2 c3 c4 r)
    · match rest, hx with
      | [], _ =>
        conv => lhs; unfold utf8ToUtf16
        simp only []
        rw [if_neg h1, if_neg h2, if_neg h3, if_neg h4, if_pos h5]
      | [_], _ =>
        conv => lhs; unfold utf8ToUtf16
        simp only []
        rw [if_neg h1, if_neg h2, if_neg h3, if_neg h4, if_pos h5]
      | [_, _], _ =>
        conv => lhs; unfold utf8ToUtf16
        simp only []
        rw [if_neg h1, if_neg h2, if_neg h3, if_neg h4, if_pos h5]
      | c2 :: c3 :: c4 :: r, hx => exact absurd rfl (hx c2 c3 c4 r)
  case case19 => cases h

/-- well-formed UTF-8 is the UTF-8 form of a list of Unicode scalar values -/
def ValidAs (b : Bytes) : Prop := ∃ cps, (∀ cp ∈ cps, isScalar cp = true) ∧ b = utf8OfScalars cps

theorem ValidAs.cons {r : Bytes} (cp : Nat) (pre : Bytes) (hpre : utf8OfUnits.enc cp = pre)
    (hcp : isScalar cp = true) (ih : ValidAs r) : ValidAs (pre ++ r) := by
  obtain ⟨cps, h1, rfl⟩ := ih
  refine ⟨cp :: cps, ?_, by simp [utf8OfScalars, hpre]⟩
  intro x hx
  rcases List.mem_cons.mp hx with rfl | hx
  · exact hcp
  · exact h1 x hx

theorem isScalar_iff (cp : Nat) : isScalar cp = true ↔ cp < 0x110000 ∧ ¬ (0xD800 ≤ cp ∧ cp < 0xE000) := by
  unfold isScalar; simp; intro _; omega

theorem validAs_of_valid (b : Bytes) (h : validUtf8 b = true) : ValidAs b := by
  fun_induction validUtf8 b
  case case1 => exact ⟨[], by simp, rfl⟩
  case case2 c r n hlt ih =>
    have hn : n = c.toNat := rfl
    exact ValidAs.cons n [c] (by unfold utf8OfUnits.enc; rw [if_pos hlt, hn, byteOf_toNat_self])
      ((isScalar_iff n).mpr (by omega)) (ih h)
  case case3 c n cont h1 h2 b2 r ih =>
    have hn : n = c.toNat := rfl
    simp only [cont, Bool.and_eq_true, decide_eq_true_eq] at h
    obtain ⟨⟨l2, u2⟩, hr⟩ := h
    obtain ⟨cp, hcp⟩ : ∃ cp, cp = n * 64 + b2.toNat - 12416 := ⟨_, rfl⟩
    exact ValidAs.cons cp [c, b2] (by
      unfold utf8OfUnits.enc
      rw [if_neg (by omega), if_pos (by omega)]
      have a : 0xC0 + cp / 64 = c.toNat := by omega
      have b : 0x80 + cp % 64 = b2.toNat := by omega
      rw [a, b, byteOf_toNat_self, byteOf_toNat_self]) ((isScalar_iff cp).mpr (by omega)) (ih hr)
  case case4 => cases h
  case case5 c n cont h1 h2 h3 b2 b3 r ih =>
    have hn : n = c.toNat := rfl
    simp only [cont, Bool.and_eq_true, decide_eq_true_eq] at h
    obtain ⟨⟨⟨l2, u2⟩, l3, u3⟩, hr⟩ := h
    obtain ⟨cp, hcp⟩ : ∃ cp, cp = n * 4096 + b2.toNat * 64 + b3.toNat - 925824 := ⟨_, rfl⟩
    have hl : (if n = 224 then 160 else 128) ≤ b2.toNat := l2
    have hu : b2.toNat ≤ (if n = 237 then 159 else 191) := u2
    have hl' : 128 ≤ b2.toNat ∧ (n = 224 → 160 ≤ b2.toNat) := by split at hl <;> omega
    have hu' : b2.toNat ≤ 191 ∧ (n = 237 → b2.toNat ≤ 159) := by split at hu <;> omega
    exact ValidAs.cons cp [c, b2, b3] (by
      unfold utf8OfUnits.enc
      rw [if_neg (by omega), if_neg (by omega), if_pos (by omega)]
      have a : 0xE0 + cp / 4096 = c.toNat := by omega
      have b : 0x80 + cp / 64 % 64 = b2.toNat := by omega
      have c' : 0x80 + cp % 64 = b3.toNat := by omega
      rw [a, b, c', byteOf_toNat_self, byteOf_toNat_self, byteOf_toNat_self]) ((isScalar_iff cp).mpr (by omega)) (ih hr)
  case case6 => cases h
  case case7 c n cont h1 h2 h3 h4 b2 b3 b4 r ih =>
    have hn : n = c.toNat := rfl
    simp only [cont, Bool.and_eq_true, decide_eq_true_eq] at h
    obtain ⟨⟨⟨⟨l2, u2⟩, l3, u3⟩, l4, u4⟩, hr⟩ := h
    obtain ⟨cp, hcp⟩ : ∃ cp, cp = n * 262144 + b2.toNat * 4096 + b3.toNat * 64 + b4.toNat - 63447168 := ⟨_, rfl⟩
    have hl : (if n = 240 then 144 else 128) ≤ b2.toNat := l2
    have hu : b2.toNat ≤ (if n = 244 then 143 else 191) := u2
    have hl' : 128 ≤ b2.toNat ∧ (n = 240 → 144 ≤ b2.toNat) := by split at hl <;> omega
    have hu' : b2.toNat ≤ 191 ∧ (n = 244 → b2.toNat ≤ 143) := by split at hu <;> omega
    exact ValidAs.cons cp [c, b2, b3, b4] (by
      unfold utf8OfUnits.enc
      rw [if_neg (by omega), if_neg (by omega), if_neg (by omega)]
      have a : 0xF0 + cp / 262144 = c.toNat := by omega
      have b : 0x80 + cp / 4096 % 64 = b2.toNat := by omega
      have c' : 0x80 + cp / 64 % 64 = b3.toNat := by omega
      have d : 0x80 + cp % 64 = b4.toNat := by omega
      rw [a, b, c', d, byteOf_toNat_self, byteOf_toNat_self, byteOf_toNat_self, byteOf_toNat_self])
      ((isScalar_iff cp).mpr (by omega)) (ih hr)
  case case8 => cases h
  case case9 => cases h

/-! ### UTF-16 strings as scalar values -/

theorem scalarsOfUnits_cons (u : Nat) (hu : ¬ (0xD800 ≤ u ∧ u < 0xDC00)) (r : List Nat) :
    scalarsOfUnits (u :: r) = u :: scalarsOfUnits r := by
  cases r with
  | nil => rfl
  | cons v r => conv => lhs; unfold scalarsOfUnits
                rw [if_neg (by omega)]

theorem utf8OfUnits_cons (u : Nat) (hu : ¬ (0xD800 ≤ u ∧ u < 0xDC00)) (r : List Nat) :
    utf8OfUnits (u :: r) = utf8OfUnits.enc u ++ utf8OfUnits r := by
  cases r with
  | nil => simp [utf8OfUnits]
  | cons v r => conv => lhs; unfold utf8OfUnits
                rw [if_neg (by omega)]

theorem wfUtf16_cons (u : Nat) (hu : u < 0xD800 ∨ (0xE000 ≤ u ∧ u < 0x10000)) (r : List Nat) :
    wfUtf16 (u :: r) = wfUtf16 r := by
  cases r with
  | nil => simp [wfUtf16]; omega
  | cons v r => conv => lhs; unfold wfUtf16
                rw [if_pos hu]

theorem utf16_pair (cp : Nat) (h1 : 0x10000 ≤ cp) (h2 : cp < 0x110000) :
    ∃ hi lo, utf16OfScalar cp = [hi, lo] ∧ 0xD800 ≤ hi ∧ hi < 0xDC00 ∧ 0xDC00 ≤ lo ∧ lo < 0xE000 ∧
      0x10000 + (hi - 0xD800) * 1024 + (lo - 0xDC00) = cp :=
  ⟨0xD800 + (cp - 0x10000) / 1024, 0xDC00 + (cp - 0x10000) % 1024,
    by unfold utf16OfScalar; rw [if_neg (by omega)], by omega, by omega, by omega, by omega, by omega⟩

/-- the reader-side encoder is "decode UTF-16 to code points, encode those as UTF-8" -/
theorem utf8OfUnits_eq (us : List Nat) : utf8OfUnits us = utf8OfScalars (scalarsOfUnits us) := by
  fun_induction utf8OfUnits us
  case case1 => rfl
  case case2 u => simp [scalarsOfUnits, utf8OfScalars]
  case case3 u v r hp ih =>
    conv => rhs; arg 1; unfold scalarsOfUnits
    rw [if_pos hp, ih]; simp [utf8OfScalars]
  case case4 u v r hp ih =>
    conv => rhs; arg 1; unfold scalarsOfUnits
    rw [if_neg hp, ih]; simp [utf8OfScalars]

theorem scalarsOfUnits_utf16 (cps : List Nat) (h : ∀ cp ∈ cps, isScalar cp = true) :
    scalarsOfUnits (cps.flatMap utf16OfScalar) = cps := by
  induction cps with
  | nil => rfl
  | cons cp r ih =>
    have hs := (isScalar_iff cp).mp (h cp (by simp))
    have ihr := ih (fun x hx => h x (by simp [hx]))
    rw [List.flatMap_cons]
    rcases Nat.lt_or_ge cp 0x10000 with hb | hb
    · have : utf16OfScalar cp = [cp] := by unfold utf16OfScalar; rw [if_pos hb]
      rw [this]
      simp only [List.cons_append, List.nil_append]
      rw [scalarsOfUnits_cons cp (by omega), ihr]
    · obtain ⟨hi, lo, e, a1, a2, a3, a4, a5⟩ := utf16_pair cp hb hs.1
      rw [e]
      simp only [List.cons_append, List.nil_append]
      conv => lhs; unfold scalarsOfUnits
      rw [if_pos ⟨a1, a2, a3, a4⟩, ihr, a5]

theorem wfUtf16_utf16 (cps : List Nat) (h : ∀ cp ∈ cps, isScalar cp = true) :
    wfUtf16 (cps.flatMap utf16OfScalar) = true := by
  induction cps with
  | nil => rfl
  | cons cp r ih =>
    have hs := (isScalar_iff cp).mp (h cp (by simp))
    have ihr := ih (fun x hx => h x (by simp [hx]))
    rw [List.flatMap_cons]
    rcases Nat.lt_or_ge cp 0x10000 with hb | hb
    · have : utf16OfScalar cp = [cp] := by unfold utf16OfScalar; rw [if_pos hb]
      rw [this]
      simp only [List.cons_append, List.nil_append]
      rw [wfUtf16_cons cp (by omega), ihr]
    · obtain ⟨hi, lo, e, a1, a2, a3, a4, a5⟩ := utf16_pair cp hb hs.1
      rw [e]
      simp only [List.cons_append, List.nil_append]
      conv => lhs; unfold wfUtf16
      rw [if_neg (by omega), if_pos ⟨a1, a2, a3, a4⟩, ihr]

theorem wf_units16 (us : List Nat) (h : wfUtf16 us = true) : units16 us = true := by
  fun_induction wfUtf16 us
  case case1 => rfl
  case case2 u =>
    simp only [Bool.or_eq_true, Bool.and_eq_true, decide_eq_true_eq] at h
    simp [units16]; omega
  case case3 u v r hu ih =>
    have := ih h
    simp only [units16, List.all_cons, Bool.and_eq_true, decide_eq_true_eq] at this ⊢
    exact ⟨by omega, this⟩
  case case4 u v r hu hp ih =>
    have := ih h
    simp only [units16, List.all_cons, Bool.and_eq_true, decide_eq_true_eq] at this ⊢
    exact ⟨by omega, by omega, this⟩
  case case5 => cases h

/-- the UTF-8 form of a scalar value is well formed, in front of well-formed text -/
theorem valid_enc (cp : Nat) (h : isScalar cp = true) (rest : Bytes) :
    validUtf8 (utf8OfUnits.enc cp ++ rest) = validUtf8 rest := by
  have hs := (isScalar_iff cp).mp h
  unfold utf8OfUnits.enc
  split
  · simp only [List.cons_append, List.nil_append]
    conv => lhs; unfold validUtf8
    simp only [byteOf_toNat]
    rw [if_pos (by omega)]
  · split
    · simp only [List.cons_append, List.nil_append]
      conv => lhs; unfold validUtf8
      simp only [byteOf_toNat]
      have e1 : (0xC0 + cp / 64) % 256 = 0xC0 + cp / 64 := by omega
      have e2 : (0x80 + cp % 64) % 256 = 0x80 + cp % 64 := by omega
      rw [if_neg (by omega), if_pos (by omega)]
      simp only [e2]
      simp
      intro _; omega
    · split
      · simp only [List.cons_append, List.nil_append]
        conv => lhs; unfold validUtf8
        simp only [byteOf_toNat]
        have e1 : (0xE0 + cp / 4096) % 256 = 0xE0 + cp / 4096 := by omega
        have e2 : (0x80 + cp / 64 % 64) % 256 = 0x80 + cp / 64 % 64 := by omega
        have e3 : (0x80 + cp % 64) % 256 = 0x80 + cp % 64 := by omega
        rw [if_neg (by omega), if_neg (by omega), if_pos (by omega)]
        simp only [e1, e2, e3]
        simp
        intro _
        refine ⟨⟨?_, ?_⟩, ?_⟩
        · split <;> omega
        · split <;> omega
        · omega
      · simp only [List.cons_append, List.nil_append]
        conv => lhs; unfold validUtf8
        simp only [byteOf_toNat]
        have e1 : (0xF0 + cp / 262144) % 256 = 0xF0 + cp / 262144 := by omega
        have e2 : (0x80 + cp / 4096 % 64) % 256 = 0x80 + cp / 4096 % 64 := by omega
        have e3 : (0x80 + cp / 64 % 64) % 256 = 0x80 + cp / 64 % 64 := by omega
        have e4 : (0x80 + cp % 64) % 256 = 0x80 + cp % 64 := by omega
        rw [if_neg (by omega), if_neg (by omega), if_neg (by omega), if_pos (by omega)]
        simp only [e1, e2, e3, e4]
        simp
        intro _
        refine ⟨⟨⟨?_, ?_⟩, ?_⟩, ?_⟩
        · split <;> omega
        · split <;> omega
        · omega
        · omega


theorem valid_utf8OfScalars (cps : List Nat) (h : ∀ cp ∈ cps, isScalar cp = true) : validUtf8 (utf8OfScalars cps) = true := by
  induction cps with
  | nil => rfl
  | cons cp r ih =>
    have : utf8OfScalars (cp :: r) = utf8OfUnits.enc cp ++ utf8OfScalars r := by simp [utf8OfScalars]
    rw [this, valid_enc cp (h cp (by simp)), ih (fun x hx => h x (by simp [hx]))]

/-- well-formed UTF-16 denotes Unicode scalar values only -/
theorem scalars_of_wf (us : List Nat) (h : wfUtf16 us = true) : ∀ cp ∈ scalarsOfUnits us, isScalar cp = true := by
  fun_induction wfUtf16 us
  case case1 => intro cp hc; cases hc
  case case2 u =>
    simp only [Bool.or_eq_true, Bool.and_eq_true, decide_eq_true_eq] at h
    intro cp hc
    simp [scalarsOfUnits] at hc; subst hc
    exact (isScalar_iff _).mpr (by omega)
  case case3 u v r hu ih =>
    rw [scalarsOfUnits_cons u (by omega)]
    intro cp hc
    rcases List.mem_cons.mp hc with rfl | hc
    · exact (isScalar_iff _).mpr (by omega)
    · exact ih h cp hc
  case case4 u v r hu hp ih =>
    conv => enter [cp, 1]; unfold scalarsOfUnits
    rw [if_pos hp]
    intro cp hc
    rcases List.mem_cons.mp hc with h0 | hc
    · exact (isScalar_iff _).mpr (by omega)
    · exact ih h cp hc
  case case5 => cases h

/-- the reader-side encoder turns well-formed UTF-16 into well-formed UTF-8 -/
theorem valid_utf8OfUnits (us : List Nat) (h : wfUtf16 us = true) : validUtf8 (utf8OfUnits us) = true := by
  rw [utf8OfUnits_eq]
  exact valid_utf8OfScalars _ (scalars_of_wf us h)

/-- the `us` of `rendersTag`: a high surrogate cut off from its partner at the end is dropped -/
def stripHigh (units : List Nat) : List Nat :=
  match units.getLast? with
  | some u => if 0xD800 ≤ u ∧ u < 0xDC00 then units.dropLast else units
  | none => units

theorem stripHigh_cons (a : Nat) (x : List Nat) (hx : x ≠ []) : stripHigh (a :: x) = a :: stripHigh x := by
  cases x with
  | nil => exact absurd rfl hx
  | cons b y =>
    unfold stripHigh
    rw [List.getLast?_cons_cons]
    cases hg : (b :: y).getLast? with
    | none => simp
    | some u =>
      simp only []
      split
      · simp [List.dropLast]
      · rfl

/-- cutting the UTF-16 form of scalar values at any number of units and dropping a cut-off
high surrogate leaves the UTF-8 form of a prefix of the scalar values -/
theorem take_prefix (cps : List Nat) (h : ∀ cp ∈ cps, isScalar cp = true) (k : Nat) :
    utf8OfUnits (stripHigh ((cps.flatMap utf16OfScalar).take k)) <+: utf8OfScalars cps := by
  induction cps generalizing k with
  | nil => simp [stripHigh, utf8OfUnits, utf8OfScalars]
  | cons cp r ih =>
    have hs := (isScalar_iff cp).mp (h cp (by simp))
    have ihr := ih (fun x hx => h x (by simp [hx]))
    have hsc : utf8OfScalars (cp :: r) = utf8OfUnits.enc cp ++ utf8OfScalars r := by simp [utf8OfScalars]
    rw [List.flatMap_cons, hsc]
    cases k with
    | zero => simp [stripHigh, utf8OfUnits]
    | succ k =>
      rcases Nat.lt_or_ge cp 0x10000 with hb | hb
      · have : utf16OfScalar cp = [cp] := by unfold utf16OfScalar; rw [if_pos hb]
        rw [this]
        simp only [List.cons_append, List.nil_append, List.take_succ_cons]
        by_cases hx : (r.flatMap utf16OfScalar).take k = []
        · rw [hx]
          have : stripHigh [cp] = [cp] := by unfold stripHigh; simp; omega
          rw [this]
          simp [utf8OfUnits]
        · rw [stripHigh_cons _ _ hx, utf8OfUnits_cons cp (by omega)]
          exact (List.prefix_append_right_inj _).mpr (ihr k)
      · obtain ⟨hi, lo, e, a1, a2, a3, a4, a5⟩ := utf16_pair cp hb hs.1
        rw [e]
        simp only [List.cons_append, List.nil_append, List.take_succ_cons]
        cases k with
        | zero =>
          have : stripHigh [hi] = [] := by unfold stripHigh; simp; omega
          simp [this, utf8OfUnits]
        | succ k =>
          simp only [List.take_succ_cons]
          by_cases hx : (r.flatMap utf16OfScalar).take k = []
          · rw [hx]
            have : stripHigh [hi, lo] = [hi, lo] := by unfold stripHigh; simp; omega
            rw [this]
            conv => lhs; unfold utf8OfUnits
            rw [if_pos ⟨a1, a2, a3, a4⟩, a5]
            simp [utf8OfUnits]
          · rw [stripHigh_cons _ _ (by simp), stripHigh_cons _ _ hx]
            conv => lhs; unfold utf8OfUnits
            rw [if_pos ⟨a1, a2, a3, a4⟩, a5]
            exact (List.prefix_append_right_inj _).mpr (ihr k)

end Ctrmml.Vgm
