/-
  C09, reader tie (2): `convert_track` keeps its output an instruction list.

  Invariant `R0 out breaks I` between the encoder's output / loop-break stack and an instruction
  list `I` (Proofs/MdsReadIns): `I` flattens to `out`, every element is a well-formed instruction,
  a length-less note is only ever followed by a byte `≥ 80`, and the holes of `I` stand exactly at
  the pending break positions of the stack.  The back-patch at a loop end fills the innermost hole
  with the loop-break instruction; everything else only appends (or completes the pending note with
  its length byte).  No structural decomposition of the event list is needed, so — unlike the
  codec round trip (Proofs/Codec*) — subroutine calls, drum mode, `DMFINISH`, loop point and jump
  are all inside the fragment (`okEv`).
-/
import Ctrmml.Proofs.MdsReadIns
import Ctrmml.Proofs.CodecWalkLoops
import Ctrmml.Proofs.CodecCall
namespace Ctrmml.MdsRead
open Ctrmml Ctrmml.Mds Ctrmml.Seq Ctrmml.SeqWf Ctrmml.MdsResolve Ctrmml.Codec Tables

/-! ### holes -/

/-- byte offsets (from `off`) of the holes of an instruction list -/
def holePos : Nat → List Ins → List Nat
  | _, [] => []
  | off, [] :: r => off :: holePos off r
  | off, (_ :: t) :: r => holePos (off + (t.length + 1)) r

theorem holePos_append : ∀ (I J : List Ins) (off : Nat),
    holePos off (I ++ J) = holePos off I ++ holePos (off + I.flatten.length) J
  | [], J, off => by simp [holePos]
  | [] :: I, J, off => by simp [holePos, holePos_append I J off]
  | (b :: t) :: I, J, off => by
    simp only [List.cons_append, holePos, holePos_append I J, List.flatten_cons, List.length_append, List.length_cons]
    rw [show off + (t.length + 1) + I.flatten.length = off + (t.length + I.flatten.length + 1) by omega]

theorem holePos_nohole : ∀ (J : List Ins) (off : Nat), (∀ j ∈ J, j ≠ []) → holePos off J = []
  | [], _, _ => rfl
  | [] :: _, _, h => absurd rfl (h [] (by simp))
  | (b :: t) :: J, off, h => by
    simp only [holePos]; exact holePos_nohole J _ (fun j hj => h j (by simp [hj]))

theorem nohole_of_holePos : ∀ (J : List Ins) (off : Nat), holePos off J = [] → ∀ j ∈ J, j ≠ []
  | [], _, _ => by simp
  | [] :: _, _, h => by simp [holePos] at h
  | (b :: t) :: J, off, h => by
    simp only [holePos] at h
    intro j hj
    rcases List.mem_cons.mp hj with rfl | hj
    · simp
    · exact nohole_of_holePos J _ h j hj

/-- the last hole -/
theorem holePos_split : ∀ (I : List Ins) (off : Nat) (Q : List Nat) (b : Nat), holePos off I = Q ++ [b] →
    ∃ A B, I = A ++ [] :: B ∧ off + A.flatten.length = b ∧ holePos off A = Q ∧ (∀ j ∈ B, j ≠ [])
  | [], _, Q, b, h => by simp [holePos] at h
  | [] :: I, off, Q, b, h => by
    simp only [holePos] at h
    rcases List.eq_nil_or_concat (holePos off I) with hn | ⟨L, b', hL⟩
    · rw [hn] at h
      obtain ⟨hq, hb⟩ := List.append_inj' (s₁ := Q) (t₁ := [b]) (s₂ := []) (t₂ := [off]) (by simpa using h.symm) rfl
      refine ⟨[], I, rfl, by simp at hb ⊢; omega, by simp [holePos, hq], nohole_of_holePos I off hn⟩
    · rw [List.concat_eq_append] at hL
      rw [hL] at h
      obtain ⟨hq, hb⟩ := List.append_inj' (s₁ := Q) (t₁ := [b]) (s₂ := off :: L) (t₂ := [b']) (by simpa using h.symm) rfl
      simp only [List.cons.injEq, and_true] at hb
      obtain ⟨A, B, hI, hlen, hA, hB⟩ := holePos_split I off L b' hL
      refine ⟨[] :: A, B, by simp [hI], by simpa [hb] using hlen, by simp [holePos, hA, hq], hB⟩
  | (c :: t) :: I, off, Q, b, h => by
    simp only [holePos] at h
    obtain ⟨A, B, hI, hlen, hA, hB⟩ := holePos_split I _ Q b h
    refine ⟨(c :: t) :: A, B, by simp [hI], ?_, by simp [holePos, hA], hB⟩
    simp only [List.flatten_cons, List.length_append, List.length_cons]; omega

/-! ### the invariant -/

structure R0 (out br : List Nat) (I : List Ins) : Prop where
  flat : I.flatten = out
  ok : ∀ i ∈ I, InsOk i
  chain : Chain I
  holes : holePos 0 I = (br.filter (· != 0)).reverse
  pos : br ≠ [] → out ≠ []
  bytes : ∀ x ∈ out, x < 256

/-- the pending length-less note is what the encoder's `needLen` test sees -/
def Pend (e : Enc) (I : List Ins) : Prop :=
  (needLenB e = true ↔ LastBare I) ∧ (needLenB e = true → e.lastNote < 128)

theorem r0_init : R0 [] [] [] := ⟨rfl, by simp, trivial, rfl, fun h => absurd rfl h, by simp⟩
theorem pend_init : Pend {} [] := ⟨by simp [needLenB, noteish, mds_REST, mds_TIE, not_lastBare_nil], by simp [needLenB, noteish, mds_REST, mds_TIE]⟩

theorem not_bare_nil : ¬ Bare [] := by rintro ⟨t, h, _⟩; cases h

theorem R0.push {out br : List Nat} {I : List Ins} (h : R0 out br I) {j : Ins} (hj : InsOk j) (hne : j ≠ [])
    (link : LastBare I → HeadOk [j]) {br' : List Nat} (hbr : br'.filter (· != 0) = br.filter (· != 0))
    (hjb : ∀ x ∈ j, x < 256) : R0 (out ++ j) br' (I ++ [j]) where
  flat := by simp [h.flat]
  ok := by
    intro i hi
    rcases List.mem_append.mp hi with hi | hi
    · exact h.ok i hi
    · simp only [List.mem_singleton] at hi; subst hi; exact hj
  chain := (chain_append I [j]).mpr ⟨h.chain, ⟨fun _ => trivial, trivial⟩, link⟩
  holes := by
    rw [holePos_append, holePos_nohole [j] _ (by simpa using hne), List.append_nil, h.holes, hbr]
  pos := by
    intro _ hc
    have : j = [] := (List.append_eq_nil_iff.mp hc).2
    exact hne this
  bytes := by
    intro x hx
    rcases List.mem_append.mp hx with hx | hx
    · exact h.bytes x hx
    · exact hjb x hx

theorem R0.extend {out br : List Nat} {I0 : List Ins} {t : Nat} (h : R0 out br (I0 ++ [[t]])) (h1 : 0x81 ≤ t) (h2 : t < 0xe0)
    {l : Nat} (hl : l < 0x80) : R0 (out ++ [l]) br (I0 ++ [[t, l]]) where
  flat := by
    have := h.flat
    simp only [List.flatten_append, List.flatten_cons, List.flatten_nil, List.append_nil] at this ⊢
    rw [← this]; simp
  ok := by
    intro i hi
    rcases List.mem_append.mp hi with hi | hi
    · exact h.ok i (List.mem_append_left _ hi)
    · simp only [List.mem_singleton] at hi; subst hi; exact .full t l h1 h2 hl
  chain := by
    obtain ⟨c1, _, c3⟩ := (chain_append I0 [[t]]).mp h.chain
    refine (chain_append I0 [[t, l]]).mpr ⟨c1, ⟨fun _ => trivial, trivial⟩, ?_⟩
    intro hb; have := c3 hb; simpa [HeadOk] using this
  holes := by
    have := h.holes
    rw [holePos_append, holePos_nohole [[t]] _ (by simp)] at this
    rw [holePos_append, holePos_nohole [[t, l]] _ (by simp), ← this]
  pos := by intro _ hc; simp at hc
  bytes := by
    intro x hx
    rcases List.mem_append.mp hx with hx | hx
    · exact h.bytes x hx
    · simp only [List.mem_singleton] at hx; subst hx; omega

theorem R0.hole {out r : List Nat} {I : List Ins} (h : R0 out (0 :: r) I) : R0 out (out.length :: r) (I ++ [[]]) where
  flat := by simp [h.flat]
  ok := by
    intro i hi
    rcases List.mem_append.mp hi with hi | hi
    · exact h.ok i hi
    · simp only [List.mem_singleton] at hi; subst hi; exact .hole
  chain := (chain_append I [[]]).mpr ⟨h.chain, ⟨fun hb => absurd hb not_bare_nil, trivial⟩, fun _ => trivial⟩
  holes := by
    have hne : out.length ≠ 0 := by
      have := h.pos (by simp); intro hc; exact this (List.length_eq_zero_iff.mp hc)
    have hh := h.holes
    simp only [List.filter_cons, bne_self_eq_false, Bool.false_eq_true, if_false] at hh
    rw [holePos_append, hh, h.flat]
    simp [holePos, hne]
  pos := fun _ => h.pos (by simp)
  bytes := h.bytes

theorem chain_cons_cmd {c : Ins} {cb : Nat} {cr : List Nat} (hc : c = cb :: cr) (hge : cb ≥ 0xe0) (X : List Ins) :
    Chain (c :: X) ↔ Chain X := by
  have : ¬ Bare c := by
    rintro ⟨t, ht, _, h2⟩
    rw [hc] at ht; injection ht with ht _; omega
  simp [Chain, this]

/-- the back-patch: the innermost hole is filled with a command, the loop end is appended -/
theorem R0.patch {out r : List Nat} {b : Nat} {I : List Ins} (h : R0 out (b :: r) I) (hb : b ≠ 0) :
    ∃ A B, I = A ++ [] :: B ∧ out = A.flatten ++ B.flatten ∧ A.flatten.length = b ∧
      ∀ (c : Ins) (cb : Nat) (cr : List Nat), c = cb :: cr → cb ≥ 0xe0 → InsOk c → (∀ x ∈ c, x < 256) → ∀ n : Nat, n < 256 →
        R0 (A.flatten ++ c ++ (B.flatten ++ [mds_LPF, n])) r (A ++ c :: B ++ [[mds_LPF, n]]) := by
  have hh := h.holes
  have hbt : (b != 0) = true := by simpa using hb
  simp only [List.filter_cons, hbt, if_true, List.reverse_cons] at hh
  obtain ⟨A, B, hI, hlen, hA, hB⟩ := holePos_split I 0 _ b hh
  have hout : out = A.flatten ++ B.flatten := by rw [← h.flat, hI]; simp
  refine ⟨A, B, hI, hout, by simpa using hlen, ?_⟩
  intro c cb cr hc hge hcok hcb n hn
  have hlpf : InsOk [mds_LPF, n] := .cmd mds_LPF [n] (by decide) (by simp [cmdLen, mds_LPF, mds_SLR, mds_FINISH, mds_LP, mds_JUMP, mds_LPBL, twoArgOps, mds_FMCREG, mds_FMTL, mds_FMTLM, mds_FMREG])
  have hch := h.chain
  rw [hI] at hch
  obtain ⟨c1, c2, _⟩ := (chain_append A ([] :: B)).mp hch
  have c2' : Chain B := c2.2
  refine ⟨by simp [List.append_assoc], ?_, ?_, ?_, fun _ hc' => ?_, ?_⟩
  rotate_right
  · intro x hx
    have hb' := h.bytes
    rw [hout] at hb'
    simp only [List.mem_append, List.mem_cons, List.mem_nil_iff, or_false] at hx
    rcases hx with (hx | hx) | hx | rfl | rfl
    · exact hb' x (by simp [hx])
    · exact hcb x hx
    · exact hb' x (by simp [hx])
    · decide
    · exact hn
  · intro i hi
    have hok := h.ok
    rw [hI] at hok
    simp only [List.mem_append, List.mem_cons, List.mem_singleton, List.mem_nil_iff, or_false] at hi
    rcases hi with (hi | rfl | hi) | rfl
    · exact hok i (by simp [hi])
    · exact hcok
    · exact hok i (by simp [hi])
    · exact hlpf
  · have e1 : A ++ c :: B ++ [[mds_LPF, n]] = A ++ (c :: (B ++ [[mds_LPF, n]])) := by simp
    rw [e1]
    refine (chain_append A _).mpr ⟨c1, ?_, fun _ => ?_⟩
    · rw [chain_cons_cmd hc hge]
      exact (chain_append B _).mpr ⟨c2', ⟨fun _ => trivial, trivial⟩, fun _ => by simp [HeadOk, mds_LPF]⟩
    · subst hc; simp only [HeadOk]; omega
  · have e1 : A ++ c :: B ++ [[mds_LPF, n]] = A ++ ((c :: B) ++ [[mds_LPF, n]]) := by simp
    have hcne : c ≠ [] := by rw [hc]; simp
    rw [e1, holePos_append, hA, holePos_nohole _ _ (by
      intro j hj
      simp only [List.mem_append, List.mem_cons, List.mem_singleton, List.mem_nil_iff, or_false] at hj
      rcases hj with (rfl | hj) | rfl
      · exact hcne
      · exact hB j hj
      · simp)]
    simp
  · subst hc; simp at hc'

/-! ### neutral instructions -/

/-- opcodes the decoder steps over without recording anything -/
def neutralOp (b : Nat) : Prop :=
  b ≤ 0x81 ∨ b = mds_SLR ∨ b = mds_LP ∨ b = mds_LPF ∨ b = mds_LPB ∨ b = mds_LPBL ∨ wordArgOps.contains b = true

theorem act_neutral {b : Nat} (h : neutralOp b) (a : Nat) (d : Bool) : act b a d = .go d none := by
  have key : b ≠ mds_FINISH ∧ b ≠ mds_JUMP ∧ b ≠ mds_DMFINISH ∧ ¬ (mds_NOTE ≤ b ∧ b < mds_SLR) ∧ b ≠ mds_INS ∧ b ≠ mds_PCM ∧
      b ≠ mds_PEG ∧ b ≠ mds_MTAB ∧ b ≠ mds_PAT ∧ b ≠ mds_FLG := by
    rcases h with h | rfl | rfl | rfl | rfl | rfl | h
    · simp only [mds_FINISH, mds_JUMP, mds_DMFINISH, mds_NOTE, mds_SLR, mds_INS, mds_PCM, mds_PEG, mds_MTAB, mds_PAT, mds_FLG]
      omega
    · decide
    · decide
    · decide
    · decide
    · decide
    · have all : ∀ x ∈ wordArgOps, x ≠ mds_FINISH ∧ x ≠ mds_JUMP ∧ x ≠ mds_DMFINISH ∧ ¬ (mds_NOTE ≤ x ∧ x < mds_SLR) ∧
          x ≠ mds_INS ∧ x ≠ mds_PCM ∧ x ≠ mds_PEG ∧ x ≠ mds_MTAB ∧ x ≠ mds_PAT ∧ x ≠ mds_FLG := by decide
      exact all b (by simpa using h)
  obtain ⟨k1, k2, k3, k4, k5, k6, k7, k8, k9, k10⟩ := key
  unfold act
  simp only [k1, k2, k3, k4, k5, k6, k7, k8, k9, k10, if_false, false_and]

theorem stepI_neutral {b : Nat} (h : neutralOp b) (r : List Nat) (s : Bool × List Op) : stepI (b :: r) s = s := by
  simp only [stepI, act_neutral h]; rfl

/-- the opcodes whose operand byte the decoder reads -/
def readsArg (b : Nat) : Prop :=
  b = mds_DMFINISH ∨ b = mds_INS ∨ b = mds_PCM ∨ b = mds_PEG ∨ b = mds_MTAB ∨ b = mds_PAT ∨ b = mds_FLG

instance (b : Nat) : Decidable (readsArg b) := by unfold readsArg; infer_instance

theorem stepI_head_only {b : Nat} (h : ¬ readsArg b) (r : List Nat) (s : Bool × List Op) : stepI (b :: r) s = stepI [b] s := by
  simp only [readsArg, not_or] at h
  obtain ⟨k1, k2, k3, k4, k5, k6, k7⟩ := h
  have : ∀ a, act b a s.1 = act b 0 s.1 := by
    intro a; unfold act
    simp only [k1, k2, k3, k4, k5, k6, k7, if_false, false_and]
  simp only [stepI, this (r.headD 0), List.headD_nil]

theorem runI_snoc (I : List Ins) (j : Ins) (s : Bool × List Op) : runI (I ++ [j]) s = stepI j (runI I s) := by
  rw [runI_append]; rfl

end Ctrmml.MdsRead
