/-
  Helper lemmas for C06, round 3 (no property statements here): Proofs/LayoutLine replayed for the
  widened command set `L2.LCovered` (Proofs/LayoutCmd2).  Tokens, `Moved`, the one-byte steps are
  those of Proofs/LayoutLine; what depends on the command set is restated inside `Ctrmml.Mml.L2`.
  The only new hypothesis is `s.conditionalBlock = false` (the loop break `/` is a command only
  outside conditional blocks).
-/
import Ctrmml.Proofs.LayoutCmd2
import Ctrmml.Proofs.LayoutLine
namespace Ctrmml.Mml.L2
open Ctrmml.Tables Ctrmml.Lexer Ctrmml.TrackBuilder
open Ctrmml.MmlMeaning (Num Dur Acc Cmd)

/-! ### the builder calls of a command list, references left out -/

/-- the track after the builder calls of a command list -/
def runCmds (t : Track) : List Cmd → Track
  | [] => t
  | c :: cs => runCmds (lcmdTrack t c) cs

/-- every command is in the covered subset and its numbers are in range on the track it meets -/
def CmdsOk (t : Track) : List Cmd → Prop
  | [] => True
  | c :: cs => LCovered c ∧ LCmdNums t c ∧ CmdsOk (lcmdTrack t c) cs

theorem runCmds_append (t : Track) (a b : List Cmd) : runCmds t (a ++ b) = runCmds (runCmds t a) b := by
  induction a generalizing t with
  | nil => rfl
  | cons c cs ih => exact ih _

theorem cmdsOk_append (t : Track) (a b : List Cmd) : CmdsOk t (a ++ b) ↔ CmdsOk t a ∧ CmdsOk (runCmds t a) b := by
  induction a generalizing t with
  | nil => simp [CmdsOk, runCmds]
  | cons c cs ih => simp only [List.cons_append, CmdsOk, runCmds, ih, and_assoc]

theorem cmdsOk_covered (t : Track) (cs : List Cmd) (h : CmdsOk t cs) : ∀ c ∈ cs, LCovered c := by
  induction cs generalizing t with
  | nil => intro c hc; simp at hc
  | cons c cs ih =>
    intro x hx
    simp at hx
    rcases hx with rfl | hx
    · exact h.1
    · exact ih _ h.2.2 x hx

/-- blank tokens are a space or a tab; each command's look-ahead condition (`LCmdTail`, C05) holds
on the actual rest of the line -/
def ToksOk : List Tok → List Nat → Prop
  | [], _ => True
  | .blank b :: ts, e => (b = 32 ∨ b = 9) ∧ ToksOk ts e
  | .bar :: ts, e => ToksOk ts e
  | .cmd c :: ts, e => LCmdTail c (toksText ts e) ∧ ToksOk ts e

theorem toksOk_drop (ts : List Tok) (e : List Nat) (h : ToksOk ts e) : ∀ j, ToksOk (ts.drop j) e := by
  induction ts with
  | nil => intro j; simpa using h
  | cons t ts ih =>
    intro j
    cases j with
    | zero => exact h
    | succ j =>
      simp only [List.drop_succ_cons]
      cases t with
      | blank b => exact ih h.2 j
      | bar => exact ih h j
      | cmd c => exact ih h.2 j

/-- a byte at which `get_num` finds no number (after the blanks it skips) -/
def Stop (c : Nat) : Prop := c = 124 ∨ c = 59 ∨ c = 47 ∨ c = 125 ∨ c = 123 ∨ LCmdStart c

theorem stop_props (c : Nat) (h : Stop c) : (33 ≤ c ∧ c < 128) ∧ digitVal 10 c = none ∧ c ≠ 36 ∧ c ≠ 120 ∧ c ≠ 45 ∧ c ≠ 43 ∧ c ≠ 46 ∧ c ≠ 58 := by
  have hr : (33 ≤ c ∧ c < 128) ∧ ¬ (48 ≤ c ∧ c ≤ 57) ∧ c ≠ 36 ∧ c ≠ 120 ∧ c ≠ 45 ∧ c ≠ 43 ∧ c ≠ 46 ∧ c ≠ 58 := by
    unfold Stop LCmdStart Mml.LCmdStart CmdStart at h; omega
  refine ⟨hr.1, ?_, hr.2.2⟩
  unfold digitVal
  simp only [hr.2.1, if_false]
  split
  · have : ¬ c - 87 < 10 := by omega
    simp [this]
  · split
    · have : ¬ c - 55 < 10 := by omega
      simp [this]
    · simp

theorem numSpan_stop (bl : List Nat) (hbl : ∀ b ∈ bl, b = 32 ∨ b = 9) (rest : List Nat)
    (hr : rest = [] ∨ ∃ c r, rest = c :: r ∧ Stop c) : numSpan (bl ++ rest) = (none, bl.length) := by
  have hcb0 : LineBuffer.countBlanks rest = 0 := by
    rcases hr with rfl | ⟨c, r, rfl, hc⟩
    · rfl
    · simp [LineBuffer.countBlanks, not_blank_of_range c (stop_props c hc).1]
  have hcb : LineBuffer.countBlanks (bl ++ rest) = bl.length := by
    rw [countBlanks_append bl rest (fun b hb => blank_isBlank b (hbl b hb)), hcb0]; rfl
  unfold numSpan
  simp only [hcb, List.drop_left]
  rcases hr with rfl | ⟨c, r, rfl, hc⟩
  · rfl
  · obtain ⟨hrg, hdv, h36, h120, h45, h43, _, _⟩ := stop_props c hc
    have hnd : ¬ (c = 36 ∨ c = 120) := by omega
    simp only [hnd, if_false]
    rw [strtol_pos 10 c r (not_space_of_range c hrg) h45 h43 (by omega)]
    have : takeDigits 10 (c :: r) = [] := by simp [takeDigits, hdv]
    simp [this, numOut]

/-- what a token list may be followed by: the end of the text, or a byte that starts no number
(`;`, `/`, `}`, `{`, `|`, the first byte of a covered command) -/
def StopEnd (e : List Nat) : Prop := e = [] ∨ ∃ c r, e = c :: r ∧ Stop c

theorem stopEnd_of_endOk {e : List Nat} (h : EndOk e) : StopEnd e := by
  rcases h with rfl | ⟨r, rfl⟩
  · exact Or.inl rfl
  · exact Or.inr ⟨59, r, rfl, by simp [Stop]⟩

/-- the shape of a line tail: its leading blanks, then nothing or a byte that starts no number -/
theorem toks_shape (ts : List Tok) (e : List Nat) (hok : ToksOk ts e) (hcov : ∀ c ∈ cmdsOf ts, LCovered c) (he : StopEnd e) :
    ∃ bl rest, toksText ts e = bl ++ rest ∧ bl.length = leadBlanks ts ∧ (∀ b ∈ bl, b = 32 ∨ b = 9) ∧
      (rest = [] ∨ ∃ c r, rest = c :: r ∧ Stop c) := by
  induction ts with
  | nil => exact ⟨[], e, rfl, rfl, fun b hb => by simp at hb, he⟩
  | cons t ts ih =>
    cases t with
    | blank b =>
      obtain ⟨bl, rest, h1, h2, h3, h4⟩ := ih hok.2 hcov
      refine ⟨b :: bl, rest, by simp [toksText, Tok.bytes, h1], by simp [leadBlanks, h2], ?_, h4⟩
      intro x hx
      simp at hx
      rcases hx with rfl | hx
      · exact hok.1
      · exact h3 x hx
    | bar =>
      exact ⟨[], 124 :: toksText ts e, rfl, rfl, fun b hb => by simp at hb, Or.inr ⟨124, _, rfl, by simp [Stop]⟩⟩
    | cmd c =>
      obtain ⟨ch, r, hcr, hch⟩ := lcovered_head c (hcov c (by simp [cmdsOf]))
      refine ⟨[], c.bytes ++ toksText ts e, rfl, rfl, fun b hb => by simp at hb, Or.inr ⟨ch, r ++ toksText ts e, by rw [hcr]; rfl, ?_⟩⟩
      exact Or.inr (Or.inr (Or.inr (Or.inr (Or.inr hch))))

theorem toks_numSpan (ts : List Tok) (e : List Nat) (hok : ToksOk ts e) (hcov : ∀ c ∈ cmdsOf ts, LCovered c) (he : StopEnd e) :
    numSpan (toksText ts e) = (none, leadBlanks ts) := by
  obtain ⟨bl, rest, h1, h2, h3, h4⟩ := toks_shape ts e hok hcov he
  rw [h1, numSpan_stop bl h3 rest h4, h2]

/-- `parse_mml_track` over a segment: any layout of a covered command list, up to a continuation
`e` that starts with a byte at which no number can begin.  The run equals the run from the state
behind the segment (with enough fuel left), where the track is, up to source references, as after
the builder calls of the commands in order; nothing but the cursor and the current track changed. -/
theorem parse_seg : ∀ (n : Nat) (ts : List Tok), ts.length ≤ n → ∀ (e : List Nat) (f : Nat) (s : MmlState), Sane s → StopEnd e → s.conditionalBlock = false →
    suffix s = toksText ts e → ToksOk ts e → CmdsOk (getTrack s).strip (cmdsOf ts) → (toksText ts e).length + 1 ≤ f →
    ∃ s' f', parseMmlTrackF f s = parseMmlTrackF f' s' ∧ e.length + 1 ≤ f' ∧ suffix s' = e ∧ Sane s' ∧ Moved s s' ∧
      (getTrack s').strip = runCmds (getTrack s).strip (cmdsOf ts) := by
  intro n
  induction n with
  | zero =>
    intro ts hlen e f s hs _ _ hsuf _ _ hf
    have : ts = [] := by cases ts <;> simp_all
    subst this
    exact ⟨s, f, rfl, hf, hsuf, hs, Moved.refl s, rfl⟩
  | succ n ih =>
    intro ts hlen e f s hs he hcb hsuf hok hcmds hf
    cases ts with
    | nil => exact ⟨s, f, rfl, hf, hsuf, hs, Moved.refl s, rfl⟩
    | cons t ts =>
      have hlen' : ts.length ≤ n := by simp at hlen; omega
      obtain ⟨f', rfl⟩ : ∃ f', f = f' + 1 := ⟨f - 1, by omega⟩
      cases t with
      | blank b =>
        have hsuf' : suffix s = b :: toksText ts e := hsuf
        have hs1 : Sane (adv s 1) := sane_adv s hs 1 (by rw [hsuf']; simp)
        obtain ⟨s', f2, h1, hf2, hsf, hsn, h2, h3⟩ := ih ts hlen' e (f' + 1) (adv s 1) hs1 he hcb (by rw [suffix_adv, hsuf']; rfl) hok.2 hcmds
          (by simp [toksText, Tok.bytes] at hf; omega)
        refine ⟨s', f2, ?_, hf2, hsf, hsn, Moved.trans ⟨1, Or.inl rfl⟩ h2, h3⟩
        rw [parseF_blank_step f' s b _ hsuf' (blank_isBlank b hok.1)]; exact h1
      | bar =>
        have hsuf' : suffix s = 124 :: toksText ts e := hsuf
        have hs1 : Sane (adv s 1) := sane_adv s hs 1 (by rw [hsuf']; simp)
        obtain ⟨s', f2, h1, hf2, hsf, hsn, h2, h3⟩ := ih ts hlen' e f' (adv s 1) hs1 he hcb (by rw [suffix_adv, hsuf']; rfl) hok hcmds
          (by simp [toksText, Tok.bytes] at hf; omega)
        refine ⟨s', f2, ?_, hf2, hsf, hsn, Moved.trans ⟨1, Or.inl rfl⟩ h2, h3⟩
        rw [parseF_bar_step f' s _ hsuf']; exact h1
      | cmd c =>
        obtain ⟨hcov, hnum, hrest⟩ : LCovered c ∧ LCmdNums (getTrack s).strip c ∧ CmdsOk (lcmdTrack (getTrack s).strip c) (cmdsOf ts) := hcmds
        obtain ⟨T, hT⟩ : ∃ T, T = toksText ts e := ⟨_, rfl⟩
        have hsuf' : suffix s = c.bytes ++ T := by rw [hT]; exact hsuf
        have htail : LCmdTail c T := by rw [hT]; exact hok.1
        have hstep := lcmd_step f' s hs c T hcov hcb hsuf' hnum htail
        obtain ⟨t2, ht2⟩ : ∃ t2, t2 = lcmdTrack ((getTrack s).setReference (some { line := s.inp.line, column := s.inp.lb.column })) c := ⟨_, rfl⟩
        rw [← ht2] at hstep
        have hst2 : t2.strip = lcmdTrack (getTrack s).strip c := by rw [ht2, strip_lcmdTrack _ _ hcov, Track.strip_setReference]
        have hcovs : ∀ x ∈ cmdsOf ts, LCovered x := cmdsOk_covered _ _ hrest
        have hns : numSpan T = (none, leadBlanks ts) := by rw [hT]; exact toks_numSpan ts e hok.2 hcovs he
        have hskip : lcmdSkip c T ≤ leadBlanks ts := by
          rcases lcmdSkip_cases c T hcov with h | h
          · omega
          · rw [h, hns]; exact Nat.le_refl _
        obtain ⟨hdrop, hcmdsdrop⟩ := toks_drop_lead ts e (lcmdSkip c T) hskip
        have hle : leadBlanks ts ≤ T.length := by rw [hT]; exact leadBlanks_le ts e
        obtain ⟨ch, r, hcr, _⟩ := lcovered_head c hcov
        have hcl : 1 ≤ c.bytes.length := by rw [hcr]; simp
        obtain ⟨s2, hs2⟩ : ∃ s2, s2 = adv (setTrack s t2) (c.bytes.length + lcmdSkip c T) := ⟨_, rfl⟩
        rw [← hs2] at hstep
        have hsane2 : Sane s2 := by
          rw [hs2]; exact sane_adv _ (sane_setTrack _ _ hs) _ (by rw [suffix_setTrack, hsuf']; simp; omega)
        have hsuf2 : suffix s2 = toksText (ts.drop (lcmdSkip c T)) e := by
          rw [hs2, suffix_adv, suffix_setTrack, hsuf', ← List.drop_drop, ← hdrop, hT]; simp
        have hgt2 : getTrack s2 = t2 := by rw [hs2, getTrack_adv]; exact getTrack_setTrack _ _
        obtain ⟨s', f2, h1, hf2, hsf, hsn, h2, h3⟩ := ih (ts.drop (lcmdSkip c T)) (by simp; omega) e f' s2 hsane2 he (by rw [hs2]; exact hcb) hsuf2
          (toksOk_drop ts e hok.2 _) (by rw [hgt2, hst2, hcmdsdrop]; exact hrest)
          (by
            rw [← hdrop, ← hT]
            have : (toksText (Tok.cmd c :: ts) e).length = c.bytes.length + T.length := by simp [toksText, Tok.bytes, hT]
            rw [this] at hf
            simp only [List.length_drop]; omega)
        refine ⟨s', f2, by rw [hstep]; exact h1, hf2, hsf, hsn, Moved.trans ⟨c.bytes.length + lcmdSkip c T, Or.inr ⟨t2, hs2⟩⟩ h2, ?_⟩
        rw [h3, hgt2, hst2, hcmdsdrop]; rfl

/-- `parse_mml_track` on any layout of a covered command list up to the end of the line: the track
ends, up to source references, as after the builder calls of the commands in order; nothing but
the cursor and the current track changes -/
theorem parse_toks (n : Nat) (ts : List Tok) (_hn : ts.length ≤ n) (e : List Nat) (f : Nat) (s : MmlState) (hs : Sane s) (he : EndOk e) (hcb : s.conditionalBlock = false)
    (hsuf : suffix s = toksText ts e) (hok : ToksOk ts e) (hcmds : CmdsOk (getTrack s).strip (cmdsOf ts))
    (hf : (toksText ts e).length + 1 ≤ f) :
    ∃ s', parseMmlTrackF f s = .ok () s' ∧ Moved s s' ∧ (getTrack s').strip = runCmds (getTrack s).strip (cmdsOf ts) := by
  obtain ⟨s1, f1, h1, hf1, hsf, _, hm1, ht1⟩ := parse_seg ts.length ts (Nat.le_refl _) e f s hs (stopEnd_of_endOk he) hcb hsuf hok hcmds hf
  obtain ⟨s', h2, hm2, ht2⟩ := parse_toks_nil e f1 s1 he hsf (by omega)
  exact ⟨s', by rw [h1]; exact h2, hm1.trans hm2, by rw [ht2]; exact ht1⟩

end Ctrmml.Mml.L2
