/-
  Helper lemmas for C10: the bank-level checks of the spec resolver `LinkSpec.resolveBank` beyond the
  per-song loop — header fields, song spans in increasing order inside the sequence area, data
  entries inside the data area in front of the first song, the list-level stored-once test, and the
  wave-table offset.  No property statements here.
-/
import Ctrmml.Proofs.LinkOrder
namespace Ctrmml.Linker
open Ctrmml Ctrmml.LinkSpec

/-- where everything is in a successfully laid-out bank -/
structure Geo (l : Linker) (bank : Bytes) (dend top : Nat) (soffs : List Nat) (ds : List Bytes) : Prop where
  hdr : rd bank 0 4 = be32 Tables.link_magic ∧
        rd bank 4 2 = be16 (Tables.MDSDRV_SEQ_VERSION_MAJOR * 256 ||| Tables.MDSDRV_SEQ_VERSION_MINOR) ∧
        rd bank 6 2 = be16 l.songs.length ∧ rd bank 8 4 = be32 top
  lens : soffs.length = l.songs.length ∧ ds.length = l.songs.length
  table : ∀ (i o : Nat), soffs[i]? = some o → rd bank (12 + 4 * i) 4 = be32 o
  patched : ∀ (i : Nat) (s : SeqData), l.songs[i]? = some s → ∃ d, ds[i]? = some d ∧
              patchSong (layGen l.dataBank (4 + 4 * l.songs.length)).2.1 s.patch s.data = some d
  span : ∀ (i o : Nat) (d : Bytes), soffs[i]? = some o → ds[i]? = some d → dend ≤ o ∧ o + d.length ≤ top
  mono : ∀ (i j oi oj : Nat) (d : Bytes), i < j → soffs[i]? = some oi → soffs[j]? = some oj → ds[i]? = some d → oi + d.length ≤ oj
  first : soffs.head?.getD top = dend
  entry : ∀ (idx t : Nat) (e : Bytes), entryOffset l idx = some t → l.dataBank[idx]? = some e → 4 + 4 * l.songs.length ≤ t ∧ t + e.length ≤ dend
  total : 8 + top ≤ bank.length
  dstart : 4 + 4 * l.songs.length ≤ dend

theorem layGen_head (es : List Bytes) (off : Nat) : (layGen es off).2.1.head?.getD (layGen es off).2.2 = off := by
  cases es with
  | nil => simp [layGen]
  | cons e es => simp [layGen]

theorem laid_geo {l : Linker} {bank : Bytes} (L : Laid l bank) :
    ∃ dend top soffs ds, Geo l bank dend top soffs ds := by
  obtain ⟨offs, soffs, ds, off2, wt, h1, h2, h3, h4, h5, h6⟩ := L.ex
  generalize hD : layGen l.dataBank (4 + 4 * l.songs.length) = D at *
  have hDl := layGen_len l.dataBank (4 + 4 * l.songs.length)
  rw [hD] at hDl
  have hSl := layGen_len ds D.2.2
  have hdsl : ds.length = l.songs.length := patchAll_length _ _ _ h4
  have hT : (soffs.flatMap be32).length = 4 * l.songs.length := by
    rw [flatMap_be32_length, h2, hSl.2, hdsl]
  have hA : (be32 Tables.link_magic ++ be16 (Tables.MDSDRV_SEQ_VERSION_MAJOR * 256 ||| Tables.MDSDRV_SEQ_VERSION_MINOR) ++
          be16 l.songs.length ++ be32 off2).length = 12 := by simp [be16]
  refine ⟨D.2.2, off2, soffs, ds, ?_, ⟨by rw [h2, hSl.2, hdsl], hdsl⟩, ?_, ?_, ?_, ?_, ?_, ?_, ?_, by omega⟩
  · rw [h6]; simp [rd, be32, be16]
  · intro i o ho
    rw [h6]
    unfold rd
    rw [List.append_assoc, List.append_assoc, List.append_assoc, ← hA, drop_len_add]
    exact flatMap_be32_read _ i o ho _
  · intro i s hs
    obtain ⟨d, hd, hp⟩ := patchAll_get offs l.songs ds h4 i s hs
    exact ⟨d, hd, by rw [hD, ← h1]; exact hp⟩
  · intro i o d ho hd
    obtain ⟨o', g1, g2, g3, _, _⟩ := layGen_spec ds D.2.2 i d hd
    rw [h2] at ho
    rw [g1] at ho
    cases ho
    rw [h3]
    exact ⟨g2, g3⟩
  · intro i j oi oj d hij hi hj hd
    rw [h2] at hi hj
    exact layGen_mono ds D.2.2 i j d oi oj hij hd hi hj
  · rw [h2, h3]; exact layGen_head ds D.2.2
  · intro idx t e ht he
    obtain ⟨t', g1, g2, g3, _, _⟩ := layGen_spec l.dataBank (4 + 4 * l.songs.length) idx e he
    unfold entryOffset at ht
    rw [g1] at ht
    cases ht
    rw [hD] at g3
    exact ⟨g2, g3⟩
  · rw [h6]
    simp only [List.length_append, hA, hT]
    have := hSl.1
    rw [← h3] at this
    omega

/-! ### list helpers -/

theorem All2.length_eq {α β : Type} {R : α → β → Prop} {as : List α} {bs : List β} (h : All2 R as bs) : as.length = bs.length := by
  induction h with
  | nil => rfl
  | cons _ _ ih => simp [ih]

theorem mapM'_enumQ {α β γ : Type} (P : α → β → Prop) (Q : Nat → α → γ → Prop) (f : Nat × α → Except String γ) (all : List β)
    (xs : List α) (ys : List β) (n : Nat) (h : All2 P xs ys) (hy : ∀ i, ys[i]? = all[n + i]?)
    (g : ∀ i a b, all[i]? = some b → P a b → ∃ r, f (i, a) = .ok r ∧ Q i a r) :
    ∃ rs, mapM' f (enumFrom n xs) = .ok rs ∧ rs.length = xs.length ∧
      ∀ i r, rs[i]? = some r → ∃ a b, xs[i]? = some a ∧ all[n + i]? = some b ∧ P a b ∧ Q (n + i) a r := by
  induction h generalizing n with
  | nil => exact ⟨[], rfl, rfl, by simp⟩
  | @cons a b as bs hr _ ih =>
    have h0 : all[n]? = some b := by have := hy 0; simpa using this.symm
    obtain ⟨r, hr', hq⟩ := g n a b h0 hr
    obtain ⟨rs, hrs, hl, hall⟩ := ih (n + 1) (fun i => by
      have := hy (i + 1)
      simp only [List.getElem?_cons_succ] at this
      rw [this]; congr 1; omega)
    refine ⟨r :: rs, by simp only [enumFrom, mapM', hr', hrs], by simp [hl], ?_⟩
    intro i r' hi
    cases i with
    | zero =>
      simp only [List.getElem?_cons_zero, Option.some.injEq] at hi
      subst hi
      exact ⟨a, b, rfl, by simpa using h0, hr, hq⟩
    | succ i =>
      simp only [List.getElem?_cons_succ] at hi
      obtain ⟨a', b', h1, h2, h3, h4⟩ := hall i r' hi
      refine ⟨a', b', by simpa using h1, ?_, h3, ?_⟩
      · rw [← h2]; congr 1; omega
      · have e : n + 1 + i = n + (i + 1) := by omega
        rw [← e]; exact h4

theorem increasing_of (sp : List (Nat × Nat)) (h : ∀ i a b, sp[i]? = some a → sp[i + 1]? = some b → a.2 ≤ b.1) :
    increasing sp = true := by
  induction sp with
  | nil => rfl
  | cons a sp ih =>
    cases sp with
    | nil => rfl
    | cons b sp =>
      obtain ⟨a1, a2⟩ := a
      obtain ⟨b1, b2⟩ := b
      simp only [increasing, Bool.and_eq_true, decide_eq_true_eq]
      refine ⟨h 0 (a1, a2) (b1, b2) rfl rfl, ih ?_⟩
      intro i x y hx hy
      exact h (i + 1) x y (by simpa using hx) (by simpa using hy)

theorem storedOnce_of (es : List (Nat × Bytes))
    (h : ∀ x ∈ es, ∀ y ∈ es, x.2 ≠ [] → y.2 ≠ [] → ((x.1 = y.1) ↔ (x.2 = y.2))) : storedOnce es = true := by
  induction es with
  | nil => rfl
  | cons e es ih =>
    obtain ⟨t, b⟩ := e
    simp only [storedOnce, Bool.and_eq_true, List.all_eq_true, Bool.or_eq_true]
    refine ⟨?_, ih (fun x hx y hy => h x (List.mem_cons_of_mem _ hx) y (List.mem_cons_of_mem _ hy))⟩
    intro x hx
    by_cases hxe : x.2 = []
    · left; left; simp [hxe]
    · by_cases hbe : b = []
      · left; right; simp [hbe]
      · right
        have := h x (List.mem_cons_of_mem _ hx) (t, b) (List.mem_cons_self ..) hxe hbe
        simp only at this
        by_cases h1 : x.1 = t
        · have h2 := this.mp h1
          simp [h1, h2]
        · have h2 : ¬ x.2 = b := fun e => h1 (this.mpr e)
          have e1 : (x.1 == t) = false := by simpa using h1
          have e2 : (x.2 == b) = false := by simpa using h2
          rw [e1, e2]; rfl

theorem nat16_of_rd (bank : Bytes) (pos v : Nat) (hv : v < 65536) (h : rd bank pos 2 = be16 v) : nat16 bank pos = some v := by
  have h' : readAt bank pos 2 = be16 v := h
  unfold nat16
  rw [h']
  simp only [be16, byteOf_toNat]
  congr 1; omega

/-! ### the resolver accepts the linked bank -/

theorem adds_src_length (files : List (Bytes × Bytes)) : ((files.map fun f => Op.add f.1 f.2).flatMap Op.src).length = files.length := by
  induction files with
  | nil => rfl
  | cons f fs ih => simp [Op.src, ih]

theorem resolveBank_ok (m bk : Nat) (hm : 0 < m) (hm24 : m < 16777216) (hb : bk < 1073741824)
    (files : List (Bytes × Bytes)) (songs : List SongIn) (l : Linker) (bank : Bytes)
    (hparse : files.map (fun f => parseMds f.2) = songs.map some)
    (hrun : runOps (files.map fun f => Op.add f.1 f.2) (Linker.fresh m bk) = .ok l)
    (hseq : getSeqData l = .ok bank) (hbl : bank.length < 4294967296) (hcnt : songs.length < 65536) :
    resolveBank songs bank (getPcmData l) = .ok () := by
  obtain ⟨hall, hnd⟩ := songs_in_order m bk hm hm24 hb files songs l bank hparse hrun hseq
  have L := getSeqData_laid l bank hseq
  obtain ⟨dend, top, soffs, ds, G⟩ := laid_geo L
  have hn : songs.length = l.songs.length := by
    have h1 := runOps_songs_length _ _ _ hrun
    rw [adds_src_length] at h1
    have h2 : files.length = songs.length := by
      have := congrArg List.length hparse
      simpa using this
    simp only [Linker.fresh, Linker.songs, List.flatMap_nil, List.length_nil, Nat.zero_add] at h1
    simp only [Linker.songs]
    omega
  obtain ⟨rs, hrs, hlen, hq⟩ := mapM'_enumQ (Paired l)
    (fun i s r => r.2.1 = r.1 + s.seq.length ∧ rd bank (12 + 4 * i) 4 = be32 r.1 ∧ r.1 + s.seq.length + 8 ≤ bank.length ∧
      ∀ e ∈ r.2.2, ∃ idx, entryOffset l idx = some e.1 ∧ l.dataBank[idx]? = some e.2)
    (fun p => songOk bank (getPcmData l) p.1 p.2) l.songs (ordered songs) l.songs 0 hall (fun i => by simp)
    (fun i s sd hi ⟨p1, p2, p3, p4, p5⟩ => by
      obtain ⟨o, es, h, h1, h2, h3⟩ := songOk_of l bank hseq hnd hbl i sd hi s p1 p2 p3 p4 p5
      exact ⟨_, h, rfl, h1, h2, h3⟩)
  have htop : top < 4294967296 := by have := G.total; omega
  -- every result: its offset is the table's, its end is the layout's
  have key : ∀ (i : Nat) (r : Nat × Nat × List (Nat × Bytes)), rs[i]? = some r → ∃ d : Bytes, soffs[i]? = some r.1 ∧ ds[i]? = some d ∧ r.2.1 = r.1 + d.length ∧
      ∀ e ∈ r.2.2, ∃ idx : Nat, entryOffset l idx = some e.1 ∧ l.dataBank[idx]? = some e.2 := by
    intro i r hi
    obtain ⟨s, sd, hs, hsd, ⟨p1, p2, p3, p4, p5⟩, q1, q2, q3, q4⟩ := hq i r hi
    simp only [Nat.zero_add] at hsd q2
    have hil : i < l.songs.length := by
      rcases Nat.lt_or_ge i l.songs.length with h | h
      · exact h
      · rw [List.getElem?_eq_none h] at hsd; cases hsd
    obtain ⟨o, ho⟩ : ∃ o, soffs[i]? = some o :=
      ⟨soffs[i]'(by rw [G.lens.1]; exact hil), List.getElem?_eq_getElem (by rw [G.lens.1]; exact hil)⟩
    obtain ⟨d, hd, hp⟩ := G.patched i sd hsd
    have wf : PatchWf sd.data.length sd.patch :=
      patchWf_of_slots _ _ _ (p3.imp (fun _ _ h => h.1)) (fun sl hsl => by rw [p1]; exact (p4 sl hsl).2) p5
    have hdl : d.length = s.seq.length := by rw [(patchSong_spec _ _ _ _ wf hp).1, p1]
    have hsp := G.span i o d ho hd
    have heq : o = r.1 := be32_inj _ _ (by omega) (by omega) (by rw [← G.table i o ho, q2])
    exact ⟨d, by rw [ho, heq], hd, by rw [q1, hdl], q4⟩
  have hinc : increasing (rs.map fun r => (r.1, r.2.1)) = true := by
    apply increasing_of
    intro i a b ha hb'
    simp only [List.getElem?_map, Option.map_eq_some_iff] at ha hb'
    obtain ⟨r, hr, rfl⟩ := ha
    obtain ⟨r', hr', rfl⟩ := hb'
    obtain ⟨d, k1, k2, k3, _⟩ := key i r hr
    obtain ⟨d', k1', _, _, _⟩ := key (i + 1) r' hr'
    simp only
    rw [k3]
    exact G.mono i (i + 1) _ _ d (by omega) k1 k1' k2
  have hspans : ((rs.map fun r => (r.1, r.2.1)).all fun sp => decide (4 + 4 * songs.length ≤ sp.1) && decide (sp.2 ≤ top)) = true := by
    simp only [List.all_eq_true, List.mem_map, Bool.and_eq_true, decide_eq_true_eq]
    rintro sp ⟨r, hr, rfl⟩
    obtain ⟨i, hi⟩ := List.getElem?_of_mem hr
    obtain ⟨d, k1, k2, k3, _⟩ := key i r hi
    have := G.span i _ d k1 k2
    simp only
    have := G.dstart
    omega
  have hfirst0 : rs = [] → top = dend := by
    intro hrs0
    have h0 : soffs = [] := by
      apply List.eq_nil_of_length_eq_zero
      rw [G.lens.1, ← hall.length_eq, ← hlen, hrs0]; rfl
    have := G.first
    rw [h0] at this
    simpa using this
  have hfirst1 : ∀ r0 rest, rs = r0 :: rest → r0.1 = dend := by
    intro r0 rest hrs0
    obtain ⟨d, k1, _⟩ := key 0 r0 (by rw [hrs0]; rfl)
    have := G.first
    cases hs : soffs with
    | nil => rw [hs] at k1; cases k1
    | cons o os =>
      rw [hs] at k1 this
      simp only [List.getElem?_cons_zero, Option.some.injEq] at k1
      simp only [List.head?_cons, Option.getD_some] at this
      rw [← k1]; exact this
  have hent : ∀ e ∈ rs.flatMap (·.2.2), ∃ idx : Nat, entryOffset l idx = some e.1 ∧ l.dataBank[idx]? = some e.2 := by
    intro e he
    obtain ⟨r, hr, her⟩ := List.mem_flatMap.mp he
    obtain ⟨i, hi⟩ := List.getElem?_of_mem hr
    obtain ⟨_, _, _, _, k4⟩ := key i r hi
    exact k4 e her
  have hentries : ((rs.flatMap (·.2.2)).all fun e => decide (4 + 4 * songs.length ≤ e.1) && decide (e.1 + e.2.length ≤ dend)) = true := by
    simp only [List.all_eq_true, Bool.and_eq_true, decide_eq_true_eq]
    intro e he
    obtain ⟨idx, h1, h2⟩ := hent e he
    have := G.entry idx e.1 e.2 h1 h2
    omega
  have hstored : storedOnce (rs.flatMap (·.2.2)) = true := by
    apply storedOnce_of
    intro x hx y hy hxe hye
    obtain ⟨i, h1, h2⟩ := hent x hx
    obtain ⟨j, h3, h4⟩ := hent y hy
    exact (entryOffset_inj l hnd i j x.2 y.2 x.1 y.1 h2 h4 hxe hye h1 h3).1
  have hmagic : nat32be bank 0 = some Tables.link_magic := nat32be_of_rd bank 0 _ (by decide) G.hdr.1
  have hver : nat16 bank 4 = some (Tables.MDSDRV_SEQ_VERSION_MAJOR * 256 + Tables.MDSDRV_SEQ_VERSION_MINOR) := by
    have := nat16_of_rd bank 4 _ (by decide) G.hdr.2.1
    rw [this]; decide
  have hcount : nat16 bank 6 = some songs.length := by
    rw [hn]; exact nat16_of_rd bank 6 _ (by omega) G.hdr.2.2.1
  have htop' : nat32be bank 8 = some top := nat32be_of_rd bank 8 _ htop G.hdr.2.2.2
  unfold resolveBank
  simp only [hmagic, hver, hcount, htop', hrs, ne_eq, not_true_eq_false, if_false, hinc, hspans, Bool.not_true, Bool.false_eq_true]
  have hfin : ¬ (ptrBase + top > bank.length) := by
    have := G.total
    simp only [ptrBase, Tables.link_ptrBase]; omega
  cases hrs0 : rs with
  | nil => simp [storedOnce, hfin]
  | cons r0 rest =>
    rw [hrs0] at hentries hstored
    simp only [List.map_cons, hfirst1 r0 rest hrs0, hentries, hstored, Bool.not_true, Bool.false_eq_true, if_false, hfin]

end Ctrmml.Linker
