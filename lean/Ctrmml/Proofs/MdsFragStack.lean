/-
  C09 helper (round 4): the player's loop discipline as seen by a hook that is silent while
  `is_inside_loop() || is_inside_jump()` — the writer of `MDSDRV_Track_Writer`.

  `depthOf st` is the number of `LP` opcodes such a hook has emitted and not yet closed by an `LPF`,
  as a function of the player's stack alone: the bottom run of loop frames on their first pass
  (count 0), plus the first frame above it when that is a loop frame that has already seen its
  `LOOP_END` (its `LPF` is emitted only when the last pass pops it).  `coreStep_depth` shows, for
  every successful control step of `Basic_Player::step_event`, how the depth moves with the event
  the hook is shown.  The invariant `Wf` (a loop frame with a non-zero count recorded the position
  behind a `LOOP_END` of its track; no drum frames) strengthens C15's `FramesOK`: the final-pass
  `LOOP_BREAK` shows the hook a `LOOP_END`.
-/
import Ctrmml.Model.Player
namespace Ctrmml.MdsFragP
open Ctrmml Ctrmml.Player Tables

/-- a loop frame on its first pass -/
def qF (f : Frame) : Bool := f.type == .loop && f.loopCount == 0
/-- all frames are loop frames on their first pass: the hook is not silenced -/
def allQ (st : List Frame) : Bool := st.all qF

def depthOf : List Frame → Nat
  | [] => 0
  | f :: rest => if allQ rest then (if f.type = .loop then rest.length + 1 else rest.length) else depthOf rest

def Wf (song : Song) (root : List Event) : TRef → List Frame → Prop
  | _, [] => True
  | t, f :: rest =>
    match f.type with
    | .loop => (f.loopCount ≠ 0 → ∃ le, (codeOf song root t)[f.endPosition - 1]? = some le ∧ le.type = ev_LOOP_END) ∧
               Wf song root t rest
    | .jump => Wf song root f.track rest
    | .drum => False

theorem wf_noDrum {song : Song} {root : List Event} : ∀ {t : TRef} {st : List Frame}, Wf song root t st → ∀ f ∈ st, f.type ≠ .drum
  | _, [], _, f, hf => by simp at hf
  | t, g :: rest, h, f, hf => by
    unfold Wf at h
    rcases List.mem_cons.mp hf with rfl | hf
    · intro hd; rw [hd] at h; exact h
    · cases hg : g.type with
      | loop => rw [hg] at h; exact wf_noDrum h.2 f hf
      | jump => rw [hg] at h; exact wf_noDrum h f hf
      | drum => rw [hg] at h; exact h.elim

theorem allQ_iff (st : List Frame) : allQ st = true ↔ ∀ f ∈ st, f.type = .loop ∧ f.loopCount = 0 := by
  unfold allQ qF
  simp [List.all_eq_true]

theorem insideJump_false (st : List Frame) : insideJump st = false ↔ ∀ f ∈ st, f.type ≠ .jump := by
  unfold insideJump
  simp only [ne_eq, decide_not, Bool.not_eq_eq_eq_not, Bool.not_false, decide_eq_true_eq, List.length_eq_zero_iff,
    List.filter_eq_nil_iff, decide_eq_true_eq]

theorem insideLoop_false (st : List Frame) : insideLoop st = false ↔ ∀ f ∈ st, f.type = .loop → f.loopCount = 0 := by
  unfold insideLoop
  simp only []
  constructor
  · intro h f hf hl
    have hm : f ∈ st.filter (fun x => decide (x.type = .loop)) := List.mem_filter.mpr ⟨hf, by simp [hl]⟩
    rcases Bool.and_eq_false_iff.mp h with h1 | h1
    · simp only [ne_eq, decide_not, Bool.not_eq_eq_eq_not, Bool.not_false, decide_eq_true_eq, List.length_eq_zero_iff] at h1
      rw [h1] at hm; simp at hm
    · simp only [ne_eq, decide_not, Bool.not_eq_eq_eq_not, Bool.not_false, decide_eq_true_eq] at h1
      have := (List.length_filter_eq_length_iff.mp h1.symm) f hm
      simpa using this
  · intro h
    apply Bool.and_eq_false_iff.mpr
    right
    simp only [ne_eq, decide_not, Bool.not_eq_eq_eq_not, Bool.not_false, decide_eq_true_eq]
    symm
    apply List.length_filter_eq_length_iff.mpr
    intro f hf
    obtain ⟨h1, h2⟩ := List.mem_filter.mp hf
    simp only [decide_eq_true_eq] at h2 ⊢
    exact h f h1 h2

/-- the writer's test `is_inside_loop() || is_inside_jump()` on a reachable stack -/
theorem quiet_iff {st : List Frame} (hnd : ∀ f ∈ st, f.type ≠ .drum) :
    (insideLoop st = false ∧ insideJump st = false) ↔ allQ st = true := by
  rw [insideLoop_false, insideJump_false, allQ_iff]
  constructor
  · rintro ⟨h1, h2⟩ f hf
    have h3 := hnd f hf
    have h4 := h2 f hf
    have : f.type = .loop := by cases hft : f.type <;> simp_all
    exact ⟨this, h1 f hf this⟩
  · intro h
    exact ⟨fun f hf _ => (h f hf).2, fun f hf => by rw [(h f hf).1]; decide⟩

theorem depthOf_quiet : ∀ {st : List Frame}, allQ st = true → depthOf st = st.length
  | [], _ => rfl
  | f :: rest, h => by
    have h' := (allQ_iff _).mp h
    have hr : allQ rest = true := (allQ_iff _).mpr (fun g hg => h' g (List.mem_cons_of_mem _ hg))
    have hf := (h' f List.mem_cons_self).1
    simp [depthOf, hr, hf]

theorem allQ_cons (f : Frame) (rest : List Frame) : allQ (f :: rest) = (qF f && allQ rest) := by
  simp [allQ]

theorem quiet_top {st : List Frame} (h : allQ st = true) (ht : topIsLoop st = false) : st = [] := by
  cases st with
  | nil => rfl
  | cons f rest =>
    have := ((allQ_iff _).mp h f List.mem_cons_self).1
    simp [topIsLoop, this] at ht

theorem stackTop_ok {st : List Frame} {ty : FType} {f : Frame} (h : stackTop st ty = .ok f) :
    ∃ rest, st = f :: rest ∧ f.type = ty := by
  cases st with
  | nil => simp [stackTop] at h
  | cons g rest =>
    simp only [stackTop] at h
    split at h
    · rename_i hg
      injection h with h
      subst h
      exact ⟨rest, rfl, hg⟩
    · cases h

theorem push_ok {st st' : List Frame} {f : Frame} (h : push st f = .ok st') : st' = f :: st := by
  unfold push at h
  split at h
  · cases h
  · injection h with h; exact h.symm

theorem kind_loopStart {e : Event} : e.kind = .loopStart ↔ e.type = ev_LOOP_START := by
  unfold Event.kind kindOfType
  constructor
  · intro h; split at h
    · assumption
    all_goals (repeat (split at h <;> try cases h))
  · intro h; simp [h]

theorem kind_loopEnd {e : Event} : e.kind = .loopEnd ↔ e.type = ev_LOOP_END := by
  unfold Event.kind kindOfType
  constructor
  · intro h
    split at h
    · cases h
    split at h
    · cases h
    split at h
    · assumption
    all_goals (repeat (split at h <;> try cases h))
  · intro h
    rw [h]; decide

/-- what the hook's view of one successful control step says about the depth -/
def HookRel (c c' : Core) (v f : Event) : Prop :=
  let st := hookStack c c' (.hook v f)
  (allQ st = false → depthOf c'.stack = depthOf c.stack) ∧
  (allQ st = true →
    (v.type = ev_LOOP_START → depthOf c'.stack = depthOf c.stack + 1) ∧
    (v.type = ev_LOOP_END → depthOf c'.stack + 1 = depthOf c.stack) ∧
    (v.type ≠ ev_LOOP_START → v.type ≠ ev_LOOP_END →
      depthOf c'.stack = depthOf c.stack ∧ (topIsLoop st = false → depthOf c'.stack = 0)))

def StepRel (c c' : Core) : Out → Prop
  | .hook v f => HookRel c c' v f
  | .ret _ => depthOf c'.stack = depthOf c.stack
  | .rootEnd _ => c.stack = [] ∧ c'.stack = []

theorem depth_pop (f0 : Frame) (rest : List Frame) (h0 : f0.type = .loop) :
    (allQ rest = false → depthOf rest = depthOf (f0 :: rest)) ∧ (allQ rest = true → depthOf rest + 1 = depthOf (f0 :: rest)) := by
  constructor
  · intro h; simp [depthOf, h]
  · intro h; simp [depthOf, h, h0, depthOf_quiet h]

/-- same stack before and after, the event is neither `LOOP_START` nor `LOOP_END` -/
theorem hookRel_same {c c' : Core} {e : Event} (hs : c'.stack = c.stack) (hj : e.kind ≠ .jump)
    (h1 : e.type ≠ ev_LOOP_START) (h2 : e.type ≠ ev_LOOP_END) : HookRel c c' e e := by
  unfold HookRel hookStack
  simp only [hj, if_false, hs]
  refine ⟨fun _ => trivial, fun hq => ⟨fun h => absurd h h1, fun h => absurd h h2, fun _ _ => ⟨trivial, fun ht => ?_⟩⟩⟩
  rw [quiet_top hq ht]; rfl

theorem coreStep_depth (song : Song) (root : List Event) (c : Core) (hc : Wf song root c.track c.stack)
    {c' : Core} {o : Out} (h : coreStep song root c = .ok (c', o)) :
    Wf song root c'.track c'.stack ∧ StepRel c c' o := by
  unfold coreStep at h
  simp only [] at h
  generalize he : fetch (codeOf song root c.track) c.position = e at h
  cases hk : e.kind with
  | loopStart =>
    rw [hk] at h
    simp only [] at h
    cases hp : push c.stack { type := .loop, track := c.track, position := c.position + 1, endPosition := 0, loopCount := 0 } with
    | error err => rw [hp] at h; cases h
    | ok st =>
      rw [hp] at h
      have := push_ok hp
      subst this
      simp only [Except.ok.injEq, Prod.mk.injEq] at h
      obtain ⟨rfl, rfl⟩ := h
      refine ⟨?_, ?_⟩
      · simp only [Wf]
        exact ⟨fun h => absurd rfl h, hc⟩
      · have hty := kind_loopStart.mp hk
        show HookRel _ _ _ _
        unfold HookRel hookStack
        have hnj : e.kind ≠ .jump := by rw [hk]; decide
        simp only [hnj, if_false]
        have hq : allQ ({ type := .loop, track := c.track, position := c.position + 1, endPosition := 0, loopCount := 0 } :: c.stack) = allQ c.stack := by
          rw [allQ_cons]; simp [qF]
        rw [hq]
        refine ⟨fun hf => by simp [depthOf, hf], fun ht => ⟨fun _ => ?_, fun h2 => ?_, fun h1 => absurd hty h1⟩⟩
        · simp [depthOf, ht, depthOf_quiet ht]
        · rw [hty] at h2; exact absurd h2 (by decide)
  | loopBreak =>
    rw [hk] at h
    simp only [] at h
    cases ht : stackTop c.stack .loop with
    | error err => rw [ht] at h; cases h
    | ok f0 =>
      rw [ht] at h
      obtain ⟨rest, hst, hty⟩ := stackTop_ok ht
      simp only [] at h
      rw [hst] at hc
      simp only [Wf, hty] at hc
      by_cases h1 : f0.loopCount = 1
      · simp only [h1, if_true] at h
        have hne : f0.loopCount ≠ 0 := by rw [h1]; decide
        obtain ⟨le, hle, hlt⟩ := hc.1 hne
        rw [hle] at h
        simp only [Except.ok.injEq, Prod.mk.injEq] at h
        obtain ⟨rfl, rfl⟩ := h
        refine ⟨by simp only [hst, List.tail_cons]; exact hc.2, ?_⟩
        show HookRel _ _ _ _
        unfold HookRel hookStack
        have hnj : e.kind ≠ .jump := by rw [hk]; decide
        simp only [hnj, if_false, hst, List.tail_cons]
        obtain ⟨d1, d2⟩ := depth_pop f0 rest hty
        refine ⟨d1, fun hq => ⟨fun h2 => ?_, fun _ => d2 hq, fun _ h3 => absurd hlt h3⟩⟩
        rw [hlt] at h2; exact absurd h2 (by decide)
      · simp only [h1, if_false, Except.ok.injEq, Prod.mk.injEq] at h
        obtain ⟨rfl, rfl⟩ := h
        refine ⟨by simp only [hst, Wf, hty]; exact hc, ?_⟩
        show HookRel _ _ _ _
        have hty2 : e.type = ev_LOOP_BREAK := by
          unfold Event.kind kindOfType at hk
          split at hk
          · cases hk
          split at hk
          · assumption
          all_goals (repeat (split at hk <;> try cases hk))
        unfold HookRel hookStack
        have hnj : e.kind ≠ .jump := by rw [hk]; decide
        simp only [hnj, if_false]
        refine ⟨fun _ => trivial, fun _ => ⟨fun h2 => ?_, fun h2 => ?_, fun _ _ => ⟨trivial, fun ht2 => ?_⟩⟩⟩
        · rw [hty2] at h2; exact absurd h2 (by decide)
        · rw [hty2] at h2; exact absurd h2 (by decide)
        · rw [hst] at ht2; simp [topIsLoop, hty] at ht2
  | loopEnd =>
    rw [hk] at h
    simp only [] at h
    cases ht : stackTop c.stack .loop with
    | error err => rw [ht] at h; cases h
    | ok f0 =>
      rw [ht] at h
      obtain ⟨rest, hst, hty⟩ := stackTop_ok ht
      simp only [] at h
      rw [hst] at hc
      simp only [Wf, hty] at hc
      have htyE := kind_loopEnd.mp hk
      have hnj : e.kind ≠ .jump := by rw [hk]; decide
      have hpos : (codeOf song root c.track)[c.position]? = some e := by
        rcases Nat.lt_or_ge c.position (codeOf song root c.track).length with hlt | hge
        · rw [← he]; simp [fetch, List.getElem?_eq_getElem hlt]
        · exfalso
          have : (codeOf song root c.track)[c.position]? = none := List.getElem?_eq_none hge
          rw [← he] at hk
          simp only [fetch, this, Option.getD_none] at hk
          revert hk; decide
      generalize (if f0.loopCount = 0 then e.param else f0.loopCount) = cnt at h
      by_cases h1 : cnt < 0
      · simp only [h1, if_true] at h; cases h
      · simp only [h1, if_false] at h
        by_cases h2 : cnt - 1 > 0
        · simp only [h2, if_true, Except.ok.injEq, Prod.mk.injEq] at h
          obtain ⟨rfl, rfl⟩ := h
          refine ⟨?_, ?_⟩
          · simp only [hst, List.tail_cons, Wf, hty]
            exact ⟨fun _ => ⟨e, by simpa using hpos, htyE⟩, hc.2⟩
          · show HookRel _ _ _ _
            unfold HookRel hookStack
            simp only [hnj, if_false, hst, List.tail_cons]
            have hq : allQ ({ f0 with endPosition := c.position + 1, loopCount := cnt - 1 } :: rest) = false := by
              rw [allQ_cons]
              have : (cnt - 1 == 0) = false := by simp; omega
              simp [qF, this]
            refine ⟨fun _ => ?_, fun hq' => by rw [hq] at hq'; cases hq'⟩
            simp [depthOf, hty]
        · simp only [h2, if_false, Except.ok.injEq, Prod.mk.injEq] at h
          obtain ⟨rfl, rfl⟩ := h
          refine ⟨by simp only [hst, List.tail_cons]; exact hc.2, ?_⟩
          show HookRel _ _ _ _
          unfold HookRel hookStack
          simp only [hnj, if_false, hst, List.tail_cons]
          obtain ⟨d1, d2⟩ := depth_pop f0 rest hty
          refine ⟨d1, fun hq => ⟨fun h3 => ?_, fun _ => d2 hq, fun _ h3 => absurd htyE h3⟩⟩
          rw [htyE] at h3; exact absurd h3 (by decide)
  | segno =>
    rw [hk] at h
    simp only [Except.ok.injEq, Prod.mk.injEq] at h
    obtain ⟨rfl, rfl⟩ := h
    refine ⟨hc, ?_⟩
    show HookRel _ _ _ _
    exact hookRel_same rfl (by rw [hk]; decide)
      (fun hx => by rw [kind_loopStart.mpr hx] at hk; cases hk) (fun hx => by rw [kind_loopEnd.mpr hx] at hk; cases hk)
  | jump =>
    rw [hk] at h
    simp only [] at h
    cases hl : song.track? (trackIdOfParam e.param) with
    | none => rw [hl] at h; cases h
    | some evs =>
      rw [hl] at h
      simp only [] at h
      cases hp : push c.stack { type := .jump, track := c.track, position := c.position + 1, endPosition := 0, loopCount := 0 } with
      | error err => rw [hp] at h; cases h
      | ok st =>
        rw [hp] at h
        have := push_ok hp
        subst this
        simp only [Except.ok.injEq, Prod.mk.injEq] at h
        obtain ⟨rfl, rfl⟩ := h
        refine ⟨by simp only [Wf]; exact hc, ?_⟩
        show HookRel _ _ _ _
        unfold HookRel hookStack
        simp only [hk, if_true]
        have hd : depthOf ({ type := .jump, track := c.track, position := c.position + 1, endPosition := 0, loopCount := 0 } :: c.stack) = depthOf c.stack := by
          by_cases hq : allQ c.stack = true
          · simp [depthOf, hq, depthOf_quiet hq]
          · simp [depthOf, hq]
        refine ⟨fun _ => hd, fun hq => ⟨fun h2 => ?_, fun h2 => ?_, fun _ _ => ⟨hd, fun ht2 => ?_⟩⟩⟩
        · rw [kind_loopStart.mpr h2] at hk; cases hk
        · rw [kind_loopEnd.mpr h2] at hk; cases hk
        · rw [hd, quiet_top hq ht2]; rfl
  | fin =>
    rw [hk] at h
    simp only [] at h
    cases hs : c.stack with
    | nil =>
      rw [hs] at h
      simp only [Except.ok.injEq, Prod.mk.injEq] at h
      obtain ⟨rfl, rfl⟩ := h
      exact ⟨by simp only [Wf], hs, rfl⟩
    | cons g rest =>
      rw [hs] at h
      simp only [] at h
      cases ht : stackTop (g :: rest) .jump with
      | error err => rw [ht] at h; cases h
      | ok f0 =>
        rw [ht] at h
        obtain ⟨rest', hst, hty⟩ := stackTop_ok ht
        injection hst with e1 e2
        subst e1 e2
        simp only [Except.ok.injEq, Prod.mk.injEq] at h
        obtain ⟨rfl, rfl⟩ := h
        rw [hs] at hc
        simp only [Wf, hty] at hc
        refine ⟨by simp only [List.tail_cons]; exact hc, ?_⟩
        show depthOf rest = depthOf c.stack
        rw [hs]
        by_cases hq : allQ rest = true
        · simp [depthOf, hq, hty, depthOf_quiet hq]
        · simp [depthOf, hq]
  | other =>
    rw [hk] at h
    simp only [Except.ok.injEq, Prod.mk.injEq] at h
    obtain ⟨rfl, rfl⟩ := h
    refine ⟨hc, ?_⟩
    show HookRel _ _ _ _
    exact hookRel_same rfl (by rw [hk]; decide)
      (fun hx => by rw [kind_loopStart.mpr hx] at hk; cases hk) (fun hx => by rw [kind_loopEnd.mpr hx] at hk; cases hk)

end Ctrmml.MdsFragP
