/-
  Codec round trip, whole tracks: lists of linear events, the terminator, the loop point and the
  loop-back jump.
-/
import Ctrmml.Proofs.CodecLinear
namespace Ctrmml.Codec
open Ctrmml.Mds Ctrmml.Seq Tables

/-- `EvOk` for a list of events -/
def SegOk (nS nM : Nat) (e : Enc) (es : List MEv) (T : List Tk) : Prop :=
  ∃ e', encAll nS nM e es = .ok e' ∧ e.out <+: e'.out ∧ e'.breaks = e.breaks ∧ e'.segnoPos = e.segnoPos ∧
    ∀ (seq : List Nat) (base mj : Nat) (s : St) (O : List Tk), e'.out <+: seq → Good e s O →
      ∃ s1, Reach seq base mj s s1 ∧ Frame s s1 ∧ Good e' s1 (T.reverse ++ O)

theorem segOk_nil (nS nM : Nat) (e : Enc) : SegOk nS nM e [] [] :=
  ⟨e, rfl, List.prefix_refl _, rfl, rfl, fun _ _ _ s O _ g => ⟨s, .refl _, Frame.rfl' _, by simpa using g⟩⟩

theorem segOk_cons {nS nM : Nat} {e : Enc} {ev : MEv} {es : List MEv} {T1 T2 : List Tk}
    (h1 : EvOk nS nM e ev T1) (h2 : ∀ e1, encEv nS nM e ev = .ok e1 → SegOk nS nM e1 es T2) :
    SegOk nS nM e (ev :: es) (T1 ++ T2) := by
  obtain ⟨e1, he1, p1, b1, sp1, sem1⟩ := h1
  obtain ⟨e2, he2, p2, b2, sp2, sem2⟩ := h2 e1 he1
  refine ⟨e2, by simp [encAll, he1, he2], p1.trans p2, b2.trans b1, sp2.trans sp1, ?_⟩
  intro seq base mj s O hp g
  obtain ⟨s1, r1, f1, g1⟩ := sem1 seq base mj s O (p2.trans hp) g
  obtain ⟨s2, r2, f2, g2⟩ := sem2 seq base mj s1 _ hp g1
  exact ⟨s2, r1.trans r2, f1.trans f2, by simpa [List.reverse_append, List.append_assoc] using g2⟩

theorem encAll_append (nS nM : Nat) (e : Enc) (a b : List MEv) :
    encAll nS nM e (a ++ b) = match encAll nS nM e a with
      | .error x => .error x
      | .ok e1 => encAll nS nM e1 b := by
  induction a generalizing e with
  | nil => simp [encAll]
  | cons ev a ih =>
    simp only [List.cons_append, encAll]
    cases encEv nS nM e ev with
    | error x => rfl
    | ok e1 => exact ih e1

theorem segOk_append {nS nM : Nat} {e : Enc} {a b : List MEv} {T1 T2 : List Tk}
    (h1 : SegOk nS nM e a T1) (h2 : ∀ e1, encAll nS nM e a = .ok e1 → SegOk nS nM e1 b T2) :
    SegOk nS nM e (a ++ b) (T1 ++ T2) := by
  obtain ⟨e1, he1, p1, b1, sp1, sem1⟩ := h1
  obtain ⟨e2, he2, p2, b2, sp2, sem2⟩ := h2 e1 he1
  refine ⟨e2, by simp [encAll_append, he1, he2], p1.trans p2, b2.trans b1, sp2.trans sp1, ?_⟩
  intro seq base mj s O hp g
  obtain ⟨s1, r1, f1, g1⟩ := sem1 seq base mj s O (p2.trans hp) g
  obtain ⟨s2, r2, f2, g2⟩ := sem2 seq base mj s1 _ hp g1
  exact ⟨s2, r1.trans r2, f1.trans f2, by simpa [List.reverse_append, List.append_assoc] using g2⟩

/-- **lists of linear events** -/
theorem encAll_lin (nS nM : Nat) : ∀ (es : List MEv), (∀ ev ∈ es, linEv ev = true) → ∀ e : Enc,
    SegOk nS nM e es (ticks nS nM es)
  | [], _, e => segOk_nil nS nM e
  | ev :: es, hv, e => by
    rw [ticks_cons]
    exact segOk_cons (encEv_lin nS nM e ev (hv ev (by simp)))
      (fun e1 _ => encAll_lin nS nM es (fun x hx => hv x (by simp [hx])) e1)

/-! ### the terminator -/

theorem encEv_finish (nS nM : Nat) (e : Enc) (arg : Nat) :
    encEv nS nM e ⟨mds_FINISH, arg⟩ = .ok { e with out := e.out ++ [mds_FINISH], lastType := mds_FINISH } := by
  have h : encOther nS nM e mds_FINISH arg = .ok { e with out := e.out ++ [mds_FINISH] } := by
    simp [encOther, mds_FINISH, mds_SEGNO]
  exact encEv_other (by decide) h

theorem finish_run {seq : List Nat} {base mj : Nat} {e : Enc} {s : St} {O : List Tk} (g : Good e s O)
    (hc : s.calls = []) (hp : e.out ++ [mds_FINISH] <+: seq) :
    ∃ s1, Reach seq base mj s s1 ∧ step seq base mj s1 = .error .finished ∧ s1.out = O := by
  obtain ⟨s1, r1, f1, i1⟩ := resolve (base := base) (mj := mj) g (b := mds_FINISH) (by decide) hp
  have r0 : seq[s1.pc]? = some mds_FINISH := by rw [i1.pc]; exact rd_at hp
  exact ⟨s1, r1, step_finish r0 (f1.calls.trans hc), i1.out⟩

theorem good_init (ln lr : Option Nat) : Good {} { pc := 0, lastNote := ln, lastRest := lr } [] :=
  ⟨fun h => absurd rfl h, fun h => absurd rfl h, rfl, .inl ⟨by decide, rfl, rfl⟩⟩

/-- from pc 0 with empty stacks and arbitrary register contents, the interpreter plays exactly `T`
and then stops at a `FINISH` (or at the loop-back jump when the allowed number of jumps is used up) -/
def Plays (bytes : List Nat) (base mj : Nat) (ln lr : Option Nat) (T : List Tk) : Prop :=
  ∃ s', Reach bytes base mj { pc := 0, lastNote := ln, lastRest := lr } s' ∧
    step bytes base mj s' = .error .finished ∧ s'.out = T.reverse

theorem Plays.run_eq {bytes : List Nat} {base mj : Nat} {ln lr : Option Nat} {T : List Tk}
    (h : Plays bytes base mj ln lr T) (maxTicks : Nat) (hlen : T.length ≤ maxTicks) :
    ∃ n, ∀ fuel, fuel > n →
      Seq.run bytes base mj maxTicks fuel { pc := 0, lastNote := ln, lastRest := lr } = (T, .finished) := by
  obtain ⟨s', r, hfin, ho⟩ := h
  obtain ⟨n, hn⟩ := run_of_reach (maxTicks := maxTicks) r hfin (by rw [ho]; simpa using hlen)
  exact ⟨n, fun fuel hf => by rw [hn fuel hf, ho]; simp⟩

/-- for every fuel and tick limit the run never stops with `badRead`, `badOp`, `noLength` or
`loopUnderflow` -/
theorem Plays.safe {bytes : List Nat} {base mj : Nat} {ln lr : Option Nat} {T : List Tk}
    (h : Plays bytes base mj ln lr T) (maxTicks fuel : Nat) :
    (Seq.run bytes base mj maxTicks fuel { pc := 0, lastNote := ln, lastRest := lr }).2 ∈
      [Stop.finished, Stop.fuel, Stop.tooManyTicks] := by
  obtain ⟨s', r, hfin, _⟩ := h
  rcases run_stop_of_reach (maxTicks := maxTicks) r hfin fuel with h | h | h <;> simp [h]

/-- **C02, linear fragment.** -/
theorem codec_roundtrip_linear (nS nM : Nat) (es : List MEv) (hv : ∀ ev ∈ es, linEv ev = true) (farg : Nat) :
    ∃ bytes, convertTrack nS nM (es ++ [⟨mds_FINISH, farg⟩]) = .ok bytes ∧
      ∀ (base mj : Nat) (ln lr : Option Nat), Plays bytes base mj ln lr (ticks nS nM es) := by
  obtain ⟨e1, he1, _, _, _, sem⟩ := encAll_lin nS nM es hv {}
  refine ⟨e1.out ++ [mds_FINISH], ?_, ?_⟩
  · simp [convertTrack, encAll_append, he1, encAll, encEv_finish, Except.map]
  · intro base mj ln lr
    obtain ⟨s1, r1, f1, g1⟩ := sem (e1.out ++ [mds_FINISH]) base mj _ [] (List.prefix_append _ _) (good_init ln lr)
    obtain ⟨s2, r2, hfin, ho⟩ := finish_run (base := base) (mj := mj) g1 (f1.calls) (List.prefix_refl _)
    exact ⟨s2, r1.trans r2, hfin, by simpa using ho⟩

end Ctrmml.Codec
