/-
  Codec round trip, whole tracks: lists of linear events, the terminator, the loop point and the
  loop-back jump.
-/
import Ctrmml.Proofs.CodecLinear
namespace Ctrmml.Codec
open Ctrmml.Mds Ctrmml.Seq Tables

/-- `EvOk` for a list of events -/
def SegOk (M : Mode) (nS nM : Nat) (e : Enc) (es : List MEv) (T : List Tk) : Prop :=
  ∃ e', encAll nS nM e es = .ok e' ∧ e.out <+: e'.out ∧ e'.breaks = e.breaks ∧ e'.segnoPos = e.segnoPos ∧
    ∀ (seq : List Nat) (base mj : Nat) (s : St) (O : List Tk), M.Sound seq base mj → e'.out <+: seq → Good M e s O →
      ∃ s1, Reach seq base mj s s1 ∧ Frame s s1 ∧ Good M e' s1 (T.reverse ++ O)

theorem segOk_nil (M : Mode) (nS nM : Nat) (e : Enc) : SegOk M nS nM e [] [] :=
  ⟨e, rfl, List.prefix_refl _, rfl, rfl, fun _ _ _ s O _ _ g => ⟨s, .refl _, Frame.rfl' _, by simpa using g⟩⟩

theorem segOk_cons {M : Mode} {nS nM : Nat} {e : Enc} {ev : MEv} {es : List MEv} {T1 T2 : List Tk}
    (h1 : EvOk M nS nM e ev T1) (h2 : ∀ e1, encEv nS nM e ev = .ok e1 → SegOk M nS nM e1 es T2) :
    SegOk M nS nM e (ev :: es) (T1 ++ T2) := by
  obtain ⟨e1, he1, p1, b1, sp1, sem1⟩ := h1
  obtain ⟨e2, he2, p2, b2, sp2, sem2⟩ := h2 e1 he1
  refine ⟨e2, by simp [encAll, he1, he2], p1.trans p2, b2.trans b1, sp2.trans sp1, ?_⟩
  intro seq base mj s O hS hp g
  obtain ⟨s1, r1, f1, g1⟩ := sem1 seq base mj s O hS (p2.trans hp) g
  obtain ⟨s2, r2, f2, g2⟩ := sem2 seq base mj s1 _ hS hp g1
  exact ⟨s2, r1.trans r2, f1.trans f2, by simpa [List.reverse_append, List.append_assoc] using g2⟩

theorem encAll_append (nS nM : Nat) (e : Enc) (a b : List MEv) :
    encAll nS nM e (a ++ b) = match encAll nS nM e a with
      | .error x => .error x
      | .ok e1 => encAll nS nM e1 b := by
  induction a generalizing e with
  | nil => simp [encAll]
  | cons ev a ih =>
    simp only [List.cons_append, encAll]
    cases encEv nS nM e ev with
    | error x => rfl
    | ok e1 => exact ih e1

theorem segOk_append {M : Mode} {nS nM : Nat} {e : Enc} {a b : List MEv} {T1 T2 : List Tk}
    (h1 : SegOk M nS nM e a T1) (h2 : ∀ e1, encAll nS nM e a = .ok e1 → SegOk M nS nM e1 b T2) :
    SegOk M nS nM e (a ++ b) (T1 ++ T2) := by
  obtain ⟨e1, he1, p1, b1, sp1, sem1⟩ := h1
  obtain ⟨e2, he2, p2, b2, sp2, sem2⟩ := h2 e1 he1
  refine ⟨e2, by simp [encAll_append, he1, he2], p1.trans p2, b2.trans b1, sp2.trans sp1, ?_⟩
  intro seq base mj s O hS hp g
  obtain ⟨s1, r1, f1, g1⟩ := sem1 seq base mj s O hS (p2.trans hp) g
  obtain ⟨s2, r2, f2, g2⟩ := sem2 seq base mj s1 _ hS hp g1
  exact ⟨s2, r1.trans r2, f1.trans f2, by simpa [List.reverse_append, List.append_assoc] using g2⟩

/-- **lists of linear events** -/
theorem encAll_lin (M : Mode) (nS nM : Nat) : ∀ (es : List MEv), (∀ ev ∈ es, linEv ev = true) →
    (∀ ev ∈ es, M.evOk ev = true) → ∀ e : Enc, SegOk M nS nM e es (ticks M nS nM es)
  | [], _, _, e => segOk_nil M nS nM e
  | ev :: es, hv, hm, e => by
    rw [ticks_cons]
    exact segOk_cons (encEv_lin M nS nM e ev (hv ev (by simp)) (hm ev (by simp)))
      (fun e1 _ => encAll_lin M nS nM es (fun x hx => hv x (by simp [hx])) (fun x hx => hm x (by simp [hx])) e1)

/-- the encoder side of `encAll_lin` -/
theorem encAll_lin_total (nS nM : Nat) : ∀ (es : List MEv), (∀ ev ∈ es, linEv ev = true) → ∀ e : Enc,
    ∃ e', encAll nS nM e es = .ok e' ∧ e.out <+: e'.out ∧ e'.breaks = e.breaks ∧ e'.segnoPos = e.segnoPos
  | [], _, e => ⟨e, rfl, List.prefix_refl _, rfl, rfl⟩
  | ev :: es, hv, e => by
    obtain ⟨e1, h1, p1, b1, s1⟩ := encEv_lin_total nS nM e ev (hv ev (by simp))
    obtain ⟨e2, h2, p2, b2, s2⟩ := encAll_lin_total nS nM es (fun x hx => hv x (by simp [hx])) e1
    exact ⟨e2, by simp [encAll, h1, h2], p1.trans p2, b2.trans b1, s2.trans s1⟩

/-! ### the terminator -/

theorem encEv_finish (nS nM : Nat) (e : Enc) (arg : Nat) :
    encEv nS nM e ⟨mds_FINISH, arg⟩ = .ok { e with out := e.out ++ [mds_FINISH], lastType := mds_FINISH } := by
  have h : encOther nS nM e mds_FINISH arg = .ok { e with out := e.out ++ [mds_FINISH] } := by
    simp [encOther, mds_FINISH, mds_SEGNO]
  exact encEv_other (by decide) h

theorem finish_run {M : Mode} {seq : List Nat} {base mj : Nat} (hS : M.Sound seq base mj) {e : Enc} {s : St}
    {O : List Tk} (g : Good M e s O)
    (hc : s.calls = []) (hp : e.out ++ [mds_FINISH] <+: seq) :
    ∃ s1, Reach seq base mj s s1 ∧ step seq base mj s1 = .error .finished ∧ s1.out = O := by
  obtain ⟨s1, r1, f1, i1⟩ := resolve (base := base) (mj := mj) hS g (b := mds_FINISH) (by decide) hp
  have r0 : seq[s1.pc]? = some mds_FINISH := by rw [i1.pc]; exact rd_at hp
  exact ⟨s1, r1, step_finish r0 (f1.calls.trans hc), i1.out⟩

theorem good_init (ln lr : Option Nat) : Good Mode.plain {} { pc := 0, lastNote := ln, lastRest := lr } [] :=
  ⟨fun h => absurd rfl h, fun h => absurd rfl h, rfl, .inl ⟨by decide, rfl, rfl⟩⟩

/-- from pc 0 with empty stacks and arbitrary register contents, the interpreter plays exactly `T`
and then stops at a `FINISH` (or at the loop-back jump when the allowed number of jumps is used up) -/
def Plays (bytes : List Nat) (base mj : Nat) (ln lr : Option Nat) (T : List Tk) : Prop :=
  ∃ s', Reach bytes base mj { pc := 0, lastNote := ln, lastRest := lr } s' ∧
    step bytes base mj s' = .error .finished ∧ s'.out = T.reverse

theorem Plays.run_eq {bytes : List Nat} {base mj : Nat} {ln lr : Option Nat} {T : List Tk}
    (h : Plays bytes base mj ln lr T) (maxTicks : Nat) (hlen : T.length ≤ maxTicks) :
    ∃ n, ∀ fuel, fuel > n →
      Seq.run bytes base mj maxTicks fuel { pc := 0, lastNote := ln, lastRest := lr } = (T, .finished) := by
  obtain ⟨s', r, hfin, ho⟩ := h
  obtain ⟨n, hn⟩ := run_of_reach (maxTicks := maxTicks) r hfin (by rw [ho]; simpa using hlen)
  exact ⟨n, fun fuel hf => by rw [hn fuel hf, ho]; simp⟩

/-- for every fuel and tick limit the run never stops with `badRead`, `badOp`, `noLength` or
`loopUnderflow` -/
theorem Plays.safe {bytes : List Nat} {base mj : Nat} {ln lr : Option Nat} {T : List Tk}
    (h : Plays bytes base mj ln lr T) (maxTicks fuel : Nat) :
    (Seq.run bytes base mj maxTicks fuel { pc := 0, lastNote := ln, lastRest := lr }).2 ∈
      [Stop.finished, Stop.fuel, Stop.tooManyTicks] := by
  obtain ⟨s', r, hfin, _⟩ := h
  rcases run_stop_of_reach (maxTicks := maxTicks) r hfin fuel with h | h | h <;> simp [h]

/-- **C02, linear fragment.** -/
theorem codec_roundtrip_linear (nS nM : Nat) (es : List MEv) (hv : ∀ ev ∈ es, linEv ev = true)
    (hm : ∀ ev ∈ es, Mode.plain.evOk ev = true) (farg : Nat) :
    ∃ bytes, convertTrack nS nM (es ++ [⟨mds_FINISH, farg⟩]) = .ok bytes ∧
      ∀ (base mj : Nat) (ln lr : Option Nat), Plays bytes base mj ln lr (ticks Mode.plain nS nM es) := by
  obtain ⟨e1, he1, _, _, _, sem⟩ := encAll_lin Mode.plain nS nM es hv hm {}
  refine ⟨e1.out ++ [mds_FINISH], ?_, ?_⟩
  · simp [convertTrack, encAll_append, he1, encAll, encEv_finish, Except.map]
  · intro base mj ln lr
    obtain ⟨s1, r1, f1, g1⟩ := sem (e1.out ++ [mds_FINISH]) base mj _ [] (Mode.plain_sound _ _ _) (List.prefix_append _ _) (good_init ln lr)
    obtain ⟨s2, r2, hfin, ho⟩ := finish_run (base := base) (mj := mj) (Mode.plain_sound _ _ _) g1 (f1.calls) (List.prefix_refl _)
    exact ⟨s2, r1.trans r2, hfin, by simpa using ho⟩

end Ctrmml.Codec
