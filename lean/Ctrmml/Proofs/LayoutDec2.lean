/-
  Helper instances for C06, round 3 (no property statements here): the hypotheses of the round-3
  layout theorems (`L2.CmdsOk`, `L2.LinesOk`) are decidable, so concrete layouts are checked by `decide`.
-/
import Ctrmml.Proofs.LayoutLines2
import Ctrmml.Proofs.LayoutDec
namespace Ctrmml.Mml.L2
open Ctrmml.Tables Ctrmml.Lexer Ctrmml.TrackBuilder
open Ctrmml.MmlMeaning (Num Dur Acc Cmd)
open Ctrmml.Layout (Addr)

/-- the new commands of round 3, as a Boolean -/
def newCov : Cmd → Bool
  | .simple .volFine (some n) => decide (0 ≤ n.v)
  | .simple .volFineUp (some _) => true
  | .simple .volFineDown (some n) => decide (n.hex = false ∧ 0 < n.v)
  | .simple .loopBreak none => true
  | .echo _ => true
  | _ => false

theorem lcovered_iff (c : Cmd) : LCovered c ↔ (newCov c = true ∨ Mml.LCovered c) := by
  cases c with
  | simple sm n => cases sm <;> cases n <;> simp [LCovered, newCov, Mml.LCovered, evClass, covSimple]
  | echo d => simp [LCovered, newCov]
  | _ => simp [LCovered, newCov]

instance decLCovered (c : Cmd) : Decidable (LCovered c) := decidable_of_iff _ (lcovered_iff c).symm

instance decLCmdNums (t : Track) : (c : Cmd) → Decidable (LCmdNums t c)
  | .echo d => inferInstanceAs (Decidable (DurNums d))
  | .note l a d => inferInstanceAs (Decidable (Mml.LCmdNums t (.note l a d)))
  | .rest d => inferInstanceAs (Decidable (Mml.LCmdNums t (.rest d)))
  | .tie d => inferInstanceAs (Decidable (Mml.LCmdNums t (.tie d)))
  | .slur => inferInstanceAs (Decidable (Mml.LCmdNums t (.slur)))
  | .octave n => inferInstanceAs (Decidable (Mml.LCmdNums t (.octave n)))
  | .octUp => inferInstanceAs (Decidable (Mml.LCmdNums t (.octUp)))
  | .octDown => inferInstanceAs (Decidable (Mml.LCmdNums t (.octDown)))
  | .length d => inferInstanceAs (Decidable (Mml.LCmdNums t (.length d)))
  | .quantize n => inferInstanceAs (Decidable (Mml.LCmdNums t (.quantize n)))
  | .early n => inferInstanceAs (Decidable (Mml.LCmdNums t (.early n)))
  | .revRest d => inferInstanceAs (Decidable (Mml.LCmdNums t (.revRest d)))
  | .grace l a d => inferInstanceAs (Decidable (Mml.LCmdNums t (.grace l a d)))
  | .measure n => inferInstanceAs (Decidable (Mml.LCmdNums t (.measure n)))
  | .shuffle n => inferInstanceAs (Decidable (Mml.LCmdNums t (.shuffle n)))
  | .echoSet a b => inferInstanceAs (Decidable (Mml.LCmdNums t (.echoSet a b)))
  | .keyScale nm => inferInstanceAs (Decidable (Mml.LCmdNums t (.keyScale nm)))
  | .keyMod gs => inferInstanceAs (Decidable (Mml.LCmdNums t (.keyMod gs)))
  | .drum n => inferInstanceAs (Decidable (Mml.LCmdNums t (.drum n)))
  | .simple sm n => inferInstanceAs (Decidable (Mml.LCmdNums t (.simple sm n)))
  | .bar => inferInstanceAs (Decidable (Mml.LCmdNums t (.bar)))

instance decLCmdTail : (c : Cmd) → (tail : List Nat) → Decidable (LCmdTail c tail)
  | .echo d, tail => inferInstanceAs (Decidable (DurTail d tail ∧ EchoHead (d.bytes ++ tail)))
  | .note l a d, tail => inferInstanceAs (Decidable (Mml.LCmdTail (.note l a d) tail))
  | .rest d, tail => inferInstanceAs (Decidable (Mml.LCmdTail (.rest d) tail))
  | .tie d, tail => inferInstanceAs (Decidable (Mml.LCmdTail (.tie d) tail))
  | .slur, tail => inferInstanceAs (Decidable (Mml.LCmdTail (.slur) tail))
  | .octave n, tail => inferInstanceAs (Decidable (Mml.LCmdTail (.octave n) tail))
  | .octUp, tail => inferInstanceAs (Decidable (Mml.LCmdTail (.octUp) tail))
  | .octDown, tail => inferInstanceAs (Decidable (Mml.LCmdTail (.octDown) tail))
  | .length d, tail => inferInstanceAs (Decidable (Mml.LCmdTail (.length d) tail))
  | .quantize n, tail => inferInstanceAs (Decidable (Mml.LCmdTail (.quantize n) tail))
  | .early n, tail => inferInstanceAs (Decidable (Mml.LCmdTail (.early n) tail))
  | .revRest d, tail => inferInstanceAs (Decidable (Mml.LCmdTail (.revRest d) tail))
  | .grace l a d, tail => inferInstanceAs (Decidable (Mml.LCmdTail (.grace l a d) tail))
  | .measure n, tail => inferInstanceAs (Decidable (Mml.LCmdTail (.measure n) tail))
  | .shuffle n, tail => inferInstanceAs (Decidable (Mml.LCmdTail (.shuffle n) tail))
  | .echoSet a b, tail => inferInstanceAs (Decidable (Mml.LCmdTail (.echoSet a b) tail))
  | .keyScale nm, tail => inferInstanceAs (Decidable (Mml.LCmdTail (.keyScale nm) tail))
  | .keyMod gs, tail => inferInstanceAs (Decidable (Mml.LCmdTail (.keyMod gs) tail))
  | .drum n, tail => inferInstanceAs (Decidable (Mml.LCmdTail (.drum n) tail))
  | .simple sm n, tail => inferInstanceAs (Decidable (Mml.LCmdTail (.simple sm n) tail))
  | .bar, tail => inferInstanceAs (Decidable (Mml.LCmdTail (.bar) tail))

instance decCmdsOk : (t : Track) → (cs : List Cmd) → Decidable (CmdsOk t cs)
  | _, [] => isTrue trivial
  | t, c :: cs =>
    have := decCmdsOk (lcmdTrack t c) cs
    inferInstanceAs (Decidable (LCovered c ∧ LCmdNums t c ∧ CmdsOk (lcmdTrack t c) cs))

instance decToksOk : (ts : List Tok) → (e : List Nat) → Decidable (ToksOk ts e)
  | [], _ => isTrue trivial
  | .blank b :: ts, e =>
    have := decToksOk ts e
    inferInstanceAs (Decidable ((b = 32 ∨ b = 9) ∧ ToksOk ts e))
  | .bar :: ts, e => decToksOk ts e
  | .cmd c :: ts, e =>
    have := decToksOk ts e
    inferInstanceAs (Decidable (LCmdTail c (toksText ts e) ∧ ToksOk ts e))

instance decLineOk (ids : List Nat) : (l : LLine) → Decidable (LineOk ids l)
  | .hdr as b ts e => inferInstanceAs (Decidable (as ≠ [] ∧ HeaderOk as ∧ as.map Addr.id = ids ∧ (b = 32 ∨ b = 9) ∧ ToksOk ts e ∧ EndOk e ∧
      Bytes (headerBytes as ++ b :: toksText ts e)))
  | .cont b ts e => inferInstanceAs (Decidable ((b = 32 ∨ b = 9) ∧ ToksOk ts e ∧ EndOk e ∧ Bytes (b :: toksText ts e)))
  | .empty => isTrue trivial
  | .comment _ => isTrue trivial

instance decLinesOk (ids : List Nat) : (r : Bool) → (ls : List LLine) → Decidable (LinesOk ids r ls)
  | _, [] => isTrue trivial
  | r, l :: ls =>
    have := decLinesOk ids (r || l.isHdr) ls
    inferInstanceAs (Decidable (LineOk ids l ∧ (l.isCont = true → r = true) ∧ LinesOk ids (r || l.isHdr) ls))

end Ctrmml.Mml.L2
