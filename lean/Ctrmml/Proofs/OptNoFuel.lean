/-
  C01, layer 3 — `find_best_match` (`find_match`, `find_match_length`, `apply_match`,
  `find_subroutines`) never reports `OErr.fuel`: all its loops are bounded `for` loops; the only
  errors it can report are a missing track and a stack list that is too short.
-/
import Ctrmml.Proofs.OptSubTerm
namespace Ctrmml.OptSteps
open Ctrmml Ctrmml.Tree Ctrmml.Expand Ctrmml.Rewrite Ctrmml.Opt Tables

/-- not the error "recursion budget exhausted" -/
def NF {α : Type} (x : Except OErr α) : Prop := x ≠ .error .fuel

theorem NF_ok {α : Type} (a : α) : NF (.ok a : Except OErr α) := by simp [NF]
theorem NF_pure {α : Type} (a : α) : NF (pure a : Except OErr α) := by simp [NF, pure, Except.pure]
theorem NF_err {α : Type} {e : OErr} (h : e ≠ .fuel) : NF (.error e : Except OErr α) := by
  simp only [NF, ne_eq, Except.error.injEq]; exact h

theorem NF_bind {α β : Type} {x : Except OErr α} {f : α → Except OErr β} (hx : NF x)
    (hf : ∀ a, NF (f a)) : NF (x >>= f) := by
  cases x with
  | error e => simpa [NF, bind, Except.bind] using hx
  | ok a => exact hf a

theorem NF_forIn {α β : Type} (f : α → β → Except OErr (ForInStep β)) (hf : ∀ a b, NF (f a b)) :
    ∀ (l : List α) (b : β), NF (forIn l b f) := by
  intro l
  induction l with
  | nil => intro b; exact NF_pure b
  | cons a r ih =>
    intro b
    rw [List.forIn_cons]
    apply NF_bind (hf a b)
    intro st
    cases st with
    | done b' => exact NF_pure b'
    | yield b' => exact ih b'

theorem go_NF (dS : Nat) (src dst : List Event) (sa : SA) : ∀ (fuel se de : Nat) (depth : Int) (safe : Nat)
    (track : Bool) (ll : Nat), NF (findMatchLength.go dS src dst sa fuel se de depth safe track ll) := by
  intro fuel
  induction fuel with
  | zero => intro se de depth safe track ll; exact NF_ok _
  | succ fuel ih =>
    intro se de depth safe track ll
    unfold findMatchLength.go
    simp only
    repeat' (first | exact NF_ok _ | exact NF_err (by simp) | exact ih _ _ _ _ _ _ | split)

theorem findMatchLength_NF (song : Song) (m : SAMap) (srcT srcStart dstT dstStart : Nat) (wl : Bool) :
    NF (findMatchLength song m srcT srcStart dstT dstStart wl) := by
  unfold findMatchLength
  split
  · exact go_NF _ _ _ _ _ _ _ _ _ _ _
  · exact NF_err (by simp)

theorem innerSame_NF (isBal : Nat → Bool) (dstPos length : Nat) (sc last : Counter) :
    NF (innerSame isBal dstPos length sc last) := by
  unfold innerSame
  apply NF_forIn
  intro a b
  split
  · split <;> exact NF_pure _
  · exact NF_pure _

theorem jp2Same_NF (isBal : Nat → Bool) (srcStart dstPos length0 : Nat) (sc last : Counter) (ld : Int)
    (lv : Bool) (mt : Match) : NF (jp2Same isBal srcStart dstPos length0 sc last ld lv mt) := by
  unfold jp2Same
  exact NF_bind (innerSame_NF _ _ _ _ _) (fun _ => NF_pure _)

theorem jpSame_NF (song : Song) (m : SAMap) (srcT srcStart dstT : Nat) (isBal : Nat → Bool) (dstPos : Nat)
    (mt : Match) (sc last : Counter) (ld : Int) (lv : Bool) :
    NF (jpSame song m srcT srcStart dstT isBal dstPos mt sc last ld lv) := by
  unfold jpSame
  apply NF_bind (findMatchLength_NF _ _ _ _ _ _ _)
  intro x
  split
  · exact NF_pure _
  · split <;> exact jp2Same_NF _ _ _ _ _ _ _ _ _

theorem midBody_NF (song : Song) (m : SAMap) (srcT srcStart dstT : Nat) (dst : List Event) (isBal : Nat → Bool)
    (dstPos : Nat) (s : Match × Counter × Counter × Int × Bool) :
    NF (midBody song m srcT srcStart dstT dst isBal dstPos s) := by
  unfold midBody
  simp only
  split
  · exact jpSame_NF _ _ _ _ _ _ _ _ _ _ _ _
  split
  · exact jpSame_NF _ _ _ _ _ _ _ _ _ _ _ _
  split
  · exact jpSame_NF _ _ _ _ _ _ _ _ _ _ _ _
  split
  · exact jpSame_NF _ _ _ _ _ _ _ _ _ _ _ _
  · exact jpSame_NF _ _ _ _ _ _ _ _ _ _ _ _

theorem midBodyS_NF (song : Song) (m : SAMap) (sa : SA) (srcT srcStart dstT : Nat) (dst : List Event) (isBal : Nat → Bool)
    (dstPos : Nat) (s : Match × Counter × Counter × Int × Bool) :
    NF (midBodyS song m sa srcT srcStart dstT dst isBal dstPos s) := by
  unfold midBodyS
  split
  · exact NF_err (by simp)
  · split <;> exact midBody_NF _ _ _ _ _ _ _ _ _

theorem sgo_NF (sa : SA) (l : List Event) : ∀ (i : Nat) (d : Int) (acc : List Bool),
    NF (sourcePrefixes.go sa l i d acc) := by
  induction l with
  | nil => intro i d acc; exact NF_ok _
  | cons e rest ih =>
    intro i d acc
    simp only [sourcePrefixes.go]
    repeat' (first | exact NF_ok _ | exact NF_err (by simp) | exact ih _ _ _ | split)

theorem sourcePrefixes_NF (sa : SA) (src : List Event) (start : Nat) : NF (sourcePrefixes sa src start) := by
  unfold sourcePrefixes
  have := sgo_NF sa (src.drop start) start 0 []
  split
  · rename_i x hx
    rw [hx] at this
    exact this
  · exact NF_ok _

theorem otherBody_NF (song : Song) (m : SAMap) (srcT srcStart dstT : Nat) (isBal : Nat → Bool)
    (dstPos : Nat) (s : Counter × Counter) : NF (otherBody song m srcT srcStart dstT isBal dstPos s) := by
  unfold otherBody
  apply NF_bind (findMatchLength_NF _ _ _ _ _ _ _)
  intro x
  refine NF_bind ?_ (fun _ => NF_pure _)
  apply NF_forIn
  intro a b
  split
  · split <;> exact NF_pure _
  · exact NF_pure _

theorem trackBody_NF (song : Song) (m : SAMap) (sa : SA) (srcT srcStart : Nat) (isBal : Nat → Bool)
    (x : Nat × List Event) (s : Match × Counter) : NF (trackBody song m sa srcT srcStart isBal x s) := by
  unfold trackBody
  split
  · exact NF_pure _
  split
  · exact NF_bind (NF_forIn _ (fun a b => midBodyS_NF _ _ _ _ _ _ _ _ _ _) _ _) (fun _ => NF_pure _)
  · exact NF_bind (NF_forIn _ (fun a b => otherBody_NF _ _ _ _ _ _ _ _) _ _) (fun _ => NF_pure _)

theorem finalBody_NF (x : Nat × Nat) (mt : Match) : NF (finalBody x mt) := by
  unfold finalBody
  split <;> exact NF_pure _

theorem findMatch_NF (song : Song) (m : SAMap) (srcT srcStart : Nat) : NF (findMatch song m srcT srcStart) := by
  cases hsrc : song.track? srcT with
  | none =>
    unfold findMatch
    rw [hsrc]
    simp [NF, bind, Except.bind, throw, throwThe, MonadExceptOf.throw]
  | some src =>
    rw [findMatch_eq song m srcT srcStart src hsrc]
    apply NF_bind (sourcePrefixes_NF _ _ _)
    intro bal
    apply NF_bind (NF_forIn _ (fun a b => trackBody_NF _ _ _ _ _ _ _ _) _ _)
    intro s
    exact NF_bind (NF_forIn _ (fun a b => finalBody_NF _ _) _ _) (fun _ => NF_pure _)

theorem fsInner_NF (bm : Match) (subId : Int) (dstT : Nat) (s : Song × SAMap × Nat) : NF (fsInner bm subId dstT s) := by
  unfold fsInner
  split
  · apply NF_bind (findMatchLength_NF _ _ _ _ _ _ _)
    intro x
    split <;> exact NF_pure _
  · exact NF_pure _

theorem fsOuter_NF (bm : Match) (subId : Int) (x : Nat × List Event) (s : Song × SAMap) : NF (fsOuter bm subId x s) := by
  unfold fsOuter
  split
  · exact NF_pure _
  · exact NF_bind (NF_forIn _ (fun a b => fsInner_NF _ _ _ _) _ _) (fun _ => NF_pure _)

theorem findSubroutines_NF (song : Song) (m : SAMap) (bm : Match) (subId : Int) :
    NF (findSubroutines song m bm subId) := by
  rw [findSubroutines_eq]
  exact NF_bind (NF_forIn _ (fun a b => fsOuter_NF _ _ _ _) _ _) (fun _ => NF_pure _)

theorem applyMatch_NF (song : Song) (m : SAMap) (bm : Match) (subId : Int) : NF (applyMatch song m bm subId) := by
  unfold applyMatch
  simp only
  split
  · apply NF_bind (NF_pure _)
    intro src
    split
    · exact NF_bind (findSubroutines_NF _ _ _ _) (fun x => NF_pure _)
    · exact NF_pure _
  · simp [NF, bind, Except.bind, throw, throwThe, MonadExceptOf.throw]

theorem findBestMatch_NF (song : Song) (m : SAMap) (subId : Int) : NF (findBestMatch song m subId) := by
  unfold findBestMatch
  apply NF_bind
  · apply NF_forIn
    intro a b
    refine NF_bind ?_ (fun _ => NF_pure _)
    apply NF_forIn
    intro srcPos b2
    apply NF_bind (findMatch_NF _ _ _ _)
    intro mt
    split <;> exact NF_pure _
  · intro best
    simp only
    split
    · exact NF_bind (applyMatch_NF _ _ _ _) (fun _ => NF_pure _)
    · exact NF_pure _

end Ctrmml.OptSteps
