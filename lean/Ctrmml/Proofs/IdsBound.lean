/-
  Helper lemma for C06 (no property statements here): a duplicate-free list of 16-bit track ids has at most 65536 entries (pigeonhole).
-/
namespace Ctrmml.Mml

/-- pigeonhole: a duplicate-free list of naturals below `n` has at most `n` entries -/
theorem nodup_lt_length_le : ∀ (n : Nat) (l : List Nat), l.Nodup → (∀ x ∈ l, x < n) → l.length ≤ n := by
  intro n
  induction n with
  | zero =>
    intro l _ hlt
    cases l with
    | nil => simp
    | cons a t => exact absurd (hlt a (List.mem_cons_self)) (Nat.not_lt_zero a)
  | succ n ih =>
    intro l hnd hlt
    have hnd' : (l.erase n).Nodup := hnd.erase n
    have hlt' : ∀ x ∈ l.erase n, x < n := by
      intro x hx
      have hx' := (List.Nodup.mem_erase_iff hnd).1 hx
      have := hlt x hx'.2
      have hne : x ≠ n := hx'.1
      omega
    have hlen := ih (l.erase n) hnd' hlt'
    have : l.length ≤ (l.erase n).length + 1 := by
      rw [List.length_erase]
      split <;> omega
    omega

/-- a duplicate-free list of 16-bit track ids has at most 65536 entries -/
theorem ids_length_le (ids : List Nat) (hnd : ids.Nodup) (h16 : ∀ id ∈ ids, id < 65536) : ids.length ≤ 65536 :=
  nodup_lt_length_le 65536 ids hnd h16

example : [0, 65535, 7].Nodup ∧ ∀ id ∈ [0, 65535, 7], id < 65536 := by decide

end Ctrmml.Mml
