/-
  Helper lemmas for C13 (no property statements here).
-/
import Ctrmml.Spec.RiffTree
namespace Ctrmml.Riff
open Ctrmml

/- every node's data vector is shorter than 4 GiB -/
mutual
def Tree.small : Tree → Prop
  | .chunk _ p => p.length < 4294967296
  | .list t i cs => (Tree.list t i cs).body.length < 4294967296 ∧ smallL cs
def smallL : List Tree → Prop
  | [] => True
  | c :: cs => Tree.small c ∧ smallL cs
end

theorem Tree.small_body (t : Tree) (h : t.small) : t.body.length < 4294967296 := by
  cases t with
  | chunk t p => simpa [Tree.small, Tree.body] using h
  | list t i cs => exact h.1

mutual
def Tree.size : Tree → Nat
  | .chunk _ _ => 1
  | .list _ _ cs => 1 + sizeL cs
def sizeL : List Tree → Nat
  | [] => 1
  | c :: cs => 1 + c.size + sizeL cs
end

theorem wf_typeOf_lt (t : Tree) (h : t.wf) : t.typeOf < 4294967296 := by
  cases t with
  | chunk t p => exact h.2
  | list t i cs =>
    have := h.1
    simp [isList, TYPE_RIFF, TYPE_LIST, Tables.riff_TYPE_RIFF, Tables.riff_TYPE_LIST, Tables.riff_TYPE_RIFF, Tables.riff_TYPE_LIST] at this
    simp [Tree.typeOf]; omega

theorem pad_eq (d : Bytes) : pad d = d ++ (if d.length % 2 == 1 then [0] else []) := by
  unfold pad; split <;> simp

mutual
theorem build_ok (t : Tree) (h : t.wf) :
    build t = .ok { type := t.typeOf, data := t.body, position := rewindPos t.typeOf } := by
  cases t with
  | chunk ty p =>
    have h1 := h.1
    simp [build, mk2, Tree.typeOf, Tree.body, h1]
  | list ty i cs =>
    have h1 := h.1
    have h3 := h.2.2
    rw [build, buildL_ok cs (mk3 ty i) h3 h1]
    simp [mk3, Tree.typeOf, Tree.body]
theorem buildL_ok (cs : List Tree) (acc : Riff) (h : Tree.wfL cs) (hl : isList acc.type = true) :
    buildL acc cs = .ok { acc with data := acc.data ++ layout acc.data.length cs } := by
  cases cs with
  | nil => simp [buildL, layout]
  | cons c cs =>
    have hc := h.1
    have hcs := h.2
    rw [buildL, build_ok c hc]
    simp only [addChunk, hl, if_true]
    have key := buildL_ok cs (Riff.mk acc.type (pad acc.data ++ be32 c.typeOf ++ le32 c.body.length ++ c.body) acc.position) hcs hl
    rw [key]
    simp only [pad_eq, layout]
    congr 2
    simp only [List.append_assoc, List.length_append, le32_length, be32_length]
    congr 5
    congr 1
    rcases Nat.mod_two_eq_zero_or_one acc.data.length with hp | hp <;> simp [hp] <;> omega
end

theorem take4_be32 (n : Nat) (rest : Bytes) : (be32 n ++ rest).take 4 = be32 n := by
  simp [be32]

theorem ofBytes_frame (ty : Nat) (body extra : Bytes) (hty : ty < 4294967296)
    (hb : body.length < 4294967296) :
    ofBytes (be32 ty ++ le32 body.length ++ body ++ extra)
      = .ok { type := ty, data := body, position := rewindPos ty } := by
  have h1 := rdBe32_be32 ty hty [] (le32 body.length ++ body ++ extra)
  have h2 := rdLe32_le32 body.length hb (be32 ty) (body ++ extra)
  simp only [List.nil_append, List.length_nil, be32_length, List.append_assoc] at h1 h2
  unfold ofBytes
  simp only [List.append_assoc, List.length_append, be32_length, le32_length, h1, h2]
  have : ¬ (4 + (4 + (body.length + extra.length)) < 8) := by omega
  simp only [this, if_false]
  have h3 : ¬ (body.length > 4 + (4 + (body.length + extra.length)) - 8) := by omega
  simp only [h3, if_false]
  congr 2
  have : List.drop 8 (be32 ty ++ (le32 body.length ++ (body ++ extra))) = body ++ extra := by
    simp [be32, le32]
  rw [this]; simp

mutual
theorem size_le_body (t : Tree) : t.size ≤ t.body.length + 1 := by
  cases t with
  | chunk ty p => simp [Tree.size]
  | list ty i cs =>
    have := sizeL_le_layout 4 cs
    simp [Tree.size, Tree.body]; omega
theorem sizeL_le_layout (n : Nat) (cs : List Tree) : sizeL cs ≤ (layout n cs).length + 1 := by
  cases cs with
  | nil => simp [sizeL]
  | cons c cs =>
    have h1 := size_le_body c
    have h2 := sizeL_le_layout (n + n % 2 + 8 + c.body.length) cs
    simp [sizeL, layout]; omega
end

end Ctrmml.Riff

namespace Ctrmml.Riff
open Ctrmml

theorem drop_pre (pre x : Bytes) : (pre ++ x).drop pre.length = x := by simp

theorem getChunk_frame (ty : Nat) (hl : isList ty = true) (pre : Bytes) (cty : Nat)
    (body rest : Bytes) (hb : body.length < 4294967296) :
    getChunk { type := ty,
               data := pre ++ (if pre.length % 2 == 1 then [0] else []) ++ be32 cty
                        ++ le32 body.length ++ body ++ rest,
               position := pre.length }
      = .ok (be32 cty ++ le32 body.length ++ body,
             { type := ty,
               data := pre ++ (if pre.length % 2 == 1 then [0] else []) ++ be32 cty
                        ++ le32 body.length ++ body ++ rest,
               position := pre.length + pre.length % 2 + 8 + body.length }) := by
  obtain ⟨pre', hpre'⟩ : ∃ p, p = pre ++ (if pre.length % 2 == 1 then [0] else []) := ⟨_, rfl⟩
  have hlen : pre'.length = (if pre.length % 2 == 1 then pre.length + 1 else pre.length) := by
    rw [hpre']; split <;> simp
  have hlen2 : pre'.length = pre.length + pre.length % 2 := by
    rw [hlen]; rcases Nat.mod_two_eq_zero_or_one pre.length with hp | hp <;> simp [hp]
  rw [← hpre']
  unfold getChunk
  simp only [hl, Bool.not_true, Bool.false_eq_true, if_false, ← hlen]
  have hsome : (rdLe32 (pre' ++ be32 cty ++ le32 body.length ++ body ++ rest) pre'.length).isSome := by
    apply rdLe32_isSome_of_long; simp
  obtain ⟨v, hv⟩ := Option.isSome_iff_exists.mp hsome
  rw [hv]
  have h2 := rdLe32_le32 body.length hb (pre' ++ be32 cty) (body ++ rest)
  simp only [List.length_append, be32_length, List.append_assoc] at h2
  simp only [List.append_assoc]
  rw [h2]
  simp only []
  have hd8 : List.drop (pre'.length + 4 + 4)
      (pre' ++ (be32 cty ++ (le32 body.length ++ (body ++ rest)))) = body ++ rest := by
    have : pre' ++ (be32 cty ++ (le32 body.length ++ (body ++ rest)))
        = (pre' ++ be32 cty ++ le32 body.length) ++ (body ++ rest) := by simp
    rw [this]
    have : pre'.length + 4 + 4 = (pre' ++ be32 cty ++ le32 body.length).length := by simp
    rw [this, drop_pre]
  have hd0 : List.take 4 (List.drop pre'.length
      (pre' ++ (be32 cty ++ (le32 body.length ++ (body ++ rest))))) = be32 cty := by
    rw [drop_pre]; simp [be32]
  have harith : pre'.length + 4 + 4 = pre'.length + 8 := by omega
  simp only [List.length_append, be32_length, le32_length, harith] at hd8 ⊢
  have hc1 : ¬ (body.length > pre'.length + (4 + (4 + (body.length + rest.length))) - (pre'.length + 8)) := by
    omega
  simp only [hc1, if_false]
  have hc2 : ¬ (pre'.length + 8 + body.length > pre'.length + (4 + (4 + (body.length + rest.length)))) := by
    omega
  simp only [hc2, if_false, hd8, hd0]
  simp [hlen2]

theorem atEnd_false_frame (ty : Nat) (pre x : Bytes) (hx : 1 ≤ x.length)
    (hx2 : pre.length % 2 = 1 → 2 ≤ x.length) :
    atEnd { type := ty, data := pre ++ x, position := pre.length } = false := by
  unfold atEnd
  simp only [List.length_append]
  have h1 : ¬ (pre.length ≥ pre.length + x.length) := by omega
  simp only [h1, if_false]
  rcases Nat.mod_two_eq_zero_or_one pre.length with hp | hp
  · simp [hp]
  · have h2 : ¬ (pre.length ≥ pre.length + x.length - 1) := by have := hx2 hp; omega
    simp [hp, h2]

theorem atEnd_true_end (ty : Nat) (pre : Bytes) :
    atEnd { type := ty, data := pre, position := pre.length } = true := by
  simp [atEnd]

mutual
theorem walk_frame (t : Tree) (hw : t.wf) (hs : t.small) (extra : Bytes) (fuel : Nat)
    (hf : t.size ≤ fuel) :
    walk fuel (be32 t.typeOf ++ le32 t.body.length ++ t.body ++ extra) = .ok t := by
  cases fuel with
  | zero => cases t <;> simp [Tree.size] at hf
  | succ fuel =>
    rw [walk, ofBytes_frame _ _ _ (wf_typeOf_lt t hw) (t.small_body hs)]
    cases t with
    | chunk ty p =>
      have h1 := hw.1
      simp [Tree.typeOf, Tree.body, h1]
    | list ty i cs =>
      have h1 := hw.1
      have h2 := hw.2.1
      have h3 := hw.2.2
      have hid : rdBe32 (be32 i ++ layout 4 cs) 0 = some i := by
        have := rdBe32_be32 i h2 [] (layout 4 cs); simpa using this
      have hk := walkKids_layout cs h3 hs.2 ty h1 (be32 i) fuel (by simp [Tree.size] at hf; omega)
      simp only [be32_length] at hk
      simp only [Tree.typeOf, Tree.body, h1, if_true, getId, hid, rewindPos, hk]
theorem walkKids_layout (cs : List Tree) (hw : Tree.wfL cs) (hs : smallL cs) (ty : Nat)
    (hl : isList ty = true) (pre : Bytes) (fuel : Nat) (hf : sizeL cs ≤ fuel) :
    walkKids fuel { type := ty, data := pre ++ layout pre.length cs, position := pre.length }
      = .ok cs := by
  cases fuel with
  | zero => cases cs <;> simp [sizeL] at hf
  | succ fuel =>
    cases cs with
    | nil => simp [walkKids, layout, atEnd_true_end]
    | cons c cs =>
      have hwc := hw.1
      have hwcs := hw.2
      have hsc := hs.1
      have hscs := hs.2
      have hfc : c.size ≤ fuel := by simp [sizeL] at hf; omega
      have hfcs : sizeL cs ≤ fuel := by simp [sizeL] at hf; omega
      rw [walkKids]
      have hne : atEnd { type := ty, data := pre ++ layout pre.length (c :: cs), position := pre.length } = false := by
        apply atEnd_false_frame
        · simp [layout]; omega
        · intro hp; simp [layout, hp]; omega
      rw [hne]
      simp only [Bool.false_eq_true, if_false]
      have hg := getChunk_frame ty hl pre c.typeOf c.body
        (layout (pre.length + pre.length % 2 + 8 + c.body.length) cs) (c.small_body hsc)
      have hdata : pre ++ layout pre.length (c :: cs)
          = pre ++ (if pre.length % 2 == 1 then [0] else []) ++ be32 c.typeOf
              ++ le32 c.body.length ++ c.body
              ++ layout (pre.length + pre.length % 2 + 8 + c.body.length) cs := by
        simp [layout]
      rw [hdata, hg]
      simp only []
      have hwalk := walk_frame c hwc hsc [] fuel hfc
      simp only [List.append_nil] at hwalk
      rw [hwalk]
      simp only []
      have hk := walkKids_layout cs hwcs hscs ty hl
        (pre ++ (if pre.length % 2 == 1 then [0] else []) ++ be32 c.typeOf
              ++ le32 c.body.length ++ c.body) fuel hfcs
      have hl2 : (pre ++ (if pre.length % 2 == 1 then [0] else []) ++ be32 c.typeOf
              ++ le32 c.body.length ++ c.body).length
            = pre.length + pre.length % 2 + 8 + c.body.length := by
        rcases Nat.mod_two_eq_zero_or_one pre.length with hp | hp <;> simp [hp] <;> omega
      rw [hl2] at hk
      rw [hk]
end

end Ctrmml.Riff

namespace Ctrmml.Riff
open Ctrmml

/-- what a successful `get_chunk` guarantees about sizes and the advanced reader -/
theorem getChunk_bounds (r : Riff) (cb : Bytes) (r' : Riff) (h : getChunk r = .ok (cb, r')) :
    r'.data = r.data ∧ r'.type = r.type ∧ r'.position ≥ r.position + 8 ∧ r'.position ≤ r.data.length ∧
    cb.length + r.position ≤ r.data.length := by
  unfold getChunk at h
  generalize hpos : (if r.position % 2 == 1 then r.position + 1 else r.position) = pos at h
  have hge : pos ≥ r.position := by rw [← hpos]; split <;> omega
  cases hl : isList r.type
  · simp [hl] at h
  · simp only [hl, Bool.not_true, Bool.false_eq_true, if_false] at h
    cases h1 : rdLe32 r.data pos with
    | none => simp [h1] at h
    | some v =>
      cases h2 : rdLe32 r.data (pos + 4) with
      | none => simp [h1, h2] at h
      | some size0 =>
        have hlong : pos + 4 + 4 ≤ r.data.length := by
          rcases Nat.lt_or_ge r.data.length (pos + 4 + 4) with hcon | hcon
          · have := rdLe32_none_of_short r.data (pos + 4) (by omega)
            rw [this] at h2; cases h2
          · exact hcon
        simp only [h1, h2] at h
        generalize hsz : (if size0 > r.data.length - (pos + 8) then r.data.length - (pos + 8) else size0) = size at h
        have hb : ¬ (pos + 8 + size > r.data.length) := by rw [← hsz]; split <;> omega
        simp only [hb, if_false, Except.ok.injEq, Prod.mk.injEq] at h
        obtain ⟨hcb, hr'⟩ := h
        subst hr'
        subst hcb
        refine ⟨rfl, rfl, ?_, ?_, ?_⟩
        · show pos + 8 + size ≥ r.position + 8; omega
        · show pos + 8 + size ≤ r.data.length; omega
        · simp only [List.length_append, List.length_take, List.length_drop, le32_length]
          omega

theorem ofBytes_bounds (b : Bytes) (r : Riff) (h : ofBytes b = .ok r) :
    r.data.length + 8 ≤ b.length ∧ r.position ≤ 4 := by
  unfold ofBytes at h
  split at h
  · cases h
  · split at h
    · rename_i t size _ _
      simp only [Except.ok.injEq] at h
      subst h
      constructor
      · simp only [List.length_take, List.length_drop]; split <;> omega
      · simp only [rewindPos]; split <;> omega
    · cases h

theorem getId_ne_oob (r : Riff) : getId r ≠ .error .oob := by
  unfold getId; split
  · split <;> simp
  · simp

theorem rdBe32_some_len (d : Bytes) (pos v : Nat) (h : rdBe32 d pos = some v) : pos + 4 ≤ d.length := by
  unfold rdBe32 at h
  split at h
  · rename_i b3 b2 b1 b0 t hd
    have : (d.drop pos).length ≥ 4 := by rw [hd]; simp
    simp at this; omega
  · cases h

theorem getId_ok_len (r : Riff) (id : Nat) (h : getId r = .ok id) : 4 ≤ r.data.length := by
  unfold getId at h
  split at h
  · cases hv : rdBe32 r.data 0 with
    | none => rw [hv] at h; cases h
    | some v => have := rdBe32_some_len r.data 0 v hv; omega
  · cases h

theorem ofBytes_ne_oob (b : Bytes) : ofBytes b ≠ .error .oob := by
  unfold ofBytes; split
  · simp
  · split <;> simp

theorem getChunk_ne_oob (r : Riff) : getChunk r ≠ .error .oob := by
  unfold getChunk
  generalize (if r.position % 2 == 1 then r.position + 1 else r.position) = pos
  cases hl : isList r.type
  · simp
  · simp only [Bool.not_true, Bool.false_eq_true, if_false]
    cases h1 : rdLe32 r.data pos with
    | none => simp
    | some v =>
      cases h2 : rdLe32 r.data (pos + 4) with
      | none => simp
      | some size0 =>
        have hlong : pos + 4 + 4 ≤ r.data.length := by
          rcases Nat.lt_or_ge r.data.length (pos + 4 + 4) with hcon | hcon
          · have := rdLe32_none_of_short r.data (pos + 4) (by omega)
            rw [this] at h2; cases h2
          · exact hcon
        simp only []
        generalize hsz : (if size0 > r.data.length - (pos + 8) then r.data.length - (pos + 8) else size0) = size
        have hb : ¬ (pos + 8 + size > r.data.length) := by rw [← hsz]; split <;> omega
        simp [hb]

/-- the walk's step budget is never exhausted: `walkTop`'s fuel `|bytes|+1` suffices for EVERY byte
string, well-formed or not -/
theorem walk_fuel_enough : ∀ fuel : Nat,
    (∀ b : Bytes, b.length + 1 ≤ fuel → walk fuel b ≠ .error .oob) ∧
    (∀ r : Riff, r.position ≤ r.data.length → r.data.length - r.position + 2 ≤ fuel → walkKids fuel r ≠ .error .oob) := by
  intro fuel
  induction fuel with
  | zero => exact ⟨fun b h => by omega, fun r _ h => by omega⟩
  | succ fuel ih =>
    obtain ⟨ihW, ihK⟩ := ih
    constructor
    · intro b hb
      rw [walk]
      cases ho : ofBytes b with
      | error e => intro h; injection h with h; subst h; exact ofBytes_ne_oob b ho
      | ok r =>
        obtain ⟨hlen, hpos⟩ := ofBytes_bounds b r ho
        simp only []
        split
        · cases hg : getId r with
          | error e => intro h; injection h with h; subst h; exact getId_ne_oob r hg
          | ok id =>
            simp only []
            by_cases hp : r.position ≤ r.data.length
            · have hk := ihK r hp (by omega)
              cases hk' : walkKids fuel r with
              | error e => intro h; injection h with h; subst h; exact hk hk'
              | ok cs => simp
            · -- the list id could not have been read from fewer than 4 bytes
              exfalso
              have := getId_ok_len r id hg
              omega
        · simp
    · intro r hp hf
      rw [walkKids]
      split
      · simp
      · cases hg : getChunk r with
        | error e => intro h; injection h with h; subst h; exact getChunk_ne_oob r hg
        | ok p =>
          obtain ⟨cb, r'⟩ := p
          obtain ⟨hd, _, hp8, hple, hcb⟩ := getChunk_bounds r cb r' hg
          simp only []
          have hw := ihW cb (by omega)
          cases hw' : walk fuel cb with
          | error e => intro h; injection h with h; subst h; exact hw hw'
          | ok c =>
            simp only []
            have hk := ihK r' (by rw [hd]; exact hple) (by rw [hd]; omega)
            cases hk' : walkKids fuel r' with
            | error e => intro h; injection h with h; subst h; exact hk hk'
            | ok cs => simp

end Ctrmml.Riff
