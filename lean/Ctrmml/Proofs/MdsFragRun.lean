/-
  C09 helper (round 4): every event list the writer emits is in the reader fragment `MdsRead.Frag`.

  `runWriter_frag`: along `while(writer.is_enabled()) writer.step_event()` the invariant `RInv`
  holds — the loop depth of the emitted list (`LP` minus `LPF`) equals `depthOf` of the player's
  stack, nothing emitted so far is a terminator, every emitted event is `okEv`, `rest_time` fits 16
  bits — so the list returned at `end_hook` (stack empty: depth 0) or after the `DMFINISH` of a drum
  routine (stack top not a loop while the hook is not silenced: stack empty, D25) is balanced and
  ends with its only terminator.  The statement does not depend on the conversion state, so no
  mutual induction is needed: `Inv.namedS` (Proofs/MdsInv) already says that every subroutine list
  of an export is the output of a `runWriter` started from `initState`.
-/
import Ctrmml.Proofs.MdsFragStack
import Ctrmml.Proofs.MdsFragHook
import Ctrmml.Proofs.MdsReadTrack
import Ctrmml.Proofs.MdsTop
namespace Ctrmml.MdsFragP
open Ctrmml Ctrmml.Mds Ctrmml.Player Ctrmml.MdsRead Ctrmml.MdsFile Tables

/-- loop depth at the end of an event list (`balanced es ↔ depth es = 0`) -/
def depth (es : List MEv) : Nat := es.foldl (fun d ev => dstep ev.type d) 0

theorem balanced_iff (es : List MEv) : balanced es = true ↔ depth es = 0 := by
  unfold balanced depth; simp

theorem depth_snoc (es : List MEv) (ev : MEv) : depth (es ++ [ev]) = dstep ev.type (depth es) := by
  unfold depth; simp [List.foldl_append]

theorem neutral_parts {x : MEv} (h : neutralEv x = true) :
    okEv x = true ∧ isTermOp x.type = false ∧ x.type ≠ mds_LP ∧ x.type ≠ mds_LPF := by
  unfold neutralEv at h
  simp only [Bool.and_eq_true, Bool.not_eq_eq_eq_not, Bool.not_true, beq_eq_false_iff_ne] at h
  exact ⟨h.1.1.1, h.1.1.2, h.1.2, h.2⟩

theorem depth_neutral : ∀ (evs es : List MEv), (∀ x ∈ evs, neutralEv x = true) → depth (es ++ evs) = depth es
  | [], es, _ => by simp
  | a :: l, es, h => by
    have e : es ++ a :: l = (es ++ [a]) ++ l := by simp
    rw [e, depth_neutral l (es ++ [a]) (fun x hx => h x (List.mem_cons_of_mem _ hx)), depth_snoc]
    obtain ⟨_, _, h1, h2⟩ := neutral_parts (h a List.mem_cons_self)
    unfold dstep; rw [if_neg h1, if_neg h2]

def BodyOK (es : List MEv) : Prop := ∀ ev ∈ es, okEv ev = true ∧ isTermOp ev.type = false

theorem bodyOK_append {a b : List MEv} (ha : BodyOK a) (hb : BodyOK b) : BodyOK (a ++ b) := by
  intro x hx
  rcases List.mem_append.mp hx with h | h
  · exact ha x h
  · exact hb x h

theorem bodyOK_neutral {evs : List MEv} (h : ∀ x ∈ evs, neutralEv x = true) : BodyOK evs :=
  fun x hx => ⟨(neutral_parts (h x hx)).1, (neutral_parts (h x hx)).2.1⟩

theorem bodyOK_single {ty a : Nat} (ha : a ≤ 65535) (ht : okTy ty = true) (hn : isTermOp ty = false) : BodyOK [⟨ty, a⟩] := by
  intro x hx
  rw [List.mem_singleton] at hx; subst hx
  exact ⟨okEv_of_okTy ha ht, hn⟩

structure RInv (song : Song) (root : List Event) (w : WState) (s : PState) : Prop where
  en : s.acc.enabled = true
  rt : w.disabled = false → w.restTime < 65536
  wf : Wf song root s.core.track s.core.stack
  live : w.disabled = false → BodyOK w.out ∧ depth w.out = depthOf s.core.stack
  dead : w.disabled = true → Frag w.out

theorem accStep_hook (lh : Bool) (a : Acc) (p : Nat) (c' : Core) (v f : Event) :
    (accStep lh a p c' (.hook v f)).2 = (c', .event v) ∧ (accStep lh a p c' (.hook v f)).1.enabled = a.enabled := by
  unfold accStep; simp only []; split <;> exact ⟨rfl, rfl⟩

theorem accStep_ret (lh : Bool) (a : Acc) (p : Nat) (c' : Core) (f : Event) :
    (accStep lh a p c' (.ret f)).2 = (c', .nothing) ∧ (accStep lh a p c' (.ret f)).1.enabled = a.enabled := by
  unfold accStep; exact ⟨rfl, rfl⟩

theorem accStep_rootEnd (a : Acc) (p : Nat) (c' : Core) (f : Event) :
    (accStep false a p c' (.rootEnd f)).2 = (c', .finish) := by
  unfold accStep; simp

/-- the writer's view of one successful `step_event` (`loop_hook()` = 0) -/
theorem stepTrace_ok {song : Song} {root : List Event} {s s' : PState} {t : Option (Option TraceItem)}
    (h : stepTrace song root false s = .ok (s', t)) :
    ∃ c' o, coreStep song root s.core = .ok (c', o) ∧ s'.core = c' ∧
      match o with
      | .hook v f => s'.acc.enabled = s.acc.enabled ∧ ∃ n1 n2, t = some (some { ev := v, on := n1, off := n2, insideLoop := insideLoop (hookStack s.core c' (.hook v f)), insideJump := insideJump (hookStack s.core c' (.hook v f)), topLoop := topIsLoop (hookStack s.core c' (.hook v f)) })
      | .ret _ => s'.acc.enabled = s.acc.enabled ∧ t = none
      | .rootEnd _ => t = some none := by
  unfold stepTrace at h
  cases hc : coreStep song root s.core with
  | error e => rw [hc] at h; cases h
  | ok p =>
    obtain ⟨c', o⟩ := p
    rw [hc] at h
    simp only [] at h
    refine ⟨c', o, rfl, ?_⟩
    cases o with
    | hook v f =>
      obtain ⟨e1, e2⟩ := accStep_hook false s.acc s.core.position c' v f
      generalize accStep false s.acc s.core.position c' (.hook v f) = r at h e1 e2
      obtain ⟨a', c'', em⟩ := r
      simp only [Prod.mk.injEq] at e1
      obtain ⟨rfl, rfl⟩ := e1
      simp only [Except.ok.injEq, Prod.mk.injEq] at h
      obtain ⟨rfl, rfl⟩ := h
      exact ⟨rfl, e2, _, _, rfl⟩
    | ret f =>
      obtain ⟨e1, e2⟩ := accStep_ret false s.acc s.core.position c' f
      generalize accStep false s.acc s.core.position c' (.ret f) = r at h e1 e2
      obtain ⟨a', c'', em⟩ := r
      simp only [Prod.mk.injEq] at e1
      obtain ⟨rfl, rfl⟩ := e1
      simp only [Except.ok.injEq, Prod.mk.injEq] at h
      obtain ⟨rfl, rfl⟩ := h
      exact ⟨rfl, e2, rfl⟩
    | rootEnd f =>
      have e1 := accStep_rootEnd s.acc s.core.position c' f
      generalize accStep false s.acc s.core.position c' (.rootEnd f) = r at h e1
      obtain ⟨a', c'', em⟩ := r
      simp only [Prod.mk.injEq] at e1
      obtain ⟨rfl, rfl⟩ := e1
      simp only [Except.ok.injEq, Prod.mk.injEq] at h
      obtain ⟨rfl, rfl⟩ := h
      exact ⟨rfl, rfl⟩

theorem frag_of_body {body : List MEv} {ty a : Nat} (hb : BodyOK body) (ha : a ≤ 65535) (ht : okTy ty = true)
    (hterm : isTermOp ty = true) (hd : depth body = 0) (h1 : ty ≠ mds_LP) (h2 : ty ≠ mds_LPF) : Frag (body ++ [⟨ty, a⟩]) := by
  refine ⟨body, ⟨ty, a⟩, rfl, hb, ⟨okEv_of_okTy ha ht, hterm⟩, ?_⟩
  rw [balanced_iff, depth_snoc, hd]
  unfold dstep; rw [if_neg h1, if_neg h2]

theorem hookStack_noDrum {song : Song} {root : List Event} {c c' : Core} {o : Out}
    (h1 : Wf song root c.track c.stack) (h2 : Wf song root c'.track c'.stack) : ∀ f ∈ hookStack c c' o, f.type ≠ .drum := by
  unfold hookStack
  cases o with
  | hook v f => simp only []; split; exact wf_noDrum h1; exact wf_noDrum h2
  | ret f => exact wf_noDrum h2
  | rootEnd f => exact wf_noDrum h2

/-- **the writer's output is in the fragment** — for any conversion state, budget and start state
satisfying `RInv` -/
theorem runWriter_frag {song : Song} {d : DataInfo} (hpf : platformFrag d = true) (root : List Event) :
    ∀ (steps fuel : Nat) (c : Conv) (w : WState) (s : PState) (c' : Conv) (w' : WState),
      RInv song root w s → runWriter song d root fuel steps c w s = .ok (c', w') → Frag w'.out := by
  intro steps
  induction steps with
  | zero => intro fuel c w s c' w' _ h; cases fuel <;> (simp only [runWriter] at h; cases h)
  | succ k ih =>
    intro fuel c w s c' w' inv h
    cases fuel with
    | zero => simp only [runWriter] at h; cases h
    | succ n =>
    simp only [runWriter] at h
    split at h
    · rename_i hstop
      simp only [Except.ok.injEq, Prod.mk.injEq] at h
      obtain ⟨rfl, rfl⟩ := h
      apply inv.dead
      rcases hstop with h1 | h1
      · rw [inv.en] at h1; cases h1
      · exact h1
    · rename_i hgo
      have hdis : w.disabled = false := by
        cases hx : w.disabled
        · rfl
        · exact absurd (Or.inr hx) hgo
      obtain ⟨hbody, hdep⟩ := inv.live hdis
      cases hst : stepTrace song root false s with
      | error p =>
        rw [hst] at h
        obtain ⟨e, ho⟩ := p
        cases ho with
        | none => simp at h
        | some it =>
          simp only at h
          cases hh : Mds.hook song d n c w it with
          | error x => rw [hh] at h; simp only at h; split at h <;> cases h
          | ok r => rw [hh] at h; cases h
      | ok p =>
        rw [hst] at h
        obtain ⟨s1, t⟩ := p
        obtain ⟨c1, o, hcore, hs1, hview⟩ := stepTrace_ok hst
        subst hs1
        obtain ⟨hwf1, hrel⟩ := coreStep_depth song root s.core inv.wf hcore
        cases o with
        | ret f =>
          try simp only [] at hview
          obtain ⟨hen, rfl⟩ := hview
          try simp only [] at h
          refine ih (n + 1) c w s1 c' w' ⟨by rw [hen]; exact inv.en, fun _ => inv.rt hdis, hwf1, fun _ => ⟨hbody, ?_⟩, fun hx => by rw [hdis] at hx; cases hx⟩ h
          rw [hdep]; exact (hrel : depthOf s1.core.stack = depthOf s.core.stack).symm
        | rootEnd f =>
          try simp only [] at hview
          subst hview
          simp only [Except.ok.injEq, Prod.mk.injEq] at h
          obtain ⟨rfl, rfl⟩ := h
          have hempty : s.core.stack = [] := (hrel : s.core.stack = [] ∧ s1.core.stack = []).1
          have hd0 : depth w.out = 0 := by rw [hdep, hempty]; rfl
          obtain ⟨pre, hpre, hn, _, _, _⟩ := flushRest_frag w (inv.rt hdis)
          have hb2 : BodyOK (w.out ++ pre) := bodyOK_append hbody (bodyOK_neutral hn)
          have hd2 : depth (w.out ++ pre) = 0 := by rw [depth_neutral _ _ hn, hd0]
          split
          · show Frag ((flushRest w).out ++ [⟨mds_JUMP % 256, u16 0⟩])
            rw [hpre]
            exact frag_of_body hb2 (u16_le _) (by decide) (by decide) hd2 (by decide) (by decide)
          · show Frag ((flushRest w).out ++ [⟨mds_FINISH % 256, u16 0⟩])
            rw [hpre]
            exact frag_of_body hb2 (u16_le _) (by decide) (by decide) hd2 (by decide) (by decide)
        | hook v f =>
          try simp only [] at hview
          obtain ⟨hen, n1, n2, rfl⟩ := hview
          try simp only [] at h
          obtain ⟨st, hstk⟩ : ∃ st, st = hookStack s.core s1.core (.hook v f) := ⟨_, rfl⟩
          rw [← hstk] at h
          have hrel' : (allQ st = false → depthOf s1.core.stack = depthOf s.core.stack) ∧
              (allQ st = true →
                (v.type = ev_LOOP_START → depthOf s1.core.stack = depthOf s.core.stack + 1) ∧
                (v.type = ev_LOOP_END → depthOf s1.core.stack + 1 = depthOf s.core.stack) ∧
                (v.type ≠ ev_LOOP_START → v.type ≠ ev_LOOP_END →
                  depthOf s1.core.stack = depthOf s.core.stack ∧ (topIsLoop st = false → depthOf s1.core.stack = 0))) := by
            rw [hstk]; exact hrel
          have hnd : ∀ g ∈ st, g.type ≠ .drum := by
            rw [hstk]; exact hookStack_noDrum inv.wf hwf1
          have hquiet := quiet_iff hnd
          cases hh : Mds.hook song d n c w { ev := v, on := n1, off := n2, insideLoop := insideLoop st, insideJump := insideJump st, topLoop := topIsLoop st } with
          | error x => rw [hh] at h; simp only at h; split at h <;> cases h
          | ok r =>
            rw [hh] at h
            obtain ⟨c2, w2⟩ := r
            try simp only [] at h
            have hen1 : s1.acc.enabled = true := by rw [hen]; exact inv.en
            refine ih (n + 1) c2 w2 s1 c' w' ?_ h
            cases hook_frag hpf (inv.rt hdis) hdis hh with
            | silent hq hw =>
              subst hw
              have hnq : allQ st = false := by
                cases hx : allQ st
                · rfl
                · obtain ⟨a1, a2⟩ := hquiet.mpr hx
                  simp only [] at hq
                  rcases hq with hq | hq
                  · rw [a1] at hq; cases hq
                  · rw [a2] at hq; cases hq
              exact ⟨hen1, fun _ => inv.rt hdis, hwf1, fun _ => ⟨hbody, by rw [hdep]; exact (hrel'.1 hnq).symm⟩,
                fun hx => by rw [hdis] at hx; cases hx⟩
            | neutral evs q1 q2 s1' s2' hout hn hd2 hr2 _ =>
              have hq : allQ st = true := hquiet.mp ⟨q1, q2⟩
              obtain ⟨_, _, h3⟩ := hrel'.2 hq
              refine ⟨hen1, fun _ => hr2, hwf1, fun _ => ⟨?_, ?_⟩, fun hx => by rw [hd2] at hx; cases hx⟩
              · rw [hout]; exact bodyOK_append hbody (bodyOK_neutral hn)
              · rw [hout, depth_neutral _ _ hn, hdep]; exact (h3 s1' s2').1.symm
            | lp pre a q1 q2 ty hout ha hn hd2 hr2 _ =>
              have hq : allQ st = true := hquiet.mp ⟨q1, q2⟩
              obtain ⟨h1, _, _⟩ := hrel'.2 hq
              refine ⟨hen1, fun _ => hr2, hwf1, fun _ => ⟨?_, ?_⟩, fun hx => by rw [hd2] at hx; cases hx⟩
              · rw [hout]
                exact bodyOK_append (bodyOK_append hbody (bodyOK_neutral hn)) (bodyOK_single ha (by decide) (by decide))
              · rw [hout, depth_snoc, depth_neutral _ _ hn, hdep, h1 ty]; rfl
            | lpf pre a q1 q2 ty hout ha hn hd2 hr2 _ =>
              have hq : allQ st = true := hquiet.mp ⟨q1, q2⟩
              obtain ⟨_, h2, _⟩ := hrel'.2 hq
              refine ⟨hen1, fun _ => hr2, hwf1, fun _ => ⟨?_, ?_⟩, fun hx => by rw [hd2] at hx; cases hx⟩
              · rw [hout]
                exact bodyOK_append (bodyOK_append hbody (bodyOK_neutral hn)) (bodyOK_single ha (by decide) (by decide))
              · rw [hout, depth_snoc, depth_neutral _ _ hn, hdep, ← h2 ty]
                show (if mds_LPF = mds_LP then _ else if mds_LPF = mds_LPF then depthOf s1.core.stack + 1 - 1 else _) = _
                rw [if_neg (by decide), if_pos rfl]; omega
            | dmfinish pre a q1 q2 s1' s2' htop hout ha hn hd2 =>
              have hq : allQ st = true := hquiet.mp ⟨q1, q2⟩
              obtain ⟨_, _, h3⟩ := hrel'.2 hq
              obtain ⟨e1, e2⟩ := h3 s1' s2'
              refine ⟨hen1, (fun hx => by rw [hd2] at hx; cases hx), hwf1, (fun hx => by rw [hd2] at hx; cases hx), fun _ => ?_⟩
              · rw [hout]
                refine frag_of_body (bodyOK_append hbody (bodyOK_neutral hn)) ha (by decide) (by decide) ?_ (by decide) (by decide)
                rw [depth_neutral _ _ hn, hdep, ← e1]; exact e2 htop

theorem rinv_init (song : Song) (root : List Event) (en inDrum : Bool) (t : Int) :
    RInv song root { drumEnabled := en, inDrum := inDrum, trackId := t } initState :=
  ⟨rfl, fun _ => (by show 0 < 65536; omega), trivial, fun _ => ⟨fun x hx => (by cases hx), rfl⟩, fun hx => (by cases hx)⟩

theorem subNamed_frag {song : Song} {d : DataInfo} (hpf : platformFrag d = true) {key : Int} {l : List MEv}
    (h : SubNamed song d key l) : Frag l := by
  obtain ⟨t, a, b, tevs, n, steps, c0, c1, w, _, _, hr, rfl⟩ := h
  exact runWriter_frag hpf tevs steps n c0 _ initState c1 w (rinv_init song tevs b a t) hr

theorem parseTracks_frag {song : Song} {d : DataInfo} (hpf : platformFrag d = true) :
    ∀ (ids : List Nat) (c : Conv) (tl : List (Nat × List MEv)) (c' : Conv) (tl' : List (Nat × List MEv)),
      parseTracks song d ids c tl = .ok (c', tl') → (∀ p ∈ tl, Frag p.2) → ∀ p ∈ tl', Frag p.2
  | [], c, tl, c', tl', h, htl => by
    simp only [parseTracks, Except.ok.injEq, Prod.mk.injEq] at h
    obtain ⟨rfl, rfl⟩ := h
    exact htl
  | id :: ids, c, tl, c', tl', h, htl => by
    simp only [parseTracks] at h
    cases htr : song.track? id with
    | none =>
      rw [htr] at h
      exact parseTracks_frag hpf ids c tl c' tl' h htl
    | some evs =>
      rw [htr] at h
      simp only at h
      cases hr : runWriter song d evs 64 20000000 c { drumEnabled := false, inDrum := false, trackId := (id : Int) } initState with
      | error x => rw [hr] at h; cases h
      | ok r =>
        rw [hr] at h
        obtain ⟨c1, w⟩ := r
        simp only at h
        refine parseTracks_frag hpf ids c1 _ c' tl' h ?_
        intro p hp
        rcases List.mem_append.mp hp with hp | hp
        · exact htl p hp
        · rw [List.mem_singleton] at hp; subst hp
          exact runWriter_frag hpf evs 20000000 64 c _ initState c1 w (rinv_init song evs false false id) hr

/-- every channel-track and subroutine event list of an export is in the reader fragment -/
theorem construct_frag {song : Song} {d : DataInfo} (hpc : PlatformClean d) (hpf : platformFrag d = true)
    {vol : Option String} {b : Built} (h : construct song d vol = .ok b) :
    ∀ l ∈ b.trackList.map (·.2) ++ b.conv.subList, Frag l := by
  obtain ⟨hinv, _, _⟩ := construct_inv hpc h
  intro l hl
  rcases List.mem_append.mp hl with hl | hl
  · unfold construct at h
    cases hp : parseTracks song d (channelIds song) {} [] with
    | error x => rw [hp] at h; cases h
    | ok r =>
      rw [hp] at h
      obtain ⟨c, tl⟩ := r
      simp only at h
      obtain ⟨_, _, _, _, _, _, _, hc, ht, _⟩ := assemble_ok h
      obtain ⟨p, hp1, rfl⟩ := List.mem_map.mp hl
      rw [ht] at hp1
      exact parseTracks_frag hpf _ _ _ _ _ hp (fun q hq => by cases hq) p hp1
  · obtain ⟨k, hk, rfl⟩ := List.getElem_of_mem hl
    have hk' : k < b.conv.subMap.length := by rw [hinv.maps.subLen]; exact hk
    obtain ⟨key, hmem⟩ := exists_key_of_lt hinv.maps.sub hk'
    obtain ⟨evs, he, hnamed⟩ := hinv.namedS (key, k) hmem (by simp)
    have : evs = b.conv.subList[k] := by
      simp only [List.getElem?_eq_getElem hk, Option.some.injEq] at he
      exact he.symm
    rw [← this]
    exact subNamed_frag hpf hnamed

end Ctrmml.MdsFragP
