/-
  C09 helper (round 4): the 4 GiB format bound of the RIFF container (`Tree.small`, needed by C13's
  walk/serialise round trip) follows from an explicit, decidable bound on the sizes of the inputs
  of `get_mds`: `#group` value + `seq ` + PCM block + the data-bank items the song uses.
-/
import Ctrmml.Proofs.MdsFile
import Ctrmml.Spec.MdsFrag
namespace Ctrmml.MdsFile
open Ctrmml Ctrmml.Mds Tables

/-- bytes a list of children adds to a list node at most: header 8, pad 1, body -/
def sumBody : List Riff.Tree → Nat
  | [] => 0
  | c :: cs => 9 + c.body.length + sumBody cs

theorem layout_length_le : ∀ (cs : List Riff.Tree) (n : Nat), (Riff.layout n cs).length ≤ sumBody cs
  | [], n => by simp [Riff.layout, sumBody]
  | c :: cs, n => by
    have ih := layout_length_le cs (n + n % 2 + 8 + c.body.length)
    rw [Riff.layout]
    simp only [List.length_append, be32_length, le32_length, sumBody]
    split <;> simp <;> omega

theorem entryTrees_sum (nS nM : Nat) (bank : List (List Nat)) :
    ∀ (l : List (Nat × Nat)) (ts : List Riff.Tree), entryTrees nS nM bank l = some ts →
      sumBody ts = usedBytes bank l ∧ (usedBytes bank l < 4294967296 → Riff.smallL ts)
  | [], ts, h => by
    simp only [entryTrees, Option.some.injEq] at h
    subst h
    exact ⟨rfl, fun _ => by simp [Riff.smallL]⟩
  | (mapped, envId) :: rest, ts, h => by
    simp only [entryTrees] at h
    cases hb : bank[mapped % (mdsFile_bankMask + 1)]? with
    | none => rw [hb] at h; cases h
    | some dat =>
      rw [hb] at h
      cases hr : entryTrees nS nM bank rest with
      | none => rw [hr] at h; cases h
      | some ts' =>
        rw [hr] at h
        simp only [Option.map_some, Option.some.injEq] at h
        subst h
        obtain ⟨i1, i2⟩ := entryTrees_sum nS nM bank rest ts' hr
        have hbody : (entryTree nS nM mapped envId dat).body.length = 4 + dat.length := by
          simp [entryTree, Riff.Tree.body, toU8]
        refine ⟨?_, fun hlt => ?_⟩
        · simp only [sumBody, usedBytes, hb, Option.getD_some, hbody, i1]; omega
        · simp only [usedBytes, hb, Option.getD_some] at hlt
          simp only [Riff.smallL]
          refine ⟨?_, i2 (by omega)⟩
          have : (entryTree nS nM mapped envId dat).small ↔ (entryTree nS nM mapped envId dat).body.length < 4294967296 := by
            simp [entryTree, Riff.Tree.small, Riff.Tree.body]
          rw [this, hbody]; omega

/-- **the 4 GiB bound from the input sizes** -/
theorem small_of_exportSmall {b : Built} {bank : List (List Nat)} {group pcm : Bytes}
    (h : exportSmall b bank group pcm = true) :
    ∀ ts, entryTrees b.conv.subList.length b.conv.macroList.length bank (usedSorted b.conv) = some ts →
      (mdsTree (toU8 b.seq) group pcm ts).small := by
  intro ts hts
  unfold exportSmall sizeBound at h
  simp only [decide_eq_true_eq] at h
  obtain ⟨hsum, hsm⟩ := entryTrees_sum _ _ _ _ _ hts
  have hl := layout_length_le ts 4
  have hseq : (toU8 b.seq).length = b.seq.length := by simp [toU8]
  have hdb : (Riff.Tree.list Riff.TYPE_LIST mdsFile_dblk ts).body.length ≤ 4 + usedBytes bank (usedSorted b.conv) := by
    simp only [Riff.Tree.body, List.length_append, be32_length]; omega
  have hout := layout_length_le [.chunk mdsFile_ver (toU8 [MDSDRV_SEQ_VERSION_MAJOR, MDSDRV_SEQ_VERSION_MINOR]), .chunk mdsFile_grp group,
     .chunk mdsFile_seq (toU8 b.seq), .list Riff.TYPE_LIST mdsFile_dblk ts, .chunk mdsFile_pcmd pcm] 4
  simp only [sumBody] at hout
  have hver : (Riff.Tree.chunk mdsFile_ver (toU8 [MDSDRV_SEQ_VERSION_MAJOR, MDSDRV_SEQ_VERSION_MINOR])).body.length = 2 := rfl
  have hg : (Riff.Tree.chunk mdsFile_grp group).body.length = group.length := rfl
  have hs : (Riff.Tree.chunk mdsFile_seq (toU8 b.seq)).body.length = b.seq.length := hseq
  have hp : (Riff.Tree.chunk mdsFile_pcmd pcm).body.length = pcm.length := rfl
  rw [hver, hg, hs, hp] at hout
  unfold mdsTree
  simp only [Riff.Tree.small, Riff.smallL, and_true]
  refine ⟨?_, by decide, by omega, by omega, ⟨by omega, hsm (by omega)⟩, by omega⟩
  have hb : (Riff.Tree.list Riff.TYPE_RIFF mdsFile_MDS0 [.chunk mdsFile_ver (toU8 [MDSDRV_SEQ_VERSION_MAJOR, MDSDRV_SEQ_VERSION_MINOR]),
      .chunk mdsFile_grp group, .chunk mdsFile_seq (toU8 b.seq), .list Riff.TYPE_LIST mdsFile_dblk ts, .chunk mdsFile_pcmd pcm]).body.length =
      4 + (Riff.layout 4 [.chunk mdsFile_ver (toU8 [MDSDRV_SEQ_VERSION_MAJOR, MDSDRV_SEQ_VERSION_MINOR]),
      .chunk mdsFile_grp group, .chunk mdsFile_seq (toU8 b.seq), .list Riff.TYPE_LIST mdsFile_dblk ts, .chunk mdsFile_pcmd pcm]).length := by
    rw [Riff.Tree.body]; simp only [List.length_append, be32_length]
  rw [hb]
  omega

end Ctrmml.MdsFile
