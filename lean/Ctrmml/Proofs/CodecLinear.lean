/-
  Codec round trip for event lists of the linear fragment: `encEv` on every such event keeps
  the invariant `Good` and makes the interpreter produce the event's tick string; `encAll` on a
  list of them; `convertTrack (es ++ [FINISH])` interpreted by `Seq.run`.
-/
import Ctrmml.Proofs.CodecNote
namespace Ctrmml.Codec
open Ctrmml.Mds Ctrmml.Seq Tables

/-- the operand the interpreter sees for a command event (what `convert_track` writes: data ids
are offset by the number of subroutines / macro tracks, everything is cut to its byte width) -/
def cmdArg (nS nM ty arg : Nat) : Nat :=
  if ty = mds_MTAB then (if arg ≠ 0 then (arg + nS) % 256 else 0)
  else if ty = mds_INS ∨ ty = mds_PCM then (nS + nM + arg) % 256
  else if ty = mds_PEG then (if arg ≠ 0 then (nS + nM + arg) % 256 else 0)
  else if wordArgOps.contains ty then arg % 65536
  else arg % 256

def isCmdOp (ty : Nat) : Bool :=
  (byteArgOps.contains ty && ty != mds_DMFINISH) || wordArgOps.contains ty || ty == mds_INS || ty == mds_PCM ||
  ty == mds_PEG || ty == mds_MTAB

/-- the linear fragment: rests, ties, notes of 1..65535 ticks, slur, commands with one or two
argument bytes, and the rest / tie of length 0 and the `CARRY` event (which `convert_track` drops
without a trace) -/
def linEv (ev : MEv) : Bool :=
  (ev.type == mds_REST && decide (1 ≤ ev.arg) && decide (ev.arg ≤ 65535)) ||
  (decide (mds_TIE ≤ ev.type) && decide (ev.type < mds_SLR) && decide (1 ≤ ev.arg) && decide (ev.arg ≤ 65535)) ||
  ev.type == mds_SLR ||
  isCmdOp ev.type ||
  ((ev.type == mds_REST || ev.type == mds_TIE || ev.type == mds_CARRY) && ev.arg == 0)

/-- the event can be played in mode `M` without changing it: a note byte sounds (drum flag off), is a
tie, or names a known routine (drum flag on); a `FLG` command leaves the drum flag as it is -/
def Mode.evOk (M : Mode) (ev : MEv) : Bool :=
  (!(decide (mds_TIE ≤ ev.type) && decide (ev.type < mds_SLR) && decide (1 ≤ ev.arg)) || M.okTy ev.type) &&
  (ev.type != mds_FLG || drumSafe M.dm (ev.arg % 256))

theorem Mode.plain_evOk (ev : MEv) : Mode.plain.evOk ev = (ev.type != mds_FLG || drumSafe false (ev.arg % 256)) := by
  simp [Mode.evOk]

/-- tick string of one MDSDRV event (control-flow events contribute nothing themselves) -/
def evTicks (M : Mode) (nS nM : Nat) (ev : MEv) : List Tk :=
  if ev.type = mds_REST then List.replicate ev.arg Tk.off
  else if mds_TIE ≤ ev.type ∧ ev.type < mds_SLR then M.nt ev.type ev.arg
  else if ev.type = mds_SLR then [Tk.cmd mds_SLR 0]
  else if isCmdOp ev.type then [Tk.cmd ev.type (cmdArg nS nM ev.type ev.arg)]
  else []

def ticks (M : Mode) (nS nM : Nat) (es : List MEv) : List Tk := es.flatMap (evTicks M nS nM)

theorem ticks_cons (M : Mode) (nS nM : Nat) (ev : MEv) (es : List MEv) :
    ticks M nS nM (ev :: es) = evTicks M nS nM ev ++ ticks M nS nM es := by simp [ticks]

theorem ticks_append (M : Mode) (nS nM : Nat) (a b : List MEv) :
    ticks M nS nM (a ++ b) = ticks M nS nM a ++ ticks M nS nM b := by
  simp [ticks]

/-! ### `encEv` on the event kinds -/

/-- a rest or tie of length 0 emits nothing and is not remembered -/
theorem encEv_zero (nS nM : Nat) (e : Enc) {ty : Nat} (h : (ty = mds_REST ∨ ty = mds_TIE) ∨ ty = mds_CARRY) :
    encEv nS nM e ⟨ty, 0⟩ = .ok e := by
  rcases h with (rfl | rfl) | rfl <;> rfl

theorem encEv_other {nS nM : Nat} {e e1 : Enc} {ty arg : Nat} (hge : ty ≥ mds_SLR)
    (h : encOther nS nM e ty arg = .ok e1) (hne : ¬ (ty = mds_LPB ∧ e.breaks.head?.getD 0 ≠ 0) := by intro hh; exact absurd hh.1 (by decide)) :
    encEv nS nM e ⟨ty, arg⟩ = .ok { e1 with lastType := ty } := by
  have a1 : ¬ (ty = mds_REST ∧ arg ≠ 0) := by simp [mds_REST, mds_SLR] at *; omega
  have a2 : ¬ (ty < mds_SLR ∧ arg ≠ 0) := by omega
  have a3 : (ty < mds_REST ∧ ty ≠ mds_CARRY) ∨ ty ≥ mds_SLR ∨ arg ≠ 0 := by omega
  simp only [encEv, hne, a1, a2, if_false, h, a3, if_true]

theorem encOther_slr (nS nM : Nat) (e : Enc) (arg : Nat) :
    encOther nS nM e mds_SLR arg = .ok { e with out := e.out ++ [mds_SLR] } := by
  simp [encOther, mds_SLR, mds_SEGNO]

theorem encOther_byte (nS nM : Nat) (e : Enc) {ty : Nat} (arg : Nat) (h : byteArgOps.contains ty = true) :
    encOther nS nM e ty arg = .ok { e with out := e.out ++ [ty, arg % 256] } := by
  have all : ∀ x ∈ byteArgOps, ¬ x = mds_SEGNO ∧ ¬ (x = mds_SLR ∨ x = mds_FINISH) := by decide
  obtain ⟨f1, f2⟩ := all ty (by simpa using h)
  simp only [encOther, f1, f2, if_false, h, if_true]

theorem encOther_word (nS nM : Nat) (e : Enc) {ty : Nat} (arg : Nat) (h : wordArgOps.contains ty = true) :
    encOther nS nM e ty arg = .ok { e with out := e.out ++ [ty, arg / 256 % 256, arg % 256] } := by
  have all : ∀ x ∈ wordArgOps, ¬ x = mds_SEGNO ∧ ¬ (x = mds_SLR ∨ x = mds_FINISH) ∧ byteArgOps.contains x = false ∧
      ¬ x = mds_MTAB ∧ ¬ (x = mds_INS ∨ x = mds_PCM) ∧ ¬ x = mds_PEG := by decide
  obtain ⟨f1, f2, f3, f4, f5, f6⟩ := all ty (by simpa using h)
  simp only [encOther, f1, f2, f3, f4, f5, f6, if_false, h, if_true, Bool.false_eq_true]

theorem encOther_mtab (nS nM : Nat) (e : Enc) (arg : Nat) :
    encOther nS nM e mds_MTAB arg =
      .ok { e with out := e.out ++ [mds_MTAB, if arg ≠ 0 then (arg + nS) % 256 else 0] } := by
  have f1 : ¬ mds_MTAB = mds_SEGNO := by decide
  have f2 : ¬ (mds_MTAB = mds_SLR ∨ mds_MTAB = mds_FINISH) := by decide
  have f3 : byteArgOps.contains mds_MTAB = false := by decide
  simp only [encOther, f1, f2, f3, if_false, if_true, Bool.false_eq_true]

theorem encOther_ins (nS nM : Nat) (e : Enc) {ty : Nat} (arg : Nat) (h : ty = mds_INS ∨ ty = mds_PCM) :
    encOther nS nM e ty arg = .ok { e with out := e.out ++ [ty, (nS + nM + arg) % 256] } := by
  have all : ∀ x, x = mds_INS ∨ x = mds_PCM → ¬ x = mds_SEGNO ∧ ¬ (x = mds_SLR ∨ x = mds_FINISH) ∧
      byteArgOps.contains x = false ∧ ¬ x = mds_MTAB := by
    intro x hx; rcases hx with rfl | rfl <;> decide
  obtain ⟨f1, f2, f3, f4⟩ := all ty h
  simp only [encOther, f1, f2, f3, f4, if_false, h, if_true, Bool.false_eq_true]

theorem encOther_peg (nS nM : Nat) (e : Enc) (arg : Nat) :
    encOther nS nM e mds_PEG arg =
      .ok { e with out := e.out ++ [mds_PEG, if arg ≠ 0 then (nS + nM + arg) % 256 else 0] } := by
  have f1 : ¬ mds_PEG = mds_SEGNO := by decide
  have f2 : ¬ (mds_PEG = mds_SLR ∨ mds_PEG = mds_FINISH) := by decide
  have f3 : byteArgOps.contains mds_PEG = false := by decide
  have f4 : ¬ mds_PEG = mds_MTAB := by decide
  have f5 : ¬ (mds_PEG = mds_INS ∨ mds_PEG = mds_PCM) := by decide
  simp only [encOther, f1, f2, f3, f4, f5, if_false, if_true, Bool.false_eq_true]

/-- what `encEv` does on one event: it succeeds, only appends, leaves the break stack and the
loop point alone, and — for every byte string extending the new output and every interpreter
state related to the old encoder state — the interpreter reaches a state related to the new
encoder state, having produced `T` -/
def EvOk (M : Mode) (nS nM : Nat) (e : Enc) (ev : MEv) (T : List Tk) : Prop :=
  ∃ e', encEv nS nM e ev = .ok e' ∧ e.out <+: e'.out ∧ e'.breaks = e.breaks ∧ e'.segnoPos = e.segnoPos ∧
    ∀ (seq : List Nat) (base mj : Nat) (s : St) (O : List Tk), M.Sound seq base mj → e'.out <+: seq → Good M e s O →
      ∃ s1, Reach seq base mj s s1 ∧ Frame s s1 ∧ Good M e' s1 (T.reverse ++ O)

theorem evOk_cmd1 {M : Mode} {nS nM : Nat} {e : Enc} {ty arg a : Nat} (hge : ty ≥ mds_SLR)
    (h : encOther nS nM e ty arg = .ok { e with out := e.out ++ [ty, a] })
    (hop : oneArgOps.contains ty = true) (hf : ty = mds_FLG → drumSafe M.dm a = true) :
    EvOk M nS nM e ⟨ty, arg⟩ [Tk.cmd ty a] := by
  refine ⟨_, encEv_other hge h (by rintro ⟨h, _⟩; subst h; exact absurd hop (by decide)), List.prefix_append _ _, rfl, rfl, ?_⟩
  intro seq base mj s O hS hp g
  exact cmd1_good hS g hop hf rfl rfl rfl hge hp

theorem evOk_cmd2 {M : Mode} {nS nM : Nat} {e : Enc} {ty arg hi lo : Nat} (hge : ty ≥ mds_SLR)
    (h : encOther nS nM e ty arg = .ok { e with out := e.out ++ [ty, hi, lo] })
    (hop : twoArgOps.contains ty = true) :
    EvOk M nS nM e ⟨ty, arg⟩ [Tk.cmd ty (hi * 256 + lo)] := by
  refine ⟨_, encEv_other hge h (by rintro ⟨h, _⟩; subst h; exact absurd hop (by decide)), List.prefix_append _ _, rfl, rfl, ?_⟩
  intro seq base mj s O hS hp g
  exact cmd2_good hS g hop rfl rfl rfl hge hp

/-- **one event of the linear fragment** -/
theorem encEv_lin (M : Mode) (nS nM : Nat) (e : Enc) (ev : MEv) (hv : linEv ev = true) (hm : M.evOk ev = true) :
    EvOk M nS nM e ev (evTicks M nS nM ev) := by
  obtain ⟨ty, arg⟩ := ev
  simp only [linEv, Bool.or_eq_true, Bool.and_eq_true, beq_iff_eq, decide_eq_true_eq] at hv
  simp only [Mode.evOk, Bool.and_eq_true, Bool.or_eq_true, Bool.not_eq_true', bne_iff_ne, ne_eq,
    Bool.and_eq_false_iff, decide_eq_false_iff_not] at hm
  obtain ⟨hmn, hflg⟩ := hm
  rcases hv with (((⟨⟨hty, h1⟩, h2⟩ | ⟨⟨⟨h1, h2⟩, h3⟩, h4⟩) | hslr) | hcmd) | ⟨hz, ha⟩
  rotate_right
  · -- length 0
    subst ha
    have hev : evTicks M nS nM ⟨ty, 0⟩ = [] := by
      rcases hz with (rfl | rfl) | rfl <;>
        simp +decide [evTicks, Mode.nt, noteTicks, mds_REST, mds_TIE, mds_SLR, mds_NOTE, mds_CARRY, isCmdOp]
    rw [hev]
    exact ⟨e, encEv_zero nS nM e hz, List.prefix_refl _, rfl, rfl,
      fun _ _ _ s O _ _ g => ⟨s, .refl _, Frame.rfl' _, by simpa using g⟩⟩
  · -- rest
    subst hty
    have hev : evTicks M nS nM ⟨mds_REST, arg⟩ = List.replicate arg Tk.off := by simp [evTicks]
    rw [hev]
    obtain ⟨e1, he1⟩ := encRest_ok e arg
    obtain ⟨p1, p2, p3⟩ := encRest_frame he1
    have a1 : arg ≠ 0 := by omega
    have henc : encEv nS nM e ⟨mds_REST, arg⟩ = .ok { e1 with lastType := mds_REST } := by
      have a9 : ¬ (mds_REST = mds_LPB) := by decide
      simp [encEv, a1, he1, a9]
    refine ⟨_, henc, p1, p2, p3, ?_⟩
    intro seq base mj s O hS hp g
    obtain ⟨s1, r1, f1, i1⟩ := encRest_good (base := base) (mj := mj) hS g h1 h2 he1 hp
    refine ⟨s1, r1, f1, ?_⟩
    have i2 : Idle M { e1 with lastType := mds_REST } s1 (List.replicate arg Tk.off ++ O) := i1.congr rfl rfl rfl
    simpa using i2.good (by simp [needLenB, noteish, mds_REST, mds_TIE])
  · -- note / tie
    have hev : evTicks M nS nM ⟨ty, arg⟩ = M.nt ty arg := by
      have : ¬ ty = mds_REST := by simp [mds_REST, mds_TIE] at *; omega
      simp [evTicks, this, h1, h2]
    rw [hev]
    have a1 : ¬ (ty = mds_REST ∧ arg ≠ 0) := by simp [mds_REST, mds_TIE] at *; omega
    have a2 : arg ≠ 0 := by omega
    have a3 : (ty < mds_REST ∧ ty ≠ mds_CARRY) ∨ ty ≥ mds_SLR ∨ arg ≠ 0 := by omega
    have henc : encEv nS nM e ⟨ty, arg⟩ = .ok { encNote e ty arg with lastType := ty } := by
      have a0 : ¬ ty = mds_REST := by simp [mds_REST, mds_TIE] at *; omega
      have a9 : ¬ ty = mds_LPB := by simp [mds_LPB, mds_SLR] at *; omega
      simp only [encEv, a9, a0, a2, h2, if_false, if_true, and_self, ne_eq, not_false_eq_true, false_and, or_true]
    obtain ⟨p1, p2, p3⟩ := encNote_frame e ty arg
    refine ⟨_, henc, (List.prefix_append _ _).trans p1, p2, p3, ?_⟩
    intro seq base mj s O hS hp g
    have hok : M.okTy ty = true := by
      rcases hmn with ((x | x) | x) | x
      · exact absurd h1 x
      · exact absurd h2 x
      · exact absurd h3 x
      · exact x
    exact encNote_good hS g h1 h2 hok h3 h4 hp
  · -- slur
    subst hslr
    have hev : evTicks M nS nM ⟨mds_SLR, arg⟩ = [Tk.cmd mds_SLR 0] := by simp [evTicks, mds_SLR, mds_REST, mds_TIE]
    rw [hev]
    refine ⟨_, encEv_other (Nat.le_refl _) (encOther_slr nS nM e arg), List.prefix_append _ _, rfl, rfl, ?_⟩
    intro seq base mj s O hS hp g
    exact slr_good hS g rfl rfl rfl (by simp [mds_SLR]) hp
  · -- commands
    simp only [isCmdOp, Bool.or_eq_true, Bool.and_eq_true, beq_iff_eq, bne_iff_ne] at hcmd
    rcases hcmd with ((((⟨hb, hdm⟩ | hw) | hins) | hpcm) | hpeg) | hmtab
    · have all : ∀ x ∈ byteArgOps, x ≠ mds_DMFINISH → x ≥ mds_SLR ∧ oneArgOps.contains x = true ∧ ¬ x = mds_REST ∧
          ¬ (mds_TIE ≤ x ∧ x < mds_SLR) ∧ ¬ x = mds_SLR ∧ isCmdOp x = true ∧ ¬ x = mds_MTAB ∧
          ¬ (x = mds_INS ∨ x = mds_PCM) ∧ ¬ x = mds_PEG ∧ wordArgOps.contains x = false := by decide
      obtain ⟨f1, f2, f3, f4, f5, f6, f7, f8, f9, f10⟩ := all ty (by simpa using hb) hdm
      have hev : evTicks M nS nM ⟨ty, arg⟩ = [Tk.cmd ty (arg % 256)] := by
        simp only [evTicks, cmdArg, f3, f4, f5, f6, f7, f8, f9, f10, if_false, if_true, Bool.false_eq_true]
      rw [hev]
      refine evOk_cmd1 f1 (encOther_byte nS nM e arg hb) f2 ?_
      intro hf; rcases hflg with h | h
      · exact absurd hf h
      · exact h
    · have all : ∀ x ∈ wordArgOps, x ≥ mds_SLR ∧ twoArgOps.contains x = true ∧ ¬ x = mds_REST ∧
          ¬ (mds_TIE ≤ x ∧ x < mds_SLR) ∧ ¬ x = mds_SLR ∧ isCmdOp x = true ∧ ¬ x = mds_MTAB ∧
          ¬ (x = mds_INS ∨ x = mds_PCM) ∧ ¬ x = mds_PEG := by decide
      obtain ⟨f1, f2, f3, f4, f5, f6, f7, f8, f9⟩ := all ty (by simpa using hw)
      have hev : evTicks M nS nM ⟨ty, arg⟩ = [Tk.cmd ty (arg / 256 % 256 * 256 + arg % 256)] := by
        have : arg % 65536 = arg / 256 % 256 * 256 + arg % 256 := by omega
        simp only [evTicks, cmdArg, f3, f4, f5, f6, f7, f8, f9, hw, if_false, if_true, this]
      rw [hev]
      exact evOk_cmd2 f1 (encOther_word nS nM e arg hw) f2
    · subst hins
      have hev : evTicks M nS nM ⟨mds_INS, arg⟩ = [Tk.cmd mds_INS ((nS + nM + arg) % 256)] := by
        simp [evTicks, cmdArg, isCmdOp, mds_INS, mds_REST, mds_TIE, mds_SLR, mds_MTAB]
      rw [hev]
      exact evOk_cmd1 (by decide) (encOther_ins nS nM e arg (.inl rfl)) (by decide) (fun h => absurd h (by decide))
    · subst hpcm
      have hev : evTicks M nS nM ⟨mds_PCM, arg⟩ = [Tk.cmd mds_PCM ((nS + nM + arg) % 256)] := by
        simp [evTicks, cmdArg, isCmdOp, mds_INS, mds_PCM, mds_REST, mds_TIE, mds_SLR, mds_MTAB]
      rw [hev]
      exact evOk_cmd1 (by decide) (encOther_ins nS nM e arg (.inr rfl)) (by decide) (fun h => absurd h (by decide))
    · subst hpeg
      have hev : evTicks M nS nM ⟨mds_PEG, arg⟩ =
          [Tk.cmd mds_PEG (if arg ≠ 0 then (nS + nM + arg) % 256 else 0)] := by
        simp [evTicks, cmdArg, isCmdOp, mds_INS, mds_PCM, mds_PEG, mds_REST, mds_TIE, mds_SLR, mds_MTAB]
      rw [hev]
      exact evOk_cmd1 (by decide) (encOther_peg nS nM e arg) (by decide) (fun h => absurd h (by decide))
    · subst hmtab
      have hev : evTicks M nS nM ⟨mds_MTAB, arg⟩ =
          [Tk.cmd mds_MTAB (if arg ≠ 0 then (arg + nS) % 256 else 0)] := by
        simp [evTicks, cmdArg, isCmdOp, mds_REST, mds_TIE, mds_SLR, mds_MTAB]
      rw [hev]
      exact evOk_cmd1 (by decide) (encOther_mtab nS nM e arg) (by decide) (fun h => absurd h (by decide))

/-- every event fits some mode -/
theorem exists_mode_evOk (ev : MEv) : ∃ M : Mode, M.evOk ev = true := by
  by_cases h : ev.type = mds_FLG
  · refine ⟨⟨decide (ev.arg % 256 &&& 8 ≠ 0), fun _ => none⟩, ?_⟩
    simp [Mode.evOk, drumSafe, h, mds_FLG, mds_SLR]
  · exact ⟨Mode.plain, by simp [Mode.evOk, h]⟩

/-- the encoder side of `encEv_lin`, which does not depend on the mode -/
theorem encEv_lin_total (nS nM : Nat) (e : Enc) (ev : MEv) (hv : linEv ev = true) :
    ∃ e', encEv nS nM e ev = .ok e' ∧ e.out <+: e'.out ∧ e'.breaks = e.breaks ∧ e'.segnoPos = e.segnoPos := by
  obtain ⟨M, hm⟩ := exists_mode_evOk ev
  obtain ⟨e', a, b, c, d, _⟩ := encEv_lin M nS nM e ev hv hm
  exact ⟨e', a, b, c, d⟩

end Ctrmml.Codec
