/-
  Helper lemmas for C12: the state components of `play_tick` / `skip_ticks`, independence of
  the skip flag, and `skip n = play_tick^n` from any settled state.
-/
import Ctrmml.Model.PlayerCh
namespace Ctrmml.PlayerCh
open Ctrmml Player

section
variable (song : Song) (root : List Event) (pd : Int → Bool)

theorem pstep_state (skip skip' : Bool) (s : PS) :
    (pstep song root pd skip s).1 = (pstep song root pd skip' s).1 := by
  unfold pstep
  split
  · rfl
  · split
    · rfl
    · rename_i bs em _
      cases em with
      | nothing => rfl
      | finish => rfl
      | event v =>
        simp only []
        cases h : handleEvent song pd { s with core := bs.core, acc := bs.acc } v with
        | mk s2 v' =>
          have hif : ∀ (c : Prop) [Decidable c] (x y : List Event),
              (if c then (s2, x) else (s2, y)).1 = s2 := by
            intro c _ x y; split <;> try rfl
          simp only [hif]

theorem settleO_state (skip skip' : Bool) : ∀ (fuel : Nat) (s : PS),
    (settleO song root pd skip fuel s).1 = (settleO song root pd skip' fuel s).1
  | 0, s => by simp only [settleO]
  | fuel + 1, s => by
    simp only [settleO]
    split
    · rfl
    · have h1 := pstep_state song root pd skip skip' s
      cases hp : pstep song root pd skip s with
      | mk s1 w =>
        cases hp' : pstep song root pd skip' s with
        | mk s1' w' =>
          rw [hp, hp'] at h1
          simp only [] at h1
          subst h1
          have ih := settleO_state skip skip' fuel s1
          cases hq : settleO song root pd skip fuel s1 with
          | mk s2 w2 =>
            cases hq' : settleO song root pd skip' fuel s1 with
            | mk s2' w2' =>
              rw [hq, hq'] at ih
              simpa using ih

theorem settleO_settled (skip : Bool) : ∀ (fuel : Nat) (s : PS),
    isSettled (settleO song root pd skip fuel s).1 = true
  | 0, s => by
    simp only [settleO]
    split
    · assumption
    · simp [isSettled]
  | fuel + 1, s => by
    simp only [settleO]
    split
    · assumption
    · cases hp : pstep song root pd skip s with
      | mk s1 w =>
        have ih := settleO_settled skip fuel s1
        cases hq : settleO song root pd skip fuel s1 with
        | mk s2 w2 => rw [hq] at ih; simpa using ih

theorem settleO_fix (skip : Bool) (fuel : Nat) (s : PS) (h : isSettled s = true) :
    settleO song root pd skip fuel s = (s, []) := by
  cases fuel <;> simp [settleO, h]

theorem settle_settled (s : PS) : isSettled (settle song root pd s) = true :=
  settleO_settled song root pd false settleFuel s

theorem settle_fix (s : PS) (h : isSettled s = true) : settle song root pd s = s := by
  simp [settle, settleO_fix song root pd false settleFuel s h]

/-- state part of `play_tick` -/
def playTickS (s : PS) : PS :=
  if s.err.isSome then s else
  settle song root pd
    (if s.acc.onTime > 0 then
      { s with acc := { s.acc with onTime := s.acc.onTime - 1, playTime := s.acc.playTime + 1 } }
    else if s.acc.offTime > 0 then
      { s with acc := { s.acc with offTime := s.acc.offTime - 1, playTime := s.acc.playTime + 1 } }
    else s)

theorem playTick_eq (s : PS) : playTick song root pd s = playTickS song root pd s := by
  unfold playTick playTickO playTickS
  split
  · rfl
  · simp only [settle]
    split
    · cases h : settleO song root pd false settleFuel _ with | mk a b => rfl
    · split
      · cases h : settleO song root pd false settleFuel _ with | mk a b => rfl
      · cases h : settleO song root pd false settleFuel _ with | mk a b => rfl

/-- state part of the loop of `skip_ticks` -/
def skipLoopS : Nat → Nat → PS → PS
  | 0, ticks, s => { s with acc := { s.acc with playTime := s.acc.playTime + ticks } }
  | fuel + 1, ticks, s =>
    if s.err.isSome then s else
    if ticks = 0 ∨ s.acc.enabled = false then
      { s with acc := { s.acc with playTime := s.acc.playTime + ticks } }
    else if s.acc.onTime > 0 then
      if s.acc.onTime > ticks then
        { s with acc := { s.acc with onTime := s.acc.onTime - ticks, playTime := s.acc.playTime + ticks } }
      else
        skipLoopS fuel (ticks - s.acc.onTime)
          (settle song root pd { s with acc := { s.acc with onTime := 0, playTime := s.acc.playTime + s.acc.onTime } })
    else if s.acc.offTime > 0 then
      if s.acc.offTime > ticks then
        { s with acc := { s.acc with offTime := s.acc.offTime - ticks, playTime := s.acc.playTime + ticks } }
      else
        skipLoopS fuel (ticks - s.acc.offTime)
          (settle song root pd { s with acc := { s.acc with offTime := 0, playTime := s.acc.playTime + s.acc.offTime } })
    else skipLoopS fuel ticks (settle song root pd s)

theorem skipLoopO_state : ∀ (fuel ticks : Nat) (s : PS),
    (skipLoopO song root pd fuel ticks s).1 = skipLoopS song root pd fuel ticks s
  | 0, ticks, s => by simp only [skipLoopO, skipLoopS]
  | fuel + 1, ticks, s => by
    simp only [skipLoopO, skipLoopS]
    split
    · rfl
    · split
      · rfl
      · split
        · split
          · rfl
          · have hs := settleO_state song root pd (decide (ticks - s.acc.onTime ≠ 0)) false settleFuel
              { s with acc := { s.acc with onTime := 0, playTime := s.acc.playTime + s.acc.onTime } }
            cases hq : settleO song root pd (decide (ticks - s.acc.onTime ≠ 0)) settleFuel
              { s with acc := { s.acc with onTime := 0, playTime := s.acc.playTime + s.acc.onTime } } with
            | mk s2 w =>
              rw [hq] at hs
              simp only [settle, ← hs]
              have ih := skipLoopO_state fuel (ticks - s.acc.onTime) s2
              cases hr : skipLoopO song root pd fuel (ticks - s.acc.onTime) s2 with
              | mk s3 w3 => rw [hr] at ih; simpa using ih
        · split
          · split
            · rfl
            · have hs := settleO_state song root pd (decide (ticks - s.acc.offTime ≠ 0)) false settleFuel
                { s with acc := { s.acc with offTime := 0, playTime := s.acc.playTime + s.acc.offTime } }
              cases hq : settleO song root pd (decide (ticks - s.acc.offTime ≠ 0)) settleFuel
                { s with acc := { s.acc with offTime := 0, playTime := s.acc.playTime + s.acc.offTime } } with
              | mk s2 w =>
                rw [hq] at hs
                simp only [settle, ← hs]
                have ih := skipLoopO_state fuel (ticks - s.acc.offTime) s2
                cases hr : skipLoopO song root pd fuel (ticks - s.acc.offTime) s2 with
                | mk s3 w3 => rw [hr] at ih; simpa using ih
          · have hs := settleO_state song root pd (decide (ticks ≠ 0)) false settleFuel s
            cases hq : settleO song root pd (decide (ticks ≠ 0)) settleFuel s with
            | mk s2 w =>
              rw [hq] at hs
              simp only [settle, ← hs]
              have ih := skipLoopO_state fuel ticks s2
              cases hr : skipLoopO song root pd fuel ticks s2 with
              | mk s3 w3 => rw [hr] at ih; simpa using ih

def iter {α : Type} (f : α → α) : Nat → α → α
  | 0, a => a
  | n + 1, a => iter f n (f a)

theorem iter_add {α : Type} (f : α → α) (a b : Nat) (x : α) : iter f (a + b) x = iter f b (iter f a x) := by
  induction a generalizing x with
  | zero => simp [iter]
  | succ a ih => rw [Nat.succ_add]; simp [iter, ih]

/-- still playing and no error -/
def alive (s : PS) : Prop := s.acc.enabled = true ∧ s.err = none


def setOn (s : PS) (on t : Nat) : PS := { s with acc := { s.acc with onTime := on, playTime := t } }
def setOff (s : PS) (off t : Nat) : PS := { s with acc := { s.acc with offTime := off, playTime := t } }

theorem isSettled_of_on {s : PS} (h : s.acc.onTime > 0) : isSettled s = true := by
  simp [isSettled, h]
theorem isSettled_of_off {s : PS} (h : s.acc.offTime > 0) : isSettled s = true := by
  simp [isSettled, h]

/-- n play ticks from a state with `on > n` just count down -/
theorem play_on : ∀ (n : Nat) (s : PS), s.err = none → s.acc.onTime > n →
    iter (playTickS song root pd) n s = setOn s (s.acc.onTime - n) (s.acc.playTime + n)
  | 0, s, _, _ => by simp [iter, setOn]
  | n + 1, s, he, h => by
    have h1 : s.acc.onTime > 0 := by omega
    have hs : playTickS song root pd s = setOn s (s.acc.onTime - 1) (s.acc.playTime + 1) := by
      unfold playTickS
      have hs' : s.err.isSome = false := by simp [he]
      simp only [hs', Bool.false_eq_true, if_false, h1, if_true]
      show settle song root pd (setOn s (s.acc.onTime - 1) (s.acc.playTime + 1)) = _
      apply settle_fix
      apply isSettled_of_on
      show s.acc.onTime - 1 > 0
      omega
    simp only [iter, hs]
    rw [play_on n _ (by simpa [setOn] using he) (by show s.acc.onTime - 1 > n; omega)]
    simp only [setOn]
    congr 2 <;> first | omega | (simp only [setOn, setOff]; omega) | rfl

theorem play_on_exact (s : PS) (he : s.err = none) (h : s.acc.onTime > 0) :
    iter (playTickS song root pd) s.acc.onTime s
      = settle song root pd (setOn s 0 (s.acc.playTime + s.acc.onTime)) := by
  have h1 := play_on song root pd (s.acc.onTime - 1) s he (by omega)
  have hsplit : s.acc.onTime = (s.acc.onTime - 1) + 1 := by omega
  rw [hsplit, iter_add, h1]
  simp only [iter]
  unfold playTickS
  have e1 : (setOn s (s.acc.onTime - (s.acc.onTime - 1)) (s.acc.playTime + (s.acc.onTime - 1))).err = none := by
    simpa [setOn] using he
  have e2 : (setOn s (s.acc.onTime - (s.acc.onTime - 1)) (s.acc.playTime + (s.acc.onTime - 1))).acc.onTime > 0 := by
    show s.acc.onTime - (s.acc.onTime - 1) > 0; omega
  have e1' : (setOn s (s.acc.onTime - (s.acc.onTime - 1)) (s.acc.playTime + (s.acc.onTime - 1))).err.isSome = false := by
    simp [e1]
  simp only [e1', Bool.false_eq_true, if_false, e2, if_true]
  congr 1
  simp only [setOn]
  congr 2 <;> first | omega | (simp only [setOn, setOff]; omega) | rfl

theorem play_off : ∀ (n : Nat) (s : PS), s.err = none → s.acc.onTime = 0 → s.acc.offTime > n →
    iter (playTickS song root pd) n s = setOff s (s.acc.offTime - n) (s.acc.playTime + n)
  | 0, s, _, _, _ => by simp [iter, setOff]
  | n + 1, s, he, h0, h => by
    have h1 : s.acc.offTime > 0 := by omega
    have hs : playTickS song root pd s = setOff s (s.acc.offTime - 1) (s.acc.playTime + 1) := by
      unfold playTickS
      have hs' : s.err.isSome = false := by simp [he]
      have hon' : ¬ (s.acc.onTime > 0) := by omega
      simp only [hs', Bool.false_eq_true, if_false, hon', h1, if_true]
      show settle song root pd (setOff s (s.acc.offTime - 1) (s.acc.playTime + 1)) = _
      apply settle_fix
      apply isSettled_of_off
      show s.acc.offTime - 1 > 0
      omega
    simp only [iter, hs]
    rw [play_off n _ (by simpa [setOff] using he) (by simpa [setOff] using h0)
      (by show s.acc.offTime - 1 > n; omega)]
    simp only [setOff]
    congr 2 <;> first | omega | (simp only [setOn, setOff]; omega) | rfl

theorem play_off_exact (s : PS) (he : s.err = none) (h0 : s.acc.onTime = 0) (h : s.acc.offTime > 0) :
    iter (playTickS song root pd) s.acc.offTime s
      = settle song root pd (setOff s 0 (s.acc.playTime + s.acc.offTime)) := by
  have h1 := play_off song root pd (s.acc.offTime - 1) s he h0 (by omega)
  have hsplit : s.acc.offTime = (s.acc.offTime - 1) + 1 := by omega
  rw [hsplit, iter_add, h1]
  simp only [iter]
  unfold playTickS
  have e1 : (setOff s (s.acc.offTime - (s.acc.offTime - 1)) (s.acc.playTime + (s.acc.offTime - 1))).err = none := by
    simpa [setOff] using he
  have e0 : (setOff s (s.acc.offTime - (s.acc.offTime - 1)) (s.acc.playTime + (s.acc.offTime - 1))).acc.onTime = 0 := by
    simpa [setOff] using h0
  have e2 : (setOff s (s.acc.offTime - (s.acc.offTime - 1)) (s.acc.playTime + (s.acc.offTime - 1))).acc.offTime > 0 := by
    show s.acc.offTime - (s.acc.offTime - 1) > 0; omega
  have e1' : (setOff s (s.acc.offTime - (s.acc.offTime - 1)) (s.acc.playTime + (s.acc.offTime - 1))).err.isSome = false := by
    simp [e1]
  have e0' : ¬ ((setOff s (s.acc.offTime - (s.acc.offTime - 1)) (s.acc.playTime + (s.acc.offTime - 1))).acc.onTime > 0) := by
    omega
  simp only [e1', Bool.false_eq_true, if_false, e0', e2, if_true]
  congr 1
  simp only [setOff]
  congr 2 <;> first | omega | (simp only [setOn, setOff]; omega) | rfl

/-- **the loop of `skip_ticks` is `ticks` single ticks**, from any settled state, as long as the
track is alive at every earlier tick -/
theorem skip_eq_play : ∀ (fuel ticks : Nat) (s : PS), fuel > ticks → isSettled s = true →
    (∀ k, k < ticks → alive (iter (playTickS song root pd) k s)) →
    skipLoopS song root pd fuel ticks s = iter (playTickS song root pd) ticks s
  | 0, ticks, s, hf, _, _ => by omega
  | fuel + 1, ticks, s, hf, hs, hen => by
    unfold skipLoopS
    by_cases ht : ticks = 0
    · subst ht
      have : ({ s with acc := { s.acc with playTime := s.acc.playTime + 0 } } : PS) = s := by simp
      by_cases he : s.err.isSome
      · simp [he, iter]
      · simp [he, iter]
    · have hal : alive s := by simpa [iter] using hen 0 (by omega)
      obtain ⟨hen0, herr0⟩ := hal
      have hc : ¬ (ticks = 0 ∨ s.acc.enabled = false) := by simp [ht, hen0]
      have herr0' : s.err.isSome = false := by simp [herr0]
      simp only [herr0', Bool.false_eq_true, if_false, hc]
      by_cases hon : s.acc.onTime > 0
      · simp only [hon, if_true]
        by_cases hgt : s.acc.onTime > ticks
        · simp only [hgt, if_true]
          exact (play_on song root pd ticks s herr0 hgt).symm
        · simp only [hgt, if_false]
          have hsplit : ticks = s.acc.onTime + (ticks - s.acc.onTime) := by omega
          rw [hsplit, iter_add, play_on_exact song root pd s herr0 hon]
          have : s.acc.onTime + (ticks - s.acc.onTime) - s.acc.onTime = ticks - s.acc.onTime := by omega
          rw [this]
          apply skip_eq_play fuel (ticks - s.acc.onTime) _ (by omega) (settle_settled song root pd _)
          intro k hk
          have := hen (s.acc.onTime + k) (by omega)
          rwa [iter_add, play_on_exact song root pd s herr0 hon] at this
      · simp only [hon, if_false]
        have hon0 : s.acc.onTime = 0 := by omega
        by_cases hoff : s.acc.offTime > 0
        · simp only [hoff, if_true]
          by_cases hgt : s.acc.offTime > ticks
          · simp only [hgt, if_true]
            exact (play_off song root pd ticks s herr0 hon0 hgt).symm
          · simp only [hgt, if_false]
            have hsplit : ticks = s.acc.offTime + (ticks - s.acc.offTime) := by omega
            rw [hsplit, iter_add, play_off_exact song root pd s herr0 hon0 hoff]
            have : s.acc.offTime + (ticks - s.acc.offTime) - s.acc.offTime = ticks - s.acc.offTime := by omega
            rw [this]
            apply skip_eq_play fuel (ticks - s.acc.offTime) _ (by omega) (settle_settled song root pd _)
            intro k hk
            have := hen (s.acc.offTime + k) (by omega)
            rwa [iter_add, play_off_exact song root pd s herr0 hon0 hoff] at this
        · exfalso
          simp [isSettled, hen0, herr0] at hs
          omega

end
end Ctrmml.PlayerCh
