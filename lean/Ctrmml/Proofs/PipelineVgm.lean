/-
  Helper theorems for Properties/C15: the foreign outcomes of the vgm export stage
  (`DErr.nonInteger`, `DErr.oob`, `DErr.vgm _`) on the data `read_song` builds.
-/
import Ctrmml.Proofs.PipelineVgmTrace
import Ctrmml.Proofs.PipelineCompose
namespace Ctrmml.Pipeline
open Ctrmml Ctrmml.MdDriver Tables Ctrmml.Pipeline.VgmTr

/-- the driver part of `exportSong` decides every error but `input` / `vgm _` -/
theorem exportSong_error {d : Data} {song : Song} {m : TagMap} {st : Stamps} {e : DErr}
    (h : exportSong d song m st = .error e) :
    exportOps d song (finalTags m st) = .error e ∨ e = .input ∨ ∃ v, e = .vgm v := by
  unfold exportSong exportVgm at h
  split at h
  · rename_i e' he'
    cases h
    exact .inl he'
  · split at h
    · cases h; exact .inr (.inl rfl)
    · cases h; exact .inr (.inr ⟨_, rfl⟩)
    · cases h

/-- **`DErr.nonInteger` is unreachable**, for EVERY instrument data, song and tag map: the step
clock of `play_step` stays on the 147-sample grid (`ClockInv`), and no channel code raises it. -/
theorem vgm_never_nonInteger (d : Data) (song : Song) (m : TagMap) (st : Stamps) :
    exportSong d song m st ≠ .error .nonInteger := by
  intro h
  rcases exportSong_error h with h | h | ⟨v, h⟩
  · exact exportOps_errIn (S := fun e => e ≠ .nonInteger) (by decide) (by decide) (.inl (by decide)) (by decide)
      song _ _ h rfl
  · cases h
  · cases h

/-- **`DErr.oob` is unreachable when the data is well formed** (`DataOK`): every PSG envelope has the
shape the stepper needs, every PCM instrument's sample index is inside `wave_rom`'s header list. -/
theorem vgm_never_oob_of_dataOK (d : Data) (hd : DataOK d) (song : Song) (m : TagMap) (st : Stamps) :
    exportSong d song m st ≠ .error .oob := by
  intro h
  rcases exportSong_error h with h | h | ⟨v, h⟩
  · exact exportOps_errIn (S := fun e => e ≠ .oob) (by decide) (by decide) (.inr hd) (by decide)
      song _ _ h rfl
  · cases h
  · cases h

/-! ### the data `read_song` builds -/

theorem lookup_map_ins (f : Nat → Int → Ins) (l : List (Nat × Int)) (id : Nat) :
    (l.map fun (p : Nat × Int) => (p.1, f p.1 p.2)).lookup id = (MdsData.mget l id).map (f id) := by
  induction l with
  | nil => rfl
  | cons kv l ih =>
    obtain ⟨k, v⟩ := kv
    by_cases hk : id = k
    · subst hk
      simp [List.lookup, MdsData.mget, List.find?]
    · have h1 : (id == k) = false := by simp [hk]
      have h2 : (k == id) = false := by simp; exact fun e => hk e.symm
      simp only [List.map_cons, List.lookup, h1, ih]
      simp only [MdsData.mget, List.find?, h2]

/-- what the driver reads for instrument `id` -/
theorem driverDataOf_get (d : MdsFile.DState) (files : List (String × Bytes)) (tags : List (String × List String)) (id : Nat) :
    (driverDataOf d files tags).get id =
      match MdsData.mget d.st.tyMap id with
      | some ty => { type := ty.toNat,
                     data := d.st.bank.getD ((MdsData.mget d.st.envMap id).getD 0).toNat [],
                     transpose := if ty = (mdsdrv_INS_PCM : Int) then 0 else (MdsData.mget d.st.trMap id).getD 0 }
      | none => { type := mdsdrv_INS_UNDEFINED, data := md_default_psg_env, transpose := 0 } := by
  unfold Data.get driverDataOf
  simp only
  rw [lookup_map_ins (fun id ty => Ins.mk ty.toNat (d.st.bank.getD ((MdsData.mget d.st.envMap id).getD 0).toNat []) (if ty = (mdsdrv_INS_PCM : Int) then 0 else (MdsData.mget d.st.trMap id).getD 0))]
  cases MdsData.mget d.st.tyMap id <;> rfl

theorem envAt_default : EnvAt md_default_psg_env 3 := by
  refine ⟨by decide, fun p hp => ?_, .inl (by decide)⟩
  have : p = 0 ∨ p = 1 ∨ p = 2 := by omega
  rcases this with rfl | rfl | rfl <;> decide

/-- every PSG-typed instrument of `read_song`'s result has a well-formed envelope -/
def PsgEnvsOK (d : MdsFile.DState) : Prop :=
  ∀ id ty, MdsData.mget d.st.tyMap id = some ty → ty.toNat = mdsdrv_INS_PSG →
    EnvOK (d.st.bank.getD ((MdsData.mget d.st.envMap id).getD 0).toNat [])

/-- every PCM-typed instrument of `read_song`'s result has its sample in the replayed `wave_rom` -/
def WaveMapOK (d : MdsFile.DState) (files : List (String × Bytes)) (tags : List (String × List String)) : Prop :=
  ∀ id ty, MdsData.mget d.st.tyMap id = some ty → ty.toNat = mdsdrv_INS_PCM →
    ((waveMapOf files tags).2.lookup id).getD 0 < (waveMapOf files tags).1.samples.length

theorem dataOK_driverDataOf (d : MdsFile.DState) (files : List (String × Bytes)) (tags : List (String × List String))
    (hp : PsgEnvsOK d) (hw : WaveMapOK d files tags) : DataOK (driverDataOf d files tags) := by
  refine ⟨⟨3, envAt_default, Nat.le_refl _⟩, fun id ht => ?_, fun id ht => ?_⟩
  · rw [driverDataOf_get] at ht ⊢
    cases hm : MdsData.mget d.st.tyMap id with
    | none => rw [hm] at ht; cases ht
    | some ty =>
      rw [hm] at ht
      simp only at ht ⊢
      exact hp id ty hm ht
  · rw [driverDataOf_get] at ht
    cases hm : MdsData.mget d.st.tyMap id with
    | none => rw [hm] at ht; cases ht
    | some ty =>
      rw [hm] at ht
      exact hw id ty hm ht

/-- `DErr.oob` is unreachable on the data `read_song` builds — PARTIAL: the two named hypotheses
`PsgEnvsOK d` (every PSG-typed instrument's stored bytes have the envelope shape; what is left is the
induction over `read_song`'s tag loop + the shape of `psgCompile`'s output, which for `Arith.float`
needs C11's `SlideOK Arith.float`) and `WaveMapOK d files tags` (the replayed `wave_map` of
`waveMapOf` has an entry inside the replayed bank for every PCM-typed id; what is left is that the
fold of `waveMapOf` and the `pcm` branch of `MdsFile.readTags` make the same `addSampleTag` calls). -/
theorem vgm_never_oob_partial (inp : MdsFile.Input) (d : MdsFile.DState)
    (_hd : MdsFile.readSong MdsData.Arith.float inp.files inp.tags = .ok d)
    (hp : PsgEnvsOK d) (hw : WaveMapOK d inp.files inp.tags) (tm : TagMap) (st : Stamps) :
    exportSong (driverDataOf d inp.files inp.tags) inp.song tm st ≠ .error .oob :=
  vgm_never_oob_of_dataOK _ (dataOK_driverDataOf d inp.files inp.tags hp hw) _ _ _

/-- the full statement for `oob` -/
def vgm_never_oob_full_statement : Prop :=
  ∀ (inp : MdsFile.Input) (d : MdsFile.DState),
    MdsFile.readSong MdsData.Arith.float inp.files inp.tags = .ok d → ∀ (tm : TagMap) (st : Stamps),
    exportSong (driverDataOf d inp.files inp.tags) inp.song tm st ≠ .error .oob

/-- the hypotheses of `vgm_never_oob_partial` are met by the data of a song without instruments -/
example : PsgEnvsOK { st := MdsData.initState false } ∧ WaveMapOK { st := MdsData.initState false } [] [] := by
  constructor
  · intro id ty hm ht
    simp only [MdsData.initState, MdsData.mget, List.find?] at hm
    split at hm
    · simp only [Option.map_some, Option.some.injEq] at hm; subst hm; cases ht
    · cases hm
  · intro id ty hm ht
    simp only [MdsData.initState, MdsData.mget, List.find?] at hm
    split at hm
    · simp only [Option.map_some, Option.some.injEq] at hm; subst hm; cases ht
    · cases hm

end Ctrmml.Pipeline
